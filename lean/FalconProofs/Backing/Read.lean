/-
  FalconProofs.Backing.Read — `section_address`, `get8`, `permissions` on a well-formed section list
  read the byte map `abs`; they never panic.
-/
import FalconProofs.Backing.SMap

namespace Falcon.Backing
open Memory

theorem find_of_mem {m : SMap} (hp : m.Pairwise Rel) {e : Entry} (he : e ∈ m) : SMap.find m e.1 = some e.2 := by
  induction m with
  | nil => simp at he
  | cons hd t ih =>
    obtain ⟨k, v⟩ := hd
    rw [List.pairwise_cons] at hp
    rcases List.mem_cons.mp he with he | he
    · subst he; simp [SMap.find]
    · have := hp.1 e he
      unfold Rel at this
      have hk : k ≠ e.1 := by simp only at this; omega
      simp only [SMap.find, hk, ↓reduceIte]
      exact ih hp.2 he

theorem floor_mem {m : SMap} {x : Nat} {e : Entry} (h : SMap.floor m x = some e) : e ∈ m ∧ e.1 ≤ x := by
  induction m with
  | nil => simp [SMap.floor] at h
  | cons hd t ih =>
    obtain ⟨k, v⟩ := hd
    simp only [SMap.floor] at h
    split at h
    · rename_i hk
      cases hf : SMap.floor t x with
      | none => rw [hf] at h; simp at h; subst h; exact ⟨by simp, hk⟩
      | some e' =>
        rw [hf] at h; simp at h; subst h
        have := ih hf
        exact ⟨by simp [this.1], this.2⟩
    · simp at h

theorem floor_none_of_gt {m : SMap} {x : Nat} (h : ∀ e ∈ m, x < e.1) : SMap.floor m x = none := by
  cases m with
  | nil => rfl
  | cons hd t =>
    obtain ⟨k, v⟩ := hd
    have := h (k, v) (by simp)
    have hk : ¬ k ≤ x := by simp only at this; omega
    simp [SMap.floor, hk]

/-- the greatest key `≤ x` is the key of the section covering `x`, if there is one -/
theorem floor_of_covers {m : SMap} (hp : m.Pairwise Rel) {e : Entry} (he : e ∈ m) {x : Nat} (h1 : e.1 ≤ x)
    (h2 : x < e.1 + e.2.data.length) : SMap.floor m x = some e := by
  induction m with
  | nil => simp at he
  | cons hd t ih =>
    obtain ⟨k, v⟩ := hd
    rw [List.pairwise_cons] at hp
    rcases List.mem_cons.mp he with he | he
    · subst he
      have hn : SMap.floor t x = none := by
        apply floor_none_of_gt
        intro b hb; have := hp.1 b hb; unfold Rel at this; simp only at this h2; omega
      simp only at h1
      simp [SMap.floor, h1, hn]
    · have := hp.1 e he
      unfold Rel at this
      have hk : k ≤ x := by simp only at this; omega
      simp [SMap.floor, hk, ih hp.2 he]

theorem sectionAddress_covered {m : Memory} (hinv : Inv m.sections) {e : Entry} (he : e ∈ m.sections) {x : Nat}
    (h1 : e.1 ≤ x) (h2 : x < e.1 + e.2.data.length) : m.sectionAddress x = .ok (some e.1) := by
  unfold sectionAddress
  rw [floor_of_covers hinv.pairwise he h1 h2]
  have hb := hinv.bounded e he
  simp only [h1, ↓reduceIte, add64, hb]
  have : e.1 + e.2.data.length > x := h2
  simp [this]

theorem sectionAddress_unmapped {m : Memory} (hinv : Inv m.sections) {x : Nat}
    (h : ∀ e ∈ m.sections, ¬ (e.1 ≤ x ∧ x < e.1 + e.2.data.length)) : m.sectionAddress x = .ok none := by
  unfold sectionAddress
  cases hf : SMap.floor m.sections x with
  | none => rfl
  | some e =>
    have hm := floor_mem hf
    have hb := hinv.bounded e hm.1
    have hn := h e hm.1
    obtain ⟨k, s⟩ := e
    simp only at hm hb hn
    simp only [hm.2, ↓reduceIte, add64, hb]
    have : ¬ (k + s.data.length > x) := by omega
    simp [this]

/-- `get8` reads the byte of the byte map; it never panics on a well-formed memory -/
theorem get8_eq {m : Memory} (hinv : Inv m.sections) (x : Nat) :
    m.get8 x = .ok ((abs m.sections x).map Prod.fst) := by
  rcases abs_cases hinv.pairwise x with ⟨e, he, h1, h2, habs⟩ | ⟨hnone, habs⟩
  · have hlt : x - e.1 < e.2.data.length := by omega
    rw [habs]
    unfold get8
    rw [sectionAddress_covered hinv he h1 h2]
    simp only [find_of_mem hinv.pairwise he, List.getElem?_eq_getElem hlt]
    simp
  · rw [habs]
    unfold get8
    rw [sectionAddress_unmapped hinv hnone]
    rfl

/-- `permissions` reads the permissions of the byte map; it never panics on a well-formed memory -/
theorem permissions_eq {m : Memory} (hinv : Inv m.sections) (x : Nat) :
    m.permissions x = .ok ((abs m.sections x).map Prod.snd) := by
  rcases abs_cases hinv.pairwise x with ⟨e, he, h1, h2, habs⟩ | ⟨hnone, habs⟩
  · have hlt : x - e.1 < e.2.data.length := by omega
    rw [habs]
    unfold permissions
    rw [sectionAddress_covered hinv he h1 h2]
    simp only [find_of_mem hinv.pairwise he, List.getElem?_eq_getElem hlt]
    simp
  · rw [habs]
    unfold permissions
    rw [sectionAddress_unmapped hinv hnone]
    rfl

/-- a mapped address and its successor are below `2^64` -/
theorem abs_some_lt {m : SMap} (hinv : Inv m) {x : Nat} {v : UInt8 × Perm} (h : abs m x = some v) :
    x + 1 < U64 := by
  obtain ⟨e, he, h1, h2⟩ := abs_some_covered h
  have := hinv.bounded e he
  omega

end Falcon.Backing
