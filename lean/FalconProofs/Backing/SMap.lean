/-
  FalconProofs.Backing.SMap — the sorted association list behind `backing::Memory`:
  `SMap.find`/`SMap.insert`/`SMap.erase`/`floor` at a known position, membership after `SMap.insert`, and the byte map `abs`
  in terms of membership.
-/
import FalconModel.Backing

namespace Falcon.Backing

/-! ### operations at a known position `pre ++ (a, s) :: post` -/

theorem find_mid (pre post : SMap) (a : Nat) (s : Section) (hpre : ∀ x ∈ pre, x.1 < a) :
    SMap.find (pre ++ (a, s) :: post) a = some s := by
  induction pre with
  | nil => simp [SMap.find]
  | cons h t ih =>
    obtain ⟨k, v⟩ := h
    have hk : k < a := hpre (k, v) (by simp)
    have : k ≠ a := by omega
    simp only [List.cons_append, SMap.find, this, ↓reduceIte]
    exact ih (fun x hx => hpre x (by simp [hx]))

theorem insert_mid_replace (pre post : SMap) (a : Nat) (s s' : Section) (hpre : ∀ x ∈ pre, x.1 < a) :
    SMap.insert a s' (pre ++ (a, s) :: post) = pre ++ (a, s') :: post := by
  induction pre with
  | nil => simp [SMap.insert]
  | cons h t ih =>
    obtain ⟨k, v⟩ := h
    have hk : k < a := hpre (k, v) (by simp)
    simp only [List.cons_append, SMap.insert, hk, ↓reduceIte]
    rw [ih (fun x hx => hpre x (by simp [hx]))]

theorem insert_mid_new (pre post : SMap) (k : Nat) (v : Section) (hpre : ∀ x ∈ pre, x.1 < k)
    (hpost : ∀ x ∈ post, k < x.1) : SMap.insert k v (pre ++ post) = pre ++ (k, v) :: post := by
  induction pre with
  | nil =>
    cases post with
    | nil => simp [SMap.insert]
    | cons h t =>
      obtain ⟨k', v'⟩ := h
      have hk : k < k' := hpost (k', v') (by simp)
      have h1 : ¬ k' < k := by omega
      have h2 : ¬ k' = k := by omega
      simp [SMap.insert, h1, h2]
  | cons h t ih =>
    obtain ⟨k', v'⟩ := h
    have hk : k' < k := hpre (k', v') (by simp)
    simp only [List.cons_append, SMap.insert, hk, ↓reduceIte]
    rw [ih (fun x hx => hpre x (by simp [hx]))]

theorem erase_mid (pre post : SMap) (a : Nat) (s : Section) (hpre : ∀ x ∈ pre, x.1 < a)
    (hpost : ∀ x ∈ post, a < x.1) : SMap.erase a (pre ++ (a, s) :: post) = pre ++ post := by
  have h1 : pre.filter (fun e => decide (e.1 ≠ a)) = pre := by
    apply List.filter_eq_self.mpr
    intro x hx; have := hpre x hx; simp; omega
  have h2 : post.filter (fun e => decide (e.1 ≠ a)) = post := by
    apply List.filter_eq_self.mpr
    intro x hx; have := hpost x hx; simp; omega
  unfold SMap.erase
  rw [List.filter_append, List.filter_cons, h1, h2]
  simp

/-! ### membership after `SMap.insert` -/

theorem mem_insert {k : Nat} {v : Section} {m : SMap} {x : Entry} (h : x ∈ SMap.insert k v m) :
    x = (k, v) ∨ x ∈ m := by
  induction m with
  | nil => simp [SMap.insert] at h; exact Or.inl h
  | cons hd t ih =>
    obtain ⟨k', v'⟩ := hd
    simp only [SMap.insert] at h
    split at h
    · rcases List.mem_cons.mp h with h | h
      · right; simp [h]
      · rcases ih h with h | h
        · exact Or.inl h
        · right; simp [h]
    · split at h
      · rcases List.mem_cons.mp h with h | h
        · exact Or.inl h
        · right; simp [h]
      · rcases List.mem_cons.mp h with h | h
        · exact Or.inl h
        · exact Or.inr h

theorem mem_insert_self (k : Nat) (v : Section) (m : SMap) : (k, v) ∈ SMap.insert k v m := by
  induction m with
  | nil => simp [SMap.insert]
  | cons hd t ih =>
    obtain ⟨k', v'⟩ := hd
    simp only [SMap.insert]
    split
    · simp [ih]
    · split <;> simp

theorem mem_insert_of_mem {k : Nat} {v : Section} {m : SMap} {x : Entry} (h : x ∈ m) (hk : x.1 ≠ k) :
    x ∈ SMap.insert k v m := by
  induction m with
  | nil => simp at h
  | cons hd t ih =>
    obtain ⟨k', v'⟩ := hd
    by_cases h1 : k' < k
    · simp only [SMap.insert, h1, ↓reduceIte]
      rcases List.mem_cons.mp h with h | h
      · simp [h]
      · simp [ih h]
    · by_cases h2 : k' = k
      · simp only [SMap.insert, h2, ↓reduceIte]
        rcases List.mem_cons.mp h with h | h
        · subst h; exact absurd h2 hk
        · simp [h]
      · simp only [SMap.insert, h1, h2, ↓reduceIte]
        simp [List.mem_cons.mp h]

/-! ### the invariant -/

theorem inv_nil : Inv ([] : SMap) := ⟨List.Pairwise.nil, by simp, by simp⟩

/-- at most one entry covers an address -/
theorem covers_unique {m : SMap} (hp : m.Pairwise Rel) {e e' : Entry} (he : e ∈ m) (he' : e' ∈ m) {x : Nat}
    (h1 : e.1 ≤ x) (h2 : x < e.1 + e.2.data.length) (h1' : e'.1 ≤ x) (h2' : x < e'.1 + e'.2.data.length) :
    e = e' := by
  induction m with
  | nil => simp at he
  | cons hd t ih =>
    rw [List.pairwise_cons] at hp
    rcases List.mem_cons.mp he with he | he
    · rcases List.mem_cons.mp he' with he' | he'
      · rw [he, he']
      · have := hp.1 e' he'
        rw [← he] at this
        unfold Rel at this; omega
    · rcases List.mem_cons.mp he' with he' | he'
      · have := hp.1 e he
        rw [← he'] at this
        unfold Rel at this; omega
      · exact ih hp.2 he he'

theorem covers_iff (x : Nat) (e : Entry) : covers x e = true ↔ e.1 ≤ x ∧ x < e.1 + e.2.data.length := by
  simp [covers]

/-- `abs` reads the entry that covers the address -/
theorem abs_of_mem {m : SMap} (hp : m.Pairwise Rel) {e : Entry} (he : e ∈ m) {x : Nat}
    (h1 : e.1 ≤ x) (h2 : x < e.1 + e.2.data.length) :
    abs m x = (e.2.data[x - e.1]?).map (fun b => (b, e.2.perm)) := by
  unfold abs
  cases hf : m.find? (covers x) with
  | none =>
    rw [List.find?_eq_none] at hf
    have := hf e he
    rw [covers_iff] at this
    exact absurd ⟨h1, h2⟩ this
  | some e' =>
    have hm := List.mem_of_find?_eq_some hf
    have hc := List.find?_some hf
    rw [covers_iff] at hc
    have : e = e' := covers_unique hp he hm h1 h2 hc.1 hc.2
    subst this; rfl

theorem abs_none {m : SMap} {x : Nat} (h : ∀ e ∈ m, ¬ (e.1 ≤ x ∧ x < e.1 + e.2.data.length)) :
    abs m x = none := by
  unfold abs
  have : m.find? (covers x) = none := by
    rw [List.find?_eq_none]
    intro e he; rw [covers_iff]; exact h e he
  rw [this]

/-- an address is either covered by exactly one entry, read by `abs`, or unmapped -/
theorem abs_cases {m : SMap} (hp : m.Pairwise Rel) (x : Nat) :
    (∃ e ∈ m, e.1 ≤ x ∧ x < e.1 + e.2.data.length ∧
        abs m x = (e.2.data[x - e.1]?).map (fun b => (b, e.2.perm))) ∨
    ((∀ e ∈ m, ¬ (e.1 ≤ x ∧ x < e.1 + e.2.data.length)) ∧ abs m x = none) := by
  by_cases h : ∃ e ∈ m, e.1 ≤ x ∧ x < e.1 + e.2.data.length
  · obtain ⟨e, he, h1, h2⟩ := h
    exact Or.inl ⟨e, he, h1, h2, abs_of_mem hp he h1 h2⟩
  · right
    have h' : ∀ e ∈ m, ¬ (e.1 ≤ x ∧ x < e.1 + e.2.data.length) := fun e he hc => h ⟨e, he, hc⟩
    exact ⟨h', abs_none h'⟩

theorem abs_some_covered {m : SMap} {x : Nat} {v : UInt8 × Perm} (h : abs m x = some v) :
    ∃ e ∈ m, e.1 ≤ x ∧ x < e.1 + e.2.data.length := by
  unfold abs at h
  cases hf : m.find? (covers x) with
  | none => rw [hf] at h; simp at h
  | some e =>
    have hc := List.find?_some hf
    rw [covers_iff] at hc
    exact ⟨e, List.mem_of_find?_eq_some hf, hc⟩

/-- inserting a non-empty region that no stored section touches keeps the list sorted and disjoint -/
theorem pairwise_insert {m : SMap} (hp : m.Pairwise Rel) (A : Nat) (v : Section) (hv : 0 < v.data.length)
    (hd : ∀ x ∈ m, x.1 + x.2.data.length ≤ A ∨ A + v.data.length ≤ x.1)
    (hne : ∀ x ∈ m, 0 < x.2.data.length) : (SMap.insert A v m).Pairwise Rel := by
  induction m with
  | nil => simp [SMap.insert]
  | cons hd' t ih =>
    obtain ⟨k', v'⟩ := hd'
    rw [List.pairwise_cons] at hp
    have hd0 := hd (k', v') (by simp)
    have hne0 := hne (k', v') (by simp)
    simp only at hd0 hne0
    have iht := ih hp.2 (fun x hx => hd x (by simp [hx])) (fun x hx => hne x (by simp [hx]))
    simp only [SMap.insert]
    split
    · rename_i hlt
      rw [List.pairwise_cons]
      refine ⟨?_, iht⟩
      intro b hb
      rcases mem_insert hb with hb | hb
      · subst hb; unfold Rel; simp only; omega
      · exact hp.1 b hb
    · split
      · rename_i h1 h2
        omega
      · rename_i h1 h2
        rw [List.pairwise_cons]
        refine ⟨?_, List.pairwise_cons.mpr hp⟩
        intro b hb
        have hb1 : k' ≤ b.1 := by
          rcases List.mem_cons.mp hb with hb | hb
          · subst hb; simp
          · have := hp.1 b hb; unfold Rel at this; simp only at this; omega
        have := hd b hb
        have hbne := hne b hb
        unfold Rel; simp only; omega

end Falcon.Backing
