/-
  FalconProofs.Backing.SetMemory — `set_memory`: the adjustment loop over the snapshot equals a per-section
  rewrite (`adjustEntry`), which keeps the invariant and realises `override` on the byte map.
-/
import FalconProofs.Backing.SMap

namespace Falcon.Backing
open Memory

/-- what the loop of `set_memory(A, data)` (`n = data.len()`) turns one stored section into -/
def adjustEntry (A n : Nat) (e : Entry) : List Entry :=
  if e.1 < A then
    if e.1 + e.2.data.length > A then
      if e.1 + e.2.data.length ≤ A + n then [(e.1, ⟨e.2.data.take (A - e.1), e.2.perm⟩)]
      else [(e.1, ⟨e.2.data.take (A - e.1), e.2.perm⟩), (A + n, ⟨e.2.data.drop (A + n - e.1), e.2.perm⟩)]
    else [e]
  else if e.1 + e.2.data.length ≤ A + n then []
  else if e.1 < A + n then [(A + n, ⟨e.2.data.drop (A + n - e.1), e.2.perm⟩)]
  else [e]

theorem add64_ok {x y : Nat} (h : x + y < U64) : add64 x y = .ok (x + y) := by simp [add64, h]

/-- one iteration of the loop, on the entry it is about, in place -/
theorem adjustStep_mid (A n : Nat) (hE : A + n < U64) (pre post : SMap) (e : Entry)
    (hpre : ∀ x ∈ pre, x.1 < e.1) (hpost : ∀ x ∈ post, e.1 + e.2.data.length ≤ x.1)
    (hne : 0 < e.2.data.length) (hb : e.1 + e.2.data.length < U64) :
    adjustStep A n (pre ++ e :: post) e.1 e.2.data.length = .ok (pre ++ adjustEntry A n e ++ post) := by
  obtain ⟨a, s⟩ := e
  simp only at hpre hpost hne hb
  have hfind : SMap.find (pre ++ (a, s) :: post) a = some s := find_mid pre post a s hpre
  have hpostgt : ∀ x ∈ post, a < x.1 := fun x hx => by have := hpost x hx; omega
  unfold adjustStep adjustEntry
  simp only [add64_ok hb, add64_ok hE]
  by_cases h1 : a < A
  · simp only [h1, ↓reduceIte]
    by_cases h2 : a + s.data.length > A
    · simp only [h2, ↓reduceIte, bind, Res.bind]
      by_cases h3 : a + s.data.length ≤ A + n
      · simp only [h3, ↓reduceIte, truncateAt, hfind]
        rw [insert_mid_replace pre post a s _ hpre]
        simp
      · simp only [h3, ↓reduceIte, splitOffAt, hfind]
        have hoff : ¬ (A + n - a > s.data.length) := by omega
        simp only [hoff, ↓reduceIte]
        rw [insert_mid_replace pre post a s _ hpre]
        simp only [permAt, find_mid pre post a _ hpre]
        have hins : SMap.insert (A + n) ⟨s.data.drop (A + n - a), s.perm⟩
              (pre ++ (a, { data := s.data.take (A + n - a), perm := s.perm }) :: post)
            = pre ++ (a, { data := s.data.take (A + n - a), perm := s.perm })
                :: (A + n, ⟨s.data.drop (A + n - a), s.perm⟩) :: post := by
          have := insert_mid_new (pre ++ [(a, { data := s.data.take (A + n - a), perm := s.perm })]) post (A + n)
            ⟨s.data.drop (A + n - a), s.perm⟩
            (by
              intro x hx
              rcases List.mem_append.mp hx with hx | hx
              · have := hpre x hx; omega
              · simp at hx; subst hx; simp only; omega)
            (by intro x hx; have := hpost x hx; omega)
          simpa using this
        rw [hins]
        simp only [truncateAt, find_mid pre _ a _ hpre]
        rw [insert_mid_replace pre _ a _ _ hpre]
        have hmin : min (A - a) (A + n - a) = A - a := by omega
        simp [List.take_take, hmin]
    · simp [h2]
  · simp only [h1, ↓reduceIte, bind, Res.bind]
    by_cases h3 : a + s.data.length ≤ A + n
    · simp only [h3, ↓reduceIte, hfind]
      rw [erase_mid pre post a s hpre hpostgt]
      simp [pure]
    · simp only [h3, ↓reduceIte]
      by_cases h4 : a < A + n
      · simp only [h4, ↓reduceIte, hfind, splitOffAt]
        have hoff : ¬ (A + n - a > s.data.length) := by omega
        simp only [hoff, ↓reduceIte]
        rw [insert_mid_replace pre post a s _ hpre]
        simp only [permAt, find_mid pre post a _ hpre, pure]
        rw [erase_mid pre post a _ hpre hpostgt]
        rw [insert_mid_new pre post (A + n) _ (fun x hx => by have := hpre x hx; omega)
          (fun x hx => by have := hpost x hx; omega)]
        simp
      · simp [h4, pure]

/-- what `adjustEntry` produces lies inside the entry, outside the written range, is non-empty, and
    holds the entry's bytes and permissions -/
theorem adjustEntry_mem {A n : Nat} {e x : Entry} (hx : x ∈ adjustEntry A n e) (hne : 0 < e.2.data.length) :
    e.1 ≤ x.1 ∧ x.1 + x.2.data.length ≤ e.1 + e.2.data.length ∧ 0 < x.2.data.length ∧
    (x.1 + x.2.data.length ≤ A ∨ A + n ≤ x.1) ∧ x.2.perm = e.2.perm ∧
    ∀ i, i < x.2.data.length → x.2.data[i]? = e.2.data[x.1 - e.1 + i]? := by
  obtain ⟨a, s⟩ := e
  simp only at hne
  unfold adjustEntry at hx
  simp only at hx
  split at hx
  · split at hx
    · split at hx
      · simp only [List.mem_singleton] at hx
        subst hx
        simp only [List.length_take]
        refine ⟨by omega, by omega, by omega, by omega, trivial, ?_⟩
        intro i hi
        rw [List.getElem?_take]
        have : i < A - a := by omega
        simp [this]
      · simp only [List.mem_cons, List.not_mem_nil, or_false] at hx
        rcases hx with hx | hx
        · subst hx
          simp only [List.length_take]
          refine ⟨by omega, by omega, by omega, by omega, trivial, ?_⟩
          intro i hi
          rw [List.getElem?_take]
          have : i < A - a := by omega
          simp [this]
        · subst hx
          simp only [List.length_drop]
          refine ⟨by omega, by omega, by omega, by omega, trivial, ?_⟩
          intro i hi
          rw [List.getElem?_drop]
    · simp only [List.mem_singleton] at hx
      subst hx
      refine ⟨by omega, by omega, hne, by simp only; omega, rfl, ?_⟩
      intro i hi; simp
  · split at hx
    · simp at hx
    · split at hx
      · simp only [List.mem_singleton] at hx
        subst hx
        simp only [List.length_drop]
        refine ⟨by omega, by omega, by omega, by omega, trivial, ?_⟩
        intro i hi
        rw [List.getElem?_drop]
      · simp only [List.mem_singleton] at hx
        subst hx
        refine ⟨by omega, by omega, hne, by simp only; omega, rfl, ?_⟩
        intro i hi; simp

/-- every address of the entry outside the written range stays covered -/
theorem adjustEntry_cover {A n : Nat} {e : Entry} {y : Nat} (h1 : e.1 ≤ y) (h2 : y < e.1 + e.2.data.length)
    (hy : ¬ (A ≤ y ∧ y < A + n)) : ∃ x ∈ adjustEntry A n e, x.1 ≤ y ∧ y < x.1 + x.2.data.length := by
  obtain ⟨a, s⟩ := e
  simp only at h1 h2
  unfold adjustEntry
  simp only
  split
  · split
    · split
      · refine ⟨_, List.mem_singleton.mpr rfl, ?_⟩
        simp only [List.length_take]; omega
      · by_cases hlow : y < A
        · refine ⟨(a, ⟨s.data.take (A - a), s.perm⟩), by simp, ?_⟩
          simp only [List.length_take]; omega
        · refine ⟨(A + n, ⟨s.data.drop (A + n - a), s.perm⟩), by simp, ?_⟩
          simp only [List.length_drop]; omega
    · exact ⟨(a, s), by simp, h1, h2⟩
  · split
    · omega
    · split
      · refine ⟨_, List.mem_singleton.mpr rfl, ?_⟩
        simp only [List.length_drop]; omega
      · exact ⟨(a, s), by simp, h1, h2⟩

/-- the loop of `set_memory` over the snapshot rewrites every section by `adjustEntry` -/
theorem adjust_eq (A n : Nat) (hE : A + n < U64) :
    ∀ (rest pre : SMap), rest.Pairwise Rel → (∀ e ∈ rest, 0 < e.2.data.length) →
      (∀ e ∈ rest, e.1 + e.2.data.length < U64) → (∀ x ∈ pre, ∀ y ∈ rest, x.1 < y.1) →
      adjust A n (snapshot rest) (pre ++ rest) = .ok (pre ++ rest.flatMap (adjustEntry A n)) := by
  intro rest
  induction rest with
  | nil => intro pre _ _ _ _; simp [snapshot, adjust]
  | cons e rest' ih =>
    intro pre hp hne hb hlt
    rw [List.pairwise_cons] at hp
    have hstep := adjustStep_mid A n hE pre rest' e (fun x hx => hlt x hx e (by simp))
      (fun x hx => (hp.1 x hx).2) (hne e (by simp)) (hb e (by simp))
    simp only [snapshot, List.map_cons, adjust, hstep]
    have := ih (pre ++ adjustEntry A n e) hp.2 (fun x hx => hne x (by simp [hx]))
      (fun x hx => hb x (by simp [hx]))
      (by
        intro x hx y hy
        have hRel := hp.1 y hy
        unfold Rel at hRel
        rcases List.mem_append.mp hx with hx | hx
        · have := hlt x hx e (by simp); omega
        · have := adjustEntry_mem hx (hne e (by simp)); omega)
    simp only [snapshot] at this
    rw [this]
    simp [List.flatMap_cons]

/-- the rewritten list is still sorted and disjoint -/
theorem pairwise_flatMap_adjust (A n : Nat) {m : SMap} (hp : m.Pairwise Rel)
    (hne : ∀ e ∈ m, 0 < e.2.data.length) : (m.flatMap (adjustEntry A n)).Pairwise Rel := by
  induction m with
  | nil => simp
  | cons e t ih =>
    rw [List.pairwise_cons] at hp
    rw [List.flatMap_cons, List.pairwise_append]
    refine ⟨?_, ih hp.2 (fun x hx => hne x (by simp [hx])), ?_⟩
    · -- within one entry
      have hne0 := hne e (by simp)
      obtain ⟨a, s⟩ := e
      simp only at hne0
      unfold adjustEntry
      simp only
      split
      · split
        · split
          · simp
          · simp only [List.pairwise_cons, List.mem_singleton, forall_eq, List.not_mem_nil,
              false_imp_iff, implies_true, List.Pairwise.nil, and_true]
            unfold Rel; simp only [List.length_take]; omega
        · simp
      · split
        · simp
        · split <;> simp
    · intro x hx y hy
      rw [List.mem_flatMap] at hy
      obtain ⟨e', he', hy⟩ := hy
      have h1 := adjustEntry_mem hx (hne e (by simp))
      have h2 := adjustEntry_mem hy (hne e' (by simp [he']))
      have hRel := hp.1 e' he'
      unfold Rel at hRel ⊢
      omega

/-- `set_memory` of a non-empty region below `2^64` on a well-formed section list: it answers, the
    result is well formed, and the byte map is overridden on exactly the written range. -/
theorem setMemory_sections (m : Memory) (A : Nat) (d : List UInt8) (p : Perm) (hinv : Inv m.sections)
    (hd : 0 < d.length) (hE : A + d.length < U64) :
    ∃ m', m.setMemory A d p = .ok m' ∧ m'.endian = m.endian ∧ Inv m'.sections ∧
      abs m'.sections = override (abs m.sections) A d p := by
  have hloop := adjust_eq A d.length hE m.sections [] hinv.pairwise hinv.nonempty hinv.bounded (by simp)
  simp only [List.nil_append] at hloop
  have hdne : d.isEmpty = false := by
    cases d with
    | nil => simp at hd
    | cons _ _ => rfl
  refine ⟨{ m with sections := SMap.insert A ⟨d, p⟩ (m.sections.flatMap (adjustEntry A d.length)) }, ?_, rfl, ?_, ?_⟩
  · simp [setMemory, hdne, hloop]
  · -- invariant
    have hmid : ∀ x ∈ m.sections.flatMap (adjustEntry A d.length),
        ∃ e ∈ m.sections, x ∈ adjustEntry A d.length e := by
      intro x hx; rw [List.mem_flatMap] at hx; exact hx
    refine ⟨?_, ?_, ?_⟩
    · apply pairwise_insert (pairwise_flatMap_adjust A d.length hinv.pairwise hinv.nonempty) A ⟨d, p⟩ hd
      · intro x hx
        obtain ⟨e, he, hxe⟩ := hmid x hx
        exact (adjustEntry_mem hxe (hinv.nonempty e he)).2.2.2.1
      · intro x hx
        obtain ⟨e, he, hxe⟩ := hmid x hx
        exact (adjustEntry_mem hxe (hinv.nonempty e he)).2.2.1
    · intro x hx
      rcases mem_insert hx with hx | hx
      · subst hx; exact hd
      · obtain ⟨e, he, hxe⟩ := hmid x hx
        exact (adjustEntry_mem hxe (hinv.nonempty e he)).2.2.1
    · intro x hx
      rcases mem_insert hx with hx | hx
      · subst hx; exact hE
      · obtain ⟨e, he, hxe⟩ := hmid x hx
        have := adjustEntry_mem hxe (hinv.nonempty e he)
        have := hinv.bounded e he
        omega
  · -- byte map
    funext y
    simp only
    have hpw : (SMap.insert A ⟨d, p⟩ (m.sections.flatMap (adjustEntry A d.length))).Pairwise Rel := by
      apply pairwise_insert (pairwise_flatMap_adjust A d.length hinv.pairwise hinv.nonempty) A ⟨d, p⟩ hd
      · intro x hx
        rw [List.mem_flatMap] at hx
        obtain ⟨e, he, hxe⟩ := hx
        exact (adjustEntry_mem hxe (hinv.nonempty e he)).2.2.2.1
      · intro x hx
        rw [List.mem_flatMap] at hx
        obtain ⟨e, he, hxe⟩ := hx
        exact (adjustEntry_mem hxe (hinv.nonempty e he)).2.2.1
    unfold override
    by_cases hy : A ≤ y ∧ y < A + d.length
    · simp only [hy, and_self, ↓reduceIte]
      rw [abs_of_mem hpw (mem_insert_self A ⟨d, p⟩ _) hy.1 hy.2]
    · simp only [hy, ↓reduceIte]
      rcases abs_cases hinv.pairwise y with ⟨e, he, h1, h2, habs⟩ | ⟨hnone, habs⟩
      · rw [habs]
        obtain ⟨x, hx, hx1, hx2⟩ := adjustEntry_cover (A := A) (n := d.length) h1 h2 hy
        have hxm := adjustEntry_mem hx (hinv.nonempty e he)
        have hxA : x.1 ≠ A := by omega
        have hxin : x ∈ SMap.insert A ⟨d, p⟩ (m.sections.flatMap (adjustEntry A d.length)) :=
          mem_insert_of_mem (List.mem_flatMap.mpr ⟨e, he, hx⟩) hxA
        rw [abs_of_mem hpw hxin hx1 hx2, hxm.2.2.2.2.1, hxm.2.2.2.2.2 (y - x.1) (by omega)]
        have : x.1 - e.1 + (y - x.1) = y - e.1 := by omega
        rw [this]
      · rw [habs]
        apply abs_none
        intro x hx hc
        rcases mem_insert hx with hx | hx
        · subst hx; exact hy hc
        · rw [List.mem_flatMap] at hx
          obtain ⟨e, he, hxe⟩ := hx
          have := adjustEntry_mem hxe (hinv.nonempty e he)
          exact hnone e he (by omega)

/-- an empty `set_memory` changes nothing -/
theorem setMemory_empty (m : Memory) (A : Nat) (p : Perm) : m.setMemory A [] p = .ok m := by
  simp [setMemory]

end Falcon.Backing
