/-
  FalconProofs.Backing.Word — the 32-bit accessors: when `[a, a+4)` lies within one section, `get32` assembles
  the four bytes in the memory's endianness, and `set32` replaces exactly those four bytes (permissions and
  every other address untouched, invariant kept).
-/
import FalconProofs.Backing.Read

namespace Falcon.Backing
open Memory

/-! ### `word32` is `assemble` -/

theorem or_of_mul (c k P y : Nat) (hP : P = 2 ^ k) (hy : y < P) : (c * P) ||| y = c * P + y := by
  subst hP
  rw [← Nat.shiftLeft_eq, ← Nat.shiftLeft_add_eq_or_of_lt hy]

-- (omega runs out of recursion depth with two facts carrying 2^16 / 2^24 coefficients in the context, so each
--  arithmetic fact is a lemma of its own)
private theorem lt1 (A1 : Nat) (h : A1 < 256) : A1 * 65536 < 16777216 := by omega
private theorem lt2 (A2 : Nat) (h : A2 < 256) : A2 * 256 < 65536 := by omega
private theorem eq1 (A0 A1 : Nat) : A0 * 16777216 + A1 * 65536 = (A0 * 256 + A1) * 65536 := by omega
private theorem eq2 (A0 A1 A2 : Nat) : (A0 * 256 + A1) * 65536 + A2 * 256 = ((A0 * 256 + A1) * 256 + A2) * 256 := by
  omega
private theorem eq3 (A0 A1 A2 A3 : Nat) :
    ((A0 * 256 + A1) * 256 + A2) * 256 + A3 = (((0 * 256 + A0) * 256 + A1) * 256 + A2) * 256 + A3 := by omega
private theorem lt3 (A0 A1 : Nat) (h0 : A0 < 256) (h1 : A1 < 256) : A1 * 256 + A0 < 65536 := by omega
private theorem lt4 (A0 A1 A2 : Nat) (h0 : A0 < 256) (h1 : A1 < 256) (h2 : A2 < 256) :
    A2 * 65536 + (A1 * 256 + A0) < 16777216 := by omega
private theorem eq4 (A0 A1 A2 A3 : Nat) :
    A3 * 16777216 + (A2 * 65536 + (A1 * 256 + A0)) = A0 + 256 * (A1 + 256 * (A2 + 256 * (A3 + 256 * 0))) := by omega

theorem word_big (A0 A1 A2 A3 : Nat) (h1 : A1 < 256) (h2 : A2 < 256) (h3 : A3 < 256) :
    A0 * 16777216 ||| A1 * 65536 ||| A2 * 256 ||| A3 = (((0 * 256 + A0) * 256 + A1) * 256 + A2) * 256 + A3 := by
  rw [or_of_mul A0 24 _ _ (by decide) (lt1 A1 h1), eq1, or_of_mul _ 16 _ _ (by decide) (lt2 A2 h2), eq2,
    or_of_mul _ 8 _ _ (by decide) h3, eq3]

theorem word_little (A0 A1 A2 A3 : Nat) (h0 : A0 < 256) (h1 : A1 < 256) (h2 : A2 < 256) :
    A0 ||| A1 * 256 ||| A2 * 65536 ||| A3 * 16777216 = A0 + 256 * (A1 + 256 * (A2 + 256 * (A3 + 256 * 0))) := by
  rw [Nat.or_comm A0, or_of_mul A1 8 _ _ (by decide) h0]
  rw [Nat.or_comm _ (A2 * 65536), or_of_mul A2 16 _ _ (by decide) (lt3 A0 A1 h0 h1)]
  rw [Nat.or_comm _ (A3 * 16777216), or_of_mul A3 24 _ _ (by decide) (lt4 A0 A1 A2 h0 h1 h2), eq4]

theorem word32_eq (e : Endian) (b0 b1 b2 b3 : UInt8) : word32 e b0 b1 b2 b3 = assemble e [b0, b1, b2, b3] := by
  have h0 : b0.toNat < 256 := UInt8.toNat_lt b0
  have h1 : b1.toNat < 256 := UInt8.toNat_lt b1
  have h2 : b2.toNat < 256 := UInt8.toNat_lt b2
  have h3 : b3.toNat < 256 := UInt8.toNat_lt b3
  cases e with
  | big =>
    simp only [word32, assemble, List.foldl_cons, List.foldl_nil, Nat.shiftLeft_eq, Nat.reducePow]
    exact word_big _ _ _ _ h1 h2 h3
  | little =>
    simp only [word32, assemble, List.foldr_cons, List.foldr_nil, Nat.shiftLeft_eq, Nat.reducePow]
    exact word_little _ _ _ _ h0 h1 h2

/-! ### `get32` -/

/-- the bytes `readBytes` returns inside one section -/
theorem readBytes_within {m : SMap} (hinv : Inv m) {e : Entry} (he : e ∈ m) :
    ∀ (n a : Nat), e.1 ≤ a → a + n ≤ e.1 + e.2.data.length →
      readBytes (abs m) a n = some ((e.2.data.drop (a - e.1)).take n) := by
  intro n
  induction n with
  | zero => intro a _ _; simp [readBytes]
  | succ n ih =>
    intro a h1 h2
    have hb := hinv.bounded e he
    have ha : a < U64 := by omega
    have hlt : a - e.1 < e.2.data.length := by omega
    simp only [readBytes, ha, ↓reduceIte, abs_of_mem hinv.pairwise he h1 (by omega : a < e.1 + e.2.data.length),
      List.getElem?_eq_getElem hlt, Option.map_some, ih (a + 1) (by omega) (by omega)]
    rw [List.drop_eq_getElem_cons hlt, List.take_succ_cons]
    have e1 : a + 1 - e.1 = (a - e.1) + 1 := by omega
    rw [e1]

theorem get32_within {m : Memory} (hinv : Inv m.sections) {e : Entry} (he : e ∈ m.sections) {a : Nat}
    (h1 : e.1 ≤ a) (h2 : a + 4 ≤ e.1 + e.2.data.length) :
    m.get32 a = .ok (specGet32 m.endian (abs m.sections) a) ∧
      (specGet32 m.endian (abs m.sections) a).isSome := by
  have hrb := readBytes_within hinv he 4 a h1 h2
  have hl0 : a - e.1 < e.2.data.length := by omega
  have hl1 : a - e.1 + 1 < e.2.data.length := by omega
  have hl2 : a - e.1 + 2 < e.2.data.length := by omega
  have hl3 : a - e.1 + 3 < e.2.data.length := by omega
  have hbytes : (e.2.data.drop (a - e.1)).take 4 =
      [e.2.data[a - e.1], e.2.data[a - e.1 + 1], e.2.data[a - e.1 + 2], e.2.data[a - e.1 + 3]] := by
    rw [List.drop_eq_getElem_cons hl0, List.take_succ_cons, List.drop_eq_getElem_cons hl1, List.take_succ_cons,
      List.drop_eq_getElem_cons hl2, List.take_succ_cons, List.drop_eq_getElem_cons hl3, List.take_succ_cons]
    simp
  unfold get32 specGet32
  rw [sectionAddress_covered hinv he h1 (by omega), hrb, hbytes]
  have hfit : ¬ (a - e.1 + 4 > e.2.data.length) := by omega
  simp only [find_of_mem hinv.pairwise he, hfit, ↓reduceIte, List.getElem?_eq_getElem hl0,
    List.getElem?_eq_getElem hl1, List.getElem?_eq_getElem hl2, List.getElem?_eq_getElem hl3, word32_eq]
  simp

/-! ### `set32` -/

theorem length_writeAt (bs : List UInt8) : ∀ (d : List UInt8) (off : Nat), (writeAt d off bs).length = d.length := by
  induction bs with
  | nil => intro d off; rfl
  | cons b bs ih => intro d off; simp [writeAt, ih]

theorem getElem?_writeAt (bs : List UInt8) : ∀ (d : List UInt8) (off i : Nat), off + bs.length ≤ d.length →
    (writeAt d off bs)[i]? = if off ≤ i ∧ i < off + bs.length then bs[i - off]? else d[i]? := by
  induction bs with
  | nil => intro d off i _; simp [writeAt]; omega
  | cons b bs ih =>
    intro d off i h
    simp only [List.length_cons] at h
    simp only [writeAt]
    rw [ih (d.set off b) (off + 1) i (by simp; omega)]
    simp only [List.length_cons, List.getElem?_set]
    by_cases h1 : off + 1 ≤ i ∧ i < off + 1 + bs.length
    · have h2 : off ≤ i ∧ i < off + (bs.length + 1) := by omega
      simp only [h1, and_self, ↓reduceIte, h2]
      have : i - off = (i - (off + 1)) + 1 := by omega
      rw [this, List.getElem?_cons_succ]
    · simp only [h1, ↓reduceIte]
      by_cases h3 : off = i
      · subst h3
        have h2 : off ≤ off ∧ off < off + (bs.length + 1) := by omega
        have h4 : off < d.length := by omega
        simp [h4]
      · have h2 : ¬ (off ≤ i ∧ i < off + (bs.length + 1)) := by omega
        simp [h3, h2]

theorem bytes32_length (e : Endian) (v : Nat) : (bytes32 e v).length = 4 := by cases e <;> rfl

/-- replacing the data of one stored section by data of the same length keeps the invariant -/
theorem inv_replace {pre post : SMap} {k : Nat} {s s' : Section} (h : Inv (pre ++ (k, s) :: post))
    (hl : s'.data.length = s.data.length) : Inv (pre ++ (k, s') :: post) := by
  obtain ⟨hp, hne, hb⟩ := h
  rw [List.pairwise_append, List.pairwise_cons] at hp
  obtain ⟨hp1, ⟨hp2, hp3⟩, hp4⟩ := hp
  refine ⟨?_, ?_, ?_⟩
  · rw [List.pairwise_append, List.pairwise_cons]
    refine ⟨hp1, ⟨?_, hp3⟩, ?_⟩
    · intro y hy
      have := hp2 y hy
      unfold Rel at this ⊢
      simp only at this ⊢
      omega
    · intro x hx y hy
      rcases List.mem_cons.mp hy with hy | hy
      · subst hy
        have := hp4 x hx (k, s) (by simp)
        unfold Rel at this ⊢
        simp only at this ⊢
        omega
      · exact hp4 x hx y (by simp [hy])
  · intro x hx
    rcases List.mem_append.mp hx with hx | hx
    · exact hne x (by simp [hx])
    · rcases List.mem_cons.mp hx with hx | hx
      · subst hx
        have := hne (k, s) (by simp)
        simp only at this ⊢
        omega
      · exact hne x (by simp [hx])
  · intro x hx
    rcases List.mem_append.mp hx with hx | hx
    · exact hb x (by simp [hx])
    · rcases List.mem_cons.mp hx with hx | hx
      · subst hx
        have := hb (k, s) (by simp)
        simp only at this ⊢
        omega
      · exact hb x (by simp [hx])

/-- `set32` inside one section: it answers `Ok`, keeps the endianness and the invariant, and overrides
    exactly the four bytes (in the memory's endianness), leaving permissions and all other addresses alone -/
theorem set32_within {m : Memory} (hinv : Inv m.sections) {e : Entry} (he : e ∈ m.sections) {a : Nat} (v : Nat)
    (h1 : e.1 ≤ a) (h2 : a + 4 ≤ e.1 + e.2.data.length) :
    ∃ m', m.set32 a v = .ok m' ∧ m'.endian = m.endian ∧ Inv m'.sections ∧
      abs m'.sections = overrideBytes (abs m.sections) a (bytes32 m.endian v) := by
  obtain ⟨k, s⟩ := e
  simp only at h1 h2
  obtain ⟨pre, post, hsplit⟩ := List.append_of_mem he
  have hpw := hinv.pairwise
  rw [hsplit, List.pairwise_append] at hpw
  have hpre : ∀ x ∈ pre, x.1 < k := fun x hx => (hpw.2.2 x hx (k, s) (by simp)).1
  let s' : Section := { s with data := writeAt s.data (a - k) (bytes32 m.endian v) }
  have hl : s'.data.length = s.data.length := length_writeAt _ _ _
  have hfit : ¬ (a - k + 4 > s.data.length) := by omega
  have hinv' : Inv (pre ++ (k, s') :: post) := inv_replace (hsplit ▸ hinv) hl
  refine ⟨{ m with sections := pre ++ (k, s') :: post }, ?_, rfl, hinv', ?_⟩
  · unfold set32
    rw [sectionAddress_covered hinv he (by simpa using h1) (by simp only; omega)]
    simp only [find_of_mem hinv.pairwise he, hfit, ↓reduceIte]
    rw [hsplit, insert_mid_replace pre post k s _ hpre]
  · funext y
    simp only
    unfold overrideBytes
    have hmem' : (k, s') ∈ pre ++ (k, s') :: post := by simp
    by_cases hy : k ≤ y ∧ y < k + s.data.length
    · -- inside the section
      rw [abs_of_mem hinv'.pairwise hmem' hy.1 (by rw [hl]; exact hy.2)]
      rw [abs_of_mem hinv.pairwise he hy.1 hy.2]
      have hw := getElem?_writeAt (bytes32 m.endian v) s.data (a - k) (y - k)
        (by rw [bytes32_length]; omega)
      have hyl : y - k < s.data.length := by omega
      simp only [s', hw, bytes32_length, List.getElem?_eq_getElem hyl, Option.map_some]
      by_cases hr : a ≤ y ∧ y < a + 4
      · have hr' : a - k ≤ y - k ∧ y - k < a - k + 4 := by omega
        have hidx : y - k - (a - k) = y - a := by omega
        have hlt : y - a < (bytes32 m.endian v).length := by rw [bytes32_length]; omega
        simp only [hr, hr', and_self, ↓reduceIte, hidx, List.getElem?_eq_getElem hlt, Option.map_some]
      · have hr' : ¬ (a - k ≤ y - k ∧ y - k < a - k + 4) := by omega
        simp only [hr, hr', ↓reduceIte, Option.map_some]
    · -- outside: the covering entry, if any, is untouched
      have hr : ¬ (a ≤ y ∧ y < a + (bytes32 m.endian v).length) := by rw [bytes32_length]; omega
      simp only [hr, ↓reduceIte]
      rcases abs_cases hinv.pairwise y with ⟨e0, he0, c1, c2, habs⟩ | ⟨hnone, habs⟩
      · rw [habs]
        have hne : e0 ≠ (k, s) := by
          intro h; subst h; exact hy ⟨c1, c2⟩
        have he0' : e0 ∈ pre ++ (k, s') :: post := by
          rw [hsplit] at he0
          rcases List.mem_append.mp he0 with h | h
          · simp [h]
          · rcases List.mem_cons.mp h with h | h
            · exact absurd h hne
            · simp [h]
        exact abs_of_mem hinv'.pairwise he0' c1 c2
      · rw [habs]
        apply abs_none
        intro x hx hc
        rcases List.mem_append.mp hx with h | h
        · exact hnone x (by rw [hsplit]; simp [h]) hc
        · rcases List.mem_cons.mp h with h | h
          · subst h
            simp only at hc
            rw [hl] at hc
            exact hy hc
          · exact hnone x (by rw [hsplit]; simp [h]) hc

end Falcon.Backing
