/-
  FalconProofs.Backing.Get — `get(address, bits)`: the expression built byte by byte evaluates to the bytes
  assembled in the memory's endianness; absence (never a panic) when a byte of the range is unmapped.
-/
import FalconProofs.Backing.Read

namespace Falcon.Backing
open Memory

theorem assemble_big_snoc (bs : List UInt8) (b : UInt8) :
    assemble .big (bs ++ [b]) = assemble .big bs * 256 + b.toNat := by
  simp [assemble, List.foldl_append]

theorem assemble_little_snoc (bs : List UInt8) (b : UInt8) :
    assemble .little (bs ++ [b]) = assemble .little bs + 2 ^ (8 * bs.length) * b.toNat := by
  induction bs with
  | nil => simp [assemble]
  | cons h t ih =>
    simp only [assemble] at ih
    simp only [assemble, List.cons_append, List.foldr_cons, List.length_cons, ih]
    have : 2 ^ (8 * (t.length + 1)) = 256 * 2 ^ (8 * t.length) := by
      rw [Nat.mul_add, Nat.pow_add]; simp [Nat.mul_comm]
    rw [this, Nat.mul_add, Nat.mul_assoc]
    omega

theorem assemble_single (e : Endian) (b : UInt8) : assemble e [b] = b.toNat := by
  cases e <;> simp [assemble]

/-- one round of the loop: the constant built so far, extended by the byte `b` -/
theorem getCombine_eq (e : Endian) (bits : Nat) (bs : List UInt8) (b : UInt8) (hbits : bits < U64)
    (hi : 1 ≤ bs.length) (hfit : 8 * (bs.length + 1) ≤ bits) (hval : assemble e bs < 2 ^ (8 * bs.length)) :
    getCombine e bits bs.length ⟨bits, assemble e bs⟩ b = .ok ⟨bits, assemble e (bs ++ [b])⟩ ∧
      assemble e (bs ++ [b]) < 2 ^ (8 * (bs.length + 1)) := by
  have hU : U64 = 2 ^ 64 := rfl
  have hb : b.toNat < 256 := UInt8.toNat_lt b
  -- K = 2^(8 i), P = 2^bits, K * 256 ≤ P
  have hK : 2 ^ (8 * (bs.length + 1)) = 2 ^ (8 * bs.length) * 256 := by
    rw [Nat.mul_add, Nat.pow_add]
  have hKP : 2 ^ (8 * (bs.length + 1)) ≤ 2 ^ bits := Nat.pow_le_pow_right (by omega) hfit
  have hbitsP : bits < 2 ^ bits := Nat.lt_two_pow_self
  generalize hKd : 2 ^ (8 * bs.length) = K at *
  generalize hPd : 2 ^ bits = P at *
  have h8 : (8 : Nat) % P = 8 := Nat.mod_eq_of_lt (by omega)
  have hbm : b.toNat % P = b.toNat := Nat.mod_eq_of_lt (by omega)
  cases e with
  | big =>
    have hsnoc := assemble_big_snoc bs b
    generalize assemble Endian.big bs = val at *
    generalize assemble Endian.big (bs ++ [b]) = val' at *
    have hsh : val <<< 8 = val * 256 := by rw [Nat.shiftLeft_eq]
    have hor : (val * 256) ||| b.toNat = val * 256 + b.toNat := by
      rw [← hsh, ← Nat.shiftLeft_add_eq_or_of_lt (by omega : b.toNat < 2 ^ 8)]
    have hm1 : (val * 256) % P = val * 256 := Nat.mod_eq_of_lt (by omega)
    have hm2 : (val * 256 + b.toNat) % P = val * 256 + b.toNat := Nat.mod_eq_of_lt (by omega)
    have h864 : (8 : Nat) < 2 ^ 64 := by decide
    have hnb : ¬ (8 ≥ bits) := by omega
    refine ⟨?_, by omega⟩
    simp only [getCombine, Const.shl, Const.new, Const.trim, hPd, h8, Const.toUsize, h864, ↓reduceIte, hnb,
      hsh, hm1, unwrapR, bind, Res.bind, Const.or, hbm, hor, hm2, ne_eq, not_true_eq_false, hsnoc]
  | little =>
    have hsnoc := assemble_little_snoc bs b
    rw [hKd] at hsnoc
    generalize assemble Endian.little bs = val at *
    generalize assemble Endian.little (bs ++ [b]) = val' at *
    have hi8 : (bs.length * 8) % P = bs.length * 8 := Nat.mod_eq_of_lt (by omega)
    have hi64 : bs.length * 8 < 2 ^ 64 := by omega
    have hnb : ¬ (bs.length * 8 ≥ bits) := by omega
    have hsh : b.toNat <<< (bs.length * 8) = b.toNat * K := by
      rw [Nat.shiftLeft_eq, Nat.mul_comm bs.length 8, hKd]
    have hor : (b.toNat * K) ||| val = b.toNat * K + val := by
      rw [← hsh, ← Nat.shiftLeft_add_eq_or_of_lt (by rw [Nat.mul_comm bs.length 8, hKd]; exact hval)]
    have hbK : b.toNat * K ≤ 255 * K := Nat.mul_le_mul_right K (by omega)
    have hm1 : (b.toNat * K) % P = b.toNat * K := Nat.mod_eq_of_lt (by omega)
    have hm2 : (b.toNat * K + val) % P = b.toNat * K + val := Nat.mod_eq_of_lt (by omega)
    have hcomm : K * b.toNat = b.toNat * K := Nat.mul_comm _ _
    refine ⟨?_, by omega⟩
    simp only [getCombine, Const.shl, Const.new, Const.trim, hPd, hi8, Const.toUsize, hi64, ↓reduceIte, hnb,
      hsh, hm1, unwrapR, bind, Res.bind, Const.or, hbm, hor, hm2, ne_eq, not_true_eq_false, hsnoc, hcomm]
    simp only [Const.mk.injEq, true_and, Res.ok.injEq]
    omega

/-- the loop of `get`: reads the remaining bytes, or answers `none` at the first unmapped one -/
theorem getLoop_eq (m : Memory) (hinv : Inv m.sections) (a bits : Nat) (hbits : bits < U64) :
    ∀ (cnt : Nat) (bs : List UInt8), 1 ≤ bs.length → bits = 8 * (bs.length + cnt) → a + bs.length < U64 →
      assemble m.endian bs < 2 ^ (8 * bs.length) →
      getLoop m a bits cnt bs.length ⟨bits, assemble m.endian bs⟩ =
        .ok ((readBytes (abs m.sections) (a + bs.length) cnt).map
          (fun rest => ⟨bits, assemble m.endian (bs ++ rest)⟩)) := by
  intro cnt
  induction cnt with
  | zero => intro bs _ _ _ _; simp [getLoop, readBytes]
  | succ cnt ih =>
    intro bs hi hb ha hval
    simp only [getLoop, add64, ha, ↓reduceIte, get8_eq hinv, readBytes]
    cases hf : abs m.sections (a + bs.length) with
    | none => simp
    | some v =>
      obtain ⟨b, p⟩ := v
      have hc := getCombine_eq m.endian bits bs b hbits hi (by omega) hval
      have hnext := abs_some_lt hinv hf
      have := ih (bs ++ [b]) (by simp) (by simp; omega) (by simp; omega) (by simpa using hc.2)
      simp only [List.length_append, List.length_singleton] at this
      simp only [Option.map_some, hc.1, this]
      have e1 : a + (bs.length + 1) = a + bs.length + 1 := by omega
      rw [e1]
      cases readBytes (abs m.sections) (a + bs.length + 1) cnt with
      | none => simp
      | some rest => simp

/-- `get` on a well-formed memory is the specification `specGet` of the byte map: it never panics -/
theorem get_eq (m : Memory) (hinv : Inv m.sections) (a bits : Nat) (ha : a < U64) (hbits : bits < U64) :
    m.get a bits = .ok (specGet m.endian (abs m.sections) a bits) := by
  unfold Memory.get specGet
  by_cases h : bits % 8 ≠ 0 ∨ bits = 0
  · simp [h]
  · simp only [h, ↓reduceIte, get8_eq hinv]
    have hn : bits / 8 = (bits / 8 - 1) + 1 := by omega
    rw [hn, readBytes]
    simp only [ha, ↓reduceIte]
    cases hf : abs m.sections a with
    | none => simp
    | some v =>
      obtain ⟨b, p⟩ := v
      have hb : b.toNat < 256 := UInt8.toNat_lt b
      have hP : 256 ≤ 2 ^ bits := by
        have : (2 : Nat) ^ 8 ≤ 2 ^ bits := Nat.pow_le_pow_right (by omega) (by omega)
        simpa using this
      have hnew : Const.new b.toNat bits = ⟨bits, assemble m.endian [b]⟩ := by
        simp only [Const.new, Const.trim, assemble_single]
        rw [Nat.mod_eq_of_lt (by omega)]
      have hnext := abs_some_lt hinv hf
      have := getLoop_eq m hinv a bits hbits (bits / 8 - 1) [b] (by simp) (by simp; omega) (by simpa using hnext)
        (by rw [assemble_single]; simpa using hb)
      simp only [List.length_singleton] at this
      simp only [Option.map_some, hnew]
      have e2 : bits / 8 - 1 + 1 - 1 = bits / 8 - 1 := by omega
      rw [e2, this]
      cases readBytes (abs m.sections) (a + 1) (bits / 8 - 1) with
      | none => simp
      | some rest => simp

end Falcon.Backing
