/-
  FalconProofs.C04.Signed — `to_bigint` is `BitVec.toInt`; `divs`, `mods`, `cmplts` are `sdiv`, `srem`, `slt`.
-/
import FalconProofs.C04.Arith

namespace Falcon
namespace Const

/-- xor with the all-ones mask complements below `2^n` -/
theorem xor_mask_of_lt {v n : Nat} (h : v < 2 ^ n) : v ^^^ mask n = 2 ^ n - 1 - v := by
  have h1 : (~~~ (BitVec.ofNat n v)).toNat = 2 ^ n - 1 - v := by
    rw [BitVec.toNat_not, BitVec.toNat_ofNat, Nat.mod_eq_of_lt h]
  have h2 : (~~~ (BitVec.ofNat n v)) = BitVec.ofNat n v ^^^ BitVec.allOnes n := by
    rw [BitVec.xor_allOnes]
  rw [h2, BitVec.toNat_xor, BitVec.toNat_ofNat, BitVec.toNat_allOnes, Nat.mod_eq_of_lt h] at h1
  exact h1

theorem shiftRight_pred_eq_one_iff {v n : Nat} (hn : 0 < n) (h : v < 2 ^ n) :
    v >>> (n - 1) = 1 ↔ 2 ^ n ≤ 2 * v := by
  rw [Nat.shiftRight_eq_div_pow]
  have hp : 2 ^ n = 2 * 2 ^ (n - 1) := by
    cases n with
    | zero => omega
    | succ k => simp [Nat.pow_succ, Nat.mul_comm]
  have hpos : 0 < 2 ^ (n - 1) := Nat.two_pow_pos _
  constructor
  · intro h1
    have := Nat.div_mul_le_self v (2 ^ (n - 1))
    rw [h1] at this; omega
  · intro h2
    have hlo : 1 * 2 ^ (n - 1) ≤ v := by omega
    have h1 : 1 ≤ v / 2 ^ (n - 1) := (Nat.le_div_iff_mul_le hpos).2 hlo
    have h3 : v / 2 ^ (n - 1) < 2 := (Nat.div_lt_iff_lt_mul hpos).2 (by omega)
    omega

theorem toBigInt_ofBV {n : Nat} (hn : 0 < n) (x : BitVec n) : toBigInt (ofBV x) = .ok x.toInt := by
  show toBigInt ⟨n, x.toNat⟩ = _
  have hx := x.isLt
  simp only [toBigInt]
  rw [if_neg (by omega)]
  by_cases hs : x.toNat >>> (n - 1) = 1
  · simp only [hs, ↓reduceIte]
    have h2 := (shiftRight_pred_eq_one_iff hn hx).1 hs
    rw [xor_mask_of_lt hx, BitVec.toInt_eq_toNat_cond, if_neg (by omega)]
    congr 1
    have : 2 ^ n - 1 - x.toNat + 1 = 2 ^ n - x.toNat := by omega
    rw [this]
    omega
  · simp only [hs, ↓reduceIte]
    have h2 : ¬ 2 ^ n ≤ 2 * x.toNat := fun h => hs ((shiftRight_pred_eq_one_iff hn hx).2 h)
    rw [BitVec.toInt_eq_toNat_cond, if_pos (by omega)]

theorem natCast_two_pow (n : Nat) : ((2 ^ n : Nat) : Int) = (2 : Int) ^ n := by
  simp [Int.natCast_pow]

/-- the negative branch of `encodeSigned`: `-((r - 1) ^ mask)` for `r = -k`, `0 < k < 2^n` -/
theorem negBranch_value {n k : Nat} (hk0 : 0 < k) (hklt : k < 2 ^ n) :
    intXor (-(k : Int) - 1) ((2 : Int) ^ n - 1) * -1 = ((2 ^ n - k : Nat) : Int) := by
  have h1 : -(k : Int) - 1 = Int.negSucc k := by rw [Int.negSucc_eq]; omega
  have hm : ((2 : Int) ^ n - 1) = Int.ofNat (2 ^ n - 1) := by
    have : 1 ≤ 2 ^ n := Nat.one_le_two_pow
    rw [Int.ofNat_eq_natCast, Int.natCast_sub this, natCast_two_pow]; rfl
  rw [h1, hm]
  show Int.negSucc (k ^^^ (2 ^ n - 1)) * -1 = _
  rw [show k ^^^ (2 ^ n - 1) = 2 ^ n - 1 - k from xor_mask_of_lt hklt, Int.negSucc_eq]
  omega

/-- flipping the low `n` bits of `k`, plus one, is `-k` modulo `2^n` -/
theorem encodeSigned_eq {n : Nat} (r : Int) (hlo : -((2 ^ n : Nat) : Int) < r) :
    encodeSigned r n = .ok (ofBV (BitVec.ofInt n r)) := by
  unfold encodeSigned
  by_cases hr : r ≥ 0
  · rw [if_pos hr]
    congr 1
    apply new_eq_ofBV_of_toNat
    rw [BitVec.toNat_ofInt]
    have h1 : (r.toNat : Int) = r := Int.toNat_of_nonneg hr
    have h2 : r % ((2 ^ n : Nat) : Int) = ((r.toNat % 2 ^ n : Nat) : Int) := by
      rw [Int.natCast_emod, h1]
    rw [h2, Int.toNat_natCast]
  · rw [if_neg hr]
    have hk : r = -(((-r).toNat : Nat) : Int) := by
      have : ((-r).toNat : Int) = -r := Int.toNat_of_nonneg (by omega)
      omega
    generalize (-r).toNat = k at hk
    subst hk
    have hk0 : 0 < k := by omega
    have hklt : k < 2 ^ n := by
      have : (k : Int) < ((2 ^ n : Nat) : Int) := by omega
      exact Int.ofNat_lt.1 this
    have hv := negBranch_value hk0 hklt
    simp only [hv]
    rw [if_neg (by omega)]
    congr 1
    apply new_eq_ofBV_of_toNat
    rw [BitVec.toNat_ofInt, Int.toNat_natCast]
    have h3 : (-(k : Int)) % ((2 ^ n : Nat) : Int) = (((2 ^ n - k) % 2 ^ n : Nat) : Int) := by
      have : (-(k : Int)) = ((2 ^ n - k : Nat) : Int) + (-1) * ((2 ^ n : Nat) : Int) := by omega
      rw [this, Int.add_mul_emod_self_right]
      rfl
    rw [h3, Int.toNat_natCast]

theorem toInt_bounds {n : Nat} (x : BitVec n) :
    -((2 ^ n : Nat) : Int) ≤ 2 * x.toInt ∧ 2 * x.toInt < ((2 ^ n : Nat) : Int) := by
  have hx := x.isLt
  rw [BitVec.toInt_eq_toNat_cond]
  generalize 2 ^ n = Q at *
  split <;> omega

theorem isZero_false_of_ne {n : Nat} {y : BitVec n} (h : y ≠ 0) : (ofBV y).isZero = false := by
  cases hz : (ofBV y).isZero
  · rfl
  · exact absurd ((isZero_ofBV y).1 hz) h

theorem divs_ofBV_zero {n : Nat} (x y : BitVec n) (h : y = 0) : Const.divs (ofBV x) (ofBV y) = .err .div0 := by
  simp only [Const.divs, ofBV_bits, ne_eq, not_true_eq_false, ↓reduceIte]
  rw [(isZero_ofBV y).2 h]; rfl

theorem mods_ofBV_zero {n : Nat} (x y : BitVec n) (h : y = 0) : Const.mods (ofBV x) (ofBV y) = .err .div0 := by
  simp only [Const.mods, ofBV_bits, ne_eq, not_true_eq_false, ↓reduceIte]
  rw [(isZero_ofBV y).2 h]; rfl

theorem divs_ofBV {n : Nat} (hn : 0 < n) (x y : BitVec n) (h : y ≠ 0) :
    Const.divs (ofBV x) (ofBV y) = .ok (ofBV (x.sdiv y)) := by
  simp only [Const.divs, ofBV_bits, ne_eq, not_true_eq_false, ↓reduceIte]
  rw [isZero_false_of_ne h]
  simp only [Bool.false_eq_true, ↓reduceIte, toBigInt_ofBV hn, Res.bind_ok]
  have hb := toInt_bounds x
  have hq := Int.natAbs_tdiv_le_natAbs x.toInt y.toInt
  have hpos : 0 < 2 ^ n := Nat.two_pow_pos n
  rw [encodeSigned_eq _ (by omega)]
  congr 2
  apply BitVec.eq_of_toInt_eq
  rw [BitVec.toInt_ofInt, BitVec.toInt_sdiv]

theorem mods_ofBV {n : Nat} (hn : 0 < n) (x y : BitVec n) (h : y ≠ 0) :
    Const.mods (ofBV x) (ofBV y) = .ok (ofBV (x.srem y)) := by
  simp only [Const.mods, ofBV_bits, ne_eq, not_true_eq_false, ↓reduceIte]
  rw [isZero_false_of_ne h]
  simp only [Bool.false_eq_true, ↓reduceIte, toBigInt_ofBV hn, Res.bind_ok]
  rw [← BitVec.toInt_srem]
  have hb := toInt_bounds (x.srem y)
  have hpos : 0 < 2 ^ n := Nat.two_pow_pos n
  rw [encodeSigned_eq _ (by omega), BitVec.ofInt_toInt]

theorem cmplts_ofBV {n : Nat} (hn : 0 < n) (x y : BitVec n) :
    Const.cmplts (ofBV x) (ofBV y) = .ok (bit (x.slt y)) := by
  simp only [Const.cmplts, ofBV_bits, ne_eq, not_true_eq_false, ↓reduceIte, toBigInt_ofBV hn, Res.bind_ok]
  rfl

end Const
end Falcon
