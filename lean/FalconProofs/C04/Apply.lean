/-
  FalconProofs.C04.Apply — every operator of the mirror model equals its specification, for all
  well-formed constants of every width ≥ 1 (lifting the `ofBV` lemmas through `Const.eq_ofBV`).
-/
import FalconProofs.C04.Ext

namespace Falcon
open Const

/-- a constant falcon can hold and the property talks about: reduced value, width ≥ 1, width fits `usize` -/
structure Const.Good (c : Const) : Prop where
  wf : c.WF
  pos : 1 ≤ c.bits
  usz : c.bits < 2 ^ 64

theorem Const.good_ofBV {n : Nat} (x : BitVec n) (h1 : 1 ≤ n) (h2 : n < 2 ^ 64) : (ofBV x).Good :=
  ⟨ofBV_wf x, h1, h2⟩

theorem Const.good_bit (b : Bool) : (bit b).Good :=
  ⟨bit_wf b, by simp, by simp⟩

theorem apply_ofBV {n : Nat} (hn : 0 < n) (h64 : n < 2 ^ 64) (op : BinOp) (x y : BitVec n) :
    op.apply (ofBV x) (ofBV y) = Spec.bin op (ofBV x) (ofBV y) := by
  cases op
  case add => exact (add_ofBV x y).trans (Spec.bin_ofBV_some rfl).symm
  case sub => exact (sub_ofBV x y).trans (Spec.bin_ofBV_some rfl).symm
  case mul => exact (mul_ofBV x y).trans (Spec.bin_ofBV_some rfl).symm
  case and => exact (and_ofBV x y).trans (Spec.bin_ofBV_some rfl).symm
  case or => exact (or_ofBV x y).trans (Spec.bin_ofBV_some rfl).symm
  case xor => exact (xor_ofBV x y).trans (Spec.bin_ofBV_some rfl).symm
  case shl => exact (shl_ofBV x y h64).trans (Spec.bin_ofBV_some rfl).symm
  case shr => exact (shr_ofBV x y h64).trans (Spec.bin_ofBV_some rfl).symm
  case ashr => exact (ashr_ofBV x y hn h64).trans (Spec.bin_ofBV_some rfl).symm
  case cmpeq => exact (cmpeq_ofBV x y).trans (Spec.bin_ofBV_some rfl).symm
  case cmpneq => exact (cmpneq_ofBV x y).trans (Spec.bin_ofBV_some rfl).symm
  case cmpltu => exact (cmpltu_ofBV x y).trans (Spec.bin_ofBV_some rfl).symm
  case cmplts => exact (cmplts_ofBV hn x y).trans (Spec.bin_ofBV_some rfl).symm
  case divu =>
    by_cases hy : y = 0#n
    · exact (divu_ofBV_zero x y hy).trans (Spec.bin_ofBV_none (by simp [Spec.binBV, hy])).symm
    · exact (divu_ofBV x y hy).trans (Spec.bin_ofBV_some (by simp [Spec.binBV, hy])).symm
  case modu =>
    by_cases hy : y = 0#n
    · exact (modu_ofBV_zero x y hy).trans (Spec.bin_ofBV_none (by simp [Spec.binBV, hy])).symm
    · exact (modu_ofBV x y hy).trans (Spec.bin_ofBV_some (by simp [Spec.binBV, hy])).symm
  case divs =>
    by_cases hy : y = 0#n
    · exact (divs_ofBV_zero x y hy).trans (Spec.bin_ofBV_none (by simp [Spec.binBV, hy])).symm
    · exact (divs_ofBV hn x y hy).trans (Spec.bin_ofBV_some (by simp [Spec.binBV, hy])).symm
  case mods =>
    by_cases hy : y = 0#n
    · exact (mods_ofBV_zero x y hy).trans (Spec.bin_ofBV_none (by simp [Spec.binBV, hy])).symm
    · exact (mods_ofBV hn x y hy).trans (Spec.bin_ofBV_some (by simp [Spec.binBV, hy])).symm

theorem apply_sort (op : BinOp) (a b : Const) (h : a.bits ≠ b.bits) : op.apply a b = .err .sort := by
  cases op <;> simp [BinOp.apply, Const.add, Const.sub, Const.mul, Const.divu, Const.modu, Const.divs,
    Const.mods, Const.and, Const.or, Const.xor, Const.shl, Const.shr, Const.ashr, Const.cmpeq, Const.cmpneq,
    Const.cmplts, Const.cmpltu, h]

/-- **every binary operator, every width ≥ 1, all values** -/
theorem apply_eq_spec (op : BinOp) (a b : Const) (ha : a.Good) (hb : b.Good) :
    op.apply a b = Spec.bin op a b := by
  by_cases h : a.bits = b.bits
  · have ea := eq_ofBV a ha.wf
    have eb := eq_ofBV b hb.wf
    cases a with
    | mk n va =>
      cases b with
      | mk m vb =>
        simp only at h
        subst h
        rw [ea, eb]
        exact apply_ofBV ha.pos ha.usz op _ _
  · rw [apply_sort op a b h, Spec.bin_sort op a b h]

theorem ext_ofBV {n : Nat} (hn : 0 < n) (op : ExtOp) (x : BitVec n) (m : Nat) :
    op.apply (ofBV x) m = Spec.ext op (ofBV x) m := by
  cases op
  case zext =>
    simp only [ExtOp.apply, Spec.ext, ofBV_bits, toBV_ofBV]
    by_cases h : m ≤ n
    · rw [if_pos h, zext_ofBV_sort x m h]
    · rw [if_neg h, zext_ofBV x m (by omega)]
  case sext =>
    simp only [ExtOp.apply, Spec.ext, ofBV_bits, toBV_ofBV]
    by_cases h : m ≤ n
    · rw [if_pos h, sext_ofBV_sort x m h]
    · rw [if_neg h, sext_ofBV x hn m (by omega)]
  case trun =>
    simp only [ExtOp.apply, Spec.ext, ofBV_bits, toBV_ofBV]
    by_cases h : m ≥ n
    · rw [if_pos h, trun_ofBV_sort x m h]
    · rw [if_neg h, trun_ofBV x m (by omega)]

/-- **extension and truncation, every source width ≥ 1, every target width** -/
theorem ext_eq_spec (op : ExtOp) (a : Const) (m : Nat) (ha : a.Good) :
    op.apply a m = Spec.ext op a m := by
  have ea := eq_ofBV a ha.wf
  cases a with
  | mk n va =>
    rw [ea]
    exact ext_ofBV ha.pos op _ m

end Falcon
