/-
  FalconProofs.C04.Arith — the unsigned operators of `Const` are the `BitVec` operators, at every width.
-/
import FalconProofs.C04.Basic

namespace Falcon
namespace Const

theorem new_eq_ofBV_of_toNat {n v : Nat} {z : BitVec n} (h : z.toNat = v % 2 ^ n) :
    Const.new v n = ofBV z := by
  simp [Const.new, trim, ofBV, h]

variable {n : Nat} (x y : BitVec n)

theorem add_ofBV : Const.add (ofBV x) (ofBV y) = .ok (ofBV (x + y)) := by
  simp only [Const.add, ofBV_bits, ne_eq, not_true_eq_false, ↓reduceIte, ofBV_val]
  rw [new_eq_ofBV_of_toNat]; simp [BitVec.toNat_add]

theorem or_two_pow_of_lt {a n : Nat} (h : a < 2 ^ n) : a ||| (1 <<< n) = a + 2 ^ n := by
  have := Nat.shiftLeft_add_eq_or_of_lt h 1
  rw [Nat.or_comm, ← this, Nat.shiftLeft_eq, Nat.one_mul, Nat.add_comm]

theorem sub_ofBV : Const.sub (ofBV x) (ofBV y) = .ok (ofBV (x - y)) := by
  show Const.sub ⟨n, x.toNat⟩ ⟨n, y.toNat⟩ = _
  simp only [Const.sub, ne_eq, not_true_eq_false, ↓reduceIte]
  have hx := x.isLt
  have hy := y.isLt
  by_cases hlt : x.toNat < y.toNat
  · rw [if_pos hlt]
    rw [new_eq_ofBV_of_toNat]
    rw [BitVec.toNat_sub, or_two_pow_of_lt hx]
    congr 1; omega
  · rw [if_neg hlt]
    rw [new_eq_ofBV_of_toNat]
    rw [BitVec.toNat_sub]
    have : 2 ^ n - y.toNat + x.toNat = (x.toNat - y.toNat) + 2 ^ n := by omega
    rw [this, Nat.add_mod_right]

theorem mul_ofBV : Const.mul (ofBV x) (ofBV y) = .ok (ofBV (x * y)) := by
  simp only [Const.mul, ofBV_bits, ne_eq, not_true_eq_false, ↓reduceIte, ofBV_val]
  rw [new_eq_ofBV_of_toNat]; simp [BitVec.toNat_mul]

theorem and_ofBV : Const.and (ofBV x) (ofBV y) = .ok (ofBV (x &&& y)) := by
  simp only [Const.and, ofBV_bits, ne_eq, not_true_eq_false, ↓reduceIte, ofBV_val]
  rw [new_eq_ofBV_of_toNat]
  rw [← BitVec.toNat_and, Nat.mod_eq_of_lt (x &&& y).isLt]

theorem or_ofBV : Const.or (ofBV x) (ofBV y) = .ok (ofBV (x ||| y)) := by
  simp only [Const.or, ofBV_bits, ne_eq, not_true_eq_false, ↓reduceIte, ofBV_val]
  rw [new_eq_ofBV_of_toNat]
  rw [← BitVec.toNat_or, Nat.mod_eq_of_lt (x ||| y).isLt]

theorem xor_ofBV : Const.xor (ofBV x) (ofBV y) = .ok (ofBV (x ^^^ y)) := by
  simp only [Const.xor, ofBV_bits, ne_eq, not_true_eq_false, ↓reduceIte, ofBV_val]
  rw [new_eq_ofBV_of_toNat]
  rw [← BitVec.toNat_xor, Nat.mod_eq_of_lt (x ^^^ y).isLt]

theorem isZero_ofBV : (ofBV y).isZero = true ↔ y = 0 := by
  simp only [isZero, ofBV_val, beq_iff_eq]
  constructor
  · intro h; exact BitVec.eq_of_toNat_eq (by simpa using h)
  · intro h; simp [h]

theorem divu_ofBV_zero (h : y = 0) : Const.divu (ofBV x) (ofBV y) = .err .div0 := by
  simp only [Const.divu, ofBV_bits, ne_eq, not_true_eq_false, ↓reduceIte]
  rw [(isZero_ofBV y).2 h]; rfl

theorem divu_ofBV (h : y ≠ 0) : Const.divu (ofBV x) (ofBV y) = .ok (ofBV (x / y)) := by
  simp only [Const.divu, ofBV_bits, ne_eq, not_true_eq_false, ↓reduceIte, ofBV_val]
  have : (ofBV y).isZero = false := by
    cases hz : (ofBV y).isZero
    · rfl
    · exact absurd ((isZero_ofBV y).1 hz) h
  rw [this]
  simp only [Bool.false_eq_true, ↓reduceIte]
  rw [new_eq_ofBV_of_toNat]
  rw [BitVec.toNat_udiv]
  exact (Nat.mod_eq_of_lt (Nat.lt_of_le_of_lt (Nat.div_le_self _ _) x.isLt)).symm

theorem modu_ofBV_zero (h : y = 0) : Const.modu (ofBV x) (ofBV y) = .err .div0 := by
  simp only [Const.modu, ofBV_bits, ne_eq, not_true_eq_false, ↓reduceIte]
  rw [(isZero_ofBV y).2 h]; rfl

theorem modu_ofBV (h : y ≠ 0) : Const.modu (ofBV x) (ofBV y) = .ok (ofBV (x % y)) := by
  simp only [Const.modu, ofBV_bits, ne_eq, not_true_eq_false, ↓reduceIte, ofBV_val]
  have : (ofBV y).isZero = false := by
    cases hz : (ofBV y).isZero
    · rfl
    · exact absurd ((isZero_ofBV y).1 hz) h
  rw [this]
  simp only [Bool.false_eq_true, ↓reduceIte]
  rw [new_eq_ofBV_of_toNat]
  rw [BitVec.toNat_umod]
  exact (Nat.mod_eq_of_lt (Nat.lt_of_le_of_lt (Nat.mod_le _ _) x.isLt)).symm

theorem cmpeq_ofBV : Const.cmpeq (ofBV x) (ofBV y) = .ok (bit (x == y)) := by
  simp only [Const.cmpeq, ofBV_bits, ne_eq, not_true_eq_false, ↓reduceIte, ofBV_val]
  congr 2
  rw [Bool.eq_iff_iff]; simp [BitVec.toNat_inj]

theorem cmpneq_ofBV : Const.cmpneq (ofBV x) (ofBV y) = .ok (bit (x != y)) := by
  simp only [Const.cmpneq, ofBV_bits, ne_eq, not_true_eq_false, ↓reduceIte, ofBV_val]
  congr 2
  rw [Bool.eq_iff_iff]; simp [BitVec.toNat_inj]

theorem cmpltu_ofBV : Const.cmpltu (ofBV x) (ofBV y) = .ok (bit (x.ult y)) := by
  simp only [Const.cmpltu, ofBV_bits, ne_eq, not_true_eq_false, ↓reduceIte, ofBV_val]
  rfl

end Const
end Falcon
