/-
  FalconProofs.C04.Ext — `zext`, `sext`, `trun` of `Const` are `zeroExtend`, `signExtend`, `truncate`.
-/
import FalconProofs.C04.Shift

namespace Falcon
namespace Const

variable {n : Nat} (x : BitVec n)

theorem zext_ofBV (m : Nat) (h : n < m) : Const.zext (ofBV x) m = .ok (ofBV (x.zeroExtend m)) := by
  show Const.zext ⟨n, x.toNat⟩ m = _
  simp only [Const.zext]
  rw [if_neg (by omega)]
  congr 1; apply new_eq_ofBV_of_toNat
  simp [BitVec.toNat_setWidth]

theorem zext_ofBV_sort (m : Nat) (h : m ≤ n) : Const.zext (ofBV x) m = .err .sort := by
  show Const.zext ⟨n, x.toNat⟩ m = _
  simp only [Const.zext]; rw [if_pos h]

theorem trun_ofBV (m : Nat) (h : m < n) : Const.trun (ofBV x) m = .ok (ofBV (x.truncate m)) := by
  show Const.trun ⟨n, x.toNat⟩ m = _
  simp only [Const.trun]
  rw [if_neg (by omega)]
  congr 1; apply new_eq_ofBV_of_toNat
  simp [BitVec.toNat_setWidth]

theorem trun_ofBV_sort (m : Nat) (h : n ≤ m) : Const.trun (ofBV x) m = .err .sort := by
  show Const.trun ⟨n, x.toNat⟩ m = _
  simp only [Const.trun]; rw [if_pos h]

theorem sext_ofBV_sort (m : Nat) (h : m ≤ n) : Const.sext (ofBV x) m = .err .sort := by
  show Const.sext ⟨n, x.toNat⟩ m = _
  simp only [Const.sext]; rw [if_pos h]

theorem sext_fill (hn : 0 < n) (m : Nat) (h : n < m) (hm : x.msb = true) :
    Const.new (x.toNat ||| (mask m <<< n)) m = ofBV (x.signExtend m) := by
  rw [new_eq_ofBV]
  congr 1
  apply BitVec.eq_of_getLsbD_eq
  intro i hi
  rw [BitVec.getLsbD_ofNat, BitVec.getLsbD_signExtend]
  rw [Nat.testBit_or, Nat.testBit_shiftLeft, mask_eq, Nat.testBit_two_pow_sub_one]
  simp only [hi, decide_true, Bool.true_and]
  by_cases h1 : i < n
  · have h2 : ¬ (i ≥ n) := by omega
    simp only [h1, h2, ↓reduceIte, decide_false, Bool.false_and, Bool.or_false]
    rfl
  · have h2 : i ≥ n := by omega
    have h3 : i - n < m := by omega
    have h4 : x.toNat.testBit i = false :=
      Nat.testBit_lt_two_pow (Nat.lt_of_lt_of_le x.isLt (Nat.pow_le_pow_right (by decide) h2))
    simp only [h1, h2, h3, h4, ↓reduceIte, decide_true, Bool.true_and, Bool.false_or, hm]

theorem sext_ofBV (hn : 0 < n) (m : Nat) (h : n < m) :
    Const.sext (ofBV x) m = .ok (ofBV (x.signExtend m)) := by
  show Const.sext ⟨n, x.toNat⟩ m = _
  simp only [Const.sext]
  rw [if_neg (by omega), if_neg (by omega)]
  rcases msb_shift_zero_or_one x hn with h0 | h1
  · have hm : x.msb = false := by
      cases hmsb : x.msb
      · rfl
      · have := (msb_iff x hn).1 hmsb; omega
    simp only [h0, Nat.zero_ne_one, ↓reduceIte]
    congr 1; apply new_eq_ofBV_of_toNat
    rw [BitVec.signExtend_eq_setWidth_of_msb_false hm]
    simp [BitVec.toNat_setWidth]
  · have hm : x.msb = true := (msb_iff x hn).2 h1
    simp only [h1, ↓reduceIte]
    rw [sext_fill x hn m h hm]

end Const
end Falcon
