/-
  FalconProofs.C04.Eval — `executor::eval` is the compositional bit-vector denotation, for all trees.
-/
import FalconProofs.C04.Apply

namespace Falcon
open Const

/-- every width occurring in the tree is one falcon can hold and the property speaks about -/
def Expr.WidthsOK : Expr → Prop
  | .scalar _ => True
  | .const c => c.Good
  | .bin _ l r => l.WidthsOK ∧ r.WidthsOK
  | .ext _ m e => 1 ≤ m ∧ m < 2 ^ 64 ∧ e.WidthsOK
  | .ite c t e => c.WidthsOK ∧ t.WidthsOK ∧ e.WidthsOK

theorem Spec.binBV_good {n : Nat} (hn : 1 ≤ n) (h64 : n < 2 ^ 64) (op : BinOp) (x y : BitVec n) (c : Const)
    (h : Spec.binBV op x y = some c) : c.Good := by
  cases op <;> simp only [Spec.binBV] at h
  all_goals first
    | (injection h with h; subst h; first | exact good_ofBV _ hn h64 | exact good_bit _)
    | (split at h
       · cases h
       · injection h with h; subst h; exact good_ofBV _ hn h64)

theorem Spec.bin_good (op : BinOp) (a b c : Const) (ha : a.Good) (h : Spec.bin op a b = .ok c) : c.Good := by
  unfold Spec.bin at h
  split at h
  · rename_i hb
    split at h
    · rename_i c' hc
      injection h with h; subst h
      cases a with
      | mk n va => exact Spec.binBV_good ha.pos ha.usz op _ _ _ hc
    · cases h
  · cases h

theorem Spec.ext_good (op : ExtOp) (a c : Const) (m : Nat) (hm1 : 1 ≤ m) (hm2 : m < 2 ^ 64)
    (h : Spec.ext op a m = .ok c) : c.Good := by
  cases op <;> simp only [Spec.ext] at h <;> split at h <;> first
    | (cases h; exact good_ofBV _ hm1 hm2)
    | cases h

/-- **`eval` = denotation, and the value computed is a good constant**, by structural induction -/
theorem eval_eq_denote_aux (e : Expr) (hw : e.WidthsOK) :
    e.eval = Spec.denote e ∧ ∀ c, Spec.denote e = .ok c → c.Good := by
  induction e with
  | scalar s => exact ⟨rfl, fun c h => by cases h⟩
  | const c => exact ⟨rfl, fun c' h => by injection h with h; subst h; exact hw⟩
  | bin op l r ihl ihr =>
    obtain ⟨hl, hr⟩ := hw
    obtain ⟨el, gl⟩ := ihl hl
    obtain ⟨er, gr⟩ := ihr hr
    simp only [Expr.eval, Spec.denote, el, er]
    cases hdl : Spec.denote l with
    | err e => exact ⟨rfl, fun c h => by cases h⟩
    | panic => exact ⟨rfl, fun c h => by cases h⟩
    | ok a =>
      cases hdr : Spec.denote r with
      | err e => exact ⟨rfl, fun c h => by cases h⟩
      | panic => exact ⟨rfl, fun c h => by cases h⟩
      | ok b =>
        simp only [Res.bind_ok]
        exact ⟨apply_eq_spec op a b (gl a hdl) (gr b hdr), fun c h => Spec.bin_good op a b c (gl a hdl) h⟩
  | ext op m e ih =>
    obtain ⟨hm1, hm2, he⟩ := hw
    obtain ⟨ee, ge⟩ := ih he
    simp only [Expr.eval, Spec.denote, ee]
    cases hde : Spec.denote e with
    | err e => exact ⟨rfl, fun c h => by cases h⟩
    | panic => exact ⟨rfl, fun c h => by cases h⟩
    | ok a =>
      simp only [Res.bind_ok]
      exact ⟨ext_eq_spec op a m (ge a hde), fun c h => Spec.ext_good op a c m hm1 hm2 h⟩
  | ite c t e ihc iht ihe =>
    obtain ⟨hc, ht, he⟩ := hw
    obtain ⟨ec, _⟩ := ihc hc
    obtain ⟨et, gt⟩ := iht ht
    obtain ⟨ee, ge⟩ := ihe he
    simp only [Expr.eval, Spec.denote, ec]
    cases hdc : Spec.denote c with
    | err e => exact ⟨rfl, fun c h => by cases h⟩
    | panic => exact ⟨rfl, fun c h => by cases h⟩
    | ok cv =>
      simp only [Res.bind_ok, Const.isOne, beq_iff_eq]
      by_cases h1 : cv.val = 1
      · simp only [h1, ↓reduceIte, et]; exact ⟨trivial, gt⟩
      · simp only [h1, ↓reduceIte, ee]; exact ⟨trivial, ge⟩

end Falcon
