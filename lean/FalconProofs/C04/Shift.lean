/-
  FalconProofs.C04.Shift — `shl`, `shr`, `ashr` of `Const` are the saturating `BitVec` shifts.
  `n < 2^64` is the fact that `Constant::bits` is a `usize`.
-/
import FalconProofs.C04.Signed

namespace Falcon
namespace Const

variable {n : Nat} (x y : BitVec n)

theorem shl_ofBV (hn64 : n < 2 ^ 64) :
    Const.shl (ofBV x) (ofBV y) = .ok (ofBV (Spec.shl x y.toNat)) := by
  show Const.shl ⟨n, x.toNat⟩ ⟨n, y.toNat⟩ = _
  simp only [Const.shl, ne_eq, not_true_eq_false, ↓reduceIte]
  congr 1
  by_cases hy : y.toNat < 2 ^ 64
  · rw [toUsize_of_lt hy]
    simp only [Spec.shl]
    by_cases hs : y.toNat ≥ n
    · rw [if_pos hs, if_pos hs]; apply new_eq_ofBV_of_toNat; simp
    · rw [if_neg hs, if_neg hs]; apply new_eq_ofBV_of_toNat
      rw [BitVec.toNat_shiftLeft]
  · rw [toUsize_of_ge (by omega)]
    simp only [Spec.shl]
    rw [if_pos (by omega)]; apply new_eq_ofBV_of_toNat; simp

theorem shiftRight_eq_zero_of_ge {v n s : Nat} (hv : v < 2 ^ n) (hs : n ≤ s) : v >>> s = 0 := by
  rw [Nat.shiftRight_eq_div_pow]
  apply Nat.div_eq_of_lt
  exact Nat.lt_of_lt_of_le hv (Nat.pow_le_pow_right (by decide) hs)

theorem shr_ofBV (hn64 : n < 2 ^ 64) :
    Const.shr (ofBV x) (ofBV y) = .ok (ofBV (Spec.shr x y.toNat)) := by
  show Const.shr ⟨n, x.toNat⟩ ⟨n, y.toNat⟩ = _
  simp only [Const.shr, ne_eq, not_true_eq_false, ↓reduceIte]
  congr 1
  by_cases hy : y.toNat < 2 ^ 64
  · rw [toUsize_of_lt hy]
    simp only [Spec.shr]
    by_cases hs : y.toNat ≥ n
    · rw [if_pos hs]; apply new_eq_ofBV_of_toNat
      rw [shiftRight_eq_zero_of_ge x.isLt hs]; simp
    · rw [if_neg hs]; apply new_eq_ofBV_of_toNat
      rw [BitVec.toNat_ushiftRight, Nat.mod_eq_of_lt]
      exact Nat.lt_of_le_of_lt (Nat.shiftRight_le _ _) x.isLt
  · rw [toUsize_of_ge (by omega)]
    simp only [Spec.shr]
    rw [if_pos (by omega)]; apply new_eq_ofBV_of_toNat; simp

theorem msb_iff (hn : 0 < n) : x.msb = true ↔ x.toNat >>> (n - 1) = 1 := by
  rw [shiftRight_pred_eq_one_iff hn x.isLt, BitVec.msb_eq_decide, decide_eq_true_eq]
  have hp : 2 ^ n = 2 * 2 ^ (n - 1) := by
    cases n with
    | zero => omega
    | succ k => simp [Nat.pow_succ, Nat.mul_comm]
  omega

theorem msb_shift_zero_or_one (hn : 0 < n) : x.toNat >>> (n - 1) = 0 ∨ x.toNat >>> (n - 1) = 1 := by
  have hx := x.isLt
  rw [Nat.shiftRight_eq_div_pow]
  have hp : 2 ^ n = 2 * 2 ^ (n - 1) := by
    cases n with
    | zero => omega
    | succ k => simp [Nat.pow_succ, Nat.mul_comm]
  have hpos : 0 < 2 ^ (n - 1) := Nat.two_pow_pos _
  have : x.toNat / 2 ^ (n - 1) < 2 := (Nat.div_lt_iff_lt_mul hpos).2 (by omega)
  generalize x.toNat / 2 ^ (n - 1) = q at *
  omega

theorem mask_new (n : Nat) : Const.new (mask n) n = ofBV (BitVec.allOnes n) := by
  apply new_eq_ofBV_of_toNat
  rw [BitVec.toNat_allOnes, mask_eq, Nat.mod_eq_of_lt]
  have := Nat.two_pow_pos n; omega

/-- the sign fill of `ashr`: bits `[n-s, n)` set, or-ed onto the logically shifted value -/
theorem ashr_fill (hn : 0 < n) (s : Nat) (hs : s < n) (hm : x.msb = true) :
    Const.new ((mask n <<< (n - s)) ||| (x.toNat >>> s)) n = ofBV (x.sshiftRight s) := by
  rw [new_eq_ofBV]
  congr 1
  apply BitVec.eq_of_getLsbD_eq
  intro i hi
  rw [BitVec.getLsbD_ofNat, BitVec.getLsbD_sshiftRight]
  have hni : ¬ n ≤ i := by omega
  rw [Nat.testBit_or, Nat.testBit_shiftLeft, Nat.testBit_shiftRight, mask_eq, Nat.testBit_two_pow_sub_one]
  simp only [hi, hni, decide_true, decide_false, Bool.true_and, Bool.not_false]
  by_cases h1 : s + i < n
  · have h2 : ¬ (i ≥ n - s) := by omega
    simp only [h1, h2, ↓reduceIte, decide_false, Bool.false_and, Bool.false_or]
    rfl
  · have h2 : i ≥ n - s := by omega
    have h3 : i - (n - s) < n := by omega
    simp only [h1, h2, h3, ↓reduceIte, decide_true, Bool.true_and, Bool.true_or, hm]

theorem ashr_ofBV (hn : 0 < n) (hn64 : n < 2 ^ 64) :
    Const.ashr (ofBV x) (ofBV y) = .ok (ofBV (Spec.ashr x y.toNat)) := by
  show Const.ashr ⟨n, x.toNat⟩ ⟨n, y.toNat⟩ = _
  simp only [Const.ashr, ne_eq, not_true_eq_false, ↓reduceIte]
  have hn0 : ¬ n = 0 := by omega
  by_cases hy : y.toNat < 2 ^ 64
  · rw [toUsize_of_lt hy]
    simp only [hn0, ↓reduceIte]
    rcases msb_shift_zero_or_one x hn with h0 | h1
    · have hm : x.msb = false := by
        cases hmsb : x.msb
        · rfl
        · have := (msb_iff x hn).1 hmsb; omega
      simp only [h0, ↓reduceIte, Spec.ashr, hm]
      congr 1
      by_cases hs : y.toNat ≥ n
      · rw [if_pos hs]; apply new_eq_ofBV_of_toNat
        rw [shiftRight_eq_zero_of_ge x.isLt hs]; simp
      · rw [if_neg hs, BitVec.sshiftRight_eq_of_msb_false hm]; apply new_eq_ofBV_of_toNat
        rw [BitVec.toNat_ushiftRight, Nat.mod_eq_of_lt]
        exact Nat.lt_of_le_of_lt (Nat.shiftRight_le _ _) x.isLt
    · have hm : x.msb = true := (msb_iff x hn).2 h1
      simp only [h1, Nat.one_ne_zero, ↓reduceIte, Spec.ashr, hm]
      by_cases hs : y.toNat ≥ n
      · rw [if_pos hs, if_pos hs, mask_new]
      · rw [if_neg hs, if_neg hs, ashr_fill x hn _ (by omega) hm]
  · rw [toUsize_of_ge (by omega)]
    simp only [hn0, ↓reduceIte, Spec.ashr]
    have hge : y.toNat ≥ n := by omega
    rw [if_pos hge]
    rcases msb_shift_zero_or_one x hn with h0 | h1
    · have hm : x.msb = false := by
        cases hmsb : x.msb
        · rfl
        · have := (msb_iff x hn).1 hmsb; omega
      simp only [h0, ↓reduceIte, hm]
      congr 1
    · have hm : x.msb = true := (msb_iff x hn).2 h1
      simp only [h1, Nat.one_ne_zero, ↓reduceIte, hm, mask_new]

end Const
end Falcon
