/-
  FalconProofs.C04.Derived — the derived builders `Expression::rotl` and scalar substitution.
-/
import FalconProofs.C04.Eval

namespace Falcon
open Const

theorem ec_eq_ofBV {n : Nat} (h64 : n < 2 ^ 64) : Expr.ec n n = .const (ofBV (BitVec.ofNat n n)) := by
  simp [Expr.ec, Nat.mod_eq_of_lt h64, new_eq_ofBV]

/-- **rotl**: for every width `1 ≤ n < 2^64`, every value and every amount (also beyond the width),
    evaluating `Expression::rotl e s` yields `e` rotated left by `s` — the amount counts modulo the width -/
theorem rotl_ofBV {n : Nat} (hn : 1 ≤ n) (h64 : n < 2 ^ 64) (x s : BitVec n) :
    (Expr.rotl (.const (ofBV x)) (.const (ofBV s)) >>= Expr.eval) = .ok (ofBV (x.rotateLeft s.toNat)) := by
  have hN : (BitVec.ofNat n n).toNat = n := by
    rw [BitVec.toNat_ofNat]; exact Nat.mod_eq_of_lt Nat.lt_two_pow_self
  have hNz : BitVec.ofNat n n ≠ 0 := by
    intro h; have := congrArg BitVec.toNat h; rw [hN] at this; simp at this; omega
  -- the four evaluation steps, each by the operator theorems
  have e1 : Const.modu (ofBV s) (ofBV (BitVec.ofNat n n)) = .ok (ofBV (s % BitVec.ofNat n n)) := modu_ofBV s _ hNz
  have hk : (s % BitVec.ofNat n n).toNat = s.toNat % n := by rw [BitVec.toNat_umod, hN]
  have hklt : s.toNat % n < n := Nat.mod_lt _ (by omega)
  have e2 : Const.shl (ofBV x) (ofBV (s % BitVec.ofNat n n)) = .ok (ofBV (x <<< (s.toNat % n))) := by
    rw [shl_ofBV x _ h64, hk, Spec.shl, if_neg (by omega)]
  have hd : (BitVec.ofNat n n - s % BitVec.ofNat n n).toNat = n - s.toNat % n := by
    rw [BitVec.toNat_sub, hN, hk]
    have h2 : n < 2 ^ n := Nat.lt_two_pow_self
    have : 2 ^ n - s.toNat % n + n = (n - s.toNat % n) + 2 ^ n := by omega
    rw [this, Nat.add_mod_right, Nat.mod_eq_of_lt (by omega)]
  have e3 : Const.sub (ofBV (BitVec.ofNat n n)) (ofBV (s % BitVec.ofNat n n))
      = .ok (ofBV (BitVec.ofNat n n - s % BitVec.ofNat n n)) := sub_ofBV _ _
  have e4 : Const.shr (ofBV x) (ofBV (BitVec.ofNat n n - s % BitVec.ofNat n n))
      = .ok (ofBV (x >>> (n - s.toNat % n))) := by
    rw [shr_ofBV x _ h64, hd]
    congr 2
    unfold Spec.shr
    split
    · rename_i h
      apply BitVec.eq_of_toNat_eq
      rw [BitVec.toNat_ushiftRight, shiftRight_eq_zero_of_ge x.isLt h]; simp
    · rfl
  have e5 := or_ofBV (x <<< (s.toNat % n)) (x >>> (n - s.toNat % n))
  simp only [Expr.rotl, Expr.mkBin, Expr.bits, ofBV_bits, ec_eq_ofBV h64, ne_eq, not_true_eq_false, ↓reduceIte,
    BinOp.isCmp, Bool.false_eq_true, Res.bind_ok, Expr.eval, BinOp.apply, e1, e2, e3, e4, e5]
  rw [BitVec.rotateLeft_def]

/-! ### scalar substitution -/

/-- evaluation under a valuation of scalars (by scalar, i.e. name, width and version) -/
def evalUnder (ρ : Scalar → Option Const) : Expr → Res Const
  | .scalar s => match ρ s with
      | some c => .ok c
      | none => .err .scalar
  | .const c => .ok c
  | .bin op l r => do
      let a ← evalUnder ρ l
      let b ← evalUnder ρ r
      op.apply a b
  | .ext op m e => do
      let a ← evalUnder ρ e
      op.apply a m
  | .ite c t e => do
      let cv ← evalUnder ρ c
      if cv.isOne then evalUnder ρ t else evalUnder ρ e

/-- `replace_scalar` succeeded ⇒ evaluating the result is evaluating the original with the scalar bound to the
    value of the replacement: **substitution agrees with the operators' meanings**, for every tree, scalar,
    replacement expression and valuation -/
theorem replaceScalar_eval (x : Scalar) (r : Expr) (ρ : Scalar → Option Const) (v : Const)
    (hr : evalUnder ρ r = .ok v) (e e' : Expr) (h : Expr.replaceScalar x r e = .ok e') :
    evalUnder ρ e' = evalUnder (fun s => if s = x then some v else ρ s) e := by
  induction e generalizing e' with
  | scalar s =>
    simp only [Expr.replaceScalar] at h
    split at h
    · rename_i hs; injection h with h; subst h
      simp [evalUnder, hs, hr]
    · rename_i hs; injection h with h; subst h
      simp [evalUnder, hs]
  | const c => simp only [Expr.replaceScalar] at h; injection h with h; subst h; rfl
  | bin op l r' ihl ihr =>
    simp only [Expr.replaceScalar] at h
    cases hl : Expr.replaceScalar x r l with
    | err e => simp [hl] at h
    | panic => simp [hl] at h
    | ok l' =>
      cases hrr : Expr.replaceScalar x r r' with
      | err e => simp [hl, hrr] at h
      | panic => simp [hl, hrr] at h
      | ok r'' =>
        simp only [hl, hrr, Res.bind_ok, Expr.mkBin] at h
        split at h
        · cases h
        · injection h with h; subst h
          simp only [evalUnder, ihl l' hl, ihr r'' hrr]
  | ext op m e ih =>
    simp only [Expr.replaceScalar] at h
    cases he : Expr.replaceScalar x r e with
    | err e => simp [he] at h
    | panic => simp [he] at h
    | ok e1 =>
      simp only [he, Res.bind_ok, Expr.mkExt] at h
      cases op <;> simp only at h <;> split at h <;> first
        | (cases h; simp only [evalUnder, ih e1 he])
        | cases h
  | ite c t e ihc iht ihe =>
    simp only [Expr.replaceScalar] at h
    cases hc : Expr.replaceScalar x r c with
    | err e => simp [hc] at h
    | panic => simp [hc] at h
    | ok c1 =>
      cases ht : Expr.replaceScalar x r t with
      | err e => simp [hc, ht] at h
      | panic => simp [hc, ht] at h
      | ok t1 =>
        cases he : Expr.replaceScalar x r e with
        | err e => simp [hc, ht, he] at h
        | panic => simp [hc, ht, he] at h
        | ok e1 =>
          simp only [hc, ht, he, Res.bind_ok, Expr.mkIte] at h
          split at h
          · cases h
          · injection h with h; subst h
            simp only [evalUnder, ihc c1 hc, iht t1 ht, ihe e1 he]

/-- the only way `replace_scalar` fails is a sort error (a width-changing substitution) -/
theorem replaceScalar_fail (x : Scalar) (r e : Expr) :
    (∃ e', Expr.replaceScalar x r e = .ok e') ∨ Expr.replaceScalar x r e = .err .sort := by
  induction e with
  | scalar s => simp only [Expr.replaceScalar]; split <;> exact .inl ⟨_, rfl⟩
  | const c => exact .inl ⟨_, rfl⟩
  | bin op l r' ihl ihr =>
    simp only [Expr.replaceScalar]
    rcases ihl with ⟨l', hl⟩ | hl
    · rcases ihr with ⟨r'', hr⟩ | hr
      · rw [hl, hr]; simp only [Res.bind_ok, Expr.mkBin]; split
        · exact .inr rfl
        · exact .inl ⟨_, rfl⟩
      · rw [hl, hr]; exact .inr rfl
    · rw [hl]; exact .inr rfl
  | ext op m e ih =>
    simp only [Expr.replaceScalar]
    rcases ih with ⟨e1, he⟩ | he
    · rw [he]; simp only [Res.bind_ok, Expr.mkExt]
      cases op <;> simp only <;> split <;> first | exact .inr rfl | exact .inl ⟨_, rfl⟩
    · rw [he]; exact .inr rfl
  | ite c t e ihc iht ihe =>
    simp only [Expr.replaceScalar]
    rcases ihc with ⟨c1, hc⟩ | hc
    · rcases iht with ⟨t1, ht⟩ | ht
      · rcases ihe with ⟨e1, he⟩ | he
        · rw [hc, ht, he]; simp only [Res.bind_ok, Expr.mkIte]; split
          · exact .inr rfl
          · exact .inl ⟨_, rfl⟩
        · rw [hc, ht, he]; exact .inr rfl
      · rw [hc, ht]; exact .inr rfl
    · rw [hc]; exact .inr rfl

/-- closed evaluation is evaluation under the empty valuation -/
theorem eval_eq_evalUnder (e : Expr) : e.eval = evalUnder (fun _ => none) e := by
  induction e with
  | scalar s => rfl
  | const c => rfl
  | bin op l r ihl ihr => simp only [Expr.eval, evalUnder, ihl, ihr]
  | ext op m e ih => simp only [Expr.eval, evalUnder, ih]
  | ite c t e ihc iht ihe => simp only [Expr.eval, evalUnder, ihc, iht, ihe]

end Falcon
