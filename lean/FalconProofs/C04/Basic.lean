/-
  FalconProofs.C04.Basic — bridging lemmas between the `Nat`-based mirror `Const` and `BitVec`.
-/
import FalconModel.ConstSpec

namespace Falcon
namespace Const

@[simp] theorem ofBV_bits {n : Nat} (x : BitVec n) : (ofBV x).bits = n := rfl
@[simp] theorem ofBV_val {n : Nat} (x : BitVec n) : (ofBV x).val = x.toNat := rfl

theorem ofBV_wf {n : Nat} (x : BitVec n) : (ofBV x).WF := x.isLt

@[simp] theorem toBV_ofBV {n : Nat} (x : BitVec n) : (ofBV x).toBV = x := by
  simp [toBV, ofBV]

/-- every well-formed constant is `ofBV` of its bit-vector -/
theorem eq_ofBV (c : Const) (h : c.WF) : c = ofBV c.toBV := by
  cases c with
  | mk b v =>
    simp only [ofBV, toBV, BitVec.toNat_ofNat, Const.mk.injEq, true_and]
    exact (Nat.mod_eq_of_lt h).symm

theorem new_eq_ofBV (v n : Nat) : Const.new v n = ofBV (BitVec.ofNat n v) := by
  simp [Const.new, trim, ofBV]

theorem new_wf (v n : Nat) : (Const.new v n).WF := by
  rw [new_eq_ofBV]; exact ofBV_wf _

theorem ofBV_inj {n : Nat} {x y : BitVec n} (h : ofBV x = ofBV y) : x = y := by
  simp only [ofBV, Const.mk.injEq, true_and] at h
  exact BitVec.eq_of_toNat_eq h

theorem bit_wf (b : Bool) : (bit b).WF := by cases b <;> simp [bit, WF]
@[simp] theorem bit_bits (b : Bool) : (bit b).bits = 1 := by cases b <;> rfl

theorem mask_eq (n : Nat) : mask n = 2 ^ n - 1 := rfl

theorem toUsize_of_lt {v : Nat} (h : v < 2 ^ 64) : toUsize v = some v := by simp [toUsize, h]
theorem toUsize_of_ge {v : Nat} (h : 2 ^ 64 ≤ v) : toUsize v = none := by
  simp [toUsize]; omega

end Const

namespace Spec

/-- the cast in `Spec.bin` disappears when both operands are `ofBV` at the same width -/
theorem bin_ofBV_some {n : Nat} {op : BinOp} {x y : BitVec n} {c : Const} (h : binBV op x y = some c) :
    bin op (Const.ofBV x) (Const.ofBV y) = .ok c := by
  simp [bin, h]

theorem bin_ofBV_none {n : Nat} {op : BinOp} {x y : BitVec n} (h : binBV op x y = none) :
    bin op (Const.ofBV x) (Const.ofBV y) = .err .div0 := by
  simp [bin, h]

theorem bin_sort (op : BinOp) (a b : Const) (h : a.bits ≠ b.bits) : bin op a b = .err .sort := by
  simp [bin, h]

end Spec
end Falcon
