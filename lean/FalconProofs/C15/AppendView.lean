/-
  FalconProofs.C15.AppendView — a successful `append` / `insert` produces the glued graph of AppendLang.
-/
import FalconProofs.C15.AppendLang

namespace Falcon.C15
open Falcon Falcon.CfgEdit

theorem old_index_lt {c : Cfg} (hw : WF c) {i : Nat} (h : c.hasBlock i = true) : i < c.nextIndex := by
  obtain ⟨b, hb, rfl⟩ := (hasBlock_iff c i).mp h
  exact hw.indexLt b hb

/-- what a successful `append` looks like -/
structure AppendView (c d c' : Cfg) (f : Nat → Nat) (den dex : Nat) : Prop where
  dentry : d.entry = some den
  dexit : d.exit = some dex
  glue : Glue c d c' f
  exit : c'.exit = some (f dex)
  /-- destination empty: the copy's entry becomes the entry, no edge is added -/
  empty : c.blocks = [] → c'.entry = some (f den) ∧ ∀ e, e ∈ c'.edges ↔ ∃ e0 ∈ d.edges, e = copyEdge f e0
  /-- destination non-empty: entry kept, transition edge from the old exit -/
  nonempty : c.blocks ≠ [] → ∃ cen cex, c.entry = some cen ∧ c.exit = some cex ∧ c'.entry = some cen ∧
    Trans c d c' f cex den

theorem glue_of_copyView {c d c2 c' : Cfg} {f : Nat → Nat} (hw : WF c) (hd : WF d) (V : CopyView c d c2 f)
    (hb : c'.blocks = c2.blocks) (hsub : ∀ e ∈ c2.edges, e ∈ c'.edges)
    (hextra : ∀ e ∈ c'.edges, e ∈ c2.edges ∨ e.head < c.nextIndex) : Glue c d c' f := by
  refine ⟨hw, hd, ?_, ?_, ?_, V.fresh, V.inj⟩
  · intro x; rw [hb]; exact V.blocks x
  · intro e0 he0; exact hsub _ ((V.edges _).mpr (Or.inr ⟨e0, he0, rfl⟩))
  · intro e he hge
    rcases hextra e he with h2 | hlt
    · rcases (V.edges e).mp h2 with hold | ⟨e0, he0, rfl⟩
      · have := old_index_lt hw (hw.edgesJoin e hold).1; omega
      · exact ⟨e0, he0, rfl⟩
    · omega

theorem append_view {c d c' : Cfg} (hw : WF c) (hd : WF d) (h : CfgEdit.append c d = ⟨c', .ok ()⟩) :
    ∃ f den dex, AppendView c d c' f den dex := by
  unfold CfgEdit.append at h
  dsimp only at h
  split at h
  · simp at h
  · rename_i hguard
    split at h
    · rename_i dEntry dExit hden hdex
      split at h
      · rename_i c1 m hcb
        split at h
        · rename_i c2 hce
          obtain ⟨V, hen2, hex2, hlook⟩ := copy_view hd hcb hce
          obtain ⟨be, hbe, hbei⟩ := (hasBlock_iff d _).mp (hd.entryOk dEntry hden)
          obtain ⟨bx, hbx, hbxi⟩ := (hasBlock_iff d _).mp (hd.exitOk dExit hdex)
          have hlen : m.lookup dEntry = some (renameOf m dEntry) := by rw [← hbei]; exact hlook be hbe
          have hlex : m.lookup dExit = some (renameOf m dExit) := by rw [← hbxi]; exact hlook bx hbx
          rw [hlen] at h
          dsimp only at h
          split at h
          · rename_i c3 hr
            rw [hlex] at h
            simp only [Step.mk.injEq, and_true] at h
            -- the two cases of the entry / transition step
            split at hr
            · rename_i hemp
              have hemp : c.blocks = [] := by simpa using hemp
              simp only [Step.mk.injEq, and_true] at hr
              subst hr; subst h
              refine ⟨renameOf m, dEntry, dExit, hden, hdex, ?_, rfl, ?_, ?_⟩
              · exact glue_of_copyView hw hd V rfl (fun e he => he) (fun e he => Or.inl he)
              · intro _
                refine ⟨rfl, ?_⟩
                intro e
                show e ∈ c2.edges ↔ _
                rw [V.edges e]
                constructor
                · rintro (hold | ⟨e0, he0, rfl⟩)
                  · have := (hw.edgesJoin e hold).1
                    rw [hasBlock_iff, hemp] at this
                    obtain ⟨_, hb, _⟩ := this; cases hb
                  · exact ⟨e0, he0, rfl⟩
                · rintro ⟨e0, he0, rfl⟩; exact Or.inr ⟨e0, he0, rfl⟩
              · intro hne; exact absurd hemp hne
            · rename_i hemp
              have hemp : c.blocks ≠ [] := by simpa using hemp
              have hg : ¬c.entry = none ∧ ¬c.exit = none := by
                have : c.blocks.isEmpty = false := by simpa using hemp
                simpa [this] using hguard
              split at hr
              · rename_i cex hcex2
                cases hie : insertEdge c2 { head := cex, tail := renameOf m dEntry, cond := none } with
                | ok c4 =>
                  rw [hie] at hr
                  simp only [Step.ofRes, Step.mk.injEq, and_true] at hr
                  subst hr; subst h
                  obtain ⟨_, _, _, hc4⟩ := insertEdge_ok hie
                  have hcex : c.exit = some cex := by rw [← hex2]; exact hcex2
                  obtain ⟨cen, hcen⟩ : ∃ cen, c.entry = some cen := by
                    cases hce' : c.entry with
                    | none => exact absurd hce' hg.1
                    | some x => exact ⟨x, rfl⟩
                  have hcexlt : cex < c.nextIndex := old_index_lt hw (hw.exitOk cex hcex)
                  have hedges : ∀ e, e ∈ c4.edges ↔ e = ⟨cex, renameOf m dEntry, none⟩ ∨ e ∈ c2.edges := by
                    intro e; rw [hc4]; exact mem_insertEdgeSorted
                  refine ⟨renameOf m, dEntry, dExit, hden, hdex, ?_, rfl, ?_, ?_⟩
                  · apply glue_of_copyView hw hd V (by rw [hc4])
                    · intro e he; exact (hedges e).mpr (Or.inr he)
                    · intro e he
                      rcases (hedges e).mp he with rfl | h2
                      · exact Or.inr hcexlt
                      · exact Or.inl h2
                  · intro he; exact absurd he hemp
                  · intro _
                    refine ⟨cen, cex, hcen, hcex, ?_, ?_, ?_, ?_⟩
                    · show c4.entry = some cen
                      rw [hc4]; show c2.entry = some cen; rw [hen2]; exact hcen
                    · intro e he; exact (hedges e).mpr (Or.inr ((V.edges e).mpr (Or.inl he)))
                    · exact (hedges _).mpr (Or.inl rfl)
                    · intro e he hlt
                      rcases (hedges e).mp he with rfl | h2
                      · exact Or.inr rfl
                      · rcases (V.edges e).mp h2 with hold | ⟨e0, he0, rfl⟩
                        · exact Or.inl hold
                        · obtain ⟨bh, hbh, hbhi⟩ := (hasBlock_iff d _).mp (hd.edgesJoin e0 he0).1
                          have := V.fresh bh hbh
                          rw [hbhi] at this
                          have h' : (⟨renameOf m e0.head, renameOf m e0.tail, e0.cond⟩ : Edge).head = renameOf m e0.head := rfl
                          omega
                | err x => rw [hie] at hr; simp [Step.ofRes] at hr
                | panic => rw [hie] at hr; simp [Step.ofRes] at hr
              · simp at hr
          · rename_i hne
            -- the entry / transition step did not return ok: the result is not ok either
            split at h <;> simp_all
        · simp at h
        · simp at h
      · simp at h
      · simp at h
    · simp at h

/-- the entry→exit language of a successful `append` (restated as `append_paths` in Props/C15.lean) -/
theorem append_langEE {c d c' : Cfg} (hw : WF c) (hd : WF d) (h : CfgEdit.append c d = ⟨c', .ok ()⟩) (w : List Sym) :
    LangEE c' w ↔ if c.blocks = [] then LangEE d w else ∃ u v, w = u ++ v ∧ LangEE c u ∧ LangEE d v := by
  obtain ⟨f, den, dex, A⟩ := append_view hw hd h
  have G := A.glue
  by_cases hemp : c.blocks = []
  · simp only [hemp, if_true]
    obtain ⟨hen, _⟩ := A.empty hemp
    constructor
    · rintro ⟨en, ex, h1, h2, hwalk⟩
      rw [hen] at h1; rw [A.exit] at h2
      cases h1; cases h2
      exact ⟨den, dex, A.dentry, A.dexit, (langEE_copy G A.dentry A.dexit w).mp hwalk⟩
    · rintro ⟨en, ex, h1, h2, hwalk⟩
      rw [A.dentry] at h1; rw [A.dexit] at h2
      cases h1; cases h2
      exact ⟨_, _, hen, A.exit, (langEE_copy G A.dentry A.dexit w).mpr hwalk⟩
  · simp only [hemp, if_false]
    obtain ⟨cen, cex, hcen, hcex, hen', T⟩ := A.nonempty hemp
    obtain ⟨bx, hbx, hbxi⟩ := (hasBlock_iff d _).mp (hd.exitOk dex A.dexit)
    constructor
    · rintro ⟨en, ex, h1, h2, hwalk⟩
      rw [hen'] at h1; rw [A.exit] at h2
      cases h1; cases h2
      obtain ⟨u, v, rfl, hu, hv⟩ := walk_split G T hwalk (old_index_lt hw (hw.entryOk _ hcen))
        (by rw [← hbxi]; exact G.fresh bx hbx)
      exact ⟨u, v, rfl, ⟨cen, cex, hcen, hcex, hu⟩, ⟨den, dex, A.dentry, A.dexit, (langEE_copy G A.dentry A.dexit v).mp hv⟩⟩
    · rintro ⟨u, v, rfl, ⟨en1, ex1, h1, h2, hu⟩, ⟨en2, ex2, h3, h4, hv⟩⟩
      rw [hcen] at h1; rw [hcex] at h2; rw [A.dentry] at h3; rw [A.dexit] at h4
      cases h1; cases h2; cases h3; cases h4
      exact ⟨cen, _, hen', A.exit, walk_join G T hu (walk_copy G hv)⟩

end Falcon.C15
