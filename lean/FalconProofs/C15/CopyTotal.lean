/-
  FalconProofs.C15.CopyTotal — `append` and `insert` succeed on well-formed graphs whenever the documented
  preconditions hold (entry/exit of the source set; destination empty or with entry/exit set): the fresh
  indices never collide (`insert_vertex`), the copied and the transition edges are never duplicates.
-/
import FalconProofs.C15.NoPanic
import FalconProofs.C15.AppendView

namespace Falcon.C15
open Falcon Falcon.CfgEdit

theorem copyBlocks_total {c : Cfg} (m : List (Nat × Nat)) (bs : List Block)
    (hlt : ∀ b ∈ c.blocks, b.index < c.nextIndex) : ∃ c1 m1, copyBlocks c m bs = ⟨c1, .ok m1⟩ := by
  induction bs generalizing c m with
  | nil => exact ⟨c, m, rfl⟩
  | cons b bs ih =>
    unfold copyBlocks
    dsimp only
    have hno : Cfg.hasBlock { c with nextIndex := c.nextIndex + 1 } c.nextIndex = false := by
      cases hx : Cfg.hasBlock { c with nextIndex := c.nextIndex + 1 } c.nextIndex with
      | false => rfl
      | true =>
        obtain ⟨x, hx, hxi⟩ := (hasBlock_iff _ _).mp hx
        have := hlt x hx
        omega
    have hiv : insertVertex { c with nextIndex := c.nextIndex + 1 } { b with index := c.nextIndex }
        = .ok { c with nextIndex := c.nextIndex + 1, blocks := insertBlockSorted { b with index := c.nextIndex } c.blocks } := by
      unfold insertVertex
      simp only [hno, Bool.false_eq_true, if_false]
    rw [hiv]
    dsimp only
    apply ih
    intro x hx
    rcases mem_insertBlockSorted.mp hx with rfl | hx
    · exact Nat.lt_succ_self _
    · exact Nat.lt_succ_of_lt (hlt x hx)

theorem copyEdges_eq_insertEdges (m : List (Nat × Nat)) (c : Cfg) (es : List Edge)
    (h : ∀ e ∈ es, m.lookup e.head = some (renameOf m e.head) ∧ m.lookup e.tail = some (renameOf m e.tail)) :
    copyEdges m c es = insertEdges c (es.map (copyEdge (renameOf m))) := by
  induction es generalizing c with
  | nil => rfl
  | cons e es ih =>
    obtain ⟨h1, h2⟩ := h e List.mem_cons_self
    unfold copyEdges
    rw [h1, h2, List.map_cons]
    unfold insertEdges
    dsimp only
    show (match insertEdge c (copyEdge (renameOf m) e) with
      | .ok c' => copyEdges m c' es
      | .err x => ⟨c, .err x⟩
      | .panic => ⟨c, .panic⟩) = _
    cases insertEdge c (copyEdge (renameOf m) e) with
    | ok c' => exact ih c' (fun x hx => h x (List.mem_cons_of_mem _ hx))
    | err x => rfl
    | panic => rfl

/-- both copy loops succeed -/
theorem copy_total {c d : Cfg} (hw : WF c) (hd : WF d) :
    ∃ c1 m c2, copyBlocks c [] d.blocks = ⟨c1, .ok m⟩ ∧ copyEdges m c1 d.edges = ⟨c2, .ok ()⟩ := by
  obtain ⟨c1, m, hb⟩ := copyBlocks_total (c := c) [] d.blocks hw.indexLt
  have V := copyBlocks_view d.blocks hd.blocksNodup hb
  have hlook : ∀ i, d.hasBlock i = true → m.lookup i = some (renameOf m i) := by
    intro i hi
    obtain ⟨n, hn⟩ := (lookups_ok hd hb).1 i hi
    simp [renameOf, hn]
  have hfresh : ∀ i, d.hasBlock i = true → c.nextIndex ≤ renameOf m i := by
    intro i hi
    obtain ⟨b, hb', rfl⟩ := (hasBlock_iff d i).mp hi
    obtain ⟨n, hn, hge, _⟩ := V.inside b hb'
    simp [renameOf, hn, hge]
  have hinj : ∀ i j, d.hasBlock i = true → d.hasBlock j = true → renameOf m i = renameOf m j → i = j := by
    intro i j hi hj heq
    obtain ⟨bi, hbi, rfl⟩ := (hasBlock_iff d i).mp hi
    obtain ⟨bj, hbj, rfl⟩ := (hasBlock_iff d j).mp hj
    have l1 := hlook _ hi
    have l2 := hlook _ hj
    rw [heq] at l1
    exact V.inj bi hbi bj hbj _ l1 l2
  have heq := copyEdges_eq_insertEdges m c1 d.edges
    (fun e he => ⟨hlook _ (hd.edgesJoin e he).1, hlook _ (hd.edgesJoin e he).2⟩)
  have htot : ∃ c2, insertEdges c1 (d.edges.map (copyEdge (renameOf m))) = ⟨c2, .ok ()⟩ := by
    apply insertEdges_total
    · rw [List.map_map]
      have hnd := hd.edgesNodup
      unfold List.Nodup at hnd ⊢
      rw [List.pairwise_map] at hnd ⊢
      refine hnd.imp_of_mem ?_
      intro a b ha hb hab heq
      apply hab
      simp only [Function.comp, edgeKey, copyEdge, Prod.mk.injEq] at heq
      simp only [edgeKey, Prod.mk.injEq]
      exact ⟨hinj _ _ (hd.edgesJoin a ha).1 (hd.edgesJoin b hb).1 heq.1,
        hinj _ _ (hd.edgesJoin a ha).2 (hd.edgesJoin b hb).2 heq.2⟩
    · intro e he
      obtain ⟨e0, he0, rfl⟩ := List.mem_map.mp he
      refine ⟨?_, ?_, ?_⟩
      · intro hmem
        rw [V.edges] at hmem
        obtain ⟨y, hy, hyk⟩ := List.mem_map.mp hmem
        simp only [edgeKey, copyEdge, Prod.mk.injEq] at hyk
        have h1 := old_index_lt hw (hw.edgesJoin y hy).1
        have h2 := hfresh _ (hd.edgesJoin e0 he0).1
        omega
      · obtain ⟨b, hb', hbi⟩ := (hasBlock_iff d _).mp (hd.edgesJoin e0 he0).1
        rw [hasBlock_iff]
        exact ⟨{ b with index := renameOf m b.index }, (V.blocks _).mpr (Or.inr ⟨b, hb', _, hlook _ (by rw [hbi]; exact (hd.edgesJoin e0 he0).1), rfl⟩),
          by show renameOf m b.index = renameOf m e0.head; rw [hbi]⟩
      · obtain ⟨b, hb', hbi⟩ := (hasBlock_iff d _).mp (hd.edgesJoin e0 he0).2
        rw [hasBlock_iff]
        exact ⟨{ b with index := renameOf m b.index }, (V.blocks _).mpr (Or.inr ⟨b, hb', _, hlook _ (by rw [hbi]; exact (hd.edgesJoin e0 he0).2), rfl⟩),
          by show renameOf m b.index = renameOf m e0.tail; rw [hbi]⟩
  obtain ⟨c2, hc2⟩ := htot
  exact ⟨c1, m, c2, hb, by rw [heq]; exact hc2⟩

theorem insert_total {c d : Cfg} (hw : WF c) (hd : WF d) {den dex : Nat} (hen : d.entry = some den)
    (hex : d.exit = some dex) : ∃ p, (CfgEdit.insert c d).res = .ok p := by
  obtain ⟨c1, m, c2, hb, he⟩ := copy_total (wf_clear hw) hd
  obtain ⟨n1, h1⟩ := (lookups_ok hd hb).1 _ (hd.entryOk _ hen)
  obtain ⟨n2, h2⟩ := (lookups_ok hd hb).1 _ (hd.exitOk _ hex)
  unfold CfgEdit.insert
  rw [hen, hex]
  dsimp only
  rw [hb]
  dsimp only
  rw [he]
  dsimp only
  rw [h1, h2]
  exact ⟨_, rfl⟩

theorem append_total {c d : Cfg} (hw : WF c) (hd : WF d) {den dex : Nat} (hen : d.entry = some den)
    (hex : d.exit = some dex) (hc : c.blocks = [] ∨ (c.entry.isSome = true ∧ c.exit.isSome = true)) :
    (CfgEdit.append c d).res = .ok () := by
  obtain ⟨c1, m, c2, hb, he⟩ := copy_total hw hd
  obtain ⟨V2, hen2, hex2, hlook⟩ := copy_view hd hb he
  obtain ⟨n1, h1⟩ := (lookups_ok hd hb).1 _ (hd.entryOk _ hen)
  obtain ⟨n2, h2⟩ := (lookups_ok hd hb).1 _ (hd.exitOk _ hex)
  have hguard : (!c.blocks.isEmpty && (c.entry.isNone || c.exit.isNone)) = false := by
    rcases hc with h | ⟨ha, hb⟩
    · simp [h]
    · cases hce : c.entry <;> cases hcx : c.exit <;> simp_all
  unfold CfgEdit.append
  dsimp only
  rw [hguard, hen, hex]
  simp only [Bool.false_eq_true, if_false]
  rw [hb]
  dsimp only
  rw [he]
  dsimp only
  rw [h1]
  dsimp only
  by_cases hemp : c.blocks.isEmpty = true
  · simp only [hemp, if_true]
    rw [h2]
  · simp only [hemp]
    have hne : c.blocks ≠ [] := by simpa using hemp
    obtain ⟨_, hx⟩ : c.entry.isSome = true ∧ c.exit.isSome = true := by
      rcases hc with h | h
      · exact absurd h hne
      · exact h
    obtain ⟨cex, hcex⟩ := Option.isSome_iff_exists.mp hx
    have hcex2 : c2.exit = some cex := by rw [hex2]; exact hcex
    rw [hcex2]
    dsimp only
    -- the transition edge is new and joins existing blocks
    obtain ⟨be, hbe, hbei⟩ := (hasBlock_iff d _).mp (hd.entryOk _ hen)
    have hn1 : n1 = renameOf m den := by
      have := hlook be hbe; rw [hbei, h1] at this; exact Option.some.inj this
    have hfresh : c.nextIndex ≤ n1 := by rw [hn1, ← hbei]; exact V2.fresh be hbe
    have hcexlt : cex < c.nextIndex := old_index_lt hw (hw.exitOk cex hcex)
    have hne' : hasEdge c2 cex n1 = false := by
      cases hx : hasEdge c2 cex n1 with
      | false => rfl
      | true =>
        obtain ⟨y, hy, hyk⟩ := List.mem_map.mp ((hasEdge_iff c2 _ _).mp hx)
        simp only [edgeKey, Prod.mk.injEq] at hyk
        rcases (V2.edges y).mp hy with hold | ⟨e0, he0, rfl⟩
        · have := old_index_lt hw (hw.edgesJoin y hold).2; omega
        · obtain ⟨bh, hbh, hbhi⟩ := (hasBlock_iff d _).mp (hd.edgesJoin e0 he0).1
          have := V2.fresh bh hbh
          rw [hbhi] at this
          have h' : renameOf m e0.head = cex := hyk.1
          omega
    have hh1 : c2.hasBlock cex = true := by
      obtain ⟨b, hb', hbi⟩ := (hasBlock_iff c _).mp (hw.exitOk cex hcex)
      exact (hasBlock_iff c2 _).mpr ⟨b, (V2.blocks b).mpr (Or.inl hb'), hbi⟩
    have hh2 : c2.hasBlock n1 = true := by
      rw [hasBlock_iff]
      exact ⟨{ be with index := renameOf m be.index }, (V2.blocks _).mpr (Or.inr ⟨be, hbe, rfl⟩),
        by show renameOf m be.index = n1; rw [hbei, hn1]⟩
    have hie : insertEdge c2 { head := cex, tail := n1, cond := none }
        = .ok { c2 with edges := insertEdgeSorted { head := cex, tail := n1, cond := none } c2.edges } := by
      simp [insertEdge, hne', hh1, hh2]
    rw [hie]
    simp only [Step.ofRes]
    rw [h2]
    simp

end Falcon.C15
