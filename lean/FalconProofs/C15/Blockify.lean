/-
  FalconProofs.C15.Blockify — `BlockTranslationResult::blockify`: well-formedness of its result, the appended
  graph runs the instruction graphs in sequence, the final `merge` keeps the language.
-/
import FalconProofs.C15.CopyTotal

namespace Falcon.C15
open Falcon Falcon.CfgEdit

theorem blockifyInit_wf : WF blockifyInit := by
  constructor <;> simp [blockifyInit, Cfg.hasBlock, BlockWF]

theorem blockifyAppends_wf {c : Cfg} (ds : List Cfg) (hw : WF c) (hds : ∀ d ∈ ds, WF d) :
    WF (blockifyAppends c ds).cfg := by
  induction ds generalizing c with
  | nil => exact hw
  | cons d ds ih =>
    have h1 := wf_append hw (hds d List.mem_cons_self)
    unfold blockifyAppends
    split
    · rename_i c' heq
      rw [heq] at h1
      exact ih h1 (fun x hx => hds x (List.mem_cons_of_mem _ hx))
    · exact h1

/-- the shape of a successful `blockify` -/
theorem blockify_ok_iff {ds : List Cfg} {c : Cfg} (h : blockify ds = .ok c) :
    ∃ c0, blockifyAppends blockifyInit ds = ⟨c0, .ok ()⟩ ∧ (merge c0).res = .ok () ∧ c = (merge c0).cfg := by
  unfold blockify at h
  have h0 : newBlock CfgEdit.new = ⟨{ blocks := [{ index := 0 }], nextIndex := 1 }, .ok 0⟩ := rfl
  rw [h0] at h
  dsimp only at h
  have h1 : setEntry { blocks := [{ index := 0 }], nextIndex := 1 } 0
      = ⟨{ blocks := [{ index := 0 }], entry := some 0, nextIndex := 1 }, .ok ()⟩ := rfl
  rw [h1] at h
  dsimp only at h
  have h2 : setExit { blocks := [{ index := 0 }], entry := some 0, nextIndex := 1 } 0 = ⟨blockifyInit, .ok ()⟩ := rfl
  rw [h2] at h
  dsimp only at h
  split at h
  · rename_i c0 happ
    split at h
    · rename_i hm
      simp only [Res.ok.injEq] at h
      exact ⟨c0, happ, hm, h.symm⟩
    · cases h
    · cases h
  · cases h
  · cases h

theorem blockify_wf' {ds : List Cfg} {c : Cfg} (hds : ∀ d ∈ ds, WF d) (h : blockify ds = .ok c) : WF c := by
  obtain ⟨c0, happ, _, rfl⟩ := blockify_ok_iff h
  have := blockifyAppends_wf ds blockifyInit_wf hds
  rw [happ] at this
  exact wf_merge this

theorem blockifyAppends_no_panic {c : Cfg} (ds : List Cfg) (hds : ∀ d ∈ ds, WF d) :
    (blockifyAppends c ds).res ≠ .panic := by
  induction ds generalizing c with
  | nil => simp [blockifyAppends]
  | cons d ds ih =>
    have h1 := append_no_panic (c := c) (hds d List.mem_cons_self)
    unfold blockifyAppends
    split
    · exact ih (fun x hx => hds x (List.mem_cons_of_mem _ hx))
    · exact h1

theorem blockify_no_panic {ds : List Cfg} (hds : ∀ d ∈ ds, WF d) : blockify ds ≠ .panic := by
  intro h
  unfold blockify at h
  have h0 : newBlock CfgEdit.new = ⟨{ blocks := [{ index := 0 }], nextIndex := 1 }, .ok 0⟩ := rfl
  rw [h0] at h
  dsimp only at h
  have h1 : setEntry { blocks := [{ index := 0 }], nextIndex := 1 } 0
      = ⟨{ blocks := [{ index := 0 }], entry := some 0, nextIndex := 1 }, .ok ()⟩ := rfl
  rw [h1] at h
  dsimp only at h
  have h2 : setExit { blocks := [{ index := 0 }], entry := some 0, nextIndex := 1 } 0 = ⟨blockifyInit, .ok ()⟩ := rfl
  rw [h2] at h
  dsimp only at h
  have hw := blockifyAppends_wf ds blockifyInit_wf hds
  have hnp := blockifyAppends_no_panic (c := blockifyInit) ds hds
  split at h
  · rename_i c0 happ
    rw [happ] at hw
    rw [merge_total hw] at h
    cases h
  · cases h
  · rename_i happ; rw [happ] at hnp; exact hnp rfl

/-- the concatenation of the entry→exit languages of a list of graphs -/
def ConcatLang : List Cfg → List Sym → Prop
  | [], w => w = []
  | d :: ds, w => ∃ u v, w = u ++ v ∧ LangEE d u ∧ ConcatLang ds v

theorem append_keeps_nonempty {c d c' : Cfg} (hw : WF c) (hd : WF d) (h : CfgEdit.append c d = ⟨c', .ok ()⟩)
    (hne : c.blocks ≠ []) : c'.blocks ≠ [] := by
  obtain ⟨f, den, dex, A⟩ := append_view hw hd h
  cases hc : c.blocks with
  | nil => exact absurd hc hne
  | cons b bs =>
    intro h'
    have : b ∈ c'.blocks := (A.glue.blocks b).mpr (Or.inl (by rw [hc]; exact List.mem_cons_self))
    rw [h'] at this; cases this

theorem blockifyAppends_paths {c c' : Cfg} (ds : List Cfg) (hw : WF c) (hds : ∀ d ∈ ds, WF d)
    (hne : c.blocks ≠ []) (h : blockifyAppends c ds = ⟨c', .ok ()⟩) :
    ∀ w, LangEE c' w ↔ ∃ u v, w = u ++ v ∧ LangEE c u ∧ ConcatLang ds v := by
  induction ds generalizing c with
  | nil =>
    simp only [blockifyAppends, Step.mk.injEq, and_true] at h
    subst h
    intro w
    constructor
    · intro hl; exact ⟨w, [], by simp, hl, rfl⟩
    · rintro ⟨u, v, rfl, hl, hv⟩
      simp only [ConcatLang] at hv
      subst hv; simpa using hl
  | cons d ds ih =>
    have hd := hds d List.mem_cons_self
    unfold blockifyAppends at h
    split at h
    · rename_i c1 happ
      have hw1 : WF c1 := by
        have := wf_append hw hd; rw [happ] at this; exact this
      have hne1 := append_keeps_nonempty hw hd happ hne
      intro w
      rw [ih hw1 (fun x hx => hds x (List.mem_cons_of_mem _ hx)) hne1 h w]
      have hap := fun x => append_langEE hw hd happ x
      simp only [hne, if_false] at hap
      constructor
      · rintro ⟨u, v, rfl, hu, hv⟩
        obtain ⟨u1, u2, rfl, h1, h2⟩ := (hap u).mp hu
        exact ⟨u1, u2 ++ v, by simp, h1, u2, v, rfl, h2, hv⟩
      · rintro ⟨u1, v', rfl, h1, u2, v, rfl, h2, hv⟩
        exact ⟨u1 ++ u2, v, by simp, (hap _).mpr ⟨u1, u2, rfl, h1, h2⟩, hv⟩
    · rename_i hno
      exact absurd h (hno c')

theorem blockifyAppends_total {c : Cfg} (ds : List Cfg) (hw : WF c) (hne : c.blocks ≠ [])
    (hen : c.entry.isSome = true) (hex : c.exit.isSome = true)
    (hds : ∀ d ∈ ds, WF d ∧ d.entry.isSome = true ∧ d.exit.isSome = true) :
    ∃ c', blockifyAppends c ds = ⟨c', .ok ()⟩ := by
  induction ds generalizing c with
  | nil => exact ⟨c, rfl⟩
  | cons d ds ih =>
    obtain ⟨hd, hden, hdex⟩ := hds d List.mem_cons_self
    obtain ⟨den, hden'⟩ := Option.isSome_iff_exists.mp hden
    obtain ⟨dex, hdex'⟩ := Option.isSome_iff_exists.mp hdex
    have hres := append_total hw hd hden' hdex' (Or.inr ⟨hen, hex⟩)
    have happ : CfgEdit.append c d = ⟨(CfgEdit.append c d).cfg, .ok ()⟩ := by
      cases hm : CfgEdit.append c d with
      | mk c' r => rw [hm] at hres; simp only at hres; subst hres; rfl
    generalize (CfgEdit.append c d).cfg = c1 at happ
    have hw1 : WF c1 := by have := wf_append hw hd; rw [happ] at this; exact this
    obtain ⟨f, den2, dex2, A⟩ := append_view hw hd happ
    obtain ⟨cen, cex, _, _, hen1, _⟩ := A.nonempty hne
    have := ih hw1 (append_keeps_nonempty hw hd happ hne) (by rw [hen1]; rfl) (by rw [A.exit]; rfl)
      (fun x hx => hds x (List.mem_cons_of_mem _ hx))
    obtain ⟨c', hc'⟩ := this
    exact ⟨c', by unfold blockifyAppends; rw [happ]; exact hc'⟩

theorem blockify_total {ds : List Cfg} (hds : ∀ d ∈ ds, WF d ∧ d.entry.isSome = true ∧ d.exit.isSome = true) :
    ∃ c, blockify ds = .ok c := by
  obtain ⟨c0, happ⟩ := blockifyAppends_total (c := blockifyInit) ds blockifyInit_wf (by simp [blockifyInit])
    rfl rfl hds
  have hw := blockifyAppends_wf ds blockifyInit_wf (fun d hd => (hds d hd).1)
  rw [happ] at hw
  unfold blockify
  have h0 : newBlock CfgEdit.new = ⟨{ blocks := [{ index := 0 }], nextIndex := 1 }, .ok 0⟩ := rfl
  rw [h0]
  dsimp only
  have h1 : setEntry { blocks := [{ index := 0 }], nextIndex := 1 } 0
      = ⟨{ blocks := [{ index := 0 }], entry := some 0, nextIndex := 1 }, .ok ()⟩ := rfl
  rw [h1]
  dsimp only
  have h2 : setExit { blocks := [{ index := 0 }], entry := some 0, nextIndex := 1 } 0 = ⟨blockifyInit, .ok ()⟩ := rfl
  rw [h2]
  dsimp only
  rw [happ]
  dsimp only
  rw [merge_total hw]
  exact ⟨_, rfl⟩

theorem langEE_blockifyInit (w : List Sym) : LangEE blockifyInit w ↔ w = [] := by
  constructor
  · rintro ⟨en, ex, h1, h2, hwalk⟩
    cases hwalk with
    | single hb hi =>
      simp only [blockifyInit, List.mem_singleton] at hb
      subst hb; rfl
    | cons _ _ he _ _ => simp [blockifyInit] at he
  · rintro rfl
    exact ⟨0, 0, rfl, rfl, Walk.single (b := { index := 0 }) (by simp [blockifyInit]) rfl⟩

/-- no editing operation panics when every graph is well formed -/
theorem step_no_panic (s : Graphs) (hs' : ∀ g, WF (s g)) (o : EditOp) : (o.step s).res ≠ .panic := by
  cases o with
  | newBlock g => exact map_no_panic _ (ofRes_no_panic (insertVertex_no_panic _ _))
  | uedge g h t => exact map_no_panic _ (ofRes_no_panic (insertEdge_no_panic _ _))
  | cedge g h t e => exact map_no_panic _ (ofRes_no_panic (insertEdge_no_panic _ _))
  | entry g i => apply map_no_panic; unfold setEntry; split <;> simp
  | exit g i => apply map_no_panic; unfold setExit; split <;> simp
  | merge g => apply map_no_panic; rw [merge_total (hs' g)]; simp
  | append g h => exact map_no_panic _ (append_no_panic (hs' h))
  | insert g h => exact map_no_panic _ (insert_no_panic (hs' h))
  | op g b o => apply map_no_panic; unfold blockOp; split <;> simp
  | bappend g b h j => apply map_no_panic; unfold blockAppendOp; split <;> simp
  | rmins g b i =>
    apply map_no_panic; unfold removeInstruction
    split
    · split
      · simp
      · simp
      · rename_i hp
        unfold blockRemoveInstruction at hp
        split at hp <;> simp at hp
    · simp
  | blockify g hs =>
    have := blockify_no_panic (ds := hs.map s) (by
      intro d hd; obtain ⟨i, _, rfl⟩ := List.mem_map.mp hd; exact hs' i)
    show (match CfgEdit.blockify (hs.map s) with
      | .ok c => (⟨c, .ok .unit⟩ : Step Outcome)
      | .err e => ⟨s g, .err e⟩
      | .panic => ⟨s g, .panic⟩).res ≠ .panic
    cases hb : CfgEdit.blockify (hs.map s) with
    | ok c => simp
    | err e => simp
    | panic => exact absurd hb this
  | temp g n =>
    show ((CfgEdit.temp (s g) n).res.map Outcome.scalar) ≠ .panic
    simp [CfgEdit.temp, Res.map]

end Falcon.C15
