/-
  FalconProofs.C15.MergeRound — the pairs selected by one round of `merge` are valid and pairwise disjoint,
  validity survives the merging of a disjoint pair, hence a whole round and the whole loop keep the language.
-/
import FalconProofs.C15.MergeLang

namespace Falcon.C15
open Falcon Falcon.CfgEdit

def DisjointPairs (ms : List (Nat × Nat)) : Prop :=
  ms.Pairwise (fun p q => p.1 ≠ q.1 ∧ p.1 ≠ q.2 ∧ p.2 ≠ q.1 ∧ p.2 ≠ q.2)

theorem validPair_of_conditions {c : Cfg} {m : Nat} {e : Edge} (hout : c.edgesOut m = [e])
    (hcond : e.cond = none) (hne : e.tail ≠ m) (hentry : c.entry ≠ some e.tail)
    (hin : (c.edgesIn e.tail).length = 1) : ValidPair c m e.tail := by
  have hemem : e ∈ c.edgesOut m := by rw [hout]; exact List.mem_singleton.mpr rfl
  obtain ⟨hec, heh⟩ := List.mem_filter.mp hemem
  have heh : e.head = m := by simpa using heh
  refine ⟨fun h => hne h.symm, hentry, ⟨e, hec, heh, rfl, hcond, ?_⟩, ?_⟩
  · intro e' he' he'h
    have : e' ∈ c.edgesOut m := List.mem_filter.mpr ⟨he', by simpa using he'h⟩
    rw [hout] at this
    exact List.mem_singleton.mp this
  · intro e' he' he't
    have hein : e ∈ c.edgesIn e.tail := List.mem_filter.mpr ⟨hec, by simp⟩
    have he'in : e' ∈ c.edgesIn e.tail := List.mem_filter.mpr ⟨he', by simpa using he't⟩
    match hl : c.edgesIn e.tail, hin with
    | [x], _ =>
      rw [hl] at hein he'in
      rw [List.mem_singleton.mp he'in, ← List.mem_singleton.mp hein]
      exact heh

theorem collect_valid {c : Cfg} (bs : List Block) (being : List Nat) (ms : List (Nat × Nat))
    (h : collect c bs being = .ok ms) :
    (∀ p ∈ ms, ValidPair c p.1 p.2 ∧ p.1 ∉ being ∧ p.2 ∉ being) ∧ DisjointPairs ms := by
  induction bs generalizing being ms with
  | nil =>
    simp only [collect, Res.ok.injEq] at h
    subst h
    exact ⟨(fun p hp => by cases hp), List.Pairwise.nil⟩
  | cons b bs ih =>
    unfold collect at h
    split at h
    · exact ih _ _ h
    · rename_i hbeing
      split at h
      · rename_i e hout
        split at h
        · exact ih _ _ h
        · rename_i hcond
          simp only at h
          split at h
          · exact ih _ _ h
          · rename_i hsb
            split at h
            · exact ih _ _ h
            · rename_i hentry
              split at h
              · exact ih _ _ h
              · rename_i hbeing2
                split at h
                · cases h
                · split at h
                  · exact ih _ _ h
                  · rename_i hlen
                    cases hr : collect c bs (b.index :: e.tail :: being) with
                    | ok r =>
                      rw [hr] at h
                      simp only [Res.map, Res.ok.injEq] at h
                      subst h
                      obtain ⟨hall, hdis⟩ := ih _ _ hr
                      have hv : ValidPair c b.index e.tail := by
                        apply validPair_of_conditions hout
                        · simpa using hcond
                        · simpa using hsb
                        · simpa using hentry
                        · simpa using hlen
                      constructor
                      · intro p hp
                        rcases List.mem_cons.mp hp with rfl | hp
                        · exact ⟨hv, by simpa using hbeing, by simpa using hbeing2⟩
                        · obtain ⟨h1, h2, h3⟩ := hall p hp
                          simp only [List.mem_cons, not_or] at h2 h3
                          exact ⟨h1, h2.2.2, h3.2.2⟩
                      · refine List.Pairwise.cons ?_ hdis
                        intro p hp
                        obtain ⟨_, h2, h3⟩ := hall p hp
                        simp only [List.mem_cons, not_or] at h2 h3
                        exact ⟨fun h => h2.1 h.symm, fun h => h3.1 h.symm, fun h => h2.2.1 h.symm, fun h => h3.2.1 h.symm⟩
                    | err x => rw [hr] at h; cases h
                    | panic => rw [hr] at h; cases h
      · exact ih _ _ h

/-- a pair that was valid before a disjoint pair was merged is still valid afterwards -/
theorem validPair_preserved {c c' : Cfg} {m1 s1 m2 s2 : Nat} {mb sb : Block}
    (hV : MergedView c c' m1 s1 mb sb) (hv : ValidPair c m2 s2)
    (hd : m1 ≠ m2 ∧ m1 ≠ s2 ∧ s1 ≠ m2 ∧ s1 ≠ s2) : ValidPair c' m2 s2 := by
  obtain ⟨e0, he0, he0h, he0t, he0c, huniq⟩ := hv.out
  refine ⟨hv.ne, by rw [hV.entry]; exact hv.entry, ⟨e0, ?_, he0h, he0t, he0c, ?_⟩, ?_⟩
  · exact (hV.edges e0).mpr ⟨Or.inl he0, by rw [he0h]; exact fun h => hd.2.2.1 h.symm,
      by rw [he0t]; exact fun h => hd.2.2.2 h.symm⟩
  · intro e he heh
    rcases ((hV.edges e).mp he).1 with hce | ⟨e1, _, _, rfl⟩
    · exact huniq e hce heh
    · exact absurd heh hd.1
  · intro e he het
    rcases ((hV.edges e).mp he).1 with hce | ⟨e1, he1, he1h, rfl⟩
    · exact hv.soleIn e hce het
    · have := hv.soleIn e1 he1 het
      exact absurd (he1h.symm.trans this) hd.2.2.1

theorem applyMerges_lang {c c' : Cfg} (ms : List (Nat × Nat)) (hw : WF c)
    (hv : ∀ p ∈ ms, ValidPair c p.1 p.2) (hd : DisjointPairs ms)
    (h : applyMerges c ms = ⟨c', .ok ()⟩) : ∀ w, Lang c' w ↔ Lang c w := by
  induction ms generalizing c with
  | nil =>
    simp only [applyMerges, Step.mk.injEq, and_true] at h
    subst h; intro w; exact Iff.rfl
  | cons p rest ih =>
    obtain ⟨m, s⟩ := p
    have hvp := hv (m, s) List.mem_cons_self
    unfold applyMerges at h
    split at h
    · rename_i c1 hstep
      obtain ⟨mb, sb, hV⟩ := mergeStep_view hvp.ne hstep
      have hw1 : WF c1 := by
        have := (mergeStep_wf (m := m) (s := s) hw hvp.entry hvp.ne).1
        rw [hstep] at this; exact this
      have hd' := List.pairwise_cons.mp hd
      have hv1 : ∀ q ∈ rest, ValidPair c1 q.1 q.2 := by
        intro q hq
        exact validPair_preserved hV (hv q (List.mem_cons_of_mem _ hq)) (hd'.1 q hq)
      intro w
      rw [ih hw1 hv1 hd'.2 h w]
      exact mergeStep_lang hw hvp hV w
    · rename_i hne
      exact absurd h (hne c')

theorem mergeLoop_lang (fuel : Nat) {c c' : Cfg} (hw : WF c) (h : mergeLoop fuel c = ⟨c', .ok ()⟩) :
    ∀ w, Lang c' w ↔ Lang c w := by
  induction fuel generalizing c with
  | zero => simp [mergeLoop] at h
  | succ n ih =>
    unfold mergeLoop at h
    split at h
    · simp only [Step.mk.injEq, and_true] at h
      subst h; intro w; exact Iff.rfl
    · rename_i ms _ hc
      obtain ⟨hall, hdis⟩ := collect_valid _ _ _ hc
      split at h
      · rename_i c1 happ
        have hw1 : WF c1 := by
          have := applyMerges_wf ms hw (collect_spec _ _ _ hc)
          rw [happ] at this; exact this
        intro w
        rw [ih hw1 h w]
        exact applyMerges_lang ms hw (fun p hp => (hall p hp).1) hdis happ w
      · rename_i hne
        -- the round did not return ok, so the loop's result is not ok either
        cases hr : applyMerges c ms with
        | mk c2 r2 =>
          rw [hr] at h
          simp only [Step.mk.injEq] at h
          obtain ⟨rfl, rfl⟩ := h
          exact absurd hr (hne c2)
    · simp at h
    · simp at h

end Falcon.C15
