/-
  FalconProofs.C15.Ops — every editing operation except append/insert preserves `WF` (whatever it returns).
-/
import FalconProofs.C15.Basic

namespace Falcon.C15
open Falcon Falcon.CfgEdit

theorem ofRes_wf {α : Type} {fb : Cfg} {r : Res Cfg} {v : α} (hfb : WF fb) (hr : ∀ c', r = .ok c' → WF c') :
    WF (Step.ofRes fb r v).cfg := by
  cases r with
  | ok c' => exact hr c' rfl
  | err e => exact hfb
  | panic => exact hfb

theorem wf_bumpIndex {c : Cfg} (hw : WF c) : WF { c with nextIndex := c.nextIndex + 1 } :=
  ⟨hw.blocksNodup, hw.edgesNodup, hw.edgesJoin, fun b hb => Nat.lt_succ_of_lt (hw.indexLt b hb), hw.blocksWF,
    hw.entryOk, hw.exitOk⟩

theorem wf_new : WF CfgEdit.new := by
  constructor <;> simp [CfgEdit.new, Cfg.hasBlock]

theorem blockWF_empty (i : Nat) : BlockWF { index := i } := by
  constructor <;> simp

theorem wf_newBlock {c : Cfg} (hw : WF c) : WF (newBlock c).cfg := by
  unfold newBlock
  apply ofRes_wf (wf_bumpIndex hw)
  intro c' h
  exact wf_insertVertex (wf_bumpIndex hw) h (blockWF_empty _) (Nat.lt_succ_self _)

theorem wf_unconditionalEdge {c : Cfg} (hw : WF c) (h t : Nat) : WF (unconditionalEdge c h t).cfg :=
  ofRes_wf hw (fun _ h => wf_insertEdge hw h)

theorem wf_conditionalEdge {c : Cfg} (hw : WF c) (h t : Nat) (g : Expr) : WF (conditionalEdge c h t g).cfg :=
  ofRes_wf hw (fun _ h => wf_insertEdge hw h)

theorem wf_setEntry {c : Cfg} (hw : WF c) (i : Nat) : WF (setEntry c i).cfg := by
  unfold setEntry
  split
  · rename_i h
    exact ⟨hw.blocksNodup, hw.edgesNodup, hw.edgesJoin, hw.indexLt, hw.blocksWF,
      fun j hj => by cases hj; exact h, hw.exitOk⟩
  · exact hw

theorem wf_setExit {c : Cfg} (hw : WF c) (i : Nat) : WF (setExit c i).cfg := by
  unfold setExit
  split
  · rename_i h
    exact ⟨hw.blocksNodup, hw.edgesNodup, hw.edgesJoin, hw.indexLt, hw.blocksWF, hw.entryOk,
      fun j hj => by cases hj; exact h⟩
  · exact hw

theorem wf_temp {c : Cfg} (hw : WF c) (bits : Nat) : WF (temp c bits).cfg :=
  ⟨hw.blocksNodup, hw.edgesNodup, hw.edgesJoin, hw.indexLt, hw.blocksWF, hw.entryOk, hw.exitOk⟩

theorem hasBlock_of_block {c : Cfg} {i : Nat} {b : Block} (h : c.block i = some b) : c.hasBlock b.index = true := by
  obtain ⟨hm, _⟩ := block_some h
  exact (hasBlock_iff c _).mpr ⟨b, hm, rfl⟩

theorem wf_blockOp {c : Cfg} (hw : WF c) (i : Nat) (op : Op) : WF (blockOp c i op).cfg := by
  unfold blockOp
  split
  · rename_i b hb
    exact wf_setBlock hw (blockWF_push (hw.blocksWF b (block_some hb).1) op)
      (show c.hasBlock b.index = true from hasBlock_of_block hb)
  · exact hw

theorem wf_blockAppendOp {c : Cfg} (hw : WF c) (i : Nat) (d : Cfg) (j : Nat) : WF (blockAppendOp c i d j).cfg := by
  unfold blockAppendOp
  split
  · rename_i o b _ hb
    refine wf_setBlock hw (blockWF_appendInstrs (hw.blocksWF b (block_some hb).1) _) ?_
    show c.hasBlock (appendInstrs b o.instrs).index = true
    rw [appendInstrs_index]; exact hasBlock_of_block hb
  · exact hw

theorem wf_removeInstruction {c : Cfg} (hw : WF c) (i idx : Nat) : WF (removeInstruction c i idx).cfg := by
  unfold removeInstruction
  split
  · rename_i b hb
    split
    · rename_i b' hr
      obtain ⟨hbw, hbi⟩ := blockWF_remove (hw.blocksWF b (block_some hb).1) hr
      exact wf_setBlock hw hbw (by rw [hbi]; exact hasBlock_of_block hb)
    · exact hw
    · exact hw
  · exact hw

-- ------------------------------------------------------------------------------------------------
-- merge

/-- an operation that only adds edges -/
structure SameFrame (c c' : Cfg) : Prop where
  blocks : c'.blocks = c.blocks
  entry : c'.entry = c.entry
  exit : c'.exit = c.exit
  nextIndex : c'.nextIndex = c.nextIndex

theorem SameFrame.refl (c : Cfg) : SameFrame c c := ⟨rfl, rfl, rfl, rfl⟩

theorem SameFrame.trans {a b c : Cfg} (h1 : SameFrame a b) (h2 : SameFrame b c) : SameFrame a c :=
  ⟨h2.blocks.trans h1.blocks, h2.entry.trans h1.entry, h2.exit.trans h1.exit, h2.nextIndex.trans h1.nextIndex⟩

theorem SameFrame.hasBlock {c c' : Cfg} (h : SameFrame c c') (i : Nat) : c'.hasBlock i = c.hasBlock i := by
  simp [Cfg.hasBlock, h.blocks]

theorem insertEdge_frame {c c' : Cfg} {e : Edge} (h : insertEdge c e = .ok c') : SameFrame c c' := by
  obtain ⟨_, _, _, rfl⟩ := insertEdge_ok h
  exact ⟨rfl, rfl, rfl, rfl⟩

theorem insertEdges_wf {c : Cfg} (hw : WF c) (es : List Edge) :
    WF (insertEdges c es).cfg ∧ SameFrame c (insertEdges c es).cfg := by
  induction es generalizing c with
  | nil => exact ⟨hw, SameFrame.refl c⟩
  | cons e es ih =>
    unfold insertEdges
    split
    · rename_i c' h
      obtain ⟨h1, h2⟩ := ih (wf_insertEdge hw h)
      exact ⟨h1, (insertEdge_frame h).trans h2⟩
    · exact ⟨hw, SameFrame.refl c⟩
    · exact ⟨hw, SameFrame.refl c⟩

theorem wf_exit_none {c : Cfg} (hw : WF c) : WF { c with exit := none } :=
  ⟨hw.blocksNodup, hw.edgesNodup, hw.edgesJoin, hw.indexLt, hw.blocksWF, hw.entryOk, fun _ h => by cases h⟩

theorem wf_exit_set {c : Cfg} (x : Option Nat) (hw : WF { c with exit := none })
    (hx : ∀ j, x = some j → c.hasBlock j = true) : WF { c with exit := x } :=
  ⟨hw.blocksNodup, hw.edgesNodup, hw.edgesJoin, hw.indexLt, hw.blocksWF, hw.entryOk, hx⟩

/-- removing the vertex `i` and moving `exit` from `i` to a surviving block `m` -/
theorem wf_removeVertex_exit {c c' : Cfg} {i m : Nat} (hw : WF c) (h : removeVertex c i = .ok c')
    (hen : c.entry ≠ some i) (hm : c.hasBlock m = true) (hmi : m ≠ i) :
    WF (if c'.exit == some i then { c' with exit := some m } else c') := by
  obtain ⟨hi, hc'⟩ := removeVertex_ok h
  have h0 : removeVertex { c with exit := none } i = .ok { c' with exit := none } := by
    subst hc'
    simp only [removeVertex]
    have : Cfg.hasBlock { c with exit := none } i = true := hi
    simp [this]
  have W0 : WF { c' with exit := none } :=
    wf_removeVertex (wf_exit_none hw) h0 hen (by simp)
  have hkeep : ∀ j, j ≠ i → c.hasBlock j = true → c'.hasBlock j = true := by
    intro j hj hb
    subst hc'
    rw [hasBlock_iff] at hb ⊢
    obtain ⟨x, hx, rfl⟩ := hb
    exact ⟨x, List.mem_filter.mpr ⟨hx, by simpa using hj⟩, rfl⟩
  have hex : c'.exit = c.exit := by subst hc'; rfl
  have : (if c'.exit == some i then { c' with exit := some m } else c')
      = { c' with exit := (if c'.exit == some i then some m else c'.exit) } := by
    split <;> rfl
  rw [this]
  apply wf_exit_set _ W0
  intro j hj
  split at hj
  · cases hj; exact hkeep _ hmi hm
  · rename_i hne
    have hji : j ≠ i := by
      intro hji; apply hne; rw [hj, hji]; simp
    exact hkeep _ hji (hw.exitOk j (by rw [← hex]; exact hj))

theorem mergeStep_wf {c : Cfg} {m s : Nat} (hw : WF c) (hen : c.entry ≠ some s) (hms : m ≠ s) :
    WF (mergeStep c m s).cfg ∧ (mergeStep c m s).cfg.entry = c.entry := by
  unfold mergeStep
  split
  · exact ⟨hw, rfl⟩
  · rename_i sb hsb
    split
    · exact ⟨hw, rfl⟩
    · rename_i mb hmb
      dsimp only
      have hmbi : mb.index = m := (block_some hmb).2
      have hbw : BlockWF (blockAppend mb sb) := blockWF_appendInstrs (hw.blocksWF mb (block_some hmb).1) _
      have hbi : (blockAppend mb sb).index = mb.index := appendInstrs_index _ _
      have hw1 : WF (setBlock c (blockAppend mb sb)) :=
        wf_setBlock hw hbw (by rw [hbi]; exact hasBlock_of_block hmb)
      have hent1 : (setBlock c (blockAppend mb sb)).entry = c.entry := rfl
      have hmhas : (setBlock c (blockAppend mb sb)).hasBlock m = true := by
        rw [hasBlock_setBlock, ← hmbi]; exact hasBlock_of_block hmb
      generalize hc1 : setBlock c (blockAppend mb sb) = c1 at *
      generalize (c1.edgesOut s).map (fun e => ({ head := m, tail := e.tail, cond := e.cond } : Edge)) = newEdges
      obtain ⟨hw2, hf2⟩ := insertEdges_wf hw1 newEdges
      split
      · rename_i c2 hie
        rw [hie] at hw2 hf2
        simp only at hw2 hf2
        split
        · rename_i c3 hrv
          obtain ⟨_, hc3⟩ := removeVertex_ok hrv
          refine ⟨wf_removeVertex_exit hw2 hrv ?_ ?_ hms, ?_⟩
          · rw [hf2.entry, hent1]; exact hen
          · rw [hf2.hasBlock]; exact hmhas
          · have : c3.entry = c.entry := by rw [hc3]; show c2.entry = c.entry; rw [hf2.entry, hent1]
            split <;> exact this
        · exact ⟨hw2, by rw [hf2.entry, hent1]⟩
        · exact ⟨hw2, by rw [hf2.entry, hent1]⟩
      · rename_i c2 x hie
        rw [hie] at hw2 hf2
        exact ⟨hw2, by rw [hf2.entry, hent1]⟩
      · rename_i c2 hie
        rw [hie] at hw2 hf2
        exact ⟨hw2, by rw [hf2.entry, hent1]⟩

theorem applyMerges_wf {c : Cfg} (ms : List (Nat × Nat)) (hw : WF c)
    (hms : ∀ p ∈ ms, c.entry ≠ some p.2 ∧ p.1 ≠ p.2) : WF (applyMerges c ms).cfg := by
  induction ms generalizing c with
  | nil => exact hw
  | cons p rest ih =>
    obtain ⟨m, s⟩ := p
    obtain ⟨h1, h2⟩ := mergeStep_wf hw (hms (m, s) List.mem_cons_self).1 (hms (m, s) List.mem_cons_self).2
    unfold applyMerges
    split
    · rename_i c' hstep
      rw [hstep] at h1 h2
      apply ih h1
      intro p hp
      have := hms p (List.mem_cons_of_mem _ hp)
      exact ⟨by rw [show c'.entry = c.entry from h2]; exact this.1, this.2⟩
    · exact h1

theorem collect_spec {c : Cfg} (bs : List Block) (being : List Nat) (ms : List (Nat × Nat))
    (h : collect c bs being = .ok ms) : ∀ p ∈ ms, c.entry ≠ some p.2 ∧ p.1 ≠ p.2 := by
  induction bs generalizing being ms with
  | nil =>
    simp only [collect, Res.ok.injEq] at h
    subst h; intro p hp; cases hp
  | cons b bs ih =>
    unfold collect at h
    split at h
    · exact ih _ _ h
    · split at h
      · rename_i e _
        split at h
        · exact ih _ _ h
        · simp only at h
          split at h
          · exact ih _ _ h
          · rename_i hsb
            split at h
            · exact ih _ _ h
            · rename_i hentry
              split at h
              · exact ih _ _ h
              · split at h
                · cases h
                · split at h
                  · exact ih _ _ h
                  · cases hr : collect c bs (b.index :: e.tail :: being) with
                    | ok r =>
                      rw [hr] at h
                      simp only [Res.map, Res.ok.injEq] at h
                      subst h
                      intro p hp
                      rcases List.mem_cons.mp hp with rfl | hp
                      · refine ⟨?_, ?_⟩
                        · intro heq; apply hentry; simp [heq]
                        · intro heq; apply hsb; exact beq_iff_eq.mpr heq.symm
                      · exact ih _ _ hr p hp
                    | err x => rw [hr] at h; cases h
                    | panic => rw [hr] at h; cases h
      · exact ih _ _ h

theorem mergeLoop_wf (fuel : Nat) {c : Cfg} (hw : WF c) : WF (mergeLoop fuel c).cfg := by
  induction fuel generalizing c with
  | zero => exact hw
  | succ n ih =>
    unfold mergeLoop
    split
    · exact hw
    · rename_i ms _ hc
      have hm := applyMerges_wf ms hw (collect_spec _ _ _ hc)
      split
      · rename_i c' happ
        rw [happ] at hm
        exact ih hm
      · exact hm
    · exact hw
    · exact hw

theorem wf_merge {c : Cfg} (hw : WF c) : WF (merge c).cfg := mergeLoop_wf _ hw

end Falcon.C15
