/-
  FalconProofs.C15.NoPanic — no operation panics on well-formed graphs (the `block_map[&…]` lookups of
  `append` / `insert` always find their key, `edges_in(successor).unwrap()` in `merge` never fails).
-/
import FalconProofs.C15.CopyView
import FalconProofs.C15.MergeTotal

namespace Falcon.C15
open Falcon Falcon.CfgEdit

theorem ofRes_no_panic {α : Type} {fb : Cfg} {r : Res Cfg} {v : α} (h : r ≠ .panic) : (Step.ofRes fb r v).res ≠ .panic := by
  cases r with
  | ok c => simp [Step.ofRes]
  | err e => simp [Step.ofRes]
  | panic => exact absurd rfl h

theorem insertVertex_no_panic (c : Cfg) (b : Block) : insertVertex c b ≠ .panic := by
  unfold insertVertex; split <;> simp

theorem insertEdge_no_panic (c : Cfg) (e : Edge) : insertEdge c e ≠ .panic := by
  unfold insertEdge; split <;> (try split) <;> (try split) <;> simp

theorem copyBlocks_no_panic (c : Cfg) (m : List (Nat × Nat)) (bs : List Block) : (copyBlocks c m bs).res ≠ .panic := by
  induction bs generalizing c m with
  | nil => simp [copyBlocks]
  | cons b bs ih =>
    unfold copyBlocks
    dsimp only
    split
    · exact ih _ _
    · simp
    · rename_i h; exact absurd h (insertVertex_no_panic _ _)

theorem copyEdges_no_panic (m : List (Nat × Nat)) (c : Cfg) (es : List Edge)
    (h : ∀ e ∈ es, ∃ hd tl, m.lookup e.head = some hd ∧ m.lookup e.tail = some tl) :
    (copyEdges m c es).res ≠ .panic := by
  induction es generalizing c with
  | nil => simp [copyEdges]
  | cons e es ih =>
    obtain ⟨hd, tl, h1, h2⟩ := h e List.mem_cons_self
    unfold copyEdges
    rw [h1, h2]
    dsimp only
    split
    · exact ih _ (fun x hx => h x (List.mem_cons_of_mem _ hx))
    · simp
    · rename_i hp; exact absurd hp (insertEdge_no_panic _ _)

/-- after `copyBlocks` succeeded, every edge of the well-formed source finds both its ends in the map -/
theorem lookups_ok {c c1 d : Cfg} {m : List (Nat × Nat)} (hd : WF d) (hb : copyBlocks c [] d.blocks = ⟨c1, .ok m⟩) :
    (∀ i, d.hasBlock i = true → ∃ n, m.lookup i = some n) ∧
    (∀ e ∈ d.edges, ∃ h t, m.lookup e.head = some h ∧ m.lookup e.tail = some t) := by
  have V := copyBlocks_view d.blocks hd.blocksNodup hb
  have h1 : ∀ i, d.hasBlock i = true → ∃ n, m.lookup i = some n := by
    intro i hi
    obtain ⟨b, hb, rfl⟩ := (hasBlock_iff d i).mp hi
    obtain ⟨n, hn, _⟩ := V.inside b hb
    exact ⟨n, hn⟩
  refine ⟨h1, ?_⟩
  intro e he
  obtain ⟨a, ha⟩ := h1 _ (hd.edgesJoin e he).1
  obtain ⟨b, hb⟩ := h1 _ (hd.edgesJoin e he).2
  exact ⟨a, b, ha, hb⟩

theorem append_no_panic {c d : Cfg} (hd : WF d) : (CfgEdit.append c d).res ≠ .panic := by
  unfold CfgEdit.append
  dsimp only
  split
  · simp
  · rename_i hguard
    split
    · rename_i dEntry dExit hden hdex
      have hcb := copyBlocks_no_panic c [] d.blocks
      split
      · rename_i c1 m hb
        obtain ⟨hl, hle⟩ := lookups_ok hd hb
        have hce := copyEdges_no_panic m c1 d.edges hle
        split
        · rename_i c2 he
          obtain ⟨en, hen⟩ := hl _ (hd.entryOk _ hden)
          obtain ⟨ex, hex⟩ := hl _ (hd.exitOk _ hdex)
          rw [hen]
          dsimp only
          have hf : c2.exit = c.exit := by
            have V := copyBlocks_view d.blocks hd.blocksNodup hb
            obtain ⟨_, _, hf⟩ := copyEdges_view d.edges he
            rw [hf.exit, V.exit]
          split
          · rw [hex]; simp
          · split
            · simp
            · rename_i hemp
              split
              · exact ofRes_no_panic (insertEdge_no_panic _ _)
              · rename_i hx
                rw [hf] at hx
                have : c.blocks.isEmpty = false := by simpa using hemp
                simp [this, hx] at hguard
        · simp
        · rename_i c2 he; rw [he] at hce; exact absurd rfl hce
      · simp
      · rename_i c1 hb; rw [hb] at hcb; exact absurd rfl hcb
    · simp

theorem insert_no_panic {c d : Cfg} (hd : WF d) : (CfgEdit.insert c d).res ≠ .panic := by
  unfold CfgEdit.insert
  split
  · dsimp only
    have hcb := copyBlocks_no_panic { c with entry := none, exit := none } [] d.blocks
    split
    · rename_i c1 m hb
      obtain ⟨_, hle⟩ := lookups_ok hd hb
      have hce := copyEdges_no_panic m c1 d.edges hle
      split
      · split <;> simp
      · simp
      · rename_i c2 he; rw [he] at hce; exact absurd rfl hce
    · simp
    · rename_i c1 hb; rw [hb] at hcb; exact absurd rfl hcb
  · simp

theorem map_no_panic {α β : Type} {r : Res α} (f : α → β) (h : r ≠ .panic) : r.map f ≠ .panic := by
  cases r <;> simp_all [Res.map]

end Falcon.C15
