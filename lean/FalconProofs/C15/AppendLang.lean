/-
  FalconProofs.C15.AppendLang — walks of a graph that consists of an old part `c`, a renamed copy of `d`, and
  (for `append` to a non-empty graph) one unconditional transition edge from `c`'s exit to the copy of `d`'s entry.
-/
import FalconProofs.C15.CopyView
import FalconProofs.C15.MergeLang

namespace Falcon.C15
open Falcon Falcon.CfgEdit

theorem walk_start {c : Cfg} {a z : Nat} {w : List Sym} (h : Walk c a w z) : ∃ b ∈ c.blocks, b.index = a := by
  cases h with
  | single hb hi => exact ⟨_, hb, hi⟩
  | cons hb hi _ _ _ => exact ⟨_, hb, hi⟩

theorem walk_end {c : Cfg} {a z : Nat} {w : List Sym} (h : Walk c a w z) : ∃ b ∈ c.blocks, b.index = z := by
  induction h with
  | single hb hi => exact ⟨_, hb, hi⟩
  | cons _ _ _ _ _ ih => exact ih

def copyEdge (f : Nat → Nat) (e : Edge) : Edge := ⟨f e.head, f e.tail, e.cond⟩

def copyBlock (f : Nat → Nat) (b : Block) : Block := { b with index := f b.index }

section
variable {c d c' : Cfg} {f : Nat → Nat}

/-- the facts about `c'` shared by `append` (both cases) and `insert` -/
structure Glue (c d c' : Cfg) (f : Nat → Nat) : Prop where
  wc : WF c
  wd : WF d
  blocks : ∀ x, x ∈ c'.blocks ↔ x ∈ c.blocks ∨ ∃ b ∈ d.blocks, x = copyBlock f b
  copied : ∀ e0 ∈ d.edges, copyEdge f e0 ∈ c'.edges
  /-- an edge that leaves a new block is a copied edge -/
  newHead : ∀ e ∈ c'.edges, c.nextIndex ≤ e.head → ∃ e0 ∈ d.edges, e = copyEdge f e0
  fresh : ∀ b ∈ d.blocks, c.nextIndex ≤ f b.index
  inj : ∀ b1 ∈ d.blocks, ∀ b2 ∈ d.blocks, f b1.index = f b2.index → b1.index = b2.index

theorem dblock_of_index {d : Cfg} (_hd : WF d) {i : Nat} (h : d.hasBlock i = true) : ∃ b ∈ d.blocks, b.index = i :=
  (hasBlock_iff d i).mp h

/-- a walk of `d` is a walk of the copy -/
theorem walk_copy (G : Glue c d c' f) {a z : Nat} {w : List Sym} (h : Walk d a w z) : Walk c' (f a) w (f z) := by
  induction h with
  | @single a b hb hi =>
    have : copyBlock f b ∈ c'.blocks := (G.blocks _).mpr (Or.inr ⟨b, hb, rfl⟩)
    have hw : blockWord (copyBlock f b) = blockWord b := rfl
    rw [← hw]
    exact Walk.single this (by show f b.index = f a; rw [hi])
  | @cons a b e w z hb hi he heh _ ih =>
    have hb' : copyBlock f b ∈ c'.blocks := (G.blocks _).mpr (Or.inr ⟨b, hb, rfl⟩)
    have hw : blockWord (copyBlock f b) = blockWord b := rfl
    have hew : edgeWord (copyEdge f e) = edgeWord e := rfl
    rw [← hw, ← hew]
    exact Walk.cons hb' (by show f b.index = f a; rw [hi]) (G.copied e he) (by show f e.head = f a; rw [heh]) ih

/-- a walk of `c'` that starts in the copy stays there and is the image of a walk of `d` -/
theorem walk_uncopy (G : Glue c d c' f) {a' z' : Nat} {w : List Sym} (h : Walk c' a' w z')
    (hnew : c.nextIndex ≤ a') :
    ∃ a z, a' = f a ∧ z' = f z ∧ Walk d a w z := by
  induction h with
  | @single a' x hx hi =>
    rcases (G.blocks x).mp hx with hold | ⟨b, hb, rfl⟩
    · have := G.wc.indexLt x hold; omega
    · have hw : blockWord (copyBlock f b) = blockWord b := rfl
      rw [hw]
      exact ⟨b.index, b.index, hi.symm, hi.symm, Walk.single hb rfl⟩
  | @cons a' x e w z' hx hi he heh _ ih =>
    rcases (G.blocks x).mp hx with hold | ⟨b, hb, rfl⟩
    · have := G.wc.indexLt x hold; omega
    · obtain ⟨e0, he0, rfl⟩ := G.newHead e he (by rw [heh]; exact hnew)
      obtain ⟨bh, hbh, hbhi⟩ := dblock_of_index G.wd (G.wd.edgesJoin e0 he0).1
      obtain ⟨bt, hbt, hbti⟩ := dblock_of_index G.wd (G.wd.edgesJoin e0 he0).2
      have htnew : c.nextIndex ≤ (copyEdge f e0).tail := by
        show c.nextIndex ≤ f e0.tail; rw [← hbti]; exact G.fresh bt hbt
      obtain ⟨a2, z, ha2, hz, hwalk⟩ := ih htnew
      obtain ⟨ba, hba, hbai⟩ := walk_start hwalk
      have hta : e0.tail = a2 := by
        have : f bt.index = f ba.index := by rw [hbti, hbai]; exact ha2
        rw [← hbti, ← hbai]; exact G.inj bt hbt ba hba this
      have hhead : e0.head = b.index := by
        have h1 : f e0.head = f b.index := heh.trans hi.symm
        have : f bh.index = f b.index := by rw [hbhi]; exact h1
        rw [← hbhi]; exact G.inj bh hbh b hb this
      refine ⟨b.index, z, hi.symm, hz, ?_⟩
      have hw : blockWord (copyBlock f b) = blockWord b := rfl
      have hew : edgeWord (copyEdge f e0) = edgeWord e0 := rfl
      rw [hw, hew]
      exact Walk.cons hb rfl he0 hhead (by rw [hta]; exact hwalk)

/-- the entry→exit language of the copy -/
theorem langEE_copy (G : Glue c d c' f) {den dex : Nat} (hen : d.entry = some den) (hex : d.exit = some dex)
    (w : List Sym) : Walk c' (f den) w (f dex) ↔ Walk d den w dex := by
  obtain ⟨be, hbe, hbei⟩ := dblock_of_index G.wd (G.wd.entryOk den hen)
  obtain ⟨bx, hbx, hbxi⟩ := dblock_of_index G.wd (G.wd.exitOk dex hex)
  constructor
  · intro h
    obtain ⟨a, z, ha, hz, hwalk⟩ := walk_uncopy G h (by rw [← hbei]; exact G.fresh be hbe)
    obtain ⟨ba, hba, hbai⟩ := walk_start hwalk
    obtain ⟨bz, hbz, hbzi⟩ := walk_end hwalk
    have h1 : den = a := by
      rw [← hbei, ← hbai]; exact G.inj be hbe ba hba (by rw [hbei, hbai]; exact ha)
    have h2 : dex = z := by
      rw [← hbxi, ← hbzi]; exact G.inj bx hbx bz hbz (by rw [hbxi, hbzi]; exact hz)
    rw [h1, h2]; exact hwalk
  · exact walk_copy G

/-- the additional facts when a transition edge `cex → f den` was added -/
structure Trans (c d c' : Cfg) (f : Nat → Nat) (cex den : Nat) : Prop where
  old : ∀ e ∈ c.edges, e ∈ c'.edges
  trans : (⟨cex, f den, none⟩ : Edge) ∈ c'.edges
  /-- an edge that leaves an old block is an old edge or the transition edge -/
  oldHead : ∀ e ∈ c'.edges, e.head < c.nextIndex → e ∈ c.edges ∨ e = ⟨cex, f den, none⟩

theorem walk_old (G : Glue c d c' f) {cex den : Nat} (T : Trans c d c' f cex den) {a z : Nat} {w : List Sym}
    (h : Walk c a w z) : Walk c' a w z := by
  induction h with
  | single hb hi => exact Walk.single ((G.blocks _).mpr (Or.inl hb)) hi
  | cons hb hi he heh _ ih => exact Walk.cons ((G.blocks _).mpr (Or.inl hb)) hi (T.old _ he) heh ih

/-- old part, transition, new part → one walk -/
theorem walk_join (G : Glue c d c' f) {cex den : Nat} (T : Trans c d c' f cex den) {a z : Nat} {u v : List Sym}
    (h1 : Walk c a u cex) (h2 : Walk c' (f den) v z) : Walk c' a (u ++ v) z := by
  generalize hx : cex = x at h1
  induction h1 with
  | @single a b hb hi =>
    subst hx
    have := Walk.cons (c := c') ((G.blocks _).mpr (Or.inl hb)) hi T.trans rfl h2
    simpa [edgeWord] using this
  | @cons a b e w z' hb hi he heh _ ih =>
    have := Walk.cons (c := c') ((G.blocks _).mpr (Or.inl hb)) hi (T.old _ he) heh (ih hx)
    simpa [List.append_assoc] using this

/-- a walk from an old block to a new block splits at the transition edge -/
theorem walk_split (G : Glue c d c' f) {cex den : Nat} (T : Trans c d c' f cex den) {a z : Nat} {w : List Sym}
    (h : Walk c' a w z) (hold : a < c.nextIndex) (hnew : c.nextIndex ≤ z) :
    ∃ u v, w = u ++ v ∧ Walk c a u cex ∧ Walk c' (f den) v z := by
  induction h with
  | single _ _ => omega
  | @cons a x e w z hx hi he heh hrest ih =>
    have hxold : x ∈ c.blocks := by
      rcases (G.blocks x).mp hx with h | ⟨b, hb, rfl⟩
      · exact h
      · have := G.fresh b hb
        have : (copyBlock f b).index = f b.index := rfl
        omega
    rcases T.oldHead e he (by rw [heh]; exact hold) with heold | rfl
    · obtain ⟨bt, hbt, hbti⟩ := (hasBlock_iff c _).mp (G.wc.edgesJoin e heold).2
      have htold : e.tail < c.nextIndex := by rw [← hbti]; exact G.wc.indexLt bt hbt
      obtain ⟨u, v, rfl, hu, hv⟩ := ih htold hnew
      exact ⟨blockWord x ++ edgeWord e ++ u, v, by simp [List.append_assoc], Walk.cons hxold hi heold heh hu, hv⟩
    · refine ⟨blockWord x, w, by simp [edgeWord], ?_, hrest⟩
      have : a = cex := heh.symm
      rw [this] at hi ⊢
      exact Walk.single hxold hi

end

end Falcon.C15
