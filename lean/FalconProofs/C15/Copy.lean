/-
  FalconProofs.C15.Copy — `append` and `insert` preserve `WF` (whatever they return).
-/
import FalconProofs.C15.Ops

namespace Falcon.C15
open Falcon Falcon.CfgEdit

/-- every value of the block map names a block of `c` -/
def MapOk (m : List (Nat × Nat)) (c : Cfg) : Prop := ∀ k v, m.lookup k = some v → c.hasBlock v = true

theorem MapOk.nil (c : Cfg) : MapOk [] c := by intro k v h; simp at h

theorem MapOk.frame {m : List (Nat × Nat)} {c c' : Cfg} (h : MapOk m c) (hf : SameFrame c c') : MapOk m c' := by
  intro k v hk; rw [hf.hasBlock]; exact h k v hk

theorem hasBlock_insertVertex {c c' : Cfg} {b : Block} (h : insertVertex c b = .ok c') (i : Nat) :
    c'.hasBlock i = true ↔ (i = b.index ∨ c.hasBlock i = true) := by
  obtain ⟨_, rfl⟩ := insertVertex_ok h
  rw [hasBlock_iff, hasBlock_iff]
  constructor
  · rintro ⟨x, hx, rfl⟩
    rcases mem_insertBlockSorted.mp hx with rfl | hx
    · exact Or.inl rfl
    · exact Or.inr ⟨x, hx, rfl⟩
  · rintro (rfl | ⟨x, hx, rfl⟩)
    · exact ⟨b, mem_insertBlockSorted.mpr (Or.inl rfl), rfl⟩
    · exact ⟨x, mem_insertBlockSorted.mpr (Or.inr hx), rfl⟩

/-- what `copyBlocks` guarantees about its final graph -/
structure CopyBlocksOk (c : Cfg) (c' : Cfg) : Prop where
  wf : WF c'
  entry : c'.entry = c.entry
  exit : c'.exit = c.exit
  edges : c'.edges = c.edges
  mono : ∀ i, c.hasBlock i = true → c'.hasBlock i = true

theorem copyBlocks_wf {c : Cfg} {m : List (Nat × Nat)} (bs : List Block) (hw : WF c)
    (hbs : ∀ b ∈ bs, BlockWF b) (hm : MapOk m c) :
    CopyBlocksOk c (copyBlocks c m bs).cfg ∧
      ∀ m', (copyBlocks c m bs).res = .ok m' → MapOk m' (copyBlocks c m bs).cfg := by
  induction bs generalizing c m with
  | nil =>
    refine ⟨⟨hw, rfl, rfl, rfl, fun _ h => h⟩, ?_⟩
    intro m' h
    simp only [copyBlocks, Res.ok.injEq] at h
    subst h; exact hm
  | cons b bs ih =>
    have hw1 := wf_bumpIndex hw
    unfold copyBlocks
    dsimp only
    split
    · rename_i c2 hins
      have hw2 : WF c2 := wf_insertVertex hw1 hins (hbs b List.mem_cons_self) (Nat.lt_succ_self _)
      have hhas := hasBlock_insertVertex hins
      obtain ⟨_, hc2⟩ := insertVertex_ok hins
      have hm2 : MapOk ((b.index, c.nextIndex) :: m) c2 := by
        intro k v hk
        rw [List.lookup_cons] at hk
        split at hk
        · cases hk; exact (hhas _).mpr (Or.inl rfl)
        · exact (hhas _).mpr (Or.inr (hm k v hk))
      obtain ⟨hok, hmap⟩ := ih hw2 (fun x hx => hbs x (List.mem_cons_of_mem _ hx)) hm2
      refine ⟨⟨hok.wf, ?_, ?_, ?_, ?_⟩, hmap⟩
      · rw [hok.entry, hc2]
      · rw [hok.exit, hc2]
      · rw [hok.edges, hc2]
      · intro i hi; exact hok.mono i ((hhas i).mpr (Or.inr hi))
    · exact ⟨⟨hw1, rfl, rfl, rfl, fun _ h => h⟩, fun _ h => by cases h⟩
    · exact ⟨⟨hw1, rfl, rfl, rfl, fun _ h => h⟩, fun _ h => by cases h⟩

theorem copyEdges_wf (m : List (Nat × Nat)) {c : Cfg} (es : List Edge) (hw : WF c) :
    WF (copyEdges m c es).cfg ∧ SameFrame c (copyEdges m c es).cfg := by
  induction es generalizing c with
  | nil => exact ⟨hw, SameFrame.refl c⟩
  | cons e es ih =>
    unfold copyEdges
    split
    · split
      · rename_i c' h
        obtain ⟨h1, h2⟩ := ih (wf_insertEdge hw h)
        exact ⟨h1, (insertEdge_frame h).trans h2⟩
      · exact ⟨hw, SameFrame.refl c⟩
      · exact ⟨hw, SameFrame.refl c⟩
    · exact ⟨hw, SameFrame.refl c⟩

theorem wf_entry_set {c : Cfg} (hw : WF c) {i : Nat} (hi : c.hasBlock i = true) : WF { c with entry := some i } :=
  ⟨hw.blocksNodup, hw.edgesNodup, hw.edgesJoin, hw.indexLt, hw.blocksWF, fun j hj => by cases hj; exact hi, hw.exitOk⟩

theorem wf_exit_set' {c : Cfg} (hw : WF c) {i : Nat} (hi : c.hasBlock i = true) : WF { c with exit := some i } :=
  ⟨hw.blocksNodup, hw.edgesNodup, hw.edgesJoin, hw.indexLt, hw.blocksWF, hw.entryOk, fun j hj => by cases hj; exact hi⟩

theorem wf_append {c d : Cfg} (hw : WF c) (hd : WF d) : WF (CfgEdit.append c d).cfg := by
  unfold CfgEdit.append
  dsimp only
  split
  · exact hw
  · split
    · rename_i dEntry dExit _ _
      obtain ⟨hok, hmap⟩ := copyBlocks_wf d.blocks hw hd.blocksWF (MapOk.nil c)
      split
      · rename_i c1 m hcb
        rw [hcb] at hok hmap
        have hm1 : MapOk m c1 := hmap m rfl
        obtain ⟨hw2, hf2⟩ := copyEdges_wf m d.edges hok.wf
        have hm2 := fun c' (h : SameFrame c1 c') => MapOk.frame hm1 h
        split
        · rename_i c2 hce
          rw [hce] at hw2 hf2
          simp only at hw2 hf2
          split
          · exact hw2
          · rename_i en hen
            have hen2 : c2.hasBlock en = true := hm2 c2 hf2 _ _ hen
            split
            · rename_i c3 hr
              split
              · rename_i x hx
                split at hr
                · simp only [Step.mk.injEq] at hr
                  obtain ⟨rfl, _⟩ := hr
                  exact wf_exit_set' (wf_entry_set hw2 hen2) (hm2 c2 hf2 _ _ hx)
                · split at hr
                  · rename_i ex _
                    cases hie : insertEdge c2 { head := ex, tail := en, cond := none } with
                    | ok c4 =>
                      rw [hie] at hr
                      simp only [Step.ofRes, Step.mk.injEq] at hr
                      obtain ⟨rfl, _⟩ := hr
                      have hf4 := insertEdge_frame hie
                      refine wf_exit_set' (wf_insertEdge hw2 hie) ?_
                      rw [hf4.hasBlock]; exact hm2 c2 hf2 _ _ hx
                    | err e => rw [hie] at hr; simp [Step.ofRes] at hr
                    | panic => rw [hie] at hr; simp [Step.ofRes] at hr
                  · simp at hr
              · -- lookup of the exit failed: the graph is the one after the entry/transition step
                split at hr
                · simp only [Step.mk.injEq] at hr
                  obtain ⟨rfl, _⟩ := hr
                  exact wf_entry_set hw2 hen2
                · split at hr
                  · rename_i ex _
                    cases hie : insertEdge c2 { head := ex, tail := en, cond := none } with
                    | ok c4 =>
                      rw [hie] at hr
                      simp only [Step.ofRes, Step.mk.injEq] at hr
                      obtain ⟨rfl, _⟩ := hr
                      exact wf_insertEdge hw2 hie
                    | err e => rw [hie] at hr; simp [Step.ofRes] at hr
                    | panic => rw [hie] at hr; simp [Step.ofRes] at hr
                  · simp at hr
            · -- the entry/transition step did not return ok: its graph
              rename_i r hr
              split
              · exact wf_entry_set hw2 hen2
              · split
                · exact ofRes_wf hw2 (fun _ h => wf_insertEdge hw2 h)
                · exact hw2
        · rename_i c2 x hce; rw [hce] at hw2; exact hw2
        · rename_i c2 hce; rw [hce] at hw2; exact hw2
      · rename_i c1 x hcb; rw [hcb] at hok; exact hok.wf
      · rename_i c1 hcb; rw [hcb] at hok; exact hok.wf
    · exact hw

theorem wf_clear {c : Cfg} (hw : WF c) : WF { c with entry := none, exit := none } :=
  ⟨hw.blocksNodup, hw.edgesNodup, hw.edgesJoin, hw.indexLt, hw.blocksWF, (fun _ h => by cases h), (fun _ h => by cases h)⟩

theorem wf_insert {c d : Cfg} (hw : WF c) (hd : WF d) : WF (CfgEdit.insert c d).cfg := by
  unfold CfgEdit.insert
  split
  · dsimp only
    obtain ⟨hok, _⟩ := copyBlocks_wf d.blocks (wf_clear hw) hd.blocksWF (MapOk.nil _)
    split
    · rename_i c1 m hcb
      rw [hcb] at hok
      obtain ⟨hw2, _⟩ := copyEdges_wf m d.edges hok.wf
      split
      · rename_i c2 hce
        rw [hce] at hw2
        split <;> exact hw2
      · rename_i c2 x hce; rw [hce] at hw2; exact hw2
      · rename_i c2 hce; rw [hce] at hw2; exact hw2
    · rename_i c1 x hcb; rw [hcb] at hok; exact hok.wf
    · rename_i c1 hcb; rw [hcb] at hok; exact hok.wf
  · exact hw

end Falcon.C15
