/-
  FalconProofs.C15.MergeLang — one merge step of a valid pair keeps the language from the entry:
  the walk correspondence (a walk through `m·s` in the merged graph ↔ a walk through `m`, the edge, `s`).
-/
import FalconProofs.C15.MergeView

namespace Falcon.C15
open Falcon Falcon.CfgEdit

theorem blockWord_appendInstrs (b : Block) (is : List Instr) :
    blockWord (appendInstrs b is) = blockWord b ++ is.map (fun i => Sym.op i.op) := by
  induction is generalizing b with
  | nil => simp [appendInstrs]
  | cons i is ih =>
    rw [appendInstrs, ih]
    simp [blockWord]

theorem blockWord_append (b o : Block) : blockWord (blockAppend b o) = blockWord b ++ blockWord o :=
  blockWord_appendInstrs b o.instrs

/-- the conditions under which `merge` selects the pair (m, s), as facts about the edge set -/
structure ValidPair (c : Cfg) (m s : Nat) : Prop where
  ne : m ≠ s
  entry : c.entry ≠ some s
  /-- `m`'s only out-edge is an unconditional edge to `s` -/
  out : ∃ e0 ∈ c.edges, e0.head = m ∧ e0.tail = s ∧ e0.cond = none ∧ ∀ e ∈ c.edges, e.head = m → e = e0
  /-- `s`'s only in-edge comes from `m` -/
  soleIn : ∀ e ∈ c.edges, e.tail = s → e.head = m

theorem edgeWord_rehead (m : Nat) (e : Edge) : edgeWord (rehead m e) = edgeWord e := rfl

theorem inj_of_nodup_map {α β : Type} (f : α → β) : ∀ {l : List α}, (l.map f).Nodup →
    ∀ {a b : α}, a ∈ l → b ∈ l → f a = f b → a = b
  | [], _, _, _, ha, _, _ => by cases ha
  | x :: xs, hn, a, b, ha, hb, h => by
    rw [List.map_cons, List.nodup_cons] at hn
    rcases List.mem_cons.mp ha with hax | ha'
    · rcases List.mem_cons.mp hb with hbx | hb'
      · rw [hax, hbx]
      · exact (hn.1 (List.mem_map.mpr ⟨b, hb', by rw [← hax]; exact h.symm⟩)).elim
    · rcases List.mem_cons.mp hb with hbx | hb'
      · exact (hn.1 (List.mem_map.mpr ⟨a, ha', by rw [← hbx]; exact h⟩)).elim
      · exact inj_of_nodup_map f hn.2 ha' hb' h

theorem block_unique {c : Cfg} (hw : WF c) {a b : Block} (ha : a ∈ c.blocks) (hb : b ∈ c.blocks)
    (h : a.index = b.index) : a = b := by
  exact inj_of_nodup_map (·.index) hw.blocksNodup ha hb h

section
variable {c c' : Cfg} {m s : Nat} {mb sb : Block}

/-- merged → original, exact words -/
theorem walk_merged_to_orig (hv : ValidPair c m s) (hV : MergedView c c' m s mb sb)
    {a z : Nat} {w : List Sym} (hwalk : Walk c' a w z) : Walk c a w (if z = m then s else z) := by
  obtain ⟨e0, he0, he0h, he0t, he0c, _⟩ := hv.out
  have hms : Walk c m (blockWord mb ++ blockWord sb) s := by
    have h1 : Walk c e0.tail (blockWord sb) s := by
      rw [he0t]; exact Walk.single hV.sb_mem hV.sb_idx
    have := Walk.cons hV.mb_mem hV.mb_idx he0 he0h (by rw [he0t] at h1 ⊢; exact h1 : Walk c e0.tail (blockWord sb) s)
    simpa [edgeWord, he0c] using this
  induction hwalk with
  | @single a b hb hbi =>
    rcases (hV.blocks b).mp hb with rfl | ⟨hbc, hbm, hbs⟩
    · have ham : a = m := by
        rw [← hbi]; show (appendInstrs mb sb.instrs).index = m; rw [appendInstrs_index]; exact hV.mb_idx
      subst ham
      rw [blockWord_append]
      simpa using hms
    · have : a ≠ m := by rw [← hbi]; exact hbm
      simp only [this, if_false]
      exact Walk.single hbc hbi
  | @cons a b e w z hb hbi he heh _ ih =>
    obtain ⟨hsrc, hehs, hets⟩ := (hV.edges e).mp he
    rcases (hV.blocks b).mp hb with rfl | ⟨hbc, hbm, hbs⟩
    · have ham : a = m := by
        rw [← hbi]; show (appendInstrs mb sb.instrs).index = m; rw [appendInstrs_index]; exact hV.mb_idx
      subst ham
      -- the edge out of the merged block is a re-headed out-edge of `s`
      rcases hsrc with hce | ⟨e1, he1, he1h, rfl⟩
      · obtain ⟨_, _, _, _, _, huniq⟩ := hv.out
        have : e = e0 := by
          obtain ⟨e0', he0', h1, h2, h3, hu⟩ := hv.out
          have h4 := hu e hce heh
          have h5 := hu e0 he0 he0h
          rw [h4, h5]
        exact absurd (by rw [this]; exact he0t) hets
      · have hrest : Walk c e1.tail w (if z = a then s else z) := ih
        have hs : Walk c s (blockWord sb ++ edgeWord e1 ++ w) (if z = a then s else z) :=
          Walk.cons hV.sb_mem hV.sb_idx he1 he1h hrest
        have := Walk.cons hV.mb_mem hV.mb_idx he0 he0h (by rw [he0t]; exact hs)
        rw [blockWord_append, edgeWord_rehead]
        simpa [edgeWord, he0c, List.append_assoc] using this
    · have ham : a ≠ m := by rw [← hbi]; exact hbm
      rcases hsrc with hce | ⟨e1, _, _, rfl⟩
      · exact Walk.cons hbc hbi hce heh ih
      · exact absurd heh (fun h => ham h.symm)

/-- original → merged: every word of a walk of `c` is a prefix of a word of a walk of `c'` -/
theorem walk_orig_to_merged (hw : WF c) (hv : ValidPair c m s) (hV : MergedView c c' m s mb sb)
    {a z : Nat} {w : List Sym} (hwalk : Walk c a w z) :
    (a ≠ s → ∃ w' z', Walk c' a w' z' ∧ w <+: w') ∧
    (a = s → ∃ w' z', Walk c' m w' z' ∧ (blockWord mb ++ w) <+: w') := by
  obtain ⟨e0, he0, he0h, he0t, he0c, huniq⟩ := hv.out
  have hmerged : blockAppend mb sb ∈ c'.blocks := (hV.blocks _).mpr (Or.inl rfl)
  have hmi : (blockAppend mb sb).index = m := by
    show (appendInstrs mb sb.instrs).index = m; rw [appendInstrs_index]; exact hV.mb_idx
  induction hwalk with
  | @single a b hb hbi =>
    constructor
    · intro has
      by_cases ham : a = m
      · subst ham
        have : b = mb := block_unique hw hb hV.mb_mem (by rw [hbi, hV.mb_idx])
        subst this
        exact ⟨_, _, Walk.single hmerged hmi, by rw [blockWord_append]; exact List.prefix_append _ _⟩
      · exact ⟨_, _, Walk.single ((hV.blocks b).mpr (Or.inr ⟨hb, by rw [hbi]; exact ham, by rw [hbi]; exact has⟩)) hbi,
          List.prefix_refl _⟩
    · intro has
      subst has
      have : b = sb := block_unique hw hb hV.sb_mem (by rw [hbi, hV.sb_idx])
      subst this
      exact ⟨_, _, Walk.single hmerged hmi, by rw [blockWord_append]; exact List.prefix_refl _⟩
  | @cons a b e w z hb hbi he heh _ ih =>
    constructor
    · intro has
      by_cases ham : a = m
      · subst ham
        have : b = mb := block_unique hw hb hV.mb_mem (by rw [hbi, hV.mb_idx])
        subst this
        have hee : e = e0 := huniq e he heh
        subst hee
        obtain ⟨w', z', hwk, hpre⟩ := ih.2 he0t
        refine ⟨w', z', hwk, ?_⟩
        simpa [edgeWord, he0c] using hpre
      · -- an ordinary block: its out-edge does not enter `s`
        have hets : e.tail ≠ s := fun h => ham ((hv.soleIn e he h).symm.trans heh).symm
        have hec' : e ∈ c'.edges := (hV.edges e).mpr ⟨Or.inl he, by rw [heh]; exact has, hets⟩
        have hb' : b ∈ c'.blocks := (hV.blocks b).mpr (Or.inr ⟨hb, by rw [hbi]; exact ham, by rw [hbi]; exact has⟩)
        obtain ⟨w', z', hwk, hpre⟩ := ih.1 hets
        refine ⟨_, z', Walk.cons hb' hbi hec' heh hwk, ?_⟩
        exact (List.prefix_append_right_inj _).mpr hpre
    · intro has
      subst has
      have : b = sb := block_unique hw hb hV.sb_mem (by rw [hbi, hV.sb_idx])
      subst this
      have hets : e.tail ≠ a := by
        intro h
        have := hv.soleIn e he h
        exact hv.ne (this.symm.trans heh)
      have hre : rehead m e ∈ c'.edges :=
        (hV.edges _).mpr ⟨Or.inr ⟨e, he, heh, rfl⟩, hv.ne, hets⟩
      obtain ⟨w', z', hwk, hpre⟩ := ih.1 hets
      refine ⟨_, z', Walk.cons hmerged hmi hre rfl hwk, ?_⟩
      rw [blockWord_append, edgeWord_rehead]
      simp only [List.append_assoc]
      exact (List.prefix_append_right_inj _).mpr ((List.prefix_append_right_inj _).mpr
        ((List.prefix_append_right_inj _).mpr hpre))

/-- **one merge step keeps the language from the entry** -/
theorem mergeStep_lang (hw : WF c) (hv : ValidPair c m s) (hV : MergedView c c' m s mb sb) (w : List Sym) :
    Lang c' w ↔ Lang c w := by
  constructor
  · rintro ⟨en, z, full, hen, hwalk, hpre⟩
    exact ⟨en, _, full, by rw [← hV.entry]; exact hen, walk_merged_to_orig hv hV hwalk, hpre⟩
  · rintro ⟨en, z, full, hen, hwalk, hpre⟩
    have hens : en ≠ s := fun h => hv.entry (by rw [hen, h])
    obtain ⟨w', z', hwk, hp⟩ := (walk_orig_to_merged hw hv hV hwalk).1 hens
    exact ⟨en, z', w', by rw [hV.entry]; exact hen, hwk, hpre.trans hp⟩

end

end Falcon.C15
