/-
  FalconProofs.C15.MergeView — what one successful `mergeStep` does to the graph, as membership facts.
-/
import FalconProofs.C15.Ops

namespace Falcon.C15
open Falcon Falcon.CfgEdit

theorem insertEdges_ok {c c' : Cfg} {es : List Edge} (h : insertEdges c es = ⟨c', .ok ()⟩) :
    (∀ e, e ∈ c'.edges ↔ e ∈ c.edges ∨ e ∈ es) ∧ SameFrame c c' := by
  induction es generalizing c with
  | nil =>
    simp only [insertEdges, Step.mk.injEq, and_true] at h
    subst h
    exact ⟨fun e => by simp, SameFrame.refl _⟩
  | cons e es ih =>
    unfold insertEdges at h
    split at h
    · rename_i c1 h1
      obtain ⟨hm, hf⟩ := ih h
      obtain ⟨_, _, _, hc1⟩ := insertEdge_ok h1
      refine ⟨?_, (insertEdge_frame h1).trans hf⟩
      intro x
      rw [hm x, hc1]
      show x ∈ insertEdgeSorted e c.edges ∨ x ∈ es ↔ _
      rw [mem_insertEdgeSorted, List.mem_cons]
      constructor
      · rintro ((rfl | h) | h)
        · exact Or.inr (Or.inl rfl)
        · exact Or.inl h
        · exact Or.inr (Or.inr h)
      · rintro (h | rfl | h)
        · exact Or.inl (Or.inr h)
        · exact Or.inl (Or.inl rfl)
        · exact Or.inr h
    · simp at h
    · simp at h

def rehead (m : Nat) (e : Edge) : Edge := { head := m, tail := e.tail, cond := e.cond }

/-- the graph after a successful merge of `s` into `m` -/
structure MergedView (c c' : Cfg) (m s : Nat) (mb sb : Block) : Prop where
  mb_mem : mb ∈ c.blocks
  mb_idx : mb.index = m
  sb_mem : sb ∈ c.blocks
  sb_idx : sb.index = s
  blocks : ∀ x, x ∈ c'.blocks ↔ (x = blockAppend mb sb ∨ (x ∈ c.blocks ∧ x.index ≠ m ∧ x.index ≠ s))
  edges : ∀ e, e ∈ c'.edges ↔
    ((e ∈ c.edges ∨ ∃ e1 ∈ c.edges, e1.head = s ∧ e = rehead m e1) ∧ e.head ≠ s ∧ e.tail ≠ s)
  entry : c'.entry = c.entry
  exit : c'.exit = if c.exit = some s then some m else c.exit

theorem mergeStep_view {c c' : Cfg} {m s : Nat} (hms : m ≠ s) (h : mergeStep c m s = ⟨c', .ok ()⟩) :
    ∃ mb sb, MergedView c c' m s mb sb := by
  unfold mergeStep at h
  split at h
  · simp at h
  · rename_i sb hsb
    split at h
    · simp at h
    · rename_i mb hmb
      dsimp only at h
      obtain ⟨hmbm, hmbi⟩ := block_some hmb
      obtain ⟨hsbm, hsbi⟩ := block_some hsb
      have hbi : (blockAppend mb sb).index = m := by
        rw [show (blockAppend mb sb).index = mb.index from appendInstrs_index _ _, hmbi]
      split at h
      · rename_i c2 hie
        obtain ⟨hed, hf⟩ := insertEdges_ok hie
        split at h
        · rename_i c3 hrv
          obtain ⟨_, hc3⟩ := removeVertex_ok hrv
          simp only [Step.mk.injEq, and_true] at h
          have hb3 : c'.blocks = c3.blocks := by rw [← h]; split <;> rfl
          have he3 : c'.edges = c3.edges := by rw [← h]; split <;> rfl
          have hen3 : c'.entry = c3.entry := by rw [← h]; split <;> rfl
          refine ⟨mb, sb, hmbm, hmbi, hsbm, hsbi, ?_, ?_, ?_, ?_⟩
          · intro x
            rw [hb3, hc3]
            show x ∈ c2.blocks.filter (fun b => b.index != s) ↔ _
            rw [hf.blocks, List.mem_filter]
            constructor
            · rintro ⟨hx, hxs⟩
              have hxs : x.index ≠ s := by simpa using hxs
              rcases mem_setBlock hx with rfl | ⟨hx, hne⟩
              · exact Or.inl rfl
              · rw [hbi] at hne; exact Or.inr ⟨hx, hne, hxs⟩
            · rintro (rfl | ⟨hx, hxm, hxs⟩)
              · refine ⟨?_, by rw [hbi]; simpa using hms⟩
                simp only [setBlock, List.mem_map]
                refine ⟨mb, hmbm, ?_⟩
                rw [hbi, hmbi]; simp
              · refine ⟨?_, by simpa using hxs⟩
                simp only [setBlock, List.mem_map]
                refine ⟨x, hx, ?_⟩
                rw [hbi]; simp [hxm]
          · intro e
            rw [he3, hc3]
            show e ∈ c2.edges.filter (fun e => e.head != s && e.tail != s) ↔ _
            rw [List.mem_filter, hed e]
            have hmapmem : e ∈ List.map (fun e => ({ head := m, tail := e.tail, cond := e.cond } : Edge))
                  (Cfg.edgesOut (setBlock c (blockAppend mb sb)) s) ↔ ∃ e1 ∈ c.edges, e1.head = s ∧ e = rehead m e1 := by
              simp only [List.mem_map, Cfg.edgesOut, List.mem_filter, beq_iff_eq, rehead]
              constructor
              · rintro ⟨e1, ⟨h1, h2⟩, rfl⟩; exact ⟨e1, h1, h2, rfl⟩
              · rintro ⟨e1, h1, h2, rfl⟩; exact ⟨e1, ⟨h1, h2⟩, rfl⟩
            rw [hmapmem]
            simp only [Bool.and_eq_true, bne_iff_ne, ne_eq]
            rfl
          · rw [hen3, hc3]; show c2.entry = c.entry; rw [hf.entry]; rfl
          · have hx3 : c3.exit = c.exit := by rw [hc3]; show c2.exit = c.exit; rw [hf.exit]; rfl
            rw [← h]
            split
            · rename_i hh
              have : c.exit = some s := by rw [← hx3]; simpa using hh
              simp [this]
            · rename_i hh
              have : ¬ c.exit = some s := by rw [← hx3]; simpa using hh
              simp [this, hx3]
        · simp at h
        · simp at h
      · simp at h
      · simp at h

end Falcon.C15
