/-
  FalconProofs.C15.Sorted — the two association lists of the model stay sorted by key (blocks by index, edges by
  (head, tail)): the model's iteration order is the iteration order of falcon's BTreeMaps in every reachable
  state.  Proved through a generic statement: every predicate on graphs that is closed under the container
  primitives is preserved by every editing operation.
-/
import FalconModel.CfgEdit
import FalconProofs.C15.Basic

namespace Falcon.C15
open Falcon Falcon.CfgEdit

/-- a predicate on graphs closed under the container primitives and blind to entry/exit/counters -/
structure Closed (P : Cfg → Prop) : Prop where
  insV : ∀ {c b c'}, insertVertex c b = .ok c' → P c → P c'
  insE : ∀ {c e c'}, insertEdge c e = .ok c' → P c → P c'
  remV : ∀ {c i c'}, removeVertex c i = .ok c' → P c → P c'
  setB : ∀ {c} (b : Block), P c → P (setBlock c b)
  congr : ∀ (c c' : Cfg), c'.blocks = c.blocks → c'.edges = c.edges → P c → P c'

section
variable {P : Cfg → Prop} (H : Closed P)
include H

set_option linter.unusedSectionVars false in
theorem Closed.ofRes {α : Type} {fb : Cfg} {r : Res Cfg} {v : α} (hfb : P fb) (hr : ∀ c', r = .ok c' → P c') :
    P (Step.ofRes fb r v).cfg := by
  cases r with
  | ok c' => exact hr c' rfl
  | err e => exact hfb
  | panic => exact hfb

theorem Closed.newBlock {c : Cfg} (h : P c) : P (newBlock c).cfg := by
  have h1 : P { c with nextIndex := c.nextIndex + 1 } := H.congr c _ rfl rfl h
  exact H.ofRes h1 (fun _ hr => H.insV hr h1)

theorem Closed.insertEdges {c : Cfg} (es : List Edge) (h : P c) : P (insertEdges c es).cfg := by
  induction es generalizing c with
  | nil => exact h
  | cons e es ih =>
    unfold CfgEdit.insertEdges
    split
    · rename_i c' hr; exact ih (H.insE hr h)
    · exact h
    · exact h

theorem Closed.mergeStep {c : Cfg} (m s : Nat) (h : P c) : P (mergeStep c m s).cfg := by
  unfold CfgEdit.mergeStep
  split
  · exact h
  · split
    · exact h
    · rename_i sb _ _ mb _
      dsimp only
      have h1 : P (setBlock c (blockAppend mb sb)) := H.setB _ h
      have h2 := H.insertEdges
        ((Cfg.edgesOut (setBlock c (blockAppend mb sb)) s).map (fun e => ({ head := m, tail := e.tail, cond := e.cond } : Edge))) h1
      split
      · rename_i c2 hie
        rw [hie] at h2
        split
        · rename_i c3 hrv
          have h3 := H.remV hrv h2
          split
          · exact H.congr c3 _ rfl rfl h3
          · exact h3
        · exact h2
        · exact h2
      · rename_i c2 x hie; rw [hie] at h2; exact h2
      · rename_i c2 hie; rw [hie] at h2; exact h2

theorem Closed.applyMerges {c : Cfg} (ms : List (Nat × Nat)) (h : P c) : P (applyMerges c ms).cfg := by
  induction ms generalizing c with
  | nil => exact h
  | cons p rest ih =>
    obtain ⟨m, s⟩ := p
    have h1 := H.mergeStep m s h
    unfold CfgEdit.applyMerges
    split
    · rename_i c' hs; rw [hs] at h1; exact ih h1
    · exact h1

theorem Closed.mergeLoop (fuel : Nat) {c : Cfg} (h : P c) : P (mergeLoop fuel c).cfg := by
  induction fuel generalizing c with
  | zero => exact h
  | succ n ih =>
    unfold CfgEdit.mergeLoop
    split
    · exact h
    · rename_i ms _ _
      have h1 := H.applyMerges ms h
      split
      · rename_i c' ha; rw [ha] at h1; exact ih h1
      · exact h1
    · exact h
    · exact h

theorem Closed.copyBlocks {c : Cfg} (m : List (Nat × Nat)) (bs : List Block) (h : P c) : P (copyBlocks c m bs).cfg := by
  induction bs generalizing c m with
  | nil => exact h
  | cons b bs ih =>
    have h1 : P { c with nextIndex := c.nextIndex + 1 } := H.congr c _ rfl rfl h
    unfold CfgEdit.copyBlocks
    dsimp only
    split
    · rename_i c2 hr; exact ih _ (H.insV hr h1)
    · exact h1
    · exact h1

theorem Closed.copyEdges (m : List (Nat × Nat)) {c : Cfg} (es : List Edge) (h : P c) : P (copyEdges m c es).cfg := by
  induction es generalizing c with
  | nil => exact h
  | cons e es ih =>
    unfold CfgEdit.copyEdges
    split
    · split
      · rename_i c' hr; exact ih (H.insE hr h)
      · exact h
      · exact h
    · exact h

theorem Closed.append {c : Cfg} (d : Cfg) (h : P c) : P (CfgEdit.append c d).cfg := by
  unfold CfgEdit.append
  dsimp only
  split
  · exact h
  · split
    · have h1 := H.copyBlocks [] d.blocks h
      split
      · rename_i c1 m hb
        rw [hb] at h1
        have h2 := H.copyEdges m d.edges h1
        split
        · rename_i c2 he
          rw [he] at h2
          split
          · exact h2
          · rename_i en _
            have hr : P (if c.blocks.isEmpty = true then (⟨{ c2 with entry := some en }, .ok ()⟩ : Step Unit)
                else match c2.exit with
                  | some ex => Step.ofRes c2 (insertEdge c2 { head := ex, tail := en, cond := none }) ()
                  | none => ⟨c2, .panic⟩).cfg := by
              split
              · exact H.congr c2 _ rfl rfl h2
              · split
                · exact H.ofRes h2 (fun _ hr => H.insE hr h2)
                · exact h2
            split
            · rename_i c3 hr3
              have e3 : _ = c3 := congrArg Step.cfg hr3
              have hr' : P c3 := by rw [← e3]; exact hr
              split
              · exact H.congr c3 _ rfl rfl hr'
              · exact hr'
            · exact hr
        · rename_i c2 x he; rw [he] at h2; exact h2
        · rename_i c2 he; rw [he] at h2; exact h2
      · rename_i c1 x hb; rw [hb] at h1; exact h1
      · rename_i c1 hb; rw [hb] at h1; exact h1
    · exact h

theorem Closed.insert {c : Cfg} (d : Cfg) (h : P c) : P (CfgEdit.insert c d).cfg := by
  unfold CfgEdit.insert
  split
  · dsimp only
    have h0 : P { c with entry := none, exit := none } := H.congr c _ rfl rfl h
    have h1 := H.copyBlocks [] d.blocks h0
    split
    · rename_i c1 m hb
      rw [hb] at h1
      have h2 := H.copyEdges m d.edges h1
      split
      · rename_i c2 he
        rw [he] at h2
        split <;> exact h2
      · rename_i c2 x he; rw [he] at h2; exact h2
      · rename_i c2 he; rw [he] at h2; exact h2
    · rename_i c1 x hb; rw [hb] at h1; exact h1
    · rename_i c1 hb; rw [hb] at h1; exact h1
  · exact h

theorem Closed.blockifyAppends {c : Cfg} (ds : List Cfg) (h : P c) : P (blockifyAppends c ds).cfg := by
  induction ds generalizing c with
  | nil => exact h
  | cons d ds ih =>
    have h1 := H.append d h
    unfold CfgEdit.blockifyAppends
    split
    · rename_i c' ha; rw [ha] at h1; exact ih h1
    · exact h1

theorem Closed.blockify (hnew : P CfgEdit.new) {ds : List Cfg} {c : Cfg} (h : blockify ds = .ok c) : P c := by
  unfold CfgEdit.blockify at h
  have h0 : CfgEdit.newBlock CfgEdit.new = ⟨{ blocks := [{ index := 0 }], nextIndex := 1 }, .ok 0⟩ := rfl
  have p0 := H.newBlock hnew
  rw [h0] at h p0
  dsimp only at h p0
  have h1 : setEntry { blocks := [{ index := 0 }], nextIndex := 1 } 0
      = ⟨{ blocks := [{ index := 0 }], entry := some 0, nextIndex := 1 }, .ok ()⟩ := rfl
  rw [h1] at h
  dsimp only at h
  have h2 : setExit { blocks := [{ index := 0 }], entry := some 0, nextIndex := 1 } 0 = ⟨blockifyInit, .ok ()⟩ := rfl
  rw [h2] at h
  dsimp only at h
  have p2 : P blockifyInit := H.congr { blocks := [{ index := 0 }], nextIndex := 1 } _ rfl rfl p0
  have p3 := H.blockifyAppends ds p2
  split at h
  · rename_i c0 happ
    rw [happ] at p3
    split at h
    · simp only [Res.ok.injEq] at h
      rw [← h]; exact H.mergeLoop _ p3
    · cases h
    · cases h
  · cases h
  · cases h

theorem Closed.step (hnew : P CfgEdit.new) (s : Graphs) (hs : ∀ g, P (s g)) (o : EditOp) : P (o.step s).cfg := by
  cases o with
  | newBlock g => exact H.newBlock (hs g)
  | uedge g h t =>
    show P (unconditionalEdge (s g) h t).cfg
    exact H.ofRes (hs g) (fun _ hr => H.insE hr (hs g))
  | cedge g h t e =>
    show P (conditionalEdge (s g) h t e).cfg
    exact H.ofRes (hs g) (fun _ hr => H.insE hr (hs g))
  | entry g i =>
    show P (setEntry (s g) i).cfg
    unfold setEntry; split
    · exact H.congr (s g) _ rfl rfl (hs g)
    · exact hs g
  | exit g i =>
    show P (setExit (s g) i).cfg
    unfold setExit; split
    · exact H.congr (s g) _ rfl rfl (hs g)
    · exact hs g
  | merge g => exact H.mergeLoop _ (hs g)
  | append g h => exact H.append _ (hs g)
  | insert g h => exact H.insert _ (hs g)
  | op g b o =>
    show P (blockOp (s g) b o).cfg
    unfold blockOp; split
    · exact H.setB _ (hs g)
    · exact hs g
  | bappend g b h j =>
    show P (blockAppendOp (s g) b (s h) j).cfg
    unfold blockAppendOp; split
    · exact H.setB _ (hs g)
    · exact hs g
  | rmins g b i =>
    show P (removeInstruction (s g) b i).cfg
    unfold removeInstruction; split
    · split
      · exact H.setB _ (hs g)
      · exact hs g
      · exact hs g
    · exact hs g
  | temp g n => exact H.congr (s g) _ rfl rfl (hs g)
  | blockify g hs' =>
    show P (match CfgEdit.blockify (hs'.map s) with
      | .ok c => (⟨c, .ok .unit⟩ : Step Outcome)
      | .err e => ⟨s g, .err e⟩
      | .panic => ⟨s g, .panic⟩).cfg
    cases hb : CfgEdit.blockify (hs'.map s) with
    | ok c => exact H.blockify hnew hb
    | err e => exact hs g
    | panic => exact hs g

theorem Closed.runAll (hnew : P CfgEdit.new) (ops : List EditOp) : ∀ g, P (runAll ops g) := by
  unfold CfgEdit.runAll
  suffices h : ∀ (s : Graphs), (∀ g, P (s g)) → ∀ g, P ((ops.foldl (fun s o => (run s o).1) s) g) from
    h _ (fun _ => hnew)
  induction ops with
  | nil => intro s hs; exact hs
  | cons o ops ih =>
    intro s hs
    apply ih
    intro g
    have h := H.step hnew s hs o
    unfold run
    dsimp only
    split
    · exact hs g
    · show P (Graphs.set s o.target (o.step s).cfg g)
      unfold Graphs.set
      split
      · exact h
      · exact hs g

end

-- ------------------------------------------------------------------------------------------------
-- `Sorted` is closed

theorem edgeLt_iff (a b : Edge) : edgeLt a b = true ↔ (a.head < b.head ∨ (a.head = b.head ∧ a.tail < b.tail)) := by
  simp [edgeLt]

theorem bsorted_insert (b : Block) {l : List Block} (h : l.Pairwise (fun a b => a.index < b.index))
    (hne : ∀ x ∈ l, x.index ≠ b.index) : (insertBlockSorted b l).Pairwise (fun a b => a.index < b.index) := by
  induction l with
  | nil => simp [insertBlockSorted]
  | cons x xs ih =>
    rw [List.pairwise_cons] at h
    unfold insertBlockSorted
    split
    · rename_i hlt
      refine List.Pairwise.cons ?_ (List.Pairwise.cons h.1 h.2)
      intro y hy
      rcases List.mem_cons.mp hy with rfl | hy
      · exact hlt
      · exact Nat.lt_trans hlt (h.1 y hy)
    · rename_i hnlt
      refine List.Pairwise.cons ?_ (ih h.2 (fun y hy => hne y (List.mem_cons_of_mem _ hy)))
      intro y hy
      rcases mem_insertBlockSorted.mp hy with rfl | hy
      · have := hne x List.mem_cons_self; omega
      · exact h.1 y hy

theorem esorted_insert (e : Edge) {l : List Edge} (h : l.Pairwise (fun a b => edgeLt a b = true))
    (hne : ∀ x ∈ l, edgeKey x ≠ edgeKey e) : (insertEdgeSorted e l).Pairwise (fun a b => edgeLt a b = true) := by
  induction l with
  | nil => simp [insertEdgeSorted]
  | cons x xs ih =>
    rw [List.pairwise_cons] at h
    unfold insertEdgeSorted
    split
    · rename_i hlt
      refine List.Pairwise.cons ?_ (List.Pairwise.cons h.1 h.2)
      intro y hy
      rcases List.mem_cons.mp hy with rfl | hy
      · exact hlt
      · have h2 := h.1 y hy
        rw [edgeLt_iff] at hlt h2 ⊢
        omega
    · rename_i hnlt
      refine List.Pairwise.cons ?_ (ih h.2 (fun y hy => hne y (List.mem_cons_of_mem _ hy)))
      intro y hy
      rcases mem_insertEdgeSorted.mp hy with rfl | hy
      · have hk := hne x List.mem_cons_self
        simp only [edgeKey, ne_eq, Prod.mk.injEq, not_and] at hk
        rw [edgeLt_iff] at hnlt ⊢
        omega
      · exact h.1 y hy

theorem sorted_closed : Closed Sorted where
  insV := by
    intro c b c' h ⟨hb, he⟩
    obtain ⟨hn, rfl⟩ := insertVertex_ok h
    refine ⟨bsorted_insert b hb ?_, he⟩
    intro x hx hxi
    have : c.hasBlock b.index = true := (hasBlock_iff c _).mpr ⟨x, hx, hxi⟩
    rw [hn] at this; cases this
  insE := by
    intro c e c' h ⟨hb, he⟩
    obtain ⟨hn, _, _, rfl⟩ := insertEdge_ok h
    refine ⟨hb, esorted_insert e he ?_⟩
    intro x hx hxk
    have : hasEdge c e.head e.tail = true := (hasEdge_iff c _ _).mpr (List.mem_map.mpr ⟨x, hx, hxk⟩)
    rw [hn] at this; cases this
  remV := by
    intro c i c' h ⟨hb, he⟩
    obtain ⟨_, rfl⟩ := removeVertex_ok h
    exact ⟨hb.filter _, he.filter _⟩
  setB := by
    intro c b ⟨hb, he⟩
    refine ⟨?_, he⟩
    show ((c.blocks.map (fun x => if x.index == b.index then b else x))).Pairwise _
    rw [List.pairwise_map]
    refine hb.imp ?_
    intro x y hxy
    have hx : (if x.index == b.index then b else x).index = x.index := by
      split
      · rename_i h; exact (beq_iff_eq.mp h).symm
      · rfl
    have hy : (if y.index == b.index then b else y).index = y.index := by
      split
      · rename_i h; exact (beq_iff_eq.mp h).symm
      · rfl
    rw [hx, hy]; exact hxy
  congr := by
    intro c c' hb he ⟨h1, h2⟩
    exact ⟨by rw [hb]; exact h1, by rw [he]; exact h2⟩

theorem sorted_new : Sorted CfgEdit.new := ⟨List.Pairwise.nil, List.Pairwise.nil⟩

end Falcon.C15
