/-
  FalconProofs.C15.CopyView — what `copyBlocks` / `copyEdges` (the common part of `append` and `insert`) do,
  as membership facts about the resulting graph and the block map.
-/
import FalconProofs.C15.Copy

namespace Falcon.C15
open Falcon Falcon.CfgEdit

structure CopyBlocksView (c : Cfg) (m : List (Nat × Nat)) (bs : List Block) (c' : Cfg) (m' : List (Nat × Nat)) : Prop where
  outside : ∀ k, k ∉ bs.map (·.index) → m'.lookup k = m.lookup k
  inside : ∀ b ∈ bs, ∃ n, m'.lookup b.index = some n ∧ c.nextIndex ≤ n ∧ n < c'.nextIndex
  inj : ∀ b1 ∈ bs, ∀ b2 ∈ bs, ∀ n, m'.lookup b1.index = some n → m'.lookup b2.index = some n → b1.index = b2.index
  blocks : ∀ x, x ∈ c'.blocks ↔ x ∈ c.blocks ∨ ∃ b ∈ bs, ∃ n, m'.lookup b.index = some n ∧ x = { b with index := n }
  next : c.nextIndex ≤ c'.nextIndex
  edges : c'.edges = c.edges
  entry : c'.entry = c.entry
  exit : c'.exit = c.exit

theorem copyBlocks_view {c c' : Cfg} {m m' : List (Nat × Nat)} (bs : List Block)
    (hn : (bs.map (·.index)).Nodup) (h : copyBlocks c m bs = ⟨c', .ok m'⟩) : CopyBlocksView c m bs c' m' := by
  induction bs generalizing c m with
  | nil =>
    simp only [copyBlocks, Step.mk.injEq, Res.ok.injEq] at h
    obtain ⟨rfl, rfl⟩ := h
    exact ⟨fun _ _ => rfl, (fun b hb => by cases hb), (fun b hb => by cases hb), (fun x => by simp), Nat.le_refl _, rfl, rfl, rfl⟩
  | cons b bs ih =>
    rw [List.map_cons, List.nodup_cons] at hn
    unfold copyBlocks at h
    dsimp only at h
    split at h
    · rename_i c2 hins
      obtain ⟨_, hc2⟩ := insertVertex_ok hins
      have V := ih hn.2 h
      have hc2n : c2.nextIndex = c.nextIndex + 1 := by rw [hc2]
      have hb : m'.lookup b.index = some c.nextIndex := by
        rw [V.outside _ hn.1, List.lookup_cons]; simp
      have hc2b : ∀ x, x ∈ c2.blocks ↔ x = { b with index := c.nextIndex } ∨ x ∈ c.blocks := by
        intro x; rw [hc2]; exact mem_insertBlockSorted
      refine ⟨?_, ?_, ?_, ?_, ?_, ?_, ?_, ?_⟩
      · intro k hk
        simp only [List.map_cons, List.mem_cons, not_or] at hk
        rw [V.outside k hk.2, List.lookup_cons]
        have : (k == b.index) = false := by simpa using hk.1
        simp [this]
      · intro x hx
        rcases List.mem_cons.mp hx with rfl | hx
        · exact ⟨_, hb, Nat.le_refl _, by have := V.next; omega⟩
        · obtain ⟨n, h1, h2, h3⟩ := V.inside x hx
          exact ⟨n, h1, by omega, h3⟩
      · intro b1 h1 b2 h2 n hl1 hl2
        rcases List.mem_cons.mp h1 with e1 | h1' <;> rcases List.mem_cons.mp h2 with e2 | h2'
        · rw [e1, e2]
        · obtain ⟨n', h', hge, _⟩ := V.inside b2 h2'
          rw [e1, hb] at hl1; rw [h'] at hl2
          cases hl1; cases hl2; omega
        · obtain ⟨n', h', hge, _⟩ := V.inside b1 h1'
          rw [e2, hb] at hl2; rw [h'] at hl1
          cases hl1; cases hl2; omega
        · exact V.inj b1 h1' b2 h2' n hl1 hl2
      · intro x
        rw [V.blocks x, hc2b x]
        constructor
        · rintro ((rfl | hx) | ⟨b', hb', n, hl, rfl⟩)
          · exact Or.inr ⟨b, List.mem_cons_self, _, hb, rfl⟩
          · exact Or.inl hx
          · exact Or.inr ⟨b', List.mem_cons_of_mem _ hb', n, hl, rfl⟩
        · rintro (hx | ⟨b', hb', n, hl, rfl⟩)
          · exact Or.inl (Or.inr hx)
          · rcases List.mem_cons.mp hb' with rfl | hb'
            · rw [hb] at hl; cases hl; exact Or.inl (Or.inl rfl)
            · exact Or.inr ⟨b', hb', n, hl, rfl⟩
      · have := V.next; omega
      · rw [V.edges, hc2]
      · rw [V.entry, hc2]
      · rw [V.exit, hc2]
    · simp at h
    · simp at h

theorem copyEdges_view {m : List (Nat × Nat)} {c c' : Cfg} (es : List Edge)
    (h : copyEdges m c es = ⟨c', .ok ()⟩) :
    (∀ e, e ∈ c'.edges ↔ e ∈ c.edges ∨
      ∃ e0 ∈ es, ∃ hd tl, m.lookup e0.head = some hd ∧ m.lookup e0.tail = some tl ∧ e = ⟨hd, tl, e0.cond⟩) ∧
    (∀ e0 ∈ es, ∃ hd tl, m.lookup e0.head = some hd ∧ m.lookup e0.tail = some tl) ∧ SameFrame c c' := by
  induction es generalizing c with
  | nil =>
    simp only [copyEdges, Step.mk.injEq, and_true] at h
    subst h
    exact ⟨(fun e => by simp), (fun e he => by cases he), SameFrame.refl _⟩
  | cons e es ih =>
    unfold copyEdges at h
    split at h
    · rename_i hd tl hh ht
      split at h
      · rename_i c1 hins
        obtain ⟨hmem, hall, hf⟩ := ih h
        obtain ⟨_, _, _, hc1⟩ := insertEdge_ok hins
        refine ⟨?_, ?_, (insertEdge_frame hins).trans hf⟩
        · intro x
          rw [hmem x, hc1]
          show x ∈ insertEdgeSorted _ c.edges ∨ _ ↔ _
          rw [mem_insertEdgeSorted]
          constructor
          · rintro ((rfl | hx) | ⟨e0, he0, a, b, h1, h2, rfl⟩)
            · exact Or.inr ⟨e, List.mem_cons_self, hd, tl, hh, ht, rfl⟩
            · exact Or.inl hx
            · exact Or.inr ⟨e0, List.mem_cons_of_mem _ he0, a, b, h1, h2, rfl⟩
          · rintro (hx | ⟨e0, he0, a, b, h1, h2, rfl⟩)
            · exact Or.inl (Or.inr hx)
            · rcases List.mem_cons.mp he0 with rfl | he0
              · rw [hh] at h1; rw [ht] at h2; cases h1; cases h2
                exact Or.inl (Or.inl rfl)
              · exact Or.inr ⟨e0, he0, a, b, h1, h2, rfl⟩
        · intro e0 he0
          rcases List.mem_cons.mp he0 with rfl | he0
          · exact ⟨hd, tl, hh, ht⟩
          · exact hall e0 he0
      · simp at h
      · simp at h
    · simp at h

/-- the renaming of block indices a block map stands for -/
def renameOf (m : List (Nat × Nat)) (k : Nat) : Nat := (m.lookup k).getD 0

/-- `c'` is `c` plus a renamed copy of `d` (blocks and edges), `f` the renaming -/
structure CopyView (c d c' : Cfg) (f : Nat → Nat) : Prop where
  blocks : ∀ x, x ∈ c'.blocks ↔ x ∈ c.blocks ∨ ∃ b ∈ d.blocks, x = { b with index := f b.index }
  edges : ∀ e, e ∈ c'.edges ↔ e ∈ c.edges ∨ ∃ e0 ∈ d.edges, e = ⟨f e0.head, f e0.tail, e0.cond⟩
  fresh : ∀ b ∈ d.blocks, c.nextIndex ≤ f b.index
  inj : ∀ b1 ∈ d.blocks, ∀ b2 ∈ d.blocks, f b1.index = f b2.index → b1.index = b2.index

/-- the two copy loops together -/
theorem copy_view {c c1 c2 d : Cfg} {m : List (Nat × Nat)} (hd : WF d)
    (hb : copyBlocks c [] d.blocks = ⟨c1, .ok m⟩) (he : copyEdges m c1 d.edges = ⟨c2, .ok ()⟩) :
    CopyView c d c2 (renameOf m) ∧ c2.entry = c.entry ∧ c2.exit = c.exit ∧
      (∀ b ∈ d.blocks, m.lookup b.index = some (renameOf m b.index)) := by
  have V := copyBlocks_view d.blocks hd.blocksNodup hb
  obtain ⟨hmem, hall, hf⟩ := copyEdges_view d.edges he
  have hlook : ∀ b ∈ d.blocks, m.lookup b.index = some (renameOf m b.index) := by
    intro b hb
    obtain ⟨n, hn, _⟩ := V.inside b hb
    simp [renameOf, hn]
  refine ⟨⟨?_, ?_, ?_, ?_⟩, by rw [hf.entry, V.entry], by rw [hf.exit, V.exit], hlook⟩
  · intro x
    rw [hf.blocks, V.blocks x]
    constructor
    · rintro (hx | ⟨b, hb, n, hn, rfl⟩)
      · exact Or.inl hx
      · refine Or.inr ⟨b, hb, ?_⟩
        simp [renameOf, hn]
    · rintro (hx | ⟨b, hb, rfl⟩)
      · exact Or.inl hx
      · exact Or.inr ⟨b, hb, _, hlook b hb, rfl⟩
  · intro e
    rw [hmem e, V.edges]
    constructor
    · rintro (hx | ⟨e0, he0, a, b, h1, h2, rfl⟩)
      · exact Or.inl hx
      · refine Or.inr ⟨e0, he0, ?_⟩
        simp [renameOf, h1, h2]
    · rintro (hx | ⟨e0, he0, rfl⟩)
      · exact Or.inl hx
      · obtain ⟨a, b, h1, h2⟩ := hall e0 he0
        refine Or.inr ⟨e0, he0, a, b, h1, h2, ?_⟩
        simp [renameOf, h1, h2]
  · intro b hb
    obtain ⟨n, hn, hge, _⟩ := V.inside b hb
    simp [renameOf, hn, hge]
  · intro b1 h1 b2 h2 heq
    have l1 := hlook b1 h1
    have l2 := hlook b2 h2
    rw [heq] at l1
    exact V.inj b1 h1 b2 h2 _ l1 l2

end Falcon.C15
