/-
  FalconProofs.C15.MergeTotal — on a well-formed graph `merge` returns `Ok`: the selection loop does not panic,
  every merge step of a valid pair succeeds (no duplicate edge, all vertices present), every round that merges
  something removes a block, so `blocks.length + 1` rounds suffice.
-/
import FalconProofs.C15.MergeRound

namespace Falcon.C15
open Falcon Falcon.CfgEdit

theorem block_of_hasBlock {c : Cfg} {i : Nat} (h : c.hasBlock i = true) : ∃ b, c.block i = some b := by
  cases hb : c.block i with
  | some b => exact ⟨b, rfl⟩
  | none =>
    unfold Cfg.block at hb
    have := List.find?_eq_none.mp hb
    obtain ⟨x, hx, hxi⟩ := (hasBlock_iff c i).mp h
    exact absurd (by simpa using hxi) (this x hx)

theorem collect_ok {c : Cfg} (hw : WF c) (bs : List Block) (being : List Nat) :
    ∃ ms, collect c bs being = .ok ms := by
  induction bs generalizing being with
  | nil => exact ⟨[], rfl⟩
  | cons b bs ih =>
    unfold collect
    split
    · exact ih _
    · split
      · rename_i e hout
        split
        · exact ih _
        · dsimp only
          split
          · exact ih _
          · split
            · exact ih _
            · split
              · exact ih _
              · split
                · rename_i hno
                  have hemem : e ∈ c.edgesOut b.index := by rw [hout]; exact List.mem_singleton.mpr rfl
                  have := (hw.edgesJoin e (List.mem_filter.mp hemem).1).2
                  simp [this] at hno
                · split
                  · exact ih _
                  · obtain ⟨r, hr⟩ := ih (b.index :: e.tail :: being)
                    exact ⟨_, by rw [hr]; rfl⟩
      · exact ih _

theorem insertEdges_total {c : Cfg} (es : List Edge) (hn : (es.map edgeKey).Nodup)
    (hes : ∀ e ∈ es, edgeKey e ∉ c.edges.map edgeKey ∧ c.hasBlock e.head = true ∧ c.hasBlock e.tail = true) :
    ∃ c', insertEdges c es = ⟨c', .ok ()⟩ := by
  induction es generalizing c with
  | nil => exact ⟨c, rfl⟩
  | cons e es ih =>
    rw [List.map_cons, List.nodup_cons] at hn
    obtain ⟨hk, hh, ht⟩ := hes e List.mem_cons_self
    have hne : hasEdge c e.head e.tail = false := by
      cases hx : hasEdge c e.head e.tail with
      | false => rfl
      | true => exact absurd ((hasEdge_iff c _ _).mp hx) hk
    have hie : insertEdge c e = .ok { c with edges := insertEdgeSorted e c.edges } := by
      simp [insertEdge, hne, hh, ht]
    unfold insertEdges
    rw [hie]
    apply ih hn.2
    intro x hx
    obtain ⟨hk', hh', ht'⟩ := hes x (List.mem_cons_of_mem _ hx)
    refine ⟨?_, hh', ht'⟩
    intro hmem
    obtain ⟨y, hy, hyk⟩ := List.mem_map.mp hmem
    rcases mem_insertEdgeSorted.mp hy with rfl | hy
    · exact hn.1 (by rw [hyk]; exact List.mem_map.mpr ⟨x, hx, rfl⟩)
    · exact hk' (List.mem_map.mpr ⟨y, hy, hyk⟩)

theorem mergeStep_total {c : Cfg} {m s : Nat} (hw : WF c) (hv : ValidPair c m s) :
    ∃ c', mergeStep c m s = ⟨c', .ok ()⟩ := by
  obtain ⟨e0, he0, he0h, he0t, he0c, huniq⟩ := hv.out
  have hhm : c.hasBlock m = true := by rw [← he0h]; exact (hw.edgesJoin e0 he0).1
  have hhs : c.hasBlock s = true := by rw [← he0t]; exact (hw.edgesJoin e0 he0).2
  obtain ⟨sb, hsb⟩ := block_of_hasBlock hhs
  obtain ⟨mb, hmb⟩ := block_of_hasBlock hhm
  unfold mergeStep
  rw [hsb, hmb]
  dsimp only
  generalize hc1 : setBlock c (blockAppend mb sb) = c1
  have hc1e : c1.edges = c.edges := by rw [← hc1]; rfl
  have hc1h : ∀ i, c1.hasBlock i = c.hasBlock i := by intro i; rw [← hc1]; exact hasBlock_setBlock _ _ _
  have hout : ∀ e1, e1 ∈ c1.edgesOut s ↔ e1 ∈ c.edges ∧ e1.head = s := by
    intro e1; simp [Cfg.edgesOut, hc1e]
  have htot : ∃ c2, insertEdges c1 ((c1.edgesOut s).map (fun e => ({ head := m, tail := e.tail, cond := e.cond } : Edge)))
      = ⟨c2, .ok ()⟩ := by
    apply insertEdges_total
    · -- distinct out-edges of `s` have distinct tails
      rw [List.map_map]
      have hnd : ((c1.edgesOut s).map edgeKey).Nodup := by
        have : (c1.edgesOut s).Sublist c.edges := by
          unfold Cfg.edgesOut; rw [hc1e]; exact List.filter_sublist
        exact hw.edgesNodup.sublist (this.map _)
      unfold List.Nodup at hnd ⊢
      rw [List.pairwise_map] at hnd ⊢
      refine hnd.imp_of_mem ?_
      intro a b ha hb hab heq
      apply hab
      simp only [Function.comp, edgeKey, Prod.mk.injEq, true_and] at heq
      simp only [edgeKey, Prod.mk.injEq]
      exact ⟨((hout a).mp ha).2.trans ((hout b).mp hb).2.symm, heq⟩
    · intro e he
      obtain ⟨e1, he1, rfl⟩ := List.mem_map.mp he
      obtain ⟨he1c, he1h⟩ := (hout e1).mp he1
      refine ⟨?_, ?_, ?_⟩
      · intro hmem
        rw [hc1e] at hmem
        obtain ⟨y, hy, hyk⟩ := List.mem_map.mp hmem
        simp only [edgeKey, Prod.mk.injEq] at hyk
        have := huniq y hy hyk.1
        have hts : e1.tail = s := by rw [← hyk.2, this, he0t]
        exact hv.ne ((hv.soleIn e1 he1c hts).symm.trans he1h)
      · rw [hc1h]; exact hhm
      · rw [hc1h]; exact (hw.edgesJoin e1 he1c).2
  obtain ⟨c2, hc2⟩ := htot
  rw [hc2]
  dsimp only
  obtain ⟨_, hf⟩ := insertEdges_ok hc2
  have : c2.hasBlock s = true := by rw [hf.hasBlock, hc1h]; exact hhs
  simp only [removeVertex, this, Bool.not_true, Bool.false_eq_true, if_false]
  exact ⟨_, rfl⟩

theorem mergeStep_shrinks {c c' : Cfg} {m s : Nat} (hms : m ≠ s) (h : mergeStep c m s = ⟨c', .ok ()⟩) :
    c'.blocks.length < c.blocks.length := by
  obtain ⟨mb, sb, hV⟩ := mergeStep_view hms h
  -- c'.blocks is, up to the replaced block, a sub-multiset of c.blocks without the block `s`
  unfold mergeStep at h
  split at h
  · simp at h
  · rename_i sb' hsb
    split at h
    · simp at h
    · rename_i mb' hmb
      dsimp only at h
      split at h
      · rename_i c2 hie
        obtain ⟨_, hf⟩ := insertEdges_ok hie
        split at h
        · rename_i c3 hrv
          obtain ⟨_, hc3⟩ := removeVertex_ok hrv
          simp only [Step.mk.injEq, and_true] at h
          have hb3 : c'.blocks = c3.blocks := by rw [← h]; split <;> rfl
          rw [hb3, hc3]
          show (c2.blocks.filter (fun b => b.index != s)).length < _
          rw [hf.blocks]
          have hlen : (setBlock c (blockAppend mb' sb')).blocks.length = c.blocks.length := by
            simp [setBlock]
          rw [← hlen]
          apply List.length_filter_lt_length_iff_exists.mpr
          obtain ⟨hsbm, hsbi⟩ := block_some hsb
          obtain ⟨_, hmbi⟩ := block_some hmb
          refine ⟨sb', ?_, by simp [hsbi]⟩
          simp only [setBlock, List.mem_map]
          refine ⟨sb', hsbm, ?_⟩
          have : (blockAppend mb' sb').index = m := by
            rw [show (blockAppend mb' sb').index = mb'.index from appendInstrs_index _ _, hmbi]
          rw [this, hsbi]
          have : (s == m) = false := by simpa using fun h => hms h.symm
          simp [this]
        · simp at h
        · simp at h
      · simp at h
      · simp at h

theorem applyMerges_total {c : Cfg} (ms : List (Nat × Nat)) (hw : WF c)
    (hv : ∀ p ∈ ms, ValidPair c p.1 p.2) (hd : DisjointPairs ms) :
    ∃ c', applyMerges c ms = ⟨c', .ok ()⟩ ∧ WF c' ∧ c'.blocks.length + ms.length ≤ c.blocks.length := by
  induction ms generalizing c with
  | nil => exact ⟨c, rfl, hw, by simp⟩
  | cons p rest ih =>
    obtain ⟨m, s⟩ := p
    have hvp := hv (m, s) List.mem_cons_self
    obtain ⟨c1, hstep⟩ := mergeStep_total hw hvp
    obtain ⟨mb, sb, hV⟩ := mergeStep_view hvp.ne hstep
    have hw1 : WF c1 := by
      have := (mergeStep_wf (m := m) (s := s) hw hvp.entry hvp.ne).1
      rw [hstep] at this; exact this
    have hd' := List.pairwise_cons.mp hd
    have hv1 : ∀ q ∈ rest, ValidPair c1 q.1 q.2 := fun q hq =>
      validPair_preserved hV (hv q (List.mem_cons_of_mem _ hq)) (hd'.1 q hq)
    obtain ⟨c', happ, hw', hlen⟩ := ih hw1 hv1 hd'.2
    refine ⟨c', ?_, hw', ?_⟩
    · unfold applyMerges; rw [hstep]; exact happ
    · have := mergeStep_shrinks hvp.ne hstep
      simp only [List.length_cons]; omega

theorem mergeLoop_total (fuel : Nat) {c : Cfg} (hw : WF c) (hf : c.blocks.length < fuel) :
    (mergeLoop fuel c).res = .ok () := by
  induction fuel generalizing c with
  | zero => omega
  | succ n ih =>
    obtain ⟨ms, hc⟩ := collect_ok hw c.blocks []
    unfold mergeLoop
    rw [hc]
    cases ms with
    | nil => rfl
    | cons p rest =>
      obtain ⟨hall, hdis⟩ := collect_valid _ _ _ hc
      obtain ⟨c', happ, hw', hlen⟩ := applyMerges_total (p :: rest) hw (fun q hq => (hall q hq).1) hdis
      dsimp only
      rw [happ]
      dsimp only
      apply ih hw'
      simp only [List.length_cons] at hlen
      omega

theorem merge_total {c : Cfg} (hw : WF c) : (merge c).res = .ok () :=
  mergeLoop_total _ hw (Nat.lt_succ_self _)

end Falcon.C15
