/-
  FalconProofs.C15.Basic — the container operations (insert_vertex, insert_edge, remove_vertex, block
  replacement) and the block operations preserve the well-formedness invariant `WF`.
-/
import FalconModel.CfgEdit

namespace Falcon.C15
open Falcon Falcon.CfgEdit

theorem hasBlock_iff (c : Cfg) (i : Nat) : c.hasBlock i = true ↔ ∃ b ∈ c.blocks, b.index = i := by
  simp [Cfg.hasBlock, List.any_eq_true]

theorem hasBlock_iff_mem (c : Cfg) (i : Nat) : c.hasBlock i = true ↔ i ∈ c.blocks.map (·.index) := by
  simp [hasBlock_iff]

theorem hasEdge_iff (c : Cfg) (h t : Nat) : hasEdge c h t = true ↔ (h, t) ∈ c.edges.map edgeKey := by
  simp only [hasEdge, List.any_eq_true, List.mem_map, edgeKey, Prod.mk.injEq, Bool.and_eq_true, beq_iff_eq]

theorem insertBlockSorted_perm (b : Block) (l : List Block) : (insertBlockSorted b l).Perm (b :: l) := by
  induction l with
  | nil => exact List.Perm.refl _
  | cons x xs ih =>
    unfold insertBlockSorted
    split
    · exact List.Perm.refl _
    · exact (List.Perm.cons x ih).trans (List.Perm.swap b x xs)

theorem insertEdgeSorted_perm (e : Edge) (l : List Edge) : (insertEdgeSorted e l).Perm (e :: l) := by
  induction l with
  | nil => exact List.Perm.refl _
  | cons x xs ih =>
    unfold insertEdgeSorted
    split
    · exact List.Perm.refl _
    · exact (List.Perm.cons x ih).trans (List.Perm.swap e x xs)

theorem mem_insertBlockSorted {b x : Block} {l : List Block} : x ∈ insertBlockSorted b l ↔ x = b ∨ x ∈ l := by
  rw [(insertBlockSorted_perm b l).mem_iff]; simp

theorem mem_insertEdgeSorted {e x : Edge} {l : List Edge} : x ∈ insertEdgeSorted e l ↔ x = e ∨ x ∈ l := by
  rw [(insertEdgeSorted_perm e l).mem_iff]; simp

-- ------------------------------------------------------------------------------------------------
-- frame facts: what a container call leaves untouched

theorem insertVertex_ok {c c' : Cfg} {b : Block} (h : insertVertex c b = .ok c') :
    c.hasBlock b.index = false ∧ c' = { c with blocks := insertBlockSorted b c.blocks } := by
  unfold insertVertex at h
  split at h
  · cases h
  · rename_i hn
    simp only [Res.ok.injEq] at h
    exact ⟨by simpa using hn, h.symm⟩

theorem insertEdge_ok {c c' : Cfg} {e : Edge} (h : insertEdge c e = .ok c') :
    hasEdge c e.head e.tail = false ∧ c.hasBlock e.head = true ∧ c.hasBlock e.tail = true ∧
      c' = { c with edges := insertEdgeSorted e c.edges } := by
  unfold insertEdge at h
  split at h
  · cases h
  · rename_i h1
    split at h
    · cases h
    · rename_i h2
      split at h
      · cases h
      · rename_i h3
        simp only [Res.ok.injEq] at h
        exact ⟨by simpa using h1, by simpa using h2, by simpa using h3, h.symm⟩

theorem removeVertex_ok {c c' : Cfg} {i : Nat} (h : removeVertex c i = .ok c') :
    c.hasBlock i = true ∧
      c' = { c with blocks := c.blocks.filter (fun b => b.index != i),
                    edges := c.edges.filter (fun e => e.head != i && e.tail != i) } := by
  unfold removeVertex at h
  split at h
  · cases h
  · rename_i hn
    simp only [Res.ok.injEq] at h
    exact ⟨by simpa using hn, h.symm⟩

-- ------------------------------------------------------------------------------------------------
-- WF preservation

theorem wf_insertVertex {c c' : Cfg} {b : Block} (hw : WF c) (h : insertVertex c b = .ok c')
    (hb : BlockWF b) (hi : b.index < c.nextIndex) : WF c' := by
  obtain ⟨hn, rfl⟩ := insertVertex_ok h
  have hmono : ∀ i, c.hasBlock i = true →
      Cfg.hasBlock { c with blocks := insertBlockSorted b c.blocks } i = true := by
    intro i hi
    rw [hasBlock_iff] at hi ⊢
    obtain ⟨x, hx, rfl⟩ := hi
    exact ⟨x, mem_insertBlockSorted.mpr (Or.inr hx), rfl⟩
  refine ⟨?_, hw.edgesNodup, ?_, ?_, ?_, ?_, ?_⟩
  · have hp := (insertBlockSorted_perm b c.blocks).map (·.index)
    show (List.map (·.index) (insertBlockSorted b c.blocks)).Nodup
    rw [hp.nodup_iff, List.map_cons, List.nodup_cons]
    refine ⟨?_, hw.blocksNodup⟩
    intro hmem
    rw [← hasBlock_iff_mem, hn] at hmem
    cases hmem
  · intro e he
    exact ⟨hmono _ (hw.edgesJoin e he).1, hmono _ (hw.edgesJoin e he).2⟩
  · intro x hx
    rcases mem_insertBlockSorted.mp hx with rfl | hx
    · exact hi
    · exact hw.indexLt x hx
  · intro x hx
    rcases mem_insertBlockSorted.mp hx with rfl | hx
    · exact hb
    · exact hw.blocksWF x hx
  · intro i he; exact hmono _ (hw.entryOk i he)
  · intro i he; exact hmono _ (hw.exitOk i he)

theorem wf_insertEdge {c c' : Cfg} {e : Edge} (hw : WF c) (h : insertEdge c e = .ok c') : WF c' := by
  obtain ⟨hn, hh, ht, rfl⟩ := insertEdge_ok h
  refine ⟨hw.blocksNodup, ?_, ?_, hw.indexLt, hw.blocksWF, hw.entryOk, hw.exitOk⟩
  · have hp := (insertEdgeSorted_perm e c.edges).map edgeKey
    show (List.map edgeKey (insertEdgeSorted e c.edges)).Nodup
    rw [hp.nodup_iff, List.map_cons, List.nodup_cons]
    refine ⟨?_, hw.edgesNodup⟩
    intro hmem
    have : hasEdge c e.head e.tail = true := (hasEdge_iff c _ _).mpr hmem
    rw [hn] at this; cases this
  · intro x hx
    rcases mem_insertEdgeSorted.mp hx with rfl | hx
    · exact ⟨hh, ht⟩
    · exact hw.edgesJoin x hx

/-- `remove_vertex` keeps everything except possibly the validity of entry / exit -/
theorem wf_removeVertex {c c' : Cfg} {i : Nat} (hw : WF c) (h : removeVertex c i = .ok c')
    (hen : c.entry ≠ some i) (hex : c.exit ≠ some i) : WF c' := by
  obtain ⟨_, rfl⟩ := removeVertex_ok h
  have hkeep : ∀ j, j ≠ i → c.hasBlock j = true →
      Cfg.hasBlock { c with blocks := c.blocks.filter (fun b => b.index != i),
                            edges := c.edges.filter (fun e => e.head != i && e.tail != i) } j = true := by
    intro j hj hb
    rw [hasBlock_iff] at hb ⊢
    obtain ⟨x, hx, rfl⟩ := hb
    exact ⟨x, List.mem_filter.mpr ⟨hx, by simpa using hj⟩, rfl⟩
  refine ⟨?_, ?_, ?_, ?_, ?_, ?_, ?_⟩
  · exact hw.blocksNodup.sublist ((List.filter_sublist).map _)
  · exact hw.edgesNodup.sublist ((List.filter_sublist).map _)
  · intro e he
    obtain ⟨he, hne⟩ := List.mem_filter.mp he
    simp only [Bool.and_eq_true, bne_iff_ne, ne_eq] at hne
    exact ⟨hkeep _ hne.1 (hw.edgesJoin e he).1, hkeep _ hne.2 (hw.edgesJoin e he).2⟩
  · intro x hx; exact hw.indexLt x (List.mem_filter.mp hx).1
  · intro x hx; exact hw.blocksWF x (List.mem_filter.mp hx).1
  · intro j he
    exact hkeep j (fun hji => hen (by rw [← hji]; exact he)) (hw.entryOk j he)
  · intro j he
    exact hkeep j (fun hji => hex (by rw [← hji]; exact he)) (hw.exitOk j he)

theorem setBlock_map_index (c : Cfg) (b : Block) :
    (setBlock c b).blocks.map (·.index) = c.blocks.map (·.index) := by
  simp only [setBlock, List.map_map]
  apply List.map_congr_left
  intro x _
  simp only [Function.comp]
  split
  · rename_i h; simpa using (beq_iff_eq.mp h).symm
  · rfl

theorem hasBlock_setBlock (c : Cfg) (b : Block) (i : Nat) : (setBlock c b).hasBlock i = c.hasBlock i := by
  rw [Bool.eq_iff_iff, hasBlock_iff_mem, hasBlock_iff_mem, setBlock_map_index]

theorem mem_setBlock {c : Cfg} {b x : Block} (hx : x ∈ (setBlock c b).blocks) :
    x = b ∨ (x ∈ c.blocks ∧ x.index ≠ b.index) := by
  simp only [setBlock, List.mem_map] at hx
  obtain ⟨y, hy, rfl⟩ := hx
  split
  · exact Or.inl rfl
  · rename_i h; exact Or.inr ⟨hy, by simpa using h⟩

theorem wf_setBlock {c : Cfg} {b : Block} (hw : WF c) (hb : BlockWF b) (hi : c.hasBlock b.index = true) :
    WF (setBlock c b) := by
  obtain ⟨o, ho, hoi⟩ := (hasBlock_iff c _).mp hi
  refine ⟨?_, hw.edgesNodup, ?_, ?_, ?_, ?_, ?_⟩
  · rw [setBlock_map_index]; exact hw.blocksNodup
  · intro e he
    rw [hasBlock_setBlock, hasBlock_setBlock]
    exact hw.edgesJoin e he
  · intro x hx
    rcases mem_setBlock hx with rfl | ⟨hx, _⟩
    · show x.index < c.nextIndex
      rw [← hoi]; exact hw.indexLt o ho
    · exact hw.indexLt x hx
  · intro x hx
    rcases mem_setBlock hx with rfl | ⟨hx, _⟩
    · exact hb
    · exact hw.blocksWF x hx
  · intro i he; rw [hasBlock_setBlock]; exact hw.entryOk i he
  · intro i he; rw [hasBlock_setBlock]; exact hw.exitOk i he

theorem block_some {c : Cfg} {i : Nat} {b : Block} (h : c.block i = some b) : b ∈ c.blocks ∧ b.index = i := by
  unfold Cfg.block at h
  exact ⟨List.mem_of_find?_eq_some h, by simpa using List.find?_some h⟩

-- ------------------------------------------------------------------------------------------------
-- blocks

theorem blockWF_pushRaw {b : Block} (hb : BlockWF b) (i : Instr) :
    BlockWF { b with nextInstr := b.nextInstr + 1, instrs := b.instrs ++ [{ i with index := b.nextInstr }] } := by
  obtain ⟨hn, hl⟩ := hb
  constructor
  · simp only [List.map_append, List.map_cons, List.map_nil]
    rw [List.nodup_append]
    refine ⟨hn, by simp, ?_⟩
    intro a ha x hx
    simp only [List.mem_singleton] at hx
    subst hx
    obtain ⟨y, hy, rfl⟩ := List.mem_map.mp ha
    exact Nat.ne_of_lt (hl y hy)
  · intro x hx
    rcases List.mem_append.mp hx with hx | hx
    · exact Nat.lt_succ_of_lt (hl x hx)
    · simp only [List.mem_singleton] at hx
      subst hx
      exact Nat.lt_succ_self _

theorem blockWF_push {b : Block} (hb : BlockWF b) (op : Op) : BlockWF (blockPush b op) :=
  blockWF_pushRaw hb { index := 0, op := op }

theorem blockWF_appendInstrs {b : Block} (hb : BlockWF b) (is : List Instr) : BlockWF (appendInstrs b is) := by
  induction is generalizing b with
  | nil => exact hb
  | cons i is ih => exact ih (blockWF_pushRaw hb i)

theorem appendInstrs_index (b : Block) (is : List Instr) : (appendInstrs b is).index = b.index := by
  induction is generalizing b with
  | nil => rfl
  | cons i is ih => rw [appendInstrs, ih]

theorem blockWF_remove {b b' : Block} {idx : Nat} (hb : BlockWF b) (h : blockRemoveInstruction b idx = .ok b') :
    BlockWF b' ∧ b'.index = b.index := by
  unfold blockRemoveInstruction at h
  split at h
  · simp only [Res.ok.injEq] at h
    subst h
    refine ⟨⟨?_, ?_⟩, rfl⟩
    · exact hb.1.sublist ((List.eraseIdx_sublist _ _).map _)
    · intro x hx
      exact hb.2 x ((List.eraseIdx_sublist _ _).subset hx)
  · cases h

end Falcon.C15
