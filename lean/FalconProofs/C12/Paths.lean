/-
  FalconProofs.C12.Paths — the path arguments behind the property theorems (pure list / graph reasoning, no
  executions), and the meaning of the four checks.
-/
import FalconProofs.C12.Tables

namespace Falcon
namespace RD

/-- the last writer splits the trace: nothing after it writes `x` -/
theorem lastWriter_split (f : Function) (x : Scalar) (tr : List Loc) (d : Loc)
    (h : lastWriter f x tr = some d) :
    ∃ p1 p2, tr = p1 ++ d :: p2 ∧ writes f d x = true ∧ ∀ q ∈ p2, writes f q x = false := by
  unfold lastWriter at h
  rw [List.find?_eq_some_iff_append] at h
  obtain ⟨hw, as, bs, heq, hno⟩ := h
  refine ⟨bs.reverse, as.reverse, ?_, hw, ?_⟩
  · have := congrArg List.reverse heq
    simpa using this
  · intro q hq
    have := hno q (List.mem_reverse.1 hq)
    simpa using this

/-- everything on a path from the entry location is reachable from the entry location -/
theorem mem_path_reachable (f : Function) (full : List Loc) (hpath : IsPath (succ f) full)
    (hhead : ∀ h, full.head? = some h → h ∈ entryLoc f) (u : Loc) (hu : u ∈ full) :
    ∃ e ∈ entryLoc f, Reaches (succ f) e u := by
  cases full with
  | nil => cases hu
  | cons h rest => exact ⟨h, hhead h rfl, reaches_of_isPath hpath u hu⟩

theorem reaches_noW_iff (f : Function) (x : Scalar) (d l : Loc) :
    Reaches (succNoW f x) d l ↔
      ∃ p : List Loc, IsPath (succ f) (d :: p) ∧ (d :: p).getLast? = some l ∧ ∀ q ∈ p, writes f q x = false := by
  have : succNoW f x = fun v => (succ f v).filter (fun l' => !writes f l' x) := rfl
  rw [this, reaches_iff_path]
  constructor
  · rintro ⟨p, hp, hl⟩
    obtain ⟨h1, h2⟩ := isPath_filter_iff.1 hp
    exact ⟨p, h1, hl, fun q hq => by simpa using h2 q hq⟩
  · rintro ⟨p, h1, hl, h2⟩
    exact ⟨p, isPath_filter_iff.2 ⟨h1, fun q hq => by simpa using h2 q hq⟩, hl⟩

theorem reaches_noDef_iff (f : Function) (x : Scalar) (d l : Loc) :
    Reaches (succNoDef f x) d l ↔
      ∃ p : List Loc, IsPath (succ f) (d :: p) ∧ (d :: p).getLast? = some l ∧ ∀ q ∈ p, isDef f q x = false := by
  have : succNoDef f x = fun v => (succ f v).filter (fun l' => !isDef f l' x) := rfl
  rw [this, reaches_iff_path]
  constructor
  · rintro ⟨p, hp, hl⟩
    obtain ⟨h1, h2⟩ := isPath_filter_iff.1 hp
    exact ⟨p, h1, hl, fun q hq => by simpa using h2 q hq⟩
  · rintro ⟨p, h1, hl, h2⟩
    exact ⟨p, isPath_filter_iff.2 ⟨h1, fun q hq => by simpa using h2 q hq⟩, hl⟩

/-- **the path argument**: on a path from the entry location, at the moment `l` has been executed, the last
    writer `d` of `x` is reachable from the entry, writes `x`, and reaches `l` with no later writer of `x` -/
theorem lastWriter_path (f : Function) (full : List Loc) (hpath : IsPath (succ f) full)
    (hhead : ∀ h, full.head? = some h → h ∈ entryLoc f)
    (pre : List Loc) (l : Loc) (post : List Loc) (hsplit : full = pre ++ l :: post)
    (x : Scalar) (d : Loc) (hd : lastWriter f x (pre ++ [l]) = some d) :
    (∃ e ∈ entryLoc f, Reaches (succ f) e d) ∧ x ∈ writtenBy f d ∧ Reaches (succNoW f x) d l := by
  obtain ⟨p1, p2, heq, hw, hno⟩ := lastWriter_split f x _ d hd
  have hfull : full = (p1 ++ d :: p2) ++ post := by
    rw [hsplit, ← heq]; simp
  refine ⟨?_, by simpa [writes] using hw, ?_⟩
  · apply mem_path_reachable f full hpath hhead d
    rw [hfull]; simp
  · rw [reaches_noW_iff]
    refine ⟨p2, ?_, ?_, hno⟩
    · rw [hfull] at hpath
      exact isPath_append_right (isPath_append_left hpath)
    · have := congrArg List.getLast? heq
      rw [List.getLast?_append, List.getLast?_append] at this
      simpa using this.symm

theorem exists_concat_of_ne_nil {β : Type} (l : List β) (h : l ≠ []) : ∃ L b, l = L ++ [b] := by
  induction l with
  | nil => exact absurd rfl h
  | cons a l ih =>
    cases l with
    | nil => exact ⟨[], a, rfl⟩
    | cons c l =>
      obtain ⟨L, b, hL⟩ := ih (by simp)
      exact ⟨a :: L, b, by rw [hL]; rfl⟩

/-- the use-def version: the last writer before `u` executes is in `useDefMust` -/
theorem useDef_path (f : Function) (T : Tables) (hT : tables f = some T)
    (full : List Loc) (hpath : IsPath (succ f) full)
    (hhead : ∀ h, full.head? = some h → h ∈ entryLoc f)
    (pre : List Loc) (u : Loc) (post : List Loc) (hsplit : full = pre ++ u :: post)
    (x : Scalar) (hx : x ∈ readBy f u) (d : Loc) (hd : lastWriter f x pre = some d) :
    d ∈ useDefMust T f u := by
  have hne : pre ≠ [] := by
    intro h
    rw [h] at hd
    simp [lastWriter] at hd
  obtain ⟨pre', p, hpre⟩ := exists_concat_of_ne_nil pre hne
  subst hpre
  have hsplit' : full = pre' ++ p :: (u :: post) := by rw [hsplit]; simp
  obtain ⟨h1, h2, h3⟩ := lastWriter_path f full hpath hhead pre' p (u :: post) hsplit' x d hd
  have hmust : d ∈ mustInclude T p x := (tables_must hT p x d).2 ⟨(tables_reach hT d).2 h1, h2, h3⟩
  have hp : p ∈ T.reach := (tables_reach hT p).2
    (mem_path_reachable f full hpath hhead p (by rw [hsplit']; simp))
  have hsucc : u ∈ succ f p := by
    rw [hsplit'] at hpath
    exact (isPath_append_right hpath).1
  unfold useDefMust
  rw [List.mem_flatMap]
  refine ⟨x, hx, ?_⟩
  rw [List.mem_flatMap]
  refine ⟨p, ?_, hmust⟩
  unfold predsOf
  rw [List.mem_filter]
  exact ⟨hp, by simpa using hsucc⟩

/-! ### the checks -/

theorem mem_of_mem_get (r : Rel) (l d : Loc) (h : d ∈ r.get l) : ∃ s, (l, s) ∈ r ∧ d ∈ s := by
  unfold Rel.get at h
  induction r with
  | nil => simp [List.lookup] at h
  | cons e r ih =>
    obtain ⟨k, v⟩ := e
    unfold List.lookup at h
    by_cases hk : l == k
    · simp only [hk] at h
      have : l = k := by simpa using hk
      subst this
      exact ⟨v, List.mem_cons_self .., by simpa using h⟩
    · simp only [hk] at h
      obtain ⟨s, hs, hd⟩ := ih h
      exact ⟨s, List.mem_cons_of_mem _ hs, hd⟩

theorem get_of_key (r : Rel) (l : Loc) (s : List Loc) (h : (l, s) ∈ r) : ∃ s', (l, s') ∈ r ∧ r.get l = s' := by
  induction r with
  | nil => cases h
  | cons e r ih =>
    obtain ⟨k, v⟩ := e
    by_cases hk : l == k
    · have : l = k := by simpa using hk
      subst this
      exact ⟨v, List.mem_cons_self .., by simp [Rel.get, List.lookup]⟩
    · rcases List.mem_cons.1 h with h | h
      · cases h
        simp at hk
      · obtain ⟨s', hs', hg⟩ := ih h
        refine ⟨s', List.mem_cons_of_mem _ hs', ?_⟩
        simp only [Rel.get, List.lookup, hk] at hg ⊢
        exact hg

theorem checkMust_sound (T : Tables) (rd : Rel) (h : checkMust T rd = none)
    (l : Loc) (x : Scalar) (d : Loc) (hd : d ∈ mustInclude T l x) : d ∈ rd.get l := by
  unfold mustInclude at hd
  obtain ⟨s, hmem, hl⟩ := (mem_select _ l x d).1 hd
  unfold checkMust at h
  rw [List.findSome?_eq_none_iff] at h
  have := h _ hmem
  simp only [Option.map_eq_none_iff, List.find?_eq_none] at this
  have := this l hl
  simpa using this

theorem checkMay_sound (T : Tables) (f : Function) (rd : Rel) (h : checkMay T f rd = none)
    (l d : Loc) (x : Scalar) (hd : d ∈ rd.get l) (hx : defOf f d = some x) : d ∈ mayInclude T l x := by
  obtain ⟨s, hmem, hds⟩ := mem_of_mem_get rd l d hd
  unfold checkMay at h
  rw [List.findSome?_eq_none_iff] at h
  have := h _ hmem
  simp only [Option.map_eq_none_iff, List.find?_eq_none] at this
  have := this d hds
  simpa [hx] using this

theorem checkUseDef_sound (T : Tables) (f : Function) (ud : Rel) (h : checkUseDef T f ud = none)
    (u : Loc) (hu : u ∈ T.reach) (d : Loc) (hd : d ∈ useDefMust T f u) : d ∈ ud.get u := by
  unfold checkUseDef at h
  rw [List.findSome?_eq_none_iff] at h
  have := h _ hu
  simp only [Option.map_eq_none_iff, List.find?_eq_none] at this
  have := this d hd
  simpa using this

theorem half_none_iff (a b : Rel) :
    a.findSome? (fun e => ((a.get e.1).find? (fun d => !decide (e.1 ∈ b.get d))).map (fun d => (d, e.1))) = none ↔
      ∀ u d, d ∈ a.get u → u ∈ b.get d := by
  rw [List.findSome?_eq_none_iff]
  simp only [Option.map_eq_none_iff, List.find?_eq_none]
  constructor
  · intro h u d hd
    obtain ⟨s, hs, _⟩ := mem_of_mem_get a u d hd
    have := h _ hs d hd
    simpa using this
  · intro h e _ d hd
    simpa using h e.1 d hd

theorem half_none_iff' (a b : Rel) :
    a.findSome? (fun e => ((a.get e.1).find? (fun d => !decide (e.1 ∈ b.get d))).map (fun d => (e.1, d))) = none ↔
      ∀ u d, d ∈ a.get u → u ∈ b.get d := by
  rw [List.findSome?_eq_none_iff]
  simp only [Option.map_eq_none_iff, List.find?_eq_none]
  constructor
  · intro h u d hd
    obtain ⟨s, hs, _⟩ := mem_of_mem_get a u d hd
    have := h _ hs d hd
    simpa using this
  · intro h e _ d hd
    simpa using h e.1 d hd

theorem checkInverse_iff (ud du : Rel) :
    checkInverse ud du = none ↔ ∀ d u, u ∈ du.get d ↔ d ∈ ud.get u := by
  unfold checkInverse
  constructor
  · intro h
    split at h
    · cases h
    · rename_i h1
      have a := (half_none_iff ud du).1 h1
      have b := (half_none_iff' du ud).1 h
      exact fun d u => ⟨b d u, a u d⟩
  · intro h
    have h1 := (half_none_iff ud du).2 (fun u d hd => (h d u).2 hd)
    have h2 := (half_none_iff' du ud).2 (fun d u hu => (h d u).1 hu)
    rw [h1]
    exact h2

end RD
end Falcon
