/-
  FalconProofs.C12.Tables — what the tables computed by `tables f` contain: `T.reach` is reachability from
  the entry, `mustInclude` / `mayInclude` are the path definitions.
-/
import FalconProofs.C12.Reach

namespace Falcon
namespace RD

theorem tables_some {f : Function} {T : Tables} (h : tables f = some T) :
    reachable f = some T.reach ∧ buildM (flows f) (mustKeys f T.reach) = some T.must ∧
      buildM (mayFlows f) (mayKeys f) = some T.may := by
  unfold tables at h
  split at h
  · cases h
  · rename_i r hr
    split at h
    · rename_i mu ma hmu hma
      simp only [Option.some.injEq] at h
      subst h
      exact ⟨hr, hmu, hma⟩
    · cases h

theorem mem_select (tab : List ((Loc × Scalar) × List Loc)) (l : Loc) (x : Scalar) (d : Loc) :
    d ∈ select tab l x ↔ ∃ s, ((d, x), s) ∈ tab ∧ l ∈ s := by
  unfold select
  simp only [List.mem_map, List.mem_filter, Bool.and_eq_true, decide_eq_true_eq]
  constructor
  · rintro ⟨⟨⟨d', x'⟩, s⟩, ⟨hmem, hx, hl⟩, hd⟩
    simp only at hx hd hl
    subst hx hd
    exact ⟨s, hmem, hl⟩
  · rintro ⟨s, hmem, hl⟩
    exact ⟨((d, x), s), ⟨hmem, rfl, hl⟩, rfl⟩

/-- `T.reach` is the set of locations reachable from the entry location -/
theorem tables_reach {f : Function} {T : Tables} (h : tables f = some T) (l : Loc) :
    l ∈ T.reach ↔ ∃ e ∈ entryLoc f, Reaches (succ f) e l :=
  reach_spec (succ f) (fuel f) (entryLoc f) T.reach (tables_some h).1 l

theorem mem_mustKeys (f : Function) (r : List Loc) (d : Loc) (x : Scalar) :
    (d, x) ∈ mustKeys f r ↔ d ∈ r ∧ x ∈ writtenBy f d := by
  unfold mustKeys
  simp only [List.mem_flatMap, List.mem_map]
  constructor
  · rintro ⟨d', hd', x', hx', heq⟩
    cases heq
    exact ⟨hd', hx'⟩
  · rintro ⟨h1, h2⟩
    exact ⟨d, h1, x, h2, rfl⟩

theorem buildM_total {κ β : Type} (g : κ → Option β) :
    ∀ (ks : List κ) (t : List (κ × β)), buildM g ks = some t → ∀ k ∈ ks, ∃ v, g k = some v := by
  intro ks
  induction ks with
  | nil => intro t _ k hk; cases hk
  | cons k0 ks ih =>
    intro t h k hk
    unfold buildM at h
    split at h
    · rename_i v0 r hv0 hr
      rcases List.mem_cons.1 hk with hk | hk
      · exact ⟨v0, hk ▸ hv0⟩
      · exact ih r hr k hk
    · cases h

/-- `mustInclude`: reachable writers of `x` that reach `l` with no later writer of `x` -/
theorem tables_must {f : Function} {T : Tables} (h : tables f = some T) (l : Loc) (x : Scalar) (d : Loc) :
    d ∈ mustInclude T l x ↔ d ∈ T.reach ∧ x ∈ writtenBy f d ∧ Reaches (succNoW f x) d l := by
  unfold mustInclude
  rw [mem_select]
  have hb := buildM_spec (flows f) _ _ (tables_some h).2.1
  constructor
  · rintro ⟨s, hmem, hl⟩
    obtain ⟨hk, hfl⟩ := (hb (d, x) s).1 hmem
    obtain ⟨h1, h2⟩ := (mem_mustKeys f T.reach d x).1 hk
    refine ⟨h1, h2, ?_⟩
    obtain ⟨r, hr, hreach⟩ := (reach_spec _ _ _ _ hfl l).1 hl
    simp only [List.mem_singleton] at hr
    subst hr
    exact hreach
  · rintro ⟨h1, h2, h3⟩
    have hk := (mem_mustKeys f T.reach d x).2 ⟨h1, h2⟩
    have : ∃ s, flows f (d, x) = some s := buildM_total _ _ _ (tables_some h).2.1 _ hk
    obtain ⟨s, hs⟩ := this
    refine ⟨s, (hb (d, x) s).2 ⟨hk, hs⟩, ?_⟩
    exact (reach_spec _ _ _ _ hs l).2 ⟨d, List.mem_singleton.2 rfl, h3⟩

/-- an assignment / load is one of the function's locations -/
theorem mem_allLocs_of_defOf {f : Function} {d : Loc} {x : Scalar} (h : defOf f d = some x) : d ∈ allLocs f := by
  cases d with
  | edge _ _ => simp [defOf] at h
  | empty _ => simp [defOf] at h
  | instr b p =>
    unfold defOf at h
    cases hi : instrAt f b p with
    | none => simp [hi] at h
    | some i =>
      unfold instrAt at hi
      cases hB : f.block b with
      | none => simp [hB] at hi
      | some B =>
        simp only [hB, Option.bind_some] at hi
        have hmem : B ∈ f.cfg.blocks := List.mem_of_find?_eq_some hB
        have hidx : B.index = b := by
          have := List.find?_some hB
          simpa using this
        have hp : p < B.instrs.length := (List.getElem?_eq_some_iff.1 hi).1
        unfold allLocs
        apply List.mem_append_left
        rw [List.mem_flatMap]
        refine ⟨B, hmem, ?_⟩
        unfold blockLocs
        have hne : B.instrs.isEmpty = false := by
          cases hl : B.instrs with
          | nil => simp [hl] at hp
          | cons _ _ => rfl
        simp only [hne, Bool.false_eq_true, if_false, List.mem_map, List.mem_range]
        exact ⟨p, hp, by rw [hidx]⟩

theorem mem_mayKeys (f : Function) (d : Loc) (x : Scalar) :
    (d, x) ∈ mayKeys f ↔ defOf f d = some x := by
  unfold mayKeys
  simp only [List.mem_filterMap, Option.map_eq_some_iff]
  constructor
  · rintro ⟨d', _, x', hx', heq⟩
    cases heq
    exact hx'
  · intro h
    exact ⟨d, mem_allLocs_of_defOf h, x, h, rfl⟩

/-- `mayInclude`: assignments / loads of `x` that reach `l` with no intervening assignment / load of `x` -/
theorem tables_may {f : Function} {T : Tables} (h : tables f = some T) (l : Loc) (x : Scalar) (d : Loc) :
    d ∈ mayInclude T l x ↔ defOf f d = some x ∧ Reaches (succNoDef f x) d l := by
  unfold mayInclude
  rw [mem_select]
  have hbm := (tables_some h).2.2
  have hb := buildM_spec (mayFlows f) _ _ hbm
  constructor
  · rintro ⟨s, hmem, hl⟩
    obtain ⟨hk, hfl⟩ := (hb (d, x) s).1 hmem
    refine ⟨(mem_mayKeys f d x).1 hk, ?_⟩
    obtain ⟨r, hr, hreach⟩ := (reach_spec _ _ _ _ hfl l).1 hl
    simp only [List.mem_singleton] at hr
    subst hr
    exact hreach
  · rintro ⟨h1, h3⟩
    have hk := (mem_mayKeys f d x).2 h1
    obtain ⟨s, hs⟩ := buildM_total _ _ _ hbm _ hk
    refine ⟨s, (hb (d, x) s).2 ⟨hk, hs⟩, ?_⟩
    exact (reach_spec _ _ _ _ hs l).2 ⟨d, List.mem_singleton.2 rfl, h3⟩

end RD
end Falcon
