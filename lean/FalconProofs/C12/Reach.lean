/-
  FalconProofs.C12.Reach — `reach` computes reachability (conditionally on answering), paths as lists,
  `buildM`.
-/
import FalconModel.ReachDefs

namespace Falcon
namespace RD

set_option linter.unusedSectionVars false

section
variable {α : Type} [DecidableEq α]

theorem mem_foldl_insertNew (bs acc : List α) (x : α) :
    x ∈ bs.foldl insertNew acc ↔ x ∈ acc ∨ x ∈ bs := by
  induction bs generalizing acc with
  | nil => simp
  | cons b bs ih =>
    rw [List.foldl_cons, ih]
    unfold insertNew
    by_cases h : b ∈ acc
    · simp only [h, if_true, List.mem_cons]
      constructor
      · rintro (h1 | h1)
        · exact Or.inl h1
        · exact Or.inr (Or.inr h1)
      · rintro (h1 | h1 | h1)
        · exact Or.inl h1
        · exact Or.inl (h1 ▸ h)
        · exact Or.inr h1
    · simp only [h, if_false, List.mem_cons]
      constructor
      · rintro ((h1 | h1) | h1)
        · exact Or.inr (Or.inl h1)
        · exact Or.inl h1
        · exact Or.inr (Or.inr h1)
      · rintro (h1 | h1 | h1)
        · exact Or.inl (Or.inr h1)
        · exact Or.inl (Or.inl h1)
        · exact Or.inr h1

theorem mem_grow (succ : α → List α) (vis : List α) (x : α) :
    x ∈ grow succ vis ↔ x ∈ vis ∨ ∃ a ∈ vis, x ∈ succ a := by
  unfold grow
  rw [mem_foldl_insertNew, List.mem_flatMap]

theorem closed_iff (succ : α → List α) (vis : List α) :
    closed succ vis = true ↔ ∀ a ∈ vis, ∀ b ∈ succ a, b ∈ vis := by
  unfold closed
  simp only [List.all_eq_true, decide_eq_true_eq]

theorem Reaches.trans {succ : α → List α} {a b c : α} (h1 : Reaches succ a b) (h2 : Reaches succ b c) :
    Reaches succ a c := by
  induction h2 with
  | refl => exact h1
  | tail _ hs ih => exact Reaches.tail ih hs

theorem Reaches.head {succ : α → List α} {a b c : α} (hs : b ∈ succ a) (h2 : Reaches succ b c) :
    Reaches succ a c :=
  Reaches.trans (Reaches.tail (Reaches.refl a) hs) h2

/-- a closed set containing `r` contains everything reachable from `r` -/
theorem mem_of_closed {succ : α → List α} {vis : List α} (hc : ∀ a ∈ vis, ∀ b ∈ succ a, b ∈ vis)
    {r x : α} (hr : r ∈ vis) (h : Reaches succ r x) : x ∈ vis := by
  induction h with
  | refl => exact hr
  | tail _ hs ih => exact hc _ ih _ hs

theorem reach_inv (succ : α → List α) (init : List α) :
    ∀ (n : Nat) (vis out : List α),
      (∀ x ∈ vis, ∃ r ∈ init, Reaches succ r x) → (∀ r ∈ init, r ∈ vis) →
      reach succ n vis = some out →
      (∀ x ∈ out, ∃ r ∈ init, Reaches succ r x) ∧ (∀ r ∈ init, r ∈ out) ∧
        (∀ a ∈ out, ∀ b ∈ succ a, b ∈ out) := by
  intro n
  induction n with
  | zero =>
    intro vis out h1 h2 h
    unfold reach at h
    by_cases hc : closed succ vis = true
    · simp only [hc, if_true, Option.some.injEq] at h
      subst h
      exact ⟨h1, h2, (closed_iff succ vis).1 hc⟩
    · simp [hc] at h
  | succ n ih =>
    intro vis out h1 h2 h
    unfold reach at h
    by_cases hc : closed succ vis = true
    · simp only [hc, if_true, Option.some.injEq] at h
      subst h
      exact ⟨h1, h2, (closed_iff succ vis).1 hc⟩
    · simp only [hc] at h
      refine ih (grow succ vis) out ?_ ?_ h
      · intro x hx
        rcases (mem_grow succ vis x).1 hx with hx | ⟨a, ha, hxa⟩
        · exact h1 x hx
        · obtain ⟨r, hr, hra⟩ := h1 a ha
          exact ⟨r, hr, Reaches.tail hra hxa⟩
      · intro r hr
        exact (mem_grow succ vis r).2 (Or.inl (h2 r hr))

/-- **`reach` is reachability**: if it answers, the answer is exactly the set of vertices reachable from
    one of the start vertices. -/
theorem reach_spec (succ : α → List α) (n : Nat) (init out : List α)
    (h : reach succ n init = some out) (x : α) :
    x ∈ out ↔ ∃ r ∈ init, Reaches succ r x := by
  obtain ⟨h1, h2, h3⟩ := reach_inv succ init n init out
    (fun x hx => ⟨x, hx, Reaches.refl x⟩) (fun r hr => hr) h
  constructor
  · exact h1 x
  · rintro ⟨r, hr, hrx⟩
    exact mem_of_closed h3 (h2 r hr) hrx

/-! ### paths as lists -/

theorem isPath_cons_cons {succ : α → List α} {a b : α} {p : List α} :
    IsPath succ (a :: b :: p) ↔ b ∈ succ a ∧ IsPath succ (b :: p) := Iff.rfl

theorem isPath_tail {succ : α → List α} {a : α} {p : List α} (h : IsPath succ (a :: p)) : IsPath succ p := by
  cases p with
  | nil => trivial
  | cons b p => exact h.2

/-- extending a path at its end -/
theorem isPath_snoc {succ : α → List α} {p : List α} {b : α} (hp : IsPath succ p)
    (hl : ∀ a, p.getLast? = some a → b ∈ succ a) : IsPath succ (p ++ [b]) := by
  induction p with
  | nil => trivial
  | cons a p ih =>
    cases p with
    | nil =>
      exact ⟨hl a rfl, trivial⟩
    | cons c p =>
      refine ⟨hp.1, ?_⟩
      apply ih hp.2
      intro a' ha'
      apply hl
      simpa [List.getLast?_cons_cons] using ha'

theorem isPath_append_right {succ : α → List α} {p q : List α} (h : IsPath succ (p ++ q)) : IsPath succ q := by
  induction p with
  | nil => exact h
  | cons a p ih => exact ih (isPath_tail h)

theorem isPath_append_left {succ : α → List α} {p q : List α} (h : IsPath succ (p ++ q)) : IsPath succ p := by
  induction p with
  | nil => trivial
  | cons a p ih =>
    cases p with
    | nil => trivial
    | cons b p => exact ⟨h.1, ih h.2⟩

/-- the head of a path reaches every vertex on it -/
theorem reaches_of_isPath {succ : α → List α} {a : α} {p : List α} (h : IsPath succ (a :: p)) :
    ∀ b ∈ a :: p, Reaches succ a b := by
  induction p generalizing a with
  | nil =>
    intro b hb
    simp only [List.mem_singleton] at hb
    subst hb
    exact Reaches.refl _
  | cons c p ih =>
    intro b hb
    rcases List.mem_cons.1 hb with hb | hb
    · subst hb
      exact Reaches.refl _
    · exact Reaches.head h.1 (ih h.2 b hb)

/-- reachability is the existence of a path -/
theorem reaches_iff_path {succ : α → List α} {a b : α} :
    Reaches succ a b ↔ ∃ p : List α, IsPath succ (a :: p) ∧ (a :: p).getLast? = some b := by
  constructor
  · intro h
    induction h with
    | refl => exact ⟨[], trivial, rfl⟩
    | @tail b c _ hs ih =>
      obtain ⟨p, hp, hl⟩ := ih
      refine ⟨p ++ [c], ?_, ?_⟩
      · have := isPath_snoc (b := c) hp (fun a' ha' => by rw [hl] at ha'; cases ha'; exact hs)
        simpa using this
      · rw [← List.cons_append, List.getLast?_append]; simp
  · rintro ⟨p, hp, hl⟩
    exact reaches_of_isPath hp b (List.mem_of_getLast? hl)

/-- a path in a graph with vertices deleted is a path that avoids them (after its first vertex) -/
theorem isPath_filter_iff {succ : α → List α} {keep : α → Bool} {a : α} {p : List α} :
    IsPath (fun v => (succ v).filter keep) (a :: p) ↔ IsPath succ (a :: p) ∧ ∀ q ∈ p, keep q = true := by
  induction p generalizing a with
  | nil => simp [IsPath]
  | cons b p ih =>
    rw [isPath_cons_cons, isPath_cons_cons, ih, List.mem_filter]
    constructor
    · rintro ⟨⟨h1, h2⟩, h3, h4⟩
      refine ⟨⟨h1, h3⟩, ?_⟩
      intro q hq
      rcases List.mem_cons.1 hq with hq | hq
      · exact hq ▸ h2
      · exact h4 q hq
    · rintro ⟨⟨h1, h3⟩, h4⟩
      exact ⟨⟨h1, h4 b (List.mem_cons_self ..)⟩, h3, fun q hq => h4 q (List.mem_cons_of_mem _ hq)⟩

/-! ### `buildM` -/

theorem buildM_spec {κ β : Type} (g : κ → Option β) :
    ∀ (ks : List κ) (t : List (κ × β)), buildM g ks = some t →
      ∀ k v, (k, v) ∈ t ↔ k ∈ ks ∧ g k = some v := by
  intro ks
  induction ks with
  | nil =>
    intro t h k v
    simp only [buildM, Option.some.injEq] at h
    subst h
    simp
  | cons k0 ks ih =>
    intro t h k v
    unfold buildM at h
    split at h
    · rename_i v0 r hv0 hr
      simp only [Option.some.injEq] at h
      subst h
      rw [List.mem_cons, ih r hr k v, List.mem_cons]
      constructor
      · rintro (h1 | ⟨h1, h2⟩)
        · cases h1
          exact ⟨Or.inl rfl, hv0⟩
        · exact ⟨Or.inr h1, h2⟩
      · rintro ⟨h1 | h1, h2⟩
        · subst h1
          rw [hv0] at h2
          cases h2
          exact Or.inl rfl
        · exact Or.inr ⟨h1, h2⟩
    · cases h

end

end RD
end Falcon
