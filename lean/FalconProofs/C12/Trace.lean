/-
  FalconProofs.C12.Trace — the locations executed by a run form a path of the location graph that starts
  at the entry location (`trace_isPath`), and `FRunT` is `FRun` with the trace attached (`frunT_iff`).
-/
import FalconProofs.C12.Reach

namespace Falcon
namespace RD

/-- the locations that can be executed next from configuration `c` -/
def nextLocs (f : Function) (c : Config) : List Loc :=
  match f.block c.block with
  | none => []
  | some B =>
    if c.pos < B.instrs.length then [Loc.instr c.block c.pos]
    else if c.pos = B.instrs.length then outEdges f c.block
    else []

/-- invariant of a run: its trace is a path from the entry location, and whatever executes next is a
    successor of the last executed location -/
structure TraceInv (f : Function) (full : List Loc) (c : Config) : Prop where
  path : IsPath (succ f) full
  head : ∀ h, full.head? = some h → h ∈ entryLoc f
  next : ∀ l ∈ nextLocs f c, match full.getLast? with
    | none => l ∈ entryLoc f
    | some a => l ∈ succ f a

theorem isEmpty_iff_length {β : Type} (l : List β) : l.isEmpty = true ↔ l.length = 0 := by
  cases l <;> simp

/-- after entering block `b` -/
theorem traceInv_enter (f : Function) (b : Nat) (σ : State) (pre : List Loc)
    (hpath : IsPath (succ f) pre)
    (hlast : ∀ l ∈ enterLoc f b, match pre.getLast? with
      | none => l ∈ entryLoc f
      | some a => l ∈ succ f a)
    (hhead : ∀ h, pre.head? = some h → h ∈ entryLoc f) :
    TraceInv f (pre ++ enterTrace f b) ⟨b, 0, σ⟩ := by
  unfold enterTrace
  unfold enterLoc at hlast
  cases hB : f.block b with
  | none =>
    simp only [List.append_nil]
    refine ⟨hpath, hhead, ?_⟩
    intro l hl
    simp [nextLocs, hB] at hl
  | some B =>
    simp only [hB] at hlast ⊢
    by_cases hE : B.instrs.isEmpty = true
    · simp only [hE, if_true] at hlast ⊢
      have hmem := hlast (Loc.empty b) (List.mem_singleton.2 rfl)
      refine ⟨?_, ?_, ?_⟩
      · apply isPath_snoc hpath
        intro a ha
        rw [ha] at hmem
        exact hmem
      · intro h hh
        cases pre with
        | nil =>
          simp only [List.nil_append, List.head?_cons, Option.some.injEq] at hh
          subst hh
          simpa using hmem
        | cons a pre => exact hhead h (by simpa using hh)
      · intro l hl
        have hlen : B.instrs.length = 0 := (isEmpty_iff_length _).1 hE
        simp only [nextLocs, hB, hlen, Nat.lt_irrefl, if_false, if_true] at hl
        simp only [List.getLast?_append, List.getLast?_singleton, Option.some_or]
        simp only [succ, hB, hE, if_true]
        exact hl
    · have hE' : B.instrs.isEmpty = false := by simpa using hE
      simp only [hE', Bool.false_eq_true, if_false] at hlast ⊢
      simp only [List.append_nil]
      refine ⟨hpath, hhead, ?_⟩
      intro l hl
      have hlen : 0 < B.instrs.length := by
        cases hi : B.instrs with
        | nil => simp [hi] at hE
        | cons _ _ => simp
      simp only [nextLocs, hB, hlen, if_true, List.mem_singleton] at hl
      subst hl
      exact hlast _ (by simp)

theorem trace_inv (f : Function) (e : Nat) (σ : State) (he : f.cfg.entry = some e)
    (tr : List Loc) (c : Config) (h : FRunT f ⟨e, 0, σ⟩ tr c) :
    TraceInv f (entryTrace f ++ tr) c := by
  induction h with
  | refl =>
    have := traceInv_enter f e σ [] trivial (by
      intro l hl
      simp only [List.getLast?_nil]
      simpa [entryLoc, he] using hl) (by simp)
    simpa [entryTrace, he] using this
  | @instr c tr B i σ' hrun hB hi hex ih =>
    have inv := ih
    have hpos : c.pos < B.instrs.length := by
      rcases List.getElem?_eq_some_iff.1 hi with ⟨h, _⟩
      exact h
    have hnext := inv.next (Loc.instr c.block c.pos) (by simp [nextLocs, hB, hpos])
    rw [← List.append_assoc]
    refine ⟨?_, ?_, ?_⟩
    · apply isPath_snoc inv.path
      intro a' ha'
      rw [ha'] at hnext
      exact hnext
    · intro h hh
      cases hfull : entryTrace f ++ tr with
      | nil =>
        rw [hfull] at hh hnext
        simp only [List.nil_append, List.head?_cons, Option.some.injEq] at hh
        subst hh
        simpa using hnext
      | cons a' rest =>
        rw [hfull] at hh
        exact inv.head h (by rw [hfull]; simpa using hh)
    · intro l hl
      simp only [List.getLast?_append, List.getLast?_singleton, Option.some_or]
      simp only [nextLocs, hB] at hl
      simp only [succ, hB]
      exact hl
  | @edge c tr B ed hrun hB hpos hmem hguard ih =>
    have inv := ih
    have hnext := inv.next (Loc.edge c.block ed.tail) (by
      simp only [nextLocs, hB, hpos, Nat.lt_irrefl, if_false, if_true, outEdges, List.mem_map]
      exact ⟨ed, hmem, rfl⟩)
    have : entryTrace f ++ (tr ++ Loc.edge c.block ed.tail :: enterTrace f ed.tail)
        = ((entryTrace f ++ tr) ++ [Loc.edge c.block ed.tail]) ++ enterTrace f ed.tail := by
      simp
    rw [this]
    apply traceInv_enter
    · apply isPath_snoc inv.path
      intro a' ha'
      rw [ha'] at hnext
      exact hnext
    · intro l hl
      simp only [List.getLast?_append, List.getLast?_singleton, Option.some_or]
      simpa [succ] using hl
    · intro h hh
      cases hfull : entryTrace f ++ tr with
      | nil =>
        rw [hfull] at hh hnext
        simp only [List.nil_append, List.head?_cons, Option.some.injEq] at hh
        subst hh
        simpa using hnext
      | cons a' rest =>
        rw [hfull] at hh
        exact inv.head h (by rw [hfull]; simpa using hh)

/-- **executions are paths**: the locations a run from the entry executes form a path of the location
    graph that starts at the entry location -/
theorem trace_isPath (f : Function) (σ : State) (c0 : Config) (h0 : f.initial σ = some c0)
    (tr : List Loc) (c : Config) (h : FRunT f c0 tr c) :
    IsPath (succ f) (entryTrace f ++ tr) ∧ ∀ h, (entryTrace f ++ tr).head? = some h → h ∈ entryLoc f := by
  unfold Function.initial at h0
  cases he : f.cfg.entry with
  | none => simp [he] at h0
  | some e =>
    simp only [he, Option.map_some, Option.some.injEq] at h0
    subst h0
    have := trace_inv f e σ he tr c h
    exact ⟨this.path, this.head⟩

/-- `FRunT` is `FRun` with the executed locations attached: nothing is restricted -/
theorem frunT_iff (f : Function) (a c : Config) : FRun f a c ↔ ∃ tr, FRunT f a tr c := by
  constructor
  · intro h
    induction h with
    | refl => exact ⟨[], FRunT.refl⟩
    | step _ hs ih =>
      obtain ⟨tr, htr⟩ := ih
      cases hs with
      | instr hB hi hex => exact ⟨_, FRunT.instr htr hB hi hex⟩
      | edge hB hp hm hg => exact ⟨_, FRunT.edge htr hB hp hm hg⟩
  · rintro ⟨tr, h⟩
    induction h with
    | refl => exact FRun.refl _
    | instr _ hB hi hex ih => exact FRun.step ih (FStep.instr hB hi hex)
    | edge _ hB hp hm hg ih => exact FRun.step ih (FStep.edge hB hp hm hg)

end RD
end Falcon
