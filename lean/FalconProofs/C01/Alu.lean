/-
  FalconProofs.C01.Alu — instruction-level agreement for the register-register class in 64-bit mode:
  running the mirrored `BlockTranslationResult` of `mov/add/sub/cmp/and/or/xor  r, r` with the IL semantics
  from any state holding a machine state ends in a state holding what the x86 specification `X86.step` yields.
-/
import FalconProofs.C01.FlagsEv

namespace Falcon
namespace C01
open Const X86 X86Lift
open C07 (get_set get_set_self get_set_ne)

/-- the register-register instruction as the specification sees it -/
def insRR (m : String) (addr len asz : Nat) (d s : GReg) : Ins :=
  { mode := .amd64, mnem := m, len := len, asz := asz, ops := [.reg d, .reg s], addr := addr }

/-- the lifted block, run from a state holding `st`, ends at the specification's next address in a state holding the
    specification's result; nothing is undefined -/
def Agrees (r : BTR) (σ : State) (i : Ins) (st : St) : Prop :=
  ∃ σ' st', runBTR r σ = .next σ' [i.addr + i.len] ∧ X86.step i st = .ok st' (i.addr + i.len) [] ∧ Abs σ' st' ∧
    σ'.mem = σ.mem

/-! ### one flag assignment, keeping track of the temporary -/

theorem exec_cf {σ : State} {st : St} (ha : Abs σ st) {e : Expr} {b : Bool} (he : Ev σ e 1 (BitVec.ofBool b))
    (tn : String) (tv : Const) (ht : σ.get tn = some tv) (hne : tn ≠ "CF") :
    ∃ σ', execute σ (.assign (X86Lift.scalar "CF" 1) e) = .ok (σ', .fallThrough) ∧ σ'.get tn = some tv ∧ σ'.mem = σ.mem ∧
      Abs σ' { st with cf := b } := by
  refine ⟨_, exec_assign _ he, ?_, rfl, ?_⟩
  · simp only [X86Lift.scalar]; rw [get_set_ne _ _ hne]; exact ht
  · simpa [X86Lift.scalar] using abs_set_cf ha b

theorem exec_zf {σ : State} {st : St} (ha : Abs σ st) {e : Expr} {b : Bool} (he : Ev σ e 1 (BitVec.ofBool b))
    (tn : String) (tv : Const) (ht : σ.get tn = some tv) (hne : tn ≠ "ZF") :
    ∃ σ', execute σ (.assign (X86Lift.scalar "ZF" 1) e) = .ok (σ', .fallThrough) ∧ σ'.get tn = some tv ∧ σ'.mem = σ.mem ∧
      Abs σ' { st with zf := b } := by
  refine ⟨_, exec_assign _ he, ?_, rfl, ?_⟩
  · simp only [X86Lift.scalar]; rw [get_set_ne _ _ hne]; exact ht
  · simpa [X86Lift.scalar] using abs_set_zf ha b

theorem exec_sf {σ : State} {st : St} (ha : Abs σ st) {e : Expr} {b : Bool} (he : Ev σ e 1 (BitVec.ofBool b))
    (tn : String) (tv : Const) (ht : σ.get tn = some tv) (hne : tn ≠ "SF") :
    ∃ σ', execute σ (.assign (X86Lift.scalar "SF" 1) e) = .ok (σ', .fallThrough) ∧ σ'.get tn = some tv ∧ σ'.mem = σ.mem ∧
      Abs σ' { st with sf := b } := by
  refine ⟨_, exec_assign _ he, ?_, rfl, ?_⟩
  · simp only [X86Lift.scalar]; rw [get_set_ne _ _ hne]; exact ht
  · simpa [X86Lift.scalar] using abs_set_sf ha b

theorem exec_of {σ : State} {st : St} (ha : Abs σ st) {e : Expr} {b : Bool} (he : Ev σ e 1 (BitVec.ofBool b))
    (tn : String) (tv : Const) (ht : σ.get tn = some tv) (hne : tn ≠ "OF") :
    ∃ σ', execute σ (.assign (X86Lift.scalar "OF" 1) e) = .ok (σ', .fallThrough) ∧ σ'.get tn = some tv ∧ σ'.mem = σ.mem ∧
      Abs σ' { st with of := b } := by
  refine ⟨_, exec_assign _ he, ?_, rfl, ?_⟩
  · simp only [X86Lift.scalar]; rw [get_set_ne _ _ hne]; exact ht
  · simpa [X86Lift.scalar] using abs_set_of ha b

/-! ### the operation lists of the mirror, written out -/

theorem tempE_bits (addr sub w : Nat) : (Expr.scalar (temp addr sub w)).bits = w := rfl

/-- the operations of `add r, r` / `sub r, r` -/
def arithOps (op : BinOp) (sub : Bool) (addr : Nat) (d s : GReg) : List Op :=
  [.assign (temp addr 0 d.bits) (.bin op (getE d) (getE s)),
   .assign (X86Lift.scalar "ZF" 1) (zfE (.scalar (temp addr 0 d.bits)) d.bits),
   .assign (X86Lift.scalar "SF" 1) (sfE (.scalar (temp addr 0 d.bits)) d.bits),
   .assign (X86Lift.scalar "OF" 1) (ofE (.scalar (temp addr 0 d.bits)) (getE d) (getE s) sub d.bits),
   .assign (X86Lift.scalar "CF" 1) (if sub then cfSubE (.scalar (temp addr 0 d.bits)) (getE d) else cfAddE (.scalar (temp addr 0 d.bits)) (getE d)),
   .assign (X86Lift.scalar (rName d.idx) 64) (setE d (.scalar (temp addr 0 d.bits)))]

theorem opsRR_add {d s : GReg} (hd : Shape d) (hs : Shape s) (hb : s.bits = d.bits) (addr : Nat) :
    opsRR .amd64 "add" addr d s = .ok (arithOps .add false addr d s) := by
  have h2 : 2 ≤ d.bits := by rcases shape_bits hd with h | h | h | h <;> omega
  have hgd := getE_bits hd
  have hgs : (getE s).bits = d.bits := by rw [getE_bits hs, hb]
  simp only [opsRR, regGet_eq hd, regGet_eq hs, bind, Res.bind, hgd, pure]
  rw [zfExpr_eq (tempE_bits addr 0 d.bits), sfExpr_eq (tempE_bits addr 0 d.bits) h2,
    ofExpr_eq false (tempE_bits addr 0 d.bits) hgd hgs h2, cfAddExpr_eq (by rw [hgd]; rfl)]
  simp only [regSet, regSetExpr_eq hd (tempE_bits addr 0 d.bits), Expr.mkBin, hgd, hgs, bind, Res.bind, pure,
    ne_eq, not_true_eq_false, ↓reduceIte, Mode.bits, arithOps, Bool.false_eq_true]


/-! ### the specification on a register-register instruction -/

theorem nextIp_rr (m : String) (addr len asz : Nat) (d s : GReg) (h : addr + len < 2 ^ 64) :
    nextIp (insRR m addr len asz d s) = addr + len := by
  simp [nextIp, insRR, Mode.bits, Nat.mod_eq_of_lt h]

theorem alu2_rr (m : String) (addr len asz : Nat) (d s : GReg) (st : St)
    (f : (w : Nat) → St → BitVec w → BitVec w → BitVec w × St) (h : addr + len < 2 ^ 64) :
    alu2 (insRR m addr len asz d s) st f true =
      .ok (setReg (f d.bits st (getReg st d d.bits) (getReg st s d.bits)).2 d
            ((f d.bits st (getReg st d d.bits) (getReg st s d.bits)).1.setWidth 64)) (addr + len) [] := by
  have hn := nextIp_rr m addr len asz d s h
  simp only [alu2, insRR, Opnd.bits, readOp, writeOp, orTrap, done, bind, Option.bind, pure, ↓reduceIte, Option.getD] at hn ⊢
  rw [hn]

theorem alu2_rr_nostore (m : String) (addr len asz : Nat) (d s : GReg) (st : St)
    (f : (w : Nat) → St → BitVec w → BitVec w → BitVec w × St) (h : addr + len < 2 ^ 64) :
    alu2 (insRR m addr len asz d s) st f false =
      .ok (f d.bits st (getReg st d d.bits) (getReg st s d.bits)).2 (addr + len) [] := by
  have hn := nextIp_rr m addr len asz d s h
  simp only [alu2, insRR, Opnd.bits, readOp, writeOp, orTrap, done, bind, Option.bind, pure, Bool.false_eq_true, ↓reduceIte, Option.getD] at hn ⊢
  rw [hn]

theorem step_add_rr (addr len asz : Nat) (d s : GReg) (st : St) :
    step (insRR "add" addr len asz d s) st =
      alu2 (insRR "add" addr len asz d s) st (fun _ σ a b => addWith σ a b false) true := by
  have h : splitCc "add" = none := by decide
  unfold step insRR
  simp only [h]
  simp

/-- reading a register operand is unaffected by flag changes -/
theorem ev_getE' {σ : State} {st st' : St} (ha : Abs σ st') (hg : st'.gpr = st.gpr) {r : GReg} (hr : Shape r) (hi : r.idx < 16)
    {w : Nat} (hw : r.bits = w) : Ev σ (getE r) w (getReg st r w) := by
  subst hw
  have := ev_getE ha hr hi
  have e : getReg st' r r.bits = getReg st r r.bits := by simp [getReg, hg]
  rw [e] at this; exact this

theorem lift_add_rr {d s : GReg} (hd : Shape d) (hs : Shape s) (hb : s.bits = d.bits) (hdi : d.idx < 16) (hsi : s.idx < 16)
    (addr len asz : Nat) (haddr : addr + len < 2 ^ 64) (σ : State) (st : St) (ha : Abs σ st) :
    ∃ r, liftRR .amd64 "add" addr len d s = .ok r ∧ Agrees r σ (insRR "add" addr len asz d s) st := by
  have hw := shape_bits hd
  refine ⟨straight addr len (arithOps .add false addr d s), by simp [liftRR, opsRR_add hd hs hb, bind, Res.bind, pure], ?_⟩
  have hne : ∀ f, f ∈ flagNames → (temp addr 0 d.bits).name ≠ f := fun f hf => temp_ne_flag hf addr 0 d.bits
  -- 1. the temporary
  have e1 := exec_assign (σ := σ) (temp addr 0 d.bits) (Ev.add (ev_getE' ha rfl hd hdi rfl) (ev_getE' ha rfl hs hsi hb))
  have ha1 := abs_set_temp ha addr 0 d.bits (ofBV (getReg st d d.bits + getReg st s d.bits))
  have ht1 := get_set_self σ (temp addr 0 d.bits).name (ofBV (getReg st d d.bits + getReg st s d.bits))
  -- 2. ZF SF OF CF
  obtain ⟨σ2, e2, ht2, hm2, ha2⟩ := exec_zf ha1 (ev_zfE (Ev.scalar (s := temp addr 0 d.bits) ht1)) _ _ ht1 (hne _ (by simp [flagNames]))
  obtain ⟨σ3, e3, ht3, hm3, ha3⟩ := exec_sf ha2 (ev_sfE hw (Ev.scalar (s := temp addr 0 d.bits) ht2)) _ _ ht2 (hne _ (by simp [flagNames]))
  obtain ⟨σ4, e4, ht4, hm4, ha4⟩ := exec_of ha3 (ev_ofE hw false (Ev.scalar (s := temp addr 0 d.bits) ht3)
    (ev_getE' ha3 rfl hd hdi rfl) (ev_getE' ha3 rfl hs hsi hb)) _ _ ht3 (hne _ (by simp [flagNames]))
  obtain ⟨σ5, e5, ht5, hm5, ha5⟩ := exec_cf ha4 (ev_cfAddE (Ev.scalar (s := temp addr 0 d.bits) ht4) (ev_getE' ha4 rfl hd hdi rfl))
    _ _ ht4 (hne _ (by simp [flagNames]))
  -- 3. the destination
  have e6 := exec_assign (X86Lift.scalar (rName d.idx) 64) (ev_setE ha5 hd hdi (Ev.scalar (s := temp addr 0 d.bits) ht5))
  have ha6 := abs_setReg ha5 hdi ((getReg st d d.bits + getReg st s d.bits).setWidth 64)
  refine ⟨_, _, ?_, ?_, ha6, ?_⟩
  · rw [runBTR_straight _ _ _ _ (by simp [arithOps])]
    simp only [arithOps, Bool.false_eq_true, ↓reduceIte, execOps, e1, e2, e3, e4, e5, e6, insRR]
    rfl
  · rw [step_add_rr, alu2_rr _ _ _ _ _ _ _ _ haddr]
    simp only [insRR]
    congr 1
    simp only [addWith, setSZ, ← add_cf_eq hw, ← add_of_eq hw, ← sf_eq hw]
    simp [getReg, fZf]
  · simp [X86Lift.scalar, hm5, hm4, hm3, hm2]


/-! ### sub -/

theorem opsRR_sub {d s : GReg} (hd : Shape d) (hs : Shape s) (hb : s.bits = d.bits) (addr : Nat) :
    opsRR .amd64 "sub" addr d s = .ok (arithOps .sub true addr d s) := by
  have h2 : 2 ≤ d.bits := by rcases shape_bits hd with h | h | h | h <;> omega
  have hgd := getE_bits hd
  have hgs : (getE s).bits = d.bits := by rw [getE_bits hs, hb]
  simp only [opsRR, regGet_eq hd, regGet_eq hs, bind, Res.bind, hgd, pure]
  rw [zfExpr_eq (tempE_bits addr 0 d.bits), sfExpr_eq (tempE_bits addr 0 d.bits) h2,
    ofExpr_eq true (tempE_bits addr 0 d.bits) hgd hgs h2, cfSubExpr_eq (by rw [hgd]; rfl)]
  simp only [regSet, regSetExpr_eq hd (tempE_bits addr 0 d.bits), Expr.mkBin, hgd, hgs, bind, Res.bind, pure,
    ne_eq, not_true_eq_false, ↓reduceIte, Mode.bits, arithOps]

theorem step_sub_rr (addr len asz : Nat) (d s : GReg) (st : St) :
    step (insRR "sub" addr len asz d s) st =
      alu2 (insRR "sub" addr len asz d s) st (fun _ σ a b => subWith σ a b false) true := by
  have h : splitCc "sub" = none := by decide
  unfold step insRR
  simp only [h]
  simp

theorem lift_sub_rr {d s : GReg} (hd : Shape d) (hs : Shape s) (hb : s.bits = d.bits) (hdi : d.idx < 16) (hsi : s.idx < 16)
    (addr len asz : Nat) (haddr : addr + len < 2 ^ 64) (σ : State) (st : St) (ha : Abs σ st) :
    ∃ r, liftRR .amd64 "sub" addr len d s = .ok r ∧ Agrees r σ (insRR "sub" addr len asz d s) st := by
  have hw := shape_bits hd
  refine ⟨straight addr len (arithOps .sub true addr d s), by simp [liftRR, opsRR_sub hd hs hb, bind, Res.bind, pure], ?_⟩
  have hne : ∀ f, f ∈ flagNames → (temp addr 0 d.bits).name ≠ f := fun f hf => temp_ne_flag hf addr 0 d.bits
  have e1 := exec_assign (σ := σ) (temp addr 0 d.bits) (Ev.sub (ev_getE' ha rfl hd hdi rfl) (ev_getE' ha rfl hs hsi hb))
  have ha1 := abs_set_temp ha addr 0 d.bits (ofBV (getReg st d d.bits - getReg st s d.bits))
  have ht1 := get_set_self σ (temp addr 0 d.bits).name (ofBV (getReg st d d.bits - getReg st s d.bits))
  obtain ⟨σ2, e2, ht2, hm2, ha2⟩ := exec_zf ha1 (ev_zfE (Ev.scalar (s := temp addr 0 d.bits) ht1)) _ _ ht1 (hne _ (by simp [flagNames]))
  obtain ⟨σ3, e3, ht3, hm3, ha3⟩ := exec_sf ha2 (ev_sfE hw (Ev.scalar (s := temp addr 0 d.bits) ht2)) _ _ ht2 (hne _ (by simp [flagNames]))
  obtain ⟨σ4, e4, ht4, hm4, ha4⟩ := exec_of ha3 (ev_ofE hw true (Ev.scalar (s := temp addr 0 d.bits) ht3)
    (ev_getE' ha3 rfl hd hdi rfl) (ev_getE' ha3 rfl hs hsi hb)) _ _ ht3 (hne _ (by simp [flagNames]))
  obtain ⟨σ5, e5, ht5, hm5, ha5⟩ := exec_cf ha4 (ev_cfSubE (Ev.scalar (s := temp addr 0 d.bits) ht4) (ev_getE' ha4 rfl hd hdi rfl))
    _ _ ht4 (hne _ (by simp [flagNames]))
  have e6 := exec_assign (X86Lift.scalar (rName d.idx) 64) (ev_setE ha5 hd hdi (Ev.scalar (s := temp addr 0 d.bits) ht5))
  have ha6 := abs_setReg ha5 hdi ((getReg st d d.bits - getReg st s d.bits).setWidth 64)
  refine ⟨_, _, ?_, ?_, ha6, ?_⟩
  · rw [runBTR_straight _ _ _ _ (by simp [arithOps])]
    simp only [arithOps, ↓reduceIte, execOps, e1, e2, e3, e4, e5, e6, insRR]
    rfl
  · rw [step_sub_rr, alu2_rr _ _ _ _ _ _ _ _ haddr]
    simp only [insRR]
    congr 1
    simp only [subWith, setSZ, ← sub_cf_eq hw, ← sub_of_eq hw, ← sf_eq hw]
    simp [getReg]
  · simp [hm5, hm4, hm3, hm2]

/-! ### cmp -/

def cmpOps (d s : GReg) : List Op :=
  [.assign (X86Lift.scalar "ZF" 1) (zfE (.bin .sub (getE d) (getE s)) d.bits),
   .assign (X86Lift.scalar "SF" 1) (sfE (.bin .sub (getE d) (getE s)) d.bits),
   .assign (X86Lift.scalar "OF" 1) (ofE (.bin .sub (getE d) (getE s)) (getE d) (getE s) true d.bits),
   .assign (X86Lift.scalar "CF" 1) (cfSubE (.bin .sub (getE d) (getE s)) (getE d))]

theorem opsRR_cmp {d s : GReg} (hd : Shape d) (hs : Shape s) (hb : s.bits = d.bits) (addr : Nat) :
    opsRR .amd64 "cmp" addr d s = .ok (cmpOps d s) := by
  have h2 : 2 ≤ d.bits := by rcases shape_bits hd with h | h | h | h <;> omega
  have hgd := getE_bits hd
  have hgs : (getE s).bits = d.bits := by rw [getE_bits hs, hb]
  have he : (Expr.bin .sub (getE d) (getE s)).bits = d.bits := by simp [Expr.bits, BinOp.isCmp, hgd]
  simp only [opsRR, regGet_eq hd, regGet_eq hs, bind, Res.bind, hgd, hgs, pure, Expr.mkBin, ne_eq, not_true_eq_false, ↓reduceIte]
  rw [zfExpr_eq he, sfExpr_eq he h2, ofExpr_eq true he hgd hgs h2, cfSubExpr_eq (by rw [hgd, he])]
  simp only [bind, Res.bind, pure, cmpOps]

theorem step_cmp_rr (addr len asz : Nat) (d s : GReg) (st : St) :
    step (insRR "cmp" addr len asz d s) st =
      alu2 (insRR "cmp" addr len asz d s) st (fun _ σ a b => subWith σ a b false) false := by
  have h : splitCc "cmp" = none := by decide
  unfold step insRR
  simp only [h]
  simp

/-- the dummy temporary name used to thread `exec_*` when no temporary exists: a fresh state entry is not needed,
    any name different from the four flags that the state holds will do; we use the destination register -/
theorem lift_cmp_rr {d s : GReg} (hd : Shape d) (hs : Shape s) (hb : s.bits = d.bits) (hdi : d.idx < 16) (hsi : s.idx < 16)
    (addr len asz : Nat) (haddr : addr + len < 2 ^ 64) (σ : State) (st : St) (ha : Abs σ st) :
    ∃ r, liftRR .amd64 "cmp" addr len d s = .ok r ∧ Agrees r σ (insRR "cmp" addr len asz d s) st := by
  have hw := shape_bits hd
  refine ⟨straight addr len (cmpOps d s), by simp [liftRR, opsRR_cmp hd hs hb, bind, Res.bind, pure], ?_⟩
  have hne : ∀ f, f ∈ flagNames → rName d.idx ≠ f := fun f hf => rName_ne_flag hdi hf
  have ev : ∀ {σ' st'}, Abs σ' st' → st'.gpr = st.gpr →
      Ev σ' (.bin .sub (getE d) (getE s)) d.bits (getReg st d d.bits - getReg st s d.bits) :=
    fun h hg => Ev.sub (ev_getE' h hg hd hdi rfl) (ev_getE' h hg hs hsi hb)
  have ht1 := ha.gpr d.idx hdi
  obtain ⟨σ2, e2, ht2, hm2, ha2⟩ := exec_zf ha (ev_zfE (ev ha rfl)) _ _ ht1 (hne _ (by simp [flagNames]))
  obtain ⟨σ3, e3, ht3, hm3, ha3⟩ := exec_sf ha2 (ev_sfE hw (ev ha2 rfl)) _ _ ht2 (hne _ (by simp [flagNames]))
  obtain ⟨σ4, e4, ht4, hm4, ha4⟩ := exec_of ha3 (ev_ofE hw true (ev ha3 rfl)
    (ev_getE' ha3 rfl hd hdi rfl) (ev_getE' ha3 rfl hs hsi hb)) _ _ ht3 (hne _ (by simp [flagNames]))
  obtain ⟨σ5, e5, ht5, hm5, ha5⟩ := exec_cf ha4 (ev_cfSubE (ev ha4 rfl) (ev_getE' ha4 rfl hd hdi rfl))
    _ _ ht4 (hne _ (by simp [flagNames]))
  refine ⟨_, _, ?_, ?_, ha5, ?_⟩
  · rw [runBTR_straight _ _ _ _ (by simp [cmpOps])]
    simp only [cmpOps, execOps, e2, e3, e4, e5, insRR]
  · rw [step_cmp_rr, alu2_rr_nostore _ _ _ _ _ _ _ _ haddr]
    simp only [insRR]
    congr 1
    simp only [subWith, setSZ, ← sub_cf_eq hw, ← sub_of_eq hw, ← sf_eq hw]
    simp [getReg]
  · simp [hm5, hm4, hm3, hm2]

/-! ### mov -/

theorem opsRR_mov {d s : GReg} (hd : Shape d) (hs : Shape s) (hb : s.bits = d.bits) (addr : Nat) :
    opsRR .amd64 "mov" addr d s = .ok [.assign (X86Lift.scalar (rName d.idx) 64) (setE d (getE s))] := by
  have hgs : (getE s).bits = d.bits := by rw [getE_bits hs, hb]
  simp only [opsRR, regGet_eq hd, regGet_eq hs, bind, Res.bind, pure, regSet, regSetExpr_eq hd hgs, Mode.bits]

theorem step_mov_rr (addr len asz : Nat) (d s : GReg) (st : St) (h : addr + len < 2 ^ 64) :
    step (insRR "mov" addr len asz d s) st = .ok (setReg st d ((getReg st s d.bits).setWidth 64)) (addr + len) [] := by
  have hc : splitCc "mov" = none := by decide
  have hn := nextIp_rr "mov" addr len asz d s h
  unfold step insRR
  simp only [hc]
  simp only [insRR] at hn
  simp [readOp, writeOp, orTrap, done, Opnd.bits, hn]

theorem lift_mov_rr {d s : GReg} (hd : Shape d) (hs : Shape s) (hb : s.bits = d.bits) (hdi : d.idx < 16) (hsi : s.idx < 16)
    (addr len asz : Nat) (haddr : addr + len < 2 ^ 64) (σ : State) (st : St) (ha : Abs σ st) :
    ∃ r, liftRR .amd64 "mov" addr len d s = .ok r ∧ Agrees r σ (insRR "mov" addr len asz d s) st := by
  refine ⟨straight addr len [.assign (X86Lift.scalar (rName d.idx) 64) (setE d (getE s))],
    by simp [liftRR, opsRR_mov hd hs hb, bind, Res.bind, pure], ?_⟩
  have e1 := exec_assign (X86Lift.scalar (rName d.idx) 64) (ev_setE ha hd hdi (ev_getE' ha rfl hs hsi hb))
  have ha1 := abs_setReg ha hdi ((getReg st s d.bits).setWidth 64)
  refine ⟨_, _, ?_, ?_, ha1, ?_⟩
  · rw [runBTR_straight _ _ _ _ (by simp)]
    simp only [execOps, e1, insRR]
    rfl
  · rw [step_mov_rr _ _ _ _ _ _ haddr]; rfl
  · simp


/-! ### and / or / xor -/

/-- what the three logical mnemonics compute -/
def logicOp : String → BinOp
  | "and" => .and
  | "or" => .or
  | _ => .xor

def logicFn {w : Nat} (m : String) (a b : BitVec w) : BitVec w :=
  if m = "and" then a &&& b else if m = "or" then a ||| b else a ^^^ b

/-- the value assigned to the temporary: `xor r, r` is emitted as the constant zero -/
def logicE (m : String) (d s : GReg) : Expr :=
  if m = "xor" ∧ getE d = getE s then Expr.ec 0 d.bits else .bin (logicOp m) (getE d) (getE s)

def logicOps (m : String) (addr : Nat) (d s : GReg) : List Op :=
  [.assign (temp addr 0 d.bits) (logicE m d s),
   .assign (X86Lift.scalar "ZF" 1) (zfE (.scalar (temp addr 0 d.bits)) d.bits),
   .assign (X86Lift.scalar "SF" 1) (sfE (.scalar (temp addr 0 d.bits)) d.bits),
   .assign (X86Lift.scalar "CF" 1) (Expr.ec 0 1),
   .assign (X86Lift.scalar "OF" 1) (Expr.ec 0 1),
   .assign (X86Lift.scalar (rName d.idx) 64) (setE d (.scalar (temp addr 0 d.bits)))]

theorem opsRR_logic {m : String} (hm : m = "and" ∨ m = "or" ∨ m = "xor") {d s : GReg} (hd : Shape d) (hs : Shape s)
    (hb : s.bits = d.bits) (addr : Nat) : opsRR .amd64 m addr d s = .ok (logicOps m addr d s) := by
  have h2 : 2 ≤ d.bits := by rcases shape_bits hd with h | h | h | h <;> omega
  have hgd := getE_bits hd
  have hgs : (getE s).bits = d.bits := by rw [getE_bits hs, hb]
  rcases hm with rfl | rfl | rfl
  · simp only [opsRR, regGet_eq hd, regGet_eq hs, bind, Res.bind, hgd, pure]
    rw [zfExpr_eq (tempE_bits addr 0 d.bits), sfExpr_eq (tempE_bits addr 0 d.bits) h2]
    simp [regSet, regSetExpr_eq hd (tempE_bits addr 0 d.bits), Expr.mkBin, hgd, hgs, bind, Res.bind, pure, Mode.bits,
      logicOps, logicE, logicOp]
  · simp only [opsRR, regGet_eq hd, regGet_eq hs, bind, Res.bind, hgd, pure]
    rw [zfExpr_eq (tempE_bits addr 0 d.bits), sfExpr_eq (tempE_bits addr 0 d.bits) h2]
    simp [regSet, regSetExpr_eq hd (tempE_bits addr 0 d.bits), Expr.mkBin, hgd, hgs, bind, Res.bind, pure, Mode.bits,
      logicOps, logicE, logicOp]
  · simp only [opsRR, regGet_eq hd, regGet_eq hs, bind, Res.bind, hgd, pure]
    rw [zfExpr_eq (tempE_bits addr 0 d.bits), sfExpr_eq (tempE_bits addr 0 d.bits) h2]
    by_cases he : getE d = getE s
    · simp [regSet, regSetExpr_eq hd (tempE_bits addr 0 d.bits), Expr.mkBin, hgd, hgs, bind, Res.bind, pure, Mode.bits,
        logicOps, logicE, logicOp, he]
    · simp [regSet, regSetExpr_eq hd (tempE_bits addr 0 d.bits), Expr.mkBin, hgd, hgs, bind, Res.bind, pure, Mode.bits,
        logicOps, logicE, logicOp, he]

theorem ev_unique {σ : State} {e : Expr} {n : Nat} {x y : BitVec n} (h1 : Ev σ e n x) (h2 : Ev σ e n y) : x = y := by
  have := h1.evalIn.symm.trans h2.evalIn
  injection this with h
  exact ofBV_inj h

theorem ev_logicE {m : String} (hm : m = "and" ∨ m = "or" ∨ m = "xor") {σ : State} {d s : GReg} {a b : BitVec d.bits}
    (hl : Ev σ (getE d) d.bits a) (hr : Ev σ (getE s) d.bits b) : Ev σ (logicE m d s) d.bits (logicFn m a b) := by
  rcases hm with rfl | rfl | rfl
  · simpa [logicE, logicOp, logicFn] using Ev.and hl hr
  · simpa [logicE, logicOp, logicFn] using Ev.or hl hr
  · by_cases he : getE d = getE s
    · have hab : a = b := ev_unique hl (he ▸ hr)
      subst hab
      have := Ev.ec (σ := σ) 0 d.bits
      simpa [logicE, logicFn, he] using this
    · simpa [logicE, logicOp, logicFn, he] using Ev.xor hl hr

theorem step_and_rr (addr len asz : Nat) (d s : GReg) (st : St) :
    step (insRR "and" addr len asz d s) st =
      alu2 (insRR "and" addr len asz d s) st (fun _ σ a b => (a &&& b, logic σ (a &&& b))) true := by
  have h : splitCc "and" = none := by decide
  unfold step insRR
  simp only [h]
  simp

theorem step_or_rr (addr len asz : Nat) (d s : GReg) (st : St) :
    step (insRR "or" addr len asz d s) st =
      alu2 (insRR "or" addr len asz d s) st (fun _ σ a b => (a ||| b, logic σ (a ||| b))) true := by
  have h : splitCc "or" = none := by decide
  unfold step insRR
  simp only [h]
  simp

theorem step_xor_rr (addr len asz : Nat) (d s : GReg) (st : St) :
    step (insRR "xor" addr len asz d s) st =
      alu2 (insRR "xor" addr len asz d s) st (fun _ σ a b => (a ^^^ b, logic σ (a ^^^ b))) true := by
  have h : splitCc "xor" = none := by decide
  unfold step insRR
  simp only [h]
  simp

theorem step_logic_rr {m : String} (hm : m = "and" ∨ m = "or" ∨ m = "xor") (addr len asz : Nat) (d s : GReg) (st : St) :
    step (insRR m addr len asz d s) st =
      alu2 (insRR m addr len asz d s) st (fun _ σ a b => (logicFn m a b, logic σ (logicFn m a b))) true := by
  rcases hm with rfl | rfl | rfl
  · rw [step_and_rr]; rfl
  · rw [step_or_rr]; rfl
  · rw [step_xor_rr]; rfl

theorem ev_zero1 {σ : State} : Ev σ (Expr.ec 0 1) 1 (BitVec.ofBool false) := by
  simpa using Ev.ec (σ := σ) 0 1

theorem lift_logic_rr {m : String} (hm : m = "and" ∨ m = "or" ∨ m = "xor") {d s : GReg} (hd : Shape d) (hs : Shape s)
    (hb : s.bits = d.bits) (hdi : d.idx < 16) (hsi : s.idx < 16)
    (addr len asz : Nat) (haddr : addr + len < 2 ^ 64) (σ : State) (st : St) (ha : Abs σ st) :
    ∃ r, liftRR .amd64 m addr len d s = .ok r ∧ Agrees r σ (insRR m addr len asz d s) st := by
  have hw := shape_bits hd
  refine ⟨straight addr len (logicOps m addr d s), by simp [liftRR, opsRR_logic hm hd hs hb, bind, Res.bind, pure], ?_⟩
  have hne : ∀ f, f ∈ flagNames → (temp addr 0 d.bits).name ≠ f := fun f hf => temp_ne_flag hf addr 0 d.bits
  have e1 := exec_assign (σ := σ) (temp addr 0 d.bits) (ev_logicE hm (ev_getE' ha rfl hd hdi rfl) (ev_getE' ha rfl hs hsi hb))
  have ha1 := abs_set_temp ha addr 0 d.bits (ofBV (logicFn m (getReg st d d.bits) (getReg st s d.bits)))
  have ht1 := get_set_self σ (temp addr 0 d.bits).name (ofBV (logicFn m (getReg st d d.bits) (getReg st s d.bits)))
  obtain ⟨σ2, e2, ht2, hm2, ha2⟩ := exec_zf ha1 (ev_zfE (Ev.scalar (s := temp addr 0 d.bits) ht1)) _ _ ht1 (hne _ (by simp [flagNames]))
  obtain ⟨σ3, e3, ht3, hm3, ha3⟩ := exec_sf ha2 (ev_sfE hw (Ev.scalar (s := temp addr 0 d.bits) ht2)) _ _ ht2 (hne _ (by simp [flagNames]))
  obtain ⟨σ4, e4, ht4, hm4, ha4⟩ := exec_cf ha3 ev_zero1 _ _ ht3 (hne _ (by simp [flagNames]))
  obtain ⟨σ5, e5, ht5, hm5, ha5⟩ := exec_of ha4 ev_zero1 _ _ ht4 (hne _ (by simp [flagNames]))
  have e6 := exec_assign (X86Lift.scalar (rName d.idx) 64) (ev_setE ha5 hd hdi (Ev.scalar (s := temp addr 0 d.bits) ht5))
  have ha6 := abs_setReg ha5 hdi ((logicFn m (getReg st d d.bits) (getReg st s d.bits)).setWidth 64)
  refine ⟨_, _, ?_, ?_, ha6, ?_⟩
  · rw [runBTR_straight _ _ _ _ (by simp [logicOps])]
    simp only [logicOps, execOps, e1, e2, e3, e4, e5, e6, insRR]
    rfl
  · rw [step_logic_rr hm, alu2_rr _ _ _ _ _ _ _ _ haddr]
    simp only [insRR]
    congr 1
  · simp [hm5, hm4, hm3, hm2]


/-! ### the class -/

def rrMnemonics : List String := ["mov", "add", "sub", "cmp", "and", "or", "xor"]

theorem lift_rr {m : String} (hm : m ∈ rrMnemonics) {d s : GReg} (hd : Shape d) (hs : Shape s)
    (hb : s.bits = d.bits) (hdi : d.idx < 16) (hsi : s.idx < 16)
    (addr len asz : Nat) (haddr : addr + len < 2 ^ 64) (σ : State) (st : St) (ha : Abs σ st) :
    ∃ r, liftRR .amd64 m addr len d s = .ok r ∧ Agrees r σ (insRR m addr len asz d s) st := by
  simp only [rrMnemonics, List.mem_cons, List.not_mem_nil, or_false] at hm
  rcases hm with rfl | rfl | rfl | rfl | rfl | rfl | rfl
  · exact lift_mov_rr hd hs hb hdi hsi addr len asz haddr σ st ha
  · exact lift_add_rr hd hs hb hdi hsi addr len asz haddr σ st ha
  · exact lift_sub_rr hd hs hb hdi hsi addr len asz haddr σ st ha
  · exact lift_cmp_rr hd hs hb hdi hsi addr len asz haddr σ st ha
  · exact lift_logic_rr (Or.inl rfl) hd hs hb hdi hsi addr len asz haddr σ st ha
  · exact lift_logic_rr (Or.inr (Or.inl rfl)) hd hs hb hdi hsi addr len asz haddr σ st ha
  · exact lift_logic_rr (Or.inr (Or.inr rfl)) hd hs hb hdi hsi addr len asz haddr σ st ha

end C01
end Falcon
