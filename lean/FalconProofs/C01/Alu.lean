/-
  FalconProofs.C01.Alu — instruction-level agreement for the register-register class in 64-bit mode:
  running the mirrored `BlockTranslationResult` of `mov/add/sub/cmp/and/or/xor  r, r` with the IL semantics
  from any state holding a machine state ends in a state holding what the x86 specification `X86.step` yields.
-/
import FalconProofs.C01.FlagsEv

namespace Falcon
namespace C01
open Const X86 X86Lift
open C07 (get_set get_set_self get_set_ne)

/-- a two-operand instruction with a register destination, as the specification sees it -/
def ins2 (m : String) (addr len asz : Nat) (d : GReg) (so : Opnd) : Ins :=
  { mode := .amd64, mnem := m, len := len, asz := asz, ops := [.reg d, so], addr := addr }

/-- the register-register instruction -/
abbrev insRR (m : String) (addr len asz : Nat) (d s : GReg) : Ins := ins2 m addr len asz d (.reg s)
/-- register, immediate -/
abbrev insRI (m : String) (addr len asz : Nat) (d : GReg) (v bytes : Nat) : Ins := ins2 m addr len asz d (.imm v bytes)
/-- one register operand -/
def ins1 (m : String) (addr len asz : Nat) (d : GReg) : Ins :=
  { mode := .amd64, mnem := m, len := len, asz := asz, ops := [.reg d], addr := addr }

/-- the lifted block, run from a state holding `st`, ends at the specification's next address in a state holding the
    specification's result; nothing is undefined -/
def Agrees (r : BTR) (σ : State) (i : Ins) (st : St) : Prop :=
  ∃ σ' st', runBTR r σ = .next σ' [i.addr + i.len] ∧ X86.step i st = .ok st' (i.addr + i.len) [] ∧ Abs σ' st' ∧
    σ'.mem = σ.mem

/-! ### one flag assignment, keeping track of the temporary -/

theorem exec_cf {σ : State} {st : St} (ha : Abs σ st) {e : Expr} {b : Bool} (he : Ev σ e 1 (BitVec.ofBool b))
    (tn : String) (tv : Const) (ht : σ.get tn = some tv) (hne : tn ≠ "CF") :
    ∃ σ', execute σ (.assign (X86Lift.scalar "CF" 1) e) = .ok (σ', .fallThrough) ∧ σ'.get tn = some tv ∧ σ'.mem = σ.mem ∧
      Abs σ' { st with cf := b } := by
  refine ⟨_, exec_assign _ he, ?_, rfl, ?_⟩
  · simp only [X86Lift.scalar]; rw [get_set_ne _ _ hne]; exact ht
  · simpa [X86Lift.scalar] using abs_set_cf ha b

theorem exec_zf {σ : State} {st : St} (ha : Abs σ st) {e : Expr} {b : Bool} (he : Ev σ e 1 (BitVec.ofBool b))
    (tn : String) (tv : Const) (ht : σ.get tn = some tv) (hne : tn ≠ "ZF") :
    ∃ σ', execute σ (.assign (X86Lift.scalar "ZF" 1) e) = .ok (σ', .fallThrough) ∧ σ'.get tn = some tv ∧ σ'.mem = σ.mem ∧
      Abs σ' { st with zf := b } := by
  refine ⟨_, exec_assign _ he, ?_, rfl, ?_⟩
  · simp only [X86Lift.scalar]; rw [get_set_ne _ _ hne]; exact ht
  · simpa [X86Lift.scalar] using abs_set_zf ha b

theorem exec_sf {σ : State} {st : St} (ha : Abs σ st) {e : Expr} {b : Bool} (he : Ev σ e 1 (BitVec.ofBool b))
    (tn : String) (tv : Const) (ht : σ.get tn = some tv) (hne : tn ≠ "SF") :
    ∃ σ', execute σ (.assign (X86Lift.scalar "SF" 1) e) = .ok (σ', .fallThrough) ∧ σ'.get tn = some tv ∧ σ'.mem = σ.mem ∧
      Abs σ' { st with sf := b } := by
  refine ⟨_, exec_assign _ he, ?_, rfl, ?_⟩
  · simp only [X86Lift.scalar]; rw [get_set_ne _ _ hne]; exact ht
  · simpa [X86Lift.scalar] using abs_set_sf ha b

theorem exec_of {σ : State} {st : St} (ha : Abs σ st) {e : Expr} {b : Bool} (he : Ev σ e 1 (BitVec.ofBool b))
    (tn : String) (tv : Const) (ht : σ.get tn = some tv) (hne : tn ≠ "OF") :
    ∃ σ', execute σ (.assign (X86Lift.scalar "OF" 1) e) = .ok (σ', .fallThrough) ∧ σ'.get tn = some tv ∧ σ'.mem = σ.mem ∧
      Abs σ' { st with of := b } := by
  refine ⟨_, exec_assign _ he, ?_, rfl, ?_⟩
  · simp only [X86Lift.scalar]; rw [get_set_ne _ _ hne]; exact ht
  · simpa [X86Lift.scalar] using abs_set_of ha b

/-! ### the source operand, abstractly

  `Src st d so se b`: the specification's operand `so` and the mirror's expression `se` for it both denote the
  `d.bits`-wide value `b`, in every IL state that holds a machine state with `st`'s general registers. -/

theorem nextIp_2 (m : String) (addr len asz : Nat) (d : GReg) (so : Opnd) (h : addr + len < 2 ^ 64) :
    nextIp (ins2 m addr len asz d so) = addr + len := by
  simp [nextIp, ins2, Mode.bits, Nat.mod_eq_of_lt h]

structure Src (st : St) (d : GReg) (so : Opnd) (se : Expr) (b : BitVec d.bits) : Prop where
  bits : se.bits = d.bits
  ev : ∀ {σ' st'}, Abs σ' st' → st'.gpr = st.gpr → Ev σ' se d.bits b
  /-- how `X86.alu2` reads the operand -/
  spec : ∀ (m : String) (addr len asz : Nat) (f : (w : Nat) → St → BitVec w → BitVec w → BitVec w × St), addr + len < 2 ^ 64 →
    alu2 (ins2 m addr len asz d so) st f true =
      .ok (setReg (f d.bits st (getReg st d d.bits) b).2 d ((f d.bits st (getReg st d d.bits) b).1.setWidth 64)) (addr + len) [] ∧
    alu2 (ins2 m addr len asz d so) st f false = .ok (f d.bits st (getReg st d d.bits) b).2 (addr + len) []
  /-- how `mov` reads it -/
  read : ∀ (i : Ins), readOp i st d.bits so = some b

/-- reading a register operand is unaffected by flag changes -/
theorem ev_getE' {σ : State} {st st' : St} (ha : Abs σ st') (hg : st'.gpr = st.gpr) {r : GReg} (hr : Shape r) (hi : r.idx < 16)
    {w : Nat} (hw : r.bits = w) : Ev σ (getE r) w (getReg st r w) := by
  subst hw
  have := ev_getE ha hr hi
  have e : getReg st' r r.bits = getReg st r r.bits := by simp [getReg, hg]
  rw [e] at this; exact this

theorem src_reg (st : St) {d s : GReg} (hs : Shape s) (hb : s.bits = d.bits) (hsi : s.idx < 16) :
    Src st d (.reg s) (getE s) (getReg st s d.bits) where
  bits := by rw [getE_bits hs, hb]
  ev := fun h hg => ev_getE' h hg hs hsi hb
  spec := fun m addr len asz f h => by
    have hn := nextIp_2 m addr len asz d (.reg s) h
    constructor <;>
    · simp only [alu2, ins2, Opnd.bits, srcVal, readOp, writeOp, orTrap, done, bind, Option.bind, pure, ↓reduceIte, Option.getD,
        Bool.false_eq_true] at hn ⊢
      rw [hn]
  read := fun _ => rfl

theorem ofNat_mod64 {w : Nat} (hw : OpWidth w) (v : Nat) : BitVec.ofNat w (v % 2 ^ 64) = BitVec.ofNat w v := by
  apply BitVec.eq_of_toNat_eq
  simp only [BitVec.toNat_ofNat]
  have : (2 : Nat) ^ w ∣ 2 ^ 64 := Nat.pow_dvd_pow 2 (by rcases hw with rfl | rfl | rfl | rfl <;> omega)
  exact Nat.mod_mod_of_dvd v this

theorem src_imm (st : St) {d : GReg} (hd : Shape d) (v bytes : Nat) (hb : 8 * bytes = d.bits) :
    Src st d (.imm v bytes) (Expr.ec v d.bits) (BitVec.ofNat d.bits v) where
  bits := rfl
  ev := fun {σ' _} _ _ => (Ev.ec (σ := σ') v d.bits).cast (ofNat_mod64 (shape_bits hd) v)
  spec := fun m addr len asz f h => by
    have hn := nextIp_2 m addr len asz d (.imm v bytes) h
    have hx : X86.sext (BitVec.ofNat (8 * bytes) v) d.bits = BitVec.ofNat d.bits v := by
      simp only [X86.sext]; rw [hb]; simp
    constructor <;>
    · simp only [alu2, ins2, Opnd.bits, srcVal, readOp, writeOp, orTrap, done, bind, Option.bind, pure, ↓reduceIte, Option.getD,
        Bool.false_eq_true, hx] at hn ⊢
      rw [hn]
  read := fun _ => rfl

/-! ### the operation lists of the mirror, written out -/

theorem tempE_bits (addr sub w : Nat) : (Expr.scalar (temp addr sub w)).bits = w := rfl

/-- the operations of `add` / `sub` -/
def arithOps (op : BinOp) (sub : Bool) (addr : Nat) (d : GReg) (se : Expr) : List Op :=
  [.assign (temp addr 0 d.bits) (.bin op (getE d) se),
   .assign (X86Lift.scalar "ZF" 1) (zfE (.scalar (temp addr 0 d.bits)) d.bits),
   .assign (X86Lift.scalar "SF" 1) (sfE (.scalar (temp addr 0 d.bits)) d.bits),
   .assign (X86Lift.scalar "OF" 1) (ofE (.scalar (temp addr 0 d.bits)) (getE d) se sub d.bits),
   .assign (X86Lift.scalar "CF" 1) (if sub then cfSubE (.scalar (temp addr 0 d.bits)) (getE d) else cfAddE (.scalar (temp addr 0 d.bits)) (getE d)),
   .assign (X86Lift.scalar (rName d.idx) 64) (setE d (.scalar (temp addr 0 d.bits)))]

theorem opsDS_add {d : GReg} (hd : Shape d) {se : Expr} (hgs : se.bits = d.bits) (addr : Nat) :
    opsDS .amd64 "add" addr d se = .ok (arithOps .add false addr d se) := by
  have h2 : 2 ≤ d.bits := by rcases shape_bits hd with h | h | h | h <;> omega
  have hgd := getE_bits hd
  simp only [opsDS, regGet_eq hd, bind, Res.bind, hgd, pure]
  rw [zfExpr_eq (tempE_bits addr 0 d.bits), sfExpr_eq (tempE_bits addr 0 d.bits) h2,
    ofExpr_eq false (tempE_bits addr 0 d.bits) hgd hgs h2, cfAddExpr_eq (by rw [hgd]; rfl)]
  simp only [regSet, regSetExpr_eq hd (tempE_bits addr 0 d.bits), Expr.mkBin, hgd, hgs, bind, Res.bind, pure,
    ne_eq, not_true_eq_false, ↓reduceIte, Mode.bits, arithOps, Bool.false_eq_true]

theorem opsDS_sub {d : GReg} (hd : Shape d) {se : Expr} (hgs : se.bits = d.bits) (addr : Nat) :
    opsDS .amd64 "sub" addr d se = .ok (arithOps .sub true addr d se) := by
  have h2 : 2 ≤ d.bits := by rcases shape_bits hd with h | h | h | h <;> omega
  have hgd := getE_bits hd
  simp only [opsDS, regGet_eq hd, bind, Res.bind, hgd, pure]
  rw [zfExpr_eq (tempE_bits addr 0 d.bits), sfExpr_eq (tempE_bits addr 0 d.bits) h2,
    ofExpr_eq true (tempE_bits addr 0 d.bits) hgd hgs h2, cfSubExpr_eq (by rw [hgd]; rfl)]
  simp only [regSet, regSetExpr_eq hd (tempE_bits addr 0 d.bits), Expr.mkBin, hgd, hgs, bind, Res.bind, pure,
    ne_eq, not_true_eq_false, ↓reduceIte, Mode.bits, arithOps]

def cmpOps (d : GReg) (se : Expr) : List Op :=
  [.assign (X86Lift.scalar "ZF" 1) (zfE (.bin .sub (getE d) se) d.bits),
   .assign (X86Lift.scalar "SF" 1) (sfE (.bin .sub (getE d) se) d.bits),
   .assign (X86Lift.scalar "OF" 1) (ofE (.bin .sub (getE d) se) (getE d) se true d.bits),
   .assign (X86Lift.scalar "CF" 1) (cfSubE (.bin .sub (getE d) se) (getE d))]

theorem opsDS_cmp {d : GReg} (hd : Shape d) {se : Expr} (hgs : se.bits = d.bits) (addr : Nat) :
    opsDS .amd64 "cmp" addr d se = .ok (cmpOps d se) := by
  have h2 : 2 ≤ d.bits := by rcases shape_bits hd with h | h | h | h <;> omega
  have hgd := getE_bits hd
  have he : (Expr.bin .sub (getE d) se).bits = d.bits := by simp [Expr.bits, BinOp.isCmp, hgd]
  simp only [opsDS, regGet_eq hd, bind, Res.bind, hgd, hgs, pure, Expr.mkBin, ne_eq, not_true_eq_false, ↓reduceIte]
  rw [zfExpr_eq he, sfExpr_eq he h2, ofExpr_eq true he hgd hgs h2, cfSubExpr_eq (by rw [hgd, he])]
  simp only [bind, Res.bind, pure, cmpOps]

theorem opsDS_mov {d : GReg} (hd : Shape d) {se : Expr} (hgs : se.bits = d.bits) (addr : Nat) :
    opsDS .amd64 "mov" addr d se = .ok [.assign (X86Lift.scalar (rName d.idx) 64) (setE d se)] := by
  simp only [opsDS, regGet_eq hd, bind, Res.bind, pure, regSet, regSetExpr_eq hd hgs, Mode.bits]

/-- what the three logical mnemonics compute -/
def logicOp : String → BinOp
  | "and" => .and
  | "or" => .or
  | _ => .xor

def logicFn {w : Nat} (m : String) (a b : BitVec w) : BitVec w :=
  if m = "and" then a &&& b else if m = "or" then a ||| b else a ^^^ b

/-- the value assigned to the temporary: `xor r, r` is emitted as the constant zero -/
def logicE (m : String) (d : GReg) (se : Expr) : Expr :=
  if m = "xor" ∧ getE d = se then Expr.ec 0 d.bits else .bin (logicOp m) (getE d) se

def logicOps (m : String) (addr : Nat) (d : GReg) (se : Expr) : List Op :=
  [.assign (temp addr 0 d.bits) (logicE m d se),
   .assign (X86Lift.scalar "ZF" 1) (zfE (.scalar (temp addr 0 d.bits)) d.bits),
   .assign (X86Lift.scalar "SF" 1) (sfE (.scalar (temp addr 0 d.bits)) d.bits),
   .assign (X86Lift.scalar "CF" 1) (Expr.ec 0 1),
   .assign (X86Lift.scalar "OF" 1) (Expr.ec 0 1),
   .assign (X86Lift.scalar (rName d.idx) 64) (setE d (.scalar (temp addr 0 d.bits)))]

theorem opsDS_logic {m : String} (hm : m = "and" ∨ m = "or" ∨ m = "xor") {d : GReg} (hd : Shape d) {se : Expr}
    (hgs : se.bits = d.bits) (addr : Nat) : opsDS .amd64 m addr d se = .ok (logicOps m addr d se) := by
  have h2 : 2 ≤ d.bits := by rcases shape_bits hd with h | h | h | h <;> omega
  have hgd := getE_bits hd
  rcases hm with rfl | rfl | rfl
  · simp only [opsDS, regGet_eq hd, bind, Res.bind, hgd, pure]
    rw [zfExpr_eq (tempE_bits addr 0 d.bits), sfExpr_eq (tempE_bits addr 0 d.bits) h2]
    simp [regSet, regSetExpr_eq hd (tempE_bits addr 0 d.bits), Expr.mkBin, hgd, hgs, bind, Res.bind, pure, Mode.bits,
      logicOps, logicE, logicOp]
  · simp only [opsDS, regGet_eq hd, bind, Res.bind, hgd, pure]
    rw [zfExpr_eq (tempE_bits addr 0 d.bits), sfExpr_eq (tempE_bits addr 0 d.bits) h2]
    simp [regSet, regSetExpr_eq hd (tempE_bits addr 0 d.bits), Expr.mkBin, hgd, hgs, bind, Res.bind, pure, Mode.bits,
      logicOps, logicE, logicOp]
  · simp only [opsDS, regGet_eq hd, bind, Res.bind, hgd, pure]
    rw [zfExpr_eq (tempE_bits addr 0 d.bits), sfExpr_eq (tempE_bits addr 0 d.bits) h2]
    by_cases he : getE d = se
    · simp [regSet, regSetExpr_eq hd (tempE_bits addr 0 d.bits), Expr.mkBin, hgd, hgs, bind, Res.bind, pure, Mode.bits,
        logicOps, logicE, logicOp, he]
    · simp [regSet, regSetExpr_eq hd (tempE_bits addr 0 d.bits), Expr.mkBin, hgd, hgs, bind, Res.bind, pure, Mode.bits,
        logicOps, logicE, logicOp, he]

theorem ev_unique {σ : State} {e : Expr} {n : Nat} {x y : BitVec n} (h1 : Ev σ e n x) (h2 : Ev σ e n y) : x = y := by
  have := h1.evalIn.symm.trans h2.evalIn
  injection this with h
  exact ofBV_inj h

theorem ev_logicE {m : String} (hm : m = "and" ∨ m = "or" ∨ m = "xor") {σ : State} {d : GReg} {se : Expr} {a b : BitVec d.bits}
    (hl : Ev σ (getE d) d.bits a) (hr : Ev σ se d.bits b) : Ev σ (logicE m d se) d.bits (logicFn m a b) := by
  rcases hm with rfl | rfl | rfl
  · simpa [logicE, logicOp, logicFn] using Ev.and hl hr
  · simpa [logicE, logicOp, logicFn] using Ev.or hl hr
  · by_cases he : getE d = se
    · have hab : a = b := ev_unique hl (he ▸ hr)
      subst hab
      have := Ev.ec (σ := σ) 0 d.bits
      simpa [logicE, logicFn, he] using this
    · simpa [logicE, logicOp, logicFn, he] using Ev.xor hl hr

theorem ev_zero1 {σ : State} : Ev σ (Expr.ec 0 1) 1 (BitVec.ofBool false) := by
  simpa using Ev.ec (σ := σ) 0 1

/-! ### running the blocks: the machine state the final IL state holds -/

/-- the result of `add`/`sub` on the machine state -/
def arithSt (sub : Bool) (st : St) (d : GReg) (b : BitVec d.bits) : St :=
  let p := if sub then subWith st (getReg st d d.bits) b false else addWith st (getReg st d d.bits) b false
  setReg p.2 d (p.1.setWidth 64)

theorem run_arith (sub : Bool) {d : GReg} (hd : Shape d) (hdi : d.idx < 16) {so : Opnd} {se : Expr} {b : BitVec d.bits}
    (addr len : Nat) (σ : State) (st : St) (ha : Abs σ st) (hsrc : Src st d so se b) :
    ∃ σ', runBTR (straight addr len (arithOps (if sub then .sub else .add) sub addr d se)) σ = .next σ' [addr + len] ∧
      Abs σ' (arithSt sub st d b) ∧ σ'.mem = σ.mem := by
  have hw := shape_bits hd
  have hne : ∀ f, f ∈ flagNames → (temp addr 0 d.bits).name ≠ f := fun f hf => temp_ne_flag hf addr 0 d.bits
  cases sub with
  | false =>
    have e1 := exec_assign (σ := σ) (temp addr 0 d.bits) (Ev.add (ev_getE' ha rfl hd hdi rfl) (hsrc.ev ha rfl))
    have ha1 := abs_set_temp ha addr 0 d.bits (ofBV (getReg st d d.bits + b))
    have ht1 := get_set_self σ (temp addr 0 d.bits).name (ofBV (getReg st d d.bits + b))
    obtain ⟨σ2, e2, ht2, hm2, ha2⟩ := exec_zf ha1 (ev_zfE (Ev.scalar (s := temp addr 0 d.bits) ht1)) _ _ ht1 (hne _ (by simp [flagNames]))
    obtain ⟨σ3, e3, ht3, hm3, ha3⟩ := exec_sf ha2 (ev_sfE hw (Ev.scalar (s := temp addr 0 d.bits) ht2)) _ _ ht2 (hne _ (by simp [flagNames]))
    obtain ⟨σ4, e4, ht4, hm4, ha4⟩ := exec_of ha3 (ev_ofE hw false (Ev.scalar (s := temp addr 0 d.bits) ht3)
      (ev_getE' ha3 rfl hd hdi rfl) (hsrc.ev ha3 rfl)) _ _ ht3 (hne _ (by simp [flagNames]))
    obtain ⟨σ5, e5, ht5, hm5, ha5⟩ := exec_cf ha4 (ev_cfAddE (Ev.scalar (s := temp addr 0 d.bits) ht4) (ev_getE' ha4 rfl hd hdi rfl))
      _ _ ht4 (hne _ (by simp [flagNames]))
    have e6 := exec_assign (X86Lift.scalar (rName d.idx) 64) (ev_setE ha5 hd hdi (Ev.scalar (s := temp addr 0 d.bits) ht5))
    have ha6 := abs_setReg ha5 hdi ((getReg st d d.bits + b).setWidth 64)
    refine ⟨_, ?_, Eq.mp (congrArg (Abs _) ?_) ha6, ?_⟩
    · rw [runBTR_straight _ _ _ _ (by simp [arithOps])]
      simp only [arithOps, Bool.false_eq_true, ↓reduceIte, execOps, e1, e2, e3, e4, e5, e6]
      rfl
    · simp only [arithSt, Bool.false_eq_true, ↓reduceIte, addWith, setSZ, ← add_cf_eq hw, ← add_of_eq hw, ← sf_eq hw]
      simp [getReg]
    · simp [hm5, hm4, hm3, hm2]
  | true =>
    have e1 := exec_assign (σ := σ) (temp addr 0 d.bits) (Ev.sub (ev_getE' ha rfl hd hdi rfl) (hsrc.ev ha rfl))
    have ha1 := abs_set_temp ha addr 0 d.bits (ofBV (getReg st d d.bits - b))
    have ht1 := get_set_self σ (temp addr 0 d.bits).name (ofBV (getReg st d d.bits - b))
    obtain ⟨σ2, e2, ht2, hm2, ha2⟩ := exec_zf ha1 (ev_zfE (Ev.scalar (s := temp addr 0 d.bits) ht1)) _ _ ht1 (hne _ (by simp [flagNames]))
    obtain ⟨σ3, e3, ht3, hm3, ha3⟩ := exec_sf ha2 (ev_sfE hw (Ev.scalar (s := temp addr 0 d.bits) ht2)) _ _ ht2 (hne _ (by simp [flagNames]))
    obtain ⟨σ4, e4, ht4, hm4, ha4⟩ := exec_of ha3 (ev_ofE hw true (Ev.scalar (s := temp addr 0 d.bits) ht3)
      (ev_getE' ha3 rfl hd hdi rfl) (hsrc.ev ha3 rfl)) _ _ ht3 (hne _ (by simp [flagNames]))
    obtain ⟨σ5, e5, ht5, hm5, ha5⟩ := exec_cf ha4 (ev_cfSubE (Ev.scalar (s := temp addr 0 d.bits) ht4) (ev_getE' ha4 rfl hd hdi rfl))
      _ _ ht4 (hne _ (by simp [flagNames]))
    have e6 := exec_assign (X86Lift.scalar (rName d.idx) 64) (ev_setE ha5 hd hdi (Ev.scalar (s := temp addr 0 d.bits) ht5))
    have ha6 := abs_setReg ha5 hdi ((getReg st d d.bits - b).setWidth 64)
    refine ⟨_, ?_, Eq.mp (congrArg (Abs _) ?_) ha6, ?_⟩
    · rw [runBTR_straight _ _ _ _ (by simp [arithOps])]
      simp only [arithOps, ↓reduceIte, execOps, e1, e2, e3, e4, e5, e6]
      rfl
    · simp only [arithSt, ↓reduceIte, subWith, setSZ, ← sub_cf_eq hw, ← sub_of_eq hw, ← sf_eq hw]
      simp [getReg]
    · simp [hm5, hm4, hm3, hm2]

theorem run_cmp {d : GReg} (hd : Shape d) (hdi : d.idx < 16) {so : Opnd} {se : Expr} {b : BitVec d.bits}
    (addr len : Nat) (σ : State) (st : St) (ha : Abs σ st) (hsrc : Src st d so se b) :
    ∃ σ', runBTR (straight addr len (cmpOps d se)) σ = .next σ' [addr + len] ∧
      Abs σ' (subWith st (getReg st d d.bits) b false).2 ∧ σ'.mem = σ.mem := by
  have hw := shape_bits hd
  have hne : ∀ f, f ∈ flagNames → rName d.idx ≠ f := fun f hf => rName_ne_flag hdi hf
  have ev : ∀ {σ' st'}, Abs σ' st' → st'.gpr = st.gpr →
      Ev σ' (.bin .sub (getE d) se) d.bits (getReg st d d.bits - b) :=
    fun h hg => Ev.sub (ev_getE' h hg hd hdi rfl) (hsrc.ev h hg)
  have ht1 := ha.gpr d.idx hdi
  obtain ⟨σ2, e2, ht2, hm2, ha2⟩ := exec_zf ha (ev_zfE (ev ha rfl)) _ _ ht1 (hne _ (by simp [flagNames]))
  obtain ⟨σ3, e3, ht3, hm3, ha3⟩ := exec_sf ha2 (ev_sfE hw (ev ha2 rfl)) _ _ ht2 (hne _ (by simp [flagNames]))
  obtain ⟨σ4, e4, ht4, hm4, ha4⟩ := exec_of ha3 (ev_ofE hw true (ev ha3 rfl)
    (ev_getE' ha3 rfl hd hdi rfl) (hsrc.ev ha3 rfl)) _ _ ht3 (hne _ (by simp [flagNames]))
  obtain ⟨σ5, e5, ht5, hm5, ha5⟩ := exec_cf ha4 (ev_cfSubE (ev ha4 rfl) (ev_getE' ha4 rfl hd hdi rfl))
    _ _ ht4 (hne _ (by simp [flagNames]))
  refine ⟨_, ?_, Eq.mp (congrArg (Abs _) ?_) ha5, ?_⟩
  · rw [runBTR_straight _ _ _ _ (by simp [cmpOps])]
    simp only [cmpOps, execOps, e2, e3, e4, e5]
  · simp only [subWith, setSZ, ← sub_cf_eq hw, ← sub_of_eq hw, ← sf_eq hw]
    simp [getReg]
  · simp [hm5, hm4, hm3, hm2]

theorem run_mov {d : GReg} (hd : Shape d) (hdi : d.idx < 16) {so : Opnd} {se : Expr} {b : BitVec d.bits}
    (addr len : Nat) (σ : State) (st : St) (ha : Abs σ st) (hsrc : Src st d so se b) :
    ∃ σ', runBTR (straight addr len [.assign (X86Lift.scalar (rName d.idx) 64) (setE d se)]) σ = .next σ' [addr + len] ∧
      Abs σ' (setReg st d (b.setWidth 64)) ∧ σ'.mem = σ.mem := by
  have e1 := exec_assign (X86Lift.scalar (rName d.idx) 64) (ev_setE ha hd hdi (hsrc.ev ha rfl))
  refine ⟨_, ?_, abs_setReg ha hdi (b.setWidth 64), ?_⟩
  · rw [runBTR_straight _ _ _ _ (by simp)]
    simp only [execOps, e1]
    rfl
  · simp

theorem run_logic {m : String} (hm : m = "and" ∨ m = "or" ∨ m = "xor") {d : GReg} (hd : Shape d) (hdi : d.idx < 16)
    {so : Opnd} {se : Expr} {b : BitVec d.bits}
    (addr len : Nat) (σ : State) (st : St) (ha : Abs σ st) (hsrc : Src st d so se b) :
    ∃ σ', runBTR (straight addr len (logicOps m addr d se)) σ = .next σ' [addr + len] ∧
      Abs σ' (setReg (logic st (logicFn m (getReg st d d.bits) b)) d ((logicFn m (getReg st d d.bits) b).setWidth 64)) ∧
      σ'.mem = σ.mem := by
  have hw := shape_bits hd
  have hne : ∀ f, f ∈ flagNames → (temp addr 0 d.bits).name ≠ f := fun f hf => temp_ne_flag hf addr 0 d.bits
  have e1 := exec_assign (σ := σ) (temp addr 0 d.bits) (ev_logicE hm (ev_getE' ha rfl hd hdi rfl) (hsrc.ev ha rfl))
  have ha1 := abs_set_temp ha addr 0 d.bits (ofBV (logicFn m (getReg st d d.bits) b))
  have ht1 := get_set_self σ (temp addr 0 d.bits).name (ofBV (logicFn m (getReg st d d.bits) b))
  obtain ⟨σ2, e2, ht2, hm2, ha2⟩ := exec_zf ha1 (ev_zfE (Ev.scalar (s := temp addr 0 d.bits) ht1)) _ _ ht1 (hne _ (by simp [flagNames]))
  obtain ⟨σ3, e3, ht3, hm3, ha3⟩ := exec_sf ha2 (ev_sfE hw (Ev.scalar (s := temp addr 0 d.bits) ht2)) _ _ ht2 (hne _ (by simp [flagNames]))
  obtain ⟨σ4, e4, ht4, hm4, ha4⟩ := exec_cf ha3 ev_zero1 _ _ ht3 (hne _ (by simp [flagNames]))
  obtain ⟨σ5, e5, ht5, hm5, ha5⟩ := exec_of ha4 ev_zero1 _ _ ht4 (hne _ (by simp [flagNames]))
  have e6 := exec_assign (X86Lift.scalar (rName d.idx) 64) (ev_setE ha5 hd hdi (Ev.scalar (s := temp addr 0 d.bits) ht5))
  have ha6 := abs_setReg ha5 hdi ((logicFn m (getReg st d d.bits) b).setWidth 64)
  refine ⟨_, ?_, ha6, ?_⟩
  · rw [runBTR_straight _ _ _ _ (by simp [logicOps])]
    simp only [logicOps, execOps, e1, e2, e3, e4, e5, e6]
    rfl
  · simp [hm5, hm4, hm3, hm2]

/-! ### the specification on these instructions -/

theorem alu2_eval (m : String) (addr len asz : Nat) (d : GReg) {so : Opnd} {se : Expr} (st : St) {b : BitVec d.bits}
    (hsrc : Src st d so se b) (f : (w : Nat) → St → BitVec w → BitVec w → BitVec w × St) (h : addr + len < 2 ^ 64) :
    alu2 (ins2 m addr len asz d so) st f true =
      .ok (setReg (f d.bits st (getReg st d d.bits) b).2 d ((f d.bits st (getReg st d d.bits) b).1.setWidth 64)) (addr + len) [] ∧
    alu2 (ins2 m addr len asz d so) st f false = .ok (f d.bits st (getReg st d d.bits) b).2 (addr + len) [] :=
  hsrc.spec m addr len asz f h

theorem step_alu (m : String) (addr len asz : Nat) (d : GReg) (so : Opnd) (st : St) :
    (m = "add" → step (ins2 m addr len asz d so) st = alu2 (ins2 m addr len asz d so) st (fun _ σ a b => addWith σ a b false) true) ∧
    (m = "sub" → step (ins2 m addr len asz d so) st = alu2 (ins2 m addr len asz d so) st (fun _ σ a b => subWith σ a b false) true) ∧
    (m = "cmp" → step (ins2 m addr len asz d so) st = alu2 (ins2 m addr len asz d so) st (fun _ σ a b => subWith σ a b false) false) ∧
    (m = "and" → step (ins2 m addr len asz d so) st = alu2 (ins2 m addr len asz d so) st (fun _ σ a b => (a &&& b, logic σ (a &&& b))) true) ∧
    (m = "or" → step (ins2 m addr len asz d so) st = alu2 (ins2 m addr len asz d so) st (fun _ σ a b => (a ||| b, logic σ (a ||| b))) true) ∧
    (m = "xor" → step (ins2 m addr len asz d so) st = alu2 (ins2 m addr len asz d so) st (fun _ σ a b => (a ^^^ b, logic σ (a ^^^ b))) true) := by
  refine ⟨?_, ?_, ?_, ?_, ?_, ?_⟩ <;> intro hm <;> subst hm
  · have h : splitCc "add" = none := by decide
    unfold step ins2; simp only [h]; simp
  · have h : splitCc "sub" = none := by decide
    unfold step ins2; simp only [h]; simp
  · have h : splitCc "cmp" = none := by decide
    unfold step ins2; simp only [h]; simp
  · have h : splitCc "and" = none := by decide
    unfold step ins2; simp only [h]; simp
  · have h : splitCc "or" = none := by decide
    unfold step ins2; simp only [h]; simp
  · have h : splitCc "xor" = none := by decide
    unfold step ins2; simp only [h]; simp

theorem step_mov (addr len asz : Nat) (d : GReg) {so : Opnd} {se : Expr} (st : St) {b : BitVec d.bits}
    (hsrc : Src st d so se b) (h : addr + len < 2 ^ 64) :
    step (ins2 "mov" addr len asz d so) st = .ok (setReg st d (b.setWidth 64)) (addr + len) [] := by
  have hc : splitCc "mov" = none := by decide
  have hn := nextIp_2 "mov" addr len asz d so h
  have hr := hsrc.read (ins2 "mov" addr len asz d so)
  unfold step ins2
  simp only [hc]
  simp only [ins2] at hn hr
  simp [hr, writeOp, orTrap, done, Opnd.bits, hn]

/-! ### agreement -/

def aluMn : List String := ["mov", "add", "sub", "cmp", "and", "or", "xor"]

/-- for any source operand the mirror and the specification both understand (`Src`) -/
theorem lift_ds {m : String} (hm : m ∈ aluMn) {d : GReg} (hd : Shape d) (hdi : d.idx < 16)
    {so : Opnd} {se : Expr} {b : BitVec d.bits} (addr len asz : Nat) (haddr : addr + len < 2 ^ 64)
    (σ : State) (st : St) (ha : Abs σ st) (hsrc : Src st d so se b) :
    ∃ ops, opsDS .amd64 m addr d se = .ok ops ∧ Agrees (straight addr len ops) σ (ins2 m addr len asz d so) st := by
  simp only [aluMn, List.mem_cons, List.not_mem_nil, or_false] at hm
  have hst := step_alu m addr len asz d so st
  rcases hm with rfl | rfl | rfl | rfl | rfl | rfl | rfl
  · obtain ⟨σ', h1, h2, h3⟩ := run_mov hd hdi addr len σ st ha hsrc
    exact ⟨_, opsDS_mov hd hsrc.bits addr, σ', _, h1, step_mov addr len asz d st hsrc haddr, h2, h3⟩
  · obtain ⟨σ', h1, h2, h3⟩ := run_arith false hd hdi addr len σ st ha hsrc
    refine ⟨_, opsDS_add hd hsrc.bits addr, σ', _, h1, ?_, h2, h3⟩
    rw [hst.1 rfl, (alu2_eval "add" addr len asz d st hsrc _ haddr).1]; rfl
  · obtain ⟨σ', h1, h2, h3⟩ := run_arith true hd hdi addr len σ st ha hsrc
    refine ⟨_, opsDS_sub hd hsrc.bits addr, σ', _, h1, ?_, h2, h3⟩
    rw [hst.2.1 rfl, (alu2_eval "sub" addr len asz d st hsrc _ haddr).1]; rfl
  · obtain ⟨σ', h1, h2, h3⟩ := run_cmp hd hdi addr len σ st ha hsrc
    refine ⟨_, opsDS_cmp hd hsrc.bits addr, σ', _, h1, ?_, h2, h3⟩
    rw [hst.2.2.1 rfl, (alu2_eval "cmp" addr len asz d st hsrc _ haddr).2]; rfl
  · obtain ⟨σ', h1, h2, h3⟩ := run_logic (Or.inl rfl) hd hdi addr len σ st ha hsrc
    refine ⟨_, opsDS_logic (Or.inl rfl) hd hsrc.bits addr, σ', _, h1, ?_, h2, h3⟩
    rw [hst.2.2.2.1 rfl, (alu2_eval "and" addr len asz d st hsrc _ haddr).1]; rfl
  · obtain ⟨σ', h1, h2, h3⟩ := run_logic (Or.inr (Or.inl rfl)) hd hdi addr len σ st ha hsrc
    refine ⟨_, opsDS_logic (Or.inr (Or.inl rfl)) hd hsrc.bits addr, σ', _, h1, ?_, h2, h3⟩
    rw [hst.2.2.2.2.1 rfl, (alu2_eval "or" addr len asz d st hsrc _ haddr).1]; rfl
  · obtain ⟨σ', h1, h2, h3⟩ := run_logic (Or.inr (Or.inr rfl)) hd hdi addr len σ st ha hsrc
    refine ⟨_, opsDS_logic (Or.inr (Or.inr rfl)) hd hsrc.bits addr, σ', _, h1, ?_, h2, h3⟩
    rw [hst.2.2.2.2.2 rfl, (alu2_eval "xor" addr len asz d st hsrc _ haddr).1]; rfl

/-- register, register -/
theorem lift_rr {m : String} (hm : m ∈ aluMn) {d s : GReg} (hd : Shape d) (hs : Shape s)
    (hb : s.bits = d.bits) (hdi : d.idx < 16) (hsi : s.idx < 16)
    (addr len asz : Nat) (haddr : addr + len < 2 ^ 64) (σ : State) (st : St) (ha : Abs σ st) :
    ∃ r, liftRR .amd64 m addr len d s = .ok r ∧ Agrees r σ (insRR m addr len asz d s) st := by
  obtain ⟨ops, h1, h2⟩ := lift_ds hm hd hdi addr len asz haddr σ st ha (src_reg st hs hb hsi)
  exact ⟨straight addr len ops, by simp [liftRR, opsRR, regGet_eq hs, h1, bind, Res.bind, pure], h2⟩

/-- register, immediate of the register's width -/
theorem lift_ri {m : String} (hm : m ∈ aluMn) {d : GReg} (hd : Shape d) (hdi : d.idx < 16) (v bytes : Nat)
    (hb : 8 * bytes = d.bits) (addr len asz : Nat) (haddr : addr + len < 2 ^ 64) (σ : State) (st : St) (ha : Abs σ st) :
    ∃ r, liftRI .amd64 m addr len d v bytes = .ok r ∧ Agrees r σ (insRI m addr len asz d v bytes) st := by
  obtain ⟨ops, h1, h2⟩ := lift_ds hm hd hdi addr len asz haddr σ st ha (src_imm st hd v bytes hb)
  exact ⟨straight addr len ops, by simp [liftRI, opsRI, hb, h1, bind, Res.bind, pure], h2⟩

end C01
end Falcon
