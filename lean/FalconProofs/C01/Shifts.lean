/-
  C01 — the shift formulas of the lifter (after the repairs 8ea484e, 34667f3) against the SDM definitions, for all
  operand values and all masked counts 1 … 31 (63) at the four operand widths.
-/
import FalconModel.Isa.X86
import Std.Tactic.BVDecide

namespace Falcon.C01
open Falcon.X86

/-- shl: CF = top bit of `lhs << (count-1)` (IL shifts saturate to zero, like `BitVec` shifts) -/
def fCfShl {w : Nat} (a c : BitVec w) : Bool := ((a <<< (c - 1)) >>> (w - 1)).getLsbD 0
/-- shr: CF = low bit of `lhs >> (count-1)` -/
def fCfShr {w : Nat} (a c : BitVec w) : Bool := (a >>> (c - 1)).getLsbD 0
/-- sar: CF = low bit of `lhs >>s (count-1)` -/
def fCfSar {w : Nat} (a c : BitVec w) : Bool := (a.sshiftRight' (c - 1)).getLsbD 0

theorem shl_cf_eq8 (a c : BitVec 8) (h0 : c ≠ 0) (h : c ≤ 31) : fCfShl a c = (shlSpec a c.toNat).cf := by
  unfold fCfShl shlSpec; simp only; bv_decide
theorem shl_cf_eq16 (a c : BitVec 16) (h0 : c ≠ 0) (h : c ≤ 31) : fCfShl a c = (shlSpec a c.toNat).cf := by
  unfold fCfShl shlSpec; simp only; bv_decide
theorem shl_cf_eq32 (a c : BitVec 32) (h0 : c ≠ 0) (h : c ≤ 31) : fCfShl a c = (shlSpec a c.toNat).cf := by
  unfold fCfShl shlSpec; simp only; bv_decide
theorem shl_cf_eq64 (a c : BitVec 64) (h0 : c ≠ 0) (h : c ≤ 63) : fCfShl a c = (shlSpec a c.toNat).cf := by
  unfold fCfShl shlSpec; simp only; bv_decide


theorem shr_cf_eq {w : Nat} (hw : w = 8 ∨ w = 16 ∨ w = 32 ∨ w = 64) (a c : BitVec w) (h0 : c ≠ 0) :
    fCfShr a c = (shrSpec a c.toNat).cf := by
  have h1 : (c - 1).toNat = c.toNat - 1 := by
    have : c.toNat ≠ 0 := fun h => h0 (BitVec.eq_of_toNat_eq (by simpa using h))
    rw [BitVec.toNat_sub_of_le (by rcases hw with rfl | rfl | rfl | rfl <;> (simp [BitVec.le_def]; omega))]
    rcases hw with rfl | rfl | rfl | rfl <;> simp
  unfold fCfShr shrSpec
  simp only [← h1]
  rfl

theorem sar_cf_eq {w : Nat} (hw : w = 8 ∨ w = 16 ∨ w = 32 ∨ w = 64) (a c : BitVec w) (h0 : c ≠ 0) :
    fCfSar a c = (sarSpec a c.toNat).cf := by
  have h1 : (c - 1).toNat = c.toNat - 1 := by
    have : c.toNat ≠ 0 := fun h => h0 (BitVec.eq_of_toNat_eq (by simpa using h))
    rw [BitVec.toNat_sub_of_le (by rcases hw with rfl | rfl | rfl | rfl <;> (simp [BitVec.le_def]; omega))]
    rcases hw with rfl | rfl | rfl | rfl <;> simp
  unfold fCfSar sarSpec
  simp only [← h1, BitVec.sshiftRight']

/-- the results: IL shifts by a bit-vector amount are the SDM's shifts by the masked count -/
theorem shl_r_eq {w : Nat} (a c : BitVec w) : a <<< c = (shlSpec a c.toNat).r := rfl
theorem shr_r_eq {w : Nat} (a c : BitVec w) : a >>> c = (shrSpec a c.toNat).r := rfl
theorem sar_r_eq {w : Nat} (a c : BitVec w) : a.sshiftRight' c = (sarSpec a c.toNat).r := rfl

end Falcon.C01
