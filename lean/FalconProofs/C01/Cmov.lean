/-
  FalconProofs.C01.Cmov — instruction-level agreement for `cmovcc r, r` (64/32/16-bit, 14 condition codes) and
  `jcc rel` (14 codes, next address both ways), 64-bit mode, through the generic fork lemma of `Graph.lean`.
-/
import FalconProofs.C01.Graph
import Std.Tactic.BVDecide

namespace Falcon
namespace C01
open Const X86 X86Lift
open C07 (get_set get_set_self get_set_ne)

/-! ### the two graphs have the fork shape -/

theorem diamond_arms (addr : Nat) (H F T : List Op) (gF gT : Expr) :
    let f := diamondFn addr H F T gF gT
    f.block 0 = some (blockOf addr 0 H) ∧ f.cfg.exit = some 1 ∧ f.cfg.entry = some 0 ∧
    f.cfg.edgesOut 0 = [{ head := 0, tail := 2, cond := some gF }, { head := 0, tail := 3, cond := some gT }] ∧
    Arm f addr 1 2 F ∧ Arm f addr 1 3 T := by
  refine ⟨rfl, rfl, rfl, rfl, ?_, ?_⟩
  · exact Arm.block 2 F (blockOf addr 2 F) (blockOf addr 1 []) (by decide) rfl rfl rfl rfl rfl
  · exact Arm.block 3 T (blockOf addr 3 T) (blockOf addr 1 []) (by decide) rfl rfl rfl rfl rfl

theorem tri_arms (addr : Nat) (H T : List Op) (gF gT : Expr) :
    let f := triFn addr H T gF gT
    f.block 0 = some (blockOf addr 0 H) ∧ f.cfg.exit = some 1 ∧ f.cfg.entry = some 0 ∧
    f.cfg.edgesOut 0 = [{ head := 0, tail := 1, cond := some gF }, { head := 0, tail := 2, cond := some gT }] ∧
    Arm f addr 1 1 [] ∧ Arm f addr 1 2 T := by
  refine ⟨rfl, rfl, rfl, rfl, ?_, ?_⟩
  · exact Arm.exit (blockOf addr 1 []) rfl rfl
  · exact Arm.block 2 T (blockOf addr 2 T) (blockOf addr 1 []) (by decide) rfl rfl rfl rfl rfl

/-! ### the guards -/

theorem isOne_ofBool (b : Bool) : (ofBV (BitVec.ofBool b)).isOne = b := by cases b <;> rfl

/-- the condition and its negation, as the lifter builds them, evaluate to the SDM's condition -/
theorem ev_guards {σ : State} {st : St} (ha : Abs σ st) (c : Nat) (hc : c < 16) (hp : c ≠ 10 ∧ c ≠ 11) :
    ∃ cc ncc, ccExpr c = .ok cc ∧ Expr.mkBin .cmpeq cc (Expr.ec 0 1) = .ok ncc ∧
      σ.evalIn cc = .ok (ofBV (BitVec.ofBool (X86.cond st c))) ∧
      σ.evalIn ncc = .ok (ofBV (BitVec.ofBool (!X86.cond st c))) := by
  obtain ⟨e, h1, h2, h3⟩ := ev_cc ha c hc hp
  refine ⟨e, .bin .cmpeq e (Expr.ec 0 1), h1, by simp [Expr.mkBin, h2], h3.evalIn, ?_⟩
  have := (Ev.cmpeq h3 (ev_zero1 (σ := σ))).evalIn
  rw [this]; cases X86.cond st c <;> rfl

theorem exec_nop (σ : State) (rest : List Op) : execOps (.nop :: rest) σ = execOps rest σ := by
  simp [execOps, execute]

/-! ### cmovcc -/

theorem merge_self64 (x : BitVec 64) (i : Nat) : mergeReg x ⟨i, 64, 0⟩ (((x >>> 0).setWidth 64).setWidth 64 |>.setWidth 64) = x := by
  simp [mergeReg]

theorem merge_self16 (x : BitVec 64) (i : Nat) : mergeReg x ⟨i, 16, 0⟩ ((((x >>> 0).setWidth 16).setWidth 16).setWidth 64) = x := by
  simp only [mergeReg, ge_iff_le, Nat.reduceLeDiff, Nat.reduceEqDiff, ↓reduceIte, Nat.reducePow, Nat.reduceSub]
  bv_decide

/-- rewriting a 64- or 16-bit register with its own value changes nothing -/
theorem setReg_self {st : St} {d : GReg} (hd : Shape d) (h : d.bits = 64 ∨ d.bits = 16) :
    setReg st d ((getReg st d d.bits).setWidth 64) = st := by
  have key : ∀ i, (if i = d.idx then mergeReg (st.gpr i) d ((getReg st d d.bits).setWidth 64) else st.gpr i) = st.gpr i := by
    intro i
    by_cases hi : i = d.idx
    · subst hi
      cases hd with
      | r64 j => simpa [getReg] using merge_self64 (st.gpr j) j
      | r16 j => simpa [getReg] using merge_self16 (st.gpr j) j
      | r32 j => simp at h
      | r8 j => simp at h
      | h8 j => simp at h
    · simp [hi]
  unfold setReg
  have : (fun i => if i = d.idx then mergeReg (st.gpr i) d ((getReg st d d.bits).setWidth 64) else st.gpr i) = st.gpr :=
    funext key
  rw [this]

theorem step_cmov (m : String) (c : Nat) (hs : splitCc m = some ("cmov", c)) (addr len asz : Nat) (d s : GReg) (st : St)
    (h : addr + len < 2 ^ 64) :
    step (insRR m addr len asz d s) st =
      .ok (setReg st d ((if X86.cond st c then getReg st s d.bits else getReg st d d.bits).setWidth 64)) (addr + len) [] := by
  have hn := nextIp_2 m addr len asz d (.reg s) h
  unfold step insRR ins2
  simp only [hs]
  simp only [ins2] at hn
  simp [readOp, writeOp, orTrap, done, Opnd.bits, hn]

/-- **`cmovcc r, r`** (64-, 32- or 16-bit; the fourteen codes that do not read PF).  The specification's result
    `setReg st d (if cond then src else dst)` ZERO-EXTENDS a 32-bit destination whether or not the condition holds. -/
theorem lift_cmov {m : String} {c : Nat} (hsp : splitCc m = some ("cmov", c)) (hc : c < 16) (hp : c ≠ 10 ∧ c ≠ 11)
    {d s : GReg} (hd : Shape d) (hs : Shape s) (hb : s.bits = d.bits) (hd16 : 16 ≤ d.bits) (hdi : d.idx < 16) (hsi : s.idx < 16)
    (addr len asz : Nat) (haddr : addr + len < 2 ^ 64) (σ : State) (st : St) (ha : Abs σ st) :
    ∃ r, liftCmov .amd64 c addr len d s = .ok r ∧ Agrees r σ (insRR m addr len asz d s) st := by
  obtain ⟨cc, ncc, h1, h2, h3, h4⟩ := ev_guards ha c hc hp
  have hgs : (getE s).bits = d.bits := by rw [getE_bits hs, hb]
  have hgd : (getE d).bits = d.bits := getE_bits hd
  -- the two arms
  let taken : Op := .assign (X86Lift.scalar (rName d.idx) 64) (setE d (getE s))
  let keep : Op := .assign (X86Lift.scalar (rName d.idx) 64) (setE d (getE d))
  have eT := exec_assign (X86Lift.scalar (rName d.idx) 64) (ev_setE ha hd hdi (ev_getE' ha rfl hs hsi hb))
  have eK := exec_assign (X86Lift.scalar (rName d.idx) 64) (ev_setE ha hd hdi (ev_getE' ha rfl hd hdi rfl))
  have hsp' := step_cmov m c hsp addr len asz d s st haddr
  by_cases h32 : d.bits = 32
  · -- 32-bit destination: both arms write
    obtain ⟨hb0, hex, hen, hed, hax, hay⟩ := diamond_arms addr [.nop] [keep] [taken] ncc cc
    have hf := run_fork (blockOf addr 0 [.nop]) hb0 rfl (by decide) hex hed hax hay σ σ (by simp [execOps, execute]) _ _ h4 h3
      4096 (by simp)
    refine ⟨{ addr := addr, length := len, instrs := [diamondFn addr [.nop] [keep] [taken] ncc cc], succs := [(addr + len, none)] },
      by simp [liftCmov, h1, h2, regGet_eq hs, regGet_eq hd, regSet, regSetExpr_eq hd hgs, regSetExpr_eq hd hgd, h32, bind, Res.bind, pure, Mode.bits, taken, keep], ?_⟩
    rw [isOne_ofBool, isOne_ofBool] at hf
    cases hcnd : X86.cond st c
    · have hr := hf.1 (by simp [hcnd]) _ (by simp only [execOps, keep, eK]; rfl)
      refine ⟨_, _, ?_, hsp', abs_setReg ha hdi _, by simp⟩
      rw [runBTR_fn _ _ _ 0 hen, hr]; simp only [hcnd, afterBlock_single, ins2, Bool.false_eq_true, ↓reduceIte]; rfl
    · have hr := hf.2 (by simp [hcnd]) (by simp [hcnd]) _ (by simp only [execOps, taken, eT]; rfl)
      refine ⟨_, _, ?_, hsp', abs_setReg ha hdi _, by simp⟩
      rw [runBTR_fn _ _ _ 0 hen, hr]; simp only [hcnd, afterBlock_single, ins2, ↓reduceIte]; rfl
  · -- 64- or 16-bit destination: the not-taken arm is empty
    have h6416 : d.bits = 64 ∨ d.bits = 16 := by
      cases hd <;> simp at h32 hd16 ⊢
    obtain ⟨hb0, hex, hen, hed, hax, hay⟩ := diamond_arms addr [.nop] [] [taken] ncc cc
    have hf := run_fork (blockOf addr 0 [.nop]) hb0 rfl (by decide) hex hed hax hay σ σ (by simp [execOps, execute]) _ _ h4 h3
      4096 (by simp)
    refine ⟨{ addr := addr, length := len, instrs := [diamondFn addr [.nop] [] [taken] ncc cc], succs := [(addr + len, none)] },
      by simp [liftCmov, h1, h2, regGet_eq hs, regSet, regSetExpr_eq hd hgs, h32, bind, Res.bind, pure, Mode.bits, taken], ?_⟩
    rw [isOne_ofBool, isOne_ofBool] at hf
    cases hcnd : X86.cond st c
    · have hr := hf.1 (by simp [hcnd]) σ (by simp [execOps])
      refine ⟨σ, _, ?_, hsp', ?_, rfl⟩
      · rw [runBTR_fn _ _ _ 0 hen, hr]; simp only [afterBlock_single, ins2]
      · simp only [hcnd, Bool.false_eq_true, ↓reduceIte]; rw [setReg_self hd h6416]; exact ha
    · have hr := hf.2 (by simp [hcnd]) (by simp [hcnd]) _ (by simp only [execOps, taken, eT]; rfl)
      refine ⟨_, _, ?_, hsp', abs_setReg ha hdi _, by simp⟩
      rw [runBTR_fn _ _ _ 0 hen, hr]; simp only [hcnd, afterBlock_single, ins2, ↓reduceIte]; rfl


/-! ### jcc -/

def insJ (m : String) (addr len target tb : Nat) : Ins :=
  { mode := .amd64, mnem := m, len := len, asz := 8, ops := [.imm target tb], addr := addr }

theorem step_jcc (m : String) (c : Nat) (hs : splitCc m = some ("j", c)) (addr len target tb : Nat) (st : St)
    (h : addr + len < 2 ^ 64) (ht : target < 2 ^ 64) :
    step (insJ m addr len target tb) st = .ok st (if X86.cond st c then target else addr + len) [] := by
  have hn : nextIp (insJ m addr len target tb) = addr + len := by simp [nextIp, insJ, Mode.bits, Nat.mod_eq_of_lt h]
  unfold step insJ
  simp only [hs]
  simp only [insJ] at hn
  simp [hn, Mode.bits, Nat.mod_eq_of_lt ht]

/-- **`jcc target`** (fourteen condition codes): state unchanged, next address = the target if the SDM's condition
    holds, the fall-through address otherwise -/
theorem lift_jcc {m : String} {c : Nat} (hsp : splitCc m = some ("j", c)) (hc : c < 16) (hp : c ≠ 10 ∧ c ≠ 11)
    (addr len target tb : Nat) (haddr : addr + len < 2 ^ 64) (ht : target < 2 ^ 64) (σ : State) (st : St) (ha : Abs σ st) :
    ∃ r, liftJcc c addr len target = .ok r ∧
      runBTR r σ = .next σ [if X86.cond st c then target else addr + len] ∧
      step (insJ m addr len target tb) st = .ok st (if X86.cond st c then target else addr + len) [] := by
  obtain ⟨cc, ncc, h1, h2, h3, h4⟩ := ev_guards ha c hc hp
  obtain ⟨hb0, hex, hen, hed, hax, hay⟩ := tri_arms addr [.nop] [.nop] ncc cc
  have hf := run_fork (blockOf addr 0 [.nop]) hb0 rfl (by decide) hex hed hax hay σ σ (by simp [execOps, execute]) _ _ h4 h3
    4096 (by simp)
  rw [isOne_ofBool, isOne_ofBool] at hf
  have hab := afterBlock_two (addr + len) target ncc cc σ _ _ h4 h3
  rw [isOne_ofBool, isOne_ofBool] at hab
  refine ⟨{ addr := addr, length := len, instrs := [triFn addr [.nop] [.nop] ncc cc],
            succs := [(addr + len, some ncc), (target, some cc)] },
    by simp [liftJcc, h1, h2, bind, Res.bind, pure], ?_, step_jcc m c hsp addr len target tb st haddr ht⟩
  rw [runBTR_fn _ _ _ 0 hen]
  cases hcnd : X86.cond st c
  · rw [hf.1 (by simp [hcnd]) σ (by simp [execOps])]; simp only [hab]; simp [hcnd]
  · rw [hf.2 (by simp [hcnd]) (by simp [hcnd]) σ (by simp [execOps, execute])]; simp only [hab]; simp [hcnd]

end C01
end Falcon
