/-
  FalconProofs.C01.Names — the IL scalar names of the x86 lifter in 64-bit mode are pairwise distinct:
  `rax … r15`, the flags `CF ZF SF OF PF DF`, and the temporaries `temp_0x…`.
-/
import FalconModel.Isa.X86Lift

namespace Falcon
namespace C01
open X86 X86Lift

/-- the scalar of general register `i` in 64-bit mode -/
abbrev rName (i : Nat) : String := fullName .amd64 i

theorem rName_inj_fin : ∀ i j : Fin 16, rName i.val = rName j.val → i = j := by decide

theorem rName_inj {i j : Nat} (hi : i < 16) (hj : j < 16) (h : rName i = rName j) : i = j := by
  have := rName_inj_fin ⟨i, hi⟩ ⟨j, hj⟩ h
  exact congrArg Fin.val this

def flagNames : List String := ["CF", "ZF", "SF", "OF", "PF", "DF"]

theorem rName_ne_flag_fin : ∀ i : Fin 16, ∀ f ∈ flagNames, rName i.val ≠ f := by decide

theorem rName_ne_flag {i : Nat} (hi : i < 16) {f : String} (hf : f ∈ flagNames) : rName i ≠ f :=
  rName_ne_flag_fin ⟨i, hi⟩ f hf

theorem rName_head_fin : ∀ i : Fin 16, (rName i.val).toList.head? = some 'r' := by decide

theorem temp_name_toList (a b c : Nat) :
    ∃ rest, (temp a b c).name.toList = 't' :: rest := by
  simp [temp, X86Lift.scalar, String.toList_append]

theorem temp_ne_rName {i : Nat} (hi : i < 16) (a b c : Nat) : (temp a b c).name ≠ rName i := by
  intro h
  obtain ⟨rest, hr⟩ := temp_name_toList a b c
  have h2 := rName_head_fin ⟨i, hi⟩
  rw [← h, hr] at h2
  simp at h2

theorem temp_ne_flag {f : String} (hf : f ∈ flagNames) (a b c : Nat) : (temp a b c).name ≠ f := by
  intro h
  obtain ⟨rest, hr⟩ := temp_name_toList a b c
  rw [h] at hr
  simp [flagNames] at hf
  rcases hf with rfl | rfl | rfl | rfl | rfl | rfl <;> simp at hr

theorem ltemp_name_toList (a b : Nat) : ∃ rest, (ltemp a b).name.toList = 't' :: rest := by
  simp [ltemp, X86Lift.scalar, String.toList_append]

theorem ltemp_ne_rName {i : Nat} (hi : i < 16) (a b : Nat) : (ltemp a b).name ≠ rName i := by
  intro h
  obtain ⟨rest, hr⟩ := ltemp_name_toList a b
  have h2 := rName_head_fin ⟨i, hi⟩
  rw [← h, hr] at h2
  simp at h2

theorem ltemp_ne_flag {f : String} (hf : f ∈ flagNames) (a b : Nat) : (ltemp a b).name ≠ f := by
  intro h
  obtain ⟨rest, hr⟩ := ltemp_name_toList a b
  rw [h] at hr
  simp [flagNames] at hf
  rcases hf with rfl | rfl | rfl | rfl | rfl | rfl <;> simp at hr

/-- the temporary of `operand_load` and the temporaries of the builders (same instruction) have different names -/
theorem ltemp_ne_temp (a b s c : Nat) : (ltemp a b).name ≠ (temp a s c).name := by
  intro h
  have := congrArg String.toList h
  simp [ltemp, temp, X86Lift.scalar, String.toList_append] at this

theorem flags_distinct : ("CF" : String) ≠ "ZF" ∧ ("CF" : String) ≠ "SF" ∧ ("CF" : String) ≠ "OF" ∧ ("ZF" : String) ≠ "SF"
    ∧ ("ZF" : String) ≠ "OF" ∧ ("SF" : String) ≠ "OF" := by decide

end C01
end Falcon
