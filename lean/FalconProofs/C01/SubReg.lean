/-
  C01 — the sub-register algebra of `x86register.rs` (`X86Register::get` / `set`, after the repair da452c2) against
  the architecture's rules as written in `X86.getReg` / `X86.mergeReg`: a 64-bit write replaces the register, a
  32-bit write zero-extends into the 64-bit register, 16- and 8-bit writes leave every other bit, ah/bh/ch/dh are
  bits 8..15.  For all register contents and all values written.
-/
import FalconModel.Isa.X86
import Std.Tactic.BVDecide
set_option linter.unusedSimpArgs false

namespace Falcon.C01
open Falcon.X86

/-! what the lifter's expressions compute, as bit-vector functions of the full 64-bit register
    (amd64 table: full registers are 64 bits wide) -/

/-- `get`, offset 0: `trun(bits, full)` -/
def fGetLow (full : BitVec 64) (bits : Nat) : BitVec bits := full.setWidth bits
/-- `get`, high byte: `trun(8, full >> 8)` -/
def fGetHigh (full : BitVec 64) : BitVec 8 := (full >>> 8).setWidth 8
/-- `set`, offset 0, bits < 32: `(full & (!0 << bits)) | zext(value)` -/
def fSetLow {bits : Nat} (full : BitVec 64) (v : BitVec bits) : BitVec 64 :=
  (full &&& (BitVec.allOnes 64 <<< bits)) ||| v.setWidth 64
/-- `set`, offset 0, bits = 32: `zext(64, value)` -/
def fSet32 (v : BitVec 32) : BitVec 64 := v.setWidth 64
/-- `set`, high byte: `(full & !(0xff << 8)) | (zext(value) << 8)` -/
def fSetHigh (full : BitVec 64) (v : BitVec 8) : BitVec 64 :=
  (full &&& ~~~(0xff#64 <<< 8)) ||| (v.setWidth 64 <<< 8)

theorem get64 (σ : St) (i : Nat) : getReg σ ⟨i, 64, 0⟩ 64 = σ.gpr i := by
  unfold getReg; simp
theorem get32 (σ : St) (i : Nat) : getReg σ ⟨i, 32, 0⟩ 32 = fGetLow (σ.gpr i) 32 := by
  unfold getReg fGetLow; simp
theorem get16 (σ : St) (i : Nat) : getReg σ ⟨i, 16, 0⟩ 16 = fGetLow (σ.gpr i) 16 := by
  unfold getReg fGetLow; simp
theorem get8 (σ : St) (i : Nat) : getReg σ ⟨i, 8, 0⟩ 8 = fGetLow (σ.gpr i) 8 := by
  unfold getReg fGetLow; simp
theorem get8h (σ : St) (i : Nat) : getReg σ ⟨i, 8, 8⟩ 8 = fGetHigh (σ.gpr i) := by
  unfold getReg fGetHigh; simp

theorem set64 (old v : BitVec 64) (i : Nat) : mergeReg old ⟨i, 64, 0⟩ v = v := by
  simp [mergeReg]
theorem set32 (old : BitVec 64) (v : BitVec 32) (i : Nat) : mergeReg old ⟨i, 32, 0⟩ (v.setWidth 64) = fSet32 v := by
  simp only [mergeReg, fSet32, ge_iff_le, Nat.reduceLeDiff, Nat.reduceEqDiff, ↓reduceIte, Nat.reducePow, Nat.reduceSub]; bv_decide
theorem set16 (old : BitVec 64) (v : BitVec 16) (i : Nat) : mergeReg old ⟨i, 16, 0⟩ (v.setWidth 64) = fSetLow old v := by
  simp only [mergeReg, fSetLow, ge_iff_le, Nat.reduceLeDiff, Nat.reduceEqDiff, ↓reduceIte, Nat.reducePow, Nat.reduceSub]; bv_decide
theorem set8 (old : BitVec 64) (v : BitVec 8) (i : Nat) : mergeReg old ⟨i, 8, 0⟩ (v.setWidth 64) = fSetLow old v := by
  simp only [mergeReg, fSetLow, ge_iff_le, Nat.reduceLeDiff, Nat.reduceEqDiff, ↓reduceIte, Nat.reducePow, Nat.reduceSub]; bv_decide
theorem set8h (old : BitVec 64) (v : BitVec 8) (i : Nat) : mergeReg old ⟨i, 8, 8⟩ (v.setWidth 64) = fSetHigh old v := by
  simp only [mergeReg, fSetHigh, ge_iff_le, Nat.reduceLeDiff, Nat.reduceEqDiff, ↓reduceIte, Nat.reducePow, Nat.reduceSub]; bv_decide

/-! the architecture's rules themselves, as consequences (sanity of the specification) -/

theorem write32_zero_extends (old : BitVec 64) (v : BitVec 32) (i : Nat) :
    (mergeReg old ⟨i, 32, 0⟩ (v.setWidth 64)) >>> 32 = 0 ∧ (mergeReg old ⟨i, 32, 0⟩ (v.setWidth 64)).setWidth 32 = v := by
  simp only [mergeReg, ge_iff_le, Nat.reduceLeDiff, Nat.reduceEqDiff, ↓reduceIte, Nat.reducePow, Nat.reduceSub]; constructor <;> bv_decide
theorem write16_preserves (old : BitVec 64) (v : BitVec 16) (i : Nat) :
    (mergeReg old ⟨i, 16, 0⟩ (v.setWidth 64)) >>> 16 = old >>> 16 ∧ (mergeReg old ⟨i, 16, 0⟩ (v.setWidth 64)).setWidth 16 = v := by
  simp only [mergeReg, ge_iff_le, Nat.reduceLeDiff, Nat.reduceEqDiff, ↓reduceIte, Nat.reducePow, Nat.reduceSub]; constructor <;> bv_decide
theorem write8_preserves (old : BitVec 64) (v : BitVec 8) (i : Nat) :
    (mergeReg old ⟨i, 8, 0⟩ (v.setWidth 64)) >>> 8 = old >>> 8 ∧ (mergeReg old ⟨i, 8, 0⟩ (v.setWidth 64)).setWidth 8 = v := by
  simp only [mergeReg, ge_iff_le, Nat.reduceLeDiff, Nat.reduceEqDiff, ↓reduceIte, Nat.reducePow, Nat.reduceSub]; constructor <;> bv_decide
theorem write_high_byte (old : BitVec 64) (v : BitVec 8) (i : Nat) :
    (mergeReg old ⟨i, 8, 8⟩ (v.setWidth 64)) >>> 16 = old >>> 16 ∧
    (mergeReg old ⟨i, 8, 8⟩ (v.setWidth 64)).setWidth 8 = old.setWidth 8 ∧
    ((mergeReg old ⟨i, 8, 8⟩ (v.setWidth 64)) >>> 8).setWidth 8 = v := by
  simp only [mergeReg, ge_iff_le, Nat.reduceLeDiff, Nat.reduceEqDiff, ↓reduceIte, Nat.reducePow, Nat.reduceSub]; refine ⟨?_, ?_, ?_⟩ <;> bv_decide

/-- the defect repaired by da452c2, as a theorem about the OLD expression: with the un-negated mask the write
    to a high-byte register destroys the rest of the register for some contents -/
theorem old_high_byte_mask_wrong :
    ∃ (old : BitVec 64) (v : BitVec 8), ((old &&& (0xff#64 <<< 8)) ||| (v.setWidth 64 <<< 8)) ≠ mergeReg old ⟨0, 8, 8⟩ (v.setWidth 64) :=
  ⟨0x30ba02d9baf74b65#64, 0xb0#8, by decide⟩

end Falcon.C01
