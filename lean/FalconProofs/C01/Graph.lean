/-
  FalconProofs.C01.Graph — running multi-block instruction graphs: a head block whose two complementary guarded
  edges lead to two arms that fall to the exit block (`cmovcc`: both arms are blocks; `jcc`: the not-taken arm is the
  exit itself).  One generic lemma (`run_fork`) over any function with that shape, instantiated for the two mirrors.
-/
import FalconProofs.C01.Setcc

namespace Falcon
namespace C01
open Const X86 X86Lift

/-- executing the (fall-through) instructions of a block only consumes fuel -/
theorem runGraph_instrs (f : Function) (k : Nat) (b : Block) (hb : f.block k = some b) (addr : Nat) (ops : List Op)
    (hi : b.instrs = mkInstrs addr 0 ops) :
    ∀ (fuel p : Nat) (σ σ' : State), execOps (ops.drop p) σ = .done σ' → ops.length - p < fuel →
      runGraph f fuel ⟨k, p, σ⟩ = runGraph f (fuel - (ops.length - p)) ⟨k, ops.length, σ'⟩ := by
  intro fuel
  induction fuel with
  | zero => intro p σ σ' _ h; omega
  | succ fuel ih =>
    intro p σ σ' he h
    cases hp : ops[p]? with
    | none =>
      have hlen : ops.length ≤ p := List.getElem?_eq_none_iff.mp hp
      rw [List.drop_eq_nil_of_le hlen] at he
      simp only [execOps] at he
      injection he with he
      subst he
      have : ops.length - p = 0 := by omega
      rw [this, Nat.sub_zero]
      -- both sides are at the end of the block
      rw [runGraph, runGraph, hb]
      simp only [hi, mkInstrs_getElem?, hp, Option.map_none]
      have : ops[ops.length]? = none := List.getElem?_eq_none_iff.mpr (Nat.le_refl _)
      simp only [this, Option.map_none]
    | some op =>
      have hlt : p < ops.length := by
        rcases Nat.lt_or_ge p ops.length with h' | h'
        · exact h'
        · rw [List.getElem?_eq_none_iff.mpr h'] at hp; cases hp
      have hd : ops.drop p = op :: ops.drop (p + 1) := by
        rw [List.drop_eq_getElem_cons hlt]
        congr 1
        have := List.getElem?_eq_getElem hlt
        rw [this] at hp; injection hp
      rw [hd] at he
      rw [runGraph, hb]
      simp only [hi, mkInstrs_getElem?, hp, Option.map_some]
      simp only [execOps] at he
      cases hx : execute σ op with
      | ok r =>
        obtain ⟨σ1, su⟩ := r
        rw [hx] at he
        cases su with
        | fallThrough =>
          simp only at he ⊢
          rw [ih (p + 1) σ1 σ' he (by omega)]
          congr 1; omega
        | branch a => simp at he
      | err e => rw [hx] at he; simp at he
      | panic => rw [hx] at he; simp at he

/-- what happens at the end of a block -/
theorem runGraph_end (f : Function) (k : Nat) (b : Block) (hb : f.block k = some b) (p : Nat) (hp : b.instrs.length ≤ p)
    (fuel : Nat) (σ : State) :
    runGraph f (fuel + 1) ⟨k, p, σ⟩ =
      if f.cfg.exit = some k then .done σ
      else match pickEdge σ (f.cfg.edgesOut k) with
        | .ok (some e) => runGraph f fuel ⟨e.tail, 0, σ⟩
        | .ok none => .stop σ "err:noedge"
        | .err e => .stop σ (toString e)
        | .panic => .stop σ "panic" := by
  rw [runGraph, hb]
  have : b.instrs[p]? = none := List.getElem?_eq_none_iff.mpr hp
  simp only [this]
  rfl

theorem mkInstrs_length (addr : Nat) : ∀ (i : Nat) (ops : List Op), (mkInstrs addr i ops).length = ops.length
  | _, [] => rfl
  | i, _ :: rest => by simp [mkInstrs, mkInstrs_length addr (i + 1) rest]

/-- an arm: the exit block itself (no instructions), or a block that falls to the exit -/
inductive Arm (f : Function) (addr j : Nat) : Nat → List Op → Prop where
  | exit (bj : Block) (hb : f.block j = some bj) (hi : bj.instrs = []) : Arm f addr j j []
  | block (t : Nat) (ops : List Op) (bt bj : Block) (hne : t ≠ j) (hbt : f.block t = some bt)
      (hit : bt.instrs = mkInstrs addr 0 ops) (he : f.cfg.edgesOut t = [{ head := t, tail := j }])
      (hbj : f.block j = some bj) (hij : bj.instrs = []) : Arm f addr j t ops

theorem run_arm {f : Function} {addr j t : Nat} {ops : List Op} (ha : Arm f addr j t ops) (hx : f.cfg.exit = some j)
    (σ σ' : State) (he : execOps ops σ = .done σ') (fuel : Nat) (hf : ops.length + 3 ≤ fuel) :
    runGraph f fuel ⟨t, 0, σ⟩ = .done σ' := by
  cases ha with
  | exit bj hb hi =>
    simp only [execOps] at he; injection he with he; subst he
    obtain ⟨n, rfl⟩ : ∃ n, fuel = n + 1 := ⟨fuel - 1, by omega⟩
    rw [runGraph_end f j bj hb 0 (by simp [hi]) n σ, if_pos hx]
  | block t ops bt bj hne hbt hit hedge hbj hij =>
    rw [runGraph_instrs f t bt hbt addr ops hit fuel 0 σ σ' (by simpa using he) (by omega)]
    obtain ⟨n, hn⟩ : ∃ n, fuel - (ops.length - 0) = n + 2 := ⟨fuel - ops.length - 2, by omega⟩
    rw [hn, runGraph_end f t bt hbt ops.length (by rw [hit, mkInstrs_length]; exact Nat.le_refl _) (n + 1) σ']
    have hx' : ¬ f.cfg.exit = some t := by rw [hx]; intro h; injection h with h; exact hne h.symm
    simp only [hx', ↓reduceIte, hedge, pickEdge]
    rw [runGraph_end f j bj hbj 0 (by simp [hij]) n σ', if_pos hx]

/-- the fork: the head's instructions, then the first of two guarded edges whose guard evaluates to one -/
theorem run_fork {f : Function} {addr h j x y : Nat} {hops xops yops : List Op} {gx gy : Expr} (bh : Block)
    (hbh : f.block h = some bh) (hih : bh.instrs = mkInstrs addr 0 hops) (hhj : h ≠ j) (hx : f.cfg.exit = some j)
    (hedges : f.cfg.edgesOut h = [{ head := h, tail := x, cond := some gx }, { head := h, tail := y, cond := some gy }])
    (hax : Arm f addr j x xops) (hay : Arm f addr j y yops)
    (σ σ1 : State) (he : execOps hops σ = .done σ1) (cx cy : Const)
    (hgx : σ1.evalIn gx = .ok cx) (hgy : σ1.evalIn gy = .ok cy)
    (fuel : Nat) (hf : hops.length + xops.length + yops.length + 8 ≤ fuel) :
    (cx.isOne = true → ∀ σ2, execOps xops σ1 = .done σ2 → runGraph f fuel ⟨h, 0, σ⟩ = .done σ2) ∧
    (cx.isOne = false → cy.isOne = true → ∀ σ2, execOps yops σ1 = .done σ2 → runGraph f fuel ⟨h, 0, σ⟩ = .done σ2) := by
  have h0 := runGraph_instrs f h bh hbh addr hops hih fuel 0 σ σ1 (by simpa using he) (by omega)
  obtain ⟨n, hn⟩ : ∃ n, fuel - (hops.length - 0) = n + 1 := ⟨fuel - hops.length - 1, by omega⟩
  have hx' : ¬ f.cfg.exit = some h := by rw [hx]; intro e; injection e with e; exact hhj e.symm
  rw [hn, runGraph_end f h bh hbh hops.length (by rw [hih, mkInstrs_length]; exact Nat.le_refl _) n σ1] at h0
  simp only [hx', ↓reduceIte, hedges, pickEdge, pickEdge.go, hgx, hgy] at h0
  constructor
  · intro h1 σ2 h2
    rw [h0]; simp only [h1, ↓reduceIte]
    exact run_arm hax hx σ1 σ2 h2 n (by omega)
  · intro h1 h2 σ2 h3
    rw [h0]; simp only [h1, h2, Bool.false_eq_true, ↓reduceIte]
    exact run_arm hay hx σ1 σ2 h3 n (by omega)

/-- `runBTR` of a single instruction graph with entry `en` -/
theorem runBTR_fn (addr len : Nat) (f : Function) (en : Nat) (hen : f.cfg.entry = some en)
    (succs : List (Nat × Option Expr)) (σ : State) :
    runBTR { addr := addr, length := len, instrs := [f], succs := succs } σ =
      match runGraph f 4096 ⟨en, 0, σ⟩ with
      | .done σ' => afterBlock succs σ'
      | .branch σ' a => .next σ' [a]
      | .stop σ' why => .stop σ' why := by
  unfold runBTR
  simp only [runBTR.go, hen]
  cases runGraph f 4096 ⟨en, 0, σ⟩ <;> first | rfl | simp [afterBlock]

end C01
end Falcon
