/-
  C01 — `cc_condition`: for each of the sixteen condition codes the expression the lifter builds (mirror:
  `X86Lift.ccExpr`) denotes, in every state whose flag scalars hold the flags, the SDM's condition (`X86.cond`,
  vol. 1 appendix B).  Used by jcc, setcc and cmovcc.
-/
import FalconModel.Isa.X86Lift
import FalconModel.Sem
import FalconProofs.C04.Basic

namespace Falcon.C01
open Falcon Falcon.X86 Falcon.X86Lift Falcon.Const Falcon.Spec Falcon.Sem

/-- the IL state holds the flags of the machine state -/
structure FlagsHeld (σ : State) (s : St) : Prop where
  cf : σ.get "CF" = some (bit s.cf)
  zf : σ.get "ZF" = some (bit s.zf)
  sf : σ.get "SF" = some (bit s.sf)
  of : σ.get "OF" = some (bit s.of)
  pf : σ.get "PF" = some (bit s.pf)

set_option maxRecDepth 4096 in
theorem cc_value (σ : State) (s : St) (h : FlagsHeld σ s) (c : Nat) (hc : c < 16) :
    ∃ e, ccExpr c = .ok e ∧ value σ e = .ok (bit (X86.cond s c)) := by
  obtain ⟨hcf, hzf, hsf, hof, hpf⟩ := h
  obtain ⟨gpr, cf, pf, zf, sf, of, df, xmm, seg, mem⟩ := s
  simp only at hcf hzf hsf hof hpf
  match c, hc with
  | 0, _ | 1, _ | 2, _ | 3, _ | 4, _ | 5, _ | 6, _ | 7, _ | 8, _ | 9, _ | 10, _ | 11, _ | 12, _ | 13, _ | 14, _ | 15, _ =>
    refine ⟨_, rfl, ?_⟩
    simp only [value, sc, hcf, hzf, hsf, hof, hpf, bind, Res.bind, Expr.ec, X86.cond]
    cases cf <;> cases zf <;> cases sf <;> cases of <;> cases pf <;> rfl
  | n + 16, h => omega

end Falcon.C01
