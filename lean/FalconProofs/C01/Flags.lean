/-
  C01 — the flag formulas of the lifter's helpers (`set_zf/set_sf/set_of/set_cf`, the two-step carries of adc and
  sbb, the forms used by inc/dec/neg/cmp) against the SDM definitions of `FalconModel/Isa/X86.lean`
  (carry = top bit of the (n+1)-bit sum, overflow = the exact signed result does not fit), for ALL operand values
  at the four operand widths.  Bit-vector level; `FalconProofs/C01/FlagsIL.lean` ties the formulas to the IL
  expressions the helpers build.
-/
import FalconModel.Isa.X86
import Std.Tactic.BVDecide

namespace Falcon.C01
open Falcon.X86

/-! the formulas as the lifter computes them -/

/-- `set_sf`: `trun(1, result >> (bits-1))` -/
def fSf {w : Nat} (r : BitVec w) : Bool := (r >>> (w - 1)).getLsbD 0
/-- `set_zf`: `result == 0` -/
def fZf {w : Nat} (r : BitVec w) : Bool := r == 0
/-- `set_of`: the top bit of `(lhs ^ rhs [^ ~0]) & (lhs ^ result)` -/
def fOf {w : Nat} (r a b : BitVec w) (subtract : Bool) : Bool :=
  let e0 := if subtract then a ^^^ b else (a ^^^ b) ^^^ BitVec.allOnes w
  ((e0 &&& (a ^^^ r)) >>> (w - 1)).getLsbD 0
/-- add: `cmpltu(result, lhs)` -/
def fCfAdd {w : Nat} (r a : BitVec w) : Bool := r.ult a
/-- `set_cf` (sub, cmp): `cmpltu(lhs, result)` -/
def fCfSub {w : Nat} (r a : BitVec w) : Bool := a.ult r
/-- adc: carry of either step -/
def fCfAdc {w : Nat} (a b : BitVec w) (c : Bool) : Bool :=
  let s := a + b
  let r := s + (BitVec.ofBool c).setWidth w
  s.ult a || r.ult s
/-- sbb (after the repair c43c22a): borrow of either step -/
def fCfSbb {w : Nat} (a b : BitVec w) (c : Bool) : Bool :=
  let d := a - b
  a.ult b || d.ult ((BitVec.ofBool c).setWidth w)

abbrev OpWidth (w : Nat) : Prop := w = 8 ∨ w = 16 ∨ w = 32 ∨ w = 64

theorem sf_eq {w : Nat} (hw : OpWidth w) (r : BitVec w) : fSf r = msb r := by
  rcases hw with rfl | rfl | rfl | rfl <;> (unfold fSf msb; bv_decide)

theorem add_cf_eq {w : Nat} (hw : OpWidth w) (a b : BitVec w) :
    fCfAdd (a + b) a = carryAdd a b false := by
  rcases hw with rfl | rfl | rfl | rfl <;> (unfold fCfAdd carryAdd; bv_decide)

theorem add_of_eq {w : Nat} (hw : OpWidth w) (a b : BitVec w) :
    fOf (a + b) a b false = overflowAdd a b false := by
  rcases hw with rfl | rfl | rfl | rfl <;> (unfold fOf overflowAdd; bv_decide)

theorem adc_cf_eq {w : Nat} (hw : OpWidth w) (a b : BitVec w) (c : Bool) :
    fCfAdc a b c = carryAdd a b c := by
  rcases hw with rfl | rfl | rfl | rfl <;> (unfold fCfAdc carryAdd; cases c <;> bv_decide)

theorem adc_of_eq {w : Nat} (hw : OpWidth w) (a b : BitVec w) (c : Bool) :
    fOf (a + b + (BitVec.ofBool c).setWidth w) a b false = overflowAdd a b c := by
  rcases hw with rfl | rfl | rfl | rfl <;> (unfold fOf overflowAdd; cases c <;> bv_decide)

theorem sub_cf_eq {w : Nat} (hw : OpWidth w) (a b : BitVec w) :
    fCfSub (a - b) a = borrowSub a b false := by
  rcases hw with rfl | rfl | rfl | rfl <;> (unfold fCfSub borrowSub; bv_decide)

theorem sub_of_eq {w : Nat} (hw : OpWidth w) (a b : BitVec w) :
    fOf (a - b) a b true = overflowSub a b false := by
  rcases hw with rfl | rfl | rfl | rfl <;> (unfold fOf overflowSub; bv_decide)

theorem sbb_cf_eq {w : Nat} (hw : OpWidth w) (a b : BitVec w) (c : Bool) :
    fCfSbb a b c = borrowSub a b c := by
  rcases hw with rfl | rfl | rfl | rfl <;> (unfold fCfSbb borrowSub; cases c <;> bv_decide)

theorem sbb_of_eq {w : Nat} (hw : OpWidth w) (a b : BitVec w) (c : Bool) :
    fOf (a - b - (BitVec.ofBool c).setWidth w) a b true = overflowSub a b c := by
  rcases hw with rfl | rfl | rfl | rfl <;> (unfold fOf overflowSub; cases c <;> bv_decide)

/-- neg: `CF := dst != 0` is the borrow of `0 - dst` -/
theorem neg_cf_eq {w : Nat} (hw : OpWidth w) (a : BitVec w) :
    (a != 0) = borrowSub 0 a false := by
  rcases hw with rfl | rfl | rfl | rfl <;> (unfold borrowSub; bv_decide)

end Falcon.C01
