/-
  FalconProofs.C01.Core — the flag-computing prefix shared by the two-operand builders, for ARBITRARY operand
  expressions (register reads, immediates, temporaries filled by a load): executing it from a state holding a machine
  state leaves a state holding the same machine state with the SDM's flags, the result in the builder's temporary,
  and every other scalar (in particular the load temporary), memory and endianness untouched.
-/
import FalconProofs.C01.Mem

namespace Falcon
namespace C01
open Const X86 X86Lift
open C07 (get_set get_set_self get_set_ne)

/-- names the prefix never writes -/
def Quiet (addr w : Nat) (n : String) : Prop :=
  n ≠ "CF" ∧ n ≠ "ZF" ∧ n ≠ "SF" ∧ n ≠ "OF" ∧ n ≠ (temp addr 0 w).name

/-- `σ'` differs from `σ` only in non-quiet scalars -/
structure Pre (σ σ' : State) (addr w : Nat) : Prop where
  frame : ∀ n, Quiet addr w n → σ'.get n = σ.get n
  mem : σ'.mem = σ.mem
  endian : σ'.endian = σ.endian

theorem Pre.refl (σ : State) (addr w : Nat) : Pre σ σ addr w := ⟨fun _ _ => rfl, rfl, rfl⟩

theorem Pre.set {σ σ' : State} {addr w : Nat} (hp : Pre σ σ' addr w) (name : String) (hn : ¬ Quiet addr w name) (c : Const) :
    Pre σ (σ'.set name c) addr w where
  frame n hq := by
    have : n ≠ name := fun h => hn (h ▸ hq)
    rw [get_set_ne _ _ this]; exact hp.frame n hq
  mem := hp.mem
  endian := hp.endian

/-- an operand: an expression of width `w` denoting `v` in every state that holds a machine state with `st`'s
    registers and agrees with `σ0` on the quiet scalars -/
structure Opd (σ0 : State) (st : St) (addr w : Nat) (e : Expr) (v : BitVec w) : Prop where
  bits : e.bits = w
  ev : ∀ {σ' st'}, Abs σ' st' → st'.gpr = st.gpr → Pre σ0 σ' addr w → Ev σ' e w v

theorem opd_reg (σ0 : State) (st : St) (addr : Nat) {r : GReg} (hr : Shape r) (hi : r.idx < 16) {w : Nat} (hw : r.bits = w) :
    Opd σ0 st addr w (getE r) (getReg st r w) where
  bits := by rw [getE_bits hr, hw]
  ev := fun h hg _ => ev_getE' h hg hr hi hw

theorem opd_imm (σ0 : State) (st : St) (addr : Nat) {w : Nat} (hw : OpWidth w) (v : Nat) :
    Opd σ0 st addr w (Expr.ec v w) (BitVec.ofNat w v) where
  bits := rfl
  ev := fun {σ' _} _ _ _ => (Ev.ec (σ := σ') v w).cast (ofNat_mod64 hw v)

/-- a scalar that `σ0` holds and the prefix does not write (the load temporary) -/
theorem opd_scalar (σ0 : State) (st : St) (addr : Nat) {w : Nat} (s : Scalar) (hb : s.bits = w) (v : BitVec w)
    (hq : Quiet addr w s.name) (h0 : σ0.get s.name = some (ofBV v)) : Opd σ0 st addr w (.scalar s) v where
  bits := hb
  ev := fun _ _ hp => Ev.scalar (by rw [hp.frame _ hq]; exact h0)

theorem execOps_ok {σ σ' : State} {op : Op} (rest : List Op) (h : execute σ op = .ok (σ', .fallThrough)) :
    execOps (op :: rest) σ = execOps rest σ' := by
  simp [execOps, h]

theorem not_quiet_flag (addr w : Nat) {f : String} (hf : f = "CF" ∨ f = "ZF" ∨ f = "SF" ∨ f = "OF") : ¬ Quiet addr w f := by
  intro h; rcases hf with rfl | rfl | rfl | rfl
  · exact h.1 rfl
  · exact h.2.1 rfl
  · exact h.2.2.1 rfl
  · exact h.2.2.2.1 rfl

theorem not_quiet_temp (addr w : Nat) : ¬ Quiet addr w (temp addr 0 w).name := fun h => h.2.2.2.2 rfl

/-- one step: the builder's temporary -/
theorem step_temp {σ0 σ : State} {st : St} {addr w : Nat} (ha : Abs σ st) (hp : Pre σ0 σ addr w) {e : Expr} {r : BitVec w}
    (he : Ev σ e w r) :
    ∃ σ', execute σ (.assign (temp addr 0 w) e) = .ok (σ', .fallThrough) ∧ Abs σ' st ∧ Pre σ0 σ' addr w ∧
      σ'.get (temp addr 0 w).name = some (ofBV r) :=
  ⟨_, exec_assign _ he, abs_set_temp ha addr 0 w _, hp.set _ (not_quiet_temp addr w) _, get_set_self _ _ _⟩

theorem step_cf {σ0 σ : State} {st : St} {addr w : Nat} (ha : Abs σ st) (hp : Pre σ0 σ addr w) {e : Expr} {b : Bool}
    (he : Ev σ e 1 (BitVec.ofBool b)) :
    ∃ σ', execute σ (.assign (X86Lift.scalar "CF" 1) e) = .ok (σ', .fallThrough) ∧ Abs σ' { st with cf := b } ∧
      Pre σ0 σ' addr w ∧ σ'.get (temp addr 0 w).name = σ.get (temp addr 0 w).name := by
  refine ⟨_, exec_assign _ he, ?_, hp.set _ (not_quiet_flag addr w (Or.inl rfl)) _, ?_⟩
  · simpa [X86Lift.scalar] using abs_set_cf ha b
  · simp only [X86Lift.scalar]; rw [get_set_ne _ _ (temp_ne_flag (by simp [flagNames]) addr 0 w)]

theorem step_zf {σ0 σ : State} {st : St} {addr w : Nat} (ha : Abs σ st) (hp : Pre σ0 σ addr w) {e : Expr} {b : Bool}
    (he : Ev σ e 1 (BitVec.ofBool b)) :
    ∃ σ', execute σ (.assign (X86Lift.scalar "ZF" 1) e) = .ok (σ', .fallThrough) ∧ Abs σ' { st with zf := b } ∧
      Pre σ0 σ' addr w ∧ σ'.get (temp addr 0 w).name = σ.get (temp addr 0 w).name := by
  refine ⟨_, exec_assign _ he, ?_, hp.set _ (not_quiet_flag addr w (Or.inr (Or.inl rfl))) _, ?_⟩
  · simpa [X86Lift.scalar] using abs_set_zf ha b
  · simp only [X86Lift.scalar]; rw [get_set_ne _ _ (temp_ne_flag (by simp [flagNames]) addr 0 w)]

theorem step_sf {σ0 σ : State} {st : St} {addr w : Nat} (ha : Abs σ st) (hp : Pre σ0 σ addr w) {e : Expr} {b : Bool}
    (he : Ev σ e 1 (BitVec.ofBool b)) :
    ∃ σ', execute σ (.assign (X86Lift.scalar "SF" 1) e) = .ok (σ', .fallThrough) ∧ Abs σ' { st with sf := b } ∧
      Pre σ0 σ' addr w ∧ σ'.get (temp addr 0 w).name = σ.get (temp addr 0 w).name := by
  refine ⟨_, exec_assign _ he, ?_, hp.set _ (not_quiet_flag addr w (Or.inr (Or.inr (Or.inl rfl)))) _, ?_⟩
  · simpa [X86Lift.scalar] using abs_set_sf ha b
  · simp only [X86Lift.scalar]; rw [get_set_ne _ _ (temp_ne_flag (by simp [flagNames]) addr 0 w)]

theorem step_of {σ0 σ : State} {st : St} {addr w : Nat} (ha : Abs σ st) (hp : Pre σ0 σ addr w) {e : Expr} {b : Bool}
    (he : Ev σ e 1 (BitVec.ofBool b)) :
    ∃ σ', execute σ (.assign (X86Lift.scalar "OF" 1) e) = .ok (σ', .fallThrough) ∧ Abs σ' { st with of := b } ∧
      Pre σ0 σ' addr w ∧ σ'.get (temp addr 0 w).name = σ.get (temp addr 0 w).name := by
  refine ⟨_, exec_assign _ he, ?_, hp.set _ (not_quiet_flag addr w (Or.inr (Or.inr (Or.inr rfl)))) _, ?_⟩
  · simpa [X86Lift.scalar] using abs_set_of ha b
  · simp only [X86Lift.scalar]; rw [get_set_ne _ _ (temp_ne_flag (by simp [flagNames]) addr 0 w)]

/-! ### the prefixes -/

def arithPre (op : BinOp) (sub : Bool) (addr w : Nat) (le se : Expr) : List Op :=
  [.assign (temp addr 0 w) (.bin op le se),
   .assign (X86Lift.scalar "ZF" 1) (zfE (.scalar (temp addr 0 w)) w),
   .assign (X86Lift.scalar "SF" 1) (sfE (.scalar (temp addr 0 w)) w),
   .assign (X86Lift.scalar "OF" 1) (ofE (.scalar (temp addr 0 w)) le se sub w),
   .assign (X86Lift.scalar "CF" 1) (if sub then cfSubE (.scalar (temp addr 0 w)) le else cfAddE (.scalar (temp addr 0 w)) le)]

/-- `logicE` for arbitrary operands -/
def logicE' (m : String) (w : Nat) (le se : Expr) : Expr :=
  if m = "xor" ∧ le = se then Expr.ec 0 w else .bin (logicOp m) le se

def logicPre (m : String) (addr w : Nat) (le se : Expr) : List Op :=
  [.assign (temp addr 0 w) (logicE' m w le se),
   .assign (X86Lift.scalar "ZF" 1) (zfE (.scalar (temp addr 0 w)) w),
   .assign (X86Lift.scalar "SF" 1) (sfE (.scalar (temp addr 0 w)) w),
   .assign (X86Lift.scalar "CF" 1) (Expr.ec 0 1),
   .assign (X86Lift.scalar "OF" 1) (Expr.ec 0 1)]

def cmpPre (w : Nat) (le se : Expr) : List Op :=
  [.assign (X86Lift.scalar "ZF" 1) (zfE (.bin .sub le se) w),
   .assign (X86Lift.scalar "SF" 1) (sfE (.bin .sub le se) w),
   .assign (X86Lift.scalar "OF" 1) (ofE (.bin .sub le se) le se true w),
   .assign (X86Lift.scalar "CF" 1) (cfSubE (.bin .sub le se) le)]

theorem ev_logicE' {m : String} (hm : m = "and" ∨ m = "or" ∨ m = "xor") {σ : State} {w : Nat} {le se : Expr} {a b : BitVec w}
    (hl : Ev σ le w a) (hr : Ev σ se w b) : Ev σ (logicE' m w le se) w (logicFn m a b) := by
  rcases hm with rfl | rfl | rfl
  · simpa [logicE', logicOp, logicFn] using Ev.and hl hr
  · simpa [logicE', logicOp, logicFn] using Ev.or hl hr
  · by_cases he : le = se
    · have hab : a = b := ev_unique hl (he ▸ hr)
      subst hab
      have := Ev.ec (σ := σ) 0 w
      simpa [logicE', logicFn, he] using this
    · simpa [logicE', logicOp, logicFn, he] using Ev.xor hl hr

/-- add / sub: after the prefix the state holds `(addWith|subWith st a b false).2` and the temporary the result -/
theorem core_arith (sub : Bool) {w : Nat} (hw : OpWidth w) {addr : Nat} {le se : Expr} {a b : BitVec w}
    (σ : State) (st : St) (ha : Abs σ st) (hl : Opd σ st addr w le a) (hs : Opd σ st addr w se b) (tail : List Op) :
    ∃ σ', execOps (arithPre (if sub then .sub else .add) sub addr w le se ++ tail) σ = execOps tail σ' ∧
      Abs σ' (if sub then (subWith st a b false).2 else (addWith st a b false).2) ∧ Pre σ σ' addr w ∧
      σ'.get (temp addr 0 w).name = some (ofBV (if sub then a - b else a + b)) := by
  have hp0 := Pre.refl σ addr w
  cases sub with
  | false =>
    obtain ⟨σ1, e1, ha1, hp1, ht1⟩ := step_temp ha hp0 (Ev.add (hl.ev ha rfl hp0) (hs.ev ha rfl hp0))
    obtain ⟨σ2, e2, ha2, hp2, ht2'⟩ := step_zf ha1 hp1 (ev_zfE (Ev.scalar (s := temp addr 0 w) ht1))
    have ht2 := ht2'.trans ht1
    obtain ⟨σ3, e3, ha3, hp3, ht3'⟩ := step_sf ha2 hp2 (ev_sfE hw (Ev.scalar (s := temp addr 0 w) ht2))
    have ht3 := ht3'.trans ht2
    obtain ⟨σ4, e4, ha4, hp4, ht4'⟩ := step_of ha3 hp3 (ev_ofE hw false (Ev.scalar (s := temp addr 0 w) ht3)
      (hl.ev (st := st) ha3 rfl hp3) (hs.ev (st := st) ha3 rfl hp3))
    have ht4 := ht4'.trans ht3
    obtain ⟨σ5, e5, ha5, hp5, ht5'⟩ := step_cf ha4 hp4 (ev_cfAddE (Ev.scalar (s := temp addr 0 w) ht4) (hl.ev (st := st) ha4 rfl hp4))
    have ht5 := ht5'.trans ht4
    refine ⟨σ5, ?_, Eq.mp (congrArg (Abs _) ?_) ha5, hp5, ht5⟩
    · simp only [arithPre, Bool.false_eq_true, ↓reduceIte, List.cons_append, List.nil_append]
      rw [execOps_ok _ e1, execOps_ok _ e2, execOps_ok _ e3, execOps_ok _ e4, execOps_ok _ e5]
    · simp only [Bool.false_eq_true, ↓reduceIte, addWith, setSZ, ← add_cf_eq hw, ← add_of_eq hw, ← sf_eq hw]
      simp
  | true =>
    obtain ⟨σ1, e1, ha1, hp1, ht1⟩ := step_temp ha hp0 (Ev.sub (hl.ev ha rfl hp0) (hs.ev ha rfl hp0))
    obtain ⟨σ2, e2, ha2, hp2, ht2'⟩ := step_zf ha1 hp1 (ev_zfE (Ev.scalar (s := temp addr 0 w) ht1))
    have ht2 := ht2'.trans ht1
    obtain ⟨σ3, e3, ha3, hp3, ht3'⟩ := step_sf ha2 hp2 (ev_sfE hw (Ev.scalar (s := temp addr 0 w) ht2))
    have ht3 := ht3'.trans ht2
    obtain ⟨σ4, e4, ha4, hp4, ht4'⟩ := step_of ha3 hp3 (ev_ofE hw true (Ev.scalar (s := temp addr 0 w) ht3)
      (hl.ev (st := st) ha3 rfl hp3) (hs.ev (st := st) ha3 rfl hp3))
    have ht4 := ht4'.trans ht3
    obtain ⟨σ5, e5, ha5, hp5, ht5'⟩ := step_cf ha4 hp4 (ev_cfSubE (Ev.scalar (s := temp addr 0 w) ht4) (hl.ev (st := st) ha4 rfl hp4))
    have ht5 := ht5'.trans ht4
    refine ⟨σ5, ?_, Eq.mp (congrArg (Abs _) ?_) ha5, hp5, ht5⟩
    · simp only [arithPre, ↓reduceIte, List.cons_append, List.nil_append]
      rw [execOps_ok _ e1, execOps_ok _ e2, execOps_ok _ e3, execOps_ok _ e4, execOps_ok _ e5]
    · simp only [↓reduceIte, subWith, setSZ, ← sub_cf_eq hw, ← sub_of_eq hw, ← sf_eq hw]
      simp

theorem core_logic {m : String} (hm : m = "and" ∨ m = "or" ∨ m = "xor") {w : Nat} (hw : OpWidth w) {addr : Nat}
    {le se : Expr} {a b : BitVec w}
    (σ : State) (st : St) (ha : Abs σ st) (hl : Opd σ st addr w le a) (hs : Opd σ st addr w se b) (tail : List Op) :
    ∃ σ', execOps (logicPre m addr w le se ++ tail) σ = execOps tail σ' ∧
      Abs σ' (logic st (logicFn m a b)) ∧ Pre σ σ' addr w ∧
      σ'.get (temp addr 0 w).name = some (ofBV (logicFn m a b)) := by
  have hp0 := Pre.refl σ addr w
  obtain ⟨σ1, e1, ha1, hp1, ht1⟩ := step_temp ha hp0 (ev_logicE' hm (hl.ev ha rfl hp0) (hs.ev ha rfl hp0))
  obtain ⟨σ2, e2, ha2, hp2, ht2'⟩ := step_zf ha1 hp1 (ev_zfE (Ev.scalar (s := temp addr 0 w) ht1))
  have ht2 := ht2'.trans ht1
  obtain ⟨σ3, e3, ha3, hp3, ht3'⟩ := step_sf ha2 hp2 (ev_sfE hw (Ev.scalar (s := temp addr 0 w) ht2))
  have ht3 := ht3'.trans ht2
  obtain ⟨σ4, e4, ha4, hp4, ht4'⟩ := step_cf ha3 hp3 ev_zero1
  have ht4 := ht4'.trans ht3
  obtain ⟨σ5, e5, ha5, hp5, ht5'⟩ := step_of ha4 hp4 ev_zero1
  have ht5 := ht5'.trans ht4
  refine ⟨σ5, ?_, Eq.mp (congrArg (Abs _) ?_) ha5, hp5, ht5⟩
  · simp only [logicPre, List.cons_append, List.nil_append]
    rw [execOps_ok _ e1, execOps_ok _ e2, execOps_ok _ e3, execOps_ok _ e4, execOps_ok _ e5]
  · simp [logic, setSZ]

theorem core_cmp {w : Nat} (hw : OpWidth w) {addr : Nat} {le se : Expr} {a b : BitVec w}
    (σ : State) (st : St) (ha : Abs σ st) (hl : Opd σ st addr w le a) (hs : Opd σ st addr w se b) (tail : List Op)
    :
    ∃ σ', execOps (cmpPre w le se ++ tail) σ = execOps tail σ' ∧
      Abs σ' (subWith st a b false).2 ∧ Pre σ σ' addr w := by
  have hp0 := Pre.refl σ addr w
  have ev : ∀ {σ' st'}, Abs σ' st' → st'.gpr = st.gpr → Pre σ σ' addr w → Ev σ' (.bin .sub le se) w (a - b) :=
    fun h hg hp => Ev.sub (hl.ev h hg hp) (hs.ev h hg hp)
  obtain ⟨σ2, e2, ha2, hp2, ht2'⟩ := step_zf ha hp0 (ev_zfE (ev ha rfl hp0))
  obtain ⟨σ3, e3, ha3, hp3, ht3⟩ := step_sf ha2 hp2 (ev_sfE hw (ev (st' := _) ha2 rfl hp2))
  obtain ⟨σ4, e4, ha4, hp4, ht4'⟩ := step_of ha3 hp3 (ev_ofE hw true (ev ha3 rfl hp3)
    (hl.ev (st := st) ha3 rfl hp3) (hs.ev (st := st) ha3 rfl hp3))
  obtain ⟨σ5, e5, ha5, hp5, ht5'⟩ := step_cf ha4 hp4 (ev_cfSubE (ev ha4 rfl hp4) (hl.ev (st := st) ha4 rfl hp4))
  refine ⟨σ5, ?_, Eq.mp (congrArg (Abs _) ?_) ha5, hp5⟩
  · simp only [cmpPre, List.cons_append, List.nil_append]
    rw [execOps_ok _ e2, execOps_ok _ e3, execOps_ok _ e4, execOps_ok _ e5]
  · simp only [subWith, setSZ, ← sub_cf_eq hw, ← sub_of_eq hw, ← sf_eq hw]
    simp

end C01
end Falcon
