/-
  C01 — `X86Register::get` / `set` at the IL level (mirror: `X86Lift.regGet`, `X86Lift.regSetExpr`), 64-bit mode:
  for each of the five register shapes (64-bit, 32-bit, 16-bit, low byte, high byte) the expression the lifter builds
  exists (no sort error) and denotes the architecture's sub-register read (`X86.getReg`) resp. the full register after
  the architecture's sub-register write (`X86.mergeReg`), for all register contents and all written values.
-/
import FalconModel.Isa.X86Lift
import FalconModel.Sem
import FalconProofs.C01.FlagsIL
import FalconProofs.C01.SubReg
import Std.Tactic.BVDecide

namespace Falcon.C01
open Falcon Falcon.X86 Falcon.X86Lift Falcon.Const Falcon.Spec Falcon.Sem


theorem n16 : lowMask 16 % 2 ^ 64 = 0xffffffffffff0000 := by decide
theorem m16 : BitVec.ofNat 64 0xffffffffffff0000 = BitVec.allOnes 64 <<< 16 := by bv_decide
theorem n8 : lowMask 8 % 2 ^ 64 = 0xffffffffffffff00 := by decide
theorem m8 : BitVec.ofNat 64 0xffffffffffffff00 = BitVec.allOnes 64 <<< 8 := by bv_decide
theorem nh : highMask 8 8 % 2 ^ 64 = 0xffffffffffff00ff := by decide
theorem mh : BitVec.ofNat 64 0xffffffffffff00ff = ~~~(0xff#64 <<< 8) := by bv_decide

/-- the five shapes of a general register operand in 64-bit mode -/
inductive Shape : GReg → Prop where
  | r64 (i : Nat) : Shape ⟨i, 64, 0⟩
  | r32 (i : Nat) : Shape ⟨i, 32, 0⟩
  | r16 (i : Nat) : Shape ⟨i, 16, 0⟩
  | r8 (i : Nat) : Shape ⟨i, 8, 0⟩
  | h8 (i : Nat) : Shape ⟨i, 8, 8⟩

theorem val_full (σ : State) (n : String) (x : BitVec 64) (h : σ.get n = some (ofBV x)) : Val σ (sc n 64) x := by
  constructor
  · simp [value, sc, h]
  · rfl

theorem value_zext (σ : State) (e : Expr) {w : Nat} (x : BitVec w) (m : Nat) (h : Val σ e x) (hm : w < m) :
    value σ (.ext .zext m e) = .ok (ofBV (x.zeroExtend m)) := by
  simp only [value, h.1, bind, Res.bind, Spec.ext, ofBV_bits, toBV_ofBV]
  simp [Nat.not_le.mpr hm]

/-- reading a register operand -/
theorem regGet_value (σ : State) (r : GReg) (hr : Shape r) (x : BitVec 64)
    (h : σ.get (fullName .amd64 r.idx) = some (ofBV x)) :
    ∃ e, regGet .amd64 r = .ok e ∧ Val σ e (((x >>> r.off).setWidth r.bits).setWidth r.bits) := by
  have hf := val_full σ _ x h
  cases hr with
  | r64 i =>
    refine ⟨sc (fullName .amd64 i) 64, rfl, ?_⟩
    simpa using hf
  | r32 i =>
    refine ⟨.ext .trun 32 (sc (fullName .amd64 i) 64), by simp [regGet, Mode.bits, Expr.mkExt, Expr.bits, sc], ?_, rfl⟩
    rw [value_trun σ _ x 32 hf (by omega)]; simp [BitVec.truncate]
  | r16 i =>
    refine ⟨.ext .trun 16 (sc (fullName .amd64 i) 64), by simp [regGet, Mode.bits, Expr.mkExt, Expr.bits, sc], ?_, rfl⟩
    rw [value_trun σ _ x 16 hf (by omega)]; simp [BitVec.truncate]
  | r8 i =>
    refine ⟨.ext .trun 8 (sc (fullName .amd64 i) 64), by simp [regGet, Mode.bits, Expr.mkExt, Expr.bits, sc], ?_, rfl⟩
    rw [value_trun σ _ x 8 hf (by omega)]; simp [BitVec.truncate]
  | h8 i =>
    have hk : Val σ (Expr.ec 8 64) (8#64) := by simpa using val_ec σ 8 64
    have hs : Val σ (.bin .shr (sc (fullName .amd64 i) 64) (Expr.ec 8 64)) (x >>> 8) := by
      refine val_bin σ .shr _ _ x _ _ hf hk ?_ rfl
      simp [binBV, Spec.shr]
    refine ⟨.ext .trun 8 (.bin .shr (sc (fullName .amd64 i) 64) (Expr.ec 8 64)),
      by simp [regGet, Mode.bits, Expr.mkBin, Expr.mkExt, Expr.bits, sc, BinOp.isCmp, bind, Res.bind], ?_, rfl⟩
    rw [value_trun σ _ _ 8 hs (by omega)]; simp [BitVec.truncate]

/-- writing a register operand: the value assigned to the full register is the architecture's merge -/
theorem regSet_value (σ : State) (r : GReg) (hr : Shape r) (x : BitVec 64) (ve : Expr) (v : BitVec r.bits)
    (h : σ.get (fullName .amd64 r.idx) = some (ofBV x)) (hv : Val σ ve v) :
    ∃ e, regSetExpr .amd64 r ve = .ok e ∧ Val σ e (mergeReg x r (v.setWidth 64)) := by
  have hf := val_full σ _ x h
  cases hr with
  | r64 i =>
    refine ⟨ve, rfl, ?_⟩
    have : mergeReg x ⟨i, 64, 0⟩ (BitVec.setWidth 64 v) = v := by simp [mergeReg]
    rw [this]; exact hv
  | r32 i =>
    refine ⟨.ext .zext 64 ve, by simp [regSetExpr, Mode.bits, Expr.mkExt, hv.2], ?_, rfl⟩
    rw [value_zext σ ve v 64 hv (by simp), set32]; rfl
  | r16 i =>
    have hm : Val σ (Expr.ec (lowMask 16) 64) (BitVec.allOnes 64 <<< 16) := by
      have := val_ec σ (lowMask 16) 64
      rw [n16, m16] at this; exact this
    have ha : Val σ (.bin .and (sc (fullName .amd64 i) 64) (Expr.ec (lowMask 16) 64)) (x &&& (BitVec.allOnes 64 <<< 16)) :=
      val_bin σ .and _ _ _ _ _ hf hm rfl rfl
    have hz : Val σ (.ext .zext 64 ve) (v.zeroExtend 64) := ⟨value_zext σ ve v 64 hv (by simp), rfl⟩
    refine ⟨.bin .or (.bin .and (sc (fullName .amd64 i) 64) (Expr.ec (lowMask 16) 64)) (.ext .zext 64 ve),
      by simp [regSetExpr, Mode.bits, Expr.mkBin, Expr.mkExt, Expr.bits, sc, BinOp.isCmp, bind, Res.bind, hv.2], ?_⟩
    rw [set16]; exact val_bin σ .or _ _ _ _ _ ha hz rfl rfl
  | r8 i =>
    have hm : Val σ (Expr.ec (lowMask 8) 64) (BitVec.allOnes 64 <<< 8) := by
      have := val_ec σ (lowMask 8) 64
      rw [n8, m8] at this; exact this
    have ha : Val σ (.bin .and (sc (fullName .amd64 i) 64) (Expr.ec (lowMask 8) 64)) (x &&& (BitVec.allOnes 64 <<< 8)) :=
      val_bin σ .and _ _ _ _ _ hf hm rfl rfl
    have hz : Val σ (.ext .zext 64 ve) (v.zeroExtend 64) := ⟨value_zext σ ve v 64 hv (by simp), rfl⟩
    refine ⟨.bin .or (.bin .and (sc (fullName .amd64 i) 64) (Expr.ec (lowMask 8) 64)) (.ext .zext 64 ve),
      by simp [regSetExpr, Mode.bits, Expr.mkBin, Expr.mkExt, Expr.bits, sc, BinOp.isCmp, bind, Res.bind, hv.2], ?_⟩
    rw [set8]; exact val_bin σ .or _ _ _ _ _ ha hz rfl rfl
  | h8 i =>
    have hm : Val σ (Expr.ec (highMask 8 8) 64) (~~~(0xff#64 <<< 8)) := by
      have := val_ec σ (highMask 8 8) 64
      rw [nh, mh] at this; exact this
    have ha : Val σ (.bin .and (sc (fullName .amd64 i) 64) (Expr.ec (highMask 8 8) 64)) (x &&& ~~~(0xff#64 <<< 8)) :=
      val_bin σ .and _ _ _ _ _ hf hm rfl rfl
    have hz : Val σ (.ext .zext 64 ve) (v.zeroExtend 64) := ⟨value_zext σ ve v 64 hv (by simp), rfl⟩
    have hk : Val σ (Expr.ec 8 64) (8#64) := by simpa using val_ec σ 8 64
    have hs : Val σ (.bin .shl (.ext .zext 64 ve) (Expr.ec 8 64)) (v.zeroExtend 64 <<< 8) := by
      refine val_bin σ .shl _ _ _ _ _ hz hk ?_ rfl
      simp [binBV, Spec.shl]
    refine ⟨.bin .or (.bin .and (sc (fullName .amd64 i) 64) (Expr.ec (highMask 8 8) 64))
        (.bin .shl (.ext .zext 64 ve) (Expr.ec 8 64)),
      by simp [regSetExpr, Mode.bits, Expr.mkBin, Expr.mkExt, Expr.bits, sc, BinOp.isCmp, bind, Res.bind, hv.2], ?_⟩
    rw [set8h]; exact val_bin σ .or _ _ _ _ _ ha hs rfl rfl

end Falcon.C01
