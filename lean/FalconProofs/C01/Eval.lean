/-
  FalconProofs.C01.Eval (the rules of FalconProofs/C03/Eval.lean, copied so that C01 does not depend on another property's files) — compositional evaluation of IL expressions to bit-vectors.

  `Ev σ e n v`: `State::symbolize_expression` succeeds on `e`, the result has width `n`, and evaluating it
  gives the constant of the `n`-bit vector `v`.  One rule per IL operator the x86 lifter emits; the
  operator meanings are C04's theorems (`Falcon.C04.*_spec`), nothing is re-proved about `Const`.
-/
import FalconProofs.Props.C04
import FalconModel.Exec

namespace Falcon
namespace C01
open Const

def Ev (σ : State) (e : Expr) (n : Nat) (v : BitVec n) : Prop :=
  ∃ e', σ.symbolize e = .ok e' ∧ e'.bits = n ∧ e'.eval = .ok (ofBV v)

theorem Ev.evalIn {σ : State} {e : Expr} {n : Nat} {v : BitVec n} (h : Ev σ e n v) :
    σ.evalIn e = .ok (ofBV v) := by
  obtain ⟨e', h1, _, h3⟩ := h
  simp [State.evalIn, h1, h3]

theorem Ev.scalar {σ : State} {s : Scalar} {n : Nat} {v : BitVec n} (h : σ.get s.name = some (ofBV v)) :
    Ev σ (.scalar s) n v :=
  ⟨.const (ofBV v), by simp [State.symbolize, h], rfl, rfl⟩

theorem Ev.const {σ : State} {n : Nat} (v : BitVec n) : Ev σ (.const (ofBV v)) n v :=
  ⟨.const (ofBV v), rfl, rfl, rfl⟩

/-- a literal constant `⟨n, a⟩` with `a < 2^n` -/
theorem Ev.lit {σ : State} {n a : Nat} (h : a < 2 ^ n) : Ev σ (.const ⟨n, a⟩) n (BitVec.ofNat n a) := by
  have : (⟨n, a⟩ : Const) = ofBV (BitVec.ofNat n a) := by
    simp [ofBV, BitVec.toNat_ofNat, Nat.mod_eq_of_lt h]
  rw [this]; exact Ev.const _

/-- any non-comparison operator whose meaning on bit-vectors is `f` -/
theorem Ev.bin {σ : State} {op : BinOp} {l r : Expr} {n : Nat} {x y z : BitVec n}
    (hl : Ev σ l n x) (hr : Ev σ r n y) (hcmp : op.isCmp = false)
    (hop : op.apply (ofBV x) (ofBV y) = .ok (ofBV z)) : Ev σ (.bin op l r) n z := by
  obtain ⟨l', hl1, hl2, hl3⟩ := hl
  obtain ⟨r', hr1, hr2, hr3⟩ := hr
  refine ⟨.bin op l' r', ?_, ?_, ?_⟩
  · simp [State.symbolize, hl1, hr1, Expr.mkBin, hl2, hr2]
  · simp [Expr.bits, hcmp, hl2]
  · simp [Expr.eval, hl3, hr3, hop]

/-- a comparison operator: the result is one bit -/
theorem Ev.cmp {σ : State} {op : BinOp} {l r : Expr} {n : Nat} {x y : BitVec n} {b : Bool}
    (hl : Ev σ l n x) (hr : Ev σ r n y) (hcmp : op.isCmp = true)
    (hop : op.apply (ofBV x) (ofBV y) = .ok (Const.bit b)) : Ev σ (.bin op l r) 1 (BitVec.ofBool b) := by
  obtain ⟨l', hl1, hl2, hl3⟩ := hl
  obtain ⟨r', hr1, hr2, hr3⟩ := hr
  refine ⟨.bin op l' r', ?_, ?_, ?_⟩
  · simp [State.symbolize, hl1, hr1, Expr.mkBin, hl2, hr2]
  · simp [Expr.bits, hcmp]
  · simp only [Expr.eval, hl3, hr3, Res.bind_ok, hop]
    cases b <;> rfl

theorem Ev.add {σ : State} {l r : Expr} {n : Nat} {x y : BitVec n} (hl : Ev σ l n x) (hr : Ev σ r n y) :
    Ev σ (.bin .add l r) n (x + y) := Ev.bin hl hr rfl (C04.add_spec x y)

theorem Ev.sub {σ : State} {l r : Expr} {n : Nat} {x y : BitVec n} (hl : Ev σ l n x) (hr : Ev σ r n y) :
    Ev σ (.bin .sub l r) n (x - y) := Ev.bin hl hr rfl (C04.sub_spec x y)

theorem Ev.and {σ : State} {l r : Expr} {n : Nat} {x y : BitVec n} (hl : Ev σ l n x) (hr : Ev σ r n y) :
    Ev σ (.bin .and l r) n (x &&& y) := Ev.bin hl hr rfl (C04.and_spec x y)

theorem Ev.or {σ : State} {l r : Expr} {n : Nat} {x y : BitVec n} (hl : Ev σ l n x) (hr : Ev σ r n y) :
    Ev σ (.bin .or l r) n (x ||| y) := Ev.bin hl hr rfl (C04.or_spec x y)

theorem Ev.shl {σ : State} {l r : Expr} {n : Nat} {x y : BitVec n} (h64 : n < 2 ^ 64)
    (hl : Ev σ l n x) (hr : Ev σ r n y) : Ev σ (.bin .shl l r) n (x <<< y.toNat) :=
  Ev.bin hl hr rfl (C04.shl_spec h64 x y)

theorem Ev.shr {σ : State} {l r : Expr} {n : Nat} {x y : BitVec n} (h64 : n < 2 ^ 64)
    (hl : Ev σ l n x) (hr : Ev σ r n y) : Ev σ (.bin .shr l r) n (x >>> y.toNat) :=
  Ev.bin hl hr rfl (C04.shr_spec h64 x y)

theorem Ev.ashr {σ : State} {l r : Expr} {n : Nat} {x y : BitVec n} (hn : 1 ≤ n) (h64 : n < 2 ^ 64)
    (hl : Ev σ l n x) (hr : Ev σ r n y) : Ev σ (.bin .ashr l r) n (x.sshiftRight y.toNat) :=
  Ev.bin hl hr rfl (C04.ashr_spec hn h64 x y)

theorem Ev.cmpeq {σ : State} {l r : Expr} {n : Nat} {x y : BitVec n} (hl : Ev σ l n x) (hr : Ev σ r n y) :
    Ev σ (.bin .cmpeq l r) 1 (BitVec.ofBool (x == y)) := Ev.cmp hl hr rfl (C04.cmpeq_spec x y)

theorem Ev.cmpneq {σ : State} {l r : Expr} {n : Nat} {x y : BitVec n} (hl : Ev σ l n x) (hr : Ev σ r n y) :
    Ev σ (.bin .cmpneq l r) 1 (BitVec.ofBool (x != y)) := Ev.cmp hl hr rfl (C04.cmpneq_spec x y)

theorem Ev.cmplts {σ : State} {l r : Expr} {n : Nat} {x y : BitVec n} (hn : 1 ≤ n)
    (hl : Ev σ l n x) (hr : Ev σ r n y) :
    Ev σ (.bin .cmplts l r) 1 (BitVec.ofBool (x.slt y)) := Ev.cmp hl hr rfl (C04.cmplts_spec hn x y)

theorem Ev.zext {σ : State} {e : Expr} {n : Nat} {x : BitVec n} (m : Nat) (hn : 1 ≤ n) (hm : n < m)
    (he : Ev σ e n x) : Ev σ (.ext .zext m e) m (x.zeroExtend m) := by
  obtain ⟨e', h1, h2, h3⟩ := he
  refine ⟨.ext .zext m e', ?_, rfl, ?_⟩
  · have : ¬ (n ≥ m ∨ n = 0) := by omega
    simp [State.symbolize, h1, Expr.mkExt, h2, this]
  · have := C04.zext_spec x m
    rw [if_neg (by omega)] at this
    simp [Expr.eval, h3, ExtOp.apply, this]

theorem Ev.sext {σ : State} {e : Expr} {n : Nat} {x : BitVec n} (m : Nat) (hn : 1 ≤ n) (hm : n < m)
    (he : Ev σ e n x) : Ev σ (.ext .sext m e) m (x.signExtend m) := by
  obtain ⟨e', h1, h2, h3⟩ := he
  refine ⟨.ext .sext m e', ?_, rfl, ?_⟩
  · have : ¬ (n ≥ m ∨ n = 0) := by omega
    simp [State.symbolize, h1, Expr.mkExt, h2, this]
  · have := C04.sext_spec hn x m
    rw [if_neg (by omega)] at this
    simp [Expr.eval, h3, ExtOp.apply, this]

theorem Ev.trun {σ : State} {e : Expr} {n : Nat} {x : BitVec n} (m : Nat) (hm0 : 1 ≤ m) (hm : m < n)
    (he : Ev σ e n x) : Ev σ (.ext .trun m e) m (x.truncate m) := by
  obtain ⟨e', h1, h2, h3⟩ := he
  refine ⟨.ext .trun m e', ?_, rfl, ?_⟩
  · have : ¬ (n ≤ m ∨ n = 0) := by omega
    simp [State.symbolize, h1, Expr.mkExt, h2, this]
  · have := C04.trun_spec x m
    rw [if_neg (by omega)] at this
    simp [Expr.eval, h3, ExtOp.apply, this]


theorem Ev.mul {σ : State} {l r : Expr} {n : Nat} {x y : BitVec n} (hl : Ev σ l n x) (hr : Ev σ r n y) :
    Ev σ (.bin .mul l r) n (x * y) := Ev.bin hl hr rfl (C04.mul_spec x y)

theorem Ev.xor {σ : State} {l r : Expr} {n : Nat} {x y : BitVec n} (hl : Ev σ l n x) (hr : Ev σ r n y) :
    Ev σ (.bin .xor l r) n (x ^^^ y) := Ev.bin hl hr rfl (C04.xor_spec x y)

theorem Ev.cmpltu {σ : State} {l r : Expr} {n : Nat} {x y : BitVec n} (hl : Ev σ l n x) (hr : Ev σ r n y) :
    Ev σ (.bin .cmpltu l r) 1 (BitVec.ofBool (x.ult y)) := Ev.cmp hl hr rfl (C04.cmpltu_spec x y)

/-- `il::expr_const(v, bits)` -/
theorem Ev.ec {σ : State} (v b : Nat) : Ev σ (Expr.ec v b) b (BitVec.ofNat b (v % 2 ^ 64)) := by
  unfold Expr.ec; rw [new_eq_ofBV]; exact Ev.const _

theorem Ev.cast {σ : State} {e : Expr} {n : Nat} {v w : BitVec n} (h : Ev σ e n v) (hvw : v = w) : Ev σ e n w := hvw ▸ h

end C01
end Falcon
