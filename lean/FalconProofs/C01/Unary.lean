/-
  FalconProofs.C01.Unary — instruction-level agreement for `inc / dec / neg / not  r` in 64-bit mode, all five
  register shapes.
-/
import FalconProofs.C01.Alu

namespace Falcon
namespace C01
open Const X86 X86Lift
open C07 (get_set get_set_self get_set_ne)

theorem ev_one {σ : State} {w : Nat} (hw : OpWidth w) : Ev σ (Expr.ec 1 w) w (1 : BitVec w) := by
  have := Ev.ec (σ := σ) 1 w
  refine this.cast ?_
  rcases hw with rfl | rfl | rfl | rfl <;> decide

theorem ev_zero {σ : State} {w : Nat} : Ev σ (Expr.ec 0 w) w (0 : BitVec w) := by
  simpa using Ev.ec (σ := σ) 0 w

theorem ev_ones {σ : State} {w : Nat} (hw : OpWidth w) : Ev σ (Expr.ec 0xffffffffffffffff w) w (BitVec.allOnes w) :=
  (Ev.ec (σ := σ) 0xffffffffffffffff w).cast (ones_eq hw)

/-! ### the operation lists -/

def incDecOps (op : BinOp) (sub : Bool) (d : GReg) : List Op :=
  [.assign (X86Lift.scalar "ZF" 1) (zfE (.bin op (getE d) (Expr.ec 1 d.bits)) d.bits),
   .assign (X86Lift.scalar "SF" 1) (sfE (.bin op (getE d) (Expr.ec 1 d.bits)) d.bits),
   .assign (X86Lift.scalar "OF" 1) (ofE (.bin op (getE d) (Expr.ec 1 d.bits)) (getE d) (Expr.ec 1 d.bits) sub d.bits),
   .assign (X86Lift.scalar (rName d.idx) 64) (setE d (.bin op (getE d) (Expr.ec 1 d.bits)))]

def negOps (addr : Nat) (d : GReg) : List Op :=
  [.assign (X86Lift.scalar "CF" 1) (.bin .cmpneq (getE d) (Expr.ec 0 d.bits)),
   .assign (temp addr 0 d.bits) (.bin .sub (Expr.ec 0 d.bits) (getE d)),
   .assign (X86Lift.scalar "ZF" 1) (zfE (.scalar (temp addr 0 d.bits)) d.bits),
   .assign (X86Lift.scalar "SF" 1) (sfE (.scalar (temp addr 0 d.bits)) d.bits),
   .assign (X86Lift.scalar "OF" 1) (ofE (.scalar (temp addr 0 d.bits)) (Expr.ec 0 d.bits) (getE d) true d.bits),
   .assign (X86Lift.scalar (rName d.idx) 64) (setE d (.scalar (temp addr 0 d.bits)))]

def notOps (d : GReg) : List Op :=
  [.assign (X86Lift.scalar (rName d.idx) 64) (setE d (.bin .xor (getE d) (Expr.ec 0xffffffffffffffff d.bits)))]

theorem opsUn_inc {d : GReg} (hd : Shape d) (addr : Nat) : opsUn .amd64 "inc" addr d = .ok (incDecOps .add false d) := by
  have h2 : 2 ≤ d.bits := by rcases shape_bits hd with h | h | h | h <;> omega
  have hgd := getE_bits hd
  have he : (Expr.bin .add (getE d) (Expr.ec 1 d.bits)).bits = d.bits := by simp [Expr.bits, BinOp.isCmp, hgd]
  simp only [opsUn, regGet_eq hd, bind, Res.bind, hgd, pure, Expr.mkBin, ec_bits, ne_eq, not_true_eq_false, ↓reduceIte]
  rw [zfExpr_eq he, sfExpr_eq he h2, ofExpr_eq false he hgd (ec_bits 1 d.bits) h2]
  simp only [regSet, regSetExpr_eq hd he, bind, Res.bind, pure, Mode.bits, incDecOps]

theorem opsUn_dec {d : GReg} (hd : Shape d) (addr : Nat) : opsUn .amd64 "dec" addr d = .ok (incDecOps .sub true d) := by
  have h2 : 2 ≤ d.bits := by rcases shape_bits hd with h | h | h | h <;> omega
  have hgd := getE_bits hd
  have he : (Expr.bin .sub (getE d) (Expr.ec 1 d.bits)).bits = d.bits := by simp [Expr.bits, BinOp.isCmp, hgd]
  simp only [opsUn, regGet_eq hd, bind, Res.bind, hgd, pure, Expr.mkBin, ec_bits, ne_eq, not_true_eq_false, ↓reduceIte]
  rw [zfExpr_eq he, sfExpr_eq he h2, ofExpr_eq true he hgd (ec_bits 1 d.bits) h2]
  simp only [regSet, regSetExpr_eq hd he, bind, Res.bind, pure, Mode.bits, incDecOps]

theorem opsUn_neg {d : GReg} (hd : Shape d) (addr : Nat) : opsUn .amd64 "neg" addr d = .ok (negOps addr d) := by
  have h2 : 2 ≤ d.bits := by rcases shape_bits hd with h | h | h | h <;> omega
  have hgd := getE_bits hd
  simp only [opsUn, regGet_eq hd, bind, Res.bind, hgd, pure, Expr.mkBin, ec_bits, ne_eq, not_true_eq_false, ↓reduceIte]
  rw [zfExpr_eq (tempE_bits addr 0 d.bits), sfExpr_eq (tempE_bits addr 0 d.bits) h2,
    ofExpr_eq true (tempE_bits addr 0 d.bits) (ec_bits 0 d.bits) hgd h2]
  simp only [regSet, regSetExpr_eq hd (tempE_bits addr 0 d.bits), bind, Res.bind, pure, Mode.bits, negOps]

theorem opsUn_not {d : GReg} (hd : Shape d) (addr : Nat) : opsUn .amd64 "not" addr d = .ok (notOps d) := by
  have hgd := getE_bits hd
  have he : (Expr.bin .xor (getE d) (Expr.ec 0xffffffffffffffff d.bits)).bits = d.bits := by simp [Expr.bits, BinOp.isCmp, hgd]
  simp only [opsUn, regGet_eq hd, bind, Res.bind, hgd, pure, Expr.mkBin, ec_bits, ne_eq, not_true_eq_false, ↓reduceIte]
  simp only [regSet, regSetExpr_eq hd he, bind, Res.bind, pure, Mode.bits, notOps]

/-! ### the specification -/

theorem nextIp_1 (m : String) (addr len asz : Nat) (d : GReg) (h : addr + len < 2 ^ 64) :
    nextIp (ins1 m addr len asz d) = addr + len := by
  simp [nextIp, ins1, Mode.bits, Nat.mod_eq_of_lt h]

theorem unary_eval (m : String) (addr len asz : Nat) (d : GReg) (st : St)
    (f : (w : Nat) → St → BitVec w → BitVec w × St) (h : addr + len < 2 ^ 64) :
    unary (ins1 m addr len asz d) st f =
      .ok (setReg (f d.bits st (getReg st d d.bits)).2 d ((f d.bits st (getReg st d d.bits)).1.setWidth 64)) (addr + len) [] := by
  have hn := nextIp_1 m addr len asz d h
  simp only [unary, ins1, Opnd.bits, readOp, writeOp, orTrap, done, bind, Option.bind, pure, Option.getD] at hn ⊢
  rw [hn]

theorem step_un (m : String) (addr len asz : Nat) (d : GReg) (st : St) :
    (m = "inc" → step (ins1 m addr len asz d) st = unary (ins1 m addr len asz d) st (fun _ σ a =>
        ((addWith σ a 1 false).1, { (addWith σ a 1 false).2 with cf := σ.cf }))) ∧
    (m = "dec" → step (ins1 m addr len asz d) st = unary (ins1 m addr len asz d) st (fun _ σ a =>
        ((subWith σ a 1 false).1, { (subWith σ a 1 false).2 with cf := σ.cf }))) ∧
    (m = "neg" → step (ins1 m addr len asz d) st = unary (ins1 m addr len asz d) st (fun _ σ a =>
        ((subWith σ 0 a false).1, { (subWith σ 0 a false).2 with cf := a != 0 }))) ∧
    (m = "not" → step (ins1 m addr len asz d) st = unary (ins1 m addr len asz d) st (fun _ σ a => (~~~a, σ))) := by
  refine ⟨?_, ?_, ?_, ?_⟩ <;> intro hm <;> subst hm
  · have h : splitCc "inc" = none := by decide
    unfold step ins1; simp only [h]; simp
  · have h : splitCc "dec" = none := by decide
    unfold step ins1; simp only [h]; simp
  · have h : splitCc "neg" = none := by decide
    unfold step ins1; simp only [h]; simp
  · have h : splitCc "not" = none := by decide
    unfold step ins1; simp only [h]; simp

/-! ### agreement -/

theorem lift_inc {d : GReg} (hd : Shape d) (hdi : d.idx < 16) (addr len asz : Nat) (haddr : addr + len < 2 ^ 64)
    (σ : State) (st : St) (ha : Abs σ st) :
    ∃ r, liftUn .amd64 "inc" addr len d = .ok r ∧ Agrees r σ (ins1 "inc" addr len asz d) st := by
  have hw := shape_bits hd
  refine ⟨straight addr len (incDecOps .add false d), by simp [liftUn, opsUn_inc hd, bind, Res.bind, pure], ?_⟩
  have hne : ∀ f, f ∈ flagNames → rName d.idx ≠ f := fun f hf => rName_ne_flag hdi hf
  have ev : ∀ {σ' st'}, Abs σ' st' → st'.gpr = st.gpr →
      Ev σ' (.bin .add (getE d) (Expr.ec 1 d.bits)) d.bits (getReg st d d.bits + 1) :=
    fun h hg => Ev.add (ev_getE' h hg hd hdi rfl) (ev_one hw)
  have ht1 := ha.gpr d.idx hdi
  obtain ⟨σ2, e2, ht2, hm2, ha2⟩ := exec_zf ha (ev_zfE (ev ha rfl)) _ _ ht1 (hne _ (by simp [flagNames]))
  obtain ⟨σ3, e3, ht3, hm3, ha3⟩ := exec_sf ha2 (ev_sfE hw (ev ha2 rfl)) _ _ ht2 (hne _ (by simp [flagNames]))
  obtain ⟨σ4, e4, ht4, hm4, ha4⟩ := exec_of ha3 (ev_ofE hw false (ev ha3 rfl)
    (ev_getE' ha3 rfl hd hdi rfl) (ev_one hw)) _ _ ht3 (hne _ (by simp [flagNames]))
  have e5 := exec_assign (X86Lift.scalar (rName d.idx) 64) (ev_setE ha4 hd hdi (ev ha4 rfl))
  have ha5 := abs_setReg ha4 hdi ((getReg st d d.bits + 1).setWidth 64)
  refine ⟨_, _, ?_, ?_, ha5, ?_⟩
  · rw [runBTR_straight _ _ _ _ (by simp [incDecOps])]
    simp only [incDecOps, execOps, e2, e3, e4, e5, ins1]
    rfl
  · rw [(step_un "inc" addr len asz d st).1 rfl, unary_eval _ _ _ _ _ _ _ haddr]
    simp only [ins1, addWith, setSZ, ← add_of_eq hw, ← sf_eq hw]
    simp [getReg]
  · simp [hm4, hm3, hm2]

theorem lift_dec {d : GReg} (hd : Shape d) (hdi : d.idx < 16) (addr len asz : Nat) (haddr : addr + len < 2 ^ 64)
    (σ : State) (st : St) (ha : Abs σ st) :
    ∃ r, liftUn .amd64 "dec" addr len d = .ok r ∧ Agrees r σ (ins1 "dec" addr len asz d) st := by
  have hw := shape_bits hd
  refine ⟨straight addr len (incDecOps .sub true d), by simp [liftUn, opsUn_dec hd, bind, Res.bind, pure], ?_⟩
  have hne : ∀ f, f ∈ flagNames → rName d.idx ≠ f := fun f hf => rName_ne_flag hdi hf
  have ev : ∀ {σ' st'}, Abs σ' st' → st'.gpr = st.gpr →
      Ev σ' (.bin .sub (getE d) (Expr.ec 1 d.bits)) d.bits (getReg st d d.bits - 1) :=
    fun h hg => Ev.sub (ev_getE' h hg hd hdi rfl) (ev_one hw)
  have ht1 := ha.gpr d.idx hdi
  obtain ⟨σ2, e2, ht2, hm2, ha2⟩ := exec_zf ha (ev_zfE (ev ha rfl)) _ _ ht1 (hne _ (by simp [flagNames]))
  obtain ⟨σ3, e3, ht3, hm3, ha3⟩ := exec_sf ha2 (ev_sfE hw (ev ha2 rfl)) _ _ ht2 (hne _ (by simp [flagNames]))
  obtain ⟨σ4, e4, ht4, hm4, ha4⟩ := exec_of ha3 (ev_ofE hw true (ev ha3 rfl)
    (ev_getE' ha3 rfl hd hdi rfl) (ev_one hw)) _ _ ht3 (hne _ (by simp [flagNames]))
  have e5 := exec_assign (X86Lift.scalar (rName d.idx) 64) (ev_setE ha4 hd hdi (ev ha4 rfl))
  have ha5 := abs_setReg ha4 hdi ((getReg st d d.bits - 1).setWidth 64)
  refine ⟨_, _, ?_, ?_, ha5, ?_⟩
  · rw [runBTR_straight _ _ _ _ (by simp [incDecOps])]
    simp only [incDecOps, execOps, e2, e3, e4, e5, ins1]
    rfl
  · rw [(step_un "dec" addr len asz d st).2.1 rfl, unary_eval _ _ _ _ _ _ _ haddr]
    simp only [ins1, subWith, setSZ, ← sub_of_eq hw, ← sf_eq hw]
    simp [getReg]
  · simp [hm4, hm3, hm2]

theorem lift_neg {d : GReg} (hd : Shape d) (hdi : d.idx < 16) (addr len asz : Nat) (haddr : addr + len < 2 ^ 64)
    (σ : State) (st : St) (ha : Abs σ st) :
    ∃ r, liftUn .amd64 "neg" addr len d = .ok r ∧ Agrees r σ (ins1 "neg" addr len asz d) st := by
  have hw := shape_bits hd
  refine ⟨straight addr len (negOps addr d), by simp [liftUn, opsUn_neg hd, bind, Res.bind, pure], ?_⟩
  have hne : ∀ f, f ∈ flagNames → (temp addr 0 d.bits).name ≠ f := fun f hf => temp_ne_flag hf addr 0 d.bits
  have hner : ∀ f, f ∈ flagNames → rName d.idx ≠ f := fun f hf => rName_ne_flag hdi hf
  -- CF first
  obtain ⟨σ1, e1, _, hm1, ha1⟩ := exec_cf ha (Ev.cmpneq (ev_getE' ha rfl hd hdi rfl) ev_zero) _ _ (ha.gpr d.idx hdi)
    (hner _ (by simp [flagNames]))
  have e2 := exec_assign (σ := σ1) (temp addr 0 d.bits) (Ev.sub ev_zero (ev_getE' (st := st) ha1 rfl hd hdi rfl))
  have ha2 := abs_set_temp ha1 addr 0 d.bits (ofBV (0 - getReg st d d.bits))
  have ht2 := get_set_self σ1 (temp addr 0 d.bits).name (ofBV (0 - getReg st d d.bits))
  obtain ⟨σ3, e3, ht3, hm3, ha3⟩ := exec_zf ha2 (ev_zfE (Ev.scalar (s := temp addr 0 d.bits) ht2)) _ _ ht2 (hne _ (by simp [flagNames]))
  obtain ⟨σ4, e4, ht4, hm4, ha4⟩ := exec_sf ha3 (ev_sfE hw (Ev.scalar (s := temp addr 0 d.bits) ht3)) _ _ ht3 (hne _ (by simp [flagNames]))
  obtain ⟨σ5, e5, ht5, hm5, ha5⟩ := exec_of ha4 (ev_ofE hw true (Ev.scalar (s := temp addr 0 d.bits) ht4)
    ev_zero (ev_getE' (st := st) ha4 rfl hd hdi rfl)) _ _ ht4 (hne _ (by simp [flagNames]))
  have e6 := exec_assign (X86Lift.scalar (rName d.idx) 64) (ev_setE ha5 hd hdi (Ev.scalar (s := temp addr 0 d.bits) ht5))
  have ha6 := abs_setReg ha5 hdi ((0 - getReg st d d.bits).setWidth 64)
  refine ⟨_, _, ?_, ?_, ha6, ?_⟩
  · rw [runBTR_straight _ _ _ _ (by simp [negOps])]
    simp only [negOps, execOps, e1, e2, e3, e4, e5, e6, ins1]
    rfl
  · rw [(step_un "neg" addr len asz d st).2.2.1 rfl, unary_eval _ _ _ _ _ _ _ haddr]
    simp only [ins1, subWith, setSZ, ← sub_of_eq hw, ← sf_eq hw]
    simp [getReg]
  · simp [hm5, hm4, hm3, hm1]

theorem lift_not {d : GReg} (hd : Shape d) (hdi : d.idx < 16) (addr len asz : Nat) (haddr : addr + len < 2 ^ 64)
    (σ : State) (st : St) (ha : Abs σ st) :
    ∃ r, liftUn .amd64 "not" addr len d = .ok r ∧ Agrees r σ (ins1 "not" addr len asz d) st := by
  have hw := shape_bits hd
  refine ⟨straight addr len (notOps d), by simp [liftUn, opsUn_not hd, bind, Res.bind, pure], ?_⟩
  have e1 := exec_assign (X86Lift.scalar (rName d.idx) 64)
    (ev_setE ha hd hdi (Ev.xor (ev_getE' ha rfl hd hdi rfl) (ev_ones hw)))
  have ha1 := abs_setReg ha hdi ((getReg st d d.bits ^^^ BitVec.allOnes d.bits).setWidth 64)
  refine ⟨_, _, ?_, ?_, ha1, ?_⟩
  · rw [runBTR_straight _ _ _ _ (by simp [notOps])]
    simp only [notOps, execOps, e1, ins1]
    rfl
  · rw [(step_un "not" addr len asz d st).2.2.2 rfl, unary_eval _ _ _ _ _ _ _ haddr]
    simp [ins1, BitVec.xor_allOnes]
  · simp

def unMn : List String := ["inc", "dec", "neg", "not"]

theorem lift_un {m : String} (hm : m ∈ unMn) {d : GReg} (hd : Shape d) (hdi : d.idx < 16) (addr len asz : Nat)
    (haddr : addr + len < 2 ^ 64) (σ : State) (st : St) (ha : Abs σ st) :
    ∃ r, liftUn .amd64 m addr len d = .ok r ∧ Agrees r σ (ins1 m addr len asz d) st := by
  simp only [unMn, List.mem_cons, List.not_mem_nil, or_false] at hm
  rcases hm with rfl | rfl | rfl | rfl
  · exact lift_inc hd hdi addr len asz haddr σ st ha
  · exact lift_dec hd hdi addr len asz haddr σ st ha
  · exact lift_neg hd hdi addr len asz haddr σ st ha
  · exact lift_not hd hdi addr len asz haddr σ st ha

end C01
end Falcon
