/-
  FalconProofs.C01.Flow — instruction-level agreement for `ret` and `call rel32` in 64-bit mode: the stack slot, rsp
  and the NEXT ADDRESS (the loaded return address / the call target), for every state in which the eight stack bytes
  are mapped and the access does not wrap 2^64.
-/
import FalconProofs.C01.Stack

namespace Falcon
namespace C01
open Const X86 X86Lift
open C07 (get_set get_set_self get_set_ne)

def insRet (addr len : Nat) : Ins :=
  { mode := .amd64, mnem := "ret", len := len, asz := 8, ops := [], addr := addr }

def insCall (addr len t bytes : Nat) : Ins :=
  { mode := .amd64, mnem := "call", len := len, asz := 8, ops := [.imm t bytes], addr := addr }

/-- agreement of one lifted instruction with the specification when control goes to `t`: the IL run ends with the
    single successor `t`, the specification does not trap and continues at `t`, and the end states are related (all
    sixteen registers, CF ZF SF OF, memory) -/
def AgreesTo (r : BTR) (σ : State) (i : Ins) (st : St) (t : Nat) : Prop :=
  ∃ σ' st', runBTR r σ = .next σ' [t] ∧ X86.step i st = .ok st' t [] ∧ Abs σ' st'

theorem exec_branch {σ : State} {e : Expr} {v : BitVec 64} (h : Ev σ e 64 v) :
    execute σ (.branch e) = .ok (σ, .branch v.toNat) := by
  have hlt : v.toNat < 2 ^ 64 := v.isLt
  simp only [execute, h.evalIn, Res.bind_ok, addrOf, ofBV_val, hlt, ↓reduceIte]

theorem setReg64_twice (st : St) (i : Nat) (v w : BitVec 64) :
    setReg (setReg st ⟨i, 64, 0⟩ v) ⟨i, 64, 0⟩ w = setReg st ⟨i, 64, 0⟩ w := by
  simp only [setReg, mergeReg]
  congr 1
  funext j
  by_cases h : j = i <;> simp [h]

/-! ### ret -/

theorem step_ret64 (addr len : Nat) (st : St) (bs : List UInt8)
    (hmap : st.mem.readBytes (st.gpr 4).toNat 8 = some bs) :
    step (insRet addr len) st = .ok (setReg st (rsp 64) (st.gpr 4 + 8#64)) (natOfLE bs) [] := by
  have hc : splitCc "ret" = none := by decide
  have hsp : BitVec.ofNat 64 (((st.gpr 4).toNat + 8) % 2 ^ 64) = st.gpr 4 + 8#64 := by
    apply BitVec.eq_of_toNat_eq; simp [BitVec.toNat_add]
  have h2 : ∀ v : BitVec 64, getReg (setReg st ⟨4, 64, 0⟩ v) ⟨4, 64, 0⟩ 64 = v := by
    intro v; simp [getReg, setReg, mergeReg]
  unfold step insRet
  simp only [hc]
  simp [pop, readMem, orTrap, Mode.bits, rsp, hmap, hsp, h2, setReg64_twice, show getReg st ⟨4, 64, 0⟩ 64 = st.gpr 4 by simp [getReg]]

/-- **`ret`**: load eight bytes at `rsp`, `rsp += 8`, branch to the loaded value -/
theorem lift_ret64 (addr len : Nat) (σ : State) (st : St) (ha : Abs σ st)
    (bs : List UInt8) (hmap : st.mem.readBytes (st.gpr 4).toNat 8 = some bs) (hwrap : (st.gpr 4).toNat + 8 ≤ 2 ^ 64) :
    ∃ ops, opsRet64 addr = .ok ops ∧
      AgreesTo { addr := addr, length := len, instrs := [oneBlock addr ops], succs := [] } σ (insRet addr len) st (natOfLE bs) := by
  have hr : σ.mem.readBytes (st.gpr 4).toNat 8 = some bs := by rw [ha.mem]; exact hmap
  have hlt : natOfLE bs < 2 ^ 64 := by
    have := C07.natOfLE_lt bs
    rwa [C07.readBytes_length _ _ _ _ hmap] at this
  have e1 := exec_load (ltemp addr 64) 8 (by decide) rfl (ev_sp ha) hwrap bs hr
  rw [ha.endian, load_value _ _ _ _ hr] at e1
  have ha1 := abs_set_ltemp ha addr 64 (ofBV (BitVec.ofNat (8 * 8) (natOfLE bs)))
  have ht1 := get_set_self σ (ltemp addr 64).name (ofBV (BitVec.ofNat (8 * 8) (natOfLE bs)))
  have hnsp := Ev.add (ev_sp ha1) (ev_eight (σ := _))
  have e2 := exec_assign (X86Lift.scalar "rsp" 64) hnsp
  have ha2 := abs_set_rsp ha1 (st.gpr 4 + 8#64)
  have ht2 : (State.set (σ.set (ltemp addr 64).name (ofBV (BitVec.ofNat (8 * 8) (natOfLE bs)))) "rsp" (ofBV (st.gpr 4 + 8#64))).get
      (ltemp addr 64).name = some (ofBV (BitVec.ofNat 64 (natOfLE bs))) := by
    have hne : (ltemp addr 64).name ≠ "rsp" := by
      have := ltemp_ne_rName (i := 4) (by decide) addr 64
      have h4 : rName 4 = "rsp" := by decide
      rwa [h4] at this
    rw [get_set_ne _ _ hne]; exact ht1
  have e3 := exec_branch (Ev.scalar (s := ltemp addr 64) ht2)
  have htn : (BitVec.ofNat 64 (natOfLE bs)).toNat = natOfLE bs := by
    rw [BitVec.toNat_ofNat]; exact Nat.mod_eq_of_lt hlt
  rw [htn] at e3
  refine ⟨[.load (ltemp addr 64) spE, .assign (X86Lift.scalar "rsp" 64) (.bin .add spE (Expr.ec 8 64)),
      .branch (.scalar (ltemp addr 64))],
    by simp [opsRet64, Expr.mkBin, spE, sc, Expr.bits, bind, Res.bind, pure],
    _, _, ?_, step_ret64 addr len st bs hmap, ha2⟩
  rw [runBTR_one _ _ _ _ _ (by simp)]
  simp only [execOps, e1, e2]
  simp only [X86Lift.scalar] at e3 ⊢
  simp only [e3]

/-! ### call rel32 -/

theorem nextIp_call (addr len t bytes : Nat) (h : addr + len < 2 ^ 64) :
    nextIp (insCall addr len t bytes) = addr + len := by
  simp [nextIp, insCall, Mode.bits, Nat.mod_eq_of_lt h]

theorem step_call64 (addr len t bytes : Nat) (st : St) (h : addr + len < 2 ^ 64) (bs : List UInt8)
    (hmap : st.mem.readBytes (st.gpr 4 - 8#64).toNat 8 = some bs) :
    step (insCall addr len t bytes) st =
      .ok (setReg { st with mem := st.mem.write (st.gpr 4 - 8#64).toNat (bytesOfLE (addr + len) 8) } (rsp 64) (st.gpr 4 - 8#64))
        (t % 2 ^ 64) [] := by
  have hc : splitCc "call" = none := by decide
  have hn := nextIp_call addr len t bytes h
  have hw : BitVec.setWidth 64 (BitVec.setWidth 64 (st.gpr 4 >>> 0)) = st.gpr 4 := by simp
  have hsp : ((st.gpr 4).toNat + 2 ^ 64 - 64 / 8) % 2 ^ 64 = (st.gpr 4 - 8#64).toNat := by
    rw [BitVec.toNat_sub]; have := (st.gpr 4).isLt; simp; omega
  have hv : (addr + len) % 2 ^ (8 * (64 / 8)) = addr + len := Nat.mod_eq_of_lt (by simpa using h)
  unfold step insCall
  simp only [hc]
  simp only [insCall] at hn
  simp only [push, writeMem, orTrap, Mode.bits, hn, getReg, rsp, hw, hsp]
  simp only [Option.map_some, Option.bind_eq_bind, Option.bind_some, hv, show 64 / 8 = 8 from rfl, hmap]
  simp only [BitVec.ofNat_toNat, BitVec.setWidth_eq]
  simp [-BitVec.toNat_sub]

/-- **`call rel32`**: store the return address `addr + len` at `rsp - 8`, `rsp -= 8`, branch to the target -/
theorem lift_call64 (addr len t bytes : Nat) (haddr : addr + len < 2 ^ 64) (σ : State) (st : St) (ha : Abs σ st)
    (bs : List UInt8) (hmap : st.mem.readBytes (st.gpr 4 - 8#64).toNat 8 = some bs)
    (hwrap : (st.gpr 4 - 8#64).toNat + 8 ≤ 2 ^ 64) :
    ∃ ops, opsCall64 addr len t = .ok ops ∧ AgreesTo (straight addr len ops) σ (insCall addr len t bytes) st (t % 2 ^ 64) := by
  have hnsp := Ev.sub (ev_sp ha) (ev_eight (σ := σ))
  have hval : Ev σ (Expr.ec (addr + len) 64) 64 (BitVec.ofNat 64 (addr + len)) := by
    have := Ev.ec (σ := σ) (addr + len) 64
    rwa [Nat.mod_eq_of_lt haddr] at this
  have e1 := exec_store 8 (by decide) rfl hnsp hval hwrap
  have hb : bytesOf σ.endian (ofBV (BitVec.ofNat 64 (addr + len))) = bytesOfLE (addr + len) 8 := by
    rw [ha.endian, bytesOf_little]; simp [Nat.mod_eq_of_lt haddr]
  rw [hb, ha.mem] at e1
  have ha1 : Abs { σ with mem := st.mem.write (st.gpr 4 - 8#64).toNat (bytesOfLE (addr + len) 8) }
      { st with mem := st.mem.write (st.gpr 4 - 8#64).toNat (bytesOfLE (addr + len) 8) } := abs_store ha _
  have hnsp1 := Ev.sub (ev_sp ha1) (ev_eight (σ := _))
  have e2 := exec_assign (X86Lift.scalar "rsp" 64) hnsp1
  have e3 := exec_branch (Ev.ec (σ := State.set { σ with mem := st.mem.write (st.gpr 4 - 8#64).toNat (bytesOfLE (addr + len) 8) }
    (X86Lift.scalar "rsp" 64).name (ofBV (st.gpr 4 - 8#64))) t 64)
  have htn : (BitVec.ofNat 64 (t % 2 ^ 64)).toNat = t % 2 ^ 64 := by
    rw [BitVec.toNat_ofNat]; exact Nat.mod_eq_of_lt (Nat.mod_lt _ (by decide))
  rw [htn] at e3
  refine ⟨[.store (.bin .sub spE (Expr.ec 8 64)) (Expr.ec (addr + len) 64), .assign (X86Lift.scalar "rsp" 64) (.bin .sub spE (Expr.ec 8 64)),
      .branch (Expr.ec t 64)],
    by simp [opsCall64, Expr.mkBin, spE, sc, Expr.bits, bind, Res.bind, pure], _, _, ?_,
    step_call64 addr len t bytes st haddr bs hmap, abs_set_rsp ha1 _⟩
  rw [runBTR_straight _ _ _ _ (by simp)]
  simp only [execOps, e1, e2, e3]
  rfl

/-! ### shared pieces for the remaining stack instructions -/

theorem gpr_setReg64 (st : St) (i : Nat) (v : BitVec 64) : (setReg st ⟨i, 64, 0⟩ v).gpr i = v := by
  simp [setReg, mergeReg]

theorem abs_set64 {σ : State} {st : St} (ha : Abs σ st) {i : Nat} (hi : i < 16) (v : BitVec 64) :
    Abs (σ.set (rName i) (ofBV v)) (setReg st ⟨i, 64, 0⟩ v) := by
  have := abs_setReg (r := ⟨i, 64, 0⟩) ha hi v
  simpa [mergeReg] using this

theorem ltemp_ne_rsp (addr n : Nat) : (ltemp addr n).name ≠ "rsp" := by
  have := ltemp_ne_rName (i := 4) (by decide) addr n
  have h4 : rName 4 = "rsp" := by decide
  rwa [h4] at this

/-- the two operations of `pop_value`: load the slot into the temporary, `rsp += 8` -/
theorem pop_ops {σ : State} {st : St} (ha : Abs σ st) (addr : Nat) (bs : List UInt8)
    (hmap : st.mem.readBytes (st.gpr 4).toNat 8 = some bs) (hwrap : (st.gpr 4).toNat + 8 ≤ 2 ^ 64) :
    ∃ σ2, (∀ rest, execOps (.load (ltemp addr 64) spE :: .assign (X86Lift.scalar "rsp" 64) (.bin .add spE (Expr.ec 8 64)) :: rest) σ =
        execOps rest σ2) ∧
      Abs σ2 (setReg st (rsp 64) (st.gpr 4 + 8#64)) ∧
      σ2.get (ltemp addr 64).name = some (ofBV (BitVec.ofNat 64 (natOfLE bs))) ∧ σ2.mem = σ.mem := by
  have hr : σ.mem.readBytes (st.gpr 4).toNat 8 = some bs := by rw [ha.mem]; exact hmap
  have e1 := exec_load (ltemp addr 64) 8 (by decide) rfl (ev_sp ha) hwrap bs hr
  rw [ha.endian, load_value _ _ _ _ hr] at e1
  have ha1 := abs_set_ltemp ha addr 64 (ofBV (BitVec.ofNat (8 * 8) (natOfLE bs)))
  have ht1 := get_set_self σ (ltemp addr 64).name (ofBV (BitVec.ofNat (8 * 8) (natOfLE bs)))
  have hnsp := Ev.add (ev_sp ha1) (ev_eight (σ := _))
  have e2 := exec_assign (X86Lift.scalar "rsp" 64) hnsp
  have ha2 := abs_set_rsp ha1 (st.gpr 4 + 8#64)
  refine ⟨_, ?_, ha2, ?_, rfl⟩
  · intro rest
    simp only [execOps, e1, e2]
    rfl
  · rw [get_set_ne _ _ (ltemp_ne_rsp addr 64)]; exact ht1

theorem natOfLE_lt64 {m : ByteMem} {a : Nat} {bs : List UInt8} (h : m.readBytes a 8 = some bs) : natOfLE bs < 2 ^ 64 := by
  have := C07.natOfLE_lt bs
  rwa [C07.readBytes_length _ _ _ _ h] at this

/-! ### ret imm16 -/

def insRetImm (addr len v bytes : Nat) : Ins :=
  { mode := .amd64, mnem := "ret", len := len, asz := 8, ops := [.imm v bytes], addr := addr }

theorem step_retImm64 (addr len v bytes : Nat) (st : St) (bs : List UInt8)
    (hmap : st.mem.readBytes (st.gpr 4).toNat 8 = some bs) :
    step (insRetImm addr len v bytes) st =
      .ok (setReg st (rsp 64) (st.gpr 4 + 8#64 + BitVec.ofNat 64 (v % 2 ^ 16))) (natOfLE bs) [] := by
  have hc : splitCc "ret" = none := by decide
  have hsp : BitVec.ofNat 64 (((st.gpr 4).toNat + 8) % 2 ^ 64) = st.gpr 4 + 8#64 := by
    apply BitVec.eq_of_toNat_eq; simp [BitVec.toNat_add]
  have hsp2 : ∀ x : BitVec 64, BitVec.ofNat 64 ((x.toNat + v % 2 ^ 16) % 2 ^ 64) = x + BitVec.ofNat 64 (v % 2 ^ 16) := by
    intro x; apply BitVec.eq_of_toNat_eq; simp [BitVec.toNat_add]
  have h2 : ∀ x : BitVec 64, getReg (setReg st ⟨4, 64, 0⟩ x) ⟨4, 64, 0⟩ 64 = x := by
    intro x; simp [getReg, setReg, mergeReg]
  unfold step insRetImm
  simp only [hc]
  simp [pop, readMem, orTrap, Mode.bits, rsp, hmap, hsp, hsp2, h2, setReg64_twice, show getReg st ⟨4, 64, 0⟩ 64 = st.gpr 4 by simp [getReg]]

/-- **`ret imm16`**: pop the return address, then `rsp += imm16` — the immediate ZERO-extended — and branch -/
theorem lift_retImm64 (addr len v bytes : Nat) (σ : State) (st : St) (ha : Abs σ st)
    (bs : List UInt8) (hmap : st.mem.readBytes (st.gpr 4).toNat 8 = some bs) (hwrap : (st.gpr 4).toNat + 8 ≤ 2 ^ 64) :
    ∃ ops σ', opsRetImm64 addr v = .ok ops ∧
      runBTR { addr := addr, length := len, instrs := [oneBlock addr ops], succs := [] } σ = .next σ' [natOfLE bs] ∧
      X86.step (insRetImm addr len v bytes) st =
        .ok (setReg st (rsp 64) (st.gpr 4 + 8#64 + BitVec.ofNat 64 (v % 2 ^ 16))) (natOfLE bs) [] ∧
      Abs σ' (setReg st (rsp 64) (st.gpr 4 + 8#64 + BitVec.ofNat 64 (v % 2 ^ 16))) := by
  obtain ⟨σ2, hrun, ha2, ht2, _⟩ := pop_ops ha addr bs hmap hwrap
  have hnsp2 : Ev σ2 (.bin .add spE (Expr.ec (v % 2 ^ 16) 64)) 64 (st.gpr 4 + 8#64 + BitVec.ofNat 64 (v % 2 ^ 16)) := by
    refine (Ev.add (ev_sp ha2) (Ev.ec (σ := σ2) (v % 2 ^ 16) 64)).cast ?_
    have : v % 2 ^ 16 % 2 ^ 64 = v % 2 ^ 16 := by omega
    rw [this, show rsp 64 = ⟨4, 64, 0⟩ from rfl, gpr_setReg64]
  have e3 := exec_assign (X86Lift.scalar "rsp" 64) hnsp2
  have ha3 := abs_set_rsp ha2 (st.gpr 4 + 8#64 + BitVec.ofNat 64 (v % 2 ^ 16))
  rw [show rsp 64 = ⟨4, 64, 0⟩ from rfl, setReg64_twice] at ha3
  have ht3 : (σ2.set "rsp" (ofBV (st.gpr 4 + 8#64 + BitVec.ofNat 64 (v % 2 ^ 16)))).get (ltemp addr 64).name =
      some (ofBV (BitVec.ofNat 64 (natOfLE bs))) := by
    rw [get_set_ne _ _ (ltemp_ne_rsp addr 64)]; exact ht2
  have e4 := exec_branch (Ev.scalar (s := ltemp addr 64) ht3)
  have htn : (BitVec.ofNat 64 (natOfLE bs)).toNat = natOfLE bs := by
    rw [BitVec.toNat_ofNat]; exact Nat.mod_eq_of_lt (natOfLE_lt64 hmap)
  rw [htn] at e4
  refine ⟨[.load (ltemp addr 64) spE, .assign (X86Lift.scalar "rsp" 64) (.bin .add spE (Expr.ec 8 64)),
      .assign (X86Lift.scalar "rsp" 64) (.bin .add spE (Expr.ec (v % 2 ^ 16) 64)), .branch (.scalar (ltemp addr 64))], _,
    by simp [opsRetImm64, Expr.mkBin, spE, sc, Expr.bits, bind, Res.bind, pure],
    ?_, step_retImm64 addr len v bytes st bs hmap, ha3⟩
  rw [runBTR_one _ _ _ _ _ (by simp), hrun]
  simp only [X86Lift.scalar] at e3 e4 ⊢
  simp only [execOps, e3, e4]

/-! ### leave -/

def insLeave (addr len : Nat) : Ins :=
  { mode := .amd64, mnem := "leave", len := len, asz := 8, ops := [], addr := addr }

theorem nextIp_leave (addr len : Nat) (h : addr + len < 2 ^ 64) : nextIp (insLeave addr len) = addr + len := by
  simp [nextIp, insLeave, Mode.bits, Nat.mod_eq_of_lt h]

theorem step_leave64 (addr len : Nat) (st : St) (h : addr + len < 2 ^ 64) (bs : List UInt8)
    (hmap : st.mem.readBytes (st.gpr 5).toNat 8 = some bs) :
    step (insLeave addr len) st =
      .ok (setReg (setReg st (rsp 64) (st.gpr 5 + 8#64)) (rbp 64) (BitVec.ofNat 64 (natOfLE bs))) (addr + len) [] := by
  have hc : splitCc "leave" = none := by decide
  have hn := nextIp_leave addr len h
  have hsp : BitVec.ofNat 64 (((st.gpr 5).toNat + 8) % 2 ^ 64) = st.gpr 5 + 8#64 := by
    apply BitVec.eq_of_toNat_eq; simp [BitVec.toNat_add]
  have h2 : ∀ x : BitVec 64, getReg (setReg st ⟨4, 64, 0⟩ x) ⟨4, 64, 0⟩ 64 = x := by
    intro x; simp [getReg, setReg, mergeReg]
  have hm : ∀ x : BitVec 64, (setReg st ⟨4, 64, 0⟩ x).mem = st.mem := fun _ => rfl
  unfold step insLeave
  simp only [hc]
  simp only [insLeave] at hn
  simp [pop, readMem, orTrap, done, Mode.bits, rsp, rbp, hn, hmap, hsp, h2, hm, setReg64_twice,
    show getReg st ⟨5, 64, 0⟩ 64 = st.gpr 5 by simp [getReg]]

/-- **`leave`**: `rsp := rbp`, load eight bytes there, `rsp += 8`, `rbp :=` the loaded value -/
theorem lift_leave64 (addr len : Nat) (haddr : addr + len < 2 ^ 64) (σ : State) (st : St) (ha : Abs σ st)
    (bs : List UInt8) (hmap : st.mem.readBytes (st.gpr 5).toNat 8 = some bs) (hwrap : (st.gpr 5).toNat + 8 ≤ 2 ^ 64) :
    ∃ ops, opsLeave64 addr = .ok ops ∧ Agrees (straight addr len ops) σ (insLeave addr len) st := by
  have e0 := exec_assign (X86Lift.scalar "rsp" 64) (ev_full ha (i := 5) (by decide))
  have ha0 := abs_set_rsp ha (st.gpr 5)
  have hg : (setReg st (rsp 64) (st.gpr 5)).gpr 4 = st.gpr 5 := gpr_setReg64 st 4 _
  obtain ⟨σ2, hrun, ha2, ht2, hm2⟩ := pop_ops ha0 addr bs (by rw [hg]; exact hmap) (by rw [hg]; exact hwrap)
  rw [hg, show rsp 64 = ⟨4, 64, 0⟩ from rfl, setReg64_twice] at ha2
  have e3 := exec_assign (X86Lift.scalar "rbp" 64) (Ev.scalar (s := ltemp addr 64) ht2)
  have ha3 := abs_set64 ha2 (i := 5) (by decide) (BitVec.ofNat 64 (natOfLE bs))
  refine ⟨[.assign (X86Lift.scalar "rsp" 64) (sc "rbp" 64), .load (ltemp addr 64) spE,
      .assign (X86Lift.scalar "rsp" 64) (.bin .add spE (Expr.ec 8 64)), .assign (X86Lift.scalar "rbp" 64) (.scalar (ltemp addr 64))],
    by simp [opsLeave64, Expr.mkBin, spE, sc, Expr.bits, bind, Res.bind, pure],
    _, _, ?_, step_leave64 addr len st haddr bs hmap, ha3, ?_⟩
  · rw [runBTR_straight _ _ _ _ (by simp)]
    have h1 : ∀ rest, execOps (.assign (X86Lift.scalar "rsp" 64) (sc "rbp" 64) :: rest) σ =
        execOps rest (σ.set "rsp" (ofBV (st.gpr 5))) := by
      intro rest
      have e0' : execute σ (.assign (X86Lift.scalar "rsp" 64) (sc "rbp" 64)) = _ := e0
      simp only [execOps, e0']
      rfl
    rw [h1]
    simp only [X86Lift.scalar] at hrun e3 ⊢
    rw [hrun]
    simp only [execOps, e3, insLeave]
    rfl
  · show σ2.mem = σ.mem
    rw [hm2]; rfl

/-! ### push imm (64-bit operand) -/

def insPushImm (addr len v : Nat) : Ins :=
  { mode := .amd64, mnem := "push", len := len, asz := 8, ops := [.imm v 8], addr := addr }

theorem nextIp_pushImm (addr len v : Nat) (h : addr + len < 2 ^ 64) : nextIp (insPushImm addr len v) = addr + len := by
  simp [nextIp, insPushImm, Mode.bits, Nat.mod_eq_of_lt h]

theorem step_pushImm64 (addr len v : Nat) (st : St) (h : addr + len < 2 ^ 64) (bs : List UInt8)
    (hmap : st.mem.readBytes (st.gpr 4 - 8#64).toNat 8 = some bs) :
    step (insPushImm addr len v) st =
      .ok (setReg { st with mem := st.mem.write (st.gpr 4 - 8#64).toNat (bytesOfLE (v % 2 ^ 64) 8) } (rsp 64) (st.gpr 4 - 8#64))
        (addr + len) [] := by
  have hc : splitCc "push" = none := by decide
  have hn := nextIp_pushImm addr len v h
  have hw : BitVec.setWidth 64 (BitVec.setWidth 64 (st.gpr 4 >>> 0)) = st.gpr 4 := by simp
  have hsp : ((st.gpr 4).toNat + 2 ^ 64 - 8) % 2 ^ 64 = (st.gpr 4 - 8#64).toNat := by
    rw [BitVec.toNat_sub]; have := (st.gpr 4).isLt; simp; omega
  have h82 : (if (8 : Nat) = 2 then 2 else 8) = 8 := by decide
  unfold step insPushImm
  simp only [hc]
  simp only [insPushImm] at hn
  simp only [push, writeMem, orTrap, done, Mode.bits, hn, getReg, rsp, hw]
  simp only [h82, hsp, hmap]
  simp only [BitVec.ofNat_toNat, BitVec.setWidth_eq]
  simp [-BitVec.toNat_sub, X86.sext]

/-- **`push imm`** with a 64-bit operand: the decoder's (sign-extended) immediate is stored at `rsp - 8`, `rsp -= 8` -/
theorem lift_pushImm64 (addr len v : Nat) (haddr : addr + len < 2 ^ 64) (σ : State) (st : St) (ha : Abs σ st)
    (bs : List UInt8) (hmap : st.mem.readBytes (st.gpr 4 - 8#64).toNat 8 = some bs)
    (hwrap : (st.gpr 4 - 8#64).toNat + 8 ≤ 2 ^ 64) :
    ∃ ops, opsPushImm64 v = .ok ops ∧ AgreesM (straight addr len ops) σ (insPushImm addr len v) st := by
  have hnsp := Ev.sub (ev_sp ha) (ev_eight (σ := σ))
  have hval := Ev.ec (σ := σ) v 64
  have e1 := exec_store 8 (by decide) rfl hnsp hval hwrap
  have hb : bytesOf σ.endian (ofBV (BitVec.ofNat 64 (v % 2 ^ 64))) = bytesOfLE (v % 2 ^ 64) 8 := by
    rw [ha.endian, bytesOf_little]; simp
  rw [hb, ha.mem] at e1
  have ha1 : Abs { σ with mem := st.mem.write (st.gpr 4 - 8#64).toNat (bytesOfLE (v % 2 ^ 64) 8) }
      { st with mem := st.mem.write (st.gpr 4 - 8#64).toNat (bytesOfLE (v % 2 ^ 64) 8) } := abs_store ha _
  have hnsp1 := Ev.sub (ev_sp ha1) (ev_eight (σ := _))
  have e2 := exec_assign (X86Lift.scalar "rsp" 64) hnsp1
  refine ⟨[.store (.bin .sub spE (Expr.ec 8 64)) (Expr.ec v 64), .assign (X86Lift.scalar "rsp" 64) (.bin .sub spE (Expr.ec 8 64))],
    by simp [opsPushImm64, Expr.mkBin, spE, sc, Expr.bits, bind, Res.bind, pure], _, _, ?_,
    step_pushImm64 addr len v st haddr bs hmap, abs_set_rsp ha1 _⟩
  rw [runBTR_straight _ _ _ _ (by simp)]
  simp only [execOps, e1, e2, insPushImm]
  rfl

/-! ### call r64 -/

def insCallReg (addr len : Nat) (r : GReg) : Ins :=
  { mode := .amd64, mnem := "call", len := len, asz := 8, ops := [.reg r], addr := addr }

theorem nextIp_callReg (addr len : Nat) (r : GReg) (h : addr + len < 2 ^ 64) : nextIp (insCallReg addr len r) = addr + len := by
  simp [nextIp, insCallReg, Mode.bits, Nat.mod_eq_of_lt h]

theorem step_callReg64 (addr len i : Nat) (st : St) (h : addr + len < 2 ^ 64) (bs : List UInt8)
    (hmap : st.mem.readBytes (st.gpr 4 - 8#64).toNat 8 = some bs) :
    step (insCallReg addr len ⟨i, 64, 0⟩) st =
      .ok (setReg { st with mem := st.mem.write (st.gpr 4 - 8#64).toNat (bytesOfLE (addr + len) 8) } (rsp 64) (st.gpr 4 - 8#64))
        (st.gpr i).toNat [] := by
  have hc : splitCc "call" = none := by decide
  have hn := nextIp_callReg addr len ⟨i, 64, 0⟩ h
  have hw : ∀ j, BitVec.setWidth 64 (BitVec.setWidth 64 (st.gpr j >>> 0)) = st.gpr j := by intro j; simp
  have hsp : ((st.gpr 4).toNat + 2 ^ 64 - 64 / 8) % 2 ^ 64 = (st.gpr 4 - 8#64).toNat := by
    rw [BitVec.toNat_sub]; have := (st.gpr 4).isLt; simp; omega
  have hv : (addr + len) % 2 ^ (8 * (64 / 8)) = addr + len := Nat.mod_eq_of_lt (by simpa using h)
  unfold step insCallReg
  simp only [hc]
  simp only [insCallReg] at hn
  simp only [readOp, push, writeMem, orTrap, Mode.bits, hn, getReg, rsp, hw, hsp]
  simp only [Option.map_some, Option.bind_eq_bind, Option.bind_some, hv, show 64 / 8 = 8 from rfl, hmap]
  simp only [BitVec.ofNat_toNat, BitVec.setWidth_eq]
  simp [-BitVec.toNat_sub]

/-- **`call r64`**: the target is copied to a temporary BEFORE the return address is pushed, so `call rsp` goes to the OLD
    stack pointer -/
theorem lift_callReg64 (i : Nat) (hi : i < 16) (addr len : Nat) (haddr : addr + len < 2 ^ 64) (σ : State) (st : St) (ha : Abs σ st)
    (bs : List UInt8) (hmap : st.mem.readBytes (st.gpr 4 - 8#64).toNat 8 = some bs)
    (hwrap : (st.gpr 4 - 8#64).toNat + 8 ≤ 2 ^ 64) :
    ∃ ops, opsCallReg64 addr len ⟨i, 64, 0⟩ = .ok ops ∧
      AgreesTo (straight addr len ops) σ (insCallReg addr len ⟨i, 64, 0⟩) st (st.gpr i).toNat := by
  have hget : Ev σ (getE ⟨i, 64, 0⟩) 64 (st.gpr i) := by
    have := ev_getE ha (Shape.r64 i) hi
    simpa [getReg] using this
  have e0 := exec_assign (temp addr 0 64) hget
  have ha0 := abs_set_temp ha addr 0 64 (ofBV (st.gpr i))
  have ht0 := get_set_self σ (temp addr 0 64).name (ofBV (st.gpr i))
  have hnsp := Ev.sub (ev_sp ha0) (ev_eight (σ := _))
  have hval : Ev (σ.set (temp addr 0 64).name (ofBV (st.gpr i))) (Expr.ec (addr + len) 64) 64 (BitVec.ofNat 64 (addr + len)) := by
    have := Ev.ec (σ := σ.set (temp addr 0 64).name (ofBV (st.gpr i))) (addr + len) 64
    rwa [Nat.mod_eq_of_lt haddr] at this
  have e1 := exec_store 8 (by decide) rfl hnsp hval hwrap
  have hb : bytesOf (σ.set (temp addr 0 64).name (ofBV (st.gpr i))).endian (ofBV (BitVec.ofNat 64 (addr + len))) =
      bytesOfLE (addr + len) 8 := by
    rw [show (σ.set (temp addr 0 64).name (ofBV (st.gpr i))).endian = σ.endian from rfl, ha.endian, bytesOf_little]
    simp [Nat.mod_eq_of_lt haddr]
  rw [hb, show (σ.set (temp addr 0 64).name (ofBV (st.gpr i))).mem = σ.mem from rfl, ha.mem] at e1
  have ha1 : Abs { σ.set (temp addr 0 64).name (ofBV (st.gpr i)) with mem := st.mem.write (st.gpr 4 - 8#64).toNat (bytesOfLE (addr + len) 8) }
      { st with mem := st.mem.write (st.gpr 4 - 8#64).toNat (bytesOfLE (addr + len) 8) } := abs_store ha0 _
  have hnsp1 := Ev.sub (ev_sp ha1) (ev_eight (σ := _))
  have e2 := exec_assign (X86Lift.scalar "rsp" 64) hnsp1
  have hne : (temp addr 0 64).name ≠ "rsp" := by
    have := temp_ne_rName (i := 4) (by decide) addr 0 64
    have h4 : rName 4 = "rsp" := by decide
    rwa [h4] at this
  have ht2 : (State.set { σ.set (temp addr 0 64).name (ofBV (st.gpr i)) with mem := st.mem.write (st.gpr 4 - 8#64).toNat (bytesOfLE (addr + len) 8) }
      "rsp" (ofBV (st.gpr 4 - 8#64))).get (temp addr 0 64).name = some (ofBV (st.gpr i)) := by
    rw [get_set_ne _ _ hne]; exact ht0
  have e3 := exec_branch (Ev.scalar (s := temp addr 0 64) ht2)
  refine ⟨[.assign (temp addr 0 64) (getE ⟨i, 64, 0⟩), .store (.bin .sub spE (Expr.ec 8 64)) (Expr.ec (addr + len) 64),
      .assign (X86Lift.scalar "rsp" 64) (.bin .sub spE (Expr.ec 8 64)), .branch (.scalar (temp addr 0 64))],
    by simp [opsCallReg64, regGet_eq (Shape.r64 i), Expr.mkBin, spE, sc, Expr.bits, bind, Res.bind, pure], _, _, ?_,
    step_callReg64 addr len i st haddr bs hmap, abs_set_rsp ha1 _⟩
  rw [runBTR_straight _ _ _ _ (by simp)]
  simp only [X86Lift.scalar] at e2 e3 ⊢
  simp only [execOps, e0, e1, e2, e3]

end C01
end Falcon
