/-
  FalconProofs.C01.Flow — instruction-level agreement for `ret` and `call rel32` in 64-bit mode: the stack slot, rsp
  and the NEXT ADDRESS (the loaded return address / the call target), for every state in which the eight stack bytes
  are mapped and the access does not wrap 2^64.
-/
import FalconProofs.C01.Stack

namespace Falcon
namespace C01
open Const X86 X86Lift
open C07 (get_set get_set_self get_set_ne)

def insRet (addr len : Nat) : Ins :=
  { mode := .amd64, mnem := "ret", len := len, asz := 8, ops := [], addr := addr }

def insCall (addr len t bytes : Nat) : Ins :=
  { mode := .amd64, mnem := "call", len := len, asz := 8, ops := [.imm t bytes], addr := addr }

/-- agreement of one lifted instruction with the specification when control goes to `t`: the IL run ends with the
    single successor `t`, the specification does not trap and continues at `t`, and the end states are related (all
    sixteen registers, CF ZF SF OF, memory) -/
def AgreesTo (r : BTR) (σ : State) (i : Ins) (st : St) (t : Nat) : Prop :=
  ∃ σ' st', runBTR r σ = .next σ' [t] ∧ X86.step i st = .ok st' t [] ∧ Abs σ' st'

theorem exec_branch {σ : State} {e : Expr} {v : BitVec 64} (h : Ev σ e 64 v) :
    execute σ (.branch e) = .ok (σ, .branch v.toNat) := by
  have hlt : v.toNat < 2 ^ 64 := v.isLt
  simp only [execute, h.evalIn, Res.bind_ok, addrOf, ofBV_val, hlt, ↓reduceIte]

theorem setReg64_twice (st : St) (i : Nat) (v w : BitVec 64) :
    setReg (setReg st ⟨i, 64, 0⟩ v) ⟨i, 64, 0⟩ w = setReg st ⟨i, 64, 0⟩ w := by
  simp only [setReg, mergeReg]
  congr 1
  funext j
  by_cases h : j = i <;> simp [h]

/-! ### ret -/

theorem step_ret64 (addr len : Nat) (st : St) (bs : List UInt8)
    (hmap : st.mem.readBytes (st.gpr 4).toNat 8 = some bs) :
    step (insRet addr len) st = .ok (setReg st (rsp 64) (st.gpr 4 + 8#64)) (natOfLE bs) [] := by
  have hc : splitCc "ret" = none := by decide
  have hsp : BitVec.ofNat 64 (((st.gpr 4).toNat + 8) % 2 ^ 64) = st.gpr 4 + 8#64 := by
    apply BitVec.eq_of_toNat_eq; simp [BitVec.toNat_add]
  have h2 : ∀ v : BitVec 64, getReg (setReg st ⟨4, 64, 0⟩ v) ⟨4, 64, 0⟩ 64 = v := by
    intro v; simp [getReg, setReg, mergeReg]
  unfold step insRet
  simp only [hc]
  simp [pop, readMem, orTrap, Mode.bits, rsp, hmap, hsp, h2, setReg64_twice, show getReg st ⟨4, 64, 0⟩ 64 = st.gpr 4 by simp [getReg]]

/-- **`ret`**: load eight bytes at `rsp`, `rsp += 8`, branch to the loaded value -/
theorem lift_ret64 (addr len : Nat) (σ : State) (st : St) (ha : Abs σ st)
    (bs : List UInt8) (hmap : st.mem.readBytes (st.gpr 4).toNat 8 = some bs) (hwrap : (st.gpr 4).toNat + 8 ≤ 2 ^ 64) :
    ∃ ops, opsRet64 addr = .ok ops ∧
      AgreesTo { addr := addr, length := len, instrs := [oneBlock addr ops], succs := [] } σ (insRet addr len) st (natOfLE bs) := by
  have hr : σ.mem.readBytes (st.gpr 4).toNat 8 = some bs := by rw [ha.mem]; exact hmap
  have hlt : natOfLE bs < 2 ^ 64 := by
    have := C07.natOfLE_lt bs
    rwa [C07.readBytes_length _ _ _ _ hmap] at this
  have e1 := exec_load (ltemp addr 64) 8 (by decide) rfl (ev_sp ha) hwrap bs hr
  rw [ha.endian, load_value _ _ _ _ hr] at e1
  have ha1 := abs_set_ltemp ha addr 64 (ofBV (BitVec.ofNat (8 * 8) (natOfLE bs)))
  have ht1 := get_set_self σ (ltemp addr 64).name (ofBV (BitVec.ofNat (8 * 8) (natOfLE bs)))
  have hnsp := Ev.add (ev_sp ha1) (ev_eight (σ := _))
  have e2 := exec_assign (X86Lift.scalar "rsp" 64) hnsp
  have ha2 := abs_set_rsp ha1 (st.gpr 4 + 8#64)
  have ht2 : (State.set (σ.set (ltemp addr 64).name (ofBV (BitVec.ofNat (8 * 8) (natOfLE bs)))) "rsp" (ofBV (st.gpr 4 + 8#64))).get
      (ltemp addr 64).name = some (ofBV (BitVec.ofNat 64 (natOfLE bs))) := by
    have hne : (ltemp addr 64).name ≠ "rsp" := by
      have := ltemp_ne_rName (i := 4) (by decide) addr 64
      have h4 : rName 4 = "rsp" := by decide
      rwa [h4] at this
    rw [get_set_ne _ _ hne]; exact ht1
  have e3 := exec_branch (Ev.scalar (s := ltemp addr 64) ht2)
  have htn : (BitVec.ofNat 64 (natOfLE bs)).toNat = natOfLE bs := by
    rw [BitVec.toNat_ofNat]; exact Nat.mod_eq_of_lt hlt
  rw [htn] at e3
  refine ⟨[.load (ltemp addr 64) spE, .assign (X86Lift.scalar "rsp" 64) (.bin .add spE (Expr.ec 8 64)),
      .branch (.scalar (ltemp addr 64))],
    by simp [opsRet64, Expr.mkBin, spE, sc, Expr.bits, bind, Res.bind, pure],
    _, _, ?_, step_ret64 addr len st bs hmap, ha2⟩
  rw [runBTR_one _ _ _ _ _ (by simp)]
  simp only [execOps, e1, e2]
  simp only [X86Lift.scalar] at e3 ⊢
  simp only [e3]

/-! ### call rel32 -/

theorem nextIp_call (addr len t bytes : Nat) (h : addr + len < 2 ^ 64) :
    nextIp (insCall addr len t bytes) = addr + len := by
  simp [nextIp, insCall, Mode.bits, Nat.mod_eq_of_lt h]

theorem step_call64 (addr len t bytes : Nat) (st : St) (h : addr + len < 2 ^ 64) (bs : List UInt8)
    (hmap : st.mem.readBytes (st.gpr 4 - 8#64).toNat 8 = some bs) :
    step (insCall addr len t bytes) st =
      .ok (setReg { st with mem := st.mem.write (st.gpr 4 - 8#64).toNat (bytesOfLE (addr + len) 8) } (rsp 64) (st.gpr 4 - 8#64))
        (t % 2 ^ 64) [] := by
  have hc : splitCc "call" = none := by decide
  have hn := nextIp_call addr len t bytes h
  have hw : BitVec.setWidth 64 (BitVec.setWidth 64 (st.gpr 4 >>> 0)) = st.gpr 4 := by simp
  have hsp : ((st.gpr 4).toNat + 2 ^ 64 - 64 / 8) % 2 ^ 64 = (st.gpr 4 - 8#64).toNat := by
    rw [BitVec.toNat_sub]; have := (st.gpr 4).isLt; simp; omega
  have hv : (addr + len) % 2 ^ (8 * (64 / 8)) = addr + len := Nat.mod_eq_of_lt (by simpa using h)
  unfold step insCall
  simp only [hc]
  simp only [insCall] at hn
  simp only [push, writeMem, orTrap, Mode.bits, hn, getReg, rsp, hw, hsp]
  simp only [Option.map_some, Option.bind_eq_bind, Option.bind_some, hv, show 64 / 8 = 8 from rfl, hmap]
  simp only [BitVec.ofNat_toNat, BitVec.setWidth_eq]
  simp [-BitVec.toNat_sub]

/-- **`call rel32`**: store the return address `addr + len` at `rsp - 8`, `rsp -= 8`, branch to the target -/
theorem lift_call64 (addr len t bytes : Nat) (haddr : addr + len < 2 ^ 64) (σ : State) (st : St) (ha : Abs σ st)
    (bs : List UInt8) (hmap : st.mem.readBytes (st.gpr 4 - 8#64).toNat 8 = some bs)
    (hwrap : (st.gpr 4 - 8#64).toNat + 8 ≤ 2 ^ 64) :
    ∃ ops, opsCall64 addr len t = .ok ops ∧ AgreesTo (straight addr len ops) σ (insCall addr len t bytes) st (t % 2 ^ 64) := by
  have hnsp := Ev.sub (ev_sp ha) (ev_eight (σ := σ))
  have hval : Ev σ (Expr.ec (addr + len) 64) 64 (BitVec.ofNat 64 (addr + len)) := by
    have := Ev.ec (σ := σ) (addr + len) 64
    rwa [Nat.mod_eq_of_lt haddr] at this
  have e1 := exec_store 8 (by decide) rfl hnsp hval hwrap
  have hb : bytesOf σ.endian (ofBV (BitVec.ofNat 64 (addr + len))) = bytesOfLE (addr + len) 8 := by
    rw [ha.endian, bytesOf_little]; simp [Nat.mod_eq_of_lt haddr]
  rw [hb, ha.mem] at e1
  have ha1 : Abs { σ with mem := st.mem.write (st.gpr 4 - 8#64).toNat (bytesOfLE (addr + len) 8) }
      { st with mem := st.mem.write (st.gpr 4 - 8#64).toNat (bytesOfLE (addr + len) 8) } := abs_store ha _
  have hnsp1 := Ev.sub (ev_sp ha1) (ev_eight (σ := _))
  have e2 := exec_assign (X86Lift.scalar "rsp" 64) hnsp1
  have e3 := exec_branch (Ev.ec (σ := State.set { σ with mem := st.mem.write (st.gpr 4 - 8#64).toNat (bytesOfLE (addr + len) 8) }
    (X86Lift.scalar "rsp" 64).name (ofBV (st.gpr 4 - 8#64))) t 64)
  have htn : (BitVec.ofNat 64 (t % 2 ^ 64)).toNat = t % 2 ^ 64 := by
    rw [BitVec.toNat_ofNat]; exact Nat.mod_eq_of_lt (Nat.mod_lt _ (by decide))
  rw [htn] at e3
  refine ⟨[.store (.bin .sub spE (Expr.ec 8 64)) (Expr.ec (addr + len) 64), .assign (X86Lift.scalar "rsp" 64) (.bin .sub spE (Expr.ec 8 64)),
      .branch (Expr.ec t 64)],
    by simp [opsCall64, Expr.mkBin, spE, sc, Expr.bits, bind, Res.bind, pure], _, _, ?_,
    step_call64 addr len t bytes st haddr bs hmap, abs_set_rsp ha1 _⟩
  rw [runBTR_straight _ _ _ _ (by simp)]
  simp only [execOps, e1, e2, e3]
  rfl

end C01
end Falcon
