/-
  FalconProofs.C01.Mem — memory operands in 64-bit mode: the address expression of `mode.rs::operand_value`
  (mirror: `X86Lift.memAddr`) denotes the architecture's effective address (`X86.effAddr`), and the IL's load / store
  through it are the specification's `readMem` / `writeMem`, for accesses that are mapped and do not wrap 2^64.
  Covered: base and index any 64-bit general register or rip (base), any scale and displacement, no segment override,
  64-bit address size.
-/
import FalconProofs.C01.Alu
import FalconProofs.C07.Typing

namespace Falcon
namespace C01
open Const X86 X86Lift
open C07 (get_set get_set_self get_set_ne)

/-- the address registers covered: a 64-bit general register, or rip -/
inductive AOk : AReg → Prop where
  | ip : AOk .ip
  | gpr (i : Nat) (h : i < 16) : AOk (.gpr ⟨i, 64, 0⟩)

def aregX (addr len : Nat) : AReg → Expr
  | .ip => Expr.ec (addr + len) 64
  | .gpr r => fullE r.idx

def aregV (st : St) (addr len : Nat) : AReg → BitVec 64
  | .ip => BitVec.ofNat 64 (addr + len)
  | .gpr r => st.gpr r.idx

theorem aregE_eq {r : AReg} (h : AOk r) (addr len : Nat) : aregE .amd64 addr len r = .ok (aregX addr len r) := by
  cases h with
  | ip => simp [aregE, aregX]
  | gpr i hi => simp [aregE, aregX, Mode.bits, regGet, fullE]

theorem aregX_bits {r : AReg} (addr len : Nat) : (aregX addr len r).bits = 64 := by
  cases r <;> simp [aregX, fullE, sc, Expr.bits]

theorem ev_aregX {σ : State} {st st' : St} (ha : Abs σ st') (hg : st'.gpr = st.gpr) {r : AReg} (h : AOk r) (addr len : Nat) :
    Ev σ (aregX addr len r) 64 (aregV st addr len r) := by
  cases h with
  | ip => exact (Ev.ec (σ := σ) (addr + len) 64).cast (ofNat_mod64 (Or.inr (Or.inr (Or.inr rfl))) _)
  | gpr i hi =>
    have := ev_full ha hi
    simpa [aregX, aregV, hg] using this

/-- base + index*scale, if either is present -/
def opX (addr len : Nat) (base index : Option AReg) (scale : Nat) : Option Expr :=
  match base.map (aregX addr len), index.map (fun r => Expr.bin .mul (aregX addr len r) (Expr.ec scale 64)) with
  | some b, some s => some (.bin .add b s)
  | some b, none => some b
  | none, s => s

def opV (st : St) (addr len : Nat) (base index : Option AReg) (scale : Nat) : BitVec 64 :=
  (base.map (aregV st addr len)).getD 0 + (index.map (fun r => aregV st addr len r * BitVec.ofNat 64 scale)).getD 0

def memAddrE (addr len : Nat) (base index : Option AReg) (scale disp : Nat) : Expr :=
  match opX addr len base index scale with
  | some o =>
    if disp = 0 then o
    else if disp < 2 ^ 63 then .bin .add o (Expr.ec disp 64)
    else .bin .sub o (Expr.ec (2 ^ 64 - disp) 64)
  | none => Expr.ec disp 64

def memAddrV (st : St) (addr len : Nat) (base index : Option AReg) (scale disp : Nat) : BitVec 64 :=
  opV st addr len base index scale + BitVec.ofNat 64 disp

def OptOk : Option AReg → Prop
  | none => True
  | some r => AOk r

theorem ev_scale {σ : State} (scale : Nat) : Ev σ (Expr.ec scale 64) 64 (BitVec.ofNat 64 scale) :=
  (Ev.ec (σ := σ) scale 64).cast (ofNat_mod64 (Or.inr (Or.inr (Or.inr rfl))) _)

theorem ev_opX {σ : State} {st st' : St} (ha : Abs σ st') (hg : st'.gpr = st.gpr) {base index : Option AReg}
    (hb : OptOk base) (hi : OptOk index) (addr len scale : Nat) :
    (opX addr len base index scale = none ∧ opV st addr len base index scale = 0) ∨
    ∃ e, opX addr len base index scale = some e ∧ e.bits = 64 ∧ Ev σ e 64 (opV st addr len base index scale) := by
  cases base with
  | none =>
    cases index with
    | none => left; simp [opX, opV]
    | some ix =>
      right
      refine ⟨_, rfl, by simp [Expr.bits, BinOp.isCmp, aregX_bits], ?_⟩
      have := Ev.mul (ev_aregX ha hg hi addr len) (ev_scale (σ := σ) scale)
      simpa [opV] using this
  | some b =>
    cases index with
    | none =>
      right
      refine ⟨_, rfl, aregX_bits addr len, ?_⟩
      simpa [opV] using ev_aregX ha hg hb addr len
    | some ix =>
      right
      refine ⟨_, rfl, by simp [Expr.bits, BinOp.isCmp, aregX_bits], ?_⟩
      have hm := Ev.mul (ev_aregX ha hg hi addr len) (ev_scale (σ := σ) scale)
      simpa [opV] using Ev.add (ev_aregX ha hg hb addr len) hm

theorem neg_disp (v : BitVec 64) (disp : Nat) (h : disp < 2 ^ 64) (h0 : disp ≠ 0) :
    v - BitVec.ofNat 64 (2 ^ 64 - disp) = v + BitVec.ofNat 64 disp := by
  apply BitVec.eq_of_toNat_eq
  simp only [BitVec.toNat_sub, BitVec.toNat_add, BitVec.toNat_ofNat]
  have := v.isLt
  omega

theorem ev_memAddrE {σ : State} {st st' : St} (ha : Abs σ st') (hg : st'.gpr = st.gpr) {base index : Option AReg}
    (hb : OptOk base) (hi : OptOk index) (addr len scale disp : Nat) (hd : disp < 2 ^ 64) :
    Ev σ (memAddrE addr len base index scale disp) 64 (memAddrV st addr len base index scale disp) ∧
      (memAddrE addr len base index scale disp).bits = 64 := by
  unfold memAddrE memAddrV
  rcases ev_opX ha hg hb hi addr len scale with ⟨h1, h2⟩ | ⟨e, h1, h2, h3⟩
  · rw [h1, h2]
    refine ⟨?_, rfl⟩
    have := (Ev.ec (σ := σ) disp 64).cast (ofNat_mod64 (Or.inr (Or.inr (Or.inr rfl))) _)
    simpa using this
  · rw [h1]
    have hdv : Ev σ (Expr.ec disp 64) 64 (BitVec.ofNat 64 disp) :=
      (Ev.ec (σ := σ) disp 64).cast (ofNat_mod64 (Or.inr (Or.inr (Or.inr rfl))) _)
    by_cases h0 : disp = 0
    · subst h0; simpa using And.intro h3 h2
    · by_cases hp : disp < 2 ^ 63
      · simp only [h0, hp, ↓reduceIte]
        exact ⟨Ev.add h3 hdv, by simp [Expr.bits, BinOp.isCmp, h2]⟩
      · simp only [h0, hp, ↓reduceIte]
        refine ⟨?_, by simp [Expr.bits, BinOp.isCmp, h2]⟩
        have hn : Ev σ (Expr.ec (2 ^ 64 - disp) 64) 64 (BitVec.ofNat 64 (2 ^ 64 - disp)) :=
          (Ev.ec (σ := σ) (2 ^ 64 - disp) 64).cast (ofNat_mod64 (Or.inr (Or.inr (Or.inr rfl))) _)
        exact (Ev.sub h3 hn).cast (neg_disp _ disp hd h0)

theorem dispStage (o : Expr) (ho : o.bits = 64) (disp : Nat) :
    (if disp = 0 then (pure o : Res Expr)
     else if disp < 2 ^ 63 then Expr.mkBin .add o (Expr.ec disp 64)
     else Expr.mkBin .sub o (Expr.ec (2 ^ 64 - disp) 64)) =
    .ok (if disp = 0 then o else if disp < 2 ^ 63 then .bin .add o (Expr.ec disp 64)
         else .bin .sub o (Expr.ec (2 ^ 64 - disp) 64)) := by
  split
  · rfl
  · split <;> simp [Expr.mkBin, ho]

theorem memAddr_eq {base index : Option AReg} (hb : OptOk base) (hi : OptOk index) (addr len scale disp : Nat) :
    memAddr .amd64 addr len base index scale disp = .ok (memAddrE addr len base index scale disp) := by
  unfold memAddr memAddrE opX
  cases base with
  | none =>
    cases index with
    | none => simp [bind, Res.bind, pure, Mode.bits]
    | some ix =>
      have h1 := aregE_eq hi addr len
      simp only [Option.map_none, Option.map_some, h1, bind, Res.bind, pure, Mode.bits, Expr.mkBin, aregX_bits, ec_bits,
        ne_eq, not_true_eq_false, ↓reduceIte]
      exact dispStage _ (by simp [Expr.bits, BinOp.isCmp, aregX_bits]) disp
  | some b =>
    have h0 := aregE_eq hb addr len
    cases index with
    | none =>
      simp only [Option.map_none, Option.map_some, h0, bind, Res.bind, pure, Mode.bits]
      exact dispStage _ (aregX_bits addr len) disp
    | some ix =>
      have h1 := aregE_eq hi addr len
      have hs : (Expr.bin .mul (aregX addr len ix) (Expr.ec scale 64)).bits = 64 := by simp [Expr.bits, BinOp.isCmp, aregX_bits]
      have ha : (Expr.bin .add (aregX addr len b) (Expr.bin .mul (aregX addr len ix) (Expr.ec scale 64))).bits = 64 := by
        simp [Expr.bits, BinOp.isCmp, aregX_bits]
      simp only [Option.map_some, h0, h1, bind, Res.bind, pure, Mode.bits, Expr.mkBin, aregX_bits, ec_bits, hs,
        ne_eq, not_true_eq_false, ↓reduceIte]
      exact dispStage _ ha disp


/-! ### the effective address of the specification -/

def rvNat (st : St) (addr len : Nat) : Option AReg → Nat
  | some (.gpr r) => (getReg st r 64).toNat
  | some .ip => addr + len
  | none => 0

theorem aregV_ofNat (st : St) (addr len : Nat) {r : AReg} (h : AOk r) :
    aregV st addr len r = BitVec.ofNat 64 (rvNat st addr len (some r)) := by
  cases h with
  | ip => rfl
  | gpr i hi => simp [aregV, rvNat, getReg]

theorem memAddrV_ofNat (st : St) (addr len : Nat) {base index : Option AReg} (hb : OptOk base) (hi : OptOk index)
    (scale disp : Nat) :
    memAddrV st addr len base index scale disp =
      BitVec.ofNat 64 (rvNat st addr len base + rvNat st addr len index * scale + disp) := by
  unfold memAddrV opV
  cases base with
  | none =>
    cases index with
    | none => simp [rvNat]
    | some ix => simp [aregV_ofNat st addr len hi, BitVec.ofNat_add, BitVec.ofNat_mul, rvNat]
  | some b =>
    cases index with
    | none => simp [aregV_ofNat st addr len hb, BitVec.ofNat_add, rvNat]
    | some ix => simp [aregV_ofNat st addr len hb, aregV_ofNat st addr len hi, BitVec.ofNat_add, BitVec.ofNat_mul]

theorem effAddr_eq (i : Ins) (hm : i.mode = .amd64) (hz : i.asz = 8) (st : St) {base index : Option AReg}
    (hb : OptOk base) (hi : OptOk index) (scale disp : Nat) :
    effAddr i st none base index scale disp = (memAddrV st i.addr i.len base index scale disp).toNat := by
  rw [memAddrV_ofNat st i.addr i.len hb hi]
  rcases base with _ | _ | _ <;> rcases index with _ | _ | _ <;>
    simp [effAddr, hm, hz, Mode.bits, rvNat, BitVec.toNat_ofNat]

/-! ### load and store -/

/-- `State::execute` of a load whose address expression evaluates to `av` -/
theorem exec_load {σ : State} {idx : Expr} {av : BitVec 64} (dst : Scalar) (k : Nat) (hk : 0 < k)
    (hbits : dst.bits = 8 * k) (hi : Ev σ idx 64 av) (hw : av.toNat + k ≤ 2 ^ 64) (bs : List UInt8)
    (hr : σ.mem.readBytes av.toNat k = some bs) :
    execute σ (.load dst idx) = .ok (σ.set dst.name (constOfBytes σ.endian bs), .fallThrough) := by
  have hlt : av.toNat < 2 ^ 64 := av.isLt
  have h8 : dst.bits / 8 = k := by rw [hbits]; omega
  have hmod : ¬ (dst.bits % 8 ≠ 0 ∨ dst.bits = 0) := by rw [hbits]; omega
  have hov' : ¬ (av.toNat + k > 2 ^ 64) := by omega
  simp only [execute, hi.evalIn, Res.bind_ok, addrOf, ofBV_val, hlt, ↓reduceIte, hmod, h8, hr, hov']

/-- the constant a little-endian load builds is the specification's value -/
theorem load_value (m : ByteMem) (a k : Nat) (bs : List UInt8) (hr : m.readBytes a k = some bs) :
    constOfBytes .little bs = ofBV (BitVec.ofNat (8 * k) (natOfLE bs)) := by
  have hl := C07.readBytes_length m k a bs hr
  have hlt := C07.natOfLE_lt bs
  rw [hl] at hlt
  simp only [constOfBytes, ofBV, BitVec.toNat_ofNat, hl]
  rw [Nat.mod_eq_of_lt hlt]

/-- `State::execute` of a store -/
theorem exec_store {σ : State} {idx src : Expr} {av : BitVec 64} {w : Nat} {v : BitVec w} (k : Nat) (hk : 0 < k)
    (hbits : w = 8 * k) (hi : Ev σ idx 64 av) (hs : Ev σ src w v) (hw : av.toNat + k ≤ 2 ^ 64) :
    execute σ (.store idx src) =
      .ok ({ σ with mem := σ.mem.write av.toNat (bytesOf σ.endian (ofBV v)) }, .fallThrough) := by
  have hlt : av.toNat < 2 ^ 64 := av.isLt
  have h8 : w / 8 = k := by rw [hbits]; omega
  have hmod : ¬ (w % 8 ≠ 0 ∨ w = 0) := by rw [hbits]; omega
  have hov' : ¬ (av.toNat + k > 2 ^ 64) := by omega
  simp only [execute, hi.evalIn, hs.evalIn, Res.bind_ok, addrOf, ofBV_val, ofBV_bits, hlt, ↓reduceIte, hmod, h8, hov']

theorem bytesOf_little {w : Nat} (v : BitVec w) : bytesOf .little (ofBV v) = bytesOfLE v.toNat (w / 8) := rfl

end C01
end Falcon
