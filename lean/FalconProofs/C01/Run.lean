/-
  FalconProofs.C01.Run (pattern of FalconProofs/C03/Run.lean, for the x86 mirror's block shape) — running the one-block instruction graphs of the mirror with `runBTR`
  (`FalconModel/Lift.lean`): the block's operations execute in order (`execOps`), then the successor
  edges are picked the way falcon's executor picks them (`pickEdge`).
-/
import FalconModel.Isa.X86Lift

namespace Falcon
namespace C01
open X86Lift

/-- the operations of a block, in order -/
def execOps : List Op → State → GOut
  | [], σ => .done σ
  | op :: rest, σ =>
    match execute σ op with
    | .ok (σ', .fallThrough) => execOps rest σ'
    | .ok (σ', .branch a) => .branch σ' a
    | .err e => .stop σ (toString e)
    | .panic => .stop σ "panic"

theorem mkInstrs_getElem? (addr : Nat) : ∀ (ops : List Op) (i p : Nat),
    (mkInstrs addr i ops)[p]? = (ops[p]?).map (fun op => { index := i + p, addr := some addr, op := op })
  | [], i, p => by simp [mkInstrs]
  | op :: rest, i, 0 => by simp [mkInstrs]
  | op :: rest, i, p + 1 => by
      simp only [mkInstrs, List.getElem?_cons_succ]
      rw [mkInstrs_getElem? addr rest (i + 1) p]
      congr 1; funext o; congr 1; omega

theorem oneBlock_block (addr : Nat) (ops : List Op) :
    (oneBlock addr ops).block 0 = some { index := 0, nextInstr := ops.length, instrs := mkInstrs addr 0 ops } := by
  simp [oneBlock, Function.block, Cfg.block]

theorem runGraph_oneBlock (addr : Nat) (ops : List Op) :
    ∀ (fuel p : Nat) (σ : State), ops.length - p < fuel →
      runGraph (oneBlock addr ops) fuel ⟨0, p, σ⟩ = execOps (ops.drop p) σ := by
  intro fuel
  induction fuel with
  | zero => intro p σ h; omega
  | succ fuel ih =>
    intro p σ h
    rw [runGraph, oneBlock_block]
    simp only [mkInstrs_getElem?]
    cases hp : ops[p]? with
    | none =>
      have hlen : ops.length ≤ p := List.getElem?_eq_none_iff.mp hp
      simp [List.drop_eq_nil_of_le hlen, execOps, oneBlock]
    | some op =>
      have hlt : p < ops.length := by
        rcases Nat.lt_or_ge p ops.length with h' | h'
        · exact h'
        · rw [List.getElem?_eq_none_iff.mpr h'] at hp; cases hp
      have hd : ops.drop p = op :: ops.drop (p + 1) := by
        rw [List.drop_eq_getElem_cons hlt]
        congr 1
        have := List.getElem?_eq_getElem hlt
        rw [this] at hp; injection hp
      simp only [Option.map_some, hd, execOps]
      cases he : execute σ op with
      | ok r =>
        obtain ⟨σ', su⟩ := r
        cases su with
        | fallThrough => simp only; rw [ih (p + 1) σ' (by omega)]
        | branch a => rfl
      | err e => rfl
      | panic => rfl

/-- what `runBTR` makes of the successor list once the block is done -/
def afterBlock (succs : List (Nat × Option Expr)) (σ : State) : LiftOut :=
  let es : List Edge := succs.zipIdx.map (fun ((_, c), i) => { head := 0, tail := i, cond := c })
  match pickEdge σ es with
  | .ok (some e) => .next σ ((succs[e.tail]?.map (·.1)).toList)
  | .ok none => .stop σ "err:noedge"
  | .err e => .stop σ (toString e)
  | .panic => .stop σ "panic"

theorem runBTR_one (addr len : Nat) (ops : List Op) (succs : List (Nat × Option Expr)) (σ : State)
    (hlen : ops.length < 4096) :
    runBTR { addr := addr, length := len, instrs := [oneBlock addr ops], succs := succs } σ =
      match execOps ops σ with
      | .done σ' => afterBlock succs σ'
      | .branch σ' a => .next σ' [a]
      | .stop σ' why => .stop σ' why := by
  unfold runBTR
  simp only [runBTR.go]
  have : (oneBlock addr ops).cfg.entry = some 0 := rfl
  simp only [this]
  rw [runGraph_oneBlock addr ops 4096 0 σ (by omega)]
  simp only [List.drop_zero]
  cases execOps ops σ <;> first | rfl | simp [afterBlock]

/-- a fall-through instruction: one unconditional successor -/
theorem afterBlock_single (a : Nat) (σ : State) : afterBlock [(a, none)] σ = .next σ [a] := by
  simp [afterBlock, pickEdge]

theorem runBTR_straight (addr len : Nat) (ops : List Op) (σ : State) (hlen : ops.length < 4096) :
    runBTR (straight addr len ops) σ =
      match execOps ops σ with
      | .done σ' => .next σ' [addr + len]
      | .branch σ' a => .next σ' [a]
      | .stop σ' why => .stop σ' why := by
  unfold straight
  rw [runBTR_one addr len ops _ σ hlen]
  cases execOps ops σ <;> simp [afterBlock_single]

/-- two guarded successors: the first whose guard evaluates to one -/
theorem afterBlock_two (a b : Nat) (g h : Expr) (σ : State) (cg ch : Const)
    (hg : σ.evalIn g = .ok cg) (hh : σ.evalIn h = .ok ch) :
    afterBlock [(a, some g), (b, some h)] σ =
      if cg.isOne then .next σ [a] else if ch.isOne then .next σ [b] else .stop σ "err:noedge" := by
  simp only [afterBlock, List.zipIdx_cons, List.zipIdx_nil, List.map, pickEdge, pickEdge.go, hg, hh]
  by_cases h1 : cg.isOne
  · simp [h1]
  · by_cases h2 : ch.isOne
    · simp [h1, h2]
    · simp [h1, h2]; rfl

end C01
end Falcon
