/-
  FalconProofs.C01.MemForms — instruction-level agreement for mov/add/sub/cmp/and/or/xor with ONE memory operand
  (`op r, [mem]`, `op [mem], r`, `op [mem], imm`) and for `lea`, 64-bit mode, 64-bit address size, no segment override,
  for every state in which the access is mapped and does not wrap 2^64.
-/
import FalconProofs.C01.Core

namespace Falcon
namespace C01
open Const X86 X86Lift
open C07 (get_set get_set_self get_set_ne)

/-- a two-operand instruction with arbitrary operands, 64-bit address size -/
def insG (m : String) (addr len : Nat) (dop sop : Opnd) : Ins :=
  { mode := .amd64, mnem := m, len := len, asz := 8, ops := [dop, sop], addr := addr }

/-- the memory operand as the specification sees it -/
def memOpnd (mo : MemOp) : Opnd := .mem mo.bytes none mo.base mo.index mo.scale mo.disp

/-- what the theorems assume of a memory operand -/
structure MemOk (mo : MemOp) : Prop where
  base : OptOk mo.base
  index : OptOk mo.index
  disp : mo.disp < 2 ^ 64
  width : OpWidth (8 * mo.bytes)

def eaOf (st : St) (addr len : Nat) (mo : MemOp) : Nat :=
  (memAddrV st addr len mo.base mo.index mo.scale mo.disp).toNat

/-- like `Agrees`, without the clause that memory is unchanged -/
def AgreesM (r : BTR) (σ : State) (i : Ins) (st : St) : Prop :=
  ∃ σ' st', runBTR r σ = .next σ' [i.addr + i.len] ∧ X86.step i st = .ok st' (i.addr + i.len) [] ∧ Abs σ' st'

theorem nextIp_G (m : String) (addr len : Nat) (dop sop : Opnd) (h : addr + len < 2 ^ 64) :
    nextIp (insG m addr len dop sop) = addr + len := by
  simp [nextIp, insG, Mode.bits, Nat.mod_eq_of_lt h]

/-! ### the specification on general operands -/

theorem alu2_gen (m : String) (addr len : Nat) (dop sop : Opnd) (st : St) (h : addr + len < 2 ^ 64)
    {a b : BitVec dop.bits} (hra : readOp (insG m addr len dop sop) st dop.bits dop = some a)
    (hrb : srcVal (insG m addr len dop sop) st dop.bits sop = some b)
    (f : (w : Nat) → St → BitVec w → BitVec w → BitVec w × St) :
    alu2 (insG m addr len dop sop) st f false = .ok (f dop.bits st a b).2 (addr + len) [] ∧
    (∀ st'', writeOp (insG m addr len dop sop) (f dop.bits st a b).2 dop.bits (f dop.bits st a b).1 dop = some st'' →
      alu2 (insG m addr len dop sop) st f true = .ok st'' (addr + len) []) := by
  have hn := nextIp_G m addr len dop sop h
  constructor
  · simp only [alu2, insG, orTrap, done, bind, Option.bind, pure, Bool.false_eq_true, ↓reduceIte, Option.getD] at hn hra hrb ⊢
    rw [hra]; simp only [hrb, hn]
  · intro st'' hw
    simp only [alu2, insG, orTrap, done, bind, Option.bind, pure, ↓reduceIte, Option.getD] at hn hra hrb hw ⊢
    rw [hra]; simp only [hrb, hw, hn]

theorem step_alu_G (m : String) (addr len : Nat) (dop so : Opnd) (st : St) :
    (m = "add" → step (insG m addr len dop so) st = alu2 (insG m addr len dop so) st (fun _ σ a b => addWith σ a b false) true) ∧
    (m = "sub" → step (insG m addr len dop so) st = alu2 (insG m addr len dop so) st (fun _ σ a b => subWith σ a b false) true) ∧
    (m = "cmp" → step (insG m addr len dop so) st = alu2 (insG m addr len dop so) st (fun _ σ a b => subWith σ a b false) false) ∧
    (m = "and" → step (insG m addr len dop so) st = alu2 (insG m addr len dop so) st (fun _ σ a b => (a &&& b, logic σ (a &&& b))) true) ∧
    (m = "or" → step (insG m addr len dop so) st = alu2 (insG m addr len dop so) st (fun _ σ a b => (a ||| b, logic σ (a ||| b))) true) ∧
    (m = "xor" → step (insG m addr len dop so) st = alu2 (insG m addr len dop so) st (fun _ σ a b => (a ^^^ b, logic σ (a ^^^ b))) true) := by
  refine ⟨?_, ?_, ?_, ?_, ?_, ?_⟩ <;> intro hm <;> subst hm
  · have h : splitCc "add" = none := by decide
    unfold step insG; simp only [h]; simp
  · have h : splitCc "sub" = none := by decide
    unfold step insG; simp only [h]; simp
  · have h : splitCc "cmp" = none := by decide
    unfold step insG; simp only [h]; simp
  · have h : splitCc "and" = none := by decide
    unfold step insG; simp only [h]; simp
  · have h : splitCc "or" = none := by decide
    unfold step insG; simp only [h]; simp
  · have h : splitCc "xor" = none := by decide
    unfold step insG; simp only [h]; simp


theorem step_mov_G (addr len : Nat) (dop so : Opnd) (st st'' : St) {b : BitVec dop.bits} (h : addr + len < 2 ^ 64)
    (hr : readOp (insG "mov" addr len dop so) st dop.bits so = some b)
    (hw : writeOp (insG "mov" addr len dop so) st dop.bits b dop = some st'') :
    step (insG "mov" addr len dop so) st = .ok st'' (addr + len) [] := by
  have hc : splitCc "mov" = none := by decide
  have hn := nextIp_G "mov" addr len dop so h
  unfold step insG
  simp only [hc]
  simp only [insG] at hn hr hw
  simp [hr, hw, orTrap, done, hn]

/-! ### the memory operand: address, load, what the specification reads -/

theorem quiet_ltemp (addr n w : Nat) : Quiet addr w (ltemp addr n).name :=
  ⟨ltemp_ne_flag (by simp [flagNames]) addr n, ltemp_ne_flag (by simp [flagNames]) addr n,
   ltemp_ne_flag (by simp [flagNames]) addr n, ltemp_ne_flag (by simp [flagNames]) addr n, ltemp_ne_temp addr n 0 w⟩

theorem abs_set_ltemp {σ : State} {st : St} (ha : Abs σ st) (a n : Nat) (c : Const) : Abs (σ.set (ltemp a n).name c) st :=
  abs_set_other ha _ c (fun i hi => Ne.symm (ltemp_ne_rName hi a n))
    (ltemp_ne_flag (by simp [flagNames]) a n) (ltemp_ne_flag (by simp [flagNames]) a n)
    (ltemp_ne_flag (by simp [flagNames]) a n) (ltemp_ne_flag (by simp [flagNames]) a n)

theorem width_pos {k : Nat} (h : OpWidth (8 * k)) : 0 < k := by
  rcases h with h | h | h | h <;> omega

/-- the load of `operand_load`: afterwards the state holds the same machine state and the temporary the value the
    specification reads -/
theorem run_load {σ : State} {st : St} (ha : Abs σ st) (addr len : Nat) (mo : MemOp) (hmo : MemOk mo) (bs : List UInt8)
    (hmap : st.mem.readBytes (eaOf st addr len mo) mo.bytes = some bs) (hwrap : eaOf st addr len mo + mo.bytes ≤ 2 ^ 64) :
    execute σ (.load (ltemp addr (8 * mo.bytes)) (memAddrE addr len mo.base mo.index mo.scale mo.disp)) =
      .ok (σ.set (ltemp addr (8 * mo.bytes)).name (ofBV (BitVec.ofNat (8 * mo.bytes) (natOfLE bs))), .fallThrough) := by
  have haE := (ev_memAddrE ha rfl hmo.base hmo.index addr len mo.scale mo.disp hmo.disp).1
  have hr : σ.mem.readBytes (memAddrV st addr len mo.base mo.index mo.scale mo.disp).toNat mo.bytes = some bs := by
    rw [ha.mem]; exact hmap
  rw [exec_load (ltemp addr (8 * mo.bytes)) mo.bytes (width_pos hmo.width) rfl haE hwrap bs hr, ha.endian,
    load_value _ _ _ _ hr]

/-- what `readOp` returns for the memory operand -/
theorem readOp_mem (m : String) (addr len : Nat) (dop sop : Opnd) (st : St) (mo : MemOp) (hmo : MemOk mo) (bs : List UInt8)
    (hmap : st.mem.readBytes (eaOf st addr len mo) mo.bytes = some bs) :
    readOp (insG m addr len dop sop) st (8 * mo.bytes) (memOpnd mo) = some (BitVec.ofNat (8 * mo.bytes) (natOfLE bs)) := by
  have he := effAddr_eq (insG m addr len dop sop) rfl rfl st hmo.base hmo.index mo.scale mo.disp
  simp only [insG] at he
  have h8 : 8 * mo.bytes / 8 = mo.bytes := by omega
  simp only [readOp, memOpnd, insG, he, readMem, h8]
  unfold eaOf at hmap
  rw [hmap]; rfl

/-! ### `op r, [mem]` -/

theorem arithOps_split (op : BinOp) (sub : Bool) (addr : Nat) (d : GReg) (se : Expr) :
    arithOps op sub addr d se = arithPre op sub addr d.bits (getE d) se ++
      [.assign (X86Lift.scalar (rName d.idx) 64) (setE d (.scalar (temp addr 0 d.bits)))] := rfl

theorem logicOps_split (m : String) (addr : Nat) (d : GReg) (se : Expr) :
    logicOps m addr d se = logicPre m addr d.bits (getE d) se ++
      [.assign (X86Lift.scalar (rName d.idx) 64) (setE d (.scalar (temp addr 0 d.bits)))] := rfl

theorem cmpOps_split (d : GReg) (se : Expr) : cmpOps d se = cmpPre d.bits (getE d) se ++ [] := by
  simp [cmpOps, cmpPre]

/-- the write-back to a register destination after the prefix -/
theorem wb_reg {σ : State} {st : St} (ha : Abs σ st) {d : GReg} (hd : Shape d) (hdi : d.idx < 16) (addr : Nat)
    {r : BitVec d.bits} (ht : σ.get (temp addr 0 d.bits).name = some (ofBV r)) :
    execOps [.assign (X86Lift.scalar (rName d.idx) 64) (setE d (.scalar (temp addr 0 d.bits)))] σ =
      .done (σ.set (rName d.idx) (ofBV (mergeReg (st.gpr d.idx) d (r.setWidth 64)))) ∧
    Abs (σ.set (rName d.idx) (ofBV (mergeReg (st.gpr d.idx) d (r.setWidth 64)))) (setReg st d (r.setWidth 64)) := by
  have e := exec_assign (X86Lift.scalar (rName d.idx) 64) (ev_setE ha hd hdi (Ev.scalar (s := temp addr 0 d.bits) ht))
  exact ⟨by simp only [execOps, e]; rfl, abs_setReg ha hdi _⟩

/-- register destination, any source operand `Opd`-described in the state after an optional load -/
theorem run_reg_dst {m : String} (hm : m ∈ aluMn) {d : GReg} (hd : Shape d) (hdi : d.idx < 16) (addr : Nat)
    {se : Expr} {b : BitVec d.bits} (σ : State) (st : St) (ha : Abs σ st) (hs : Opd σ st addr d.bits se b) :
    ∃ ops σ' st', opsDS .amd64 m addr d se = .ok ops ∧ ops.length < 100 ∧ execOps ops σ = .done σ' ∧ Abs σ' st' ∧ σ'.mem = σ.mem ∧
      (m = "mov" → st' = setReg st d (b.setWidth 64)) ∧
      (m = "add" → st' = setReg (addWith st (getReg st d d.bits) b false).2 d ((addWith st (getReg st d d.bits) b false).1.setWidth 64)) ∧
      (m = "sub" → st' = setReg (subWith st (getReg st d d.bits) b false).2 d ((subWith st (getReg st d d.bits) b false).1.setWidth 64)) ∧
      (m = "cmp" → st' = (subWith st (getReg st d d.bits) b false).2) ∧
      (m = "and" ∨ m = "or" ∨ m = "xor" → st' = setReg (logic st (logicFn m (getReg st d d.bits) b)) d ((logicFn m (getReg st d d.bits) b).setWidth 64)) := by
  have hw := shape_bits hd
  have hl := opd_reg σ st addr hd hdi rfl
  simp only [aluMn, List.mem_cons, List.not_mem_nil, or_false] at hm
  rcases hm with rfl | rfl | rfl | rfl | rfl | rfl | rfl
  · -- mov
    have e := exec_assign (X86Lift.scalar (rName d.idx) 64) (ev_setE ha hd hdi (hs.ev ha rfl (Pre.refl σ addr d.bits)))
    refine ⟨_, _, _, opsDS_mov hd hs.bits addr, by simp, by simp only [execOps, e]; rfl, abs_setReg ha hdi _, rfl, fun _ => rfl, ?_, ?_, ?_, ?_⟩ <;>
      intro h <;> simp at h
  · obtain ⟨σ5, e5, ha5, hp5, ht5⟩ := core_arith false hw σ st ha hl hs
      [.assign (X86Lift.scalar (rName d.idx) 64) (setE d (.scalar (temp addr 0 d.bits)))]
    simp only [Bool.false_eq_true, ↓reduceIte] at e5 ha5 ht5
    obtain ⟨e6, ha6⟩ := wb_reg ha5 hd hdi addr ht5
    refine ⟨_, _, _, opsDS_add hd hs.bits addr, by simp [arithOps], by rw [arithOps_split, e5, e6], ha6, hp5.mem, ?_, fun _ => ?_, ?_, ?_, ?_⟩
    · intro h; simp at h
    · simp [addWith]
    all_goals (intro h; simp at h)
  · obtain ⟨σ5, e5, ha5, hp5, ht5⟩ := core_arith true hw σ st ha hl hs
      [.assign (X86Lift.scalar (rName d.idx) 64) (setE d (.scalar (temp addr 0 d.bits)))]
    simp only [↓reduceIte] at e5 ha5 ht5
    obtain ⟨e6, ha6⟩ := wb_reg ha5 hd hdi addr ht5
    refine ⟨_, _, _, opsDS_sub hd hs.bits addr, by simp [arithOps], by rw [arithOps_split, e5, e6], ha6, hp5.mem, ?_, ?_, fun _ => ?_, ?_, ?_⟩
    · intro h; simp at h
    · intro h; simp at h
    · simp [subWith]
    all_goals (intro h; simp at h)
  · obtain ⟨σ5, e5, ha5, hp5⟩ := core_cmp hw σ st ha hl hs []
    refine ⟨_, _, _, opsDS_cmp hd hs.bits addr, by simp [cmpOps], by rw [cmpOps_split, e5]; rfl, ha5, hp5.mem, ?_, ?_, ?_, fun _ => rfl, ?_⟩
    all_goals (intro h; simp at h)
  · obtain ⟨σ5, e5, ha5, hp5, ht5⟩ := core_logic (Or.inl rfl) hw σ st ha hl hs
      [.assign (X86Lift.scalar (rName d.idx) 64) (setE d (.scalar (temp addr 0 d.bits)))]
    obtain ⟨e6, ha6⟩ := wb_reg ha5 hd hdi addr ht5
    have hE : logicOps "and" addr d se = logicPre "and" addr d.bits (getE d) se ++ _ := logicOps_split _ _ _ _
    refine ⟨_, _, _, opsDS_logic (Or.inl rfl) hd hs.bits addr, by simp [logicOps], by rw [hE, e5, e6], ha6, hp5.mem, ?_, ?_, ?_, ?_, fun _ => rfl⟩
    all_goals (intro h; simp at h)
  · obtain ⟨σ5, e5, ha5, hp5, ht5⟩ := core_logic (Or.inr (Or.inl rfl)) hw σ st ha hl hs
      [.assign (X86Lift.scalar (rName d.idx) 64) (setE d (.scalar (temp addr 0 d.bits)))]
    obtain ⟨e6, ha6⟩ := wb_reg ha5 hd hdi addr ht5
    have hE : logicOps "or" addr d se = logicPre "or" addr d.bits (getE d) se ++ _ := logicOps_split _ _ _ _
    refine ⟨_, _, _, opsDS_logic (Or.inr (Or.inl rfl)) hd hs.bits addr, by simp [logicOps], by rw [hE, e5, e6], ha6, hp5.mem, ?_, ?_, ?_, ?_, fun _ => rfl⟩
    all_goals (intro h; simp at h)
  · obtain ⟨σ5, e5, ha5, hp5, ht5⟩ := core_logic (Or.inr (Or.inr rfl)) hw σ st ha hl hs
      [.assign (X86Lift.scalar (rName d.idx) 64) (setE d (.scalar (temp addr 0 d.bits)))]
    obtain ⟨e6, ha6⟩ := wb_reg ha5 hd hdi addr ht5
    have hE : logicOps "xor" addr d se = logicPre "xor" addr d.bits (getE d) se ++ _ := logicOps_split _ _ _ _
    refine ⟨_, _, _, opsDS_logic (Or.inr (Or.inr rfl)) hd hs.bits addr, by simp [logicOps], by rw [hE, e5, e6], ha6, hp5.mem, ?_, ?_, ?_, ?_, fun _ => rfl⟩
    all_goals (intro h; simp at h)


theorem addWith_fst {w : Nat} (st : St) (a b : BitVec w) : (addWith st a b false).1 = a + b := by simp [addWith]
theorem subWith_fst {w : Nat} (st : St) (a b : BitVec w) : (subWith st a b false).1 = a - b := by simp [subWith]

/-- **`op r, [mem]`** -/
theorem lift_rm {m : String} (hm : m ∈ aluMn) {d : GReg} (hd : Shape d) (hdi : d.idx < 16) (mo : MemOp) (hmo : MemOk mo)
    (hk : 8 * mo.bytes = d.bits) (addr len : Nat) (haddr : addr + len < 2 ^ 64) (σ : State) (st : St) (ha : Abs σ st)
    (bs : List UInt8) (hmap : st.mem.readBytes (eaOf st addr len mo) mo.bytes = some bs)
    (hwrap : eaOf st addr len mo + mo.bytes ≤ 2 ^ 64) :
    ∃ ops, opsRM .amd64 m addr len d mo = .ok ops ∧
      Agrees (straight addr len ops) σ (insG m addr len (.reg d) (memOpnd mo)) st := by
  obtain ⟨di, db, doff⟩ := d
  simp only at hk hdi
  subst hk
  have e0 := run_load ha addr len mo hmo bs hmap hwrap
  have ha1 := abs_set_ltemp ha addr (8 * mo.bytes) (ofBV (BitVec.ofNat (8 * mo.bytes) (natOfLE bs)))
  have hs : Opd _ st addr (8 * mo.bytes) (.scalar (ltemp addr (8 * mo.bytes))) (BitVec.ofNat (8 * mo.bytes) (natOfLE bs)) :=
    opd_scalar _ st addr (ltemp addr (8 * mo.bytes)) rfl _ (quiet_ltemp addr _ _) (get_set_self σ _ _)
  obtain ⟨ops, σ', st', h1, hlen, h2, h3, h4, hmov, hadd, hsub, hcmp, hlog⟩ := run_reg_dst hm hd hdi addr _ st ha1 hs
  have hro := readOp_mem m addr len (.reg ⟨di, 8 * mo.bytes, doff⟩) (memOpnd mo) st mo hmo bs hmap
  have hrb : srcVal (insG m addr len (.reg ⟨di, 8 * mo.bytes, doff⟩) (memOpnd mo)) st (8 * mo.bytes) (memOpnd mo) = _ := hro
  have hst := step_alu_G m addr len (.reg ⟨di, 8 * mo.bytes, doff⟩) (memOpnd mo) st
  have hgen := fun f => alu2_gen m addr len (.reg ⟨di, 8 * mo.bytes, doff⟩) (memOpnd mo) st haddr (a := getReg st ⟨di, 8 * mo.bytes, doff⟩ (8 * mo.bytes)) rfl hrb f
  refine ⟨.load (ltemp addr (8 * mo.bytes)) (memAddrE addr len mo.base mo.index mo.scale mo.disp) :: ops, ?_, σ', st', ?_, ?_, h3, ?_⟩
  · simp [opsRM, memAddr_eq hmo.base hmo.index, h1, bind, Res.bind, pure]
  · rw [runBTR_straight _ _ _ _ (by simp; omega), execOps_ok _ e0, h2]; rfl
  · simp only [aluMn, List.mem_cons, List.not_mem_nil, or_false] at hm
    rcases hm with rfl | rfl | rfl | rfl | rfl | rfl | rfl
    · rw [hmov rfl]; exact step_mov_G addr len _ _ st _ haddr hro rfl
    · rw [hadd rfl, hst.1 rfl]; exact (hgen _).2 _ rfl
    · rw [hsub rfl, hst.2.1 rfl]; exact (hgen _).2 _ rfl
    · rw [hcmp rfl, hst.2.2.1 rfl]; exact (hgen _).1
    · rw [hlog (Or.inl rfl), hst.2.2.2.1 rfl]; exact (hgen _).2 _ rfl
    · rw [hlog (Or.inr (Or.inl rfl)), hst.2.2.2.2.1 rfl]; exact (hgen _).2 _ rfl
    · rw [hlog (Or.inr (Or.inr rfl)), hst.2.2.2.2.2 rfl]; exact (hgen _).2 _ rfl
  · rw [h4]; rfl


/-! ### `op [mem], src` -/

theorem abs_store {σ : State} {st : St} (ha : Abs σ st) (m' : ByteMem) :
    Abs { σ with mem := m' } { st with mem := m' } where
  gpr := ha.gpr
  cf := ha.cf
  zf := ha.zf
  sf := ha.sf
  of := ha.of
  mem := rfl
  endian := ha.endian

theorem aregV_congr {st st' : St} (hg : st'.gpr = st.gpr) (addr len : Nat) (r : AReg) :
    aregV st' addr len r = aregV st addr len r := by
  cases r <;> simp [aregV, hg]

theorem memAddrV_congr {st st' : St} (hg : st'.gpr = st.gpr) (addr len : Nat) (base index : Option AReg) (scale disp : Nat) :
    memAddrV st' addr len base index scale disp = memAddrV st addr len base index scale disp := by
  have : aregV st' addr len = aregV st addr len := funext (aregV_congr hg addr len)
  simp [memAddrV, opV, this]

/-- the store of `operand_store`, and what the specification's `writeOp` does, for a mapped non-wrapping access -/
theorem run_store {σ : State} {st st' : St} (ha : Abs σ st') (hg : st'.gpr = st.gpr) (hm : st'.mem = st.mem)
    (m : String) (addr len : Nat) (sop : Opnd) (mo : MemOp) (hmo : MemOk mo) (bs : List UInt8)
    (hmap : st.mem.readBytes (eaOf st addr len mo) mo.bytes = some bs) (hwrap : eaOf st addr len mo + mo.bytes ≤ 2 ^ 64)
    {ve : Expr} {v : BitVec (8 * mo.bytes)} (hv : Ev σ ve (8 * mo.bytes) v) :
    ∃ σ'' st'', execOps [.store (memAddrE addr len mo.base mo.index mo.scale mo.disp) ve] σ = .done σ'' ∧ Abs σ'' st'' ∧
      writeOp (insG m addr len (memOpnd mo) sop) st' (8 * mo.bytes) v (memOpnd mo) = some st'' := by
  have haE := (ev_memAddrE ha hg hmo.base hmo.index addr len mo.scale mo.disp hmo.disp).1
  have e := exec_store mo.bytes (width_pos hmo.width) rfl haE hv hwrap
  have he := effAddr_eq (insG m addr len (memOpnd mo) sop) rfl rfl st' hmo.base hmo.index mo.scale mo.disp
  simp only [insG, memOpnd] at he
  rw [memAddrV_congr hg] at he
  have h8 : 8 * mo.bytes / 8 = mo.bytes := by omega
  refine ⟨{ σ with mem := σ.mem.write (memAddrV st addr len mo.base mo.index mo.scale mo.disp).toNat (bytesOf σ.endian (ofBV v)) },
    { st' with mem := st'.mem.write (eaOf st addr len mo) (bytesOfLE v.toNat mo.bytes) }, ?_, ?_, ?_⟩
  · simp only [execOps, e]
  · have hb : bytesOf σ.endian (ofBV v) = bytesOfLE v.toNat mo.bytes := by rw [ha.endian, bytesOf_little, h8]
    rw [hb, ha.mem]
    unfold eaOf
    exact abs_store ha _
  · simp only [writeOp, memOpnd, insG, he, writeMem, h8, hm]
    unfold eaOf at hmap ⊢
    rw [hmap]

theorem opsCore_add {w : Nat} (hw : OpWidth w) {le se : Expr} (hl : le.bits = w) (hs : se.bits = w) (addr : Nat)
    (wb : Expr → Res Op) (wop : Op) (hwb : wb (.scalar (temp addr 0 w)) = .ok wop) :
    opsCore "add" addr le se wb = .ok (arithPre .add false addr w le se ++ [wop]) := by
  have h2 : 2 ≤ w := by rcases hw with h | h | h | h <;> omega
  subst hl
  simp only [opsCore, bind, Res.bind, pure, Expr.mkBin, hs, ne_eq, not_true_eq_false, ↓reduceIte]
  rw [zfExpr_eq (tempE_bits addr 0 le.bits), sfExpr_eq (tempE_bits addr 0 le.bits) h2,
    ofExpr_eq false (tempE_bits addr 0 le.bits) rfl hs h2, cfAddExpr_eq (by rfl), hwb]
  simp [arithPre]

theorem opsCore_sub {w : Nat} (hw : OpWidth w) {le se : Expr} (hl : le.bits = w) (hs : se.bits = w) (addr : Nat)
    (wb : Expr → Res Op) (wop : Op) (hwb : wb (.scalar (temp addr 0 w)) = .ok wop) :
    opsCore "sub" addr le se wb = .ok (arithPre .sub true addr w le se ++ [wop]) := by
  have h2 : 2 ≤ w := by rcases hw with h | h | h | h <;> omega
  subst hl
  simp only [opsCore, bind, Res.bind, pure, Expr.mkBin, hs, ne_eq, not_true_eq_false, ↓reduceIte]
  rw [zfExpr_eq (tempE_bits addr 0 le.bits), sfExpr_eq (tempE_bits addr 0 le.bits) h2,
    ofExpr_eq true (tempE_bits addr 0 le.bits) rfl hs h2, cfSubExpr_eq (by rfl), hwb]
  simp [arithPre]

theorem opsCore_cmp {w : Nat} (hw : OpWidth w) {le se : Expr} (hl : le.bits = w) (hs : se.bits = w) (addr : Nat)
    (wb : Expr → Res Op) : opsCore "cmp" addr le se wb = .ok (cmpPre w le se) := by
  have h2 : 2 ≤ w := by rcases hw with h | h | h | h <;> omega
  subst hl
  have he : (Expr.bin .sub le se).bits = le.bits := by simp [Expr.bits, BinOp.isCmp]
  simp only [opsCore, bind, Res.bind, pure, Expr.mkBin, hs, ne_eq, not_true_eq_false, ↓reduceIte]
  rw [zfExpr_eq he, sfExpr_eq he h2, ofExpr_eq true he rfl hs h2, cfSubExpr_eq (by rw [he])]
  simp [cmpPre]

theorem opsCore_logic {m : String} (hm : m = "and" ∨ m = "or" ∨ m = "xor") {w : Nat} (hw : OpWidth w) {le se : Expr}
    (hl : le.bits = w) (hs : se.bits = w) (addr : Nat) (wb : Expr → Res Op) (wop : Op)
    (hwb : wb (.scalar (temp addr 0 w)) = .ok wop) :
    opsCore m addr le se wb = .ok (logicPre m addr w le se ++ [wop]) := by
  have h2 : 2 ≤ w := by rcases hw with h | h | h | h <;> omega
  subst hl
  rcases hm with rfl | rfl | rfl
  · simp only [opsCore, bind, Res.bind, pure]
    rw [zfExpr_eq (tempE_bits addr 0 le.bits), sfExpr_eq (tempE_bits addr 0 le.bits) h2, hwb]
    simp [Expr.mkBin, hs, logicPre, logicE', logicOp, bind, Res.bind, pure]
  · simp only [opsCore, bind, Res.bind, pure]
    rw [zfExpr_eq (tempE_bits addr 0 le.bits), sfExpr_eq (tempE_bits addr 0 le.bits) h2, hwb]
    simp [Expr.mkBin, hs, logicPre, logicE', logicOp, bind, Res.bind, pure]
  · simp only [opsCore, bind, Res.bind, pure]
    rw [zfExpr_eq (tempE_bits addr 0 le.bits), sfExpr_eq (tempE_bits addr 0 le.bits) h2, hwb]
    by_cases he : le = se
    · simp [Expr.mkBin, hs, logicPre, logicE', logicOp, bind, Res.bind, pure, he]
    · simp [Expr.mkBin, hs, logicPre, logicE', logicOp, bind, Res.bind, pure, he]


/-- a source operand for a memory destination: a register or an immediate of the operand's width -/
structure SrcM (st : St) (addr len : Nat) (mo : MemOp) (sop : Opnd) (se : Expr) (b : BitVec (8 * mo.bytes)) : Prop where
  opd : ∀ σ0, Opd σ0 st addr (8 * mo.bytes) se b
  val : ∀ m, srcVal (insG m addr len (memOpnd mo) sop) st (8 * mo.bytes) sop = some b
  read : ∀ m, readOp (insG m addr len (memOpnd mo) sop) st (8 * mo.bytes) sop = some b

theorem gpr_addWith {w : Nat} (st : St) (a b : BitVec w) (c : Bool) :
    (addWith st a b c).2.gpr = st.gpr ∧ (addWith st a b c).2.mem = st.mem := ⟨rfl, rfl⟩
theorem gpr_subWith {w : Nat} (st : St) (a b : BitVec w) (c : Bool) :
    (subWith st a b c).2.gpr = st.gpr ∧ (subWith st a b c).2.mem = st.mem := ⟨rfl, rfl⟩
theorem gpr_logic {w : Nat} (st : St) (r : BitVec w) : (logic st r).gpr = st.gpr ∧ (logic st r).mem = st.mem := ⟨rfl, rfl⟩

/-- **`op [mem], src`** -/
theorem lift_ms {m : String} (hm : m ∈ aluMn) (mo : MemOp) (hmo : MemOk mo) (addr len : Nat) (haddr : addr + len < 2 ^ 64)
    (σ : State) (st : St) (ha : Abs σ st) (bs : List UInt8)
    (hmap : st.mem.readBytes (eaOf st addr len mo) mo.bytes = some bs) (hwrap : eaOf st addr len mo + mo.bytes ≤ 2 ^ 64)
    {sop : Opnd} {se : Expr} {b : BitVec (8 * mo.bytes)} (hsrc : SrcM st addr len mo sop se b) :
    ∃ ops, opsMS .amd64 m addr len mo se = .ok ops ∧
      AgreesM (straight addr len ops) σ (insG m addr len (memOpnd mo) sop) st := by
  have hw := hmo.width
  have hmE := memAddr_eq hmo.base hmo.index addr len mo.scale mo.disp
  simp only [aluMn, List.mem_cons, List.not_mem_nil, or_false] at hm
  by_cases hmov : m = "mov"
  · subst hmov
    obtain ⟨σ'', st'', e1, ha1, hw1⟩ := run_store ha rfl rfl "mov" addr len sop mo hmo bs hmap hwrap
      ((hsrc.opd σ).ev ha rfl (Pre.refl σ addr _))
    refine ⟨[.store (memAddrE addr len mo.base mo.index mo.scale mo.disp) se], by simp [opsMS, hmE, bind, Res.bind, pure], σ'', st'', ?_, ?_, ha1⟩
    · rw [runBTR_straight _ _ _ _ (by simp), e1]; rfl
    · exact step_mov_G addr len _ _ st _ haddr (hsrc.read "mov") hw1
  · -- load, prefix, store
    have e0 := run_load ha addr len mo hmo bs hmap hwrap
    have ha1 := abs_set_ltemp ha addr (8 * mo.bytes) (ofBV (BitVec.ofNat (8 * mo.bytes) (natOfLE bs)))
    have hl : Opd _ st addr (8 * mo.bytes) (.scalar (ltemp addr (8 * mo.bytes))) (BitVec.ofNat (8 * mo.bytes) (natOfLE bs)) :=
      opd_scalar _ st addr (ltemp addr (8 * mo.bytes)) rfl _ (quiet_ltemp addr _ _) (get_set_self σ _ _)
    have hs := hsrc.opd (σ.set (ltemp addr (8 * mo.bytes)).name (ofBV (BitVec.ofNat (8 * mo.bytes) (natOfLE bs))))
    have hra := readOp_mem m addr len (memOpnd mo) sop st mo hmo bs hmap
    have hst := step_alu_G m addr len (memOpnd mo) sop st
    have hgen := fun f => alu2_gen m addr len (memOpnd mo) sop st haddr hra (hsrc.val m) f
    rcases hm with rfl | rfl | rfl | rfl | rfl | rfl | rfl
    · exact absurd rfl hmov
    · obtain ⟨σ5, e5, ha5, hp5, ht5⟩ := core_arith false hw _ st ha1 hl hs
        [.store (memAddrE addr len mo.base mo.index mo.scale mo.disp) (.scalar (temp addr 0 (8 * mo.bytes)))]
      simp only [Bool.false_eq_true, ↓reduceIte] at e5 ha5 ht5
      obtain ⟨σ'', st'', e6, ha6, hw6⟩ := run_store ha5 (gpr_addWith st _ _ false).1 (gpr_addWith st _ _ false).2 "add" addr len sop mo hmo bs hmap hwrap
        ((Ev.scalar (s := temp addr 0 (8 * mo.bytes)) ht5).cast (addWith_fst st _ b).symm)
      have hoc := opsCore_add hw (le := .scalar (ltemp addr (8 * mo.bytes))) (se := se) rfl hs.bits addr (fun x => Res.ok (.store (memAddrE addr len mo.base mo.index mo.scale mo.disp) x)) (.store (memAddrE addr len mo.base mo.index mo.scale mo.disp) (.scalar (temp addr 0 (8 * mo.bytes)))) rfl
      refine ⟨.load (ltemp addr (8 * mo.bytes)) (memAddrE addr len mo.base mo.index mo.scale mo.disp) :: (arithPre .add false addr (8 * mo.bytes) (.scalar (ltemp addr (8 * mo.bytes))) se ++ [(.store (memAddrE addr len mo.base mo.index mo.scale mo.disp) (.scalar (temp addr 0 (8 * mo.bytes))))]),
        by simp [opsMS, hmE, hoc, bind, Res.bind, pure], σ'', st'', ?_, ?_, ha6⟩
      · rw [runBTR_straight _ _ _ _ (by simp [arithPre]), execOps_ok _ e0, e5, e6]; rfl
      · rw [hst.1 rfl]; exact (hgen _).2 _ hw6
    · obtain ⟨σ5, e5, ha5, hp5, ht5⟩ := core_arith true hw _ st ha1 hl hs
        [.store (memAddrE addr len mo.base mo.index mo.scale mo.disp) (.scalar (temp addr 0 (8 * mo.bytes)))]
      simp only [↓reduceIte] at e5 ha5 ht5
      obtain ⟨σ'', st'', e6, ha6, hw6⟩ := run_store ha5 (gpr_subWith st _ _ false).1 (gpr_subWith st _ _ false).2 "sub" addr len sop mo hmo bs hmap hwrap
        ((Ev.scalar (s := temp addr 0 (8 * mo.bytes)) ht5).cast (subWith_fst st _ b).symm)
      have hoc := opsCore_sub hw (le := .scalar (ltemp addr (8 * mo.bytes))) (se := se) rfl hs.bits addr (fun x => Res.ok (.store (memAddrE addr len mo.base mo.index mo.scale mo.disp) x)) (.store (memAddrE addr len mo.base mo.index mo.scale mo.disp) (.scalar (temp addr 0 (8 * mo.bytes)))) rfl
      refine ⟨.load (ltemp addr (8 * mo.bytes)) (memAddrE addr len mo.base mo.index mo.scale mo.disp) :: (arithPre .sub true addr (8 * mo.bytes) (.scalar (ltemp addr (8 * mo.bytes))) se ++ [(.store (memAddrE addr len mo.base mo.index mo.scale mo.disp) (.scalar (temp addr 0 (8 * mo.bytes))))]),
        by simp [opsMS, hmE, hoc, bind, Res.bind, pure], σ'', st'', ?_, ?_, ha6⟩
      · rw [runBTR_straight _ _ _ _ (by simp [arithPre]), execOps_ok _ e0, e5, e6]; rfl
      · rw [hst.2.1 rfl]; exact (hgen _).2 _ hw6
    · obtain ⟨σ5, e5, ha5, hp5⟩ := core_cmp hw _ st ha1 hl hs []
      have hoc := opsCore_cmp hw (le := .scalar (ltemp addr (8 * mo.bytes))) (se := se) rfl hs.bits addr (fun x => Res.ok (.store (memAddrE addr len mo.base mo.index mo.scale mo.disp) x))
      refine ⟨.load (ltemp addr (8 * mo.bytes)) (memAddrE addr len mo.base mo.index mo.scale mo.disp) :: cmpPre (8 * mo.bytes) (.scalar (ltemp addr (8 * mo.bytes))) se,
        by simp [opsMS, hmE, hoc, bind, Res.bind, pure], σ5, _, ?_, ?_, ha5⟩
      · rw [runBTR_straight _ _ _ _ (by simp [cmpPre]), execOps_ok _ e0]
        have : cmpPre (8 * mo.bytes) (Expr.scalar (ltemp addr (8 * mo.bytes))) se = cmpPre (8 * mo.bytes) (Expr.scalar (ltemp addr (8 * mo.bytes))) se ++ [] := by simp
        rw [this, e5]; rfl
      · rw [hst.2.2.1 rfl]; exact (hgen _).1
    · obtain ⟨σ5, e5, ha5, hp5, ht5⟩ := core_logic (Or.inl rfl) hw _ st ha1 hl hs
        [.store (memAddrE addr len mo.base mo.index mo.scale mo.disp) (.scalar (temp addr 0 (8 * mo.bytes)))]
      obtain ⟨σ'', st'', e6, ha6, hw6⟩ := run_store ha5 (gpr_logic st _).1 (gpr_logic st _).2 "and" addr len sop mo hmo bs hmap hwrap
        (Ev.scalar (s := temp addr 0 (8 * mo.bytes)) ht5)
      have hoc := opsCore_logic (Or.inl rfl) hw (le := .scalar (ltemp addr (8 * mo.bytes))) (se := se) rfl hs.bits addr (fun x => Res.ok (.store (memAddrE addr len mo.base mo.index mo.scale mo.disp) x)) (.store (memAddrE addr len mo.base mo.index mo.scale mo.disp) (.scalar (temp addr 0 (8 * mo.bytes)))) rfl
      refine ⟨.load (ltemp addr (8 * mo.bytes)) (memAddrE addr len mo.base mo.index mo.scale mo.disp) :: (logicPre "and" addr (8 * mo.bytes) (.scalar (ltemp addr (8 * mo.bytes))) se ++ [(.store (memAddrE addr len mo.base mo.index mo.scale mo.disp) (.scalar (temp addr 0 (8 * mo.bytes))))]),
        by simp [opsMS, hmE, hoc, bind, Res.bind, pure], σ'', st'', ?_, ?_, ha6⟩
      · rw [runBTR_straight _ _ _ _ (by simp [logicPre]), execOps_ok _ e0, e5, e6]; rfl
      · rw [hst.2.2.2.1 rfl]; exact (hgen _).2 _ hw6
    · obtain ⟨σ5, e5, ha5, hp5, ht5⟩ := core_logic (Or.inr (Or.inl rfl)) hw _ st ha1 hl hs
        [.store (memAddrE addr len mo.base mo.index mo.scale mo.disp) (.scalar (temp addr 0 (8 * mo.bytes)))]
      obtain ⟨σ'', st'', e6, ha6, hw6⟩ := run_store ha5 (gpr_logic st _).1 (gpr_logic st _).2 "or" addr len sop mo hmo bs hmap hwrap
        (Ev.scalar (s := temp addr 0 (8 * mo.bytes)) ht5)
      have hoc := opsCore_logic (Or.inr (Or.inl rfl)) hw (le := .scalar (ltemp addr (8 * mo.bytes))) (se := se) rfl hs.bits addr (fun x => Res.ok (.store (memAddrE addr len mo.base mo.index mo.scale mo.disp) x)) (.store (memAddrE addr len mo.base mo.index mo.scale mo.disp) (.scalar (temp addr 0 (8 * mo.bytes)))) rfl
      refine ⟨.load (ltemp addr (8 * mo.bytes)) (memAddrE addr len mo.base mo.index mo.scale mo.disp) :: (logicPre "or" addr (8 * mo.bytes) (.scalar (ltemp addr (8 * mo.bytes))) se ++ [(.store (memAddrE addr len mo.base mo.index mo.scale mo.disp) (.scalar (temp addr 0 (8 * mo.bytes))))]),
        by simp [opsMS, hmE, hoc, bind, Res.bind, pure], σ'', st'', ?_, ?_, ha6⟩
      · rw [runBTR_straight _ _ _ _ (by simp [logicPre]), execOps_ok _ e0, e5, e6]; rfl
      · rw [hst.2.2.2.2.1 rfl]; exact (hgen _).2 _ hw6
    · obtain ⟨σ5, e5, ha5, hp5, ht5⟩ := core_logic (Or.inr (Or.inr rfl)) hw _ st ha1 hl hs
        [.store (memAddrE addr len mo.base mo.index mo.scale mo.disp) (.scalar (temp addr 0 (8 * mo.bytes)))]
      obtain ⟨σ'', st'', e6, ha6, hw6⟩ := run_store ha5 (gpr_logic st _).1 (gpr_logic st _).2 "xor" addr len sop mo hmo bs hmap hwrap
        (Ev.scalar (s := temp addr 0 (8 * mo.bytes)) ht5)
      have hoc := opsCore_logic (Or.inr (Or.inr rfl)) hw (le := .scalar (ltemp addr (8 * mo.bytes))) (se := se) rfl hs.bits addr (fun x => Res.ok (.store (memAddrE addr len mo.base mo.index mo.scale mo.disp) x)) (.store (memAddrE addr len mo.base mo.index mo.scale mo.disp) (.scalar (temp addr 0 (8 * mo.bytes)))) rfl
      refine ⟨.load (ltemp addr (8 * mo.bytes)) (memAddrE addr len mo.base mo.index mo.scale mo.disp) :: (logicPre "xor" addr (8 * mo.bytes) (.scalar (ltemp addr (8 * mo.bytes))) se ++ [(.store (memAddrE addr len mo.base mo.index mo.scale mo.disp) (.scalar (temp addr 0 (8 * mo.bytes))))]),
        by simp [opsMS, hmE, hoc, bind, Res.bind, pure], σ'', st'', ?_, ?_, ha6⟩
      · rw [runBTR_straight _ _ _ _ (by simp [logicPre]), execOps_ok _ e0, e5, e6]; rfl
      · rw [hst.2.2.2.2.2 rfl]; exact (hgen _).2 _ hw6


theorem srcM_reg (st : St) (addr len : Nat) (mo : MemOp) {s : GReg} (hs : Shape s) (hb : s.bits = 8 * mo.bytes) (hsi : s.idx < 16) :
    SrcM st addr len mo (.reg s) (getE s) (getReg st s (8 * mo.bytes)) where
  opd := fun σ0 => opd_reg σ0 st addr hs hsi hb
  val := fun _ => rfl
  read := fun _ => rfl

theorem srcM_imm (st : St) (addr len : Nat) (mo : MemOp) (hmo : MemOk mo) (v : Nat) :
    SrcM st addr len mo (.imm v mo.bytes) (Expr.ec v (8 * mo.bytes)) (BitVec.ofNat (8 * mo.bytes) v) where
  opd := fun σ0 => opd_imm σ0 st addr hmo.width v
  val := fun _ => by simp [srcVal, X86.sext]
  read := fun _ => rfl

/-- **`op [mem], r`** -/
theorem lift_mr {m : String} (hm : m ∈ aluMn) (mo : MemOp) (hmo : MemOk mo) {s : GReg} (hs : Shape s) (hb : 8 * mo.bytes = s.bits)
    (hsi : s.idx < 16) (addr len : Nat) (haddr : addr + len < 2 ^ 64) (σ : State) (st : St) (ha : Abs σ st) (bs : List UInt8)
    (hmap : st.mem.readBytes (eaOf st addr len mo) mo.bytes = some bs) (hwrap : eaOf st addr len mo + mo.bytes ≤ 2 ^ 64) :
    ∃ ops, opsMR .amd64 m addr len mo s = .ok ops ∧
      AgreesM (straight addr len ops) σ (insG m addr len (memOpnd mo) (.reg s)) st := by
  obtain ⟨ops, h1, h2⟩ := lift_ms hm mo hmo addr len haddr σ st ha bs hmap hwrap (srcM_reg st addr len mo hs hb.symm hsi)
  exact ⟨ops, by simp [opsMR, hb, regGet_eq hs, h1, bind, Res.bind, pure], h2⟩

/-- **`op [mem], imm`** (immediate of the operand's width) -/
theorem lift_mi {m : String} (hm : m ∈ aluMn) (mo : MemOp) (hmo : MemOk mo) (v : Nat)
    (addr len : Nat) (haddr : addr + len < 2 ^ 64) (σ : State) (st : St) (ha : Abs σ st) (bs : List UInt8)
    (hmap : st.mem.readBytes (eaOf st addr len mo) mo.bytes = some bs) (hwrap : eaOf st addr len mo + mo.bytes ≤ 2 ^ 64) :
    ∃ ops, opsMI .amd64 m addr len mo v mo.bytes = .ok ops ∧
      AgreesM (straight addr len ops) σ (insG m addr len (memOpnd mo) (.imm v mo.bytes)) st := by
  obtain ⟨ops, h1, h2⟩ := lift_ms hm mo hmo addr len haddr σ st ha bs hmap hwrap (srcM_imm st addr len mo hmo v)
  exact ⟨ops, by simp [opsMI, h1], h2⟩

/-! ### lea -/

theorem step_lea (addr len : Nat) (d : GReg) (mo : MemOp) (st : St) (h : addr + len < 2 ^ 64) :
    step (insG "lea" addr len (.reg d) (memOpnd mo)) st =
      .ok (setReg st d ((BitVec.ofNat d.bits (effAddr (insG "lea" addr len (.reg d) (memOpnd mo)) st none mo.base mo.index mo.scale mo.disp)).setWidth 64))
        (addr + len) [] := by
  have hc : splitCc "lea" = none := by decide
  have hn := nextIp_G "lea" addr len (.reg d) (memOpnd mo) h
  unfold step insG memOpnd
  simp only [hc]
  simp only [insG, memOpnd] at hn
  simp [writeOp, orTrap, done, Opnd.bits, hn]

/-- **`lea r, [mem]`** for a 64-, 32- or 16-bit destination: no memory access, no flags -/
theorem lift_lea {d : GReg} (hd : Shape d) (hd16 : 16 ≤ d.bits) (hdi : d.idx < 16) (mo : MemOp) (hmo : MemOk mo)
    (addr len : Nat) (haddr : addr + len < 2 ^ 64) (σ : State) (st : St) (ha : Abs σ st) :
    ∃ ops, opsLea .amd64 addr len d mo = .ok ops ∧
      Agrees (straight addr len ops) σ (insG "lea" addr len (.reg d) (memOpnd mo)) st := by
  obtain ⟨haE, hbits⟩ := ev_memAddrE ha rfl hmo.base hmo.index addr len mo.scale mo.disp hmo.disp
  have hmE := memAddr_eq hmo.base hmo.index addr len mo.scale mo.disp
  have hea := effAddr_eq (insG "lea" addr len (.reg d) (memOpnd mo)) rfl rfl st hmo.base hmo.index mo.scale mo.disp
  simp only [insG] at hea
  have hsp := step_lea addr len d mo st haddr
  simp only [insG] at hsp
  rw [hea] at hsp
  -- the value written, as the IL computes it
  have key : ∀ (src : Expr), Ev σ src d.bits ((memAddrV st addr len mo.base mo.index mo.scale mo.disp).setWidth d.bits) →
      src.bits = d.bits → opsLea .amd64 addr len d mo = .ok [.assign (X86Lift.scalar (rName d.idx) 64) (setE d src)] →
      ∃ ops, opsLea .amd64 addr len d mo = .ok ops ∧
        Agrees (straight addr len ops) σ (insG "lea" addr len (.reg d) (memOpnd mo)) st := by
    intro src hsrc _ hops
    have e1 := exec_assign (X86Lift.scalar (rName d.idx) 64) (ev_setE ha hd hdi hsrc)
    refine ⟨_, hops, _, _, ?_, ?_, abs_setReg ha hdi (((memAddrV st addr len mo.base mo.index mo.scale mo.disp).setWidth d.bits).setWidth 64), ?_⟩
    · rw [runBTR_straight _ _ _ _ (by simp)]
      simp only [execOps, e1, insG]
      rfl
    · simp only [insG]; rw [hsp]; simp [BitVec.ofNat_toNat]
    · simp
  cases hd with
  | r64 i =>
    refine key _ (by simpa using haE) hbits ?_
    simp [opsLea, hmE, hbits, regSet, regSetExpr_eq (Shape.r64 i) hbits, bind, Res.bind, pure, Mode.bits]
  | r32 i =>
    have ht := Ev.trun 32 (by decide) (by decide) haE
    refine key (.ext .trun 32 (memAddrE addr len mo.base mo.index mo.scale mo.disp)) (by simpa [BitVec.truncate] using ht) rfl ?_
    have hb : (Expr.ext .trun 32 (memAddrE addr len mo.base mo.index mo.scale mo.disp)).bits = 32 := rfl
    simp [opsLea, hmE, hbits, Expr.mkExt, regSet, regSetExpr_eq (Shape.r32 i) hb, bind, Res.bind, pure, Mode.bits]
  | r16 i =>
    have ht := Ev.trun 16 (by decide) (by decide) haE
    refine key (.ext .trun 16 (memAddrE addr len mo.base mo.index mo.scale mo.disp)) (by simpa [BitVec.truncate] using ht) rfl ?_
    have hb : (Expr.ext .trun 16 (memAddrE addr len mo.base mo.index mo.scale mo.disp)).bits = 16 := rfl
    simp [opsLea, hmE, hbits, Expr.mkExt, regSet, regSetExpr_eq (Shape.r16 i) hb, bind, Res.bind, pure, Mode.bits]
  | r8 i => simp at hd16
  | h8 i => simp at hd16

end C01
end Falcon
