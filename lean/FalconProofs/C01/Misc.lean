/-
  FalconProofs.C01.Misc — instruction-level agreement for `test r,r` / `test r,imm`, `xchg r,r` and
  `movzx` / `movsx` / `movsxd r, r` in 64-bit mode.
-/
import FalconProofs.C01.Cmov

namespace Falcon
namespace C01
open Const X86 X86Lift
open C07 (get_set get_set_self get_set_ne)

/-! ### test -/

def testOps (w : Nat) (le se : Expr) : List Op :=
  [.assign (X86Lift.scalar "ZF" 1) (zfE (.bin .and le se) w),
   .assign (X86Lift.scalar "SF" 1) (sfE (.bin .and le se) w),
   .assign (X86Lift.scalar "CF" 1) (Expr.ec 0 1),
   .assign (X86Lift.scalar "OF" 1) (Expr.ec 0 1)]

theorem opsTest_eq {w : Nat} (hw : OpWidth w) {le se : Expr} (hl : le.bits = w) (hs : se.bits = w) :
    opsTest le se = .ok (testOps w le se) := by
  have h2 : 2 ≤ w := by rcases hw with h | h | h | h <;> omega
  subst hl
  have he : (Expr.bin .and le se).bits = le.bits := by simp [Expr.bits, BinOp.isCmp]
  simp only [opsTest, bind, Res.bind, pure, Expr.mkBin, hs, ne_eq, not_true_eq_false, ↓reduceIte]
  rw [zfExpr_eq he, sfExpr_eq he h2]
  simp [testOps]

theorem run_test {w : Nat} (hw : OpWidth w) {addr : Nat} {le se : Expr} {a b : BitVec w}
    (σ : State) (st : St) (ha : Abs σ st) (hl : Opd σ st addr w le a) (hs : Opd σ st addr w se b) :
    ∃ σ', execOps (testOps w le se) σ = .done σ' ∧ Abs σ' (logic st (a &&& b)) ∧ σ'.mem = σ.mem := by
  have hp0 := Pre.refl σ addr w
  have ev : ∀ {σ' st'}, Abs σ' st' → st'.gpr = st.gpr → Pre σ σ' addr w → Ev σ' (.bin .and le se) w (a &&& b) :=
    fun h hg hp => Ev.and (hl.ev h hg hp) (hs.ev h hg hp)
  obtain ⟨σ2, e2, ha2, hp2, _⟩ := step_zf ha hp0 (ev_zfE (ev ha rfl hp0))
  obtain ⟨σ3, e3, ha3, hp3, _⟩ := step_sf ha2 hp2 (ev_sfE hw (ev (st' := _) ha2 rfl hp2))
  obtain ⟨σ4, e4, ha4, hp4, _⟩ := step_cf ha3 hp3 ev_zero1
  obtain ⟨σ5, e5, ha5, hp5, _⟩ := step_of ha4 hp4 ev_zero1
  refine ⟨σ5, ?_, Eq.mp (congrArg (Abs _) ?_) ha5, hp5.mem⟩
  · simp only [testOps]
    rw [execOps_ok _ e2, execOps_ok _ e3, execOps_ok _ e4, execOps_ok _ e5]; rfl
  · simp [logic, setSZ]

theorem step_test (addr len asz : Nat) (d : GReg) (so : Opnd) (st : St) :
    step (ins2 "test" addr len asz d so) st =
      alu2 (ins2 "test" addr len asz d so) st (fun _ σ a b => (a &&& b, logic σ (a &&& b))) false := by
  have h : splitCc "test" = none := by decide
  unfold step ins2; simp only [h]; simp

/-- **`test r, r`** -/
theorem lift_test_rr {d s : GReg} (hd : Shape d) (hs : Shape s) (hb : s.bits = d.bits) (hdi : d.idx < 16) (hsi : s.idx < 16)
    (addr len asz : Nat) (haddr : addr + len < 2 ^ 64) (σ : State) (st : St) (ha : Abs σ st) :
    ∃ ops, opsTestRR .amd64 d s = .ok ops ∧ Agrees (straight addr len ops) σ (insRR "test" addr len asz d s) st := by
  have hw := shape_bits hd
  obtain ⟨σ', e, ha', hm⟩ := run_test hw σ st ha (opd_reg σ st addr hd hdi rfl) (opd_reg σ st addr hs hsi hb)
  refine ⟨testOps d.bits (getE d) (getE s), ?_, σ', _, ?_, ?_, ha', hm⟩
  · simp [opsTestRR, regGet_eq hd, regGet_eq hs, opsTest_eq hw (getE_bits hd) (by rw [getE_bits hs, hb]), bind, Res.bind]
  · rw [runBTR_straight _ _ _ _ (by simp [testOps]), e]; rfl
  · rw [step_test, (alu2_eval "test" addr len asz d st (src_reg st hs hb hsi) _ haddr).2]; rfl

/-- **`test r, imm`** (immediate of the register's width) -/
theorem lift_test_ri {d : GReg} (hd : Shape d) (hdi : d.idx < 16) (v bytes : Nat) (hb : 8 * bytes = d.bits)
    (addr len asz : Nat) (haddr : addr + len < 2 ^ 64) (σ : State) (st : St) (ha : Abs σ st) :
    ∃ ops, opsTestRI .amd64 d v bytes = .ok ops ∧ Agrees (straight addr len ops) σ (insRI "test" addr len asz d v bytes) st := by
  have hw := shape_bits hd
  obtain ⟨σ', e, ha', hm⟩ := run_test hw σ st ha (opd_reg σ st addr hd hdi rfl) (opd_imm σ st addr hw v)
  refine ⟨testOps d.bits (getE d) (Expr.ec v d.bits), ?_, σ', _, ?_, ?_, ha', hm⟩
  · simp [opsTestRI, hb, regGet_eq hd, opsTest_eq hw (getE_bits hd) (ec_bits v d.bits), bind, Res.bind]
  · rw [runBTR_straight _ _ _ _ (by simp [testOps]), e]; rfl
  · rw [step_test, (alu2_eval "test" addr len asz d st (src_imm st hd v bytes hb) _ haddr).2]; rfl

/-! ### xchg -/

theorem step_xchg (addr len asz : Nat) (a b : GReg) (st : St) (h : addr + len < 2 ^ 64) :
    step (insRR "xchg" addr len asz a b) st =
      .ok (setReg (setReg st a ((getReg st b a.bits).setWidth 64)) b ((getReg st a a.bits).setWidth 64)) (addr + len) [] := by
  have hc : splitCc "xchg" = none := by decide
  have hn := nextIp_2 "xchg" addr len asz a (.reg b) h
  unfold step insRR ins2
  simp only [hc]
  simp only [ins2] at hn
  simp [readOp, writeOp, orTrap, done, Opnd.bits, hn]

/-- **`xchg a, b`** on registers of equal width (any shapes, aliasing included: `xchg al, ah`, `xchg eax, eax`) -/
theorem lift_xchg {a b : GReg} (hA : Shape a) (hB : Shape b) (hb : b.bits = a.bits) (hai : a.idx < 16) (hbi : b.idx < 16)
    (addr len asz : Nat) (haddr : addr + len < 2 ^ 64) (σ : State) (st : St) (ha : Abs σ st) :
    ∃ ops, opsXchg .amd64 addr a b = .ok ops ∧ Agrees (straight addr len ops) σ (insRR "xchg" addr len asz a b) st := by
  obtain ⟨bi, bb, boff⟩ := b
  simp only at hb hbi
  subst hb
  have hgb : (getE ⟨bi, a.bits, boff⟩).bits = a.bits := getE_bits hB
  -- tmp := a
  have e1 := exec_assign (σ := σ) (temp addr 0 a.bits) (ev_getE ha hA hai)
  have ha1 := abs_set_temp ha addr 0 a.bits (ofBV (getReg st a a.bits))
  have ht1 := get_set_self σ (temp addr 0 a.bits).name (ofBV (getReg st a a.bits))
  -- a := b
  have e2 := exec_assign (X86Lift.scalar (rName a.idx) 64) (ev_setE ha1 hA hai (ev_getE' (st := st) ha1 rfl hB hbi rfl))
  have ha2 := abs_setReg ha1 hai ((getReg st ⟨bi, a.bits, boff⟩ a.bits).setWidth 64)
  have ht2 : (State.set (σ.set (temp addr 0 a.bits).name (ofBV (getReg st a a.bits))) (rName a.idx)
      (ofBV (mergeReg (st.gpr a.idx) a ((getReg st ⟨bi, a.bits, boff⟩ a.bits).setWidth 64)))).get (temp addr 0 a.bits).name =
      some (ofBV (getReg st a a.bits)) := by
    rw [get_set_ne _ _ (temp_ne_rName hai addr 0 a.bits)]; exact ht1
  -- b := tmp
  have e3 := exec_assign (X86Lift.scalar (rName bi) 64)
    (ev_setE (r := ⟨bi, a.bits, boff⟩) ha2 hB hbi (Ev.scalar (s := temp addr 0 a.bits) ht2))
  have ha3 := abs_setReg (r := ⟨bi, a.bits, boff⟩) ha2 hbi ((getReg st a a.bits).setWidth 64)
  refine ⟨[.assign (temp addr 0 a.bits) (getE a), .assign (X86Lift.scalar (rName a.idx) 64) (setE a (getE ⟨bi, a.bits, boff⟩)),
      .assign (X86Lift.scalar (rName bi) 64) (setE ⟨bi, a.bits, boff⟩ (.scalar (temp addr 0 a.bits)))], ?_, _, _, ?_,
      step_xchg addr len asz a ⟨bi, a.bits, boff⟩ st haddr, ha3, ?_⟩
  · simp [opsXchg, regGet_eq hA, regGet_eq hB, regSet, regSetExpr_eq hA hgb,
      regSetExpr_eq hB (show (Expr.scalar (temp addr 0 a.bits)).bits = a.bits from rfl),
      bind, Res.bind, pure, Mode.bits, getE_bits hA]
  · rw [runBTR_straight _ _ _ _ (by simp)]
    simp only [execOps, e1]
    have e2' := e2
    simp only [X86Lift.scalar] at e2' e3 ⊢
    simp only [e2', e3]
    rfl
  · simp


/-! ### movzx / movsx / movsxd -/

theorem step_extend (addr len asz : Nat) (d s : GReg) (st : St) (h : addr + len < 2 ^ 64) :
    step (insRR "movzx" addr len asz d s) st =
      .ok (setReg st d (((getReg st s s.bits).setWidth d.bits).setWidth 64)) (addr + len) [] ∧
    step (insRR "movsx" addr len asz d s) st =
      .ok (setReg st d (((getReg st s s.bits).signExtend d.bits).setWidth 64)) (addr + len) [] ∧
    step (insRR "movsxd" addr len asz d s) st =
      .ok (setReg st d (((getReg st s s.bits).signExtend d.bits).setWidth 64)) (addr + len) [] := by
  refine ⟨?_, ?_, ?_⟩
  · have hc : splitCc "movzx" = none := by decide
    have hn := nextIp_2 "movzx" addr len asz d (.reg s) h
    unfold step insRR ins2; simp only [hc]; simp only [ins2] at hn
    simp [readOp, writeOp, orTrap, done, Opnd.bits, hn]
  · have hc : splitCc "movsx" = none := by decide
    have hn := nextIp_2 "movsx" addr len asz d (.reg s) h
    unfold step insRR ins2; simp only [hc]; simp only [ins2] at hn
    simp [readOp, writeOp, orTrap, done, Opnd.bits, hn]
  · have hc : splitCc "movsxd" = none := by decide
    have hn := nextIp_2 "movsxd" addr len asz d (.reg s) h
    unfold step insRR ins2; simp only [hc]; simp only [ins2] at hn
    simp [readOp, writeOp, orTrap, done, Opnd.bits, hn]

theorem shape_pos {r : GReg} (h : Shape r) : 1 ≤ r.bits := by cases h <;> simp

/-- **`movzx` / `movsx` / `movsxd  r, r`** from a narrower register (low- or high-byte, 16- or 32-bit source) -/
theorem lift_extend {m : String} (signed : Bool) (hm : if signed then (m = "movsx" ∨ m = "movsxd") else m = "movzx")
    {d s : GReg} (hd : Shape d) (hs : Shape s) (hlt : s.bits < d.bits) (hdi : d.idx < 16) (hsi : s.idx < 16)
    (addr len asz : Nat) (haddr : addr + len < 2 ^ 64) (σ : State) (st : St) (ha : Abs σ st) :
    ∃ ops, opsExtend .amd64 signed d s = .ok ops ∧ Agrees (straight addr len ops) σ (insRR m addr len asz d s) st := by
  have hsrc := ev_getE ha hs hsi
  have hsp := step_extend addr len asz d s st haddr
  cases signed with
  | false =>
    simp only [Bool.false_eq_true, ↓reduceIte] at hm; subst hm
    have hv := Ev.zext d.bits (shape_pos hs) hlt hsrc
    have e1 := exec_assign (X86Lift.scalar (rName d.idx) 64) (ev_setE ha hd hdi hv)
    have hb : (Expr.ext .zext d.bits (getE s)).bits = d.bits := rfl
    refine ⟨[.assign (X86Lift.scalar (rName d.idx) 64) (setE d (.ext .zext d.bits (getE s)))], ?_, _, _, ?_, hsp.1,
      abs_setReg ha hdi (((getReg st s s.bits).setWidth d.bits).setWidth 64), by simp⟩
    · have : ¬ (d.bits ≤ s.bits ∨ s.bits = 0) := by have := shape_pos hs; omega
      simp [opsExtend, regGet_eq hs, getE_bits hs, hlt, Expr.mkExt, this, regSet, regSetExpr_eq hd hb, bind, Res.bind, pure, Mode.bits]
    · rw [runBTR_straight _ _ _ _ (by simp)]
      simp only [execOps, e1, ins2]
      rfl
  | true =>
    simp only [↓reduceIte] at hm
    have hv := Ev.sext d.bits (shape_pos hs) hlt hsrc
    have e1 := exec_assign (X86Lift.scalar (rName d.idx) 64) (ev_setE ha hd hdi hv)
    have hb : (Expr.ext .sext d.bits (getE s)).bits = d.bits := rfl
    refine ⟨[.assign (X86Lift.scalar (rName d.idx) 64) (setE d (.ext .sext d.bits (getE s)))], ?_, _, _, ?_, ?_,
      abs_setReg ha hdi (((getReg st s s.bits).signExtend d.bits).setWidth 64), by simp⟩
    · have : ¬ (d.bits ≤ s.bits ∨ s.bits = 0) := by have := shape_pos hs; omega
      simp [opsExtend, regGet_eq hs, getE_bits hs, hlt, Expr.mkExt, this, regSet, regSetExpr_eq hd hb, bind, Res.bind, pure, Mode.bits]
    · rw [runBTR_straight _ _ _ _ (by simp)]
      simp only [execOps, e1, ins2]
      rfl
    · rcases hm with rfl | rfl
      · exact hsp.2.1
      · exact hsp.2.2

end C01
end Falcon
