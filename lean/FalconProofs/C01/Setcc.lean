/-
  FalconProofs.C01.Setcc — `cc_condition` under the state relation (`Ev`, i.e. what the executor computes), and
  instruction-level agreement for `setcc r8` (14 condition codes; p/np read PF, which is outside the property).
-/
import FalconProofs.C01.MemForms

namespace Falcon
namespace C01
open Const X86 X86Lift
open C07 (get_set get_set_self get_set_ne)

theorem evS {σ : State} {n : String} {b : Bool} (h : σ.get n = some (ofBV (BitVec.ofBool b))) :
    Ev σ (sc n 1) 1 (BitVec.ofBool b) := Ev.scalar (s := { name := n, bits := 1 }) h

theorem evIs {σ : State} {n : String} {b : Bool} (h : σ.get n = some (ofBV (BitVec.ofBool b))) (v : Nat) :
    Ev σ (.bin .cmpeq (sc n 1) (Expr.ec v 1)) 1 (BitVec.ofBool (BitVec.ofBool b == BitVec.ofNat 1 (v % 2 ^ 64))) :=
  Ev.cmpeq (evS h) (Ev.ec v 1)

/-- `cc_condition` evaluates to the SDM's condition, for the fourteen codes that do not read PF -/
theorem ev_cc {σ : State} {st : St} (ha : Abs σ st) : ∀ (c : Nat), c < 16 → c ≠ 10 ∧ c ≠ 11 →
    ∃ e, ccExpr c = .ok e ∧ e.bits = 1 ∧ Ev σ e 1 (BitVec.ofBool (X86.cond st c))
  | 0, _, _ => by exact ⟨_, rfl, rfl, Ev.cast (evIs ha.of 1) (by simp only [X86.cond]; cases st.of <;> decide)⟩
  | 1, _, _ => by exact ⟨_, rfl, rfl, Ev.cast (evIs ha.of 0) (by simp only [X86.cond]; cases st.of <;> decide)⟩
  | 2, _, _ => by exact ⟨_, rfl, rfl, Ev.cast (evIs ha.cf 1) (by simp only [X86.cond]; cases st.cf <;> decide)⟩
  | 3, _, _ => by exact ⟨_, rfl, rfl, Ev.cast (evIs ha.cf 0) (by simp only [X86.cond]; cases st.cf <;> decide)⟩
  | 4, _, _ => by exact ⟨_, rfl, rfl, Ev.cast (evIs ha.zf 1) (by simp only [X86.cond]; cases st.zf <;> decide)⟩
  | 5, _, _ => by exact ⟨_, rfl, rfl, Ev.cast (evIs ha.zf 0) (by simp only [X86.cond]; cases st.zf <;> decide)⟩
  | 6, _, _ => by exact ⟨_, rfl, rfl, Ev.cast (Ev.or (evIs ha.cf 1) (evIs ha.zf 1)) (by simp only [X86.cond]; cases st.cf <;> cases st.zf <;> decide)⟩
  | 7, _, _ => by exact ⟨_, rfl, rfl, Ev.cast (Ev.and (evIs ha.cf 0) (evIs ha.zf 0)) (by simp only [X86.cond]; cases st.cf <;> cases st.zf <;> decide)⟩
  | 8, _, _ => by exact ⟨_, rfl, rfl, Ev.cast (evIs ha.sf 1) (by simp only [X86.cond]; cases st.sf <;> decide)⟩
  | 9, _, _ => by exact ⟨_, rfl, rfl, Ev.cast (evIs ha.sf 0) (by simp only [X86.cond]; cases st.sf <;> decide)⟩
  | 12, _, _ => by exact ⟨_, rfl, rfl, Ev.cast (Ev.cmpneq (evS ha.sf) (evS ha.of)) (by simp only [X86.cond]; cases st.sf <;> cases st.of <;> decide)⟩
  | 13, _, _ => by exact ⟨_, rfl, rfl, Ev.cast (Ev.cmpeq (evS ha.sf) (evS ha.of)) (by simp only [X86.cond]; cases st.sf <;> cases st.of <;> decide)⟩
  | 14, _, _ => by exact ⟨_, rfl, rfl, Ev.cast (Ev.or (Ev.cmpneq (evS ha.sf) (evS ha.of)) (evIs ha.zf 1)) (by simp only [X86.cond]; cases st.sf <;> cases st.of <;> cases st.zf <;> decide)⟩
  | 15, _, _ => by exact ⟨_, rfl, rfl, Ev.cast (Ev.and (Ev.cmpeq (evS ha.sf) (evS ha.of)) (evIs ha.zf 0)) (by simp only [X86.cond]; cases st.sf <;> cases st.of <;> cases st.zf <;> decide)⟩
  | 10, _, h => absurd rfl h.1
  | 11, _, h => absurd rfl h.2
  | n + 16, h, _ => by omega


def ins1m (m : String) (addr len : Nat) (d : GReg) : Ins :=
  { mode := .amd64, mnem := m, len := len, asz := 8, ops := [.reg d], addr := addr }

theorem step_setcc (m : String) (c : Nat) (hs : splitCc m = some ("set", c)) (addr len : Nat) (d : GReg) (st : St)
    (h : addr + len < 2 ^ 64) :
    step (ins1m m addr len d) st =
      .ok (setReg st d ((if X86.cond st c then 1#8 else 0#8).setWidth 64)) (addr + len) [] := by
  have hn : nextIp (ins1m m addr len d) = addr + len := by simp [nextIp, ins1m, Mode.bits, Nat.mod_eq_of_lt h]
  unfold step ins1m
  simp only [hs]
  simp only [ins1m] at hn
  simp [writeOp, orTrap, done, hn]

/-- **`setcc r8`** (low- or high-byte register), the fourteen condition codes that do not read PF -/
theorem lift_setcc {m : String} {c : Nat} (hs : splitCc m = some ("set", c)) (hc : c < 16) (hp : c ≠ 10 ∧ c ≠ 11)
    {d : GReg} (hd : Shape d) (hd8 : d.bits = 8) (hdi : d.idx < 16) (addr len : Nat) (haddr : addr + len < 2 ^ 64)
    (σ : State) (st : St) (ha : Abs σ st) :
    ∃ ops, opsSetcc .amd64 c d = .ok ops ∧ Agrees (straight addr len ops) σ (ins1m m addr len d) st := by
  obtain ⟨e, he1, he2, he3⟩ := ev_cc ha c hc hp
  have hz := Ev.zext 8 (by decide) (by decide) he3
  have hval : (BitVec.ofBool (X86.cond st c)).zeroExtend 8 = if X86.cond st c then 1#8 else 0#8 := by
    cases X86.cond st c <;> decide
  rw [hval] at hz
  obtain ⟨di, db, doff⟩ := d
  simp only at hd8 hdi
  subst hd8
  have hb : (Expr.ext .zext 8 e).bits = 8 := rfl
  have e1 := exec_assign (X86Lift.scalar (rName di) 64) (ev_setE ha hd hdi hz)
  refine ⟨[.assign (X86Lift.scalar (rName di) 64) (setE ⟨di, 8, doff⟩ (.ext .zext 8 e))], ?_, _, _, ?_, ?_, abs_setReg (r := ⟨di, 8, doff⟩) ha hdi ((if X86.cond st c then 1#8 else 0#8).setWidth 64), ?_⟩
  · simp [opsSetcc, he1, Expr.mkExt, he2, regSet, regSetExpr_eq hd hb, bind, Res.bind, pure, Mode.bits]
  · rw [runBTR_straight _ _ _ _ (by simp)]
    simp only [execOps, e1, ins1m]
    rfl
  · exact step_setcc m c hs addr len _ st haddr
  · simp

end C01
end Falcon
