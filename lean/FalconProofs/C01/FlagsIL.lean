/-
  C01 — the IL expressions built by the lifter's flag helpers (mirrored in `FalconModel/Isa/X86Lift.lean`) denote,
  in every state, the bit-vector formulas of `FalconProofs/C01/Flags.lean` (which equal the SDM definitions).
  Stated with the compositional value `Falcon.value` of an expression in a state; for well-typed expressions
  `State.evalIn` (what falcon's executor computes) equals it (`C07.evalIn_eq_value`).  Operands are arbitrary
  expressions whose value is an arbitrary constant: universal over states and operand values.
-/
import FalconModel.Isa.X86Lift
import FalconModel.Sem
import FalconProofs.C01.Flags
import FalconProofs.C04.Basic

namespace Falcon.C01
open Falcon Falcon.X86 Falcon.X86Lift Falcon.Const Falcon.Spec Falcon.Sem

@[simp] theorem ec_bits (v b : Nat) : (Expr.ec v b).bits = b := rfl

/-- an expression whose value in `σ` is the `w`-bit constant `x` -/
def Val (σ : State) (e : Expr) {w : Nat} (x : BitVec w) : Prop :=
  value σ e = .ok (ofBV x) ∧ e.bits = w

theorem val_ec (σ : State) (v b : Nat) : Val σ (Expr.ec v b) (BitVec.ofNat b (v % 2 ^ 64)) := by
  constructor
  · unfold Expr.ec; rw [new_eq_ofBV]; rfl
  · rfl

theorem mkBin_ok (op : BinOp) (l r : Expr) (h : l.bits = r.bits) : Expr.mkBin op l r = .ok (.bin op l r) := by
  simp [Expr.mkBin, h]

theorem value_bin (σ : State) (op : BinOp) (l r : Expr) {w : Nat} (x y : BitVec w) (c : Const)
    (hl : Val σ l x) (hr : Val σ r y) (hc : binBV op x y = some c) :
    value σ (.bin op l r) = .ok c := by
  simp only [value, hl.1, hr.1, bind, Res.bind]
  exact bin_ofBV_some hc

theorem val_bin (σ : State) (op : BinOp) (l r : Expr) {w : Nat} (x y z : BitVec w)
    (hl : Val σ l x) (hr : Val σ r y) (hc : binBV op x y = some (ofBV z)) (hcmp : op.isCmp = false) :
    Val σ (.bin op l r) z :=
  ⟨value_bin σ op l r x y _ hl hr hc, by simp [Expr.bits, hcmp, hl.2]⟩

theorem value_trun (σ : State) (e : Expr) {w : Nat} (x : BitVec w) (m : Nat) (h : Val σ e x) (hm : m < w) :
    value σ (.ext .trun m e) = .ok (ofBV (x.truncate m)) := by
  simp only [value, h.1, bind, Res.bind, Spec.ext, ofBV_bits, toBV_ofBV]
  simp [Nat.not_le.mpr hm]

theorem ofBV1 (x : BitVec 1) : ofBV x = bit (x.getLsbD 0) := by
  have : x = 0#1 ∨ x = 1#1 := by
    rcases x with ⟨⟨v, hv⟩⟩
    have : v = 0 ∨ v = 1 := by omega
    rcases this with rfl | rfl <;> simp
  rcases this with rfl | rfl <;> rfl

/-- `set_zf` -/
theorem zf_value (σ : State) (res : Expr) {w : Nat} (r : BitVec w) (h : Val σ res r) :
    ∃ e, zfExpr res = .ok e ∧ value σ e = .ok (bit (fZf r)) := by
  refine ⟨.bin .cmpeq res (Expr.ec 0 res.bits), mkBin_ok _ _ _ (by simp), ?_⟩
  have h0 : Val σ (Expr.ec 0 res.bits) (0 : BitVec w) := by
    have := val_ec σ 0 res.bits
    rw [h.2] at this ⊢
    simpa using this
  exact value_bin σ .cmpeq res _ r 0 _ h h0 rfl

/-- `set_cf` (sub, cmp): `lhs <u result` -/
theorem cfSub_value (σ : State) (res lhs : Expr) {w : Nat} (r a : BitVec w) (hr : Val σ res r) (ha : Val σ lhs a) :
    ∃ e, cfSubExpr res lhs = .ok e ∧ value σ e = .ok (bit (fCfSub r a)) :=
  ⟨.bin .cmpltu lhs res, mkBin_ok _ _ _ (by rw [ha.2, hr.2]), value_bin σ .cmpltu lhs res a r _ ha hr rfl⟩

/-- the carry of add: `result <u lhs` -/
theorem cfAdd_value (σ : State) (res lhs : Expr) {w : Nat} (r a : BitVec w) (hr : Val σ res r) (ha : Val σ lhs a) :
    ∃ e, cfAddExpr res lhs = .ok e ∧ value σ e = .ok (bit (fCfAdd r a)) :=
  ⟨.bin .cmpltu res lhs, mkBin_ok _ _ _ (by rw [ha.2, hr.2]), value_bin σ .cmpltu res lhs r a _ hr ha rfl⟩

theorem toNat_pred {w : Nat} (hw : 1 ≤ w) (h64 : w < 2 ^ 64) : (BitVec.ofNat w ((w - 1) % 2 ^ 64)).toNat = w - 1 := by
  have h1 : (w - 1) % 2 ^ 64 = w - 1 := Nat.mod_eq_of_lt (by omega)
  have h2 : w < 2 ^ w := Nat.lt_two_pow_self
  rw [h1, BitVec.toNat_ofNat, Nat.mod_eq_of_lt (by omega)]

/-- `set_sf` -/
theorem sf_value (σ : State) (res : Expr) {w : Nat} (hw : 2 ≤ w) (h64 : w < 2 ^ 64) (r : BitVec w) (h : Val σ res r) :
    ∃ e, sfExpr res = .ok e ∧ value σ e = .ok (bit (fSf r)) := by
  have hb := h.2
  refine ⟨.ext .trun 1 (.bin .shr res (Expr.ec (res.bits - 1) res.bits)), ?_, ?_⟩
  · simp [sfExpr, Expr.mkBin, Expr.mkExt, Expr.bits, BinOp.isCmp, hb]; omega
  · have hk : Val σ (Expr.ec (res.bits - 1) res.bits) (BitVec.ofNat w ((w - 1) % 2 ^ 64)) := by
      have := val_ec σ (res.bits - 1) res.bits
      rw [hb] at this ⊢; exact this
    have hs : Val σ (.bin .shr res (Expr.ec (res.bits - 1) res.bits)) (r >>> (w - 1)) := by
      refine val_bin σ .shr res _ r _ _ h hk ?_ rfl
      simp only [binBV, Spec.shr, toNat_pred (by omega) h64]
      have : ¬ (w - 1 ≥ w) := by omega
      simp [this]
    rw [value_trun σ _ _ 1 hs (by omega), ofBV1]
    simp [fSf, BitVec.truncate]

/-- `set_of` -/
theorem of_value (σ : State) (res lhs rhs : Expr) {w : Nat} (hw : 2 ≤ w) (h64w : w ≤ 64) (r a b : BitVec w) (sub : Bool)
    (hr : Val σ res r) (ha : Val σ lhs a) (hb : Val σ rhs b) :
    ∃ e, ofExpr res lhs rhs sub = .ok e ∧ value σ e = .ok (bit (fOf r a b sub)) := by
  have h64 : w < 2 ^ 64 := by omega
  have hones : BitVec.ofNat w (0xffffffffffffffff % 2 ^ 64) = BitVec.allOnes w := by
    apply BitVec.eq_of_toNat_eq
    simp only [BitVec.toNat_ofNat, BitVec.toNat_allOnes]
    have : (2 : Nat) ^ w ∣ 2 ^ 64 := Nat.pow_dvd_pow 2 h64w
    obtain ⟨k, hk⟩ := this
    have hpos : 0 < 2 ^ w := Nat.two_pow_pos w
    have : (0xffffffffffffffff % 2 ^ 64 : Nat) = 2 ^ 64 - 1 := by decide
    rw [this, hk]
    have hk1 : 1 ≤ k := by
      rcases k with _ | k
      · simp at hk
      · omega
    have : 2 ^ w * k - 1 = 2 ^ w * (k - 1) + (2 ^ w - 1) := by
      have : 2 ^ w * k = 2 ^ w * (k - 1) + 2 ^ w := by
        rw [← Nat.mul_succ]; congr; omega
      omega
    rw [this, Nat.mul_add_mod]
    exact Nat.mod_eq_of_lt (by omega)
  -- the first operand of the conjunction
  let e0 : Expr := if sub then .bin .xor lhs rhs else .bin .xor (.bin .xor lhs rhs) (Expr.ec 0xffffffffffffffff lhs.bits)
  let v0 : BitVec w := if sub then a ^^^ b else (a ^^^ b) ^^^ BitVec.allOnes w
  have hx : Val σ (.bin .xor lhs rhs) (a ^^^ b) := val_bin σ .xor lhs rhs a b _ ha hb rfl rfl
  have h0 : Val σ e0 v0 := by
    cases sub
    · have hc : Val σ (Expr.ec 0xffffffffffffffff lhs.bits) (BitVec.allOnes w) := by
        have := val_ec σ 0xffffffffffffffff lhs.bits
        rw [ha.2, hones] at this; rw [ha.2]; exact this
      exact val_bin σ .xor _ _ _ _ _ hx hc rfl rfl
    · exact hx
  have h1 : Val σ (.bin .xor lhs res) (a ^^^ r) := val_bin σ .xor lhs res a r _ ha hr rfl rfl
  have hand : Val σ (.bin .and e0 (.bin .xor lhs res)) (v0 &&& (a ^^^ r)) := val_bin σ .and _ _ _ _ _ h0 h1 rfl rfl
  have hk : Val σ (Expr.ec (w - 1) w) (BitVec.ofNat w ((w - 1) % 2 ^ 64)) := val_ec σ (w - 1) w
  have hs : Val σ (.bin .shr (.bin .and e0 (.bin .xor lhs res)) (Expr.ec (w - 1) w)) ((v0 &&& (a ^^^ r)) >>> (w - 1)) := by
    refine val_bin σ .shr _ _ _ _ _ hand hk ?_ rfl
    simp only [binBV, Spec.shr, toNat_pred (by omega) h64]
    have : ¬ (w - 1 ≥ w) := by omega
    simp [this]
  refine ⟨.ext .trun 1 (.bin .shr (.bin .and e0 (.bin .xor lhs res)) (Expr.ec (w - 1) w)), ?_, ?_⟩
  · have e0b : e0.bits = w := h0.2
    cases sub <;>
      simp [ofExpr, e0, Expr.mkBin, Expr.mkExt, Expr.bits, BinOp.isCmp, ha.2, hb.2, hr.2, bind, Res.bind] <;> omega
  · rw [value_trun σ _ _ 1 hs (by omega), ofBV1]
    simp [fOf, v0, BitVec.truncate]

end Falcon.C01
