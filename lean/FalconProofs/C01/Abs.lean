/-
  FalconProofs.C01.Abs — the abstraction relation between an IL state and an x86-64 machine state, and how the
  lifter's register accessors (`X86Register::get` / `set`, mirrored by `regGet` / `regSetExpr`) read and write through it.
-/
import FalconProofs.C07.Exec
import FalconProofs.C01.Names
import FalconProofs.C01.Eval
import FalconProofs.C01.Run
import FalconProofs.C01.RegIL

namespace Falcon
namespace C01
open Const X86 X86Lift
open C07 (get_set get_set_self get_set_ne)

/-- `σ` holds the machine state `s` (64-bit mode): every general register under the lifter's scalar name at 64 bits,
    CF ZF SF OF as one-bit scalars, the same byte memory.  Other scalars (temporaries, PF, DF, …) are unconstrained. -/
structure Abs (σ : State) (s : St) : Prop where
  gpr : ∀ i, i < 16 → σ.get (rName i) = some (ofBV (s.gpr i))
  cf : σ.get "CF" = some (ofBV (BitVec.ofBool s.cf))
  zf : σ.get "ZF" = some (ofBV (BitVec.ofBool s.zf))
  sf : σ.get "SF" = some (ofBV (BitVec.ofBool s.sf))
  of : σ.get "OF" = some (ofBV (BitVec.ofBool s.of))
  mem : σ.mem = s.mem
  endian : σ.endian = .little

/-! ### the expressions `regGet` / `regSetExpr` return, written out -/

def fullE (i : Nat) : Expr := sc (rName i) 64

def getE (r : GReg) : Expr :=
  if r.bits = 64 then fullE r.idx
  else if r.off = 0 then .ext .trun r.bits (fullE r.idx)
  else .ext .trun r.bits (.bin .shr (fullE r.idx) (Expr.ec r.off 64))

def setE (r : GReg) (ve : Expr) : Expr :=
  if r.bits = 64 then ve
  else if r.off = 0 then
    if r.bits < 32 then .bin .or (.bin .and (fullE r.idx) (Expr.ec (lowMask r.bits) 64)) (.ext .zext 64 ve)
    else .ext .zext 64 ve
  else .bin .or (.bin .and (fullE r.idx) (Expr.ec (highMask r.bits r.off) 64)) (.bin .shl (.ext .zext 64 ve) (Expr.ec r.off 64))

theorem regGet_eq {r : GReg} (hr : Shape r) : regGet .amd64 r = .ok (getE r) := by
  cases hr <;>
    simp [regGet, getE, fullE, Mode.bits, Expr.mkBin, Expr.mkExt, Expr.bits, sc, BinOp.isCmp, bind, Res.bind]

theorem getE_bits {r : GReg} (hr : Shape r) : (getE r).bits = r.bits := by
  cases hr <;> simp [getE, fullE, Expr.bits, sc]

theorem regSetExpr_eq {r : GReg} (hr : Shape r) {ve : Expr} (hb : ve.bits = r.bits) :
    regSetExpr .amd64 r ve = .ok (setE r ve) := by
  cases hr <;> simp at hb <;>
    simp [regSetExpr, setE, fullE, Mode.bits, Expr.mkBin, Expr.mkExt, Expr.bits, sc, BinOp.isCmp, bind, Res.bind, hb]

theorem shape_bits {r : GReg} (hr : Shape r) : OpWidth r.bits := by
  cases hr <;> simp [OpWidth]

/-! ### reads -/

theorem ev_full {σ : State} {s : St} (ha : Abs σ s) {i : Nat} (hi : i < 16) : Ev σ (fullE i) 64 (s.gpr i) :=
  Ev.scalar (s := { name := rName i, bits := 64 }) (ha.gpr i hi)

theorem ev_getE {σ : State} {s : St} (ha : Abs σ s) {r : GReg} (hr : Shape r) (hi : r.idx < 16) :
    Ev σ (getE r) r.bits (getReg s r r.bits) := by
  have hf := ev_full ha hi
  cases hr with
  | r64 i => simpa [getE, getReg] using hf
  | r32 i =>
    refine (Ev.trun 32 (by decide) (by decide) hf).cast ?_
    simp [getReg, BitVec.truncate]
  | r16 i =>
    refine (Ev.trun 16 (by decide) (by decide) hf).cast ?_
    simp [getReg, BitVec.truncate]
  | r8 i =>
    refine (Ev.trun 8 (by decide) (by decide) hf).cast ?_
    simp [getReg, BitVec.truncate]
  | h8 i =>
    have hk : Ev σ (Expr.ec 8 64) 64 (8#64) := by simpa using (Ev.ec (σ := σ) 8 64)
    have hs := Ev.shr (by decide) hf hk
    refine (Ev.trun 8 (by decide) (by decide) hs).cast ?_
    simp [getReg, BitVec.truncate]

/-! ### writes -/

theorem ev_setE {σ : State} {s : St} (ha : Abs σ s) {r : GReg} (hr : Shape r) (hi : r.idx < 16)
    {ve : Expr} {v : BitVec r.bits} (hv : Ev σ ve r.bits v) :
    Ev σ (setE r ve) 64 (mergeReg (s.gpr r.idx) r (v.setWidth 64)) := by
  have hf := ev_full ha hi
  cases hr with
  | r64 i =>
    refine Ev.cast (by simpa [setE] using hv) ?_
    simp [mergeReg]
  | r32 i =>
    refine (Ev.zext 64 (by simp) (by simp) hv).cast ?_
    rw [set32]; rfl
  | r16 i =>
    have hm : Ev σ (Expr.ec (lowMask 16) 64) 64 (BitVec.allOnes 64 <<< 16) := by
      have := Ev.ec (σ := σ) (lowMask 16) 64
      rw [n16, m16] at this; exact this
    refine (Ev.or (Ev.and hf hm) (Ev.zext 64 (by simp) (by simp) hv)).cast ?_
    rw [set16]; rfl
  | r8 i =>
    have hm : Ev σ (Expr.ec (lowMask 8) 64) 64 (BitVec.allOnes 64 <<< 8) := by
      have := Ev.ec (σ := σ) (lowMask 8) 64
      rw [n8, m8] at this; exact this
    refine (Ev.or (Ev.and hf hm) (Ev.zext 64 (by simp) (by simp) hv)).cast ?_
    rw [set8]; rfl
  | h8 i =>
    have hm : Ev σ (Expr.ec (highMask 8 8) 64) 64 (~~~(0xff#64 <<< 8)) := by
      have := Ev.ec (σ := σ) (highMask 8 8) 64
      rw [nh, mh] at this; exact this
    have hk : Ev σ (Expr.ec 8 64) 64 (8#64) := by simpa using (Ev.ec (σ := σ) 8 64)
    refine (Ev.or (Ev.and hf hm) (Ev.shl (by decide) (Ev.zext 64 (by simp) (by simp) hv) hk)).cast ?_
    rw [set8h]; rfl

theorem exec_assign {σ : State} {e : Expr} {n : Nat} {v : BitVec n} (dst : Scalar) (h : Ev σ e n v) :
    execute σ (.assign dst e) = .ok (σ.set dst.name (ofBV v), .fallThrough) := by
  simp [execute, h.evalIn]

/-- a scalar that is neither a general register nor one of CF ZF SF OF -/
theorem abs_set_other {σ : State} {s : St} (ha : Abs σ s) (name : String) (c : Const)
    (hx : ∀ i, i < 16 → rName i ≠ name) (h1 : name ≠ "CF") (h2 : name ≠ "ZF") (h3 : name ≠ "SF") (h4 : name ≠ "OF") :
    Abs (σ.set name c) s where
  gpr i hi := by rw [get_set_ne _ _ (hx i hi)]; exact ha.gpr i hi
  cf := by rw [get_set_ne _ _ (Ne.symm h1)]; exact ha.cf
  zf := by rw [get_set_ne _ _ (Ne.symm h2)]; exact ha.zf
  sf := by rw [get_set_ne _ _ (Ne.symm h3)]; exact ha.sf
  of := by rw [get_set_ne _ _ (Ne.symm h4)]; exact ha.of
  mem := ha.mem
  endian := ha.endian

theorem abs_set_temp {σ : State} {s : St} (ha : Abs σ s) (a b w : Nat) (c : Const) :
    Abs (σ.set (temp a b w).name c) s :=
  abs_set_other ha _ c (fun i hi => Ne.symm (temp_ne_rName hi a b w))
    (temp_ne_flag (by simp [flagNames]) a b w) (temp_ne_flag (by simp [flagNames]) a b w)
    (temp_ne_flag (by simp [flagNames]) a b w) (temp_ne_flag (by simp [flagNames]) a b w)

theorem abs_set_gpr {σ : State} {s : St} (ha : Abs σ s) {d : Nat} (hd : d < 16) (v : BitVec 64) :
    Abs (σ.set (rName d) (ofBV v)) { s with gpr := fun i => if i = d then v else s.gpr i } where
  gpr i hi := by
    by_cases h : i = d
    · subst h; simp [get_set_self]
    · rw [get_set_ne _ _ (fun he => h (rName_inj hi hd he))]; simp [h, ha.gpr i hi]
  cf := by rw [get_set_ne _ _ (Ne.symm (rName_ne_flag hd (by simp [flagNames])))]; exact ha.cf
  zf := by rw [get_set_ne _ _ (Ne.symm (rName_ne_flag hd (by simp [flagNames])))]; exact ha.zf
  sf := by rw [get_set_ne _ _ (Ne.symm (rName_ne_flag hd (by simp [flagNames])))]; exact ha.sf
  of := by rw [get_set_ne _ _ (Ne.symm (rName_ne_flag hd (by simp [flagNames])))]; exact ha.of
  mem := ha.mem
  endian := ha.endian

theorem abs_set_cf {σ : State} {s : St} (ha : Abs σ s) (b : Bool) :
    Abs (σ.set "CF" (ofBV (BitVec.ofBool b))) { s with cf := b } where
  gpr i hi := by rw [get_set_ne _ _ (rName_ne_flag hi (by simp [flagNames]))]; exact ha.gpr i hi
  cf := by simp [get_set_self]
  zf := by rw [get_set_ne _ _ (by decide)]; exact ha.zf
  sf := by rw [get_set_ne _ _ (by decide)]; exact ha.sf
  of := by rw [get_set_ne _ _ (by decide)]; exact ha.of
  mem := ha.mem
  endian := ha.endian

theorem abs_set_zf {σ : State} {s : St} (ha : Abs σ s) (b : Bool) :
    Abs (σ.set "ZF" (ofBV (BitVec.ofBool b))) { s with zf := b } where
  gpr i hi := by rw [get_set_ne _ _ (rName_ne_flag hi (by simp [flagNames]))]; exact ha.gpr i hi
  cf := by rw [get_set_ne _ _ (by decide)]; exact ha.cf
  zf := by simp [get_set_self]
  sf := by rw [get_set_ne _ _ (by decide)]; exact ha.sf
  of := by rw [get_set_ne _ _ (by decide)]; exact ha.of
  mem := ha.mem
  endian := ha.endian

theorem abs_set_sf {σ : State} {s : St} (ha : Abs σ s) (b : Bool) :
    Abs (σ.set "SF" (ofBV (BitVec.ofBool b))) { s with sf := b } where
  gpr i hi := by rw [get_set_ne _ _ (rName_ne_flag hi (by simp [flagNames]))]; exact ha.gpr i hi
  cf := by rw [get_set_ne _ _ (by decide)]; exact ha.cf
  zf := by rw [get_set_ne _ _ (by decide)]; exact ha.zf
  sf := by simp [get_set_self]
  of := by rw [get_set_ne _ _ (by decide)]; exact ha.of
  mem := ha.mem
  endian := ha.endian

theorem abs_set_of {σ : State} {s : St} (ha : Abs σ s) (b : Bool) :
    Abs (σ.set "OF" (ofBV (BitVec.ofBool b))) { s with of := b } where
  gpr i hi := by rw [get_set_ne _ _ (rName_ne_flag hi (by simp [flagNames]))]; exact ha.gpr i hi
  cf := by rw [get_set_ne _ _ (by decide)]; exact ha.cf
  zf := by rw [get_set_ne _ _ (by decide)]; exact ha.zf
  sf := by rw [get_set_ne _ _ (by decide)]; exact ha.sf
  of := by simp [get_set_self]
  mem := ha.mem
  endian := ha.endian

/-- the register file after the architecture's write of `v` to `r` -/
theorem abs_setReg {σ : State} {s : St} (ha : Abs σ s) {r : GReg} (hi : r.idx < 16) (v : BitVec 64) :
    Abs (σ.set (rName r.idx) (ofBV (mergeReg (s.gpr r.idx) r v))) (setReg s r v) := by
  have := abs_set_gpr ha hi (mergeReg (s.gpr r.idx) r v)
  have e : setReg s r v = { s with gpr := fun i => if i = r.idx then mergeReg (s.gpr r.idx) r v else s.gpr i } := by
    unfold setReg; congr 1; funext i; by_cases h : i = r.idx <;> simp [h]
  rw [e]; exact this

end C01
end Falcon
