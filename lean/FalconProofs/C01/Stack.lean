/-
  FalconProofs.C01.Stack — instruction-level agreement for `push r64` and `pop r64` in 64-bit mode (stack memory and
  rsp), for every state in which the eight stack bytes are mapped and the access does not wrap 2^64.
-/
import FalconProofs.C01.Misc

namespace Falcon
namespace C01
open Const X86 X86Lift
open C07 (get_set get_set_self get_set_ne)

theorem spE_eq : spE = fullE 4 := rfl

theorem ev_sp {σ : State} {st : St} (ha : Abs σ st) : Ev σ spE 64 (st.gpr 4) := by
  rw [spE_eq]; exact ev_full ha (by decide)

theorem ev_eight {σ : State} : Ev σ (Expr.ec 8 64) 64 (8#64) := by simpa using Ev.ec (σ := σ) 8 64

theorem abs_set_rsp {σ : State} {st : St} (ha : Abs σ st) (v : BitVec 64) :
    Abs (σ.set "rsp" (ofBV v)) (setReg st (rsp 64) v) := by
  have h4 : rName 4 = "rsp" := by decide
  have := abs_setReg (r := rsp 64) ha (by decide) v
  rw [show (rsp 64).idx = 4 from rfl, h4] at this
  simpa [rsp, mergeReg] using this

def ins1g (m : String) (addr len : Nat) (r : GReg) : Ins :=
  { mode := .amd64, mnem := m, len := len, asz := 8, ops := [.reg r], addr := addr }

theorem nextIp_1g (m : String) (addr len : Nat) (r : GReg) (h : addr + len < 2 ^ 64) :
    nextIp (ins1g m addr len r) = addr + len := by
  simp [nextIp, ins1g, Mode.bits, Nat.mod_eq_of_lt h]

/-! ### push r64 -/

theorem step_push64 (addr len i : Nat) (st : St) (h : addr + len < 2 ^ 64) (bs : List UInt8)
    (hmap : st.mem.readBytes (st.gpr 4 - 8#64).toNat 8 = some bs) :
    step (ins1g "push" addr len ⟨i, 64, 0⟩) st =
      .ok (setReg { st with mem := st.mem.write (st.gpr 4 - 8#64).toNat (bytesOfLE (st.gpr i).toNat 8) } (rsp 64) (st.gpr 4 - 8#64))
        (addr + len) [] := by
  have hc : splitCc "push" = none := by decide
  have hn := nextIp_1g "push" addr len ⟨i, 64, 0⟩ h
  have hw : BitVec.setWidth 64 (BitVec.setWidth 64 (st.gpr 4 >>> 0)) = st.gpr 4 := by simp
  have hsp : ((st.gpr 4).toNat + 2 ^ 64 - 64 / 8) % 2 ^ 64 = (st.gpr 4 - 8#64).toNat := by
    rw [BitVec.toNat_sub]; have := (st.gpr 4).isLt; simp; omega
  have hv : (BitVec.setWidth (8 * (64 / 8)) (BitVec.setWidth 64 (st.gpr i >>> 0))).toNat % 2 ^ (8 * (64 / 8)) = (st.gpr i).toNat := by
    have : BitVec.setWidth (8 * (64 / 8)) (BitVec.setWidth 64 (st.gpr i >>> 0)) = st.gpr i := by simp
    rw [this]; exact Nat.mod_eq_of_lt (st.gpr i).isLt
  unfold step ins1g
  simp only [hc]
  simp only [ins1g] at hn
  simp only [readOp, push, writeMem, orTrap, done, Opnd.bits, Mode.bits, hn, getReg, rsp, hw, hsp]
  simp only [Option.map_some, Option.bind_eq_bind, Option.bind_some, hv, show 64 / 8 = 8 from rfl, hmap]
  simp only [BitVec.ofNat_toNat, BitVec.setWidth_eq]
  simp [-BitVec.toNat_sub]

/-- **`push r64`** (any register, `push rsp` included: the OLD stack pointer is stored) -/
theorem lift_push64 (i : Nat) (hi : i < 16) (addr len : Nat) (haddr : addr + len < 2 ^ 64) (σ : State) (st : St) (ha : Abs σ st)
    (bs : List UInt8) (hmap : st.mem.readBytes (st.gpr 4 - 8#64).toNat 8 = some bs)
    (hwrap : (st.gpr 4 - 8#64).toNat + 8 ≤ 2 ^ 64) :
    ∃ ops, opsPush64 ⟨i, 64, 0⟩ = .ok ops ∧ AgreesM (straight addr len ops) σ (ins1g "push" addr len ⟨i, 64, 0⟩) st := by
  have hnsp := Ev.sub (ev_sp ha) (ev_eight (σ := σ))
  have hval := ev_getE ha (Shape.r64 i) hi
  have e1 := exec_store 8 (by decide) rfl hnsp hval hwrap
  have hb : bytesOf σ.endian (ofBV (getReg st ⟨i, 64, 0⟩ 64)) = bytesOfLE (st.gpr i).toNat 8 := by
    rw [ha.endian, bytesOf_little]; simp [getReg]
  rw [hb, ha.mem] at e1
  have ha1 : Abs { σ with mem := st.mem.write (st.gpr 4 - 8#64).toNat (bytesOfLE (st.gpr i).toNat 8) }
      { st with mem := st.mem.write (st.gpr 4 - 8#64).toNat (bytesOfLE (st.gpr i).toNat 8) } := abs_store ha _
  have hnsp1 := Ev.sub (ev_sp ha1) (ev_eight (σ := _))
  have e2 := exec_assign (X86Lift.scalar "rsp" 64) hnsp1
  refine ⟨[.store (.bin .sub spE (Expr.ec 8 64)) (getE ⟨i, 64, 0⟩), .assign (X86Lift.scalar "rsp" 64) (.bin .sub spE (Expr.ec 8 64))],
    by simp [opsPush64, regGet_eq (Shape.r64 i), Expr.mkBin, spE, sc, Expr.bits, bind, Res.bind, pure], _, _, ?_,
    step_push64 addr len i st haddr bs hmap, abs_set_rsp ha1 _⟩
  rw [runBTR_straight _ _ _ _ (by simp)]
  simp only [execOps, e1, e2, ins1g]
  rfl

/-! ### pop r64 -/

theorem step_pop64 (addr len i : Nat) (st : St) (h : addr + len < 2 ^ 64) (bs : List UInt8)
    (hmap : st.mem.readBytes (st.gpr 4).toNat 8 = some bs) :
    step (ins1g "pop" addr len ⟨i, 64, 0⟩) st =
      .ok (setReg (setReg st (rsp 64) (st.gpr 4 + 8#64)) ⟨i, 64, 0⟩ (BitVec.ofNat 64 (natOfLE bs))) (addr + len) [] := by
  have hc : splitCc "pop" = none := by decide
  have hn := nextIp_1g "pop" addr len ⟨i, 64, 0⟩ h
  have hsp : BitVec.ofNat 64 (((st.gpr 4).toNat + 8) % 2 ^ 64) = st.gpr 4 + 8#64 := by
    apply BitVec.eq_of_toNat_eq; simp [BitVec.toNat_add]
  unfold step ins1g
  simp only [hc]
  simp only [ins1g] at hn
  simp [writeOp, pop, readMem, orTrap, done, Opnd.bits, Mode.bits, hn, getReg, rsp, hmap, hsp]

/-- **`pop r64`** (any register; `pop rsp` included: the loaded value wins) -/
theorem lift_pop64 (i : Nat) (hi : i < 16) (addr len : Nat) (haddr : addr + len < 2 ^ 64) (σ : State) (st : St) (ha : Abs σ st)
    (bs : List UInt8) (hmap : st.mem.readBytes (st.gpr 4).toNat 8 = some bs) (hwrap : (st.gpr 4).toNat + 8 ≤ 2 ^ 64) :
    ∃ ops, opsPop64 addr ⟨i, 64, 0⟩ = .ok ops ∧ Agrees (straight addr len ops) σ (ins1g "pop" addr len ⟨i, 64, 0⟩) st := by
  have hr : σ.mem.readBytes (st.gpr 4).toNat 8 = some bs := by rw [ha.mem]; exact hmap
  have e1 := exec_load (ltemp addr 64) 8 (by decide) rfl (ev_sp ha) hwrap bs hr
  rw [ha.endian, load_value _ _ _ _ hr] at e1
  have ha1 := abs_set_ltemp ha addr 64 (ofBV (BitVec.ofNat (8 * 8) (natOfLE bs)))
  have ht1 := get_set_self σ (ltemp addr 64).name (ofBV (BitVec.ofNat (8 * 8) (natOfLE bs)))
  have hnsp := Ev.add (ev_sp ha1) (ev_eight (σ := _))
  have e2 := exec_assign (X86Lift.scalar "rsp" 64) hnsp
  have ha2 := abs_set_rsp ha1 (st.gpr 4 + 8#64)
  have ht2 : (State.set (σ.set (ltemp addr 64).name (ofBV (BitVec.ofNat (8 * 8) (natOfLE bs)))) "rsp" (ofBV (st.gpr 4 + 8#64))).get
      (ltemp addr 64).name = some (ofBV (BitVec.ofNat 64 (natOfLE bs))) := by
    have hne : (ltemp addr 64).name ≠ "rsp" := by
      have := ltemp_ne_rName (i := 4) (by decide) addr 64
      have h4 : rName 4 = "rsp" := by decide
      rwa [h4] at this
    rw [get_set_ne _ _ hne]; exact ht1
  have e3 := exec_assign (X86Lift.scalar (rName i) 64)
    (ev_setE (r := ⟨i, 64, 0⟩) ha2 (Shape.r64 i) hi (Ev.scalar (s := ltemp addr 64) ht2))
  have ha3 := abs_setReg (r := ⟨i, 64, 0⟩) ha2 hi ((BitVec.ofNat 64 (natOfLE bs)).setWidth 64)
  refine ⟨[.load (ltemp addr 64) spE, .assign (X86Lift.scalar "rsp" 64) (.bin .add spE (Expr.ec 8 64)),
      .assign (X86Lift.scalar (rName i) 64) (setE ⟨i, 64, 0⟩ (.scalar (ltemp addr 64)))],
    by simp [opsPop64, Expr.mkBin, spE, sc, Expr.bits, regSet, regSetExpr_eq (Shape.r64 i) (show (Expr.scalar (ltemp addr 64)).bits = 64 from rfl), bind, Res.bind, pure, Mode.bits],
    _, _, ?_, ?_, ha3, by simp⟩
  · rw [runBTR_straight _ _ _ _ (by simp)]
    simp only [execOps, e1, e2]
    simp only [X86Lift.scalar] at e3 ⊢
    simp only [e3, ins1g]
  · rw [step_pop64 addr len i st haddr bs hmap]; simp [ins1g]

end C01
end Falcon
