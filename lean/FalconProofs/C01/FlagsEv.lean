/-
  FalconProofs.C01.FlagsEv — the flag expressions of the lifter's helpers, written out, with their evaluation
  (`Ev`: symbolize + eval, i.e. what `State::symbolize_and_eval` computes) to the SDM's flag values.
-/
import FalconProofs.C01.Abs
import FalconProofs.C01.Flags

namespace Falcon
namespace C01
open Const X86 X86Lift

def zfE (res : Expr) (w : Nat) : Expr := .bin .cmpeq res (Expr.ec 0 w)
def sfE (res : Expr) (w : Nat) : Expr := .ext .trun 1 (.bin .shr res (Expr.ec (w - 1) w))
def ofE (res lhs rhs : Expr) (sub : Bool) (w : Nat) : Expr :=
  let e0 : Expr := if sub then .bin .xor lhs rhs else .bin .xor (.bin .xor lhs rhs) (Expr.ec 0xffffffffffffffff w)
  .ext .trun 1 (.bin .shr (.bin .and e0 (.bin .xor lhs res)) (Expr.ec (w - 1) w))
def cfSubE (res lhs : Expr) : Expr := .bin .cmpltu lhs res
def cfAddE (res lhs : Expr) : Expr := .bin .cmpltu res lhs

theorem zfExpr_eq {res : Expr} {w : Nat} (h : res.bits = w) : zfExpr res = .ok (zfE res w) := by
  subst h; simp [zfExpr, zfE, Expr.mkBin]

theorem sfExpr_eq {res : Expr} {w : Nat} (h : res.bits = w) (hw : 2 ≤ w) : sfExpr res = .ok (sfE res w) := by
  subst h; simp [sfExpr, sfE, Expr.mkBin, Expr.mkExt, Expr.bits, BinOp.isCmp]; omega

theorem ofExpr_eq {res lhs rhs : Expr} {w : Nat} (sub : Bool) (h1 : res.bits = w) (h2 : lhs.bits = w) (h3 : rhs.bits = w)
    (hw : 2 ≤ w) : ofExpr res lhs rhs sub = .ok (ofE res lhs rhs sub w) := by
  subst h2
  cases sub <;> simp [ofExpr, ofE, Expr.mkBin, Expr.mkExt, Expr.bits, BinOp.isCmp, h1, h3, bind, Res.bind] <;> omega

theorem cfSubExpr_eq {res lhs : Expr} (h : lhs.bits = res.bits) : cfSubExpr res lhs = .ok (cfSubE res lhs) := by
  simp [cfSubExpr, cfSubE, Expr.mkBin, h]

theorem cfAddExpr_eq {res lhs : Expr} (h : lhs.bits = res.bits) : cfAddExpr res lhs = .ok (cfAddE res lhs) := by
  simp [cfAddExpr, cfAddE, Expr.mkBin, h]

theorem trunc1 {w : Nat} (x : BitVec w) : x.truncate 1 = BitVec.ofBool (x.getLsbD 0) := by
  apply BitVec.eq_of_getLsbD_eq
  intro i hi
  have : i = 0 := by omega
  subst this
  cases h : x.getLsbD 0 <;> simp [BitVec.truncate, h]

theorem toNat_pred' {w : Nat} (hw : OpWidth w) : (BitVec.ofNat w ((w - 1) % 2 ^ 64)).toNat = w - 1 := by
  rcases hw with rfl | rfl | rfl | rfl <;> decide

theorem ones_eq {w : Nat} (hw : OpWidth w) : BitVec.ofNat w (0xffffffffffffffff % 2 ^ 64) = BitVec.allOnes w := by
  rcases hw with rfl | rfl | rfl | rfl <;> decide

theorem ev_zfE {σ : State} {res : Expr} {w : Nat} {r : BitVec w} (h : Ev σ res w r) :
    Ev σ (zfE res w) 1 (BitVec.ofBool (r == 0)) := by
  have h0 : Ev σ (Expr.ec 0 w) w (0 : BitVec w) := by simpa using (Ev.ec (σ := σ) 0 w)
  exact Ev.cmpeq h h0

theorem ev_sfE {σ : State} {res : Expr} {w : Nat} (hw : OpWidth w) {r : BitVec w} (h : Ev σ res w r) :
    Ev σ (sfE res w) 1 (BitVec.ofBool (msb r)) := by
  have h2 : 2 ≤ w ∧ w < 2 ^ 64 := by rcases hw with rfl | rfl | rfl | rfl <;> omega
  have hs := Ev.shr h2.2 h (Ev.ec (σ := σ) (w - 1) w)
  refine (Ev.trun 1 (by decide) (by omega) hs).cast ?_
  rw [trunc1, toNat_pred' hw, ← sf_eq hw r]; rfl

theorem ev_ofE {σ : State} {res lhs rhs : Expr} {w : Nat} (hw : OpWidth w) (sub : Bool) {r a b : BitVec w}
    (hr : Ev σ res w r) (ha : Ev σ lhs w a) (hb : Ev σ rhs w b) :
    Ev σ (ofE res lhs rhs sub w) 1 (BitVec.ofBool (fOf r a b sub)) := by
  have h2 : 2 ≤ w ∧ w < 2 ^ 64 := by rcases hw with rfl | rfl | rfl | rfl <;> omega
  have h0 : Ev σ (if sub then Expr.bin .xor lhs rhs else .bin .xor (.bin .xor lhs rhs) (Expr.ec 0xffffffffffffffff w)) w
      (if sub then a ^^^ b else (a ^^^ b) ^^^ BitVec.allOnes w) := by
    cases sub
    · have hc := Ev.ec (σ := σ) 0xffffffffffffffff w
      rw [ones_eq hw] at hc
      simpa using Ev.xor (Ev.xor ha hb) hc
    · simpa using Ev.xor ha hb
  have hs := Ev.shr h2.2 (Ev.and h0 (Ev.xor ha hr)) (Ev.ec (σ := σ) (w - 1) w)
  refine (Ev.trun 1 (by decide) (by omega) hs).cast ?_
  rw [trunc1, toNat_pred' hw]; rfl

theorem ev_cfSubE {σ : State} {res lhs : Expr} {w : Nat} {r a : BitVec w} (hr : Ev σ res w r) (ha : Ev σ lhs w a) :
    Ev σ (cfSubE res lhs) 1 (BitVec.ofBool (fCfSub r a)) := Ev.cmpltu ha hr

theorem ev_cfAddE {σ : State} {res lhs : Expr} {w : Nat} {r a : BitVec w} (hr : Ev σ res w r) (ha : Ev σ lhs w a) :
    Ev σ (cfAddE res lhs) 1 (BitVec.ofBool (fCfAdd r a)) := Ev.cmpltu hr ha

end C01
end Falcon
