/-
  FalconProofs.C11.Container — the container mirror keeps its four views consistent and refines
  the abstract graph (V, E).
-/
import FalconModel.Graph
import FalconProofs.C11.Reach

namespace Falcon.G
open Falcon.Reach

/-! ### association lists -/

theorem AMap.get_cons (a : Nat) (s : List Nat) (m : AMap) (k : Nat) :
    AMap.get ((a, s) :: m) k = if k = a then some s else AMap.get m k := by
  unfold AMap.get
  rw [List.lookup_cons]
  by_cases h : k = a
  · subst h; simp
  · simp [beq_eq_false_iff_ne.mpr h, h]

theorem AMap.get_del (m : AMap) (k x : Nat) :
    (m.del k).get x = if x = k then none else m.get x := by
  induction m with
  | nil => simp [AMap.del, AMap.get]
  | cons e m ih =>
    obtain ⟨a, s⟩ := e
    unfold AMap.del at *
    rw [List.filter_cons]
    by_cases hak : a = k
    · simp only [hak, ne_eq, not_true_eq_false, decide_false, Bool.false_eq_true, if_false]
      rw [ih, AMap.get_cons]
      by_cases hx : x = k <;> simp [hx]
    · simp only [ne_eq, hak, not_false_eq_true, decide_true, if_true]
      rw [AMap.get_cons, AMap.get_cons, ih]
      by_cases hx : x = k
      · subst hx
        have : x ≠ a := fun h => hak h.symm
        simp [this]
      · simp [hx]

theorem AMap.get_put (m : AMap) (k : Nat) (s : List Nat) (x : Nat) :
    (m.put k s).get x = if x = k then some s else m.get x := by
  unfold AMap.put
  rw [AMap.get_cons, AMap.get_del]
  by_cases hx : x = k <;> simp [hx]

theorem AMap.get_upd (m : AMap) (k : Nat) (f : List Nat → List Nat) (x : Nat) :
    (m.upd k f).get x = if x = k then (m.get x).map f else m.get x := by
  induction m with
  | nil => simp [AMap.upd, AMap.get]
  | cons e m ih =>
    obtain ⟨a, s⟩ := e
    unfold AMap.upd at *
    rw [List.map_cons]
    by_cases hak : a = k
    · simp only [hak, if_true]
      rw [AMap.get_cons, AMap.get_cons, ih]
      by_cases hx : x = k <;> simp [hx]
    · simp only [hak, if_false]
      rw [AMap.get_cons, AMap.get_cons, ih]
      by_cases hx : x = k
      · subst hx
        have : x ≠ a := fun h => hak h.symm
        simp [this]
      · simp [hx]

theorem mem_setIns (x y : Nat) (s : List Nat) : y ∈ setIns x s ↔ y = x ∨ y ∈ s := by
  unfold setIns
  split
  · rename_i h
    constructor
    · exact Or.inr
    · rintro (rfl | h')
      · exact h
      · exact h'
  · simp

theorem mem_setDel (x y : Nat) (s : List Nat) : y ∈ setDel x s ↔ y ∈ s ∧ y ≠ x := by
  simp [setDel]

theorem mem_dedupP (e : Nat × Nat) : ∀ l : List (Nat × Nat), e ∈ dedupP l ↔ e ∈ l
  | [] => by simp [dedupP]
  | x :: xs => by
    have ih := mem_dedupP e xs
    unfold dedupP
    split
    · rename_i hx
      rw [ih]
      constructor
      · exact List.mem_cons_of_mem _
      · intro h
        rcases List.mem_cons.mp h with rfl | h
        · exact hx
        · exact h
    · simp [ih]

theorem nodup_dedupP : ∀ l : List (Nat × Nat), (dedupP l).Nodup
  | [] => by simp [dedupP]
  | x :: xs => by
    have ih := nodup_dedupP xs
    unfold dedupP
    split
    · exact ih
    · rename_i hx
      rw [List.nodup_cons]
      exact ⟨fun h => hx ((mem_dedupP x xs).mp h), ih⟩

namespace Graph

theorem succOf_mem_isSome (g : Graph) {h t : Nat} (ht : t ∈ g.succOf h) : (g.succ.get h).isSome = true := by
  unfold succOf at ht
  cases hg : g.succ.get h with
  | none => simp [hg] at ht
  | some _ => rfl

theorem predOf_mem_isSome (g : Graph) {h t : Nat} (ht : h ∈ g.predOf t) : (g.pred.get t).isSome = true := by
  unfold predOf at ht
  cases hg : g.pred.get t with
  | none => simp [hg] at ht
  | some _ => rfl

theorem Core.edges_in {W : List Nat} {g : Graph} (c : Core W g) {h t : Nat} (he : (h, t) ∈ g.edges) :
    h ∈ W ∧ t ∈ W :=
  ⟨(c.succ_dom h).mpr (g.succOf_mem_isSome ((c.succ_eq h t).mpr he)),
   (c.pred_dom t).mpr (g.predOf_mem_isSome ((c.pred_eq h t).mpr he))⟩

/-- every edge of a consistent graph joins two of its vertices -/
theorem Consistent.edges_in {g : Graph} (c : Consistent g) {h t : Nat} (he : (h, t) ∈ g.edges) :
    h ∈ g.verts ∧ t ∈ g.verts := c.core.edges_in he

theorem consistent_empty : Consistent Graph.empty :=
  ⟨List.nodup_nil, ⟨List.nodup_nil, by simp [empty, AMap.get], by simp [empty, AMap.get],
    by simp [empty, succOf, AMap.get], by simp [empty, predOf, AMap.get]⟩⟩

/-! ### insert_vertex -/

theorem insertVertex_dup (g : Graph) (v : Nat) (hv : v ∈ g.verts) : g.insertVertex v = .err .dup := by
  simp [insertVertex, hv]

theorem insertVertex_ok (g : Graph) (v : Nat) (c : Consistent g) (hv : v ∉ g.verts) :
    ∃ g', g.insertVertex v = .ok g' ∧ Consistent g' ∧ g'.verts = v :: g.verts ∧ g'.edges = g.edges := by
  refine ⟨{ g with verts := v :: g.verts, succ := g.succ.put v [], pred := g.pred.put v [] },
    by simp [insertVertex, hv], ⟨?_, ?_⟩, rfl, rfl⟩
  · exact List.nodup_cons.mpr ⟨hv, c.vnodup⟩
  · have hs : (g.succ.get v) = none := by
      cases h : g.succ.get v with
      | none => rfl
      | some _ => exact absurd ((c.core.succ_dom v).mpr (by simp [h])) hv
    have hp : (g.pred.get v) = none := by
      cases h : g.pred.get v with
      | none => rfl
      | some _ => exact absurd ((c.core.pred_dom v).mpr (by simp [h])) hv
    refine ⟨c.core.enodup, ?_, ?_, ?_, ?_⟩
    · intro x
      show x ∈ v :: g.verts ↔ ((g.succ.put v []).get x).isSome = true
      rw [AMap.get_put]
      by_cases hx : x = v
      · simp [hx]
      · simp [hx, c.core.succ_dom x]
    · intro x
      show x ∈ v :: g.verts ↔ ((g.pred.put v []).get x).isSome = true
      rw [AMap.get_put]
      by_cases hx : x = v
      · simp [hx]
      · simp [hx, c.core.pred_dom x]
    · intro h t
      show t ∈ ((g.succ.put v []).get h).getD [] ↔ (h, t) ∈ g.edges
      rw [AMap.get_put]
      by_cases hx : h = v
      · subst hx
        simp only [if_true, Option.getD_some, List.not_mem_nil, false_iff]
        intro he
        exact hv (c.edges_in he).1
      · simp only [hx, if_false]
        exact c.core.succ_eq h t
    · intro h t
      show h ∈ ((g.pred.put v []).get t).getD [] ↔ (h, t) ∈ g.edges
      rw [AMap.get_put]
      by_cases hx : t = v
      · subst hx
        simp only [if_true, Option.getD_some, List.not_mem_nil, false_iff]
        intro he
        exact hv (c.edges_in he).2
      · simp only [hx, if_false]
        exact c.core.pred_eq h t

/-! ### insert_edge -/

theorem insertEdge_ok (g : Graph) (h t : Nat) (c : Consistent g) (he : (h, t) ∉ g.edges)
    (hh : h ∈ g.verts) (ht : t ∈ g.verts) :
    ∃ g', g.insertEdge h t = .ok g' ∧ Consistent g' ∧ g'.verts = g.verts ∧ g'.edges = (h, t) :: g.edges := by
  obtain ⟨sh, hsh⟩ := Option.isSome_iff_exists.mp ((c.core.succ_dom h).mp hh)
  obtain ⟨pt, hpt⟩ := Option.isSome_iff_exists.mp ((c.core.pred_dom t).mp ht)
  refine ⟨{ g with edges := (h, t) :: g.edges, succ := g.succ.upd h (setIns t), pred := g.pred.upd t (setIns h) },
    by simp [insertEdge, he, hh, ht, hsh, hpt], ⟨c.vnodup, ?_⟩, rfl, rfl⟩
  refine ⟨List.nodup_cons.mpr ⟨he, c.core.enodup⟩, ?_, ?_, ?_, ?_⟩
  · intro x
    show x ∈ g.verts ↔ ((g.succ.upd h (setIns t)).get x).isSome = true
    rw [AMap.get_upd]
    by_cases hx : x = h <;> simp [hx, c.core.succ_dom]
  · intro x
    show x ∈ g.verts ↔ ((g.pred.upd t (setIns h)).get x).isSome = true
    rw [AMap.get_upd]
    by_cases hx : x = t <;> simp [hx, c.core.pred_dom]
  · intro a b
    show b ∈ ((g.succ.upd h (setIns t)).get a).getD [] ↔ (a, b) ∈ (h, t) :: g.edges
    rw [AMap.get_upd, List.mem_cons]
    have hs := c.core.succ_eq a b
    unfold succOf at hs
    by_cases ha : a = h
    · subst ha
      simp only [if_true, hsh, Option.map_some, Option.getD_some, mem_setIns, Prod.mk.injEq, true_and]
      rw [hsh] at hs
      simp only [Option.getD_some] at hs
      rw [hs]
    · simp only [ha, if_false, Prod.mk.injEq, false_and, false_or]
      exact hs
  · intro a b
    show a ∈ ((g.pred.upd t (setIns h)).get b).getD [] ↔ (a, b) ∈ (h, t) :: g.edges
    rw [AMap.get_upd, List.mem_cons]
    have hs := c.core.pred_eq a b
    unfold predOf at hs
    by_cases hb : b = t
    · subst hb
      simp only [if_true, hpt, Option.map_some, Option.getD_some, mem_setIns, Prod.mk.injEq, and_true]
      rw [hpt] at hs
      simp only [Option.getD_some] at hs
      rw [hs]
    · simp only [hb, if_false, Prod.mk.injEq, and_false, false_or]
      exact hs

/-! ### remove_edge (on the core, so that remove_vertex can use it after deleting the vertex) -/

theorem removeEdge_ok (W : List Nat) (g : Graph) (h t : Nat) (c : Core W g) (he : (h, t) ∈ g.edges) :
    ∃ g', g.removeEdge h t = .ok g' ∧ Core W g' ∧ g'.verts = g.verts ∧
      (∀ e, e ∈ g'.edges ↔ e ∈ g.edges ∧ e ≠ (h, t)) := by
  obtain ⟨sh, hsh⟩ := Option.isSome_iff_exists.mp (g.succOf_mem_isSome ((c.succ_eq h t).mpr he))
  obtain ⟨pt, hpt⟩ := Option.isSome_iff_exists.mp (g.predOf_mem_isSome ((c.pred_eq h t).mpr he))
  refine ⟨{ g with edges := g.edges.filter (fun e => e ≠ (h, t)),
                   pred := g.pred.upd t (setDel h), succ := g.succ.upd h (setDel t) },
    by simp [removeEdge, he, hsh, hpt], ?_, rfl, ?_⟩
  · refine ⟨List.Nodup.sublist List.filter_sublist c.enodup, ?_, ?_, ?_, ?_⟩
    · intro x
      show x ∈ W ↔ ((g.succ.upd h (setDel t)).get x).isSome = true
      rw [AMap.get_upd]
      by_cases hx : x = h <;> simp [hx, c.succ_dom]
    · intro x
      show x ∈ W ↔ ((g.pred.upd t (setDel h)).get x).isSome = true
      rw [AMap.get_upd]
      by_cases hx : x = t <;> simp [hx, c.pred_dom]
    · intro a b
      show b ∈ ((g.succ.upd h (setDel t)).get a).getD [] ↔ (a, b) ∈ g.edges.filter (fun e => e ≠ (h, t))
      rw [AMap.get_upd, List.mem_filter]
      have hs := c.succ_eq a b
      unfold succOf at hs
      by_cases ha : a = h
      · subst ha
        rw [hsh] at hs
        simp only [Option.getD_some] at hs
        simp [hsh, mem_setDel, hs]
      · simp only [ha, if_false]
        rw [hs]
        simp [ha]
    · intro a b
      show a ∈ ((g.pred.upd t (setDel h)).get b).getD [] ↔ (a, b) ∈ g.edges.filter (fun e => e ≠ (h, t))
      rw [AMap.get_upd, List.mem_filter]
      have hs := c.pred_eq a b
      unfold predOf at hs
      by_cases hb : b = t
      · subst hb
        rw [hpt] at hs
        simp only [Option.getD_some] at hs
        simp [hpt, mem_setDel, hs]
      · simp only [hb, if_false]
        rw [hs]
        simp [hb]
  · intro e
    show e ∈ g.edges.filter (fun e => e ≠ (h, t)) ↔ _
    simp [List.mem_filter]

theorem removeEdge_enf (g : Graph) (h t : Nat) (he : (h, t) ∉ g.edges) : g.removeEdge h t = .err (.enf h t) := by
  simp [removeEdge, he]

theorem removeEdges_ok (W : List Nat) : ∀ (es : List (Nat × Nat)) (g : Graph), Core W g →
    (∀ e, e ∈ es → e ∈ g.edges) → es.Nodup →
    ∃ g', g.removeEdges es = .ok g' ∧ Core W g' ∧ g'.verts = g.verts ∧
      (∀ e, e ∈ g'.edges ↔ e ∈ g.edges ∧ e ∉ es)
  | [], g, c, _, _ => ⟨g, rfl, c, rfl, by simp⟩
  | (h, t) :: es, g, c, hsub, hnd => by
    obtain ⟨g1, h1, c1, v1, e1⟩ := removeEdge_ok W g h t c (hsub _ List.mem_cons_self)
    have hnd' := List.nodup_cons.mp hnd
    obtain ⟨g2, h2, c2, v2, e2⟩ := removeEdges_ok W es g1 c1
      (fun e he => (e1 e).mpr ⟨hsub e (List.mem_cons_of_mem _ he), fun heq => hnd'.1 (heq ▸ he)⟩) hnd'.2
    refine ⟨g2, by simp [removeEdges, h1, h2], c2, v2.trans v1, ?_⟩
    intro e
    rw [e2, e1, List.mem_cons]
    constructor
    · rintro ⟨⟨a, b⟩, c'⟩
      exact ⟨a, fun h' => h'.elim b c'⟩
    · rintro ⟨a, b⟩
      exact ⟨⟨a, fun h' => b (Or.inl h')⟩, fun h' => b (Or.inr h')⟩

/-! ### remove_vertex -/

theorem mem_incident {W : List Nat} (g : Graph) (c : Core W g) (v : Nat) (e : Nat × Nat) :
    e ∈ g.incident v ↔ e ∈ g.edges ∧ (e.1 = v ∨ e.2 = v) := by
  obtain ⟨a, b⟩ := e
  unfold incident
  rw [mem_dedupP, List.mem_append, List.mem_map, List.mem_map]
  constructor
  · rintro (⟨s, hs, heq⟩ | ⟨p, hp, heq⟩)
    · cases heq
      exact ⟨(c.succ_eq _ _).mp hs, Or.inl rfl⟩
    · cases heq
      exact ⟨(c.pred_eq _ _).mp hp, Or.inr rfl⟩
  · rintro ⟨he, h | h⟩
    · simp only at h; subst h
      exact Or.inl ⟨b, (c.succ_eq _ _).mpr he, rfl⟩
    · simp only at h; subst h
      exact Or.inr ⟨a, (c.pred_eq _ _).mpr he, rfl⟩

theorem removeVertex_vnf (g : Graph) (v : Nat) (hv : v ∉ g.verts) : g.removeVertex v = .err (.vnf v) := by
  simp [removeVertex, hv]

theorem removeVertex_ok (g : Graph) (v : Nat) (c : Consistent g) (hv : v ∈ g.verts) :
    ∃ g', g.removeVertex v = .ok g' ∧ Consistent g' ∧ g'.verts = g.verts.filter (fun x => x ≠ v) ∧
      (∀ e, e ∈ g'.edges ↔ e ∈ g.edges ∧ e.1 ≠ v ∧ e.2 ≠ v) := by
  let g1 : Graph := { g with verts := g.verts.filter (fun x => x ≠ v) }
  have c1 : Core g.verts g1 := ⟨c.core.enodup, c.core.succ_dom, c.core.pred_dom, c.core.succ_eq, c.core.pred_eq⟩
  obtain ⟨g2, h2, c2, v2, e2⟩ := removeEdges_ok g.verts (g.incident v) g1 c1
    (fun e he => ((mem_incident g c.core v e).mp he).1) (nodup_dedupP _)
  have hE : ∀ e, e ∈ g2.edges ↔ e ∈ g.edges ∧ e.1 ≠ v ∧ e.2 ≠ v := by
    intro e
    rw [e2, mem_incident g c.core v e]
    show e ∈ g.edges ∧ _ ↔ _
    constructor
    · rintro ⟨a, b⟩
      exact ⟨a, fun h => b ⟨a, Or.inl h⟩, fun h => b ⟨a, Or.inr h⟩⟩
    · rintro ⟨a, b, c'⟩
      exact ⟨a, fun h => h.2.elim b c'⟩
  refine ⟨{ g2 with pred := g2.pred.del v, succ := g2.succ.del v }, ?_, ⟨?_, ?_⟩, ?_, hE⟩
  · simp only [removeVertex, hv, not_true_eq_false, if_false]
    show (match g1.removeEdges (g.incident v) with | .ok g2 => _ | .err e => _ | .panic => _) = _
    rw [h2]
  · show (g2.verts).Nodup
    rw [v2]
    exact List.Nodup.sublist List.filter_sublist c.vnodup
  · show Core g2.verts { g2 with pred := g2.pred.del v, succ := g2.succ.del v }
    rw [v2]
    refine ⟨c2.enodup, ?_, ?_, ?_, ?_⟩
    · intro x
      show x ∈ g.verts.filter (fun x => x ≠ v) ↔ ((g2.succ.del v).get x).isSome = true
      rw [AMap.get_del, List.mem_filter]
      by_cases hx : x = v <;> simp [hx, c2.succ_dom]
    · intro x
      show x ∈ g.verts.filter (fun x => x ≠ v) ↔ ((g2.pred.del v).get x).isSome = true
      rw [AMap.get_del, List.mem_filter]
      by_cases hx : x = v <;> simp [hx, c2.pred_dom]
    · intro a b
      show b ∈ ((g2.succ.del v).get a).getD [] ↔ (a, b) ∈ g2.edges
      rw [AMap.get_del]
      by_cases ha : a = v
      · subst ha
        simp only [if_true, Option.getD_none, List.not_mem_nil, false_iff]
        intro he
        exact ((hE _).mp he).2.1 rfl
      · simp only [ha, if_false]
        exact c2.succ_eq a b
    · intro a b
      show a ∈ ((g2.pred.del v).get b).getD [] ↔ (a, b) ∈ g2.edges
      rw [AMap.get_del]
      by_cases hb : b = v
      · subst hb
        simp only [if_true, Option.getD_none, List.not_mem_nil, false_iff]
        intro he
        exact ((hE _).mp he).2.2 rfl
      · simp only [hb, if_false]
        exact c2.pred_eq a b
  · exact v2

end Graph
end Falcon.G
