/-
  FalconProofs.C11.Orders — soundness of the checkers for the order-valued functions (outputs that are
  not unique): topological order, depth-first pre- and post-order, and the `compute_acyclic` contract.
-/
import FalconProofs.C11.Loops

namespace Falcon.GA
open Falcon.Reach

theorem sameSet_iff (xs ys : List Nat) : sameSet xs ys = true ↔ ∀ v, v ∈ xs ↔ v ∈ ys := by
  simp only [sameSet, Bool.and_eq_true, List.all_eq_true, decide_eq_true_eq]
  exact ⟨fun ⟨a, b⟩ v => ⟨a v, b v⟩, fun h => ⟨fun v => (h v).mp, fun v => (h v).mpr⟩⟩

/-! ### topological order -/

/-- textbook: a topological order of (V, E) lists every vertex exactly once and every edge goes forward -/
def IsTopo (V : List Nat) (E : EL) (xs : List Nat) : Prop :=
  xs.Nodup ∧ (∀ v, v ∈ xs ↔ v ∈ V) ∧ ∀ h t, (h, t) ∈ E → xs.idxOf h < xs.idxOf t

theorem isTopo_sound (V : List Nat) (E : EL) (xs : List Nat) : isTopo V E xs = true ↔ IsTopo V E xs := by
  simp only [isTopo, IsTopo, Bool.and_eq_true, List.all_eq_true, decide_eq_true_eq]
  constructor
  · rintro ⟨⟨⟨a, b⟩, c⟩, d⟩
    exact ⟨a, fun v => ⟨c v, b v⟩, fun h t he => d (h, t) he⟩
  · rintro ⟨a, b, c⟩
    exact ⟨⟨⟨a, fun v => (b v).mpr⟩, fun v => (b v).mp⟩, fun e he => c e.1 e.2 he⟩

theorem topo_path_le {V : List Nat} {E : EL} {xs : List Nat} (ht : IsTopo V E xs) {s v : Nat}
    (hp : Path (succE E) s v) : xs.idxOf s ≤ xs.idxOf v := by
  induction hp with
  | refl _ => exact Nat.le_refl _
  | head e _ ih => exact Nat.le_of_lt (Nat.lt_of_lt_of_le (ht.2.2 _ _ ((mem_succE E _ _).mp e)) ih)

/-- a graph that has a topological order has no cycle … -/
theorem topo_acyclic {V : List Nat} {E : EL} {xs : List Nat} (ht : IsTopo V E xs) :
    ¬ ∃ v, PathPlus (succE E) v v := by
  rintro ⟨v, s, hs, hp⟩
  have h1 := ht.2.2 v s ((mem_succE E v s).mp hs)
  have h2 := topo_path_le ht hp
  omega

/-- … so answering "error" is right exactly when `hasCycle` says so: no order exists then -/
theorem cycle_excludes_topo (V : List Nat) (E : EL) (h : hasCycle V E = true) (xs : List Nat) :
    isTopo V E xs = false := by
  cases hx : isTopo V E xs with
  | false => rfl
  | true => exact absurd ((hasCycle_spec V E).mp h) (topo_acyclic ((isTopo_sound V E xs).mp hx))

/-! ### depth-first search -/

/-- state of a depth-first search: stack of open vertices, discovered set, discovery order, finishing order -/
structure DState where
  stk : List Nat
  vis : List Nat
  pre : List Nat
  post : List Nat

/-- textbook non-deterministic depth-first search: from the open vertex on top of the stack either
    discover an undiscovered successor, or finish it once all its successors are discovered -/
inductive DStep (succ : Nat → List Nat) : DState → DState → Prop where
  | visit (u x : Nat) (stk vis pre post : List Nat) : x ∈ succ u → x ∉ vis →
      DStep succ ⟨u :: stk, vis, pre, post⟩ ⟨x :: u :: stk, x :: vis, pre ++ [x], post⟩
  | finish (u : Nat) (stk vis pre post : List Nat) : (∀ s, s ∈ succ u → s ∈ vis) →
      DStep succ ⟨u :: stk, vis, pre, post⟩ ⟨stk, vis, pre, post ++ [u]⟩

inductive DRun (succ : Nat → List Nat) : DState → DState → Prop where
  | refl (s : DState) : DRun succ s s
  | step {a b c : DState} : DStep succ a b → DRun succ b c → DRun succ a c

theorem DRun.trans {succ : Nat → List Nat} {a b c : DState} (h₁ : DRun succ a b) (h₂ : DRun succ b c) :
    DRun succ a c := by
  induction h₁ with
  | refl _ => exact h₂
  | step s _ ih => exact DRun.step s (ih h₂)

/-- `pre`/`post` are the discovery/finishing orders of a complete depth-first search from `r` -/
def IsDfs (succ : Nat → List Nat) (r : Nat) (pre post : List Nat) : Prop :=
  ∃ vis, DRun succ ⟨[r], [r], [r], []⟩ ⟨[], vis, pre, post⟩

theorem popUntil_sound (succ : Nat → List Nat) (x : Nat) (vis : List Nat) :
    ∀ (stk post stk' post' : List Nat), popUntil succ x vis stk post = some (stk', post') →
    (∀ pre, DRun succ ⟨stk, vis, pre, post⟩ ⟨stk', vis, pre, post'⟩) ∧ ∃ u rest, stk' = u :: rest ∧ x ∈ succ u
  | [], post, stk', post', h => by simp [popUntil] at h
  | u :: stk, post, stk', post', h => by
    unfold popUntil at h
    split at h
    · rename_i hx
      simp only [Option.some.injEq, Prod.mk.injEq] at h
      obtain ⟨rfl, rfl⟩ := h
      exact ⟨fun pre => DRun.refl _, u, stk, rfl, hx⟩
    · split at h
      · rename_i hfin
        obtain ⟨h1, h2⟩ := popUntil_sound succ x vis stk (post ++ [u]) stk' post' h
        refine ⟨fun pre => DRun.step (DStep.finish u stk vis pre post ?_) (h1 pre), h2⟩
        simpa [List.all_eq_true] using hfin
      · simp at h

theorem popAll_sound (succ : Nat → List Nat) (vis : List Nat) :
    ∀ (stk post post' : List Nat), popAll succ vis stk post = some post' →
    ∀ pre, DRun succ ⟨stk, vis, pre, post⟩ ⟨[], vis, pre, post'⟩
  | [], post, post', h => by
    simp only [popAll, Option.some.injEq] at h
    subst h
    exact fun pre => DRun.refl _
  | u :: stk, post, post', h => by
    unfold popAll at h
    split at h
    · rename_i hfin
      intro pre
      refine DRun.step (DStep.finish u stk vis pre post ?_) (popAll_sound succ vis stk (post ++ [u]) post' h pre)
      simpa [List.all_eq_true] using hfin
    · simp at h

theorem dfsGo_sound (succ : Nat → List Nat) :
    ∀ (xs stk vis post post' : List Nat), dfsGo succ xs stk vis post = some post' →
    ∀ pre, ∃ vis', DRun succ ⟨stk, vis, pre, post⟩ ⟨[], vis', pre ++ xs, post'⟩
  | [], stk, vis, post, post', h => by
    intro pre
    simp only [dfsGo] at h
    exact ⟨vis, by simpa using popAll_sound succ vis stk post post' h pre⟩
  | x :: rest, stk, vis, post, post', h => by
    intro pre
    unfold dfsGo at h
    split at h
    · simp at h
    · rename_i hx
      split at h
      · simp at h
      · rename_i stk1 post1 hpop
        obtain ⟨h1, u, tl, rfl, hxu⟩ := popUntil_sound succ x vis stk post stk1 post1 hpop
        obtain ⟨vis', h2⟩ := dfsGo_sound succ rest (x :: u :: tl) (x :: vis) post1 post' h (pre ++ [x])
        refine ⟨vis', (h1 pre).trans (DRun.step (DStep.visit u x tl vis pre post1 hxu hx) ?_)⟩
        simpa using h2

theorem dfsReplay_sound (succ : Nat → List Nat) (r : Nat) (pre post : List Nat)
    (h : dfsReplay succ r pre = some post) : IsDfs succ r pre post := by
  cases pre with
  | nil => simp [dfsReplay] at h
  | cons x rest =>
    simp only [dfsReplay] at h
    by_cases hx : x = r
    · subst hx
      simp only [if_true] at h
      obtain ⟨vis', h'⟩ := dfsGo_sound succ rest [x] [x] [] post h [x]
      exact ⟨vis', by simpa using h'⟩
    · simp [hx] at h

/-- **isPreorder_sound**: an accepted list is the discovery order of a complete depth-first search from
    the root, without repetition, and lists exactly the vertices reachable from the root -/
theorem isPreorder_sound (V : List Nat) (E : EL) (r : Nat) (pre : List Nat) (h : isPreorder V E r pre = true) :
    (∃ post, IsDfs (succE E) r pre post) ∧ pre.Nodup ∧ ∀ v, v ∈ pre ↔ Path (succE E) r v := by
  simp only [isPreorder, Bool.and_eq_true, decide_eq_true_eq, sameSet_iff, reachE_spec] at h
  obtain ⟨⟨h1, h2⟩, h3⟩ := h
  obtain ⟨post, hp⟩ := Option.isSome_iff_exists.mp h1
  exact ⟨⟨post, dfsReplay_sound _ r pre post hp⟩, h2, h3⟩

theorem isPostorderWith_sound (V : List Nat) (E : EL) (r : Nat) (pre post : List Nat)
    (h : isPostorderWith V E r pre post = true) :
    IsDfs (succE E) r pre post ∧ post.Nodup ∧ ∀ v, v ∈ post ↔ Path (succE E) r v := by
  simp only [isPostorderWith, Bool.and_eq_true, decide_eq_true_eq, sameSet_iff, reachE_spec, beq_iff_eq] at h
  obtain ⟨⟨h1, h2⟩, h3⟩ := h
  exact ⟨dfsReplay_sound _ r pre post h1, h2, h3⟩

/-- **isPostorder_sound**: an accepted list is the finishing order of a complete depth-first search from
    the root, without repetition, and lists exactly the vertices reachable from the root -/
theorem isPostorder_sound (V : List Nat) (E : EL) (r : Nat) (post : List Nat) (h : isPostorder V E r post = true) :
    (∃ pre, IsDfs (succE E) r pre post) ∧ post.Nodup ∧ ∀ v, v ∈ post ↔ Path (succE E) r v := by
  unfold isPostorder at h
  rw [List.any_eq_true] at h
  obtain ⟨pre, _, hp⟩ := h
  obtain ⟨h1, h2, h3⟩ := isPostorderWith_sound V E r pre post hp
  exact ⟨⟨pre, h1⟩, h2, h3⟩

/-! ### compute_acyclic -/

/-- **checkAcyclicGraph_sound**: an accepted result has the same vertices, a duplicate-free subset of the
    edges, no cycle at all, and the same set of vertices reachable from the root -/
theorem checkAcyclicGraph_sound (V : List Nat) (E : EL) (r : Nat) (V' : List Nat) (E' : EL)
    (h : checkAcyclicGraph V E r V' E' = true) :
    (∀ v, v ∈ V' ↔ v ∈ V) ∧ E'.Nodup ∧ (∀ e, e ∈ E' → e ∈ E) ∧ (¬ ∃ v, PathPlus (succE E') v v) ∧
      ∀ v, Path (succE E') r v ↔ Path (succE E) r v := by
  simp only [checkAcyclicGraph, Bool.and_eq_true, decide_eq_true_eq, sameSet_iff, List.all_eq_true,
    Bool.not_eq_true', reachE_spec] at h
  obtain ⟨⟨⟨⟨h1, h2⟩, h3⟩, h4⟩, h5⟩ := h
  refine ⟨h1, h2, h3, ?_, h5⟩
  intro hc
  have := (hasCycle_spec V E').mpr hc
  rw [h4] at this
  exact Bool.noConfusion this

end Falcon.GA
