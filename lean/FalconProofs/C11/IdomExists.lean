/-
  FalconProofs.C11.IdomExists — every reachable vertex other than the root has an immediate dominator
  (the dominators of a vertex form a chain), so the dominator tree spans the reachable part.
-/
import FalconProofs.C11.Dom

namespace Falcon.GA
open Falcon.Reach

/-- the part of a walk after the last visit of `a` or `b` -/
theorem walk_last_of_two {succ : Nat → List Nat} {u v : Nat} {p : List Nat} (h : Walk succ u v p) (a b : Nat)
    (hab : a ∈ p ∨ b ∈ p) :
    ∃ x q, (x = a ∨ x = b) ∧ Walk succ x v (x :: q) ∧ a ∉ q ∧ b ∉ q := by
  induction h with
  | single u =>
    refine ⟨u, [], ?_, Walk.single u, by simp, by simp⟩
    rcases hab with h | h
    · exact Or.inl (List.mem_singleton.mp h).symm
    · exact Or.inr (List.mem_singleton.mp h).symm
  | @cons u w v p e hw ih =>
    by_cases hin : a ∈ p ∨ b ∈ p
    · exact ih hin
    · have hna : a ∉ p := fun h => hin (Or.inl h)
      have hnb : b ∉ p := fun h => hin (Or.inr h)
      refine ⟨u, p, ?_, Walk.cons e hw, hna, hnb⟩
      rcases hab with h | h
      · rcases List.mem_cons.mp h with h | h
        · exact Or.inl h.symm
        · exact absurd h hna
      · rcases List.mem_cons.mp h with h | h
        · exact Or.inr h.symm
        · exact absurd h hnb

/-- two dominators of the same vertex are comparable -/
theorem dom_chain {E : EL} {r a b v : Nat} (ha : Dom E r a v) (hb : Dom E r b v) :
    Dom E r a b ∨ Dom E r b a := by
  apply Classical.byContradiction
  intro hn
  have hnab : ¬ Dom E r a b := fun h => hn (Or.inl h)
  have hnba : ¬ Dom E r b a := fun h => hn (Or.inr h)
  -- a walk to b avoiding a, a walk to a avoiding b
  have hqb : ∃ q, Walk (succE E) r b q ∧ a ∉ q := by
    apply Classical.byContradiction
    intro h
    exact hnab ⟨hb.reach_left, fun p hp => Classical.byContradiction fun hd => h ⟨p, hp, hd⟩⟩
  have hqa : ∃ q, Walk (succE E) r a q ∧ b ∉ q := by
    apply Classical.byContradiction
    intro h
    exact hnba ⟨ha.reach_left, fun p hp => Classical.byContradiction fun hd => h ⟨p, hp, hd⟩⟩
  obtain ⟨qb, hqb, haqb⟩ := hqb
  obtain ⟨qa, hqa, hbqa⟩ := hqa
  obtain ⟨w, hw⟩ := ha.1.walk
  obtain ⟨x, q, hx, hxw, haq, hbq⟩ := walk_last_of_two hw a b (Or.inl (ha.2 w hw))
  rcases hx with rfl | rfl
  · -- last visit is `a`: reach `a` avoiding `b`, then continue to `v` avoiding `b`
    obtain ⟨l, hl, hm⟩ := hqa.append hxw
    have := (hm b).mp (hb.2 l hl)
    exact this.elim hbqa hbq
  · obtain ⟨l, hl, hm⟩ := hqb.append hxw
    have := (hm a).mp (ha.2 l hl)
    exact this.elim haqb haq

/-- a non-empty finite chain has an element that all others dominate -/
theorem chain_max {E : EL} {r : Nat} : ∀ (S : List Nat), S ≠ [] →
    (∀ a, a ∈ S → Dom E r a a) → (∀ a b, a ∈ S → b ∈ S → Dom E r a b ∨ Dom E r b a) →
    ∃ d, d ∈ S ∧ ∀ e, e ∈ S → Dom E r e d
  | [], h, _, _ => absurd rfl h
  | [x], _, hr, _ => ⟨x, List.mem_cons_self, fun e he => by
      have : e = x := by simpa using he
      exact this ▸ hr x List.mem_cons_self⟩
  | x :: y :: ys, _, hr, ht => by
    obtain ⟨d, hd, hmax⟩ := chain_max (y :: ys) (by simp)
      (fun a ha => hr a (List.mem_cons_of_mem _ ha))
      (fun a b ha hb => ht a b (List.mem_cons_of_mem _ ha) (List.mem_cons_of_mem _ hb))
    rcases ht d x (List.mem_cons_of_mem _ hd) List.mem_cons_self with h | h
    · refine ⟨x, List.mem_cons_self, fun e he => ?_⟩
      rcases List.mem_cons.mp he with rfl | he
      · exact hr e List.mem_cons_self
      · exact dom_trans (hmax e he) h
    · refine ⟨d, List.mem_cons_of_mem _ hd, fun e he => ?_⟩
      rcases List.mem_cons.mp he with rfl | he
      · exact h
      · exact hmax e he

/-- **idom_exists**: every vertex reachable from the root, other than the root, has an immediate dominator -/
theorem idom_exists (V : List Nat) (E : EL) (r v : Nat) (hv : Path (succE E) r v) (hne : v ≠ r) :
    ∃ d, IsIdom E r d v := by
  let S := (reachE V E r).filter (fun d => sdomOf (dominates V E r) d v)
  have hmem : ∀ e, e ∈ S ↔ SDom E r e v := by
    intro e
    show e ∈ (reachE V E r).filter (fun d => sdomOf (dominates V E r) d v) ↔ _
    rw [List.mem_filter, sdomOf_spec, reachE_spec]
    exact ⟨fun h => h.2, fun h => ⟨h.2.reach_left, h⟩⟩
  have hr : r ∈ S := (hmem r).mpr ⟨Ne.symm hne, dom_root hv⟩
  obtain ⟨d, hd, hmax⟩ := chain_max (E := E) (r := r) S (List.ne_nil_of_mem hr)
    (fun a ha => dom_refl ((hmem a).mp ha).2.reach_left)
    (fun a b ha hb => dom_chain ((hmem a).mp ha).2 ((hmem b).mp hb).2)
  exact ⟨d, (hmem d).mp hd, fun e he => hmax e ((hmem e).mpr he)⟩

end Falcon.GA
