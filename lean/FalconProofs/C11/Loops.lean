/-
  FalconProofs.C11.Loops — back edges, natural loops, loop nesting, acyclicity, reducibility,
  transitive predecessors: the definitional models are the textbook sets.
-/
import FalconProofs.C11.Dom

namespace Falcon.GA
open Falcon.Reach

/-- textbook: `(t, h)` is a back edge iff it is an edge whose target dominates its source -/
def BackEdge (E : EL) (r t h : Nat) : Prop := (t, h) ∈ E ∧ Dom E r h t

/-- textbook: the natural loop of header `h` — `h` itself and every (reachable) vertex from which a
    back-edge source of `h` can be reached without passing through `h` -/
def InLoop (E : EL) (r h v : Nat) : Prop :=
  v = h ∨ (Path (succE E) r v ∧ v ≠ h ∧ ∃ t, BackEdge E r t h ∧ ∃ p, Walk (succE E) v t p ∧ h ∉ p)

theorem backEdges_spec (V : List Nat) (E : EL) (r t h : Nat) : (t, h) ∈ backEdges V E r ↔ BackEdge E r t h := by
  unfold backEdges backEdgesOf BackEdge
  rw [List.mem_filter, dominates_spec]

theorem mem_dedup (x : Nat) : ∀ l : List Nat, x ∈ dedup l ↔ x ∈ l
  | [] => by simp [dedup]
  | y :: ys => by
    have ih := mem_dedup x ys
    unfold dedup
    split
    · rename_i hy
      rw [ih]
      constructor
      · exact List.mem_cons_of_mem _
      · intro h
        rcases List.mem_cons.mp h with rfl | h
        · exact hy
        · exact h
    · simp [ih]

theorem nodup_dedup : ∀ l : List Nat, (dedup l).Nodup
  | [] => by simp [dedup]
  | y :: ys => by
    have ih := nodup_dedup ys
    unfold dedup
    split
    · exact ih
    · rename_i hy
      exact List.nodup_cons.mpr ⟨fun h => hy ((mem_dedup y ys).mp h), ih⟩

/-- the loop headers are the targets of back edges -/
theorem headers_spec (V : List Nat) (E : EL) (r h : Nat) :
    h ∈ headersOf E (dominates V E r) ↔ ∃ t, BackEdge E r t h := by
  unfold headersOf
  rw [mem_dedup, List.mem_map]
  constructor
  · rintro ⟨⟨t, h'⟩, he, rfl⟩
    exact ⟨t, (backEdges_spec V E r t h').mp he⟩
  · rintro ⟨t, ht⟩
    exact ⟨(t, h), (backEdges_spec V E r t h).mpr ht, rfl⟩

/-- **loopNodes_spec**: the computed natural loop of `h` is the textbook natural loop -/
theorem loopNodes_spec (V : List Nat) (E : EL) (r h v : Nat) : v ∈ loopNodes V E r h ↔ InLoop E r h v := by
  unfold loopNodes loopNodesOf InLoop
  simp only [List.mem_cons, List.mem_filter, Bool.and_eq_true, decide_eq_true_eq, reachE_spec]
  have hcl := closed_rev_sub V (E := E) (E' := avoidE E h) (fun e he => ((mem_avoidE E h e).mp he).1)
  rw [reachL_spec (univE V E) hcl]
  constructor
  · rintro (h1 | ⟨h1, h2, t, ht, hp⟩)
    · exact Or.inl h1
    · right
      rw [List.mem_map] at ht
      obtain ⟨⟨t', h'⟩, he, rfl⟩ := ht
      have he' := List.mem_filter.mp he
      simp only [decide_eq_true_eq] at he'
      obtain ⟨he1, heq⟩ := he'
      rw [heq] at he1
      have hb := (backEdges_spec V E r t' h).mp he1
      have := (path_avoid_iff E h (u := v) (v := t')).mp ⟨h2, (path_rev _).mp hp⟩
      exact ⟨h1, h2, t', hb, this⟩
  · rintro (h1 | ⟨h1, h2, t, hb, hw⟩)
    · exact Or.inl h1
    · right
      refine ⟨h1, h2, t, ?_, (path_rev _).mpr ((path_avoid_iff E h).mpr hw).2⟩
      rw [List.mem_map]
      exact ⟨(t, h), List.mem_filter.mpr ⟨(backEdges_spec V E r t h).mpr hb, by simp⟩, rfl⟩

/-- **loops_spec**: one loop per back-edge target, with the textbook node set -/
theorem loops_spec (V : List Nat) (E : EL) (r h : Nat) (ns : List Nat) :
    (h, ns) ∈ loops V E r ↔ (∃ t, BackEdge E r t h) ∧ ns = loopNodes V E r h := by
  unfold loops loopsOf
  rw [List.mem_map]
  constructor
  · rintro ⟨h', hh, heq⟩
    have e1 : h' = h := (Prod.mk.inj heq).1
    have e2 := (Prod.mk.inj heq).2
    rw [e1] at hh e2
    exact ⟨(headers_spec V E r h).mp hh, e2.symm⟩
  · rintro ⟨hh, rfl⟩
    exact ⟨h, (headers_spec V E r h).mpr hh, rfl⟩

/-- **loopTree_spec**: loop `h₁` nests loop `h₂` iff they are different loops and `h₂` lies in the loop of `h₁` -/
theorem loopTree_spec (V : List Nat) (E : EL) (r h₁ h₂ : Nat) :
    (h₁, h₂) ∈ loopTree V E r ↔
      (∃ t, BackEdge E r t h₁) ∧ (∃ t, BackEdge E r t h₂) ∧ h₁ ≠ h₂ ∧ InLoop E r h₁ h₂ := by
  unfold loopTree loopTreeOf
  rw [List.mem_flatMap]
  constructor
  · rintro ⟨⟨a, na⟩, ha, hm⟩
    rw [List.mem_map] at hm
    obtain ⟨⟨b, nb⟩, hb, heq⟩ := hm
    simp only [Prod.mk.injEq] at heq
    obtain ⟨rfl, rfl⟩ := heq
    have hb' := List.mem_filter.mp hb
    simp only [Bool.and_eq_true, decide_eq_true_eq] at hb'
    obtain ⟨ha1, ha2⟩ := (loops_spec V E r a na).mp ha
    obtain ⟨hb1, _⟩ := (loops_spec V E r b nb).mp hb'.1
    subst ha2
    exact ⟨ha1, hb1, hb'.2.1, (loopNodes_spec V E r a b).mp hb'.2.2⟩
  · rintro ⟨ha, hb, hne, hin⟩
    refine ⟨(h₁, loopNodes V E r h₁), (loops_spec V E r h₁ _).mpr ⟨ha, rfl⟩, ?_⟩
    rw [List.mem_map]
    refine ⟨(h₂, loopNodes V E r h₂), List.mem_filter.mpr ⟨(loops_spec V E r h₂ _).mpr ⟨hb, rfl⟩, ?_⟩, rfl⟩
    simp only [Bool.and_eq_true, decide_eq_true_eq]
    exact ⟨hne, (loopNodes_spec V E r h₁ h₂).mpr hin⟩

/-! ### cycles -/

theorem acyclicOf_spec (V : List Nat) (E' : EL) (R : List Nat) :
    acyclicOf E' R (reachE V E') = true ↔ ¬ ∃ v, v ∈ R ∧ PathPlus (succE E') v v := by
  unfold acyclicOf PathPlus
  rw [List.all_eq_true]
  have hsp : ∀ s v, v ∈ reachE V E' s ↔ Path (succE E') s v := fun s v => by
    -- `reachE V E'` is sized by `univE V E'`, which contains every successor of `E'`
    exact reachE_spec V E' s v
  constructor
  · rintro h ⟨v, hv, s, hs', hp⟩
    have := h v hv
    rw [List.all_eq_true] at this
    have := this s hs'
    simp only [Bool.not_eq_true', decide_eq_false_iff_not] at this
    exact this ((hsp s v).mpr hp)
  · intro h v hv
    rw [List.all_eq_true]
    intro s hs'
    simp only [Bool.not_eq_true', decide_eq_false_iff_not]
    intro hm
    exact h ⟨v, hv, s, hs', (hsp s v).mp hm⟩

/-- **acyclic_spec**: `acyclic` holds iff no vertex reachable from the root lies on a cycle -/
theorem acyclic_spec (V : List Nat) (E : EL) (r : Nat) :
    acyclic V E r = true ↔ ¬ ∃ v, Path (succE E) r v ∧ PathPlus (succE E) v v := by
  unfold acyclic
  rw [acyclicOf_spec V E _]
  simp only [reachE_spec]

theorem mem_fwdEdges (V : List Nat) (E : EL) (r : Nat) (e : Nat × Nat) :
    e ∈ fwdEdges V E r ↔ e ∈ E ∧ ¬ BackEdge E r e.1 e.2 := by
  unfold fwdEdges BackEdge
  rw [List.mem_filter, Bool.not_eq_true', ← Bool.not_eq_true, dominates_spec]
  constructor
  · rintro ⟨h1, h2⟩; exact ⟨h1, fun h => h2 h.2⟩
  · rintro ⟨h1, h2⟩; exact ⟨h1, fun h => h2 ⟨h1, h⟩⟩

/-- **reducible_spec**: `reducible` holds iff the graph without its back edges has no cycle through a
    vertex reachable from the root (the forward edges form a DAG) -/
theorem reducible_spec (V : List Nat) (E : EL) (r : Nat) :
    reducible V E r = true ↔ ¬ ∃ v, Path (succE E) r v ∧ PathPlus (succE (fwdEdges V E r)) v v := by
  unfold reducible
  rw [acyclicOf_spec V (fwdEdges V E r) _]
  simp only [reachE_spec]

/-- **tpreds_spec**: the transitive predecessors of `v` are the vertices with a non-empty path to `v` -/
theorem tpreds_spec (V : List Nat) (E : EL) (v u : Nat) : u ∈ tpreds V E v ↔ PathPlus (succE E) u v := by
  unfold tpreds tpredsOf PathPlus
  rw [List.mem_filter, List.any_eq_true]
  simp only [decide_eq_true_eq, reachE_spec]
  constructor
  · rintro ⟨_, h⟩; exact h
  · rintro ⟨s, hs, hp⟩
    exact ⟨mem_univE_src ((mem_succE E u s).mp hs), s, hs, hp⟩

/-- **hasCycle_spec**: `hasCycle` iff some vertex lies on a cycle -/
theorem hasCycle_spec (V : List Nat) (E : EL) : hasCycle V E = true ↔ ∃ v, PathPlus (succE E) v v := by
  unfold hasCycle
  rw [Bool.not_eq_true', ← Bool.not_eq_true, acyclicOf_spec V E _, Classical.not_not]
  constructor
  · rintro ⟨v, _, h⟩; exact ⟨v, h⟩
  · rintro ⟨v, s, hs, hp⟩
    exact ⟨v, mem_univE_src ((mem_succE E v s).mp hs), s, hs, hp⟩

/-! ### the shared evaluation used by the driver computes the same things -/

theorem analyse_R (V : List Nat) (E : EL) (r : Nat) : (analyse V E r).R = reachE V E r := rfl

theorem analyse_dom (V : List Nat) (E : EL) (r : Nat) : (analyse V E r).dom = dominates V E r := by
  funext d v
  simp only [analyse, tabGet_mkTab, dominates]

theorem analyse_rs (V : List Nat) (E : EL) (r : Nat) : (analyse V E r).rs = reachE V E := by
  funext s
  simp only [analyse, tabGet_mkTab]

end Falcon.GA
