/-
  FalconProofs.C11.Edits — remove_unreachable_vertices, refinement of every editing operation to the
  abstract graph (V, E), and consistency after every finite edit history.
-/
import FalconProofs.C11.Container

namespace Falcon.G
open Falcon.Reach

theorem AMap.mem_of_get (m : AMap) (k : Nat) (l : List Nat) (h : m.get k = some l) : (k, l) ∈ m := by
  induction m with
  | nil => simp [AMap.get] at h
  | cons e m ih =>
    obtain ⟨a, s⟩ := e
    rw [AMap.get_cons] at h
    by_cases hk : k = a
    · simp only [hk, if_true, Option.some.injEq] at h
      subst hk; subst h
      exact List.mem_cons_self
    · simp only [hk, if_false] at h
      exact List.mem_cons_of_mem _ (ih h)

namespace Graph

theorem univ_closed (g : Graph) : ∀ u v, v ∈ g.succOf u → v ∈ g.univ := by
  intro u v hv
  unfold succOf at hv
  cases hg : g.succ.get u with
  | none => simp [hg] at hv
  | some l =>
    simp only [hg, Option.getD_some] at hv
    unfold univ
    refine List.mem_append.mpr (Or.inl (List.mem_append.mpr (Or.inr ?_)))
    exact List.mem_flatMap.mpr ⟨(u, l), AMap.mem_of_get _ _ _ hg, hv⟩

theorem Consistent.path_in_verts {g : Graph} (c : Consistent g) {r v : Nat} (hr : r ∈ g.verts)
    (hp : Path g.succOf r v) : v ∈ g.verts := by
  induction hp with
  | refl _ => exact hr
  | head e _ ih => exact ih (c.edges_in ((c.core.succ_eq _ _).mp e)).2

theorem reachableVertices_ok (g : Graph) (r : Nat) (c : Consistent g) (hr : r ∈ g.verts) :
    ∃ out, g.reachableVertices r = .ok out ∧ ∀ v, v ∈ out ↔ Path g.succOf r v := by
  have hspec := reach_spec (succ := g.succOf) g.univ g.univ_closed r
  refine ⟨reach g.succOf g.univ r, ?_, hspec⟩
  unfold reachableVertices
  simp only [hr, not_true_eq_false, if_false]
  have : (reach g.succOf g.univ r).all (fun v => (g.succ.get v).isSome) = true := by
    rw [List.all_eq_true]
    intro v hv
    exact (c.core.succ_dom v).mp (c.path_in_verts hr ((hspec v).mp hv))
  simp [this]

theorem reachableVertices_vnf (g : Graph) (r : Nat) (hr : r ∉ g.verts) :
    g.reachableVertices r = .err (.vnf r) := by
  simp [reachableVertices, hr]

theorem removeVertices_ok : ∀ (us : List Nat) (g : Graph), Consistent g → (∀ u, u ∈ us → u ∈ g.verts) → us.Nodup →
    ∃ g', g.removeVertices us = .ok g' ∧ Consistent g' ∧ (∀ x, x ∈ g'.verts ↔ x ∈ g.verts ∧ x ∉ us) ∧
      (∀ e, e ∈ g'.edges ↔ e ∈ g.edges ∧ e.1 ∉ us ∧ e.2 ∉ us)
  | [], g, c, _, _ => ⟨g, rfl, c, by simp, by simp⟩
  | u :: us, g, c, hsub, hnd => by
    obtain ⟨g1, h1, c1, v1, e1⟩ := removeVertex_ok g u c (hsub u List.mem_cons_self)
    have hnd' := List.nodup_cons.mp hnd
    have hsub1 : ∀ x, x ∈ us → x ∈ g1.verts := by
      intro x hx
      rw [v1, List.mem_filter]
      exact ⟨hsub x (List.mem_cons_of_mem _ hx), by simpa using fun (h : x = u) => hnd'.1 (h ▸ hx)⟩
    obtain ⟨g2, h2, c2, v2, e2⟩ := removeVertices_ok us g1 c1 hsub1 hnd'.2
    refine ⟨g2, by simp [removeVertices, h1, h2], c2, ?_, ?_⟩
    · intro x
      rw [v2, v1, List.mem_filter, List.mem_cons]
      simp only [ne_eq, decide_not, Bool.not_eq_eq_eq_not, Bool.not_true, decide_eq_false_iff_not, not_or]
      exact ⟨fun ⟨⟨a, b⟩, c'⟩ => ⟨a, b, c'⟩, fun ⟨a, b, c'⟩ => ⟨⟨a, b⟩, c'⟩⟩
    · intro e
      rw [e2, e1]
      simp only [List.mem_cons, not_or]
      exact ⟨fun ⟨⟨a, b, c'⟩, d, f⟩ => ⟨a, ⟨b, d⟩, c', f⟩, fun ⟨a, ⟨b, d⟩, c', f⟩ => ⟨⟨a, b, c'⟩, d, f⟩⟩

theorem removeUnreachable_ok (g : Graph) (r : Nat) (c : Consistent g) (hr : r ∈ g.verts) :
    ∃ g', g.removeUnreachable r = .ok g' ∧ Consistent g' ∧
      (∀ x, x ∈ g'.verts ↔ x ∈ g.verts ∧ Path g.succOf r x) ∧
      (∀ e, e ∈ g'.edges ↔ e ∈ g.edges ∧ Path g.succOf r e.1 ∧ Path g.succOf r e.2) := by
  obtain ⟨out, ho, hout⟩ := reachableVertices_ok g r c hr
  have hmem : ∀ x, x ∈ g.verts.filter (fun v => v ∉ out) ↔ x ∈ g.verts ∧ ¬ Path g.succOf r x := by
    intro x
    rw [List.mem_filter]
    simp [hout]
  obtain ⟨g', h', c', v', e'⟩ := removeVertices_ok (g.verts.filter (fun v => v ∉ out)) g c
    (fun u hu => (List.mem_filter.mp hu).1) (List.Nodup.sublist List.filter_sublist c.vnodup)
  refine ⟨g', ?_, c', ?_, ?_⟩
  · simp only [removeUnreachable, unreachableVertices, ho]
    exact h'
  · intro x
    rw [v', hmem]
    constructor
    · rintro ⟨a, b⟩
      exact ⟨a, Classical.byContradiction fun h => b ⟨a, h⟩⟩
    · rintro ⟨a, b⟩
      exact ⟨a, fun h => h.2 b⟩
  · intro e
    rw [e', hmem, hmem]
    constructor
    · rintro ⟨a, b, d⟩
      have := c.edges_in (h := e.1) (t := e.2) a
      exact ⟨a, Classical.byContradiction fun h => b ⟨this.1, h⟩,
        Classical.byContradiction fun h => d ⟨this.2, h⟩⟩
    · rintro ⟨a, b, d⟩
      exact ⟨a, fun h => h.2 b, fun h => h.2 d⟩

theorem removeUnreachable_vnf (g : Graph) (r : Nat) (hr : r ∉ g.verts) :
    g.removeUnreachable r = .err (.vnf r) := by
  simp [removeUnreachable, unreachableVertices, reachableVertices, hr]

end Graph

/-! ### refinement of the abstract graph -/

/-- the container `g` represents the abstract graph `s` (same vertex set, same edge set) -/
def Rep (g : Graph) (s : SGraph) : Prop := (∀ x, x ∈ g.verts ↔ x ∈ s.V) ∧ (∀ e, e ∈ g.edges ↔ e ∈ s.E)

theorem SGraph.mem_succOf (s : SGraph) (h t : Nat) : t ∈ s.succOf h ↔ (h, t) ∈ s.E := by
  unfold SGraph.succOf
  rw [List.mem_map]
  constructor
  · rintro ⟨⟨a, b⟩, he, rfl⟩
    have := List.mem_filter.mp he
    simp only [decide_eq_true_eq] at this
    exact this.2 ▸ this.1
  · intro he
    exact ⟨(h, t), List.mem_filter.mpr ⟨he, by simp⟩, rfl⟩

theorem SGraph.mem_predOf (s : SGraph) (h t : Nat) : h ∈ s.predOf t ↔ (h, t) ∈ s.E := by
  unfold SGraph.predOf
  rw [List.mem_map]
  constructor
  · rintro ⟨⟨a, b⟩, he, rfl⟩
    have := List.mem_filter.mp he
    simp only [decide_eq_true_eq] at this
    exact this.2 ▸ this.1
  · intro he
    exact ⟨(h, t), List.mem_filter.mpr ⟨he, by simp⟩, rfl⟩

theorem SGraph.univ_closed (s : SGraph) : ∀ u v, v ∈ s.succOf u → v ∈ s.univ := by
  intro u v hv
  have := (s.mem_succOf u v).mp hv
  unfold SGraph.univ
  exact List.mem_append.mpr (Or.inr (List.mem_map.mpr ⟨(u, v), this, rfl⟩))

theorem Rep.path_iff {g : Graph} {s : SGraph} (c : g.Consistent) (hr : Rep g s) (r v : Nat) :
    Path g.succOf r v ↔ Path s.succOf r v := by
  have h : ∀ a b, b ∈ g.succOf a ↔ b ∈ s.succOf a := fun a b => by
    rw [c.core.succ_eq, s.mem_succOf, hr.2]
  exact ⟨Path.mono fun a b => (h a b).mp, Path.mono fun a b => (h a b).mpr⟩

/-- **Every editing operation refines the abstract graph**: on a consistent container that represents
    `s`, the operation never panics, fails exactly when the abstract operation fails (its documented
    precondition) and with the same error, and otherwise yields a consistent container representing
    the abstract result. -/
theorem apply_refines (g : Graph) (s : SGraph) (c : g.Consistent) (hr : Rep g s) (op : Op) :
    (∃ g' s', op.apply g = .ok g' ∧ s.apply op = .ok s' ∧ g'.Consistent ∧ Rep g' s') ∨
    (∃ e, op.apply g = .err e ∧ s.apply op = .err e) := by
  cases op with
  | iv v =>
    by_cases hv : v ∈ g.verts
    · right
      exact ⟨.dup, Graph.insertVertex_dup g v hv, by simp [SGraph.apply, (hr.1 v).mp hv]⟩
    · left
      obtain ⟨g', h1, c', v', e'⟩ := Graph.insertVertex_ok g v c hv
      have hv' : v ∉ s.V := fun h => hv ((hr.1 v).mpr h)
      refine ⟨g', { s with V := v :: s.V }, h1, by simp [SGraph.apply, hv'], c', ?_, ?_⟩
      · intro x; rw [v']; simp [hr.1 x]
      · intro e; rw [e']; exact hr.2 e
  | ie h t =>
    show (∃ g' s', g.insertEdge h t = _ ∧ _) ∨ (∃ e, g.insertEdge h t = _ ∧ _)
    by_cases he : (h, t) ∈ g.edges
    · right
      exact ⟨.dup, by simp [Graph.insertEdge, he], by simp [SGraph.apply, (hr.2 _).mp he]⟩
    · have he' : (h, t) ∉ s.E := fun x => he ((hr.2 _).mpr x)
      by_cases hh : h ∈ g.verts
      · have hh' := (hr.1 h).mp hh
        by_cases ht : t ∈ g.verts
        · have ht' := (hr.1 t).mp ht
          left
          obtain ⟨g', h1, c', v', e'⟩ := Graph.insertEdge_ok g h t c he hh ht
          refine ⟨g', { s with E := (h, t) :: s.E }, h1, by simp [SGraph.apply, he', hh', ht'], c', ?_, ?_⟩
          · intro x; rw [v']; exact hr.1 x
          · intro e; rw [e']; simp [hr.2 e]
        · have ht' : t ∉ s.V := fun x => ht ((hr.1 t).mpr x)
          right
          exact ⟨.vnf t, by simp [Graph.insertEdge, he, hh, ht], by simp [SGraph.apply, he', hh', ht']⟩
      · have hh' : h ∉ s.V := fun x => hh ((hr.1 h).mpr x)
        right
        exact ⟨.vnf h, by simp [Graph.insertEdge, he, hh], by simp [SGraph.apply, he', hh']⟩
  | re h t =>
    show (∃ g' s', g.removeEdge h t = _ ∧ _) ∨ (∃ e, g.removeEdge h t = _ ∧ _)
    by_cases he : (h, t) ∈ g.edges
    · left
      obtain ⟨g', h1, c', v', e'⟩ := Graph.removeEdge_ok g.verts g h t c.core he
      refine ⟨g', { s with E := s.E.filter (fun e => e ≠ (h, t)) }, h1,
        by simp [SGraph.apply, (hr.2 _).mp he], ⟨v' ▸ c.vnodup, v' ▸ c'⟩, ?_, ?_⟩
      · intro x; rw [v']; exact hr.1 x
      · intro e; rw [e']; simp [List.mem_filter, hr.2 e]
    · right
      have he' : (h, t) ∉ s.E := fun x => he ((hr.2 _).mpr x)
      exact ⟨.enf h t, Graph.removeEdge_enf g h t he, by simp [SGraph.apply, he']⟩
  | rv v =>
    show (∃ g' s', g.removeVertex v = _ ∧ _) ∨ (∃ e, g.removeVertex v = _ ∧ _)
    by_cases hv : v ∈ g.verts
    · left
      obtain ⟨g', h1, c', v', e'⟩ := Graph.removeVertex_ok g v c hv
      refine ⟨g', ⟨s.V.filter (fun x => x ≠ v), s.E.filter (fun e => e.1 ≠ v ∧ e.2 ≠ v)⟩, h1,
        by simp [SGraph.apply, (hr.1 v).mp hv], c', ?_, ?_⟩
      · intro x; rw [v']; simp [List.mem_filter, hr.1 x]
      · intro e; rw [e']; simp [List.mem_filter, hr.2 e]
    · right
      have hv' : v ∉ s.V := fun x => hv ((hr.1 v).mpr x)
      exact ⟨.vnf v, Graph.removeVertex_vnf g v hv, by simp [SGraph.apply, hv']⟩
  | ru r =>
    show (∃ g' s', g.removeUnreachable r = _ ∧ _) ∨ (∃ e, g.removeUnreachable r = _ ∧ _)
    by_cases hv : r ∈ g.verts
    · left
      obtain ⟨g', h1, c', v', e'⟩ := Graph.removeUnreachable_ok g r c hv
      have hsp := fun v => reach_spec (succ := s.succOf) s.univ s.univ_closed r v
      refine ⟨g', ⟨s.V.filter (fun x => x ∈ reach s.succOf s.univ r),
          s.E.filter (fun e => e.1 ∈ reach s.succOf s.univ r ∧ e.2 ∈ reach s.succOf s.univ r)⟩, h1,
        by simp only [SGraph.apply, (hr.1 r).mp hv, not_true_eq_false, if_false], c', ?_, ?_⟩
      · intro x
        rw [v', List.mem_filter]
        simp [hsp, hr.1 x, Rep.path_iff c hr]
      · intro e
        rw [e', List.mem_filter]
        simp [hsp, hr.2 e, Rep.path_iff c hr]
    · right
      have hv' : r ∉ s.V := fun x => hv ((hr.1 r).mpr x)
      exact ⟨.vnf r, Graph.removeUnreachable_vnf g r hv, by simp [SGraph.apply, hv']⟩

/-- the abstract run of a history (failing operations are skipped, as in `runOps`) -/
def runSpecOps (s : SGraph) : List Op → SGraph
  | [] => s
  | op :: ops =>
    match s.apply op with
    | .ok s' => runSpecOps s' ops
    | _ => runSpecOps s ops

theorem runOps_refines : ∀ (ops : List Op) (g : Graph) (s : SGraph), g.Consistent → Rep g s →
    ∃ g', runOps g ops = some g' ∧ g'.Consistent ∧ Rep g' (runSpecOps s ops)
  | [], g, s, c, hr => ⟨g, rfl, c, hr⟩
  | op :: ops, g, s, c, hr => by
    rcases apply_refines g s c hr op with ⟨g1, s1, h1, h2, c1, r1⟩ | ⟨e, h1, h2⟩
    · obtain ⟨g', h', c', r'⟩ := runOps_refines ops g1 s1 c1 r1
      exact ⟨g', by simp [runOps, h1, h'], c', by simpa [runSpecOps, h2] using r'⟩
    · obtain ⟨g', h', c', r'⟩ := runOps_refines ops g s c hr
      exact ⟨g', by simp [runOps, h1, h'], c', by simpa [runSpecOps, h2] using r'⟩

end Falcon.G
