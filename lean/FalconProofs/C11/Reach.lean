/-
  FalconProofs.C11.Reach — `reach` computes exactly the set of vertices connected by a path.
  General (any successor function); reused by other properties.
-/
import FalconModel.Reach

namespace Falcon.Reach

variable {succ : Nat → List Nat}

theorem Path.trans {u v w : Nat} (h₁ : Path succ u v) (h₂ : Path succ v w) : Path succ u w := by
  induction h₁ with
  | refl _ => exact h₂
  | head e _ ih => exact Path.head e (ih h₂)

theorem Path.snoc {u v w : Nat} (h₁ : Path succ u v) (e : w ∈ succ v) : Path succ u w :=
  h₁.trans (Path.head e (Path.refl w))

theorem Path.single {u v : Nat} (e : v ∈ succ u) : Path succ u v := Path.head e (Path.refl v)

theorem PathPlus.path {u v : Nat} (h : PathPlus succ u v) : Path succ u v := by
  obtain ⟨s, hs, hp⟩ := h
  exact Path.head hs hp

/-- a path is either empty or ends with an edge -/
theorem Path.cases_snoc {u w : Nat} (h : Path succ u w) : u = w ∨ ∃ v, Path succ u v ∧ w ∈ succ v := by
  induction h with
  | refl _ => exact Or.inl rfl
  | @head a b c e p ih =>
    right
    rcases ih with rfl | ⟨v, hv, hw⟩
    · exact ⟨a, Path.refl a, e⟩
    · exact ⟨v, Path.head e hv, hw⟩

/-- monotonicity in the successor function -/
theorem Path.mono {succ' : Nat → List Nat} (hs : ∀ u v, v ∈ succ u → v ∈ succ' u) {u v : Nat}
    (h : Path succ u v) : Path succ' u v := by
  induction h with
  | refl _ => exact Path.refl _
  | head e _ ih => exact Path.head (hs _ _ e) ih

/-! ### walks -/

theorem Walk.path {u v : Nat} {p : List Nat} (h : Walk succ u v p) : Path succ u v := by
  induction h with
  | single _ => exact Path.refl _
  | cons e _ ih => exact Path.head e ih

theorem Path.walk {u v : Nat} (h : Path succ u v) : ∃ p, Walk succ u v p := by
  induction h with
  | refl u => exact ⟨[u], Walk.single u⟩
  | head e _ ih =>
    obtain ⟨p, hp⟩ := ih
    exact ⟨_ :: p, Walk.cons e hp⟩

theorem path_iff_walk {u v : Nat} : Path succ u v ↔ ∃ p, Walk succ u v p :=
  ⟨Path.walk, fun ⟨_, h⟩ => h.path⟩

theorem Walk.head_mem {u v : Nat} {p : List Nat} (h : Walk succ u v p) : u ∈ p := by
  cases h <;> simp

theorem Walk.last_mem {u v : Nat} {p : List Nat} (h : Walk succ u v p) : v ∈ p := by
  induction h with
  | single _ => simp
  | cons _ _ ih => exact List.mem_cons_of_mem _ ih

theorem Walk.append {u v w : Nat} {p q : List Nat} (h₁ : Walk succ u v p) (h₂ : Walk succ v w (v :: q)) :
    ∃ l, Walk succ u w l ∧ ∀ x, x ∈ l ↔ x ∈ p ∨ x ∈ q := by
  induction h₁ with
  | single a => exact ⟨a :: q, h₂, by simp⟩
  | @cons a b c p e _ ih =>
    obtain ⟨l, hl, hm⟩ := ih h₂
    exact ⟨a :: l, Walk.cons e hl, by intro x; simp [hm, or_assoc]⟩

/-- a walk through `x` has a prefix ending at `x` that is no longer and uses only its vertices -/
theorem Walk.prefix_to {u v : Nat} {p : List Nat} (h : Walk succ u v p) {x : Nat} (hx : x ∈ p) :
    ∃ q, Walk succ u x q ∧ q.length ≤ p.length ∧ (∀ y ∈ q, y ∈ p) ∧ (x ≠ v → q.length < p.length) := by
  induction h with
  | single a =>
    have : x = a := by simpa using hx
    subst this
    exact ⟨[x], Walk.single x, Nat.le_refl _, fun y hy => hy, fun h => absurd rfl h⟩
  | @cons a b c p e hw ih =>
    by_cases hxa : x = a
    · subst hxa
      exact ⟨[x], Walk.single x, by simp, by simp, fun _ => by
        have := hw.head_mem
        cases p with
        | nil => simp at this
        | cons _ _ => simp⟩
    · have hx' : x ∈ p := by
        rcases List.mem_cons.mp hx with h | h
        · exact absurd h hxa
        · exact h
      obtain ⟨q, hq, hl, hs, hlt⟩ := ih hx'
      exact ⟨a :: q, Walk.cons e hq, by simpa using hl,
        fun y hy => by
          rcases List.mem_cons.mp hy with h | h
          · exact h ▸ List.mem_cons_self
          · exact List.mem_cons_of_mem _ (hs y h),
        fun hne => by simpa using hlt hne⟩

/-- the part of a walk from an inner vertex `x` to the end -/
theorem Walk.suffix_from {u v : Nat} {p : List Nat} (h : Walk succ u v p) {x : Nat} (hx : x ∈ p) :
    ∃ q, Walk succ x v q ∧ (∀ y ∈ q, y ∈ p) := by
  induction h with
  | single a =>
    have : x = a := by simpa using hx
    subst this
    exact ⟨[x], Walk.single x, fun y hy => hy⟩
  | @cons a b c p e hw ih =>
    by_cases hxa : x = a
    · subst hxa
      exact ⟨x :: p, Walk.cons e hw, fun y hy => hy⟩
    · have hx' : x ∈ p := by
        rcases List.mem_cons.mp hx with h | h
        · exact absurd h hxa
        · exact h
      obtain ⟨q, hq, hs⟩ := ih hx'
      exact ⟨q, hq, fun y hy => List.mem_cons_of_mem _ (hs y hy)⟩

/-- monotonicity of walks in the successor function -/
theorem Walk.mono {succ' : Nat → List Nat} {u v : Nat} {p : List Nat} (h : Walk succ u v p)
    (hs : ∀ a b, a ∈ p → b ∈ p → b ∈ succ a → b ∈ succ' a) : Walk succ' u v p := by
  induction h with
  | single a => exact Walk.single a
  | @cons a b c p e hw ih =>
    refine Walk.cons (hs a b List.mem_cons_self (List.mem_cons_of_mem _ hw.head_mem) e) (ih ?_)
    intro x y hx hy hxy
    exact hs x y (List.mem_cons_of_mem _ hx) (List.mem_cons_of_mem _ hy) hxy

/-! ### the closure computation -/

theorem mem_addNew (cur xs : List Nat) (y : Nat) : y ∈ addNew cur xs ↔ y ∈ cur ∨ y ∈ xs := by
  induction xs generalizing cur with
  | nil => simp [addNew]
  | cons x xs ih =>
    unfold addNew
    split
    · rename_i hx
      rw [ih]
      constructor
      · rintro (h | h)
        · exact Or.inl h
        · exact Or.inr (List.mem_cons_of_mem _ h)
      · rintro (h | h)
        · exact Or.inl h
        · rcases List.mem_cons.mp h with rfl | h
          · exact Or.inl hx
          · exact Or.inr h
    · rw [ih]
      simp [or_assoc]

theorem closed_iff (cur : List Nat) :
    closed succ cur = true ↔ ∀ u, u ∈ cur → ∀ v, v ∈ succ u → v ∈ cur := by
  simp [closed]

theorem mem_expand (cur : List Nat) (y : Nat) :
    y ∈ expand succ cur ↔ y ∈ cur ∨ ∃ u, u ∈ cur ∧ y ∈ succ u := by
  simp [expand, mem_addNew]

/-- reachable from one of the roots -/
def FromRoots (succ : Nat → List Nat) (roots : List Nat) (v : Nat) : Prop := ∃ r, r ∈ roots ∧ Path succ r v

theorem reachAux_sound (roots : List Nat) : ∀ (fuel : Nat) (cur out : List Nat),
    (∀ x, x ∈ cur → FromRoots succ roots x) → reachAux succ fuel cur = some out →
    ∀ x, x ∈ out → FromRoots succ roots x := by
  intro fuel
  induction fuel with
  | zero => intro cur out _ h; simp [reachAux] at h
  | succ n ih =>
    intro cur out hc h
    unfold reachAux at h
    split at h
    · cases h; exact hc
    · refine ih _ _ ?_ h
      intro x hx
      rcases (mem_expand cur x).mp hx with h1 | ⟨u, hu, hxu⟩
      · exact hc x h1
      · obtain ⟨r, hr, hp⟩ := hc u hu
        exact ⟨r, hr, hp.snoc hxu⟩

theorem reachAux_closed : ∀ (fuel : Nat) (cur out : List Nat),
    reachAux succ fuel cur = some out →
    (∀ x, x ∈ cur → x ∈ out) ∧ (∀ u, u ∈ out → ∀ v, v ∈ succ u → v ∈ out) := by
  intro fuel
  induction fuel with
  | zero => intro cur out h; simp [reachAux] at h
  | succ n ih =>
    intro cur out h
    unfold reachAux at h
    split at h
    · rename_i hcl
      cases h
      exact ⟨fun _ hx => hx, (closed_iff cur).mp hcl⟩
    · obtain ⟨h1, h2⟩ := ih _ _ h
      exact ⟨fun x hx => h1 x ((mem_expand cur x).mpr (Or.inl hx)), h2⟩

/-- **reachAux_spec**: if the closure answers, the answer is exactly the set reachable from the roots. -/
theorem reachAux_spec (fuel : Nat) (roots out : List Nat) (h : reachAux succ fuel roots = some out) (v : Nat) :
    v ∈ out ↔ ∃ r, r ∈ roots ∧ Path succ r v := by
  constructor
  · exact reachAux_sound roots fuel roots out (fun x hx => ⟨x, hx, Path.refl x⟩) h v
  · rintro ⟨r, hr, hp⟩
    obtain ⟨h1, h2⟩ := reachAux_closed fuel roots out h
    have hr' := h1 r hr
    clear hr
    induction hp with
    | refl _ => exact hr'
    | head e _ ih => exact ih (h2 _ hr' _ e)

/-! ### the fuel `univ.length + 1` always suffices -/

def missing (cur : List Nat) : List Nat → Nat
  | [] => 0
  | x :: xs => (if x ∈ cur then 0 else 1) + missing cur xs

theorem missing_le (cur : List Nat) : ∀ univ : List Nat, missing cur univ ≤ univ.length
  | [] => by simp [missing]
  | x :: xs => by
    have := missing_le cur xs
    simp only [missing, List.length_cons]
    split <;> omega

theorem missing_mono (a b : List Nat) (hab : ∀ x, x ∈ a → x ∈ b) :
    ∀ univ : List Nat, missing b univ ≤ missing a univ
  | [] => by simp [missing]
  | x :: xs => by
    have := missing_mono a b hab xs
    simp only [missing]
    by_cases ha : x ∈ a
    · simp only [ha, hab x ha, if_true]; omega
    · simp only [ha, if_false]; split <;> omega

theorem missing_lt (a b : List Nat) (hab : ∀ x, x ∈ a → x ∈ b) (v : Nat) (hva : v ∉ a) (hvb : v ∈ b) :
    ∀ univ : List Nat, v ∈ univ → missing b univ < missing a univ
  | [], hv => by simp at hv
  | x :: xs, hv => by
    have hm := missing_mono a b hab xs
    simp only [missing]
    by_cases hxv : x = v
    · subst hxv
      simp only [hva, hvb, if_true, if_false]; omega
    · have hv' : v ∈ xs := by
        rcases List.mem_cons.mp hv with h | h
        · exact absurd h.symm hxv
        · exact h
      have := missing_lt a b hab v hva hvb xs hv'
      by_cases ha : x ∈ a
      · simp only [ha, hab x ha, if_true]; omega
      · simp only [ha, if_false]; split <;> omega

theorem reachAux_total (univ : List Nat) (hu : ∀ u v, v ∈ succ u → v ∈ univ) :
    ∀ (fuel : Nat) (cur : List Nat), missing cur univ < fuel → (reachAux succ fuel cur).isSome = true := by
  intro fuel
  induction fuel with
  | zero => intro cur h; omega
  | succ n ih =>
    intro cur h
    unfold reachAux
    split
    · rfl
    · rename_i hcl
      apply ih
      have : ¬ ∀ u, u ∈ cur → ∀ v, v ∈ succ u → v ∈ cur := fun hh => hcl ((closed_iff cur).mpr hh)
      have : ∃ u, u ∈ cur ∧ ∃ v, v ∈ succ u ∧ v ∉ cur := by
        apply Classical.byContradiction
        intro hne
        apply this
        intro u hu' v hv
        apply Classical.byContradiction
        intro hvc
        exact hne ⟨u, hu', v, hv, hvc⟩
      obtain ⟨u, hu', v, hv, hvc⟩ := this
      have hlt := missing_lt cur (expand succ cur)
        (fun x hx => (mem_expand cur x).mpr (Or.inl hx)) v hvc
        ((mem_expand cur v).mpr (Or.inr ⟨u, hu', hv⟩)) univ (hu u v hv)
      omega

theorem reachL_spec (univ : List Nat) (hu : ∀ u v, v ∈ succ u → v ∈ univ) (roots : List Nat) (v : Nat) :
    v ∈ reachL succ univ roots ↔ ∃ r, r ∈ roots ∧ Path succ r v := by
  have ht := reachAux_total univ hu (univ.length + 1) roots (by have := missing_le roots univ; omega)
  unfold reachL
  cases h : reachAux succ (univ.length + 1) roots with
  | none => simp [h] at ht
  | some out => simpa using reachAux_spec _ roots out h v

/-- **reach_spec**: `reach` is exactly the set of vertices connected to `r` by a path, on every finite graph. -/
theorem reach_spec (univ : List Nat) (hu : ∀ u v, v ∈ succ u → v ∈ univ) (r v : Nat) :
    v ∈ reach succ univ r ↔ Path succ r v := by
  unfold reach
  rw [reachL_spec univ hu]
  simp

theorem tabGet_mkTab {β : Type} (f : Nat → β) (keys : List Nat) (x : Nat) : tabGet (mkTab f keys) f x = f x := by
  unfold tabGet mkTab
  split
  · rename_i b hb
    induction keys with
    | nil => simp at hb
    | cons k ks ih =>
      simp only [List.map_cons, List.lookup_cons] at hb
      split at hb
      · rename_i hk
        have : x = k := by simpa using hk
        cases hb; rw [this]
      · exact ih hb
  · rfl

theorem tabGet_mkTab_fun {β : Type} (f : Nat → β) (keys : List Nat) :
    (fun x => tabGet (mkTab f keys) f x) = f := funext (tabGet_mkTab f keys)

end Falcon.Reach
