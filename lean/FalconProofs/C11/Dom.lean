/-
  FalconProofs.C11.Dom — textbook (path-based) definitions on a finite directed graph (V, E) and the
  proofs that the definitional models of FalconModel/GraphAlg.lean are exactly those objects:
  reachability, dominators, immediate dominators, dominator tree, dominance frontiers.
-/
import FalconModel.GraphAlg
import FalconProofs.C11.Reach

namespace Falcon.GA
open Falcon.Reach

/-! ### textbook definitions -/

/-- `d` dominates `v`: `v` is reachable from the root and every path from the root to `v` passes through `d` -/
def Dom (E : EL) (r d v : Nat) : Prop := Path (succE E) r v ∧ ∀ p, Walk (succE E) r v p → d ∈ p
/-- strict dominance -/
def SDom (E : EL) (r d v : Nat) : Prop := d ≠ v ∧ Dom E r d v
/-- `d` is the immediate dominator of `v`: a strict dominator of `v` dominated by every strict dominator of `v` -/
def IsIdom (E : EL) (r d v : Nat) : Prop := SDom E r d v ∧ ∀ e, SDom E r e v → Dom E r e d

/-! ### edges -/

theorem mem_succE (E : EL) (u v : Nat) : v ∈ succE E u ↔ (u, v) ∈ E := by
  unfold succE
  rw [List.mem_map]
  constructor
  · rintro ⟨⟨a, b⟩, he, rfl⟩
    have := List.mem_filter.mp he
    simp only [decide_eq_true_eq] at this
    exact this.2 ▸ this.1
  · intro he
    exact ⟨(u, v), List.mem_filter.mpr ⟨he, by simp⟩, rfl⟩

theorem mem_predE (E : EL) (u v : Nat) : u ∈ predE E v ↔ (u, v) ∈ E := by
  unfold predE
  rw [List.mem_map]
  constructor
  · rintro ⟨⟨a, b⟩, he, rfl⟩
    have := List.mem_filter.mp he
    simp only [decide_eq_true_eq] at this
    exact this.2 ▸ this.1
  · intro he
    exact ⟨(u, v), List.mem_filter.mpr ⟨he, by simp⟩, rfl⟩

theorem mem_univE_src {V : List Nat} {E : EL} {u v : Nat} (h : (u, v) ∈ E) : u ∈ univE V E :=
  List.mem_append.mpr (Or.inl (List.mem_append.mpr (Or.inr (List.mem_map.mpr ⟨(u, v), h, rfl⟩))))

theorem mem_univE_tgt {V : List Nat} {E : EL} {u v : Nat} (h : (u, v) ∈ E) : v ∈ univE V E :=
  List.mem_append.mpr (Or.inr (List.mem_map.mpr ⟨(u, v), h, rfl⟩))

/-- any sub-graph has its successors inside the universe of the whole graph -/
theorem closed_sub (V : List Nat) {E E' : EL} (hs : ∀ e, e ∈ E' → e ∈ E) :
    ∀ u v, v ∈ succE E' u → v ∈ univE V E :=
  fun u v h => mem_univE_tgt (hs _ ((mem_succE E' u v).mp h))

theorem mem_revE (E : EL) (u v : Nat) : (u, v) ∈ revE E ↔ (v, u) ∈ E := by
  unfold revE
  rw [List.mem_map]
  constructor
  · rintro ⟨⟨a, b⟩, he, heq⟩
    cases heq; exact he
  · intro h; exact ⟨(v, u), h, rfl⟩

theorem mem_avoidE (E : EL) (d : Nat) (e : Nat × Nat) : e ∈ avoidE E d ↔ e ∈ E ∧ e.1 ≠ d ∧ e.2 ≠ d := by
  simp [avoidE, List.mem_filter]

theorem closed_rev_sub (V : List Nat) {E E' : EL} (hs : ∀ e, e ∈ E' → e ∈ E) :
    ∀ u v, v ∈ succE (revE E') u → v ∈ univE V E :=
  fun u v h => mem_univE_src (hs _ ((mem_revE E' u v).mp ((mem_succE _ u v).mp h)))

/-- **reach_spec** on (V, E): `reachE` is exactly the set of vertices connected to `r` by a path -/
theorem reachE_spec (V : List Nat) (E : EL) (r v : Nat) : v ∈ reachE V E r ↔ Path (succE E) r v :=
  reach_spec (univE V E) (closed_sub V fun _ h => h) r v

theorem path_rev (E : EL) {a b : Nat} : Path (succE (revE E)) a b ↔ Path (succE E) b a := by
  constructor
  · intro h
    induction h with
    | refl _ => exact Path.refl _
    | head e _ ih => exact ih.snoc ((mem_succE _ _ _).mpr ((mem_revE _ _ _).mp ((mem_succE _ _ _).mp e)))
  · intro h
    induction h with
    | refl _ => exact Path.refl _
    | head e _ ih => exact ih.snoc ((mem_succE _ _ _).mpr ((mem_revE _ _ _).mpr ((mem_succE _ _ _).mp e)))

/-- paths in the graph with `d` deleted are the walks that avoid `d` -/
theorem path_avoid_iff (E : EL) (d : Nat) {u v : Nat} :
    (u ≠ d ∧ Path (succE (avoidE E d)) u v) ↔ ∃ p, Walk (succE E) u v p ∧ d ∉ p := by
  constructor
  · rintro ⟨hu, hp⟩
    induction hp with
    | refl a => exact ⟨[a], Walk.single a, by simpa using Ne.symm hu⟩
    | @head a b c e _ ih =>
      have he := (mem_avoidE E d (a, b)).mp ((mem_succE _ _ _).mp e)
      obtain ⟨p, hp, hd⟩ := ih he.2.2
      exact ⟨a :: p, Walk.cons ((mem_succE _ _ _).mpr he.1) hp, by
        simp only [List.mem_cons, not_or]; exact ⟨Ne.symm hu, hd⟩⟩
  · rintro ⟨p, hp, hd⟩
    induction hp with
    | single a => exact ⟨fun h => hd (by simp [h]), Path.refl a⟩
    | @cons a b c p e hw ih =>
      simp only [List.mem_cons, not_or] at hd
      obtain ⟨hb, hpath⟩ := ih hd.2
      refine ⟨Ne.symm hd.1, Path.head ((mem_succE _ _ _).mpr ((mem_avoidE E d (a, b)).mpr
        ⟨(mem_succE _ _ _).mp e, Ne.symm hd.1, hb⟩)) hpath⟩

theorem reachAvoid_spec (V : List Nat) (E : EL) (r d v : Nat) :
    v ∈ reachAvoid V E r d ↔ ∃ p, Walk (succE E) r v p ∧ d ∉ p := by
  rw [← path_avoid_iff]
  unfold reachAvoid
  by_cases h : r = d
  · simp [h]
  · simp only [h, if_false, ne_eq, not_false_eq_true, true_and]
    exact reach_spec (univE V E) (closed_sub V fun e he => ((mem_avoidE E d e).mp he).1) r v

/-- **dominates_spec**: `d` dominates `v` iff `v` is reachable and every path from the root to `v`
    passes through `d`. -/
theorem dominates_spec (V : List Nat) (E : EL) (r d v : Nat) : dominates V E r d v = true ↔ Dom E r d v := by
  unfold dominates Dom
  rw [Bool.and_eq_true, decide_eq_true_eq, Bool.not_eq_true', decide_eq_false_iff_not, reachE_spec,
    reachAvoid_spec]
  constructor
  · rintro ⟨h1, h2⟩
    exact ⟨h1, fun p hp => Classical.byContradiction fun hd => h2 ⟨p, hp, hd⟩⟩
  · rintro ⟨h1, h2⟩
    exact ⟨h1, fun ⟨p, hp, hd⟩ => hd (h2 p hp)⟩

/-! ### order properties of dominance -/

theorem Dom.reach_left {E : EL} {r d v : Nat} (h : Dom E r d v) : Path (succE E) r d := by
  obtain ⟨p, hp⟩ := h.1.walk
  obtain ⟨q, hq, _⟩ := hp.prefix_to (h.2 p hp)
  exact hq.path

theorem dom_refl {E : EL} {r v : Nat} (h : Path (succE E) r v) : Dom E r v v := ⟨h, fun _ hp => hp.last_mem⟩
theorem dom_root {E : EL} {r v : Nat} (h : Path (succE E) r v) : Dom E r r v := ⟨h, fun _ hp => hp.head_mem⟩

theorem dom_trans {E : EL} {r a b c : Nat} (h₁ : Dom E r a b) (h₂ : Dom E r b c) : Dom E r a c := by
  refine ⟨h₂.1, fun p hp => ?_⟩
  obtain ⟨q, hq, _, hs, _⟩ := hp.prefix_to (h₂.2 p hp)
  exact hs a (h₁.2 q hq)

theorem dom_antisymm {E : EL} {r a b : Nat} (h₁ : Dom E r a b) (h₂ : Dom E r b a) : a = b := by
  apply Classical.byContradiction
  intro hne
  have key : ∀ n : Nat, ∀ p, Walk (succE E) r a p → p.length ≤ n → False := by
    intro n
    induction n with
    | zero =>
      intro p hp hl
      have := hp.head_mem
      cases p with
      | nil => simp at this
      | cons _ _ => simp at hl
    | succ n ih =>
      intro p hp hl
      obtain ⟨q, hq, _, _, hlt⟩ := hp.prefix_to (h₂.2 p hp)
      obtain ⟨q', hq', _, _, hlt'⟩ := hq.prefix_to (h₁.2 q hq)
      have := hlt (fun h => hne h.symm)
      have := hlt' hne
      exact ih q' hq' (by omega)
  obtain ⟨p, hp⟩ := h₂.1.walk
  exact key p.length p hp (Nat.le_refl _)

theorem idom_unique {E : EL} {r d d' v : Nat} (h : IsIdom E r d v) (h' : IsIdom E r d' v) : d = d' :=
  dom_antisymm (h'.2 d h.1) (h.2 d' h'.1)

/-! ### the models derived from `dom` -/

theorem sdomOf_spec (V : List Nat) (E : EL) (r d v : Nat) :
    sdomOf (dominates V E r) d v = true ↔ SDom E r d v := by
  simp [sdomOf, SDom, dominates_spec]

/-- **doms_spec**: the computed dominator set of `v` is exactly `{d | d dominates v}` -/
theorem doms_spec (V : List Nat) (E : EL) (r v d : Nat) : d ∈ doms V E r v ↔ Dom E r d v := by
  unfold doms domsOf
  rw [List.mem_filter, dominates_spec, reachE_spec]
  exact ⟨fun h => h.2, fun h => ⟨h.reach_left, h⟩⟩

/-- **idom_spec**: the computed immediate dominator is the textbook one (and that one is unique:
    `idom_unique`) -/
theorem idom_spec (V : List Nat) (E : EL) (r v d : Nat) : idom V E r v = some d ↔ IsIdom E r d v := by
  have hmem : ∀ e, e ∈ (reachE V E r).filter (fun e => sdomOf (dominates V E r) e v) ↔ SDom E r e v := by
    intro e
    rw [List.mem_filter, sdomOf_spec, reachE_spec]
    exact ⟨fun h => h.2, fun h => ⟨h.2.reach_left, h⟩⟩
  have hpred : ∀ d, ((reachE V E r).filter (fun e => sdomOf (dominates V E r) e v)).all
      (fun e => dominates V E r e d) = true ↔ ∀ e, SDom E r e v → Dom E r e d := by
    intro d
    rw [List.all_eq_true]
    constructor
    · intro h e he
      exact (dominates_spec V E r e d).mp (h e ((hmem e).mpr he))
    · intro h e he
      exact (dominates_spec V E r e d).mpr (h e ((hmem e).mp he))
  unfold idom idomOf
  constructor
  · intro h
    have hp := List.find?_some h
    exact ⟨(hmem d).mp (List.mem_of_find?_eq_some h), (hpred d).mp hp⟩
  · intro h
    cases hf : ((reachE V E r).filter (fun e => sdomOf (dominates V E r) e v)).find?
        (fun d => ((reachE V E r).filter (fun e => sdomOf (dominates V E r) e v)).all
          (fun e => dominates V E r e d)) with
    | none =>
      have := List.find?_eq_none.mp hf d ((hmem d).mpr h.1)
      exact absurd ((hpred d).mpr h.2) this
    | some d' =>
      have hp := List.find?_some hf
      have h' : IsIdom E r d' v := ⟨(hmem d').mp (List.mem_of_find?_eq_some hf), (hpred d').mp hp⟩
      rw [idom_unique h' h]

/-- **domTree_spec**: the dominator tree has exactly the edges (immediate dominator of v, v) -/
theorem domTree_spec (V : List Nat) (E : EL) (r d v : Nat) : (d, v) ∈ domTree V E r ↔ IsIdom E r d v := by
  unfold domTree domTreeOf
  rw [List.mem_filterMap]
  constructor
  · rintro ⟨x, _, hx⟩
    cases hi : idomOf (reachE V E r) (dominates V E r) x with
    | none => simp [hi] at hx
    | some d' =>
      simp only [hi, Option.map_some, Option.some.injEq, Prod.mk.injEq] at hx
      obtain ⟨rfl, rfl⟩ := hx
      exact (idom_spec V E r x d').mp hi
  · intro h
    refine ⟨v, (reachE_spec V E r v).mpr h.1.2.1, ?_⟩
    have := (idom_spec V E r v d).mpr h
    unfold idom at this
    simp [this]

/-- **frontier_spec**: the dominance frontier of `n` is
    `{w | n dominates a predecessor of w and does not strictly dominate w}` -/
theorem frontier_spec (V : List Nat) (E : EL) (r n w : Nat) :
    w ∈ frontier V E r n ↔ (∃ p, (p, w) ∈ E ∧ Dom E r n p) ∧ ¬ SDom E r n w := by
  unfold frontier frontierOf
  rw [List.mem_filter, Bool.and_eq_true, List.any_eq_true, Bool.not_eq_true', ← Bool.not_eq_true,
    sdomOf_spec, reachE_spec]
  constructor
  · rintro ⟨_, ⟨p, hp, hd⟩, hs⟩
    exact ⟨⟨p, (mem_predE E p w).mp hp, (dominates_spec V E r n p).mp hd⟩, hs⟩
  · rintro ⟨⟨p, hp, hd⟩, hs⟩
    exact ⟨hd.1.snoc ((mem_succE E p w).mpr hp), ⟨p, (mem_predE E p w).mpr hp, (dominates_spec V E r n p).mpr hd⟩, hs⟩

end Falcon.GA
