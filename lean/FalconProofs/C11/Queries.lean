/-
  FalconProofs.C11.Queries — in a consistent container every public per-vertex query agrees with the
  vertex view: on a vertex all of them answer Ok with the successor/predecessor set, on any other id all of
  them answer vertex-not-found (in particular on an id that was just removed).
-/
import FalconProofs.C11.Container

namespace Falcon.G
namespace Graph

theorem get_none_of_not_mem {g : Graph} (c : Consistent g) {v : Nat} (hv : v ∉ g.verts) :
    g.succ.get v = none ∧ g.pred.get v = none := by
  constructor
  · cases h : g.succ.get v with
    | none => rfl
    | some _ => exact absurd ((c.core.succ_dom v).mpr (by simp [h])) hv
  · cases h : g.pred.get v with
    | none => rfl
    | some _ => exact absurd ((c.core.pred_dom v).mpr (by simp [h])) hv

/-- every per-vertex query on an id that is not a vertex answers vertex-not-found -/
theorem queries_absent (g : Graph) (c : Consistent g) (v : Nat) (hv : v ∉ g.verts) :
    g.hasVertex v = false ∧ g.qVertex v = .err (.vnf v) ∧
    g.qSuccIdx v = .err (.vnf v) ∧ g.qPredIdx v = .err (.vnf v) ∧
    g.qSuccessors v = .err (.vnf v) ∧ g.qPredecessors v = .err (.vnf v) ∧
    g.qEdgesOut v = .err (.vnf v) ∧ g.qEdgesIn v = .err (.vnf v) := by
  obtain ⟨hs, hp⟩ := get_none_of_not_mem c hv
  refine ⟨by simp [hasVertex, hv], by simp [qVertex, hv], by simp [qSuccIdx, hv], by simp [qPredIdx, hv],
    by simp [qSuccessors, hv], by simp [qPredecessors, hv], by simp [qEdgesOut, hs], by simp [qEdgesIn, hp]⟩

/-- every per-vertex query on a vertex answers Ok with its successor / predecessor set -/
theorem queries_present (g : Graph) (c : Consistent g) (v : Nat) (hv : v ∈ g.verts) :
    g.hasVertex v = true ∧ g.qVertex v = .ok () ∧
    g.qSuccIdx v = .ok (g.succOf v) ∧ g.qPredIdx v = .ok (g.predOf v) ∧
    g.qSuccessors v = .ok (g.succOf v) ∧ g.qPredecessors v = .ok (g.predOf v) ∧
    g.qEdgesOut v = .ok (g.succOf v) ∧ g.qEdgesIn v = .ok (g.predOf v) := by
  obtain ⟨sl, hsl⟩ := Option.isSome_iff_exists.mp ((c.core.succ_dom v).mp hv)
  obtain ⟨pl, hpl⟩ := Option.isSome_iff_exists.mp ((c.core.pred_dom v).mp hv)
  have hso : g.succOf v = sl := by simp [succOf, hsl]
  have hpo : g.predOf v = pl := by simp [predOf, hpl]
  have h1 : sl.all (fun s => decide (s ∈ g.verts)) = true := by
    rw [List.all_eq_true]; intro s hs
    exact decide_eq_true (c.edges_in ((c.core.succ_eq v s).mp (hso ▸ hs))).2
  have h2 : pl.all (fun s => decide (s ∈ g.verts)) = true := by
    rw [List.all_eq_true]; intro s hs
    exact decide_eq_true (c.edges_in ((c.core.pred_eq s v).mp (hpo ▸ hs))).1
  have h3 : sl.all (fun s => decide ((v, s) ∈ g.edges)) = true := by
    rw [List.all_eq_true]; intro s hs
    exact decide_eq_true ((c.core.succ_eq v s).mp (hso ▸ hs))
  have h4 : pl.all (fun p => decide ((p, v) ∈ g.edges)) = true := by
    rw [List.all_eq_true]; intro s hs
    exact decide_eq_true ((c.core.pred_eq s v).mp (hpo ▸ hs))
  refine ⟨by simp [hasVertex, hv], by simp [qVertex, hv], by simp [qSuccIdx, hv, hsl, hso],
    by simp [qPredIdx, hv, hpl, hpo], by simp [qSuccessors, hv, hsl, hso, h1],
    by simp [qPredecessors, hv, hpl, hpo, h2], by simp [qEdgesOut, hsl, hso, h3], by simp [qEdgesIn, hpl, hpo, h4]⟩

/-- **removed_vertex_queries_fail**: after `remove_vertex(v)` every per-vertex query on `v` answers
    vertex-not-found (the keys of `v` are gone from all four views) -/
theorem removed_vertex_queries_fail (g g' : Graph) (v : Nat) (c : Consistent g) (h : g.removeVertex v = .ok g') :
    g'.hasVertex v = false ∧ g'.qVertex v = .err (.vnf v) ∧
    g'.qSuccIdx v = .err (.vnf v) ∧ g'.qPredIdx v = .err (.vnf v) ∧
    g'.qSuccessors v = .err (.vnf v) ∧ g'.qPredecessors v = .err (.vnf v) ∧
    g'.qEdgesOut v = .err (.vnf v) ∧ g'.qEdgesIn v = .err (.vnf v) := by
  have hv : v ∈ g.verts := by
    apply Classical.byContradiction
    intro hn
    rw [removeVertex_vnf g v hn] at h
    cases h
  obtain ⟨g'', h'', c'', v'', _⟩ := removeVertex_ok g v c hv
  rw [h''] at h
  have e : g'' = g' := by injection h
  rw [← e]
  exact queries_absent g'' c'' v (by rw [v'']; simp)

end Graph
end Falcon.G
