/-
  FalconProofs.C11.Nesting — falcon's nesting test (`Loop::is_nesting`: different headers and the
  inner header lies in the outer loop) coincides with the textbook one (inclusion of the node sets).
-/
import FalconProofs.C11.Loops

namespace Falcon.GA
open Falcon.Reach

/-- every vertex of a natural loop is dominated by the loop header -/
theorem inLoop_dom {E : EL} {r h v : Nat} (hb : ∃ t, BackEdge E r t h) (hv : InLoop E r h v) : Dom E r h v := by
  rcases hv with rfl | ⟨hr, hne, t, ht, w, hw, hhw⟩
  · obtain ⟨t, ht⟩ := hb
    exact dom_refl ht.2.reach_left
  · refine ⟨hr, fun p hp => Classical.byContradiction fun hh => ?_⟩
    cases hw with
    | single _ => exact hh (ht.2.2 p hp)
    | @cons _ b _ q e hq =>
      obtain ⟨l, hl, hm⟩ := hp.append (Walk.cons e hq)
      have := (hm h).mp (ht.2.2 l hl)
      exact this.elim hh (fun h' => hhw (List.mem_cons_of_mem _ h'))

/-- **nesting_inclusion**: for two natural loops with different headers, the header of the second lies in
    the first loop iff the whole second loop is contained in the first -/
theorem nesting_inclusion {E : EL} {r h₁ h₂ : Nat} (hb₁ : ∃ t, BackEdge E r t h₁) (hb₂ : ∃ t, BackEdge E r t h₂)
    (hne : h₁ ≠ h₂) : InLoop E r h₁ h₂ ↔ ∀ v, InLoop E r h₂ v → InLoop E r h₁ v := by
  constructor
  · intro hin v hv
    rcases hv with rfl | ⟨hrv, hvne, t₂, ht₂, w₁, hw₁, hh₂⟩
    · exact hin
    · by_cases hv1 : v = h₁
      · exact Or.inl hv1
      · rcases hin with heq | ⟨_, _, t₁, ht₁, w₂, hw₂, hh₁⟩
        · exact absurd heq.symm hne
        · -- h₁ cannot lie on the walk v → t₂ (it would be in loop h₂, hence dominated by h₂)
          have hh1w1 : h₁ ∉ w₁ := by
            intro hmem
            obtain ⟨q, hq, hsub⟩ := hw₁.suffix_from hmem
            have hin2 : InLoop E r h₂ h₁ :=
              Or.inr ⟨ht₁.2.reach_left, hne, t₂, ht₂, q, hq, fun h => hh₂ (hsub _ h)⟩
            have d1 : Dom E r h₂ h₁ := inLoop_dom hb₂ hin2
            have d2 : Dom E r h₁ h₂ := inLoop_dom hb₁ (Or.inr ⟨ht₂.2.reach_left, Ne.symm hne, t₁, ht₁, w₂, hw₂, hh₁⟩)
            exact hne (dom_antisymm d2 d1)
          -- v → t₂ → h₂ → t₁ avoids h₁
          have hw2' : Walk (succE E) t₂ t₁ (t₂ :: w₂) := Walk.cons ((mem_succE E t₂ h₂).mpr ht₂.1) hw₂
          obtain ⟨l, hl, hm⟩ := hw₁.append hw2'
          refine Or.inr ⟨hrv, hv1, t₁, ht₁, l, hl, fun h => ?_⟩
          exact ((hm h₁).mp h).elim hh1w1 hh₁
  · intro h
    exact h h₂ (Or.inl rfl)

end Falcon.GA
