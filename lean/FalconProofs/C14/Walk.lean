/-
  FalconProofs.C14.Walk — structural facts about the checker: the dead set at a position (`walkTo`)
  versus the dead set at the end of the block (`walk`), and the pairing of the blocks of `f` and `g`.
-/
import FalconModel.DceCert

namespace Falcon
namespace Dce

theorem walk_length {D Dend : Names} {is js : List Instr} (h : walk D is js = some Dend) :
    is.length = js.length := by
  induction is generalizing D js with
  | nil => cases js with
    | nil => rfl
    | cons j js => simp [walk] at h
  | cons i is ih => cases js with
    | nil => simp [walk] at h
    | cons j js =>
      simp only [walk] at h
      cases hs : stepD D i j with
      | none => simp [hs] at h
      | some D1 =>
        simp only [hs, Option.bind_some] at h
        simp [ih h]

/-- an accepted block has a dead set at each of its positions -/
theorem walk_walkTo {D Dend : Names} {is js : List Instr} (h : walk D is js = some Dend)
    (p : Nat) (hp : p ≤ is.length) : ∃ Dp, walkTo D is js p = some Dp := by
  induction is generalizing D js p with
  | nil =>
    have : p = 0 := by simpa using hp
    subst this
    exact ⟨D, by simp [walkTo]⟩
  | cons i is ih => cases js with
    | nil => simp [walk] at h
    | cons j js =>
      simp only [walk] at h
      cases hs : stepD D i j with
      | none => simp [hs] at h
      | some D1 =>
        simp only [hs, Option.bind_some] at h
        cases p with
        | zero => exact ⟨D, by simp [walkTo]⟩
        | succ p =>
          have hp' : p ≤ is.length := by simpa using hp
          obtain ⟨Dp, hDp⟩ := ih h p hp'
          exact ⟨Dp, by simp [walkTo, hs, hDp]⟩

/-- from position `p` to position `p + 1` the dead set moves by `stepD` over the `p`-th pair -/
theorem walkTo_step {D Dend Dp : Names} {is js : List Instr} (h : walk D is js = some Dend)
    {p : Nat} (hp : walkTo D is js p = some Dp) {i : Instr} (hi : is[p]? = some i) :
    ∃ j D', js[p]? = some j ∧ stepD Dp i j = some D' ∧ walkTo D is js (p + 1) = some D' := by
  induction is generalizing D js p with
  | nil => simp at hi
  | cons i0 is ih => cases js with
    | nil => simp [walk] at h
    | cons j0 js =>
      simp only [walk] at h
      cases hs : stepD D i0 j0 with
      | none => simp [hs] at h
      | some D1 =>
        simp only [hs, Option.bind_some] at h
        cases p with
        | zero =>
          simp only [walkTo, Option.some.injEq] at hp
          subst hp
          simp only [List.getElem?_cons_zero, Option.some.injEq] at hi
          subst hi
          exact ⟨j0, D1, by simp, hs, by simp [walkTo, hs]⟩
        | succ p =>
          simp only [walkTo, hs, Option.bind_some] at hp
          simp only [List.getElem?_cons_succ] at hi
          obtain ⟨j, D', hj, hst, hw⟩ := ih h hp hi
          refine ⟨j, D', by simpa using hj, hst, ?_⟩
          simp only [walkTo, hs, Option.bind_some]
          exact hw

/-- at the last position the dead set is the one `walk` returns -/
theorem walkTo_end {D Dend : Names} {is js : List Instr} (h : walk D is js = some Dend) :
    walkTo D is js is.length = some Dend := by
  induction is generalizing D js with
  | nil => cases js with
    | nil => simpa [walk, walkTo] using h
    | cons j js => simp [walk] at h
  | cons i is ih => cases js with
    | nil => simp [walk] at h
    | cons j js =>
      simp only [walk] at h
      cases hs : stepD D i j with
      | none => simp [hs] at h
      | some D1 =>
        simp only [hs, Option.bind_some] at h
        simp only [List.length_cons, walkTo, hs, Option.bind_some]
        exact ih h

/-- blocks are paired: the block of `f` with index `b` faces the block of `g` with index `b` -/
theorem blocksOk_find {g : Function} {cert : Cert} {fs gs : List Block} (h : blocksOk g cert fs gs = true)
    {b : Nat} {bf : Block} (hf : fs.find? (·.index == b) = some bf) :
    ∃ bg, gs.find? (·.index == b) = some bg ∧ blockOk g cert bf bg = true := by
  induction fs generalizing gs with
  | nil => simp at hf
  | cons x fs ih => cases gs with
    | nil => simp [blocksOk] at h
    | cons y gs =>
      simp only [blocksOk, Bool.and_eq_true] at h
      obtain ⟨hxy, hrest⟩ := h
      have hidx : x.index = y.index := by
        unfold blockOk at hxy
        simp only [Bool.and_eq_true, beq_iff_eq] at hxy
        exact hxy.1.1.1
      by_cases hb : x.index = b
      · have hx : (x.index == b) = true := by simpa using hb
        have hy : (y.index == b) = true := by simpa [← hidx] using hb
        simp only [List.find?, hx, Option.some.injEq] at hf
        subst hf
        exact ⟨y, by simp [List.find?, hy], hxy⟩
      · have hx : (x.index == b) = false := by simpa using hb
        have hy : (y.index == b) = false := by simpa [← hidx] using hb
        simp only [List.find?, hx] at hf
        obtain ⟨bg, hbg, hok⟩ := ih hrest hf
        exact ⟨bg, by simp [List.find?, hy, hbg], hok⟩

/-- what an accepted pair of functions provides for a block of `f` -/
structure BlockFacts (g : Function) (cert : Cert) (bf bg : Block) (Dend : Names) : Prop where
  index : bf.index = bg.index
  nextInstr : bf.nextInstr = bg.nextInstr
  phis : bf.phis = bg.phis
  walk : walk (cert.din bg.index) bf.instrs bg.instrs = some Dend
  endOk : endOk g cert bg.index Dend = true

theorem blockOk_facts {g : Function} {cert : Cert} {bf bg : Block} (h : blockOk g cert bf bg = true) :
    ∃ Dend, BlockFacts g cert bf bg Dend := by
  unfold blockOk at h
  simp only [Bool.and_eq_true, beq_iff_eq, decide_eq_true_eq] at h
  obtain ⟨⟨⟨h1, h2⟩, h3⟩, h4⟩ := h
  cases hw : Dce.walk (cert.din bg.index) bf.instrs bg.instrs with
  | none => simp [hw] at h4
  | some Dend =>
    simp only [hw] at h4
    exact ⟨Dend, ⟨h1, h2, h3, hw, h4⟩⟩

theorem find_index {bs : List Block} {b : Nat} {x : Block} (h : bs.find? (·.index == b) = some x) :
    x.index = b := by
  have := List.find?_some h
  simpa using this

theorem certOk_header {f g : Function} {cert : Cert} (h : certOk f g cert = true) : headerOk f g = true := by
  unfold certOk at h
  simp only [Bool.and_eq_true] at h
  exact h.1

theorem certOk_edges {f g : Function} {cert : Cert} (h : certOk f g cert = true) :
    f.cfg.edges = g.cfg.edges := by
  have := certOk_header h
  unfold headerOk at this
  simp only [Bool.and_eq_true, decide_eq_true_eq] at this
  exact this.1.1.1.1.2

theorem certOk_entry {f g : Function} {cert : Cert} (h : certOk f g cert = true) :
    f.cfg.entry = g.cfg.entry := by
  have := certOk_header h
  unfold headerOk at this
  simp only [Bool.and_eq_true, beq_iff_eq] at this
  exact this.1.1.1.2

theorem certOk_edgesOut {f g : Function} {cert : Cert} (h : certOk f g cert = true) (b : Nat) :
    f.cfg.edgesOut b = g.cfg.edgesOut b := by
  unfold Cfg.edgesOut
  rw [certOk_edges h]

/-- the block of `f` at index `b` faces a block of `g` at the same index, and the pair is accepted -/
theorem certOk_block {f g : Function} {cert : Cert} (h : certOk f g cert = true) {b : Nat} {bf : Block}
    (hf : f.block b = some bf) :
    ∃ bg Dend, g.block b = some bg ∧ bg.index = b ∧ BlockFacts g cert bf bg Dend := by
  unfold certOk at h
  simp only [Bool.and_eq_true] at h
  obtain ⟨bg, hbg, hok⟩ := blocksOk_find h.2 (b := b) (bf := bf) hf
  obtain ⟨Dend, facts⟩ := blockOk_facts hok
  exact ⟨bg, Dend, hbg, find_index hbg, facts⟩

end Dce
end Falcon
