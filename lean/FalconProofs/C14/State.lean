/-
  FalconProofs.C14.State — facts about the executor's state used by the soundness proof of `dceCheck`:
  `get`/`set`, evaluation only depends on the names an expression mentions, agreement outside a set.
-/
import FalconModel.DceCert

namespace Falcon
namespace Dce

theorem lookup_filter_ne (l : List (String × Const)) (n m : String) (h : m ≠ n) :
    (l.filter (fun p => p.1 != n)).lookup m = l.lookup m := by
  induction l with
  | nil => rfl
  | cons p l ih =>
    obtain ⟨k, b⟩ := p
    by_cases hk : k = n
    · subst hk
      have hmk : (m == k) = false := by simpa using h
      simp [List.filter, List.lookup, hmk, ih]
    · have : ((k, b).1 != n) = true := by simpa using hk
      simp only [List.filter, this, List.lookup, ih]

theorem get_set (σ : State) (n m : String) (v : Const) :
    (σ.set n v).get m = if m = n then some v else σ.get m := by
  unfold State.set State.get
  by_cases h : m = n
  · subst h; simp [List.lookup]
  · have hb : (m == n) = false := by simpa using h
    simp only [List.lookup, hb, h, if_false]
    exact lookup_filter_ne σ.scalars n m h

theorem set_mem (σ : State) (n : String) (v : Const) : (σ.set n v).mem = σ.mem := rfl
theorem set_endian (σ : State) (n : String) (v : Const) : (σ.set n v).endian = σ.endian := rfl

/-- the two states give the same value (or both none) to every name outside `D` -/
def Agree (D : Names) (σ τ : State) : Prop := ∀ n, n ∉ D → σ.get n = τ.get n

theorem Agree.refl (D : Names) (σ : State) : Agree D σ σ := fun _ _ => rfl

theorem Agree.mono {D D' : Names} {σ τ : State} (h : Agree D σ τ) (hs : ∀ n, n ∈ D → n ∈ D') :
    Agree D' σ τ := fun n hn => h n (fun hd => hn (hs n hd))

theorem Agree.nil {σ τ : State} (h : Agree [] σ τ) (n : String) : σ.get n = τ.get n :=
  h n (by simp)

/-- `symbolize` looks at the state only through the names of the expression's scalars -/
theorem symbolize_congr (σ τ : State) (e : Expr)
    (h : ∀ s, s ∈ e.scalars → σ.get s.name = τ.get s.name) : σ.symbolize e = τ.symbolize e := by
  induction e with
  | scalar s =>
    have := h s (by simp [Expr.scalars])
    simp [State.symbolize, this]
  | const c => rfl
  | bin op l r ihl ihr =>
    have hl := ihl (fun s hs => h s (by simp [Expr.scalars, hs]))
    have hr := ihr (fun s hs => h s (by simp [Expr.scalars, hs]))
    simp [State.symbolize, hl, hr]
  | ext op b e ih =>
    have he := ih (fun s hs => h s (by simp [Expr.scalars, hs]))
    simp [State.symbolize, he]
  | ite c t e ihc iht ihe =>
    have hc := ihc (fun s hs => h s (by simp [Expr.scalars, hs]))
    have ht := iht (fun s hs => h s (by simp [Expr.scalars, hs]))
    have he := ihe (fun s hs => h s (by simp [Expr.scalars, hs]))
    simp [State.symbolize, hc, ht, he]

theorem disjoint_not_mem {xs D : Names} (h : disjoint xs D = true) {x : String} (hx : x ∈ xs) : x ∉ D := by
  unfold disjoint at h
  rw [List.all_eq_true] at h
  have := h x hx
  simpa using this

theorem subset_mem {xs ys : Names} (h : subset xs ys = true) {x : String} (hx : x ∈ xs) : x ∈ ys := by
  unfold subset at h
  rw [List.all_eq_true] at h
  have := h x hx
  simpa using this

theorem disjoint_append {xs ys D : Names} (h : disjoint (xs ++ ys) D = true) :
    disjoint xs D = true ∧ disjoint ys D = true := by
  unfold disjoint at *
  rw [List.all_append, Bool.and_eq_true] at h
  exact h

/-- an expression none of whose names is in `D` evaluates alike in states that agree outside `D` -/
theorem evalIn_agree {D : Names} {σ τ : State} (ha : Agree D σ τ) (e : Expr)
    (hd : disjoint (exprNames e) D = true) : σ.evalIn e = τ.evalIn e := by
  have : σ.symbolize e = τ.symbolize e := by
    apply symbolize_congr
    intro s hs
    apply ha
    apply disjoint_not_mem hd
    unfold exprNames
    exact List.mem_map_of_mem hs
  unfold State.evalIn
  rw [this]

theorem guardHolds_agree {D : Names} {σ τ : State} (ha : Agree D σ τ) (g : Option Expr)
    (hd : disjoint (guardNames g) D = true) (h : guardHolds σ g) : guardHolds τ g := by
  cases g with
  | none => trivial
  | some e =>
    obtain ⟨c, hc, hv⟩ := h
    refine ⟨c, ?_, hv⟩
    rw [← evalIn_agree ha e hd]
    exact hc

/-- agreement after both sides write the same value to `x` -/
theorem Agree.set_both {D : Names} {σ τ : State} (ha : Agree D σ τ) (x : String) (v : Const) :
    Agree (D.filter (· != x)) (σ.set x v) (τ.set x v) := by
  intro n hn
  rw [get_set, get_set]
  by_cases h : n = x
  · simp [h]
  · simp only [h, if_false]
    apply ha
    intro hd
    apply hn
    rw [List.mem_filter]
    exact ⟨hd, by simpa using h⟩

/-- agreement after only the left side writes `x` -/
theorem Agree.set_left {D : Names} {σ τ : State} (ha : Agree D σ τ) (x : String) (v : Const) :
    Agree (x :: D) (σ.set x v) τ := by
  intro n hn
  rw [get_set]
  have h1 : n ≠ x := fun h => hn (by simp [h])
  have h2 : n ∉ D := fun h => hn (by simp [h])
  simp only [h1, if_false]
  exact ha n h2

end Dce
end Falcon
