/-
  FalconProofs.C14.Sim — the simulation: every step of the input function `f` is matched by a step of
  the output `g` to the same (block, position), with equal memories and states that agree outside the
  dead set of the new position; lifted to runs of any length.
-/
import FalconProofs.C14.Walk
import FalconProofs.C14.Exec

namespace Falcon
namespace Dce

/-- the relation between a configuration of the run of `f` and the one of the run of `g` -/
structure Sim (f g : Function) (cert : Cert) (c d : Config) : Prop where
  block : d.block = c.block
  pos : d.pos = c.pos
  same : SameMem c.state d.state
  agree : Agree (deadAt f g cert c.block c.pos) c.state d.state

theorem Sim.init (f g : Function) (cert : Cert) (c : Config) : Sim f g cert c c :=
  ⟨rfl, rfl, ⟨rfl, rfl⟩, Agree.refl _ _⟩

theorem deadAt_eq {f g : Function} {cert : Cert} {b p : Nat} {bf bg : Block} {D : Names}
    (hf : f.block b = some bf) (hg : g.block b = some bg)
    (hw : walkTo (cert.din b) bf.instrs bg.instrs p = some D) : deadAt f g cert b p = D := by
  simp [deadAt, hf, hg, hw]

theorem deadAt_zero (f g : Function) (cert : Cert) (b : Nat) : deadAt f g cert b 0 = cert.din b := by
  unfold deadAt
  cases f.block b <;> cases g.block b <;> simp [walkTo]

/-- ONE STEP of `f` is matched by one step of `g` -/
theorem step_sim {f g : Function} {cert : Cert} (hc : certOk f g cert = true) {c c' d : Config}
    (hs : Sim f g cert c d) (hstep : FStep f c c') :
    ∃ d', FStep g d d' ∧ Sim f g cert c' d' := by
  obtain ⟨cb, cp, cσ⟩ := c
  obtain ⟨db, dp, dσ⟩ := d
  obtain ⟨hb, hp, hm, ha⟩ := hs
  simp only at hb hp hm ha
  subst hb hp
  cases hstep with
  | @instr bf i _ σ' hf hi hx =>
    simp only at hf hi hx
    obtain ⟨bg, Dend, hg, hidx, facts⟩ := certOk_block hc hf
    have hwalk := facts.walk
    rw [hidx] at hwalk
    have hlt : dp < bf.instrs.length := by
      rcases Nat.lt_or_ge dp bf.instrs.length with h | h
      · exact h
      · rw [List.getElem?_eq_none h] at hi; cases hi
    obtain ⟨Dp, hDp⟩ := walk_walkTo hwalk dp (Nat.le_of_lt hlt)
    obtain ⟨j, D', hj, hst, hnext⟩ := walkTo_step hwalk hDp hi
    rw [deadAt_eq hf hg hDp] at ha
    obtain ⟨τ', hxg, hm', ha'⟩ := stepD_sound hst hm ha hx
    refine ⟨⟨db, dp + 1, τ'⟩, ?_, ?_⟩
    · exact FStep.instr (c := ⟨db, dp, dσ⟩) hg hj hxg
    · refine ⟨rfl, rfl, hm', ?_⟩
      simp only
      rw [deadAt_eq hf hg hnext]
      exact ha'
  | @edge bf e _ hf hpos he hguard =>
    simp only at hf hpos he hguard
    obtain ⟨bg, Dend, hg, hidx, facts⟩ := certOk_block hc hf
    have hwalk := facts.walk
    rw [hidx] at hwalk
    have hend := walkTo_end hwalk
    rw [← hpos] at hend
    rw [deadAt_eq hf hg hend] at ha
    have hlen := walk_length hwalk
    have heg : e ∈ g.cfg.edgesOut db := by rw [← certOk_edgesOut hc]; exact he
    have hok := facts.endOk
    rw [hidx] at hok
    unfold endOk at hok
    have hne : (g.cfg.edgesOut db).isEmpty = false := by
      cases hl : g.cfg.edgesOut db with
      | nil => rw [hl] at heg; cases heg
      | cons x xs => rfl
    simp only [hne, Bool.false_eq_true, if_false, List.all_eq_true, Bool.and_eq_true] at hok
    obtain ⟨hdis, hsub⟩ := hok e heg
    refine ⟨⟨e.tail, 0, dσ⟩, ?_, ?_⟩
    · exact FStep.edge (c := ⟨db, dp, dσ⟩) hg (by simp only; rw [hpos, hlen]) heg
        (guardHolds_agree ha e.cond hdis hguard)
    · refine ⟨rfl, rfl, hm, ?_⟩
      simp only
      rw [deadAt_zero]
      exact ha.mono (fun n hn => subset_mem hsub hn)

/-- a run as the list of the configurations it visits (at least the first one) -/
inductive Trace (f : Function) : List Config → Prop where
  | single (c : Config) : Trace f [c]
  | cons {c d : Config} {t : List Config} : FStep f c d → Trace f (d :: t) → Trace f (c :: d :: t)

/-- position-wise relation of two lists of the same length -/
inductive Pointwise (R : Config → Config → Prop) : List Config → List Config → Prop where
  | nil : Pointwise R [] []
  | cons {c d : Config} {s t : List Config} : R c d → Pointwise R s t → Pointwise R (c :: s) (d :: t)

theorem Pointwise.length {R : Config → Config → Prop} {s t : List Config} (h : Pointwise R s t) :
    s.length = t.length := by
  induction h with
  | nil => rfl
  | cons _ _ ih => simp [ih]

theorem Pointwise.get {R : Config → Config → Prop} {s t : List Config} (h : Pointwise R s t)
    {k : Nat} {c : Config} (hc : s[k]? = some c) : ∃ d, t[k]? = some d ∧ R c d := by
  induction h generalizing k with
  | nil => simp at hc
  | @cons c0 d0 s t hr _ ih =>
    cases k with
    | zero =>
      simp only [List.getElem?_cons_zero, Option.some.injEq] at hc
      subst hc
      exact ⟨d0, by simp, hr⟩
    | succ k =>
      simp only [List.getElem?_cons_succ] at hc
      obtain ⟨d, hd, hr'⟩ := ih hc
      exact ⟨d, by simpa using hd, hr'⟩

/-- RUNS of any length: from related configurations, every trace of `f` has a matching trace of `g` -/
theorem trace_sim {f g : Function} {cert : Cert} (hc : certOk f g cert = true) {t : List Config}
    {c d : Config} (hs : Sim f g cert c d) (ht : Trace f (c :: t)) :
    ∃ t', Trace g (d :: t') ∧ Pointwise (Sim f g cert) (c :: t) (d :: t') := by
  induction t generalizing c d with
  | nil => exact ⟨[], Trace.single d, Pointwise.cons hs Pointwise.nil⟩
  | cons c' t ih =>
    cases ht with
    | cons hstep hrest =>
      obtain ⟨d', hgstep, hs'⟩ := step_sim hc hs hstep
      obtain ⟨t', htr, hpw⟩ := ih hs' hrest
      exact ⟨d' :: t', Trace.cons hgstep htr, Pointwise.cons hs hpw⟩

/-- the same for the reflexive-transitive closure `FRun` of Exec.lean -/
theorem run_sim {f g : Function} {cert : Cert} (hc : certOk f g cert = true) {c0 c : Config}
    (hr : FRun f c0 c) : ∃ d, FRun g c0 d ∧ Sim f g cert c d := by
  induction hr with
  | refl => exact ⟨c0, FRun.refl c0, Sim.init f g cert c0⟩
  | step _ hstep ih =>
    obtain ⟨d, hrun, hs⟩ := ih
    obtain ⟨d', hgstep, hs'⟩ := step_sim hc hs hstep
    exact ⟨d', FRun.step hrun hgstep, hs'⟩

end Dce
end Falcon
