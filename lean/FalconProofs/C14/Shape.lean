/-
  FalconProofs.C14.Shape — the shape clause: an accepted output is the input with some assigns/loads
  replaced by `nop`, position by position.
-/
import FalconProofs.C14.Walk

namespace Falcon
namespace Dce

/-- instruction `j` is instruction `i`, possibly with its operation replaced by `nop` — which may only
    happen to an assign or a load -/
def NopOf (i j : Instr) : Prop :=
  j.index = i.index ∧ j.addr = i.addr ∧
  (j.op = i.op ∨ (j.op = .nop ∧ ((∃ d e, i.op = .assign d e) ∨ (∃ d e, i.op = .load d e))))

/-- block `bg` is block `bf` with some assigns/loads replaced by `nop` -/
def BlockNopOf (bf bg : Block) : Prop :=
  bg.index = bf.index ∧ bg.nextInstr = bf.nextInstr ∧ bg.phis = bf.phis ∧
  bg.instrs.length = bf.instrs.length ∧
  ∀ (p : Nat) (i : Instr), bf.instrs[p]? = some i → ∃ j, bg.instrs[p]? = some j ∧ NopOf i j

theorem stepD_shape {D D' : Names} {i j : Instr} (hst : stepD D i j = some D') : NopOf i j := by
  unfold stepD at hst
  by_cases h0 : i.index ≠ j.index ∨ i.addr ≠ j.addr
  · simp [h0] at hst
  · simp only [h0, if_false] at hst
    have h0' : i.index = j.index ∧ i.addr = j.addr := by
      constructor
      · exact Classical.byContradiction (fun h => h0 (Or.inl h))
      · exact Classical.byContradiction (fun h => h0 (Or.inr h))
    refine ⟨h0'.1.symm, h0'.2.symm, ?_⟩
    by_cases hop : i.op = j.op
    · exact Or.inl hop.symm
    · simp only [hop, if_false] at hst
      by_cases hn : j.op = .nop
      · simp only [hn, if_true] at hst
        refine Or.inr ⟨hn, ?_⟩
        cases hi : i.op with
        | assign d src => exact Or.inl ⟨d, src, rfl⟩
        | load d a => exact Or.inr ⟨d, a, rfl⟩
        | store a s => simp [hi] at hst
        | branch t => simp [hi] at hst
        | intrinsic x => simp [hi] at hst
        | nop => simp [hi] at hst
      · simp [hn] at hst

theorem walk_shape {D Dend : Names} {is js : List Instr} (h : walk D is js = some Dend)
    {p : Nat} {i : Instr} (hi : is[p]? = some i) : ∃ j, js[p]? = some j ∧ NopOf i j := by
  have hlt : p < is.length := by
    rcases Nat.lt_or_ge p is.length with h' | h'
    · exact h'
    · rw [List.getElem?_eq_none h'] at hi; cases hi
  obtain ⟨Dp, hDp⟩ := walk_walkTo h p (Nat.le_of_lt hlt)
  obtain ⟨j, D', hj, hst, _⟩ := walkTo_step h hDp hi
  exact ⟨j, hj, stepD_shape hst⟩

theorem blockOk_shape {g : Function} {cert : Cert} {bf bg : Block} (h : blockOk g cert bf bg = true) :
    BlockNopOf bf bg := by
  obtain ⟨Dend, facts⟩ := blockOk_facts h
  exact ⟨facts.index.symm, facts.nextInstr.symm, facts.phis.symm, (walk_length facts.walk).symm,
    fun _ _ hi => walk_shape facts.walk hi⟩

theorem blocksOk_length {g : Function} {cert : Cert} {fs gs : List Block}
    (h : blocksOk g cert fs gs = true) : gs.length = fs.length := by
  induction fs generalizing gs with
  | nil => cases gs with
    | nil => rfl
    | cons y gs => simp [blocksOk] at h
  | cons x fs ih => cases gs with
    | nil => simp [blocksOk] at h
    | cons y gs =>
      simp only [blocksOk, Bool.and_eq_true] at h
      simp [ih h.2]

theorem blocksOk_get {g : Function} {cert : Cert} {fs gs : List Block}
    (h : blocksOk g cert fs gs = true) {k : Nat} {bf : Block} (hk : fs[k]? = some bf) :
    ∃ bg, gs[k]? = some bg ∧ BlockNopOf bf bg := by
  induction fs generalizing gs k with
  | nil => simp at hk
  | cons x fs ih => cases gs with
    | nil => simp [blocksOk] at h
    | cons y gs =>
      simp only [blocksOk, Bool.and_eq_true] at h
      cases k with
      | zero =>
        simp only [List.getElem?_cons_zero, Option.some.injEq] at hk
        subst hk
        exact ⟨y, by simp, blockOk_shape h.1⟩
      | succ k =>
        simp only [List.getElem?_cons_succ] at hk
        obtain ⟨bg, hbg, hs⟩ := ih h.2 hk
        exact ⟨bg, by simpa using hbg, hs⟩

/-- function `g` is function `f` with some assigns/loads replaced by `nop` -/
def FunctionNopOf (f g : Function) : Prop :=
  g.addr = f.addr ∧ g.index = f.index ∧ g.cfg.edges = f.cfg.edges ∧ g.cfg.entry = f.cfg.entry ∧
  g.cfg.exit = f.cfg.exit ∧ g.cfg.nextIndex = f.cfg.nextIndex ∧ g.cfg.nextTemp = f.cfg.nextTemp ∧
  g.cfg.blocks.length = f.cfg.blocks.length ∧
  ∀ (k : Nat) (bf : Block), f.cfg.blocks[k]? = some bf → ∃ bg, g.cfg.blocks[k]? = some bg ∧ BlockNopOf bf bg

theorem certOk_shape {f g : Function} {cert : Cert} (h : certOk f g cert = true) : FunctionNopOf f g := by
  have hh := certOk_header h
  unfold certOk at h
  simp only [Bool.and_eq_true] at h
  unfold headerOk at hh
  simp only [Bool.and_eq_true, beq_iff_eq, decide_eq_true_eq] at hh
  obtain ⟨⟨⟨⟨⟨⟨h1, h2⟩, h3⟩, h4⟩, h5⟩, h6⟩, h7⟩ := hh
  exact ⟨h1.symm, h2.symm, h3.symm, h4.symm, h5.symm, h6.symm, h7.symm, blocksOk_length h.2,
    fun _ _ hk => blocksOk_get h.2 hk⟩

end Dce
end Falcon
