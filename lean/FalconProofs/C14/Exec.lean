/-
  FalconProofs.C14.Exec — one accepted instruction pair: if the input's instruction executes and falls
  through, so does the output's, the memories stay equal and the states agree outside the next dead set.
-/
import FalconProofs.C14.State

namespace Falcon
namespace Dce

theorem execute_assign {σ σ' : State} {d : Scalar} {src : Expr} {s : Succ}
    (h : execute σ (.assign d src) = .ok (σ', s)) :
    ∃ v, σ.evalIn src = .ok v ∧ σ' = σ.set d.name v ∧ s = .fallThrough := by
  simp only [execute] at h
  cases hv : σ.evalIn src with
  | ok v =>
    simp only [hv, Res.bind_ok, Res.ok.injEq, Prod.mk.injEq] at h
    exact ⟨v, rfl, h.1.symm, h.2.symm⟩
  | err e => simp [hv] at h
  | panic => simp [hv] at h

theorem execute_load {σ σ' : State} {d : Scalar} {idx : Expr} {s : Succ}
    (h : execute σ (.load d idx) = .ok (σ', s)) :
    ∃ i a bs, σ.evalIn idx = .ok i ∧ addrOf i = .ok a ∧ ¬ (d.bits % 8 ≠ 0 ∨ d.bits = 0) ∧
      ¬ (a + d.bits / 8 > 2 ^ 64) ∧ σ.mem.readBytes a (d.bits / 8) = some bs ∧
      σ' = σ.set d.name (constOfBytes σ.endian bs) ∧ s = .fallThrough := by
  simp only [execute] at h
  cases hi : σ.evalIn idx with
  | err e => simp [hi] at h
  | panic => simp [hi] at h
  | ok i =>
    simp only [hi, Res.bind_ok] at h
    cases ha : addrOf i with
    | err e => simp [ha] at h
    | panic => simp [ha] at h
    | ok a =>
      simp only [ha, Res.bind_ok] at h
      by_cases h1 : d.bits % 8 ≠ 0 ∨ d.bits = 0
      · simp [h1] at h
      · simp only [h1, if_false] at h
        by_cases h2 : a + d.bits / 8 > 2 ^ 64
        · simp [h2] at h
        · simp only [h2, if_false] at h
          cases hr : σ.mem.readBytes a (d.bits / 8) with
          | none => simp [hr] at h
          | some bs =>
            simp only [hr, Res.ok.injEq, Prod.mk.injEq] at h
            exact ⟨i, a, bs, rfl, ha, h1, h2, hr, h.1.symm, h.2.symm⟩

theorem execute_store {σ σ' : State} {idx src : Expr} {s : Succ}
    (h : execute σ (.store idx src) = .ok (σ', s)) :
    ∃ v i a, σ.evalIn src = .ok v ∧ σ.evalIn idx = .ok i ∧ addrOf i = .ok a ∧
      ¬ (v.bits % 8 ≠ 0 ∨ v.bits = 0) ∧ ¬ (a + v.bits / 8 > 2 ^ 64) ∧
      σ' = { σ with mem := σ.mem.write a (bytesOf σ.endian v) } ∧ s = .fallThrough := by
  simp only [execute] at h
  cases hv : σ.evalIn src with
  | err e => simp [hv] at h
  | panic => simp [hv] at h
  | ok v =>
    simp only [hv, Res.bind_ok] at h
    cases hi : σ.evalIn idx with
    | err e => simp [hi] at h
    | panic => simp [hi] at h
    | ok i =>
      simp only [hi, Res.bind_ok] at h
      cases ha : addrOf i with
      | err e => simp [ha] at h
      | panic => simp [ha] at h
      | ok a =>
        simp only [ha, Res.bind_ok] at h
        by_cases h1 : v.bits % 8 ≠ 0 ∨ v.bits = 0
        · simp [h1] at h
        · simp only [h1, if_false] at h
          by_cases h2 : a + v.bits / 8 > 2 ^ 64
          · simp [h2] at h
          · simp only [h2, if_false, Res.ok.injEq, Prod.mk.injEq] at h
            exact ⟨v, i, a, rfl, rfl, ha, h1, h2, h.1.symm, h.2.symm⟩

theorem execute_branch_not_fall {σ σ' : State} {t : Expr} :
    execute σ (.branch t) ≠ .ok (σ', .fallThrough) := by
  intro h
  simp only [execute] at h
  cases ht : σ.evalIn t with
  | err e => simp [ht] at h
  | panic => simp [ht] at h
  | ok v =>
    simp only [ht, Res.bind_ok] at h
    cases ha : addrOf v with
    | err e => simp [ha] at h
    | panic => simp [ha] at h
    | ok a => simp [ha] at h

theorem execute_intrinsic_not_ok {σ : State} {x : Intrinsic} {r : State × Succ} :
    execute σ (.intrinsic x) ≠ .ok r := by
  intro h
  simp [execute] at h

/-- what relates the two states of a pair of configurations, apart from the dead set -/
structure SameMem (σ τ : State) : Prop where
  mem : τ.mem = σ.mem
  endian : τ.endian = σ.endian

/-- THE STEP on one accepted instruction pair -/
theorem stepD_sound {D D' : Names} {i j : Instr} (hst : stepD D i j = some D')
    {σ τ σ' : State} (hm : SameMem σ τ) (ha : Agree D σ τ)
    (hx : execute σ i.op = .ok (σ', .fallThrough)) :
    ∃ τ', execute τ j.op = .ok (τ', .fallThrough) ∧ SameMem σ' τ' ∧ Agree D' σ' τ' := by
  unfold stepD at hst
  by_cases h0 : i.index ≠ j.index ∨ i.addr ≠ j.addr
  · simp [h0] at hst
  · simp only [h0, if_false] at hst
    by_cases hop : i.op = j.op
    · simp only [hop, if_true] at hst
      rw [hop] at hx
      cases hj : j.op with
      | assign d src =>
        simp only [hj] at hst hx
        by_cases hd : disjoint (exprNames src) D = true
        · simp only [hd, if_true, Option.some.injEq] at hst
          subst hst
          obtain ⟨v, hv, hσ', _⟩ := execute_assign hx
          refine ⟨τ.set d.name v, ?_, ?_, ?_⟩
          · simp only [execute]
            rw [← evalIn_agree ha src hd, hv]
            rfl
          · subst hσ'; exact ⟨by simp [set_mem, hm.mem], by simp [set_endian, hm.endian]⟩
          · subst hσ'; exact ha.set_both d.name v
        · simp [hd] at hst
      | store a s =>
        simp only [hj] at hst hx
        by_cases hd : disjoint (exprNames a ++ exprNames s) D = true
        · simp only [hd, if_true, Option.some.injEq] at hst
          subst hst
          obtain ⟨hda, hds⟩ := disjoint_append hd
          obtain ⟨v, iv, ad, hv, hi, had, h1, h2, hσ', _⟩ := execute_store hx
          refine ⟨{ τ with mem := τ.mem.write ad (bytesOf τ.endian v) }, ?_, ?_, ?_⟩
          · simp only [execute]
            rw [← evalIn_agree ha s hds, hv, ← evalIn_agree ha a hda, hi]
            simp only [Res.bind_ok, had, h1, h2, if_false]
          · subst hσ'; exact ⟨by simp [hm.mem, hm.endian], by simp [hm.endian]⟩
          · subst hσ'; exact fun n hn => ha n hn
        · simp [hd] at hst
      | load d a =>
        simp only [hj] at hst hx
        by_cases hd : disjoint (exprNames a) D = true
        · simp only [hd, if_true, Option.some.injEq] at hst
          subst hst
          obtain ⟨iv, ad, bs, hi, had, h1, h2, hr, hσ', _⟩ := execute_load hx
          refine ⟨τ.set d.name (constOfBytes τ.endian bs), ?_, ?_, ?_⟩
          · simp only [execute]
            rw [← evalIn_agree ha a hd, hi]
            simp only [Res.bind_ok, had, h1, h2, if_false, hm.mem, hr]
          · subst hσ'; exact ⟨by simp [set_mem, hm.mem], by simp [set_endian, hm.endian]⟩
          · subst hσ'; rw [hm.endian]; exact ha.set_both d.name _
        · simp [hd] at hst
      | branch t =>
        rw [hj] at hx
        exact absurd hx execute_branch_not_fall
      | intrinsic x =>
        rw [hj] at hx
        exact absurd hx execute_intrinsic_not_ok
      | nop =>
        simp only [hj, Option.some.injEq] at hst hx
        subst hst
        simp only [execute, Res.ok.injEq, Prod.mk.injEq, and_true] at hx
        subst hx
        exact ⟨τ, by simp [execute], hm, ha⟩
    · simp only [hop, if_false] at hst
      by_cases hn : j.op = .nop
      · simp only [hn, if_true] at hst
        cases hi : i.op with
        | assign d src =>
          simp only [hi, Option.some.injEq] at hst hx
          subst hst
          obtain ⟨v, _, hσ', _⟩ := execute_assign hx
          subst hσ'
          exact ⟨τ, by simp [hn, execute], ⟨by simp [set_mem, hm.mem], by simp [set_endian, hm.endian]⟩,
            ha.set_left d.name v⟩
        | load d a =>
          simp only [hi, Option.some.injEq] at hst hx
          subst hst
          obtain ⟨_, _, bs, _, _, _, _, _, hσ', _⟩ := execute_load hx
          subst hσ'
          exact ⟨τ, by simp [hn, execute], ⟨by simp [set_mem, hm.mem], by simp [set_endian, hm.endian]⟩,
            ha.set_left d.name _⟩
        | store a s => simp [hi] at hst
        | branch t => simp [hi] at hst
        | intrinsic x => simp [hi] at hst
        | nop => simp [hi] at hst
      · simp [hn] at hst

end Dce
end Falcon
