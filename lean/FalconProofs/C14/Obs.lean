/-
  FalconProofs.C14.Obs — what related configurations show to an observer: the same store event, the
  same operation at indirect branches and intrinsics with an empty dead set there, and an empty dead
  set at the end of a block without successors.
-/
import FalconProofs.C14.Sim

namespace Falcon
namespace Dce

theorem blocksOk_find_none {g : Function} {cert : Cert} {fs gs : List Block}
    (h : blocksOk g cert fs gs = true) {b : Nat} (hf : fs.find? (·.index == b) = none) :
    gs.find? (·.index == b) = none := by
  induction fs generalizing gs with
  | nil => cases gs with
    | nil => rfl
    | cons y gs => simp [blocksOk] at h
  | cons x fs ih => cases gs with
    | nil => simp [blocksOk] at h
    | cons y gs =>
      simp only [blocksOk, Bool.and_eq_true] at h
      obtain ⟨hxy, hrest⟩ := h
      have hidx : x.index = y.index := by
        unfold blockOk at hxy
        simp only [Bool.and_eq_true, beq_iff_eq] at hxy
        exact hxy.1.1.1
      by_cases hb : x.index = b
      · have hx : (x.index == b) = true := by simpa using hb
        simp [List.find?, hx] at hf
      · have hx : (x.index == b) = false := by simpa using hb
        have hy : (y.index == b) = false := by simpa [← hidx] using hb
        simp only [List.find?, hx] at hf
        simp only [List.find?, hy]
        exact ih hrest hf

theorem certOk_block_none {f g : Function} {cert : Cert} (h : certOk f g cert = true) {b : Nat}
    (hf : f.block b = none) : g.block b = none := by
  unfold certOk at h
  simp only [Bool.and_eq_true] at h
  exact blocksOk_find_none h.2 hf

/-- an accepted pair performs the same memory write -/
theorem stepD_store {D D' : Names} {i j : Instr} (hst : stepD D i j = some D')
    {σ τ : State} (hm : SameMem σ τ) (ha : Agree D σ τ) :
    opStoreEvent σ i.op = opStoreEvent τ j.op := by
  unfold stepD at hst
  by_cases h0 : i.index ≠ j.index ∨ i.addr ≠ j.addr
  · simp [h0] at hst
  · simp only [h0, if_false] at hst
    by_cases hop : i.op = j.op
    · simp only [hop, if_true] at hst
      rw [hop]
      cases hj : j.op with
      | store a s =>
        simp only [hj] at hst
        by_cases hd : disjoint (exprNames a ++ exprNames s) D = true
        · obtain ⟨hda, hds⟩ := disjoint_append hd
          simp only [opStoreEvent]
          rw [evalIn_agree ha s hds, evalIn_agree ha a hda, hm.endian]
        · simp [hd] at hst
      | assign d src => rfl
      | load d a => rfl
      | branch t => rfl
      | intrinsic x => rfl
      | nop => rfl
    · simp only [hop, if_false] at hst
      by_cases hn : j.op = .nop
      · simp only [hn, if_true] at hst
        rw [hn]
        cases hi : i.op with
        | assign d src => rfl
        | load d a => rfl
        | store a s => simp [hi] at hst
        | branch t => simp [hi] at hst
        | intrinsic x => simp [hi] at hst
        | nop => simp [hi] at hst
      · simp [hn] at hst

/-- at an indirect branch or an intrinsic of the input, the output has the same operation and the
    dead set is empty -/
theorem stepD_observable {D D' : Names} {i j : Instr} (hst : stepD D i j = some D')
    (ho : isObservable i.op = true) : j.op = i.op ∧ D = [] := by
  unfold stepD at hst
  by_cases h0 : i.index ≠ j.index ∨ i.addr ≠ j.addr
  · simp [h0] at hst
  · simp only [h0, if_false] at hst
    by_cases hop : i.op = j.op
    · simp only [hop, if_true] at hst
      rw [hop] at ho
      refine ⟨hop.symm, ?_⟩
      cases hj : j.op with
      | branch t =>
        simp only [hj] at hst
        by_cases he : D.isEmpty = true
        · exact List.isEmpty_iff.mp he
        · simp [he] at hst
      | intrinsic x =>
        simp only [hj] at hst
        by_cases he : D.isEmpty = true
        · exact List.isEmpty_iff.mp he
        · simp [he] at hst
      | assign d src => simp [hj, isObservable] at ho
      | load d a => simp [hj, isObservable] at ho
      | store a s => simp [hj, isObservable] at ho
      | nop => simp [hj, isObservable] at ho
    · simp only [hop, if_false] at hst
      by_cases hn : j.op = .nop
      · simp only [hn, if_true] at hst
        cases hi : i.op with
        | assign d src => simp [hi, isObservable] at ho
        | load d a => simp [hi, isObservable] at ho
        | store a s => simp [hi] at hst
        | branch t => simp [hi] at hst
        | intrinsic x => simp [hi] at hst
        | nop => simp [hi] at hst
      · simp [hn] at hst

/-- related configurations perform the same memory write (or both none) -/
theorem sim_storeEvent {f g : Function} {cert : Cert} (hc : certOk f g cert = true) {c d : Config}
    (hs : Sim f g cert c d) : storeEvent f c = storeEvent g d := by
  obtain ⟨cb, cp, cσ⟩ := c
  obtain ⟨db, dp, dσ⟩ := d
  obtain ⟨hb, hp, hm, ha⟩ := hs
  simp only at hb hp hm ha
  subst hb hp
  unfold storeEvent
  simp only
  cases hf : f.block db with
  | none => simp [certOk_block_none hc hf]
  | some bf =>
    obtain ⟨bg, Dend, hg, hidx, facts⟩ := certOk_block hc hf
    have hwalk := facts.walk
    rw [hidx] at hwalk
    have hlen := walk_length hwalk
    simp only [hg]
    cases hi : bf.instrs[dp]? with
    | none =>
      have : bf.instrs.length ≤ dp := by
        rcases Nat.lt_or_ge dp bf.instrs.length with h | h
        · rw [List.getElem?_eq_getElem h] at hi; cases hi
        · exact h
      rw [List.getElem?_eq_none (by omega)]
    | some i =>
      have hlt : dp < bf.instrs.length := by
        rcases Nat.lt_or_ge dp bf.instrs.length with h | h
        · exact h
        · rw [List.getElem?_eq_none h] at hi; cases hi
      obtain ⟨Dp, hDp⟩ := walk_walkTo hwalk dp (Nat.le_of_lt hlt)
      obtain ⟨j, D', hj, hst, _⟩ := walkTo_step hwalk hDp hi
      rw [deadAt_eq hf hg hDp] at ha
      simp only [hj]
      exact stepD_store hst hm ha

/-- at an indirect branch or intrinsic of `f` the dead set is empty and `g` has the same operation -/
theorem observable_dead_nil {f g : Function} {cert : Cert} (hc : certOk f g cert = true) {c : Config}
    {op : Op} (hop : opAt f c = some op) (ho : isObservable op = true) :
    deadAt f g cert c.block c.pos = [] ∧ opAt g c = some op := by
  unfold opAt at hop
  cases hf : f.block c.block with
  | none => simp [hf] at hop
  | some bf =>
    simp only [hf, Option.map_eq_some_iff] at hop
    obtain ⟨i, hi, hio⟩ := hop
    subst hio
    obtain ⟨bg, Dend, hg, hidx, facts⟩ := certOk_block hc hf
    have hwalk := facts.walk
    rw [hidx] at hwalk
    have hlt : c.pos < bf.instrs.length := by
      rcases Nat.lt_or_ge c.pos bf.instrs.length with h | h
      · exact h
      · rw [List.getElem?_eq_none h] at hi; cases hi
    obtain ⟨Dp, hDp⟩ := walk_walkTo hwalk c.pos (Nat.le_of_lt hlt)
    obtain ⟨j, D', hj, hst, _⟩ := walkTo_step hwalk hDp hi
    obtain ⟨hjo, hD⟩ := stepD_observable hst ho
    rw [deadAt_eq hf hg hDp]
    refine ⟨hD, ?_⟩
    unfold opAt
    simp [hg, hj, hjo]

/-- at the end of a block without successors the dead set is empty, and `g` is at an exit too -/
theorem exit_dead_nil {f g : Function} {cert : Cert} (hc : certOk f g cert = true) {c : Config}
    (hx : atExit f c = true) : deadAt f g cert c.block c.pos = [] ∧ atExit g c = true := by
  unfold atExit at hx
  cases hf : f.block c.block with
  | none => simp [hf] at hx
  | some bf =>
    simp only [hf, Bool.and_eq_true, beq_iff_eq] at hx
    obtain ⟨hpos, hempty⟩ := hx
    obtain ⟨bg, Dend, hg, hidx, facts⟩ := certOk_block hc hf
    have hwalk := facts.walk
    rw [hidx] at hwalk
    have hend := walkTo_end hwalk
    rw [← hpos] at hend
    have hlen := walk_length hwalk
    have hok := facts.endOk
    rw [hidx] at hok
    unfold endOk at hok
    rw [certOk_edgesOut hc] at hempty
    simp only [hempty, if_true] at hok
    rw [deadAt_eq hf hg hend]
    refine ⟨List.isEmpty_iff.mp hok, ?_⟩
    unfold atExit
    simp [hg, hempty, hpos, hlen]

end Dce
end Falcon
