/-
  FalconProofs.C18.Reach — the locations reachable by repeated `forward` steps from the first location of the
  entry block are exactly the locations anchored at blocks on CFG paths from the entry block.
-/
import FalconProofs.C18.Nav
import FalconProofs.C18.Closure

namespace Falcon
open FLoc

theorem mem_stepF_iff {f : Function} (hf : WFf f) {A : FLoc} (hA : A ∈ f.locations) (B : FLoc) :
    B ∈ A.stepF f ↔ (B ∈ f.locations ∧ succB A B = true) := by
  obtain ⟨la, hla, hmem⟩ := forward_spec hf hA
  simp only [FLoc.stepF, hla]
  exact hmem B

theorem mem_stepB_iff {f : Function} (hf : WFf f) {B : FLoc} (hB : B ∈ f.locations) (A : FLoc) :
    A ∈ B.stepB f ↔ (A ∈ f.locations ∧ succB A B = true) := by
  obtain ⟨lb, hlb, hmem⟩ := backward_spec hf hB
  simp only [FLoc.stepB, hlb]
  exact hmem A

theorem anchor_firstLoc (b : Block) : b.firstLoc.anchor = b.index := by
  unfold Block.firstLoc; cases b.instrs.head? <;> rfl

theorem anchor_lastLoc (b : Block) : b.lastLoc.anchor = b.index := by
  unfold Block.lastLoc; cases b.instrs.getLast? <;> rfl

theorem mem_successorIndices {c : Cfg} {k t : Nat} :
    t ∈ c.successorIndices k ↔ ∃ e ∈ c.edges, e.head = k ∧ e.tail = t := by
  simp only [Cfg.successorIndices, List.mem_map, Cfg.mem_edgesOut]
  constructor
  · rintro ⟨e, ⟨h1, h2⟩, h3⟩; exact ⟨e, h1, h2, h3⟩
  · rintro ⟨e, h1, h2, h3⟩; exact ⟨e, ⟨h1, h2⟩, h3⟩

/-- a forward step stays in the block or follows one CFG edge -/
theorem succB_anchor {f : Function} {A B : FLoc} (hA : A ∈ f.locations) (hs : succB A B = true) :
    B.anchor = A.anchor ∨ B.anchor ∈ f.cfg.successorIndices A.anchor := by
  cases A with
  | instr b i =>
    cases B with
    | instr b' j =>
      simp only [succB, Bool.and_eq_true, beq_iff_eq] at hs
      exact Or.inl (by rw [hs.1]; rfl)
    | edge e =>
      simp only [succB, Bool.and_eq_true, beq_iff_eq] at hs
      exact Or.inl hs.2
    | empty b' => simp [succB] at hs
  | edge e =>
    have he := mem_locations_edge.mp hA
    cases B with
    | instr b j =>
      simp only [succB, Bool.and_eq_true, beq_iff_eq] at hs
      exact Or.inr (mem_successorIndices.mpr ⟨e, he, rfl, hs.1⟩)
    | edge e' => simp [succB] at hs
    | empty b =>
      simp only [succB, beq_iff_eq] at hs
      exact Or.inr (mem_successorIndices.mpr ⟨e, he, rfl, hs⟩)
  | empty b =>
    cases B with
    | instr b' j => simp [succB] at hs
    | edge e =>
      simp only [succB, beq_iff_eq] at hs
      exact Or.inl hs
    | empty b' => simp [succB] at hs

private theorem adjB_of_getElem? {l : List Instr} {n : Nat} {j i : Instr} (hj : l[n]? = some j)
    (hi : l[n + 1]? = some i) : adjB l j i = true := by
  rw [adjB_iff]
  obtain ⟨h1, rfl⟩ := List.getElem?_eq_some_iff.mp hj
  obtain ⟨h2, rfl⟩ := List.getElem?_eq_some_iff.mp hi
  refine ⟨l.take n, l.drop (n + 2), ?_⟩
  have e1 : l.drop n = l[n] :: l.drop (n + 1) := List.drop_eq_getElem_cons h1
  have e2 : l.drop (n + 1) = l[n + 1] :: l.drop (n + 1 + 1) := List.drop_eq_getElem_cons h2
  calc l = l.take n ++ l.drop n := (List.take_append_drop n l).symm
    _ = _ := by rw [e1, e2]

/-- inside one block every instruction is reached from the first one -/
private theorem instr_reach {f : Function} (hf : WFf f) {b : Block} (hb : b ∈ f.cfg.blocks) :
    ∀ (n : Nat) (i : Instr), b.instrs[n]? = some i → Reach (FLoc.stepF f) b.firstLoc (.instr b i) := by
  intro n
  induction n with
  | zero =>
    intro i hi
    have : b.instrs.head? = some i := by rw [List.head?_eq_getElem?]; exact hi
    simp only [Block.firstLoc, this]
    exact Reach.refl _
  | succ n ih =>
    intro i hi
    have hlt : n + 1 < b.instrs.length := (List.getElem?_eq_some_iff.mp hi).1
    have hj : b.instrs[n]? = some b.instrs[n] := List.getElem?_eq_getElem (by omega)
    have hr := ih _ hj
    have hadj := adjB_of_getElem? hj hi
    have hmj : FLoc.instr b b.instrs[n] ∈ f.locations :=
      mem_locations_instr.mpr ⟨hb, List.getElem_mem _⟩
    have hmi : FLoc.instr b i ∈ f.locations := mem_locations_instr.mpr ⟨hb, List.mem_of_getElem? hi⟩
    exact Reach.tail hr ((mem_stepF_iff hf hmj _).mpr ⟨hmi, by simp [succB, hadj]⟩)

private theorem lastLoc_reach {f : Function} (hf : WFf f) {b : Block} (hb : b ∈ f.cfg.blocks) :
    Reach (FLoc.stepF f) b.firstLoc b.lastLoc := by
  cases h : b.instrs.getLast? with
  | none =>
    have he : b.instrs = [] := by simpa using h
    simp only [Block.firstLoc, Block.lastLoc, he, List.head?_nil, List.getLast?_nil]
    exact Reach.refl _
  | some i =>
    obtain ⟨n, hn⟩ := List.getElem?_of_mem (List.mem_of_getLast? h)
    simp only [Block.lastLoc, h]
    exact instr_reach hf hb n i hn

/-- every location anchored at a block is reached from the block's first location -/
theorem block_locs_reach {f : Function} (hf : WFf f) {b : Block} (hb : b ∈ f.cfg.blocks) {l : FLoc}
    (hl : l ∈ f.locations) (ha : l.anchor = b.index) : Reach (FLoc.stepF f) b.firstLoc l := by
  cases l with
  | instr b' i =>
    obtain ⟨hb', hi⟩ := mem_locations_instr.mp hl
    have : b' = b := hf.block_inj hb' hb ha
    subst this
    obtain ⟨n, hn⟩ := List.getElem?_of_mem hi
    exact instr_reach hf hb n i hn
  | empty b' =>
    obtain ⟨hb', he⟩ := mem_locations_empty.mp hl
    have : b' = b := hf.block_inj hb' hb ha
    subst this
    simp only [Block.firstLoc, he, List.head?_nil]
    exact Reach.refl _
  | edge e =>
    have hlast := lastLoc_reach hf hb
    have hlm : b.lastLoc ∈ f.locations := lastLoc_mem hb
    refine Reach.tail hlast ((mem_stepF_iff hf hlm _).mpr ⟨hl, ?_⟩)
    simp only [FLoc.anchor] at ha
    unfold Block.lastLoc
    cases h : b.instrs.getLast? with
    | none => simp [succB, ha]
    | some i => simp [succB, ha, h]

theorem forward_closure_aux {f : Function} (hf : WFf f) {en : Nat} {b0 : Block}
    (hb0 : f.cfg.block en = some b0) (l : FLoc) :
    Reach (FLoc.stepF f) b0.firstLoc l ↔
      (l ∈ f.locations ∧ Reach (fun k => f.cfg.successorIndices k) en l.anchor) := by
  obtain ⟨hb0m, hb0i⟩ := Cfg.block_some hb0
  constructor
  · intro h
    induction h with
    | refl => exact ⟨firstLoc_mem hb0m, by rw [anchor_firstLoc, hb0i]; exact Reach.refl _⟩
    | tail _ hs ih =>
      obtain ⟨hm, hs'⟩ := (mem_stepF_iff hf ih.1 _).mp hs
      refine ⟨hm, ?_⟩
      rcases succB_anchor ih.1 hs' with h1 | h1
      · rw [h1]; exact ih.2
      · exact Reach.tail ih.2 h1
  · rintro ⟨hl, hr⟩
    generalize hk : l.anchor = k at hr
    induction hr generalizing l with
    | refl => exact block_locs_reach hf hb0m hl (by rw [hk, hb0i])
    | tail _ hs ih =>
      obtain ⟨e, he, hh, ht⟩ := mem_successorIndices.mp hs
      have hel : FLoc.edge e ∈ f.locations := mem_locations_edge.mpr he
      have hre := ih (FLoc.edge e) hel hh
      obtain ⟨blk, hblk⟩ := Cfg.hasBlock_iff.mp (hf.edge_tail e he)
      obtain ⟨hbm, hbi⟩ := Cfg.block_some hblk
      have hstep : blk.firstLoc ∈ (FLoc.edge e).stepF f := by
        refine (mem_stepF_iff hf hel _).mpr ⟨firstLoc_mem hbm, ?_⟩
        unfold Block.firstLoc
        cases hh' : blk.instrs.head? with
        | none => simp [succB, hbi]
        | some i => simp [succB, hbi, hh']
      exact Reach.trans (Reach.tail hre hstep) (block_locs_reach hf hbm hl (by rw [hk, hbi, ht]))

end Falcon
