/-
  FalconProofs.C18.Nav — `forward` / `backward` of the model answer exactly the declarative successor relation
  `succB` on the locations of a well-formed function.
-/
import FalconProofs.C18.Lists

namespace Falcon
open FLoc

private theorem edgesOut_spec {f : Function} {k : Nat} (hk : f.cfg.hasBlock k = true) :
    ∃ la, (f.cfg.edgesOutR k).map (·.map FLoc.edge) = .ok la ∧
      ∀ B, B ∈ la ↔ ∃ e, e ∈ f.cfg.edges ∧ e.head = k ∧ B = .edge e := by
  refine ⟨(f.cfg.edgesOut k).map .edge, by simp [Cfg.edgesOutR, hk, Res.map], ?_⟩
  intro B
  simp only [List.mem_map, Cfg.mem_edgesOut]
  constructor
  · rintro ⟨e, ⟨h1, h2⟩, rfl⟩; exact ⟨e, h1, h2, rfl⟩
  · rintro ⟨e, h1, h2, rfl⟩; exact ⟨e, ⟨h1, h2⟩, rfl⟩

private theorem edgesIn_spec {f : Function} {k : Nat} (hk : f.cfg.hasBlock k = true) :
    ∃ la, (f.cfg.edgesInR k).map (·.map FLoc.edge) = .ok la ∧
      ∀ B, B ∈ la ↔ ∃ e, e ∈ f.cfg.edges ∧ e.tail = k ∧ B = .edge e := by
  refine ⟨(f.cfg.edgesIn k).map .edge, by simp [Cfg.edgesInR, hk, Res.map], ?_⟩
  intro B
  simp only [List.mem_map, Cfg.mem_edgesIn]
  constructor
  · rintro ⟨e, ⟨h1, h2⟩, rfl⟩; exact ⟨e, h1, h2, rfl⟩
  · rintro ⟨e, h1, h2, rfl⟩; exact ⟨e, ⟨h1, h2⟩, rfl⟩

/-- two blocks of a well-formed function with the same index are the same block -/
theorem WFf.block_inj {f : Function} (hf : WFf f) {b b' : Block} (hb : b ∈ f.cfg.blocks)
    (hb' : b' ∈ f.cfg.blocks) (h : b.index = b'.index) : b = b' :=
  List.inj_on_of_nodup_map hf.blocks_nodup hb hb' h

theorem forward_spec {f : Function} (hf : WFf f) {A : FLoc} (hA : A ∈ f.locations) :
    ∃ la, A.forward f = .ok la ∧ ∀ B, B ∈ la ↔ (B ∈ f.locations ∧ succB A B = true) := by
  cases A with
  | instr b i =>
    obtain ⟨hb, hi⟩ := mem_locations_instr.mp hA
    have hn := hf.instrs_nodup b hb
    simp only [FLoc.forward, instrForward]
    cases hnx : nextAfter b.instrs i.index with
    | none => exact absurd hnx (nextAfter_ne_none hn hi)
    | some o =>
      cases o with
      | some j =>
        have hadj := (nextAfter_some_iff hn hi j).mp hnx
        refine ⟨[.instr b j], rfl, ?_⟩
        intro B
        constructor
        · intro hB
          simp only [List.mem_singleton] at hB
          subst hB
          exact ⟨mem_locations_instr.mpr ⟨hb, (adjB_mem hadj).2⟩, by simp [succB, hadj]⟩
        · rintro ⟨hBl, hs⟩
          cases B with
          | instr b' j' =>
            simp only [succB, Bool.and_eq_true, beq_iff_eq] at hs
            obtain ⟨rfl, hadj'⟩ := hs
            have := (nextAfter_some_iff hn hi j').mpr hadj'
            rw [hnx] at this
            simp only [Option.some.injEq] at this
            simp [this]
          | edge e =>
            simp only [succB, Bool.and_eq_true, beq_iff_eq] at hs
            have := (nextAfter_last_iff hn hi).mpr hs.1
            rw [hnx] at this
            simp at this
          | empty b' => simp [succB] at hs
      | none =>
        have hlast := (nextAfter_last_iff hn hi).mp hnx
        obtain ⟨la, hla, hmem⟩ := edgesOut_spec (f := f) (Cfg.hasBlock_of_mem hb)
        refine ⟨la, hla, ?_⟩
        intro B
        rw [hmem]
        constructor
        · rintro ⟨e, he, hh, rfl⟩
          exact ⟨mem_locations_edge.mpr he, by simp [succB, hlast, hh]⟩
        · rintro ⟨hBl, hs⟩
          cases B with
          | instr b' j' =>
            simp only [succB, Bool.and_eq_true, beq_iff_eq] at hs
            obtain ⟨rfl, hadj'⟩ := hs
            have := (nextAfter_some_iff hn hi j').mpr hadj'
            rw [hnx] at this
            simp at this
          | edge e =>
            simp only [succB, Bool.and_eq_true, beq_iff_eq] at hs
            exact ⟨e, mem_locations_edge.mp hBl, hs.2, rfl⟩
          | empty b' => simp [succB] at hs
  | edge e =>
    have he := mem_locations_edge.mp hA
    obtain ⟨blk, hblk⟩ := Cfg.hasBlock_iff.mp (hf.edge_tail e he)
    obtain ⟨hbm, hbi⟩ := Cfg.block_some hblk
    refine ⟨[blk.firstLoc], ?_, ?_⟩
    · simp only [FLoc.forward, edgeForward, Cfg.blockR, hblk, Res.map, Block.firstLoc]
      cases blk.instrs.head? <;> rfl
    · intro B
      constructor
      · intro hB
        simp only [List.mem_singleton] at hB
        subst hB
        refine ⟨firstLoc_mem hbm, ?_⟩
        unfold Block.firstLoc
        cases hh : blk.instrs.head? with
        | none => simp [succB, hbi]
        | some i => simp [succB, hbi, hh]
      · rintro ⟨hBl, hs⟩
        simp only [List.mem_singleton]
        cases B with
        | instr b j =>
          simp only [succB, Bool.and_eq_true, beq_iff_eq] at hs
          have hb := (mem_locations_instr.mp hBl).1
          have : b = blk := hf.block_inj hb hbm (by rw [hbi]; exact hs.1.symm)
          subst this
          simp [Block.firstLoc, hs.2]
        | edge e' => simp [succB] at hs
        | empty b =>
          simp only [succB, beq_iff_eq] at hs
          obtain ⟨hb, hemp⟩ := mem_locations_empty.mp hBl
          have : b = blk := hf.block_inj hb hbm (by rw [hbi]; exact hs.symm)
          subst this
          simp [Block.firstLoc, hemp]
  | empty b =>
    obtain ⟨hb, hemp⟩ := mem_locations_empty.mp hA
    obtain ⟨la, hla, hmem⟩ := edgesOut_spec (f := f) (Cfg.hasBlock_of_mem hb)
    refine ⟨la, hla, ?_⟩
    intro B
    rw [hmem]
    constructor
    · rintro ⟨e, he, hh, rfl⟩
      exact ⟨mem_locations_edge.mpr he, by simp [succB, hh]⟩
    · rintro ⟨hBl, hs⟩
      cases B with
      | instr b' j' => simp [succB] at hs
      | edge e =>
        simp only [succB, beq_iff_eq] at hs
        exact ⟨e, mem_locations_edge.mp hBl, hs, rfl⟩
      | empty b' => simp [succB] at hs

theorem backward_spec {f : Function} (hf : WFf f) {B : FLoc} (hB : B ∈ f.locations) :
    ∃ lb, B.backward f = .ok lb ∧ ∀ A, A ∈ lb ↔ (A ∈ f.locations ∧ succB A B = true) := by
  cases B with
  | instr b i =>
    obtain ⟨hb, hi⟩ := mem_locations_instr.mp hB
    have hn := hf.instrs_nodup b hb
    simp only [FLoc.backward, instrBackward]
    cases hnx : nextAfter b.instrs.reverse i.index with
    | none => exact absurd hnx (nextAfter_ne_none (nodup_idx_reverse hn) (List.mem_reverse.mpr hi))
    | some o =>
      cases o with
      | some j =>
        have hadj := (nextAfter_rev_some_iff hn hi j).mp hnx
        refine ⟨[.instr b j], rfl, ?_⟩
        intro A
        constructor
        · intro hA
          simp only [List.mem_singleton] at hA
          subst hA
          exact ⟨mem_locations_instr.mpr ⟨hb, (adjB_mem hadj).1⟩, by simp [succB, hadj]⟩
        · rintro ⟨hAl, hs⟩
          cases A with
          | instr b' j' =>
            simp only [succB, Bool.and_eq_true, beq_iff_eq] at hs
            obtain ⟨rfl, hadj'⟩ := hs
            have := (nextAfter_rev_some_iff hn hi j').mpr hadj'
            rw [hnx] at this
            simp only [Option.some.injEq] at this
            simp [this]
          | edge e =>
            simp only [succB, Bool.and_eq_true, beq_iff_eq] at hs
            have := (nextAfter_rev_last_iff hn hi).mpr hs.2
            rw [hnx] at this
            simp at this
          | empty b' => simp [succB] at hs
      | none =>
        have hfirst := (nextAfter_rev_last_iff hn hi).mp hnx
        obtain ⟨la, hla, hmem⟩ := edgesIn_spec (f := f) (Cfg.hasBlock_of_mem hb)
        refine ⟨la, hla, ?_⟩
        intro A
        rw [hmem]
        constructor
        · rintro ⟨e, he, hh, rfl⟩
          exact ⟨mem_locations_edge.mpr he, by simp [succB, hfirst, hh]⟩
        · rintro ⟨hAl, hs⟩
          cases A with
          | instr b' j' =>
            simp only [succB, Bool.and_eq_true, beq_iff_eq] at hs
            obtain ⟨rfl, hadj'⟩ := hs
            have := (nextAfter_rev_some_iff hn hi j').mpr hadj'
            rw [hnx] at this
            simp at this
          | edge e =>
            simp only [succB, Bool.and_eq_true, beq_iff_eq] at hs
            exact ⟨e, mem_locations_edge.mp hAl, hs.1, rfl⟩
          | empty b' => simp [succB] at hs
  | edge e =>
    have he := mem_locations_edge.mp hB
    obtain ⟨blk, hblk⟩ := Cfg.hasBlock_iff.mp (hf.edge_head e he)
    obtain ⟨hbm, hbi⟩ := Cfg.block_some hblk
    refine ⟨[blk.lastLoc], ?_, ?_⟩
    · simp only [FLoc.backward, edgeBackward, Cfg.blockR, hblk, Res.map, Block.lastLoc]
      cases blk.instrs.getLast? <;> rfl
    · intro A
      constructor
      · intro hA
        simp only [List.mem_singleton] at hA
        subst hA
        refine ⟨lastLoc_mem hbm, ?_⟩
        unfold Block.lastLoc
        cases hh : blk.instrs.getLast? with
        | none => simp [succB, hbi]
        | some i => simp [succB, hbi, hh]
      · rintro ⟨hAl, hs⟩
        simp only [List.mem_singleton]
        cases A with
        | instr b j =>
          simp only [succB, Bool.and_eq_true, beq_iff_eq] at hs
          have hb := (mem_locations_instr.mp hAl).1
          have : b = blk := hf.block_inj hb hbm (by rw [hbi]; exact hs.2.symm)
          subst this
          simp [Block.lastLoc, hs.1]
        | edge e' => simp [succB] at hs
        | empty b =>
          simp only [succB, beq_iff_eq] at hs
          obtain ⟨hb, hemp⟩ := mem_locations_empty.mp hAl
          have : b = blk := hf.block_inj hb hbm (by rw [hbi]; exact hs.symm)
          subst this
          simp [Block.lastLoc, hemp]
  | empty b =>
    obtain ⟨hb, hemp⟩ := mem_locations_empty.mp hB
    obtain ⟨la, hla, hmem⟩ := edgesIn_spec (f := f) (Cfg.hasBlock_of_mem hb)
    refine ⟨la, hla, ?_⟩
    intro A
    rw [hmem]
    constructor
    · rintro ⟨e, he, hh, rfl⟩
      exact ⟨mem_locations_edge.mpr he, by simp [succB, hh]⟩
    · rintro ⟨hAl, hs⟩
      cases A with
      | instr b' j' => simp [succB] at hs
      | edge e =>
        simp only [succB, beq_iff_eq] at hs
        exact ⟨e, mem_locations_edge.mp hAl, hs, rfl⟩
      | empty b' => simp [succB] at hs

end Falcon
