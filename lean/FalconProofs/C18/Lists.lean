/-
  FalconProofs.C18.Lists — list lemmas behind the location model: `nextAfter` (the index scan of
  `instruction_forward`/`instruction_backward`) against the declarative adjacency `adjB`, block and edge lookup.
-/
import FalconModel.Location
import Mathlib.Data.List.Nodup

namespace Falcon

theorem nextAfter_append (pre post : List Instr) (i : Instr) (h : ∀ x ∈ pre, x.index ≠ i.index) :
    nextAfter (pre ++ i :: post) i.index = some post.head? := by
  induction pre with
  | nil => simp [nextAfter]
  | cons x xs ih =>
    have hx : x.index ≠ i.index := h x (by simp)
    simp only [List.cons_append, nextAfter, hx, ↓reduceIte]
    exact ih (fun y hy => h y (by simp [hy]))

theorem nodup_idx_split {pre post : List Instr} {i : Instr}
    (h : ((pre ++ i :: post).map (·.index)).Nodup) :
    (∀ x ∈ pre, x.index ≠ i.index) ∧ (∀ x ∈ post, x.index ≠ i.index) := by
  simp only [List.map_append, List.map_cons, List.nodup_append, List.nodup_cons, List.mem_map,
    List.mem_cons] at h
  obtain ⟨_, ⟨hnot, _⟩, hdis⟩ := h
  constructor
  · intro x hx heq
    exact hdis x.index ⟨x, hx, rfl⟩ i.index (Or.inl rfl) heq
  · intro x hx heq
    exact hnot ⟨x, hx, heq⟩

theorem adjB_iff (l : List Instr) (i j : Instr) :
    adjB l i j = true ↔ ∃ pre post, l = pre ++ i :: j :: post := by
  induction l with
  | nil => simp [adjB]
  | cons x xs ih =>
    cases xs with
    | nil =>
      simp only [adjB, Bool.false_eq_true, false_iff, not_exists]
      intro pre post h
      have := congrArg List.length h
      simp at this
      omega
    | cons y r =>
      simp only [adjB, Bool.or_eq_true, Bool.and_eq_true, beq_iff_eq, ih]
      constructor
      · rintro (⟨rfl, rfl⟩ | ⟨pre, post, h⟩)
        · exact ⟨[], r, rfl⟩
        · exact ⟨x :: pre, post, by simp [h]⟩
      · rintro ⟨pre, post, h⟩
        cases pre with
        | nil =>
          simp only [List.nil_append, List.cons.injEq] at h
          exact Or.inl ⟨h.1, h.2.1⟩
        | cons p ps =>
          simp only [List.cons_append, List.cons.injEq] at h
          exact Or.inr ⟨ps, post, h.2⟩

/-- with unique instruction indices the scan finds the instruction itself -/
theorem nextAfter_some_iff {l : List Instr} (hn : (l.map (·.index)).Nodup) {i : Instr} (hi : i ∈ l) (j : Instr) :
    nextAfter l i.index = some (some j) ↔ adjB l i j = true := by
  obtain ⟨pre, post, rfl⟩ := List.append_of_mem hi
  have hs := nodup_idx_split hn
  rw [nextAfter_append _ _ _ hs.1, adjB_iff]
  constructor
  · intro h
    cases post with
    | nil => simp at h
    | cons y r =>
      simp only [List.head?_cons, Option.some.injEq] at h
      exact ⟨pre, r, by rw [h]⟩
  · rintro ⟨pre2, post2, h⟩
    have hn2 := hn
    rw [h] at hn2
    have hs2 := nodup_idx_split hn2
    have e1 := nextAfter_append pre2 (j :: post2) i hs2.1
    have e2 := nextAfter_append pre post i hs.1
    rw [← h] at e1
    rw [e1] at e2
    simpa using e2.symm

theorem nextAfter_last_iff {l : List Instr} (hn : (l.map (·.index)).Nodup) {i : Instr} (hi : i ∈ l) :
    nextAfter l i.index = some none ↔ l.getLast? = some i := by
  obtain ⟨pre, post, rfl⟩ := List.append_of_mem hi
  have hs := nodup_idx_split hn
  rw [nextAfter_append _ _ _ hs.1]
  cases post with
  | nil => simp
  | cons y r =>
    simp only [List.head?_cons, Option.some.injEq, reduceCtorEq, false_iff]
    intro h
    have hlast : (pre ++ i :: y :: r).getLast? = (y :: r).getLast? := by
      have : pre ++ i :: y :: r = (pre ++ [i]) ++ (y :: r) := by simp
      rw [this, List.getLast?_append]
      cases hh : (y :: r).getLast? with
      | none => simp at hh
      | some z => rfl
    rw [hlast] at h
    have hm : i ∈ y :: r := List.mem_of_getLast? h
    exact hs.2 i hm rfl

theorem nextAfter_ne_none {l : List Instr} (hn : (l.map (·.index)).Nodup) {i : Instr} (hi : i ∈ l) :
    nextAfter l i.index ≠ none := by
  obtain ⟨pre, post, rfl⟩ := List.append_of_mem hi
  rw [nextAfter_append _ _ _ (nodup_idx_split hn).1]
  simp

theorem adjB_reverse (l : List Instr) (i j : Instr) : adjB l.reverse i j = adjB l j i := by
  rw [Bool.eq_iff_iff, adjB_iff, adjB_iff]
  constructor
  · rintro ⟨pre, post, h⟩
    refine ⟨post.reverse, pre.reverse, ?_⟩
    have := congrArg List.reverse h
    simpa using this
  · rintro ⟨pre, post, h⟩
    refine ⟨post.reverse, pre.reverse, ?_⟩
    rw [h]
    simp

theorem nodup_idx_reverse {l : List Instr} (hn : (l.map (·.index)).Nodup) :
    (l.reverse.map (·.index)).Nodup := by
  rw [List.map_reverse]
  exact List.nodup_reverse.mpr hn

/-- the backward scan (over the reversed list) finds the instruction that precedes `i` -/
theorem nextAfter_rev_some_iff {l : List Instr} (hn : (l.map (·.index)).Nodup) {i : Instr} (hi : i ∈ l)
    (j : Instr) : nextAfter l.reverse i.index = some (some j) ↔ adjB l j i = true := by
  rw [nextAfter_some_iff (nodup_idx_reverse hn) (List.mem_reverse.mpr hi), adjB_reverse]

theorem nextAfter_rev_last_iff {l : List Instr} (hn : (l.map (·.index)).Nodup) {i : Instr} (hi : i ∈ l) :
    nextAfter l.reverse i.index = some none ↔ l.head? = some i := by
  rw [nextAfter_last_iff (nodup_idx_reverse hn) (List.mem_reverse.mpr hi), List.getLast?_reverse]

/-- adjacent elements are members -/
theorem adjB_mem {l : List Instr} {i j : Instr} (h : adjB l i j = true) : i ∈ l ∧ j ∈ l := by
  obtain ⟨pre, post, rfl⟩ := (adjB_iff _ _ _).mp h
  simp

namespace Cfg

theorem block_some {c : Cfg} {k : Nat} {b : Block} (h : c.block k = some b) : b ∈ c.blocks ∧ b.index = k := by
  unfold Cfg.block at h
  have h1 := List.mem_of_find?_eq_some h
  have h2 := List.find?_some h
  exact ⟨h1, by simpa using h2⟩

/-- with unique block indices, looking a block up by its own index finds it -/
theorem block_of_mem {c : Cfg} (hn : (c.blocks.map (·.index)).Nodup) {b : Block} (hb : b ∈ c.blocks) :
    c.block b.index = some b := by
  unfold Cfg.block
  rw [List.find?_eq_some_iff_append]
  refine ⟨by simp, ?_⟩
  obtain ⟨s, t, hst⟩ := List.append_of_mem hb
  refine ⟨s, t, hst, ?_⟩
  intro a ha
  rw [hst] at hn
  simp only [List.map_append, List.map_cons, List.nodup_append, List.mem_map, List.mem_cons] at hn
  have := hn.2.2 a.index ⟨a, ha, rfl⟩ b.index (Or.inl rfl)
  simpa using this

theorem hasBlock_of_mem {c : Cfg} {b : Block} (hb : b ∈ c.blocks) : c.hasBlock b.index = true := by
  unfold Cfg.hasBlock
  rw [List.any_eq_true]
  exact ⟨b, hb, by simp⟩

theorem hasBlock_iff {c : Cfg} {k : Nat} : c.hasBlock k = true ↔ ∃ b, c.block k = some b := by
  unfold Cfg.hasBlock Cfg.block
  rw [List.any_eq_true]
  constructor
  · rintro ⟨b, hb, hk⟩
    cases h : c.blocks.find? (·.index == k) with
    | none =>
      rw [List.find?_eq_none] at h
      exact absurd hk (h b hb)
    | some b' => exact ⟨b', rfl⟩
  · rintro ⟨b, h⟩
    have h2 := List.find?_some h
    exact ⟨b, List.mem_of_find?_eq_some h, h2⟩

theorem edge_some {c : Cfg} {h t : Nat} {e : Edge} (he : c.edge h t = some e) :
    e ∈ c.edges ∧ e.head = h ∧ e.tail = t := by
  unfold Cfg.edge at he
  have h1 := List.mem_of_find?_eq_some he
  have h2 := List.find?_some he
  simp only [Bool.and_eq_true, beq_iff_eq] at h2
  exact ⟨h1, h2.1, h2.2⟩

theorem edge_of_mem {c : Cfg} (hn : (c.edges.map (fun e => (e.head, e.tail))).Nodup) {e : Edge}
    (he : e ∈ c.edges) : c.edge e.head e.tail = some e := by
  unfold Cfg.edge
  rw [List.find?_eq_some_iff_append]
  refine ⟨by simp, ?_⟩
  obtain ⟨s, t, hst⟩ := List.append_of_mem he
  refine ⟨s, t, hst, ?_⟩
  intro a ha
  rw [hst] at hn
  simp only [List.map_append, List.map_cons, List.nodup_append, List.mem_map, List.mem_cons] at hn
  have := hn.2.2 (a.head, a.tail) ⟨a, ha, rfl⟩ (e.head, e.tail) (Or.inl rfl)
  simp only [ne_eq, Prod.mk.injEq, not_and] at this
  simp only [Bool.not_eq_eq_eq_not, Bool.not_true, Bool.and_eq_false_imp, beq_iff_eq, beq_eq_false_iff_ne]
  exact this

theorem mem_edgesOut {c : Cfg} {k : Nat} {e : Edge} : e ∈ c.edgesOut k ↔ e ∈ c.edges ∧ e.head = k := by
  simp [Cfg.edgesOut, List.mem_filter]

theorem mem_edgesIn {c : Cfg} {k : Nat} {e : Edge} : e ∈ c.edgesIn k ↔ e ∈ c.edges ∧ e.tail = k := by
  simp [Cfg.edgesIn, List.mem_filter]

end Cfg

/-- membership in `Function::locations`, by kind -/
theorem mem_locations_instr {f : Function} {b : Block} {i : Instr} :
    FLoc.instr b i ∈ f.locations ↔ b ∈ f.cfg.blocks ∧ i ∈ b.instrs := by
  simp only [Function.locations, List.mem_append, List.mem_flatMap, List.mem_map, reduceCtorEq, and_false,
    exists_false, or_false]
  constructor
  · rintro ⟨b', hb', h⟩
    split at h
    · simp at h
    · simp only [List.mem_map, FLoc.instr.injEq] at h
      obtain ⟨i', hi', rfl, rfl⟩ := h
      exact ⟨hb', hi'⟩
  · rintro ⟨hb, hi⟩
    refine ⟨b, hb, ?_⟩
    have : b.instrs.isEmpty = false := by
      cases hh : b.instrs with
      | nil => rw [hh] at hi; simp at hi
      | cons _ _ => rfl
    simp only [this, Bool.false_eq_true, ↓reduceIte, List.mem_map]
    exact ⟨i, hi, rfl⟩

theorem mem_locations_empty {f : Function} {b : Block} :
    FLoc.empty b ∈ f.locations ↔ b ∈ f.cfg.blocks ∧ b.instrs = [] := by
  simp only [Function.locations, List.mem_append, List.mem_flatMap, List.mem_map, reduceCtorEq, and_false,
    exists_false, or_false]
  constructor
  · rintro ⟨b', hb', h⟩
    split at h
    · rename_i he
      simp only [List.mem_cons, FLoc.empty.injEq, List.not_mem_nil, or_false] at h
      subst h
      exact ⟨hb', by simpa using he⟩
    · simp at h
  · rintro ⟨hb, he⟩
    exact ⟨b, hb, by simp [he]⟩

theorem mem_locations_edge {f : Function} {e : Edge} : FLoc.edge e ∈ f.locations ↔ e ∈ f.cfg.edges := by
  simp only [Function.locations, List.mem_append, List.mem_flatMap, List.mem_map, FLoc.edge.injEq,
    exists_eq_right, or_iff_right_iff_imp]
  rintro ⟨b', _, h⟩
  split at h <;> simp at h

theorem firstLoc_mem {f : Function} {b : Block} (hb : b ∈ f.cfg.blocks) : b.firstLoc ∈ f.locations := by
  unfold Block.firstLoc
  cases h : b.instrs.head? with
  | none => exact mem_locations_empty.mpr ⟨hb, by simpa using h⟩
  | some i => exact mem_locations_instr.mpr ⟨hb, List.mem_of_head? h⟩

theorem lastLoc_mem {f : Function} {b : Block} (hb : b ∈ f.cfg.blocks) : b.lastLoc ∈ f.locations := by
  unfold Block.lastLoc
  cases h : b.instrs.getLast? with
  | none => exact mem_locations_empty.mpr ⟨hb, by simpa using h⟩
  | some i => exact mem_locations_instr.mpr ⟨hb, List.mem_of_getLast? h⟩

end Falcon
