/-
  FalconProofs.C18.Misc — enumeration (`locations` has no duplicates), owned round trip, address lookup.
-/
import FalconProofs.C18.Lists

namespace Falcon

theorem locations_nodup {f : Function} (hf : WFf f) : f.locations.Nodup := by
  unfold Function.locations
  rw [List.nodup_append]
  refine ⟨?_, ?_, ?_⟩
  · rw [List.nodup_flatMap]
    constructor
    · intro b hb
      split
      · simp
      · have hn : b.instrs.Nodup := List.Nodup.of_map _ (hf.instrs_nodup b hb)
        exact List.Nodup.map (fun x y h => by injection h) hn
    · have hn : f.cfg.blocks.Nodup := List.Nodup.of_map _ hf.blocks_nodup
      refine List.Pairwise.imp ?_ hn
      intro b b' hne
      simp only [Function.onFun]
      intro x hx hx'
      apply hne
      split at hx <;> split at hx'
      · simp only [List.mem_singleton] at hx hx'
        rw [hx] at hx'; injection hx'
      · simp only [List.mem_singleton, List.mem_map] at hx hx'
        obtain ⟨_, _, h⟩ := hx'
        rw [hx] at h; injection h
      · simp only [List.mem_singleton, List.mem_map] at hx hx'
        obtain ⟨_, _, h⟩ := hx
        rw [hx'] at h; injection h
      · simp only [List.mem_map] at hx hx'
        obtain ⟨_, _, h⟩ := hx
        obtain ⟨_, _, h'⟩ := hx'
        rw [← h] at h'; injection h' with h1 _; exact h1.symm
  · have hn : f.cfg.edges.Nodup := List.Nodup.of_map _ hf.edges_nodup
    exact List.Nodup.map (fun x y h => by injection h) hn
  · intro x hx y hy hxy
    subst hxy
    simp only [List.mem_flatMap, List.mem_map] at hx hy
    obtain ⟨b, _, hb⟩ := hx
    obtain ⟨e, _, he⟩ := hy
    subst he
    split at hb <;> simp at hb

/-- `Block::instruction(index)` finds the instruction itself when indices are unique -/
theorem instruction_of_mem {b : Block} (hn : (b.instrs.map (·.index)).Nodup) {i : Instr} (hi : i ∈ b.instrs) :
    b.instruction i.index = some i := by
  unfold Block.instruction
  rw [List.find?_eq_some_iff_append]
  refine ⟨by simp, ?_⟩
  obtain ⟨s, t, hst⟩ := List.append_of_mem hi
  refine ⟨s, t, hst, ?_⟩
  intro a ha
  rw [hst] at hn
  have := (nodup_idx_split hn).1 a ha
  simpa using this

theorem function_of_mem {p : Program} (hn : (p.functions.map (·.index)).Nodup) {f : Function}
    (hf : f ∈ p.functions) {fi : Nat} (hfi : f.index = some fi) : p.function fi = some f := by
  unfold Program.function
  rw [List.find?_eq_some_iff_append]
  refine ⟨by simp [hfi], ?_⟩
  obtain ⟨s, t, hst⟩ := List.append_of_mem hf
  refine ⟨s, t, hst, ?_⟩
  intro a ha
  rw [hst] at hn
  simp only [List.map_append, List.map_cons, List.nodup_append, List.mem_map, List.mem_cons] at hn
  have := hn.2.2 a.index ⟨a, ha, rfl⟩ f.index (Or.inl rfl)
  rw [hfi] at this
  simpa using this

/-- owned round trip inside one function -/
theorem apply_toOwned {f : Function} (hf : WFf f) {l : FLoc} (hl : l ∈ f.locations) :
    l.toOwned.apply f = .ok l := by
  cases l with
  | instr b i =>
    obtain ⟨hb, hi⟩ := mem_locations_instr.mp hl
    simp [FLoc.toOwned, OFLoc.apply, Cfg.block_of_mem hf.blocks_nodup hb,
      instruction_of_mem (hf.instrs_nodup b hb) hi]
  | edge e =>
    have he := mem_locations_edge.mp hl
    simp [FLoc.toOwned, OFLoc.apply, Cfg.edge_of_mem hf.edges_nodup he]
  | empty b =>
    obtain ⟨hb, _⟩ := mem_locations_empty.mp hl
    simp [FLoc.toOwned, OFLoc.apply, Cfg.block_of_mem hf.blocks_nodup hb]

/-! address lookup -/

theorem findAddr_some {f : Function} {a : Nat} {l : FLoc} (h : f.findAddr a = some l) :
    l ∈ f.locations ∧ l.address = some a := by
  unfold Function.findAddr at h
  obtain ⟨b, hb, hbl⟩ := List.exists_of_findSome?_eq_some h
  simp only [Option.map_eq_some_iff] at hbl
  obtain ⟨i, hi, rfl⟩ := hbl
  have h1 := List.mem_of_find?_eq_some hi
  have h2 := List.find?_some hi
  exact ⟨mem_locations_instr.mpr ⟨hb, h1⟩, by simpa [FLoc.address] using h2⟩

theorem findAddr_none {f : Function} {a : Nat} (h : f.findAddr a = none) :
    ∀ b ∈ f.cfg.blocks, ∀ i ∈ b.instrs, i.addr ≠ some a := by
  unfold Function.findAddr at h
  rw [List.findSome?_eq_none_iff] at h
  intro b hb i hi hia
  have := h b hb
  simp only [Option.map_eq_none_iff, List.find?_eq_none] at this
  exact this i hi (by simp [hia])

theorem closestFunction_mem (a : Nat) : ∀ (fs : List Function) (cur : Option Function) (f : Function),
    closestFunction a fs cur = some f → f ∈ fs ∨ cur = some f := by
  intro fs
  induction fs with
  | nil => intro cur f h; exact Or.inr h
  | cons g gs ih =>
    intro cur f h
    simp only [closestFunction] at h
    split at h
    · rcases ih _ _ h with h1 | h1
      · exact Or.inl (List.mem_cons_of_mem _ h1)
      · exact Or.inr h1
    · split at h
      · rcases ih _ _ h with h1 | h1
        · exact Or.inl (List.mem_cons_of_mem _ h1)
        · simp only [Option.some.injEq] at h1; subst h1; exact Or.inl (by simp)
      · split at h
        · rcases ih _ _ h with h1 | h1
          · exact Or.inl (List.mem_cons_of_mem _ h1)
          · simp only [Option.some.injEq] at h1; subst h1; exact Or.inl (by simp)
        · rcases ih _ _ h with h1 | h1
          · exact Or.inl (List.mem_cons_of_mem _ h1)
          · exact Or.inr h1

theorem fromAddress_some {p : Program} {a : Nat} {l : PLoc} (h : PLoc.fromAddress p a = some l) :
    l.fn ∈ p.functions ∧ l.loc ∈ l.fn.locations ∧ l.address = some a := by
  unfold PLoc.fromAddress at h
  simp only at h
  split at h
  · rename_i l' hp1
    simp only [Option.some.injEq] at h; subst h
    split at hp1
    · simp at hp1
    · rename_i g hg
      simp only [Option.map_eq_some_iff] at hp1
      obtain ⟨fl, hfl, rfl⟩ := hp1
      have hm : g ∈ p.functions := by
        rcases closestFunction_mem a _ _ _ hg with h1 | h1
        · exact h1
        · simp at h1
      obtain ⟨h1, h2⟩ := findAddr_some hfl
      exact ⟨hm, h1, h2⟩
  · obtain ⟨g, hg, hgl⟩ := List.exists_of_findSome?_eq_some h
    simp only [Option.map_eq_some_iff] at hgl
    obtain ⟨fl, hfl, rfl⟩ := hgl
    obtain ⟨h1, h2⟩ := findAddr_some hfl
    exact ⟨hg, h1, h2⟩

theorem fromAddress_none {p : Program} {a : Nat} (h : PLoc.fromAddress p a = none) :
    ∀ f ∈ p.functions, ∀ b ∈ f.cfg.blocks, ∀ i ∈ b.instrs, i.addr ≠ some a := by
  unfold PLoc.fromAddress at h
  simp only at h
  split at h
  · simp at h
  · rw [List.findSome?_eq_none_iff] at h
    intro f hf
    have := h f hf
    simp only [Option.map_eq_none_iff] at this
    exact findAddr_none this

end Falcon
