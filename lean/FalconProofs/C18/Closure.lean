/-
  FalconProofs.C18.Closure — the generic work-list `closure` computes exactly the reflexive-transitive closure
  `Reach` (when it answers), and basic facts about `Reach`.
-/
import FalconModel.Location

namespace Falcon

theorem Reach.trans {α : Type} {step : α → List α} {a b c : α} (h1 : Reach step a b) (h2 : Reach step b c) :
    Reach step a c := by
  induction h2 with
  | refl => exact h1
  | tail _ hs ih => exact Reach.tail ih hs

theorem Reach.single {α : Type} {step : α → List α} {a b : α} (h : b ∈ step a) : Reach step a b :=
  Reach.tail (Reach.refl a) h

/-- head induction: a path is empty or starts with a step -/
theorem Reach.head {α : Type} {step : α → List α} {a b c : α} (h : b ∈ step a) (h2 : Reach step b c) :
    Reach step a c := Reach.trans (Reach.single h) h2

section
variable {α : Type} [DecidableEq α] (step : α → List α)

/-- soundness: everything in the answer was seen already or is reachable from the work list -/
theorem closure_sound : ∀ (n : Nat) (todo seen out : List α), closure step n todo seen = some out →
    ∀ x ∈ out, x ∈ seen ∨ ∃ t ∈ todo, Reach step t x := by
  intro n
  induction n with
  | zero =>
    intro todo seen out h x hx
    cases todo with
    | nil => simp only [closure, Option.some.injEq] at h; subst h; exact Or.inl hx
    | cons t ts => simp [closure] at h
  | succ n ih =>
    intro todo seen out h x hx
    cases todo with
    | nil => simp only [closure, Option.some.injEq] at h; subst h; exact Or.inl hx
    | cons t ts =>
      simp only [closure] at h
      split at h
      · rcases ih ts seen out h x hx with h1 | ⟨t', ht', hr⟩
        · exact Or.inl h1
        · exact Or.inr ⟨t', List.mem_cons_of_mem _ ht', hr⟩
      · rcases ih (step t ++ ts) (t :: seen) out h x hx with h1 | ⟨t', ht', hr⟩
        · rcases List.mem_cons.mp h1 with rfl | h1
          · exact Or.inr ⟨x, by simp, Reach.refl x⟩
          · exact Or.inl h1
        · rcases List.mem_append.mp ht' with h2 | h2
          · exact Or.inr ⟨t, by simp, Reach.head h2 hr⟩
          · exact Or.inr ⟨t', List.mem_cons_of_mem _ h2, hr⟩

/-- completeness: the answer contains `seen` and `todo` and is closed under `step`, provided the successors
    of everything already seen are seen or queued -/
theorem closure_complete : ∀ (n : Nat) (todo seen out : List α), closure step n todo seen = some out →
    (∀ x ∈ seen, ∀ y ∈ step x, y ∈ seen ∨ y ∈ todo) →
    (∀ x ∈ seen, x ∈ out) ∧ (∀ x ∈ todo, x ∈ out) ∧ (∀ x ∈ out, ∀ y ∈ step x, y ∈ out) := by
  intro n
  induction n with
  | zero =>
    intro todo seen out h inv
    cases todo with
    | nil =>
      simp only [closure, Option.some.injEq] at h; subst h
      refine ⟨fun x hx => hx, by simp, ?_⟩
      intro x hx y hy
      rcases inv x hx y hy with h1 | h1
      · exact h1
      · simp at h1
    | cons t ts => simp [closure] at h
  | succ n ih =>
    intro todo seen out h inv
    cases todo with
    | nil =>
      simp only [closure, Option.some.injEq] at h; subst h
      refine ⟨fun x hx => hx, by simp, ?_⟩
      intro x hx y hy
      rcases inv x hx y hy with h1 | h1
      · exact h1
      · simp at h1
    | cons t ts =>
      simp only [closure] at h
      split at h
      · rename_i hts
        have inv' : ∀ x ∈ seen, ∀ y ∈ step x, y ∈ seen ∨ y ∈ ts := by
          intro x hx y hy
          rcases inv x hx y hy with h1 | h1
          · exact Or.inl h1
          · rcases List.mem_cons.mp h1 with rfl | h1
            · exact Or.inl hts
            · exact Or.inr h1
        obtain ⟨a, b, c⟩ := ih ts seen out h inv'
        refine ⟨a, ?_, c⟩
        intro x hx
        rcases List.mem_cons.mp hx with rfl | hx
        · exact a _ hts
        · exact b x hx
      · have inv' : ∀ x ∈ t :: seen, ∀ y ∈ step x, y ∈ t :: seen ∨ y ∈ step t ++ ts := by
          intro x hx y hy
          rcases List.mem_cons.mp hx with rfl | hx
          · exact Or.inr (List.mem_append_left _ hy)
          · rcases inv x hx y hy with h1 | h1
            · exact Or.inl (List.mem_cons_of_mem _ h1)
            · rcases List.mem_cons.mp h1 with rfl | h1
              · exact Or.inl (by simp)
              · exact Or.inr (List.mem_append_right _ h1)
        obtain ⟨a, b, c⟩ := ih (step t ++ ts) (t :: seen) out h inv'
        refine ⟨fun x hx => a x (List.mem_cons_of_mem _ hx), ?_, c⟩
        intro x hx
        rcases List.mem_cons.mp hx with rfl | hx
        · exact a _ (by simp)
        · exact b x (List.mem_append_right _ hx)

/-- `closure` from a single root answers exactly the set reachable from it -/
theorem closure_spec {n : Nat} {r : α} {out : List α} (h : closure step n [r] [] = some out) (x : α) :
    x ∈ out ↔ Reach step r x := by
  constructor
  · intro hx
    rcases closure_sound step n [r] [] out h x hx with h1 | ⟨t, ht, hr⟩
    · simp at h1
    · simp only [List.mem_singleton] at ht; subst ht; exact hr
  · intro hr
    obtain ⟨_, b, c⟩ := closure_complete step n [r] [] out h (by simp)
    induction hr with
    | refl => exact b r (by simp)
    | tail _ hs ih => exact c _ ih _ hs

end
end Falcon
