/-
  FalconProofs.C19.Frame — every relocation procedure of the linker model changes only bytes inside the
  loadable ranges of the object it relocates and never changes which addresses are mapped; mapping new
  placements changes only addresses inside their ranges.  Plus: reading back a word just written,
  in either endianness.
-/
import FalconModel.Elf
import FalconProofs.C19.Link

namespace Falcon.Elf

/-- `x` lies in the memory range of a loadable segment of `d` placed at `B` -/
def inRange (d : ElfDesc) (B x : Nat) : Prop := ∃ p ∈ d.phdrs, p.covers B x = true

theorem siteOk_inRange (d : ElfDesc) (B a x : Nat) (h : siteOk d B a = true) (h1 : a ≤ x) (h2 : x < a + 4) :
    inRange d B x := by
  simp only [siteOk, List.any_eq_true, Bool.and_eq_true, decide_eq_true_eq] at h
  obtain ⟨p, hp, ⟨hl, h3⟩, h4⟩ := h
  exact ⟨p, hp, by rw [covers_iff]; exact ⟨hl, by omega, by omega⟩⟩

theorem image_isSome_iff (d : ElfDesc) (B x : Nat) : (image d B x).isSome = true ↔ inRange d B x := by
  constructor
  · intro h
    cases hi : image d B x with
    | none => rw [hi] at h; cases h
    | some y =>
      obtain ⟨p, hp, hc, _⟩ := imageOf_some d.phdrs B x y hi
      exact ⟨p, hp, hc⟩
  · rintro ⟨p, hp, hc⟩
    exact imageOf_isSome_of_covers d.phdrs B x p hp hc

/-- `m'` differs from `m` only inside the ranges of `(d, B)`, and maps the same addresses -/
def Local (d : ElfDesc) (B : Nat) (m m' : Img) : Prop :=
  (∀ x, ¬ inRange d B x → m' x = m x) ∧ (∀ x, (m' x).isSome = (m x).isSome)

theorem Local.refl (d : ElfDesc) (B : Nat) (m : Img) : Local d B m m := ⟨fun _ _ => rfl, fun _ => rfl⟩

theorem Local.trans {d : ElfDesc} {B : Nat} {m1 m2 m3 : Img} (h1 : Local d B m1 m2) (h2 : Local d B m2 m3) :
    Local d B m1 m3 :=
  ⟨fun x hx => by rw [h2.1 x hx, h1.1 x hx], fun x => by rw [h2.2 x, h1.2 x]⟩

theorem Local.write (d : ElfDesc) (B : Nat) (m : Img) (big : Bool) (a w : Nat) (h : siteOk d B a = true) :
    Local d B m (write32 m big a w) := by
  refine ⟨fun x hx => ?_, fun x => write32_isSome m big a w x⟩
  apply write32_outside
  intro hr
  exact hx (siteOk_inRange d B a x h hr.1 hr.2)

/-! ### folds of `Res.bind` -/

theorem foldl_bind_err {α : Type} (f : Img → α → Res Img) (l : List α) (e : Err) :
    l.foldl (fun (acc : Res Img) a => acc.bind (fun m => f m a)) (.err e) = .err e := by
  induction l with
  | nil => rfl
  | cons a t ih => simpa [List.foldl_cons, Res.bind] using ih

theorem foldl_bind_panic {α : Type} (f : Img → α → Res Img) (l : List α) :
    l.foldl (fun (acc : Res Img) a => acc.bind (fun m => f m a)) .panic = .panic := by
  induction l with
  | nil => rfl
  | cons a t ih => simpa [List.foldl_cons, Res.bind] using ih

theorem foldl_bind_cons_ok {α : Type} (f : Img → α → Res Img) (a : α) (t : List α) (m m' : Img)
    (h : (a :: t).foldl (fun (acc : Res Img) a => acc.bind (fun m => f m a)) (.ok m) = .ok m') :
    ∃ m1, f m a = .ok m1 ∧ t.foldl (fun (acc : Res Img) a => acc.bind (fun m => f m a)) (.ok m1) = .ok m' := by
  have h' : t.foldl (fun (acc : Res Img) a => acc.bind (fun m => f m a)) (f m a) = .ok m' := h
  cases hr : f m a with
  | ok m1 => rw [hr] at h'; exact ⟨m1, rfl, h'⟩
  | err e => rw [hr, foldl_bind_err] at h'; cases h'
  | panic => rw [hr, foldl_bind_panic] at h'; cases h'

/-- an invariant relation that every successful step respects is respected by the fold -/
theorem foldl_bind_rel {α : Type} (f : Img → α → Res Img) (P : Img → Img → Prop)
    (hrefl : ∀ m, P m m) (htrans : ∀ m1 m2 m3, P m1 m2 → P m2 m3 → P m1 m3)
    (l : List α) (hf : ∀ a ∈ l, ∀ m m', f m a = .ok m' → P m m') (m m' : Img)
    (h : l.foldl (fun (acc : Res Img) a => acc.bind (fun m => f m a)) (.ok m) = .ok m') : P m m' := by
  induction l generalizing m with
  | nil => simp only [List.foldl_nil, Res.ok.injEq] at h; rw [← h]; exact hrefl m
  | cons a t ih =>
    obtain ⟨m1, h1, h2⟩ := foldl_bind_cons_ok f a t m m' h
    exact htrans _ _ _ (hf a (by simp) m m1 h1) (ih (fun b hb => hf b (by simp [hb])) m1 h2)

/-! ### x86 -/

/-- a successful relocation leaves the image alone or writes one word at its site, inside the object -/
theorem relocX86_ok' (d : ElfDesc) (B : Nat) (tab : SymTab) (m m1 : Img) (r : Rel)
    (h : relocX86 d B tab m r = .ok m1) :
    m1 = m ∨ ∃ w, siteOk d B (r.offset + B) = true ∧ m1 = write32 m false (r.offset + B) w := by
  unfold relocX86 at h
  simp only at h
  split at h
  · split at h
    · cases h
    · split at h
      · split at h
        · cases h; exact Or.inl rfl
        · cases h
      · split at h
        · cases h
        · split at h
          · cases h
          · split at h
            · cases h
            · rename_i hs
              cases h; exact Or.inr ⟨_, by simpa using hs, rfl⟩
  · split at h
    · split at h
      · cases h
      · split at h
        · cases h
        · rename_i hs
          split at h
          · cases h
          · split at h
            · cases h
            · cases h; exact Or.inr ⟨_, by simpa using hs, rfl⟩
    · cases h

theorem relocX86_local (d : ElfDesc) (B : Nat) (tab : SymTab) (m m1 : Img) (r : Rel)
    (h : relocX86 d B tab m r = .ok m1) : Local d B m m1 := by
  rcases relocX86_ok' d B tab m m1 r h with rfl | ⟨w, hs, rfl⟩
  · exact Local.refl d B _
  · exact Local.write d B m false _ w hs

theorem relocsX86_local (d : ElfDesc) (B : Nat) (tab : SymTab) (m m' : Img)
    (h : relocsX86 d B tab m = .ok m') : Local d B m m' :=
  foldl_bind_rel (fun m r => relocX86 d B tab m r) (Local d B) (Local.refl d B)
    (fun _ _ _ => Local.trans) _ (fun r _ m m' h => relocX86_local d B tab m m' r h) m m' h

/-! ### MIPS -/

theorem mipsGotBase_local (d : ElfDesc) (B : Nat) (big : Bool) (pltgot : Nat) (k i : Nat) (m m' : Img)
    (h : mipsGotBase d B big pltgot k i m = .ok m') : Local d B m m' := by
  induction k generalizing i m with
  | zero => simp only [mipsGotBase, Res.ok.injEq] at h; rw [← h]; exact Local.refl d B m
  | succ k ih =>
    simp only [mipsGotBase] at h
    split at h
    · cases h
    · split at h
      · cases h
      · rename_i hs
        split at h
        · cases h
        · exact (Local.write d B m big _ _ (by simpa using hs)).trans (ih _ _ h)

theorem mipsGotSyms_local (d : ElfDesc) (B : Nat) (big : Bool) (tab : SymTab) (k i a : Nat) (m m' : Img)
    (h : mipsGotSyms d B big tab k i a m = .ok m') : Local d B m m' := by
  induction k generalizing i a m with
  | zero => simp only [mipsGotSyms, Res.ok.injEq] at h; rw [← h]; exact Local.refl d B m
  | succ k ih =>
    simp only [mipsGotSyms] at h
    split at h
    · cases h
    · split at h
      · split at h
        · cases h
        · split at h
          · cases h
          · split at h
            · cases h
            · rename_i hs
              exact (Local.write d B m big _ _ (by simpa using hs)).trans (ih _ _ _ h)
      · exact ih _ _ _ h

theorem relocMipsRel_ok (d : ElfDesc) (B : Nat) (big : Bool) (m m' : Img) (r : Rel)
    (h : relocMipsRel d B big m r = .ok m') :
    m' = m ∨ ∃ w, r.rtype = R_MIPS_REL32 ∧ siteOk d B (r.offset + B) = true ∧
      m' = write32 m big (r.offset + B) w := by
  unfold relocMipsRel at h
  split at h
  · rename_i hty
    simp only at h
    split at h
    · cases h
    · split at h
      · cases h
      · rename_i hs
        split at h
        · cases h
        · split at h
          · cases h
          · cases h; exact Or.inr ⟨_, hty, by simpa using hs, rfl⟩
  · cases h; exact Or.inl rfl

theorem relocMipsRel_local (d : ElfDesc) (B : Nat) (big : Bool) (m m' : Img) (r : Rel)
    (h : relocMipsRel d B big m r = .ok m') : Local d B m m' := by
  rcases relocMipsRel_ok d B big m m' r h with rfl | ⟨w, _, hs, rfl⟩
  · exact Local.refl d B _
  · exact Local.write d B m big _ w hs

/-- the three phases of `relocations_mips`, when it succeeds -/
theorem relocsMips_phases (d : ElfDesc) (B : Nat) (big : Bool) (tab : SymTab) (m m' : Img)
    (h : relocsMips d B big tab m = .ok m') :
    ∃ localGotno gotsym symtabno pltgot m1 m2,
      getDyn d DT_MIPS_LOCAL_GOTNO = some localGotno ∧ getDyn d DT_MIPS_GOTSYM = some gotsym ∧
      getDyn d DT_MIPS_SYMTABNO = some symtabno ∧ getDyn d DT_PLTGOT = some pltgot ∧ gotsym ≤ symtabno ∧
      mipsGotBase d B big pltgot (localGotno + (symtabno - gotsym)) 0 m = .ok m1 ∧
      mipsGotSyms d B big tab (symtabno - gotsym) gotsym (pltgot + B + localGotno * 4) m1 = .ok m2 ∧
      d.rels.foldl (fun (acc : Res Img) r => acc.bind (fun m => relocMipsRel d B big m r)) (.ok m2) = .ok m' := by
  unfold relocsMips at h
  split at h
  · rename_i lg gs sn pg h1 h2 h3 h4
    split at h
    · cases h
    · rename_i hle
      cases ha : mipsGotBase d B big pg (lg + (sn - gs)) 0 m with
      | ok m1 =>
        rw [ha] at h
        simp only [Res.bind] at h
        cases hb : mipsGotSyms d B big tab (sn - gs) gs (pg + B + lg * 4) m1 with
        | ok m2 =>
          rw [hb] at h
          simp only at h
          exact ⟨lg, gs, sn, pg, m1, m2, h1, h2, h3, h4, by omega, ha, hb, h⟩
        | err e => rw [hb] at h; cases h
        | panic => rw [hb] at h; cases h
      | err e => rw [ha] at h; cases h
      | panic => rw [ha] at h; cases h
  · cases h

theorem relocsMips_local (d : ElfDesc) (B : Nat) (big : Bool) (tab : SymTab) (m m' : Img)
    (h : relocsMips d B big tab m = .ok m') : Local d B m m' := by
  obtain ⟨lg, gs, sn, pg, m1, m2, _, _, _, _, _, ha, hb, hc⟩ := relocsMips_phases d B big tab m m' h
  refine (mipsGotBase_local d B big pg _ _ m m1 ha).trans ((mipsGotSyms_local d B big tab _ _ _ m1 m2 hb).trans ?_)
  exact foldl_bind_rel (fun m r => relocMipsRel d B big m r) (Local d B) (Local.refl d B)
    (fun _ _ _ => Local.trans) _ (fun r _ m m' h => relocMipsRel_local d B big m m' r h) m2 m' hc

theorem relocs_local (d : ElfDesc) (B : Nat) (big : Bool) (tab : SymTab) (m m' : Img)
    (h : relocs d B big tab m = .ok m') : Local d B m m' := by
  unfold relocs at h
  split at h
  · exact relocsX86_local d B tab m m' h
  · split at h
    · exact relocsMips_local d B big tab m m' h
    · cases h

/-! ### mapping new placements -/

theorem mapAll_outside (newly : List (ElfDesc × Nat)) (m : Img) (x : Nat)
    (h : ∀ y ∈ newly, ¬ inRange y.1 y.2 x) : mapAll newly m x = m x := by
  induction newly generalizing m with
  | nil => rfl
  | cons y t ih =>
    simp only [mapAll, List.foldl_cons] at ih ⊢
    rw [ih _ (fun z hz => h z (by simp [hz]))]
    have : image y.1 y.2 x = none := by
      cases hi : image y.1 y.2 x with
      | none => rfl
      | some v => exact absurd ((image_isSome_iff y.1 y.2 x).mp (by rw [hi]; rfl)) (h y (by simp))
    simp [overlay, this]

theorem overlay_isSome (top bottom : Img) (x : Nat) :
    (overlay top bottom x).isSome = ((top x).isSome || (bottom x).isSome) := by
  simp only [overlay]
  cases top x <;> simp

theorem mapAll_isSome_mono (newly : List (ElfDesc × Nat)) (m : Img) (x : Nat) (h : (m x).isSome = true) :
    (mapAll newly m x).isSome = true := by
  induction newly generalizing m with
  | nil => exact h
  | cons y t ih =>
    simp only [mapAll, List.foldl_cons] at ih ⊢
    apply ih
    rw [overlay_isSome, h, Bool.or_true]

theorem mapAll_mapped (newly : List (ElfDesc × Nat)) (m : Img) (y : ElfDesc × Nat) (hy : y ∈ newly) (x : Nat)
    (h : inRange y.1 y.2 x) : (mapAll newly m x).isSome = true := by
  induction newly generalizing m with
  | nil => simp at hy
  | cons z t ih =>
    simp only [mapAll, List.foldl_cons] at ih ⊢
    rcases List.mem_cons.mp hy with rfl | hy'
    · apply mapAll_isSome_mono
      rw [overlay_isSome, (image_isSome_iff y.1 y.2 x).mpr h, Bool.true_or]
    · exact ih _ hy'

/-! ### reading back, either endianness -/

theorem read32_congr (m1 m2 : Img) (big : Bool) (a : Nat) (h : ∀ i, i < 4 → m1 (a + i) = m2 (a + i)) :
    read32 m1 big a = read32 m2 big a := by
  have h0 := h 0 (by omega)
  simp only [Nat.add_zero] at h0
  simp only [read32, h0, h 1 (by omega), h 2 (by omega), h 3 (by omega)]

theorem byte32_toNat' (big : Bool) (w i : Nat) :
    (byte32 big w i).toNat = w / 256 ^ (if big then 3 - i else i) % 256 := by
  simp only [byte32, UInt8.toNat_ofNat']
  omega

/-- the word just written is read back, provided the four bytes are mapped -/
theorem read32_write32 (m : Img) (big : Bool) (a w : Nat) (hw : w < U32)
    (hm : ∀ i, i < 4 → (m (a + i)).isSome = true) : read32 (write32 m big a w) big a = some w := by
  have key : ∀ i, i < 4 → ∃ p, write32 m big a w (a + i) = some (byte32 big w i, p) := by
    intro i hi
    have hin : a ≤ a + i ∧ a + i < a + 4 := by omega
    have e : a + i - a = i := by omega
    cases hc : m (a + i) with
    | none => have := hm i hi; rw [hc] at this; cases this
    | some c => exact ⟨c.2, by simp [write32, hin, hc, e]⟩
  obtain ⟨p0, h0⟩ := key 0 (by omega)
  obtain ⟨p1, h1⟩ := key 1 (by omega)
  obtain ⟨p2, h2⟩ := key 2 (by omega)
  obtain ⟨p3, h3⟩ := key 3 (by omega)
  simp only [Nat.add_zero] at h0
  simp only [U32] at hw
  cases big with
  | false =>
    simp only [read32, h0, h1, h2, h3, Bool.false_eq_true, if_false, byte32_toNat', Option.some.injEq]
    simp only [Nat.reducePow]
    omega
  | true =>
    simp only [read32, h0, h1, h2, h3, if_true, byte32_toNat', Option.some.injEq]
    simp only [Nat.reduceSub, Nat.reducePow]
    omega

end Falcon.Elf
