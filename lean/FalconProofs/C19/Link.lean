/-
  FalconProofs.C19.Link — lemmas about the relocation words of linked objects (x86).

  The relocations of all placed objects are one sequence of steps over the base image; every step
  either leaves the image alone or writes one 32-bit word at its site.  When the sites are pairwise
  apart, the word a symbol-naming relocation wrote is still there at the end.
-/
import FalconModel.Elf
import FalconProofs.C19.Image

namespace Falcon.Elf

/-! ### write32 / read32 -/

theorem write32_outside (m : Img) (big : Bool) (a w x : Nat) (h : ¬ (a ≤ x ∧ x < a + 4)) :
    write32 m big a w x = m x := by
  simp [write32, h]

theorem write32_isSome (m : Img) (big : Bool) (a w x : Nat) :
    (write32 m big a w x).isSome = (m x).isSome := by
  unfold write32
  split
  · cases m x <;> rfl
  · rfl

theorem write32_inside (m : Img) (a w i : Nat) (hi : i < 4) (c : UInt8 × Nat) (hm : m (a + i) = some c) :
    write32 m false a w (a + i) = some (byte32 false w i, c.2) := by
  have : a ≤ a + i ∧ a + i < a + 4 := by omega
  have e : a + i - a = i := by omega
  simp [write32, this, hm, e]

theorem byte32_toNat (w i : Nat) : (byte32 false w i).toNat = w / 256 ^ i % 256 := by
  simp only [byte32, Bool.false_eq_true, if_false, UInt8.toNat_ofNat']
  omega

/-- reading back a little-endian word whose four bytes are the bytes of `w < 2^32` -/
theorem read32_bytes (m : Img) (a w : Nat) (hw : w < U32)
    (h : ∀ i, i < 4 → ∃ p, m (a + i) = some (byte32 false w i, p)) :
    read32 m false a = some w := by
  obtain ⟨p0, h0⟩ := h 0 (by omega)
  obtain ⟨p1, h1⟩ := h 1 (by omega)
  obtain ⟨p2, h2⟩ := h 2 (by omega)
  obtain ⟨p3, h3⟩ := h 3 (by omega)
  simp only [Nat.add_zero] at h0
  simp only [read32, h0, h1, h2, h3, Bool.false_eq_true, if_false, byte32_toNat, Option.some.injEq]
  simp only [U32] at hw
  simp only [Nat.reducePow]
  omega

/-! ### the steps -/

abbrev Step := ElfDesc × Nat × Rel

def Step.site (s : Step) : Nat := s.2.2.offset + s.2.1

def steps (placed : List (ElfDesc × Nat)) : List Step :=
  placed.flatMap (fun x => (x.1.relas ++ x.1.rels ++ x.1.plt).map (fun r => (x.1, x.2, r)))

def stepFn (tab : SymTab) (acc : Res Img) (s : Step) : Res Img :=
  acc.bind (fun m => relocX86 s.1 s.2.1 tab m s.2.2)

def runSteps (tab : SymTab) (l : List Step) (m : Res Img) : Res Img := l.foldl (stepFn tab) m

theorem linkSpecX86_eq (placed : List (ElfDesc × Nat)) :
    linkSpecX86 placed = runSteps (globalTab placed) (steps placed) (.ok (baseImage placed)) := by
  simp only [linkSpecX86, runSteps, steps, List.foldl_flatMap]
  congr 1
  funext acc x
  simp only [List.foldl_map, relocsX86, stepFn]
  cases acc with
  | ok m => rfl
  | err e =>
    simp only [Res.bind]
    induction (x.1.relas ++ x.1.rels ++ x.1.plt) with
    | nil => rfl
    | cons r t ih => simpa [List.foldl_cons, Res.bind] using ih
  | panic =>
    simp only [Res.bind]
    induction (x.1.relas ++ x.1.rels ++ x.1.plt) with
    | nil => rfl
    | cons r t ih => simpa [List.foldl_cons, Res.bind] using ih

theorem runSteps_err (tab : SymTab) (l : List Step) (e : Err) : runSteps tab l (.err e) = .err e := by
  induction l with
  | nil => rfl
  | cons s t ih => simpa [runSteps, stepFn, Res.bind] using ih

theorem runSteps_panic (tab : SymTab) (l : List Step) : runSteps tab l .panic = .panic := by
  induction l with
  | nil => rfl
  | cons s t ih => simpa [runSteps, stepFn, Res.bind] using ih

theorem runSteps_cons_ok (tab : SymTab) (s : Step) (t : List Step) (m img : Img)
    (h : runSteps tab (s :: t) (.ok m) = .ok img) :
    ∃ m1, relocX86 s.1 s.2.1 tab m s.2.2 = .ok m1 ∧ runSteps tab t (.ok m1) = .ok img := by
  simp only [runSteps, List.foldl_cons, stepFn, Res.bind] at h
  cases hr : relocX86 s.1 s.2.1 tab m s.2.2 with
  | ok m1 => rw [hr] at h; exact ⟨m1, rfl, h⟩
  | err e =>
    rw [hr] at h
    have := runSteps_err tab t e
    simp only [runSteps] at this
    rw [this] at h; cases h
  | panic =>
    rw [hr] at h
    have := runSteps_panic tab t
    simp only [runSteps] at this
    rw [this] at h; cases h

/-- a successful relocation leaves the image alone or writes one word at its site -/
theorem relocX86_ok (d : ElfDesc) (B : Nat) (tab : SymTab) (m m1 : Img) (r : Rel)
    (h : relocX86 d B tab m r = .ok m1) : m1 = m ∨ ∃ w, m1 = write32 m false (r.offset + B) w := by
  unfold relocX86 at h
  simp only at h
  split at h
  · split at h
    · cases h
    · split at h
      · split at h
        · cases h; exact Or.inl rfl
        · cases h
      · split at h
        · cases h
        · split at h
          · cases h
          · split at h
            · cases h
            · cases h; exact Or.inr ⟨_, rfl⟩
  · split at h
    · split at h
      · cases h
      · split at h
        · cases h
        · split at h
          · cases h
          · split at h
            · cases h
            · cases h; exact Or.inr ⟨_, rfl⟩
    · cases h

/-- a successful symbol-naming relocation whose symbol resolves writes the symbol's address -/
theorem relocX86_names (d : ElfDesc) (B : Nat) (tab : SymTab) (m m1 : Img) (r : Rel) (n : String) (v : Nat)
    (hk : r.namesSymbolX86 = true) (hn : symName d r.sym = some n) (hv : tab.lookup n = some v)
    (h : relocX86 d B tab m r = .ok m1) :
    m1 = write32 m false (r.offset + B) (v % U32) ∧ siteOk d B (r.offset + B) = true := by
  have hk' : r.rtype = R_386_32 ∨ r.rtype = R_386_GLOB_DAT ∨ r.rtype = R_386_JMP_SLOT := by
    simpa [Rel.namesSymbolX86, or_assoc] using hk
  unfold relocX86 at h
  simp only [hk', if_true, hn, hv] at h
  split at h
  · cases h
  · split at h
    · cases h
    · split at h
      · cases h
      · rename_i hs
        cases h
        exact ⟨rfl, by simpa using hs⟩

def Apart (a b : Nat) : Prop := a + 4 ≤ b ∨ b + 4 ≤ a

/-- steps whose sites are apart from `[a, a+4)` do not change those four bytes -/
theorem runSteps_frame (tab : SymTab) (l : List Step) (m img : Img) (a : Nat)
    (h : runSteps tab l (.ok m) = .ok img) (hap : ∀ s ∈ l, Apart a s.site)
    (x : Nat) (hx : a ≤ x ∧ x < a + 4) : img x = m x := by
  induction l generalizing m with
  | nil => simp only [runSteps, List.foldl_nil, Res.ok.injEq] at h; rw [h]
  | cons s t ih =>
    obtain ⟨m1, h1, h2⟩ := runSteps_cons_ok tab s t m img h
    rw [ih m1 h2 (fun s' hs' => hap s' (by simp [hs']))]
    rcases relocX86_ok _ _ _ _ _ _ h1 with rfl | ⟨w, rfl⟩
    · rfl
    · apply write32_outside
      have := hap s (by simp)
      simp only [Apart, Step.site] at this
      omega

/-- mappedness never changes -/
theorem runSteps_isSome (tab : SymTab) (l : List Step) (m img : Img)
    (h : runSteps tab l (.ok m) = .ok img) (x : Nat) : (img x).isSome = (m x).isSome := by
  induction l generalizing m with
  | nil => simp only [runSteps, List.foldl_nil, Res.ok.injEq] at h; rw [h]
  | cons s t ih =>
    obtain ⟨m1, h1, h2⟩ := runSteps_cons_ok tab s t m img h
    rw [ih m1 h2]
    rcases relocX86_ok _ _ _ _ _ _ h1 with rfl | ⟨w, rfl⟩
    · rfl
    · exact write32_isSome _ _ _ _ _

/-- the main induction: the word written by a resolved symbol-naming step survives to the end -/
theorem runSteps_word (tab : SymTab) (l : List Step) (m img : Img)
    (h : runSteps tab l (.ok m) = .ok img)
    (hap : l.Pairwise (fun s s' => Apart s.site s'.site))
    (hdom : ∀ s ∈ l, siteOk s.1 s.2.1 s.site = true → ∀ i, i < 4 → (m (s.site + i)).isSome = true)
    (s : Step) (hs : s ∈ l) (n : String) (v : Nat)
    (hk : s.2.2.namesSymbolX86 = true) (hn : symName s.1 s.2.2.sym = some n) (hv : tab.lookup n = some v) :
    read32 img false s.site = some (v % U32) := by
  induction l generalizing m with
  | nil => simp at hs
  | cons s0 t ih =>
    obtain ⟨m1, h1, h2⟩ := runSteps_cons_ok tab s0 t m img h
    rw [List.pairwise_cons] at hap
    rcases List.mem_cons.mp hs with rfl | hst
    · obtain ⟨hw, hok⟩ := relocX86_names _ _ _ _ _ _ _ _ hk hn hv h1
      apply read32_bytes _ _ _ (Nat.mod_lt _ (by decide))
      intro i hi
      have hfr := runSteps_frame tab t m1 img s.site h2 (fun s' hs' => hap.1 s' hs') (s.site + i) (by omega)
      have hm := hdom s (by simp) hok i hi
      cases hc : m (s.site + i) with
      | none => rw [hc] at hm; cases hm
      | some c =>
        refine ⟨c.2, ?_⟩
        rw [hfr, hw]
        exact write32_inside m _ _ i hi c hc
    · apply ih m1 h2 hap.2 _ hst
      intro s' hs' hok i hi
      have := hdom s' (by simp [hs']) hok i hi
      rcases relocX86_ok _ _ _ _ _ _ h1 with rfl | ⟨w, rfl⟩
      · exact this
      · rw [write32_isSome]; exact this

/-! ### the base image maps every relocation site of a placed object -/

theorem imageOf_isSome_of_covers (ps : List PHdr) (B a : Nat) (p : PHdr) (hp : p ∈ ps)
    (hc : p.covers B a = true) : (imageOf ps B a).isSome = true := by
  induction ps with
  | nil => simp at hp
  | cons q rest ih =>
    simp only [imageOf]
    cases hr : imageOf rest B a with
    | some y => rfl
    | none =>
      rcases List.mem_cons.mp hp with rfl | hpr
      · simp [hc]
      · have := ih hpr; rw [hr] at this; cases this

theorem siteOk_mapped (d : ElfDesc) (B a : Nat) (h : siteOk d B a = true) (i : Nat) (hi : i < 4) :
    (image d B (a + i)).isSome = true := by
  simp only [siteOk, List.any_eq_true, Bool.and_eq_true, decide_eq_true_eq] at h
  obtain ⟨p, hp, ⟨hl, h1⟩, h2⟩ := h
  exact imageOf_isSome_of_covers d.phdrs B (a + i) p hp (by rw [covers_iff]; exact ⟨hl, by omega, by omega⟩)

theorem baseImage_mapped (placed : List (ElfDesc × Nat)) (d : ElfDesc) (B : Nat) (hm : (d, B) ∈ placed)
    (x : Nat) (h : (image d B x).isSome = true) : (baseImage placed x).isSome = true := by
  induction placed with
  | nil => simp at hm
  | cons y rest ih =>
    obtain ⟨d', B'⟩ := y
    simp only [baseImage, overlay]
    cases hr : baseImage rest x with
    | some z => rfl
    | none =>
      rcases List.mem_cons.mp hm with he | hmr
      · cases he; exact h
      · have := ih hmr; rw [hr] at this; cases this

theorem mem_steps (placed : List (ElfDesc × Nat)) (s : Step) :
    s ∈ steps placed ↔ (s.1, s.2.1) ∈ placed ∧ s.2.2 ∈ s.1.relas ++ s.1.rels ++ s.1.plt := by
  obtain ⟨d, B, r⟩ := s
  simp only [steps, List.mem_flatMap, List.mem_map, Prod.mk.injEq, Prod.exists]
  constructor
  · rintro ⟨d', B', hp, r', hr, rfl, rfl, rfl⟩
    exact ⟨hp, hr⟩
  · rintro ⟨hp, hr⟩
    exact ⟨d, B, hp, r, hr, rfl, rfl, rfl⟩

/-! ### the symbol table: the first definition in load order -/

theorem lookup_exportedTab (d : ElfDesc) (B : Nat) (n : String) (v : Nat)
    (h : (exportedTab d B).lookup n = some v) :
    ∃ s ∈ d.dynsyms, s.name = n ∧ s.value ≠ 0 ∧ s.shndx ≠ 0 ∧
      (s.stBind = STB_GLOBAL ∨ s.stBind = STB_WEAK) ∧ v = s.value + B := by
  simp only [exportedTab, exported, List.map_map] at h
  generalize d.dynsyms = l at h
  induction l with
  | nil => simp at h
  | cons s t ih =>
    simp only [List.filter_cons] at h
    split at h
    · rename_i hf
      simp only [List.map_cons, Function.comp, List.lookup_cons] at h
      split at h
      · rename_i he
        simp only [Option.some.injEq] at h
        simp only [Bool.and_eq_true, bne_iff_ne, ne_eq, Bool.or_eq_true, beq_iff_eq] at hf
        refine ⟨s, by simp, ?_, hf.1.1, hf.1.2, hf.2, h.symm⟩
        have he' : n = s.name := by simpa using he
        exact he'.symm
      · obtain ⟨s', hs', h'⟩ := ih h
        exact ⟨s', by simp [hs'], h'⟩
    · obtain ⟨s', hs', h'⟩ := ih h
      exact ⟨s', by simp [hs'], h'⟩

/-- what the table answers is the address, rebased once, of a defined global or weak dynamic symbol
    of that name in a placed object, and no object placed earlier exports the name -/
theorem lookup_globalTab (placed : List (ElfDesc × Nat)) (n : String) (v : Nat)
    (h : (globalTab placed).lookup n = some v) :
    ∃ pre d B post, placed = pre ++ (d, B) :: post ∧
      (∀ x ∈ pre, (exportedTab x.1 x.2).lookup n = none) ∧
      ∃ s ∈ d.dynsyms, s.name = n ∧ s.value ≠ 0 ∧ s.shndx ≠ 0 ∧
        (s.stBind = STB_GLOBAL ∨ s.stBind = STB_WEAK) ∧ v = s.value + B := by
  induction placed with
  | nil => simp [globalTab] at h
  | cons y rest ih =>
    obtain ⟨d, B⟩ := y
    simp only [globalTab, List.flatMap_cons, List.lookup_append] at h
    cases hl : (exportedTab d B).lookup n with
    | some v' =>
      rw [hl] at h
      simp only [Option.some_or, Option.some.injEq] at h
      subst h
      exact ⟨[], d, B, rest, rfl, by simp, lookup_exportedTab d B n v' hl⟩
    | none =>
      rw [hl] at h
      simp only [Option.none_or] at h
      obtain ⟨pre, d', B', post, he, hpre, hs⟩ := ih h
      refine ⟨(d, B) :: pre, d', B', post, by rw [he]; rfl, ?_, hs⟩
      intro x hx
      rcases List.mem_cons.mp hx with rfl | hx
      · exact hl
      · exact hpre x hx

end Falcon.Elf
