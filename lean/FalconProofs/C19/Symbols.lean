/-
  FalconProofs.C19.Symbols — `sort(); dedup()` commutes with moving every address up by the base.
-/
import FalconModel.Elf

namespace Falcon.Elf

def shiftSym (B : Nat) (s : Symbol) : Symbol := (s.1 + B, s.2)

theorem beq_add (a b B : Nat) : (a + B == b + B) = (a == b) := by
  rw [Bool.eq_iff_iff]
  simp only [beq_iff_eq]
  omega

theorem decide_lt_add (a b B : Nat) : decide (a + B < b + B) = decide (a < b) := by
  simp

theorem symLt_shift (B : Nat) (x y : Symbol) : symLt (shiftSym B x) (shiftSym B y) = symLt x y := by
  unfold symLt shiftSym
  rw [decide_lt_add, beq_add]

theorem eq_shift (B : Nat) (x y : Symbol) :
    ((shiftSym B x).1 == (shiftSym B y).1 && (shiftSym B x).2 == (shiftSym B y).2) = (x.1 == y.1 && x.2 == y.2) := by
  unfold shiftSym
  rw [beq_add]

theorem insertSym_shift (B : Nat) (x : Symbol) (l : List Symbol) :
    insertSym (shiftSym B x) (l.map (shiftSym B)) = (insertSym x l).map (shiftSym B) := by
  induction l with
  | nil => rfl
  | cons y t ih =>
    simp only [List.map_cons, insertSym, symLt_shift, eq_shift]
    split
    · rfl
    · split
      · rfl
      · simp [ih]

theorem sortDedup_shift (B : Nat) (l : List Symbol) :
    sortDedup (l.map (shiftSym B)) = (sortDedup l).map (shiftSym B) := by
  unfold sortDedup
  suffices h : ∀ acc : List Symbol,
      List.foldl (fun acc x => insertSym x acc) (acc.map (shiftSym B)) (l.map (shiftSym B))
        = (List.foldl (fun acc x => insertSym x acc) acc l).map (shiftSym B) by
    simpa using h []
  induction l with
  | nil => intro acc; rfl
  | cons x t ih =>
    intro acc
    simp only [List.map_cons, List.foldl_cons, insertSym_shift, ih]

theorem tableSyms_shift (tab : List Sym) (B : Nat) :
    tableSyms tab B = (tableSyms tab 0).map (shiftSym B) := by
  simp [tableSyms, shiftSym, List.map_map, Function.comp_def]

theorem pltSyms_shift (d : ElfDesc) (B : Nat) :
    pltSyms d B = (pltSyms d 0).map (shiftSym B) := by
  simp only [pltSyms, List.map_filterMap]
  congr 1
  funext r
  cases d.dynsyms[r.sym]? <;> simp [shiftSym]

theorem symList_shift (d : ElfDesc) (B : Nat) : symList d B = (symList d 0).map (shiftSym B) := by
  simp only [symList, List.map_append]
  rw [tableSyms_shift d.dynsyms B, tableSyms_shift d.syms B, pltSyms_shift d B]

theorem symbols_shift (d : ElfDesc) (B : Nat) : symbols d B = (symbols d 0).map (shiftSym B) := by
  simp only [symbols]
  rw [symList_shift, sortDedup_shift]

end Falcon.Elf
