/-
  FalconProofs.C19.Entries — the ordered map of `function_entries`: which keys it holds, and that it
  stays strictly sorted.
-/
import FalconModel.Elf

namespace Falcon.Elf

def keys (m : List Entry) : List Nat := m.map (·.1)

theorem mem_insertKV (k : Nat) (v : Option String) (m : List Entry) (x : Entry) :
    x ∈ insertKV k v m → x = (k, v) ∨ x ∈ m := by
  induction m with
  | nil => simp [insertKV]
  | cons h t ih =>
    obtain ⟨k', v'⟩ := h
    simp only [insertKV]
    split
    · intro hx; simp only [List.mem_cons] at hx ⊢; grind
    · split
      · intro hx; simp only [List.mem_cons] at hx ⊢; grind
      · intro hx; simp only [List.mem_cons] at hx ⊢
        rcases hx with h | h
        · grind
        · have := ih h; grind

theorem keys_insertKV (k : Nat) (v : Option String) (m : List Entry) (a : Nat) :
    a ∈ keys (insertKV k v m) ↔ a = k ∨ a ∈ keys m := by
  induction m with
  | nil => simp [insertKV, keys]
  | cons h t ih =>
    obtain ⟨k', v'⟩ := h
    simp only [insertKV]
    split
    · simp [keys]
    · split
      · rename_i _ he; subst he; simp [keys]
      · simp only [keys, List.map_cons, List.mem_cons] at ih ⊢
        rw [ih]; grind

theorem mem_insertAbsent (k : Nat) (v : Option String) (m : List Entry) (x : Entry) :
    x ∈ insertAbsent k v m → x = (k, v) ∨ x ∈ m := by
  induction m with
  | nil => simp [insertAbsent]
  | cons h t ih =>
    obtain ⟨k', v'⟩ := h
    simp only [insertAbsent]
    split
    · intro hx; simp only [List.mem_cons] at hx ⊢; grind
    · split
      · intro hx; exact Or.inr hx
      · intro hx; simp only [List.mem_cons] at hx ⊢
        rcases hx with h | h
        · grind
        · have := ih h; grind

theorem keys_insertAbsent (k : Nat) (v : Option String) (m : List Entry) (a : Nat) :
    a ∈ keys (insertAbsent k v m) ↔ a = k ∨ a ∈ keys m := by
  induction m with
  | nil => simp [insertAbsent, keys]
  | cons h t ih =>
    obtain ⟨k', v'⟩ := h
    simp only [insertAbsent]
    split
    · simp [keys]
    · split
      · rename_i _ he; subst he; simp [keys]
      · simp only [keys, List.map_cons, List.mem_cons] at ih ⊢
        rw [ih]; grind

/-- strictly increasing keys: sorted, one entry per address -/
def Sorted (m : List Entry) : Prop := m.Pairwise (fun a b => a.1 < b.1)

theorem sorted_insertKV (k : Nat) (v : Option String) (m : List Entry) (h : Sorted m) :
    Sorted (insertKV k v m) := by
  induction m with
  | nil => simp [insertKV, Sorted]
  | cons hd t ih =>
    obtain ⟨k', v'⟩ := hd
    unfold Sorted at h ih ⊢
    rw [List.pairwise_cons] at h
    simp only [insertKV]
    split
    · rename_i hlt
      refine List.pairwise_cons.mpr ⟨?_, List.pairwise_cons.mpr h⟩
      intro x hx
      rcases List.mem_cons.mp hx with rfl | hx
      · exact hlt
      · exact Nat.lt_trans hlt (h.1 x hx)
    · split
      · rename_i _ he; subst he
        exact List.pairwise_cons.mpr h
      · rename_i h1 h2
        refine List.pairwise_cons.mpr ⟨?_, ih h.2⟩
        intro x hx
        rcases mem_insertKV k v t x hx with rfl | hx
        · show k' < k; omega
        · exact h.1 x hx

theorem sorted_insertAbsent (k : Nat) (v : Option String) (m : List Entry) (h : Sorted m) :
    Sorted (insertAbsent k v m) := by
  induction m with
  | nil => simp [insertAbsent, Sorted]
  | cons hd t ih =>
    obtain ⟨k', v'⟩ := hd
    unfold Sorted at h ih ⊢
    rw [List.pairwise_cons] at h
    simp only [insertAbsent]
    split
    · rename_i hlt
      refine List.pairwise_cons.mpr ⟨?_, List.pairwise_cons.mpr h⟩
      intro x hx
      rcases List.mem_cons.mp hx with rfl | hx
      · exact hlt
      · exact Nat.lt_trans hlt (h.1 x hx)
    · split
      · exact List.pairwise_cons.mpr h
      · rename_i h1 h2
        refine List.pairwise_cons.mpr ⟨?_, ih h.2⟩
        intro x hx
        rcases mem_insertAbsent k v t x hx with rfl | hx
        · show k' < k; omega
        · exact h.1 x hx

theorem keys_addSyms (tab : List Sym) (m : List Entry) (a : Nat) :
    a ∈ keys (addSyms tab m) ↔ a ∈ keys m ∨ ∃ s ∈ tab, s.isFuncDef = true ∧ s.value = a := by
  induction tab generalizing m with
  | nil => simp [addSyms]
  | cons s rest ih =>
    simp only [addSyms, List.foldl_cons] at ih ⊢
    rw [ih]
    by_cases hs : s.isFuncDef = true
    · simp only [hs, if_true, keys_insertKV, List.mem_cons, exists_eq_or_imp, true_and]
      constructor
      · rintro ((h | h) | h)
        · exact Or.inr (Or.inl h.symm)
        · exact Or.inl h
        · exact Or.inr (Or.inr h)
      · rintro (h | h | h)
        · exact Or.inl (Or.inr h)
        · exact Or.inl (Or.inl h.symm)
        · exact Or.inr h
    · simp only [hs, List.mem_cons, exists_eq_or_imp]
      simp

theorem sorted_addSyms (tab : List Sym) (m : List Entry) (h : Sorted m) : Sorted (addSyms tab m) := by
  induction tab generalizing m with
  | nil => exact h
  | cons s rest ih =>
    simp only [addSyms, List.foldl_cons] at ih ⊢
    apply ih
    split
    · exact sorted_insertKV _ _ _ h
    · exact h

theorem keys_addUsers (users : List Nat) (m : List Entry) (a : Nat) :
    a ∈ keys (addUsers users m) ↔ a ∈ keys m ∨ a ∈ users := by
  induction users generalizing m with
  | nil => simp [addUsers]
  | cons u rest ih =>
    simp only [addUsers, List.foldl_cons] at ih ⊢
    rw [ih, keys_insertAbsent]
    simp only [List.mem_cons]
    grind

theorem sorted_addUsers (users : List Nat) (m : List Entry) (h : Sorted m) : Sorted (addUsers users m) := by
  induction users generalizing m with
  | nil => exact h
  | cons u rest ih =>
    simp only [addUsers, List.foldl_cons] at ih ⊢
    exact ih _ (sorted_insertAbsent _ _ _ h)

theorem keys_entriesRaw (d : ElfDesc) (users : List Nat) (a : Nat) :
    a ∈ keys (entriesRaw d users) ↔
      (∃ s ∈ d.dynsyms ++ d.syms, s.isFuncDef = true ∧ s.value = a) ∨ a = d.entry ∨ a ∈ users := by
  simp only [entriesRaw, keys_addUsers, keys_insertAbsent, keys_addSyms, List.mem_append]
  simp only [keys, List.map_nil, List.not_mem_nil, false_or]
  constructor
  · rintro ((h | (⟨s, hs, h⟩ | ⟨s, hs, h⟩)) | h)
    · exact Or.inr (Or.inl h)
    · exact Or.inl ⟨s, Or.inl hs, h⟩
    · exact Or.inl ⟨s, Or.inr hs, h⟩
    · exact Or.inr (Or.inr h)
  · rintro (⟨s, hs | hs, h⟩ | h | h)
    · exact Or.inl (Or.inr (Or.inl ⟨s, hs, h⟩))
    · exact Or.inl (Or.inr (Or.inr ⟨s, hs, h⟩))
    · exact Or.inl (Or.inl h)
    · exact Or.inr h

theorem sorted_entriesRaw (d : ElfDesc) (users : List Nat) : Sorted (entriesRaw d users) := by
  unfold entriesRaw
  apply sorted_addUsers
  apply sorted_insertAbsent
  apply sorted_addSyms
  apply sorted_addSyms
  simp [Sorted]

end Falcon.Elf
