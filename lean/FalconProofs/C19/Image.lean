/-
  FalconProofs.C19.Image — lemmas about `imageOf`: coverage, disjoint segments, rebasing.
-/
import FalconModel.Elf

namespace Falcon.Elf

theorem covers_iff (p : PHdr) (B a : Nat) :
    p.covers B a = true ↔ p.isLoad = true ∧ p.vaddr + B ≤ a ∧ a < p.vaddr + B + p.memsz := by
  simp [PHdr.covers, and_assoc]

/-- nothing is mapped where no loadable segment covers the address -/
theorem imageOf_none (ps : List PHdr) (B a : Nat)
    (h : ∀ p ∈ ps, p.covers B a = false) : imageOf ps B a = none := by
  induction ps with
  | nil => rfl
  | cons q rest ih =>
    have hq := h q (by simp)
    have hr := ih (fun p hp => h p (by simp [hp]))
    simp [imageOf, hr, hq]

/-- whatever is mapped comes from a loadable segment that covers the address -/
theorem imageOf_some (ps : List PHdr) (B a : Nat) (x : UInt8 × Nat)
    (h : imageOf ps B a = some x) :
    ∃ p ∈ ps, p.covers B a = true ∧ x = (p.byteAt (a - (p.vaddr + B)), permOf p.flags) := by
  induction ps with
  | nil => simp [imageOf] at h
  | cons q rest ih =>
    simp only [imageOf] at h
    cases hr : imageOf rest B a with
    | some y =>
      rw [hr] at h
      simp only [Option.some.injEq] at h
      obtain ⟨p, hp, hc, hx⟩ := ih (h ▸ hr)
      exact ⟨p, by simp [hp], hc, hx⟩
    | none =>
      rw [hr] at h
      by_cases hc : q.covers B a = true
      · simp only [hc, if_true, Option.some.injEq] at h
        exact ⟨q, by simp, hc, h.symm⟩
      · simp [hc] at h

theorem disjoint_not_both (p q : PHdr) (B a : Nat) (hd : p.disjoint q = true)
    (hp : p.covers B a = true) : q.covers B a = false := by
  rw [covers_iff] at hp
  cases hq : q.covers B a with
  | false => rfl
  | true =>
    rw [covers_iff] at hq
    simp only [PHdr.disjoint, Bool.or_eq_true, Bool.not_eq_true', decide_eq_true_eq] at hd
    rcases hd with ((h | h) | h) | h
    · simp [hp.1] at h
    · simp [hq.1] at h
    · omega
    · omega

theorem disjoint_symm (p q : PHdr) (h : p.disjoint q = true) : q.disjoint p = true := by
  simp only [PHdr.disjoint, Bool.or_eq_true, Bool.not_eq_true', decide_eq_true_eq] at h ⊢
  rcases h with ((h | h) | h) | h
  · exact Or.inl (Or.inl (Or.inr h))
  · exact Or.inl (Or.inl (Or.inl h))
  · exact Or.inr h
  · exact Or.inl (Or.inr h)

/-- with pairwise disjoint segments, a covering segment decides the byte and the permissions -/
theorem imageOf_covers (ps : List PHdr) (B a : Nat) (hd : pairwiseDisjoint ps = true)
    (p : PHdr) (hp : p ∈ ps) (hc : p.covers B a = true) :
    imageOf ps B a = some (p.byteAt (a - (p.vaddr + B)), permOf p.flags) := by
  induction ps with
  | nil => simp at hp
  | cons q rest ih =>
    simp only [pairwiseDisjoint, Bool.and_eq_true, List.all_eq_true] at hd
    rcases List.mem_cons.mp hp with rfl | hpr
    · have hr : imageOf rest B a = none :=
        imageOf_none rest B a (fun r hr => disjoint_not_both p r B a (hd.1 r hr) hc)
      simp [imageOf, hr, hc]
    · have := ih hd.2 hpr
      simp [imageOf, this]

/-- rebasing: the image at base `B` is the image at base 0 moved up by `B` -/
theorem covers_shift (p : PHdr) (B a : Nat) : p.covers B (a + B) = p.covers 0 a := by
  simp only [PHdr.covers, Nat.add_zero]
  congr 1
  · congr 1
    simp only [decide_eq_decide]; omega
  · simp only [decide_eq_decide]; omega

theorem imageOf_shift (ps : List PHdr) (B a : Nat) : imageOf ps B (a + B) = imageOf ps 0 a := by
  induction ps with
  | nil => rfl
  | cons q rest ih =>
    simp only [imageOf, ih, covers_shift, Nat.add_zero]
    have : a + B - (q.vaddr + B) = a - q.vaddr := by omega
    rw [this]

theorem imageOf_below (ps : List PHdr) (B a : Nat) (h : a < B) : imageOf ps B a = none := by
  apply imageOf_none
  intro p _
  cases hc : p.covers B a with
  | false => rfl
  | true => rw [covers_iff] at hc; omega

end Falcon.Elf
