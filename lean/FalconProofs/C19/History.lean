/-
  FalconProofs.C19.History — histories of `load_elf` calls on one linker.

  An object is mapped and relocated when a call places it; later calls leave it alone.  So the words a
  placement's relocation established are still there after any number of further calls, provided the
  placements do not share addresses.
-/
import FalconProofs.C19.Words

namespace Falcon.Elf

/-- no address belongs to the loadable ranges of two placements -/
def SepRel (x y : ElfDesc × Nat) : Prop := ∀ a, ¬ (inRange x.1 x.2 a ∧ inRange y.1 y.2 a)

def Sep (placed : List (ElfDesc × Nat)) : Prop := placed.Pairwise SepRel

theorem SepRel.symm {x y : ElfDesc × Nat} (h : SepRel x y) : SepRel y x := fun a ha => h a ⟨ha.2, ha.1⟩

/-! ### relocating a list of placements -/

theorem relocAll_frame (l : List (ElfDesc × Nat)) (big : Bool) (T : SymTab) (m m' : Img)
    (h : relocAll l big T m = .ok m') :
    (∀ x, (∀ y ∈ l, ¬ inRange y.1 y.2 x) → m' x = m x) ∧ (∀ x, (m' x).isSome = (m x).isSome) := by
  induction l generalizing m with
  | nil =>
    simp only [relocAll, List.foldl_nil, Res.ok.injEq] at h
    rw [← h]; exact ⟨fun _ _ => rfl, fun _ => rfl⟩
  | cons y t ih =>
    obtain ⟨m1, h1, h2⟩ := foldl_bind_cons_ok (fun m (x : ElfDesc × Nat) => relocs x.1 x.2 big T m) y t m m' h
    have hl := relocs_local y.1 y.2 big T m m1 h1
    obtain ⟨i1, i2⟩ := ih m1 h2
    refine ⟨fun x hx => ?_, fun x => by rw [i2 x, hl.2 x]⟩
    rw [i1 x (fun z hz => hx z (by simp [hz])), hl.1 x (hx y (by simp))]

theorem relocAll_words (l : List (ElfDesc × Nat)) (big : Bool) (T : SymTab) (m m' : Img)
    (h : relocAll l big T m = .ok m') (hsep : l.Pairwise SepRel)
    (hok : ∀ y ∈ l, ObjOk y.1) (hdom : ∀ y ∈ l, Dom y.1 y.2 m)
    (y : ElfDesc × Nat) (hy : y ∈ l) (w : Word) (hw : objWords y.1 y.2 big T w) :
    Holds m' w ∧ ∀ i, i < 4 → inRange y.1 y.2 (w.1 + i) := by
  induction l generalizing m with
  | nil => simp at hy
  | cons y0 t ih =>
    obtain ⟨m1, h1, h2⟩ := foldl_bind_cons_ok (fun m (x : ElfDesc × Nat) => relocs x.1 x.2 big T m) y0 t m m' h
    rw [List.pairwise_cons] at hsep
    rcases List.mem_cons.mp hy with rfl | hyt
    · obtain ⟨hh, hr⟩ := relocs_words y.1 y.2 big T m m1 h1 (hok y (by simp)) (hdom y (by simp)) w hw
      refine ⟨?_, hr⟩
      unfold Holds at hh ⊢
      rw [← hh]
      apply read32_congr
      intro i hi
      exact (relocAll_frame t big T m1 m' h2).1 _ (fun z hz hin => hsep.1 z hz _ ⟨hr i hi, hin⟩)
    · have hl := relocs_local y0.1 y0.2 big T m m1 h1
      exact ih m1 h2 hsep.2 (fun z hz => hok z (by simp [hz]))
        (fun z hz => (hdom z (by simp [hz])).of_local hl.2) hyt

/-! ### one call -/

theorem finishLoad_ok (st st' : LinkState) (newly : List (ElfDesc × Nat)) (next : Nat) (big : Bool)
    (h : finishLoad st newly next big = .ok st') :
    st'.placed = st.placed ++ newly ∧ st'.tab = st.tab ++ globalTab newly ∧
    relocAll newly big st'.tab (mapAll newly st.mem) = .ok st'.mem := by
  unfold finishLoad at h
  simp only at h
  cases hr : relocAll newly big (st.tab ++ globalTab newly) (mapAll newly st.mem) with
  | ok m => rw [hr] at h; simp only [Res.map, Res.ok.injEq] at h; subst h; exact ⟨rfl, rfl, hr⟩
  | err e => rw [hr] at h; cases h
  | panic => rw [hr] at h; cases h

theorem callLoad_ok (files : List ElfDesc) (big : Bool) (st st' : LinkState) (name : String) (B : Nat)
    (h : callLoad files big st name B = .ok st') :
    ∃ newly next, finishLoad st newly next big = .ok st' := by
  unfold callLoad at h
  cases hp : planLoad files (files.length + 1) name B (st.placed, st.next) with
  | ok r => rw [hp] at h; exact ⟨_, _, h⟩
  | err e => rw [hp] at h; cases h
  | panic => rw [hp] at h; cases h

/-- a call changes memory only inside the ranges of what it places -/
theorem finishLoad_frame (st st' : LinkState) (newly : List (ElfDesc × Nat)) (next : Nat) (big : Bool)
    (h : finishLoad st newly next big = .ok st') (x : Nat) (hx : ∀ y ∈ newly, ¬ inRange y.1 y.2 x) :
    st'.mem x = st.mem x := by
  obtain ⟨_, _, hr⟩ := finishLoad_ok st st' newly next big h
  rw [(relocAll_frame newly big st'.tab _ _ hr).1 x hx, mapAll_outside newly st.mem x hx]

/-- and establishes the words of everything it places -/
theorem finishLoad_words (st st' : LinkState) (newly : List (ElfDesc × Nat)) (next : Nat) (big : Bool)
    (h : finishLoad st newly next big = .ok st') (hsep : newly.Pairwise SepRel) (hok : ∀ y ∈ newly, ObjOk y.1)
    (y : ElfDesc × Nat) (hy : y ∈ newly) (w : Word) (hw : objWords y.1 y.2 big st'.tab w) :
    Holds st'.mem w ∧ ∀ i, i < 4 → inRange y.1 y.2 (w.1 + i) := by
  obtain ⟨_, _, hr⟩ := finishLoad_ok st st' newly next big h
  exact relocAll_words newly big st'.tab _ _ hr hsep hok
    (fun z hz x hx => mapAll_mapped newly st.mem z hz x hx) y hy w hw

/-! ### histories -/

theorem runCalls_cons_ok (files : List ElfDesc) (big : Bool) (st stF : LinkState) (c : String × Nat)
    (cs : List (String × Nat)) (h : runCalls files big st (c :: cs) = .ok stF) :
    ∃ st', callLoad files big st c.1 c.2 = .ok st' ∧ runCalls files big st' cs = .ok stF := by
  simp only [runCalls] at h
  cases hc : callLoad files big st c.1 c.2 with
  | ok st' => rw [hc] at h; exact ⟨st', rfl, h⟩
  | err e => rw [hc] at h; cases h
  | panic => rw [hc] at h; cases h

/-- later calls only add placements, and change memory only inside their ranges -/
theorem runCalls_frame (files : List ElfDesc) (big : Bool) (st stF : LinkState) (cs : List (String × Nat))
    (h : runCalls files big st cs = .ok stF) :
    ∃ more, stF.placed = st.placed ++ more ∧ stF.tab = st.tab ++ globalTab more ∧
      ∀ x, (∀ y ∈ more, ¬ inRange y.1 y.2 x) → stF.mem x = st.mem x := by
  induction cs generalizing st with
  | nil =>
    simp only [runCalls, Res.ok.injEq] at h
    subst h
    exact ⟨[], by simp, by simp [globalTab], fun _ _ => rfl⟩
  | cons c cs ih =>
    obtain ⟨st', hc, hr⟩ := runCalls_cons_ok files big st stF c cs h
    obtain ⟨newly, next, hf⟩ := callLoad_ok files big st st' c.1 c.2 hc
    obtain ⟨hp, ht, _⟩ := finishLoad_ok st st' newly next big hf
    obtain ⟨more, hm1, hm2, hm3⟩ := ih st' hr
    refine ⟨newly ++ more, by rw [hm1, hp, List.append_assoc], ?_, fun x hx => ?_⟩
    · rw [hm2, ht, List.append_assoc]; simp [globalTab]
    · rw [hm3 x (fun y hy => hx y (by simp [hy])),
        finishLoad_frame st st' newly next big hf x (fun y hy => hx y (by simp [hy]))]

/-- the placements of a history with the linker's state at the end of the call that placed them -/
def trace (files : List ElfDesc) (big : Bool) : LinkState → List (String × Nat) → List (ElfDesc × Nat × LinkState)
  | _, [] => []
  | st, c :: cs =>
    match callLoad files big st c.1 c.2 with
    | .ok st' => (st'.placed.drop st.placed.length).map (fun x => (x.1, x.2, st')) ++ trace files big st' cs
    | _ => []

/-- **every word a placement's relocation established is there at the end of the history** -/
theorem history_words (files : List ElfDesc) (big : Bool) (st stF : LinkState) (cs : List (String × Nat))
    (h : runCalls files big st cs = .ok stF) (hsep : Sep stF.placed) (hok : ∀ y ∈ stF.placed, ObjOk y.1)
    (e : ElfDesc × Nat × LinkState) (he : e ∈ trace files big st cs)
    (w : Word) (hw : objWords e.1 e.2.1 big e.2.2.tab w) : Holds stF.mem w := by
  induction cs generalizing st with
  | nil => simp [trace] at he
  | cons c cs ih =>
    obtain ⟨st', hc, hr⟩ := runCalls_cons_ok files big st stF c cs h
    simp only [trace, hc, List.mem_append, List.mem_map] at he
    rcases he with ⟨y, hy, rfl⟩ | he
    · obtain ⟨newly, next, hf⟩ := callLoad_ok files big st st' c.1 c.2 hc
      obtain ⟨hp, _, _⟩ := finishLoad_ok st st' newly next big hf
      obtain ⟨more, hm1, _, hm3⟩ := runCalls_frame files big st' stF cs hr
      rw [hp, List.drop_left] at hy
      have hall : stF.placed = st.placed ++ (newly ++ more) := by rw [hm1, hp, List.append_assoc]
      unfold Sep at hsep
      rw [hall, List.pairwise_append] at hsep
      obtain ⟨_, hs2, _⟩ := hsep
      rw [List.pairwise_append] at hs2
      obtain ⟨hsn, _, hcross⟩ := hs2
      obtain ⟨hh, hin⟩ := finishLoad_words st st' newly next big hf hsn
        (fun z hz => hok z (by rw [hall]; simp [hz])) y hy w hw
      unfold Holds at hh ⊢
      rw [← hh]
      apply read32_congr
      intro i hi
      exact hm3 _ (fun z hz hz' => hcross y hy z hz _ ⟨hin i hi, hz'⟩)
    · exact ih st' hr he

/-- the table a placement was relocated against is the table of a prefix of the final placements -/
theorem trace_tab (files : List ElfDesc) (big : Bool) (st stF : LinkState) (cs : List (String × Nat))
    (h : runCalls files big st cs = .ok stF) (hinv : st.tab = globalTab st.placed)
    (e : ElfDesc × Nat × LinkState) (he : e ∈ trace files big st cs) :
    e.2.2.tab = globalTab e.2.2.placed ∧ (e.1, e.2.1) ∈ e.2.2.placed ∧
      ∃ more, stF.placed = e.2.2.placed ++ more := by
  induction cs generalizing st with
  | nil => simp [trace] at he
  | cons c cs ih =>
    obtain ⟨st', hc, hr⟩ := runCalls_cons_ok files big st stF c cs h
    obtain ⟨newly, next, hf⟩ := callLoad_ok files big st st' c.1 c.2 hc
    obtain ⟨hp, ht, _⟩ := finishLoad_ok st st' newly next big hf
    have hinv' : st'.tab = globalTab st'.placed := by
      rw [ht, hp, hinv]; simp [globalTab]
    simp only [trace, hc, List.mem_append, List.mem_map] at he
    rcases he with ⟨y, hy, rfl⟩ | he
    · obtain ⟨more, hm1, _, _⟩ := runCalls_frame files big st' stF cs hr
      exact ⟨hinv', List.mem_of_mem_drop hy, more, hm1⟩
    · exact ih st' hr hinv' he

/-- every placement of the final state is in the trace: the placements are exactly what the calls placed -/
theorem trace_complete (files : List ElfDesc) (big : Bool) (st stF : LinkState) (cs : List (String × Nat))
    (h : runCalls files big st cs = .ok stF) :
    stF.placed = st.placed ++ (trace files big st cs).map (fun e => (e.1, e.2.1)) := by
  induction cs generalizing st with
  | nil =>
    simp only [runCalls, Res.ok.injEq] at h
    subst h
    simp [trace]
  | cons c cs ih =>
    obtain ⟨st', hc, hr⟩ := runCalls_cons_ok files big st stF c cs h
    obtain ⟨newly, next, hf⟩ := callLoad_ok files big st st' c.1 c.2 hc
    obtain ⟨hp, _, _⟩ := finishLoad_ok st st' newly next big hf
    rw [ih st' hr]
    simp only [trace, hc, List.map_append, List.map_map, Function.comp_def]
    rw [hp, List.drop_left, List.map_id', List.append_assoc]

/-- `ElfLinker::new` is the one-call history -/
theorem link_is_history (files : List ElfDesc) (main : String) (d0 : ElfDesc) (st : LinkState)
    (hd : files.find? (fun d => d.name == main) = some d0) (h : link files main = .ok st) :
    runCalls files (d0.enc == .msb) LinkState.empty [(main, 0)] = .ok st := by
  simp only [link, hd] at h
  simp only [runCalls, h, Res.bind]

theorem inRange_bounds (d : ElfDesc) (B a : Nat) (h : inRange d B a) :
    ∃ p ∈ d.phdrs, p.vaddr + B ≤ a ∧ a < p.vaddr + B + p.memsz := by
  obtain ⟨p, hp, hc⟩ := h
  rw [covers_iff] at hc
  exact ⟨p, hp, hc.2⟩

end Falcon.Elf
