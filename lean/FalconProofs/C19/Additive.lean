/-
  FalconProofs.C19.Additive — the additive x86 relocation (R_386_RELATIVE): after any history the word
  holds the word of the file image plus the base of its own placement, added once.
-/
import FalconProofs.C19.History

namespace Falcon.Elf

/-- `m` still shows the file image of the placement on all of its ranges -/
def Pre (y : ElfDesc × Nat) (m : Img) : Prop := ∀ x, inRange y.1 y.2 x → m x = image y.1 y.2 x

theorem Pre.dom {y : ElfDesc × Nat} {m : Img} (h : Pre y m) : Dom y.1 y.2 m := fun x hx => by
  rw [h x hx]; exact (image_isSome_iff y.1 y.2 x).mpr hx

/-- the additive words of an x86 object placed at `B`: a `R_386_RELATIVE` relocation at whose site the
    file image holds the word `v0`; afterwards the word is `B + v0` -/
def addWords (d : ElfDesc) (B : Nat) (w : Word) : Prop :=
  d.machine = EM_386 ∧ ∃ r ∈ allRels d, r.rtype = R_386_RELATIVE ∧ ∃ v0,
    read32 (image d B) false (r.offset + B) = some v0 ∧ w = (r.offset + B, false, B % U32 + v0)

theorem read32_some_mapped (m : Img) (big : Bool) (a v : Nat) (h : read32 m big a = some v) (i : Nat) (hi : i < 4) :
    (m (a + i)).isSome = true := by
  unfold read32 at h
  split at h
  · rename_i b0 b1 b2 b3 h0 h1 h2 h3
    have : i = 0 ∨ i = 1 ∨ i = 2 ∨ i = 3 := by omega
    rcases this with rfl | rfl | rfl | rfl
    · simp [h0]
    · simp [h1]
    · simp [h2]
    · simp [h3]
  · cases h

theorem relocX86_relative (d : ElfDesc) (B : Nat) (T : SymTab) (m m1 : Img) (r : Rel) (v0 : Nat)
    (hty : r.rtype = R_386_RELATIVE) (hv : read32 m false (r.offset + B) = some v0)
    (h : relocX86 d B T m r = .ok m1) :
    m1 = write32 m false (r.offset + B) (B % U32 + v0) ∧ B % U32 + v0 < U32 ∧ siteOk d B (r.offset + B) = true := by
  unfold relocX86 at h
  have hne : ¬ (R_386_RELATIVE = R_386_32 ∨ R_386_RELATIVE = R_386_GLOB_DAT ∨ R_386_RELATIVE = R_386_JMP_SLOT) := by
    decide
  simp only [hty, hne, if_false, eq_self, if_true, hv] at h
  by_cases c1 : r.offset + B ≥ U64
  · rw [if_pos c1] at h; cases h
  · rw [if_neg c1] at h
    by_cases c2 : (!siteOk d B (r.offset + B)) = true
    · rw [if_pos c2] at h; cases h
    · rw [if_neg c2] at h
      by_cases c3 : B % U32 + v0 ≥ U32
      · simp only [c3, if_true] at h; cases h
      · simp only [c3, if_false] at h
        cases h
        exact ⟨rfl, by omega, by simpa using c2⟩

/-- inside one object: the RELATIVE word is the old word plus the base -/
theorem runSteps_relative (T : SymTab) (l : List Step) (m img : Img)
    (h : runSteps T l (.ok m) = .ok img)
    (hap : l.Pairwise (fun (s s' : Step) => Apart (Step.site s) (Step.site s')))
    (s : Step) (hs : s ∈ l) (hty : s.2.2.rtype = R_386_RELATIVE) (v0 : Nat)
    (hv : read32 m false s.site = some v0) :
    read32 img false s.site = some (s.2.1 % U32 + v0) ∧ siteOk s.1 s.2.1 s.site = true := by
  induction l generalizing m with
  | nil => simp at hs
  | cons s0 t ih =>
    obtain ⟨m1, h1, h2⟩ := runSteps_cons_ok T s0 t m img h
    rw [List.pairwise_cons] at hap
    rcases List.mem_cons.mp hs with rfl | hst
    · obtain ⟨hw, hlt, hok⟩ := relocX86_relative _ _ T m m1 _ v0 hty hv h1
      refine ⟨?_, hok⟩
      rw [read32_congr img m1 false s.site
        (fun i hi => runSteps_frame T t m1 img s.site h2 (fun s' hs' => hap.1 s' hs') (s.site + i) (by omega)), hw]
      exact read32_write32 m false _ _ hlt (read32_some_mapped m false _ v0 hv)
    · apply ih m1 h2 hap.2 hst
      rw [← hv]
      apply read32_congr
      intro i hi
      rcases relocX86_ok _ _ _ _ _ _ h1 with rfl | ⟨w, rfl⟩
      · rfl
      · apply write32_outside
        have := hap.1 s hst
        simp only [Apart, Step.site] at this ⊢
        omega

theorem relocs_add (d : ElfDesc) (B : Nat) (big : Bool) (T : SymTab) (m m' : Img)
    (h : relocs d B big T m = .ok m') (hok : ObjOk d) (hpre : Pre (d, B) m) (w : Word) (hw : addWords d B w) :
    Holds m' w ∧ ∀ i, i < 4 → inRange d B (w.1 + i) := by
  obtain ⟨hm, r, hr, hty, v0, hv, rfl⟩ := hw
  unfold relocs at h
  rw [if_pos hm, relocsX86_eq_runSteps] at h
  have hp : ((allRels d).map (fun r => ((d, B, r) : Step))).Pairwise
      (fun (s s' : Step) => Apart (Step.site s) (Step.site s')) := by
    rw [List.pairwise_map]
    exact (hok.1 hm).imp (fun h => by simp only [Apart, Step.site] at h ⊢; omega)
  have hvm : read32 m false (r.offset + B) = some v0 := by
    rw [← hv]
    apply read32_congr
    intro i hi
    exact hpre _ ((image_isSome_iff d B _).mp (read32_some_mapped _ false _ v0 hv i hi))
  obtain ⟨hh, hsite⟩ := runSteps_relative T _ m m' h hp (d, B, r) (List.mem_map.mpr ⟨r, hr, rfl⟩) hty v0 hvm
  simp only [Step.site] at hsite hh
  exact ⟨hh, fun i hi => siteOk_inRange d B _ _ hsite (by omega) (by omega)⟩

theorem relocAll_add (l : List (ElfDesc × Nat)) (big : Bool) (T : SymTab) (m m' : Img)
    (h : relocAll l big T m = .ok m') (hsep : l.Pairwise SepRel)
    (hok : ∀ y ∈ l, ObjOk y.1) (hpre : ∀ y ∈ l, Pre y m)
    (y : ElfDesc × Nat) (hy : y ∈ l) (w : Word) (hw : addWords y.1 y.2 w) :
    Holds m' w ∧ ∀ i, i < 4 → inRange y.1 y.2 (w.1 + i) := by
  induction l generalizing m with
  | nil => simp at hy
  | cons y0 t ih =>
    obtain ⟨m1, h1, h2⟩ := foldl_bind_cons_ok (fun m (x : ElfDesc × Nat) => relocs x.1 x.2 big T m) y0 t m m' h
    rw [List.pairwise_cons] at hsep
    rcases List.mem_cons.mp hy with rfl | hyt
    · obtain ⟨hh, hr⟩ := relocs_add y.1 y.2 big T m m1 h1 (hok y (by simp)) (hpre y (by simp)) w hw
      refine ⟨?_, hr⟩
      unfold Holds at hh ⊢
      rw [← hh]
      apply read32_congr
      intro i hi
      exact (relocAll_frame t big T m1 m' h2).1 _ (fun z hz hin => hsep.1 z hz _ ⟨hr i hi, hin⟩)
    · have hl := relocs_local y0.1 y0.2 big T m m1 h1
      refine ih m1 h2 hsep.2 (fun z hz => hok z (by simp [hz])) (fun z hz x hx => ?_) hyt
      rw [hl.1 x (fun hin => hsep.1 z hz x ⟨hin, hx⟩)]
      exact hpre z (by simp [hz]) x hx

theorem mapAll_image (newly : List (ElfDesc × Nat)) (m : Img) (hsep : newly.Pairwise SepRel)
    (y : ElfDesc × Nat) (hy : y ∈ newly) : Pre y (mapAll newly m) := by
  induction newly generalizing m with
  | nil => simp at hy
  | cons z t ih =>
    rw [List.pairwise_cons] at hsep
    intro x hx
    rcases List.mem_cons.mp hy with rfl | hyt
    · have : mapAll (y :: t) m x = mapAll t (overlay (image y.1 y.2) m) x := rfl
      rw [this, mapAll_outside t _ x (fun z hz hin => hsep.1 z hz x ⟨hx, hin⟩)]
      have hs := (image_isSome_iff y.1 y.2 x).mpr hx
      simp only [overlay]
      cases hi : image y.1 y.2 x with
      | none => rw [hi] at hs; cases hs
      | some v => rfl
    · exact ih (overlay (image z.1 z.2) m) hsep.2 hyt x hx

theorem finishLoad_add (st st' : LinkState) (newly : List (ElfDesc × Nat)) (next : Nat) (big : Bool)
    (h : finishLoad st newly next big = .ok st') (hsep : newly.Pairwise SepRel) (hok : ∀ y ∈ newly, ObjOk y.1)
    (y : ElfDesc × Nat) (hy : y ∈ newly) (w : Word) (hw : addWords y.1 y.2 w) :
    Holds st'.mem w ∧ ∀ i, i < 4 → inRange y.1 y.2 (w.1 + i) := by
  obtain ⟨_, _, hr⟩ := finishLoad_ok st st' newly next big h
  exact relocAll_add newly big st'.tab _ _ hr hsep hok (fun z hz => mapAll_image newly st.mem hsep z hz) y hy w hw

/-- **every additive word is rebased exactly once, whatever calls follow** -/
theorem history_add (files : List ElfDesc) (big : Bool) (st stF : LinkState) (cs : List (String × Nat))
    (h : runCalls files big st cs = .ok stF) (hsep : Sep stF.placed) (hok : ∀ y ∈ stF.placed, ObjOk y.1)
    (e : ElfDesc × Nat × LinkState) (he : e ∈ trace files big st cs)
    (w : Word) (hw : addWords e.1 e.2.1 w) : Holds stF.mem w := by
  induction cs generalizing st with
  | nil => simp [trace] at he
  | cons c cs ih =>
    obtain ⟨st', hc, hr⟩ := runCalls_cons_ok files big st stF c cs h
    simp only [trace, hc, List.mem_append, List.mem_map] at he
    rcases he with ⟨y, hy, rfl⟩ | he
    · obtain ⟨newly, next, hf⟩ := callLoad_ok files big st st' c.1 c.2 hc
      obtain ⟨hp, _, _⟩ := finishLoad_ok st st' newly next big hf
      obtain ⟨more, hm1, _, hm3⟩ := runCalls_frame files big st' stF cs hr
      rw [hp, List.drop_left] at hy
      have hall : stF.placed = st.placed ++ (newly ++ more) := by rw [hm1, hp, List.append_assoc]
      unfold Sep at hsep
      rw [hall, List.pairwise_append] at hsep
      obtain ⟨_, hs2, _⟩ := hsep
      rw [List.pairwise_append] at hs2
      obtain ⟨hsn, _, hcross⟩ := hs2
      obtain ⟨hh, hin⟩ := finishLoad_add st st' newly next big hf hsn
        (fun z hz => hok z (by rw [hall]; simp [hz])) y hy w hw
      unfold Holds at hh ⊢
      rw [← hh]
      apply read32_congr
      intro i hi
      exact hm3 _ (fun z hz hz' => hcross y hy z hz _ ⟨hin i hi, hz'⟩)
    · exact ih st' hr he

end Falcon.Elf
