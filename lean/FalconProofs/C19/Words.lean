/-
  FalconProofs.C19.Words — what one successful relocation of ONE placed object establishes:
  the x86 symbol-naming relocation words and the external entries of the MIPS o32 global GOT hold the
  address the symbol table gives for the symbol they name.
-/
import FalconProofs.C19.Frame

namespace Falcon.Elf

/-- a relocated word: (address, big-endian?, value) -/
abbrev Word := Nat × Bool × Nat

def Holds (m : Img) (w : Word) : Prop := read32 m w.2.1 w.1 = some w.2.2

def allRels (d : ElfDesc) : List Rel := d.relas ++ d.rels ++ d.plt

/-- the object is mapped in `m` -/
def Dom (d : ElfDesc) (B : Nat) (m : Img) : Prop := ∀ x, inRange d B x → (m x).isSome = true

theorem Dom.of_local {d : ElfDesc} {B : Nat} {m m' : Img} (h : Dom d B m) (hl : ∀ x, (m' x).isSome = (m x).isSome) :
    Dom d B m' := fun x hx => by rw [hl x]; exact h x hx

/-- The words the property speaks about, for an object `d` placed at `B` and relocated against table `T`:
    * x86: a `R_386_32` / `R_386_GLOB_DAT` / `R_386_JMP_SLOT` relocation (any of the three tables) whose
      symbol's name `n` the table resolves to `v`: the little-endian word at `r_offset + B` is `v`;
    * MIPS o32: the global part of the GOT.  Entry `DT_MIPS_LOCAL_GOTNO + k` belongs to dynamic symbol
      `DT_MIPS_GOTSYM + k` - whatever the symbols before it are, defined or not -; when that symbol is
      undefined (`st_shndx = 0`) and the table resolves its name to `v`, the word (in the memory's
      endianness) at `DT_PLTGOT + B + 4·(LOCAL_GOTNO + k)` is `v`. -/
def objWords (d : ElfDesc) (B : Nat) (big : Bool) (T : SymTab) (w : Word) : Prop :=
  (d.machine = EM_386 ∧ ∃ r ∈ allRels d, r.namesSymbolX86 = true ∧ ∃ n v, symName d r.sym = some n ∧
      T.lookup n = some v ∧ w = (r.offset + B, false, v % U32)) ∨
  (d.machine = EM_MIPS ∧ ∃ lg gs sn pg k s v, getDyn d DT_MIPS_LOCAL_GOTNO = some lg ∧
      getDyn d DT_MIPS_GOTSYM = some gs ∧ getDyn d DT_MIPS_SYMTABNO = some sn ∧ getDyn d DT_PLTGOT = some pg ∧
      k < sn - gs ∧ d.dynsyms[gs + k]? = some s ∧ s.shndx = 0 ∧ T.lookup s.name = some v ∧
      w = (pg + B + (lg + k) * 4, big, v % U32))

/-- what must not collide inside one object: x86 relocation sites are 4 bytes apart from each other;
    MIPS `R_MIPS_REL32` sites are apart from the global GOT entries -/
def ObjOk (d : ElfDesc) : Prop :=
  (d.machine = EM_386 → (allRels d).Pairwise (fun r r' => Apart r.offset r'.offset)) ∧
  (d.machine = EM_MIPS → ∀ lg gs sn pg, getDyn d DT_MIPS_LOCAL_GOTNO = some lg →
      getDyn d DT_MIPS_GOTSYM = some gs → getDyn d DT_MIPS_SYMTABNO = some sn → getDyn d DT_PLTGOT = some pg →
      ∀ r ∈ d.rels, r.rtype = R_MIPS_REL32 → ∀ k, k < sn - gs → Apart (pg + (lg + k) * 4) r.offset)

/-! ### x86 -/

theorem relocsX86_eq_runSteps (d : ElfDesc) (B : Nat) (T : SymTab) (m : Img) :
    relocsX86 d B T m = runSteps T ((allRels d).map (fun r => ((d, B, r) : Step))) (.ok m) := by
  simp only [relocsX86, runSteps, List.foldl_map, allRels]
  rfl

theorem x86_words (d : ElfDesc) (B : Nat) (T : SymTab) (m m' : Img) (h : relocsX86 d B T m = .ok m')
    (hap : (allRels d).Pairwise (fun r r' => Apart r.offset r'.offset)) (hdom : Dom d B m)
    (r : Rel) (hr : r ∈ allRels d) (hk : r.namesSymbolX86 = true) (n : String) (v : Nat)
    (hn : symName d r.sym = some n) (hv : T.lookup n = some v) :
    read32 m' false (r.offset + B) = some (v % U32) ∧ siteOk d B (r.offset + B) = true := by
  rw [relocsX86_eq_runSteps] at h
  have hp : ((allRels d).map (fun r => ((d, B, r) : Step))).Pairwise (fun (s s' : Step) => Apart (Step.site s) (Step.site s')) := by
    rw [List.pairwise_map]
    exact hap.imp (fun h => by simp only [Apart, Step.site] at h ⊢; omega)
  have hmem : ((d, B, r) : Step) ∈ (allRels d).map (fun r => ((d, B, r) : Step)) := List.mem_map.mpr ⟨r, hr, rfl⟩
  refine ⟨runSteps_word T _ m m' h hp ?_ (d, B, r) hmem n v hk hn hv, ?_⟩
  · intro s hs hok i hi
    obtain ⟨r', _, rfl⟩ := List.mem_map.mp hs
    exact hdom _ (siteOk_inRange d B _ _ hok (by omega) (by omega))
  · -- the step itself succeeded, so its site was accepted
    clear hp hdom
    generalize (allRels d) = l at h hmem hr
    induction l generalizing m with
    | nil => simp at hr
    | cons r0 t ih =>
      simp only [List.map_cons] at h
      obtain ⟨m1, h1, h2⟩ := runSteps_cons_ok T _ _ m m' h
      rcases List.mem_cons.mp hr with rfl | hrt
      · exact (relocX86_names d B T m m1 r n v hk hn hv h1).2
      · exact ih m1 h2 (List.mem_map.mpr ⟨r, hrt, rfl⟩) hrt

/-! ### MIPS -/

/-- the global-GOT loop never writes below its cursor -/
theorem mipsGotSyms_below (d : ElfDesc) (B : Nat) (big : Bool) (T : SymTab) (n i a : Nat) (m m' : Img)
    (h : mipsGotSyms d B big T n i a m = .ok m') (x : Nat) (hx : x < a) : m' x = m x := by
  induction n generalizing i a m with
  | zero => simp only [mipsGotSyms, Res.ok.injEq] at h; rw [← h]
  | succ n ih =>
    simp only [mipsGotSyms] at h
    split at h
    · cases h
    · split at h
      · split at h
        · cases h
        · split at h
          · cases h
          · split at h
            · cases h
            · rw [ih _ _ _ h (by omega)]
              exact write32_outside _ _ _ _ _ (by omega)
      · exact ih _ _ _ h (by omega)

/-- entry `k` of the loop belongs to symbol `i + k`, whatever comes before it -/
theorem mipsGotSyms_word (d : ElfDesc) (B : Nat) (big : Bool) (T : SymTab) (n i a : Nat) (m m' : Img)
    (h : mipsGotSyms d B big T n i a m = .ok m') (hdom : Dom d B m)
    (k : Nat) (hk : k < n) (s : Sym) (hs : d.dynsyms[i + k]? = some s) (hu : s.shndx = 0)
    (v : Nat) (hv : T.lookup s.name = some v) :
    read32 m' big (a + 4 * k) = some (v % U32) ∧ siteOk d B (a + 4 * k) = true := by
  induction n generalizing i a m k with
  | zero => omega
  | succ n ih =>
    simp only [mipsGotSyms] at h
    split at h
    · cases h
    · rename_i s0 hs0
      split at h
      · rename_i hu0
        split at h
        · cases h
        · rename_i v0 hv0
          split at h
          · cases h
          · split at h
            · cases h
            · rename_i hok
              have hok' : siteOk d B a = true := by simpa using hok
              cases k with
              | zero =>
                simp only [Nat.add_zero, Nat.mul_zero] at hs ⊢
                rw [hs0] at hs
                cases hs
                have hvv : v0 = v := by rw [hv0] at hv; exact Option.some.inj hv
                subst hvv
                refine ⟨?_, hok'⟩
                rw [read32_congr m' (write32 m big a (v0 % U32)) big a
                  (fun j hj => mipsGotSyms_below d B big T n (i + 1) (a + 4) _ m' h (a + j) (by omega))]
                exact read32_write32 m big a _ (Nat.mod_lt _ (by decide))
                  (fun j hj => hdom _ (siteOk_inRange d B a _ hok' (by omega) (by omega)))
              | succ k =>
                have := ih (i + 1) (a + 4) _ h (hdom.of_local (fun x => write32_isSome m big a _ x)) k (by omega)
                  (by rw [← hs]; congr 1; omega)
                rw [show a + 4 * (k + 1) = a + 4 + 4 * k by omega]
                exact this
      · rename_i hd0
        cases k with
        | zero =>
          simp only [Nat.add_zero] at hs
          rw [hs0] at hs
          cases hs
          exact absurd hu hd0
        | succ k =>
          have := ih (i + 1) (a + 4) _ h hdom k (by omega) (by rw [← hs]; congr 1; omega)
          rw [show a + 4 * (k + 1) = a + 4 + 4 * k by omega]
          exact this

theorem mips_words (d : ElfDesc) (B : Nat) (big : Bool) (T : SymTab) (m m' : Img)
    (h : relocsMips d B big T m = .ok m') (hok : ObjOk d) (hm : d.machine = EM_MIPS) (hdom : Dom d B m)
    (lg gs sn pg : Nat) (h1 : getDyn d DT_MIPS_LOCAL_GOTNO = some lg) (h2 : getDyn d DT_MIPS_GOTSYM = some gs)
    (h3 : getDyn d DT_MIPS_SYMTABNO = some sn) (h4 : getDyn d DT_PLTGOT = some pg)
    (k : Nat) (hk : k < sn - gs) (s : Sym) (hs : d.dynsyms[gs + k]? = some s) (hu : s.shndx = 0)
    (v : Nat) (hv : T.lookup s.name = some v) :
    read32 m' big (pg + B + (lg + k) * 4) = some (v % U32) ∧ siteOk d B (pg + B + (lg + k) * 4) = true := by
  obtain ⟨lg', gs', sn', pg', m1, m2, e1, e2, e3, e4, _, ha, hb, hc⟩ := relocsMips_phases d B big T m m' h
  rw [h1] at e1; rw [h2] at e2; rw [h3] at e3; rw [h4] at e4
  cases e1; cases e2; cases e3; cases e4
  have hd1 : Dom d B m1 := hdom.of_local (mipsGotBase_local d B big pg _ _ m m1 ha).2
  obtain ⟨hw, hsite⟩ := mipsGotSyms_word d B big T _ _ _ m1 m2 hb hd1 k hk s hs hu v hv
  have ea : pg + B + lg * 4 + 4 * k = pg + B + (lg + k) * 4 := by omega
  rw [ea] at hw hsite
  refine ⟨?_, hsite⟩
  rw [← hw]
  apply read32_congr
  intro j hj
  -- the REL32 phase does not touch the entry
  have := foldl_bind_rel (fun m r => relocMipsRel d B big m r)
    (fun ma mb => mb (pg + B + (lg + k) * 4 + j) = ma (pg + B + (lg + k) * 4 + j))
    (fun _ => rfl) (fun _ _ _ h1 h2 => by rw [h2, h1]) d.rels
    (fun r hr ma mb hstep => by
      rcases relocMipsRel_ok d B big ma mb r hstep with rfl | ⟨w, hty, _, rfl⟩
      · rfl
      · apply write32_outside
        have := hok.2 hm lg gs sn pg h1 h2 h3 h4 r hr hty k hk
        simp only [Apart] at this
        omega) m2 m' hc
  exact this

/-! ### either machine -/

theorem relocs_words (d : ElfDesc) (B : Nat) (big : Bool) (T : SymTab) (m m' : Img)
    (h : relocs d B big T m = .ok m') (hok : ObjOk d) (hdom : Dom d B m) (w : Word) (hw : objWords d B big T w) :
    Holds m' w ∧ ∀ i, i < 4 → inRange d B (w.1 + i) := by
  unfold relocs at h
  rcases hw with ⟨hm, r, hr, hk, n, v, hn, hv, rfl⟩ | ⟨hm, lg, gs, sn, pg, k, s, v, h1, h2, h3, h4, hk, hs, hu, hv, rfl⟩
  · rw [if_pos hm] at h
    obtain ⟨hrd, hsite⟩ := x86_words d B T m m' h (hok.1 hm) hdom r hr hk n v hn hv
    exact ⟨hrd, fun i hi => siteOk_inRange d B _ _ hsite (by omega) (by omega)⟩
  · have hne : d.machine ≠ EM_386 := by rw [hm]; decide
    rw [if_neg hne, if_pos hm] at h
    obtain ⟨hrd, hsite⟩ := mips_words d B big T m m' h hok hm hdom lg gs sn pg h1 h2 h3 h4 k hk s hs hu v hv
    exact ⟨hrd, fun i hi => siteOk_inRange d B _ _ hsite (by omega) (by omega)⟩

end Falcon.Elf
