/-
  FalconProofs.C10.Flow — what the checks of `certOk` give, clause by clause; the erased function's blocks and
  edges; prefixes of the abstract walk; the parallel phi assignment establishes the version map at the head of
  the entered block.
-/
import FalconProofs.C10.Exec

namespace Falcon
namespace C10
open Falcon.Ssa

/-! ### the erased function -/

theorem find?_map_index (bs : List Block) (i : Nat) :
    (bs.map eraseB).find? (fun b => b.index == i) = (bs.find? (fun b => b.index == i)).map eraseB := by
  induction bs with
  | nil => rfl
  | cons b bs ih =>
    simp only [List.map, List.find?]
    have : (eraseB b).index = b.index := rfl
    rw [this]
    cases b.index == i <;> simp [ih]

theorem erase_block (g : Function) (i : Nat) : (eraseF g).block i = (g.block i).map eraseB := by
  unfold Function.block Cfg.block eraseF
  exact find?_map_index g.cfg.blocks i

theorem erase_edgesOut (g : Function) (i : Nat) :
    (eraseF g).cfg.edgesOut i = (g.cfg.edgesOut i).map eraseEdge := by
  unfold Cfg.edgesOut eraseF
  simp only [List.filter_map]
  congr 1

theorem erase_entry (g : Function) : (eraseF g).cfg.entry = g.cfg.entry := rfl

theorem erase_instrs_get (b : Block) (k : Nat) :
    (eraseB b).instrs[k]? = (b.instrs[k]?).map eraseIns := by
  simp [eraseB]

theorem erase_instrs_length (b : Block) : (eraseB b).instrs.length = b.instrs.length := by
  simp [eraseB]

theorem block_index {g : Function} {i : Nat} {b : Block} (h : g.block i = some b) : b.index = i := by
  unfold Function.block Cfg.block at h
  have := List.find?_some h
  simpa using this

/-! ### prefixes of the abstract walk -/

theorem walkV_append (m : VMap) (a b : List Instr) :
    walkV m (a ++ b) = (walkV m a).bind (fun m' => walkV m' b) := by
  induction a generalizing m with
  | nil => rfl
  | cons i is ih =>
    simp only [List.cons_append, walkV]
    cases stepV m i.op with
    | none => rfl
    | some m' => exact ih m'

/-- if the whole walk succeeds, so does every prefix, and the next instruction's abstract step -/
theorem walkV_prefix {m vout : VMap} {l : List Instr} (h : walkV m l = some vout) (k : Nat) :
    ∃ mk, walkV m (l.take k) = some mk ∧ walkV mk (l.drop k) = some vout := by
  have := walkV_append m (l.take k) (l.drop k)
  rw [List.take_append_drop, h] at this
  cases hk : walkV m (l.take k) with
  | none => rw [hk] at this; cases this
  | some mk => rw [hk] at this; exact ⟨mk, rfl, this.symm⟩

theorem walkV_take_succ {m mk : VMap} {l : List Instr} {k : Nat} {i : Instr}
    (hk : walkV m (l.take k) = some mk) (hi : l[k]? = some i) :
    walkV m (l.take (k + 1)) = stepV mk i.op := by
  rw [List.take_add_one, hi, walkV_append, hk]
  simp only [Option.toList, Option.bind, walkV]
  cases stepV mk i.op <;> rfl

theorem walkV_drop_head {mk vout : VMap} {l : List Instr} {k : Nat} {i : Instr}
    (hd : walkV mk (l.drop k) = some vout) (hi : l[k]? = some i) :
    ∃ mk', stepV mk i.op = some mk' := by
  have hlt : k < l.length := by
    rcases Nat.lt_or_ge k l.length with h | h
    · exact h
    · rw [List.getElem?_eq_none h] at hi; cases hi
  have : l.drop k = i :: l.drop (k + 1) := by
    rw [List.drop_eq_getElem_cons hlt]
    congr 1
    rw [List.getElem?_eq_getElem hlt] at hi
    exact Option.some.inj hi
  rw [this] at hd
  simp only [walkV] at hd
  cases hs : stepV mk i.op with
  | none => rw [hs] at hd; cases hd
  | some mk' => exact ⟨mk', rfl⟩

/-! ### what `flowOk` gives -/

structure EdgeFacts (g : Function) (cert : Cert) (vout : VMap) (p : Nat) (e : Edge) : Prop where
  guard : readsOk vout (match e.cond with | none => [] | some c => c.scalars) = true
  reach : cert.reach.contains e.tail = true
  target : ∃ s, g.block e.tail = some s ∧ edgeFlowOk cert vout p s = true

structure BlockFacts (g : Function) (cert : Cert) (b : Block) : Prop where
  walk : ∃ vout, walkV (cert.start b) b.instrs = some vout ∧
    ∀ e, e ∈ g.cfg.edgesOut b.index → EdgeFacts g cert vout b.index e

theorem blockFlowOk_facts {g : Function} {cert : Cert} {b : Block} (h : blockFlowOk g cert b = true) :
    BlockFacts g cert b := by
  unfold blockFlowOk at h
  split at h
  · cases h
  · rename_i vout hw
    refine ⟨vout, hw, ?_⟩
    intro e he
    have := (List.all_eq_true.mp h) e he
    simp only [Bool.and_eq_true] at this
    obtain ⟨⟨hg, hr⟩, ht⟩ := this
    refine ⟨hg, hr, ?_⟩
    split at ht
    · cases ht
    · rename_i s hs
      simp only [Bool.and_eq_true] at ht
      exact ⟨s, hs, ht.2⟩

theorem flowOk_block {g : Function} {cert : Cert} (h : flowOk g cert = true) {i : Nat}
    (hi : cert.reach.contains i = true) : ∃ b, g.block i = some b ∧ b.index = i ∧ BlockFacts g cert b := by
  unfold flowOk at h
  simp only [Bool.and_eq_true] at h
  have hm : i ∈ cert.reach := by simpa using hi
  have := (List.all_eq_true.mp h.2) i hm
  split at this
  · cases this
  · rename_i b hb
    simp only [Bool.and_eq_true] at this
    exact ⟨b, hb, by simpa using this.1, blockFlowOk_facts this.2⟩

/-! ### the parallel phi assignment -/

theorem hasPhi_cons (φ : Phi) (phis : List Phi) (n : String) :
    hasPhi (φ :: phis) n = (φ.out.name == n || hasPhi phis n) := by
  simp [hasPhi]

theorem applyPhis_agree {σ : State} {τ₀ : SState} (sel : Option Nat) :
    ∀ (phis : List Phi) (macc : VMap) (acc : SState),
      (∀ φ, φ ∈ phis → ∃ o, phiSelect sel φ = some o ∧ o.name = φ.out.name ∧ σ.get o.name = τ₀.get (key o)) →
      (∀ n v, macc.lookup n = some v → hasPhi phis n = true ∨ σ.get n = acc.get (n, v)) →
      σ.mem = acc.mem → σ.endian = acc.endian →
      ∃ τ', applyPhis τ₀ sel phis acc = some τ' ∧ Agree (phiStart macc phis) σ τ' := by
  intro phis
  induction phis with
  | nil =>
    intro macc acc _ hacc hm he
    refine ⟨acc, rfl, hm, he, ?_⟩
    intro n v hl
    rcases hacc n v hl with h | h
    · simp [hasPhi] at h
    · exact h
  | cons φ phis ih =>
    intro macc acc hops hacc hm he
    obtain ⟨o, hsel, hname, hval⟩ := hops φ (List.mem_cons_self ..)
    simp only [applyPhis, hsel, phiStart, List.foldl]
    apply ih (VMap.set macc φ.out.name φ.out.ssa) (acc.put (key φ.out) (τ₀.get (key o)))
    · intro ψ hψ
      exact hops ψ (List.mem_cons_of_mem _ hψ)
    · intro n v hl
      rw [lookup_set] at hl
      rw [sget_put]
      by_cases hn : n = φ.out.name
      · subst hn
        simp only [↓reduceIte, Option.some.injEq] at hl
        subst hl
        right
        have : ((φ.out.name, φ.out.ssa) : Key) = key φ.out := rfl
        simp only [this, ↓reduceIte]
        rw [← hval, hname]
      · simp only [hn, ↓reduceIte] at hl
        have hk : ((n, v) : Key) ≠ key φ.out := by
          intro hk
          apply hn
          simpa [key] using congrArg Prod.fst hk
        simp only [hk, ↓reduceIte]
        rcases hacc n v hl with h | h
        · left
          rw [hasPhi_cons] at h
          have hne : (φ.out.name == n) = false := by
            simp only [beq_eq_false_iff_ne, ne_eq]
            exact fun h' => hn h'.symm
          simpa [hne] using h
        · right; exact h
    · exact hm
    · exact he

end C10
end Falcon
