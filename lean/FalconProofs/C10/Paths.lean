/-
  FalconProofs.C10.Paths — the structural reading of the version-flow check, without any execution:
  along EVERY path of the SSA function's control-flow graph from the entry (all out-edges, whatever their
  guards), the version map the checker computed at a position is the map "name ↦ version written by the last
  definition of the name on this path, or unversioned if the path contains none".
-/
import FalconProofs.C10.Sim

namespace Falcon
namespace C10
open Falcon.Ssa

/-- `name ↦ version written by the last definition on the path so far` (`none`: no definition yet — the
    unversioned value live on entry) -/
abbrev LastDef := String → Option Nat

def writesL (L : LastDef) (ws : List Scalar) : LastDef :=
  ws.foldl (fun L w => fun n => if n = w.name then w.ssa else L n) L

def phisL (L : LastDef) (phis : List Phi) : LastDef :=
  phis.foldl (fun L φ => fun n => if n = φ.out.name then φ.out.ssa else L n) L

/-- a position on a path, with the last definitions along the path walked so far -/
structure PConfig where
  block : Nat
  pos : Nat
  last : LastDef

/-- one step along a CFG path: past an instruction (its writes are definitions), or along ANY out-edge into
    the target block (whose phi outputs are definitions) -/
inductive PStep (g : Function) : PConfig → PConfig → Prop where
  | instr {b : Block} {i : Instr} {p : PConfig} :
      g.block p.block = some b → b.instrs[p.pos]? = some i →
      PStep g p ⟨p.block, p.pos + 1, writesL p.last (opWrites i.op)⟩
  | edge {b s : Block} {e : Edge} {p : PConfig} :
      g.block p.block = some b → p.pos = b.instrs.length → e ∈ g.cfg.edgesOut p.block →
      g.block e.tail = some s →
      PStep g p ⟨e.tail, 0, phisL p.last s.phis⟩

inductive PRun (g : Function) : PConfig → PConfig → Prop where
  | refl (p : PConfig) : PRun g p p
  | step {a b c : PConfig} : PRun g a b → PStep g b c → PRun g a c

/-- the start of every path: the entry block, after its phi nodes -/
def pinitial (g : Function) : Option PConfig :=
  match g.cfg.entry with
  | none => none
  | some e => (g.block e).map (fun b => ⟨e, 0, phisL (fun _ => none) b.phis⟩)

/-- the checker's map at the position is the last-definition map of the path -/
structure PInv (g : Function) (cert : Cert) (p : PConfig) : Prop where
  reach : cert.reach.contains p.block = true
  agree : ∃ b m, g.block p.block = some b ∧ p.pos ≤ b.instrs.length ∧
    walkV (cert.start b) (b.instrs.take p.pos) = some m ∧ ∀ n v, m.lookup n = some v → p.last n = v

theorem setAll_last (ws : List Scalar) : ∀ (m : VMap) (L : LastDef),
    (∀ n v, m.lookup n = some v → L n = v) →
    ∀ n v, (setAll m ws).lookup n = some v → writesL L ws n = v := by
  induction ws with
  | nil => intro m L h; exact h
  | cons w ws ih =>
    intro m L h
    simp only [setAll, writesL, List.foldl]
    apply ih
    intro n v hl
    rw [lookup_set] at hl
    by_cases hn : n = w.name
    · simp only [hn, ↓reduceIte, Option.some.injEq] at hl ⊢
      exact hl
    · simp only [hn, ↓reduceIte] at hl ⊢
      exact h n v hl

theorem phiStart_last (phis : List Phi) : ∀ (m : VMap) (L : LastDef),
    (∀ n v, m.lookup n = some v → hasPhi phis n = true ∨ L n = v) →
    ∀ n v, (phiStart m phis).lookup n = some v → phisL L phis n = v := by
  induction phis with
  | nil =>
    intro m L h n v hl
    rcases h n v hl with h' | h'
    · simp [hasPhi] at h'
    · exact h'
  | cons φ phis ih =>
    intro m L h
    simp only [phiStart, phisL, List.foldl]
    apply ih
    intro n v hl
    rw [lookup_set] at hl
    by_cases hn : n = φ.out.name
    · right
      simp only [hn, ↓reduceIte, Option.some.injEq] at hl ⊢
      exact hl
    · simp only [hn, ↓reduceIte] at hl ⊢
      rcases h n v hl with h' | h'
      · left
        rw [hasPhi_cons] at h'
        have hne : (φ.out.name == n) = false := by
          simp only [beq_eq_false_iff_ne, ne_eq]
          exact fun h'' => hn h''.symm
        simpa [hne] using h'
      · right; exact h'

section paths
variable {g : Function} {cert : Cert}

theorem pinv_initial (hflow : flowOk g cert = true) {p₀ : PConfig} (h0 : pinitial g = some p₀) :
    PInv g cert p₀ := by
  unfold flowOk at hflow
  simp only [Bool.and_eq_true] at hflow
  have hentry := hflow.1
  unfold entryOk at hentry
  unfold pinitial at h0
  cases he : g.cfg.entry with
  | none => rw [he] at h0; cases h0
  | some e =>
    rw [he] at h0 hentry
    simp only [Bool.and_eq_true] at hentry
    obtain ⟨hreach, hrest⟩ := hentry
    split at hrest
    · cases hrest
    · rename_i b hb
      simp only [hb, Option.map, Option.some.injEq] at h0
      subst h0
      simp only [Bool.and_eq_true] at hrest
      refine ⟨hreach, b, cert.start b, hb, Nat.zero_le _, rfl, ?_⟩
      apply phiStart_last
      intro n v hl
      have := (List.all_eq_true.mp hrest.2) (n, v) (mem_of_lookup _ n v hl)
      simp only [Bool.or_eq_true, beq_iff_eq] at this
      rcases this with h | h
      · left; exact h
      · right; exact h.symm

/-- what holds at a position of a path that satisfies the invariant: the reads there name the last
    definitions, and the invariant survives every step -/
theorem pinv_step (hflow : flowOk g cert = true) {p q : PConfig} (hp : PInv g cert p) (hs : PStep g p q) :
    PInv g cert q := by
  obtain ⟨b0, m, hb0, hle, hw, hL⟩ := hp.agree
  obtain ⟨b1, hb1, hidx, hfacts⟩ := flowOk_block hflow hp.reach
  rw [hb0] at hb1
  cases hb1
  obtain ⟨vout, hwalk, hedges⟩ := hfacts.walk
  cases hs with
  | @instr b i _ hb hi =>
    rw [hb0] at hb
    cases hb
    obtain ⟨mk, hk, hd⟩ := walkV_prefix hwalk p.pos
    rw [hw] at hk
    cases hk
    obtain ⟨m', hstep⟩ := walkV_drop_head hd hi
    obtain ⟨_, hm'⟩ := stepV_some hstep
    refine ⟨hp.reach, b0, m', hb0, lt_of_get hi, by rw [walkV_take_succ hw hi, hstep], ?_⟩
    subst hm'
    exact setAll_last _ m p.last hL
  | @edge b s e _ hb hpos he hs =>
    rw [hb0] at hb
    cases hb
    rw [hpos, List.take_length, hwalk] at hw
    have hm : vout = m := Option.some.inj hw
    subst hm
    rw [← hidx] at he
    obtain ⟨_, hreach, s', hs', hflowE⟩ := hedges e he
    rw [hs] at hs'
    cases hs'
    unfold edgeFlowOk at hflowE
    simp only [Bool.and_eq_true] at hflowE
    refine ⟨hreach, s, cert.start s, hs, Nat.zero_le _, rfl, ?_⟩
    apply phiStart_last
    intro n v hl
    have hsidx := block_index hs
    have := (List.all_eq_true.mp hflowE.2) (n, v) (mem_of_lookup _ n v hl)
    simp only [Bool.or_eq_true, beq_iff_eq] at this
    rcases this with h | h
    · left; exact h
    · right; exact hL n v h

theorem pinv_run (hflow : flowOk g cert = true) {p q : PConfig} (hp : PInv g cert p) (hr : PRun g p q) :
    PInv g cert q := by
  induction hr with
  | refl => exact hp
  | step _ hs ih => exact pinv_step hflow ih hs

/-- the reads of the instruction at a position on the path -/
theorem pinv_instr_reads (hflow : flowOk g cert = true) {p : PConfig} (hp : PInv g cert p) {b : Block}
    (hb : g.block p.block = some b) {i : Instr} (hi : b.instrs[p.pos]? = some i) :
    ∀ s, s ∈ opReads i.op → s.ssa = p.last s.name := by
  obtain ⟨b0, m, hb0, hle, hw, hL⟩ := hp.agree
  rw [hb] at hb0
  cases hb0
  obtain ⟨b1, hb1, hidx, hfacts⟩ := flowOk_block hflow hp.reach
  rw [hb] at hb1
  cases hb1
  obtain ⟨vout, hwalk, _⟩ := hfacts.walk
  obtain ⟨mk, hk, hd⟩ := walkV_prefix hwalk p.pos
  rw [hw] at hk
  cases hk
  obtain ⟨m', hstep⟩ := walkV_drop_head hd hi
  obtain ⟨hreads, _⟩ := stepV_some hstep
  intro s hs
  have := (List.all_eq_true.mp hreads) s hs
  have hl : m.lookup s.name = some s.ssa := by simpa using this
  exact (hL _ _ hl).symm

/-- the reads of the guards, and of the phi operands selected by the edges, at the end of a block -/
theorem pinv_edge_reads (hflow : flowOk g cert = true) {p : PConfig} (hp : PInv g cert p) {b : Block}
    (hb : g.block p.block = some b) (hpos : p.pos = b.instrs.length) {e : Edge}
    (he : e ∈ g.cfg.edgesOut p.block) :
    (∀ c, e.cond = some c → ∀ s, s ∈ c.scalars → s.ssa = p.last s.name) ∧
    ∃ t, g.block e.tail = some t ∧
      ∀ φ, φ ∈ t.phis → ∃ o, φ.incoming.lookup p.block = some o ∧ o.name = φ.out.name ∧ o.ssa = p.last o.name := by
  obtain ⟨b0, m, hb0, hle, hw, hL⟩ := hp.agree
  rw [hb] at hb0
  cases hb0
  obtain ⟨b1, hb1, hidx, hfacts⟩ := flowOk_block hflow hp.reach
  rw [hb] at hb1
  cases hb1
  obtain ⟨vout, hwalk, hedges⟩ := hfacts.walk
  rw [hpos, List.take_length, hwalk] at hw
  have hm : vout = m := Option.some.inj hw
  subst hm
  rw [← hidx] at he
  obtain ⟨hguard, _, t, ht, hflowE⟩ := hedges e he
  refine ⟨?_, t, ht, ?_⟩
  · intro c hc s hs
    rw [hc] at hguard
    have := (List.all_eq_true.mp hguard) s hs
    have hl : vout.lookup s.name = some s.ssa := by simpa using this
    exact (hL _ _ hl).symm
  · intro φ hφ
    unfold edgeFlowOk at hflowE
    simp only [Bool.and_eq_true] at hflowE
    have := (List.all_eq_true.mp hflowE.1) φ hφ
    unfold phiOperandOk at this
    rw [hidx] at this
    split at this
    · cases this
    · rename_i o ho
      simp only [Bool.and_eq_true, beq_iff_eq] at this
      exact ⟨o, ho, this.1, (hL _ _ this.2).symm⟩

end paths

end C10
end Falcon
