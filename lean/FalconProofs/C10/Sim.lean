/-
  FalconProofs.C10.Sim — the simulation between a function `eraseF g` and its SSA form `g` under an accepted
  certificate: the relation `Rel`, its establishment at function entry, and its preservation by every step
  (forward, backward, and for the deterministic executors `fstep` / `sstep`).
-/
import FalconProofs.C10.Flow

namespace Falcon
namespace C10
open Falcon.Ssa

/-- what links a configuration of the original function with one of the SSA form -/
structure Rel (g : Function) (cert : Cert) (c : Config) (d : SConfig) : Prop where
  block : d.block = c.block
  pos : d.pos = c.pos
  reach : cert.reach.contains c.block = true
  agree : ∃ b m, g.block c.block = some b ∧ c.pos ≤ b.instrs.length ∧
    walkV (cert.start b) (b.instrs.take c.pos) = some m ∧ Agree m c.state d.state

theorem mem_of_lookup {α : Type} (l : List (String × α)) (n : String) (v : α) (h : l.lookup n = some v) :
    (n, v) ∈ l := by
  induction l with
  | nil => cases h
  | cons p l ih =>
    obtain ⟨k, w⟩ := p
    simp only [List.lookup] at h
    cases hk : n == k with
    | true =>
      rw [hk] at h
      simp only [Option.some.injEq] at h
      have : n = k := by simpa using hk
      subst this; subst h
      exact List.mem_cons_self ..
    | false =>
      rw [hk] at h
      exact List.mem_cons_of_mem _ (ih h)

theorem lt_of_get {α : Type} {l : List α} {k : Nat} {a : α} (h : l[k]? = some a) : k + 1 ≤ l.length := by
  rcases Nat.lt_or_ge k l.length with h' | h'
  · exact h'
  · rw [List.getElem?_eq_none h'] at h; cases h

theorem ExecRel.ok_left {m' : VMap} {σ' : State} {s : Succ} {r : Res (SState × Succ)}
    (h : ExecRel m' (.ok (σ', s)) r) : ∃ τ', r = .ok (τ', s) ∧ Agree m' σ' τ' := by
  generalize hl : (Res.ok (σ', s) : Res (State × Succ)) = l at h
  cases h with
  | ok s' ha =>
    simp only [Res.ok.injEq, Prod.mk.injEq] at hl
    obtain ⟨h1, h2⟩ := hl
    subst h1; subst h2
    exact ⟨_, rfl, ha⟩
  | err e => cases hl
  | panic => cases hl

theorem ExecRel.ok_right {m' : VMap} {τ' : SState} {s : Succ} {l : Res (State × Succ)}
    (h : ExecRel m' l (.ok (τ', s))) : ∃ σ', l = .ok (σ', s) ∧ Agree m' σ' τ' := by
  generalize hr : (Res.ok (τ', s) : Res (SState × Succ)) = r at h
  cases h with
  | ok s' ha =>
    simp only [Res.ok.injEq, Prod.mk.injEq] at hr
    obtain ⟨h1, h2⟩ := hr
    subst h1; subst h2
    exact ⟨_, rfl, ha⟩
  | err e => cases hr
  | panic => cases hr

theorem ExecRel.outcome {m' : VMap} {l : Res (State × Succ)} {r : Res (SState × Succ)}
    (h : ExecRel m' l r) : Ssa.outcome l = Ssa.outcome r := by
  cases h <;> rfl

section core
variable {g : Function} {cert : Cert}

/-- at an instruction: the version map before it is respected, its abstract step succeeds -/
theorem instr_core (hflow : flowOk g cert = true) {cb cp : Nat} {σ : State} {τ : SState}
    (hr : Rel g cert ⟨cb, cp, σ⟩ ⟨cb, cp, τ⟩) {b : Block} (hb : g.block cb = some b) {i : Instr}
    (hi : b.instrs[cp]? = some i) :
    ∃ m m', Agree m σ τ ∧ stepV m i.op = some m' ∧ walkV (cert.start b) (b.instrs.take (cp + 1)) = some m' := by
  obtain ⟨b', m, hb', _, hw, ha⟩ := hr.agree
  simp only at hb' hw ha
  rw [hb] at hb'
  cases hb'
  obtain ⟨b'', hb'', _, hfacts⟩ := flowOk_block hflow hr.reach
  simp only at hb''
  rw [hb] at hb''
  cases hb''
  obtain ⟨vout, hwalk, _⟩ := hfacts.walk
  obtain ⟨mk, hk, hd⟩ := walkV_prefix hwalk cp
  rw [hw] at hk
  cases hk
  obtain ⟨m', hs⟩ := walkV_drop_head hd hi
  exact ⟨m, m', ha, hs, by rw [walkV_take_succ hw hi, hs]⟩

/-- at the end of a block: the version map there is respected, every out-edge's guard reads Known versions,
    and entering the target through its phi nodes succeeds and re-establishes the relation -/
theorem edge_core (hflow : flowOk g cert = true) {cb cp : Nat} {σ : State} {τ : SState}
    (hr : Rel g cert ⟨cb, cp, σ⟩ ⟨cb, cp, τ⟩) {b : Block} (hb : g.block cb = some b)
    (hp : cp = b.instrs.length) :
    ∃ vout, Agree vout σ τ ∧ ∀ e, e ∈ g.cfg.edgesOut cb →
      readsOk vout (match e.cond with | none => [] | some c => c.scalars) = true ∧
      ∃ τ', enterBlock g (some cb) e.tail τ = some τ' ∧ Rel g cert ⟨e.tail, 0, σ⟩ ⟨e.tail, 0, τ'⟩ := by
  obtain ⟨b', m, hb', _, hw, ha⟩ := hr.agree
  simp only at hb' hw ha
  rw [hb] at hb'
  cases hb'
  obtain ⟨b'', hb'', hidx, hfacts⟩ := flowOk_block hflow hr.reach
  simp only at hb'' hidx
  rw [hb] at hb''
  cases hb''
  obtain ⟨vout, hwalk, hedges⟩ := hfacts.walk
  subst hp
  rw [List.take_length, hwalk] at hw
  have hm : vout = m := Option.some.inj hw
  subst hm
  refine ⟨vout, ha, ?_⟩
  intro e he
  rw [← hidx] at he
  obtain ⟨hguard, hreach, s, hs, hflowE⟩ := hedges e he
  refine ⟨hguard, ?_⟩
  unfold edgeFlowOk at hflowE
  simp only [Bool.and_eq_true] at hflowE
  obtain ⟨hphis, hvin⟩ := hflowE
  have hsidx := block_index hs
  obtain ⟨τ', hτ', hagree⟩ := applyPhis_agree (σ := σ) (τ₀ := τ) (some cb) s.phis (cert.vinOf s.index) τ
    (by
      intro φ hφ
      have := (List.all_eq_true.mp hphis) φ hφ
      unfold phiOperandOk at this
      rw [hidx] at this
      split at this
      · cases this
      · rename_i o ho
        simp only [Bool.and_eq_true, beq_iff_eq] at this
        exact ⟨o, ho, this.1, ha.vals o.name o.ssa this.2⟩)
    (by
      intro n v hl
      have := (List.all_eq_true.mp hvin) (n, v) (mem_of_lookup _ n v hl)
      simp only [Bool.or_eq_true, beq_iff_eq] at this
      rcases this with h | h
      · left; exact h
      · right; exact ha.vals n v h)
    ha.mem ha.endian
  refine ⟨τ', ?_, rfl, rfl, hreach, s, cert.start s, hs, Nat.zero_le _, rfl, hagree⟩
  unfold enterBlock
  rw [hs]
  exact hτ'

/-- function entry -/
theorem entry_core (hflow : flowOk g cert = true) {e : Nat} (he : g.cfg.entry = some e) (σ : State) :
    ∃ τ', enterBlock g none e (SState.ofState σ) = some τ' ∧ Rel g cert ⟨e, 0, σ⟩ ⟨e, 0, τ'⟩ := by
  unfold flowOk at hflow
  simp only [Bool.and_eq_true] at hflow
  have hentry := hflow.1
  unfold entryOk at hentry
  rw [he] at hentry
  simp only [Bool.and_eq_true] at hentry
  obtain ⟨hreach, hrest⟩ := hentry
  split at hrest
  · cases hrest
  · rename_i b hb
    simp only [Bool.and_eq_true] at hrest
    obtain ⟨hphis, hvin⟩ := hrest
    obtain ⟨τ', hτ', hagree⟩ := applyPhis_agree (σ := σ) (τ₀ := SState.ofState σ) none b.phis
      (cert.vinOf b.index) (SState.ofState σ)
      (by
        intro φ hφ
        have := (List.all_eq_true.mp hphis) φ hφ
        split at this
        · cases this
        · rename_i o ho
          simp only [Bool.and_eq_true, beq_iff_eq] at this
          refine ⟨o, ho, this.1, ?_⟩
          simp only [SState.ofState, SState.get, key, this.2])
      (by
        intro n v hl
        have := (List.all_eq_true.mp hvin) (n, v) (mem_of_lookup _ n v hl)
        simp only [Bool.or_eq_true, beq_iff_eq] at this
        rcases this with h | h
        · left; exact h
        · right
          subst h
          simp only [SState.ofState, SState.get])
      rfl rfl
    refine ⟨τ', ?_, rfl, rfl, hreach, b, cert.start b, hb, Nat.zero_le _, rfl, hagree⟩
    unfold enterBlock
    rw [hb]
    exact hτ'

end core

/-! ### the erased function's view of a block -/

theorem erased_block_some {g : Function} {i : Nat} {bf : Block} (h : (eraseF g).block i = some bf) :
    ∃ b, g.block i = some b ∧ bf = eraseB b := by
  rw [erase_block] at h
  cases hb : g.block i with
  | none => rw [hb] at h; cases h
  | some b => rw [hb] at h; exact ⟨b, rfl, (Option.some.inj h).symm⟩

theorem erased_instr_some {b : Block} {k : Nat} {jf : Instr} (h : (eraseB b).instrs[k]? = some jf) :
    ∃ i, b.instrs[k]? = some i ∧ jf = eraseIns i := by
  rw [erase_instrs_get] at h
  cases hi : b.instrs[k]? with
  | none => rw [hi] at h; cases h
  | some i => rw [hi] at h; exact ⟨i, rfl, (Option.some.inj h).symm⟩

section steps
variable {g : Function} {cert : Cert}

/-- FORWARD: every step of the original is matched by a step of the SSA form -/
theorem step_fwd (hflow : flowOk g cert = true) {c c' : Config} {d : SConfig} (hr : Rel g cert c d)
    (hs : FStep (eraseF g) c c') : ∃ d', SStep g d d' ∧ Rel g cert c' d' := by
  obtain ⟨cb, cp, σ⟩ := c
  obtain ⟨db, dp, τ⟩ := d
  have h1 := hr.block
  have h2 := hr.pos
  simp only at h1 h2
  subst h1; subst h2
  cases hs with
  | @instr bf jf _ σ' hbf hjf hex =>
    simp only at hbf hjf hex
    obtain ⟨b, hb, rfl⟩ := erased_block_some hbf
    obtain ⟨i, hi, rfl⟩ := erased_instr_some hjf
    obtain ⟨m, m', ha, hstep, hw'⟩ := instr_core hflow hr hb hi
    have hrel := exec_rel ha i.op hstep
    simp only [eraseIns] at hex
    rw [hex] at hrel
    obtain ⟨τ', hτ', ha'⟩ := hrel.ok_left
    refine ⟨⟨db, dp + 1, τ'⟩, SStep.instr (c := ⟨db, dp, τ⟩) hb hi hτ', rfl, rfl, hr.reach, b, m', hb,
      lt_of_get hi, hw', ha'⟩
  | @edge bf ef _ hbf hpos hef hguard =>
    simp only at hbf hpos hef hguard
    obtain ⟨b, hb, rfl⟩ := erased_block_some hbf
    rw [erase_instrs_length] at hpos
    rw [erase_edgesOut] at hef
    obtain ⟨e, he, rfl⟩ := List.mem_map.mp hef
    obtain ⟨vout, ha, hedges⟩ := edge_core hflow hr hb hpos
    obtain ⟨hreads, τ', hτ', hrel'⟩ := hedges e he
    have hg : guardOkS τ e.cond = true := (guard_rel ha e.cond hreads).mp hguard
    exact ⟨⟨e.tail, 0, τ'⟩, SStep.edge (c := ⟨db, dp, τ⟩) hb hpos he hg hτ', hrel'⟩

/-- BACKWARD: every step of the SSA form is a step of the original -/
theorem step_bwd (hflow : flowOk g cert = true) {c : Config} {d d' : SConfig} (hr : Rel g cert c d)
    (hs : SStep g d d') : ∃ c', FStep (eraseF g) c c' ∧ Rel g cert c' d' := by
  obtain ⟨cb, cp, σ⟩ := c
  obtain ⟨db, dp, τ⟩ := d
  have h1 := hr.block
  have h2 := hr.pos
  simp only at h1 h2
  subst h1; subst h2
  cases hs with
  | @instr b i _ τ' hb hi hex =>
    simp only at hb hi hex
    obtain ⟨m, m', ha, hstep, hw'⟩ := instr_core hflow hr hb hi
    have hrel := exec_rel ha i.op hstep
    rw [hex] at hrel
    obtain ⟨σ', hσ', ha'⟩ := hrel.ok_right
    have hbf : (eraseF g).block db = some (eraseB b) := by rw [erase_block, hb]; rfl
    have hjf : (eraseB b).instrs[dp]? = some (eraseIns i) := by rw [erase_instrs_get, hi]; rfl
    refine ⟨⟨db, dp + 1, σ'⟩, FStep.instr (c := ⟨db, dp, σ⟩) hbf hjf hσ', rfl, rfl, hr.reach, b, m', hb,
      lt_of_get hi, hw', ha'⟩
  | @edge b e _ τ' hb hpos he hguard henter =>
    simp only at hb hpos he hguard henter
    obtain ⟨vout, ha, hedges⟩ := edge_core hflow hr hb hpos
    obtain ⟨hreads, τ'', hτ'', hrel'⟩ := hedges e he
    rw [henter] at hτ''
    cases hτ''
    have hg : guardHolds σ (e.cond.map eraseE) := (guard_rel ha e.cond hreads).mpr hguard
    have hbf : (eraseF g).block db = some (eraseB b) := by rw [erase_block, hb]; rfl
    have hef : eraseEdge e ∈ (eraseF g).cfg.edgesOut db := by
      rw [erase_edgesOut]; exact List.mem_map.mpr ⟨e, he, rfl⟩
    exact ⟨⟨e.tail, 0, σ⟩, FStep.edge (c := ⟨db, dp, σ⟩) (e := eraseEdge e) hbf
      (by rw [erase_instrs_length]; exact hpos) hef hg, hrel'⟩

end steps

end C10
end Falcon
