/-
  FalconProofs.C10.Det — related configurations show the same observation (position, value of every evaluated
  expression, outcome of the instruction), have the same enabled out-edges, and the deterministic executors
  `fstep` / `sstep` move in lock step.
-/
import FalconProofs.C10.Sim

namespace Falcon
namespace C10
open Falcon.Ssa

/-- both stop, or both continue into related things -/
def OptRel {α β : Type} (P : α → β → Prop) : Option α → Option β → Prop
  | some a, some b => P a b
  | none, none => True
  | _, _ => False

theorem opExprs_vals {m : VMap} {σ : State} {τ : SState} (h : Agree m σ τ) (op : Op)
    (hr : readsOk m (opReads op) = true) :
    (opExprs (eraseOp op)).map σ.evalIn = (opExprs op).map τ.evalIn := by
  cases op with
  | assign d src =>
    simp only [opReads] at hr
    simp only [eraseOp, opExprs, List.map, eval_renamed σ τ src (h.on hr)]
  | store idx src =>
    simp only [opReads] at hr
    obtain ⟨hri, hrs⟩ := readsOk_append hr
    simp only [eraseOp, opExprs, List.map, eval_renamed σ τ src (h.on hrs), eval_renamed σ τ idx (h.on hri)]
  | load d idx =>
    simp only [opReads] at hr
    simp only [eraseOp, opExprs, List.map, eval_renamed σ τ idx (h.on hr)]
  | branch t =>
    simp only [opReads] at hr
    simp only [eraseOp, opExprs, List.map, eval_renamed σ τ t (h.on hr)]
  | intrinsic i => rfl
  | nop => rfl

theorem guardExprs_erase (g : Function) (b : Nat) :
    guardExprs (eraseF g) b = (guardExprs g b).map eraseE := by
  unfold guardExprs
  rw [erase_edgesOut]
  generalize g.cfg.edgesOut b = es
  induction es with
  | nil => rfl
  | cons e es ih =>
    simp only [List.map, List.filterMap]
    cases hc : e.cond with
    | none => simp [eraseEdge, hc, ih]
    | some c => simp [eraseEdge, hc, ih]

theorem guard_vals {m : VMap} {σ : State} {τ : SState} (h : Agree m σ τ) (es : List Edge)
    (hr : ∀ e, e ∈ es → readsOk m (match e.cond with | none => [] | some c => c.scalars) = true) :
    ((es.filterMap (·.cond)).map eraseE).map σ.evalIn = (es.filterMap (·.cond)).map τ.evalIn := by
  induction es with
  | nil => rfl
  | cons e es ih =>
    have ih' := ih (fun e' he' => hr e' (List.mem_cons_of_mem _ he'))
    have he := hr e (List.mem_cons_self ..)
    simp only [List.filterMap]
    cases hc : e.cond with
    | none => simpa using ih'
    | some c =>
      rw [hc] at he
      simp only [List.map]
      rw [eval_renamed σ τ c (h.on he)]
      rw [ih']

section det
variable {g : Function} {cert : Cert}

/-- SAME OBSERVATION at related configurations -/
theorem obs_eq (hflow : flowOk g cert = true) {c : Config} {d : SConfig} (hr : Rel g cert c d) :
    obsF (eraseF g) c = obsS g d := by
  obtain ⟨cb, cp, σ⟩ := c
  obtain ⟨db, dp, τ⟩ := d
  have h1 := hr.block
  have h2 := hr.pos
  simp only at h1 h2
  subst h1; subst h2
  obtain ⟨b, m, hb, hle, hw, ha⟩ := hr.agree
  simp only at hb hle hw ha
  unfold obsF obsS
  simp only [erase_block, hb, Option.map, erase_instrs_get]
  cases hi : b.instrs[dp]? with
  | some i =>
    obtain ⟨m1, m', ha1, hstep, _⟩ := instr_core hflow hr hb hi
    have hrel := exec_rel ha1 i.op hstep
    obtain ⟨hreads, _⟩ := stepV_some hstep
    simp only [eraseIns, opExprs_vals ha1 i.op hreads, hrel.outcome]
  | none =>
    have hlen : dp = b.instrs.length := by
      have := List.getElem?_eq_none_iff.mp hi
      omega
    obtain ⟨vout, hav, hedges⟩ := edge_core hflow hr hb hlen
    simp only [guardExprs_erase]
    have := guard_vals hav (g.cfg.edgesOut db) (fun e he => (hedges e he).1)
    unfold guardExprs
    rw [this]

/-- the enabled out-edges are the same -/
theorem enabled_eq (hflow : flowOk g cert = true) {cb cp : Nat} {σ : State} {τ : SState}
    (hr : Rel g cert ⟨cb, cp, σ⟩ ⟨cb, cp, τ⟩) {b : Block} (hb : g.block cb = some b)
    (hp : cp = b.instrs.length) :
    enabledEdges (eraseF g) ⟨cb, cp, σ⟩ = (enabledEdgesS g ⟨cb, cp, τ⟩).map eraseEdge := by
  obtain ⟨vout, hav, hedges⟩ := edge_core hflow hr hb hp
  unfold enabledEdges enabledEdgesS
  simp only [erase_edgesOut, List.filter_map]
  congr 1
  apply List.filter_congr
  intro e he
  have := guard_rel hav e.cond (hedges e he).1
  simp only [Function.comp, eraseEdge]
  by_cases hg : guardOkS τ e.cond = true
  · rw [hg]; exact decide_eq_true (this.mpr hg)
  · have hg' : guardOkS τ e.cond = false := by simpa using hg
    rw [hg']
    exact decide_eq_false (fun h => hg (this.mp h))

/-- LOCK STEP of the deterministic executors -/
theorem det_step (hflow : flowOk g cert = true) {c : Config} {d : SConfig} (hr : Rel g cert c d) :
    OptRel (Rel g cert) (fstep (eraseF g) c) (sstep g d) := by
  obtain ⟨cb, cp, σ⟩ := c
  obtain ⟨db, dp, τ⟩ := d
  have h1 := hr.block
  have h2 := hr.pos
  simp only at h1 h2
  subst h1; subst h2
  obtain ⟨b, m, hb, hle, hw, ha⟩ := hr.agree
  simp only at hb hle hw ha
  unfold fstep sstep
  simp only [erase_block, hb, Option.map, erase_instrs_get, erase_instrs_length]
  cases hi : b.instrs[dp]? with
  | some i =>
    obtain ⟨m1, m', ha1, hstep, hw'⟩ := instr_core hflow hr hb hi
    have hrel := exec_rel ha1 i.op hstep
    simp only [eraseIns]
    generalize execute σ (eraseOp i.op) = l at hrel
    generalize executeS τ i.op = r at hrel
    cases hrel with
    | ok s ha' =>
      cases s with
      | fallThrough => exact ⟨rfl, rfl, hr.reach, b, m', hb, lt_of_get hi, hw', ha'⟩
      | branch a => trivial
    | err e => trivial
    | panic => trivial
  | none =>
    have hlen : dp = b.instrs.length := by
      have := List.getElem?_eq_none_iff.mp hi
      omega
    simp only [hlen, ↓reduceIte]
    subst hlen
    rw [enabled_eq hflow hr hb rfl]
    obtain ⟨vout, hav, hedges⟩ := edge_core hflow hr hb rfl
    cases hen : enabledEdgesS g ⟨db, b.instrs.length, τ⟩ with
    | nil => trivial
    | cons e es =>
      have hmem : e ∈ g.cfg.edgesOut db := by
        have : e ∈ enabledEdgesS g ⟨db, b.instrs.length, τ⟩ := by rw [hen]; exact List.mem_cons_self ..
        unfold enabledEdgesS at this
        exact (List.mem_filter.mp this).1
      obtain ⟨_, τ', hτ', hrel'⟩ := hedges e hmem
      simp only [List.map, hτ']
      exact hrel'

end det

end C10
end Falcon
