/-
  FalconProofs.C10.Single — the single-assignment clause and the phi-shape clause of `certOk`, unfolded:
  the enumeration `reachDefs` contains every phi output and every scalar written by an instruction of a block in
  `cert.reach`, and two enumerated sites defining the same (name, version) are the same site.
-/
import FalconProofs.C10.Flow

namespace Falcon
namespace C10
open Falcon.Ssa

theorem nodup_map_inj {α β : Type} {f : α → β} : ∀ {l : List α}, (l.map f).Nodup →
    ∀ {a b : α}, a ∈ l → b ∈ l → f a = f b → a = b
  | [], _, _, _, ha, _, _ => by cases ha
  | x :: xs, h, a, b, ha, hb, hf => by
    simp only [List.map, List.nodup_cons] at h
    obtain ⟨hx, hxs⟩ := h
    rcases List.mem_cons.mp ha with rfl | ha'
    · rcases List.mem_cons.mp hb with rfl | hb'
      · rfl
      · exact absurd (List.mem_map.mpr ⟨b, hb', hf.symm⟩) hx
    · rcases List.mem_cons.mp hb with rfl | hb'
      · exact absurd (List.mem_map.mpr ⟨a, ha', hf⟩) hx
      · exact nodup_map_inj hxs ha' hb' hf

theorem mem_blockDefs_phi {b : Block} {k : Nat} {φ : Phi} (h : b.phis[k]? = some φ) :
    (⟨b.index, true, k, 0, φ.out⟩ : DefSite) ∈ blockDefs b := by
  unfold blockDefs
  apply List.mem_append_left
  apply List.mem_map.mpr
  exact ⟨(φ, k), List.mem_zipIdx_iff_getElem?.mpr h, rfl⟩

theorem mem_blockDefs_instr {b : Block} {k j : Nat} {i : Instr} {s : Scalar} (h : b.instrs[k]? = some i)
    (hs : (opWrites i.op)[j]? = some s) : (⟨b.index, false, k, j, s⟩ : DefSite) ∈ blockDefs b := by
  unfold blockDefs
  apply List.mem_append_right
  apply List.mem_flatMap.mpr
  refine ⟨(i, k), List.mem_zipIdx_iff_getElem?.mpr h, ?_⟩
  apply List.mem_map.mpr
  exact ⟨(s, j), List.mem_zipIdx_iff_getElem?.mpr hs, rfl⟩

theorem mem_reachDefs {g : Function} {cert : Cert} {i : Nat} {b : Block} (hb : g.block i = some b)
    (hr : cert.reach.contains i = true) {d : DefSite} (hd : d ∈ blockDefs b) : d ∈ reachDefs g cert := by
  unfold reachDefs
  apply List.mem_flatMap.mpr
  refine ⟨b, ?_, hd⟩
  apply List.mem_filter.mpr
  have hidx := block_index hb
  refine ⟨?_, by rw [hidx]; exact hr⟩
  unfold Function.block Cfg.block at hb
  exact List.mem_of_find?_eq_some hb

theorem singleOk_facts {g : Function} {cert : Cert} (h : singleOk g cert = true) :
    (∀ d, d ∈ reachDefs g cert → d.scalar.ssa.isSome = true) ∧
    (∀ d₁ d₂, d₁ ∈ reachDefs g cert → d₂ ∈ reachDefs g cert → key d₁.scalar = key d₂.scalar → d₁ = d₂) := by
  unfold singleOk at h
  simp only [Bool.and_eq_true, decide_eq_true_eq] at h
  refine ⟨fun d hd => (List.all_eq_true.mp h.1) d hd, ?_⟩
  intro d₁ d₂ h1 h2 hk
  exact nodup_map_inj h.2 h1 h2 hk

theorem phiShapeOk_facts {g : Function} (h : phiShapeOk g = true) {b : Block} (hb : b ∈ g.cfg.blocks)
    {φ : Phi} (hφ : φ ∈ b.phis) :
    φ.incoming.map (·.1) = g.cfg.predecessorIndices b.index ∧
    (φ.entry.isSome = true ↔ g.cfg.entry = some b.index) := by
  unfold phiShapeOk at h
  have := (List.all_eq_true.mp ((List.all_eq_true.mp h) b hb)) φ hφ
  simp only [Bool.and_eq_true, beq_iff_eq] at this
  refine ⟨this.1, ?_⟩
  rw [this.2]
  simp

end C10
end Falcon
