/-
  FalconProofs.C10.Erase — erasing SSA versions commutes with everything the executor does to an expression:
  widths, the sort checks of the smart constructors, evaluation; and `eval_renamed`: an expression of the SSA
  form whose scalars all hold, under their (name, version), what the original state holds under the name,
  evaluates exactly as its erasure does in the original state (same value, same error, same panic).
-/
import FalconModel.Ssa

namespace Falcon
namespace C10
open Falcon.Ssa

/-! ### the original state: `get` / `set` -/

theorem lookup_filter_ne (x y : String) (h : y ≠ x) :
    ∀ l : List (String × Const), List.lookup y (l.filter (fun p => p.1 != x)) = List.lookup y l
  | [] => rfl
  | (k, v) :: l => by
      by_cases hk : k = x
      · subst hk
        have hyk : (y == k) = false := by simpa using h
        simp [List.filter, List.lookup, hyk, lookup_filter_ne k y h l]
      · have : (k != x) = true := by simpa using hk
        simp only [List.filter, this, List.lookup]
        rw [lookup_filter_ne x y h l]

theorem get_set (σ : State) (x y : String) (v : Const) :
    (σ.set x v).get y = if y = x then some v else σ.get y := by
  unfold State.set State.get
  by_cases h : y = x
  · subst h; simp [List.lookup]
  · have : (y == x) = false := by simpa using h
    simp only [List.lookup, this, h, ↓reduceIte]
    exact lookup_filter_ne x y h σ.scalars

theorem sget_put (τ : SState) (k k' : Key) (v : Option Const) :
    (τ.put k v).get k' = if k' = k then v else τ.get k' := rfl

@[simp] theorem put_mem (τ : SState) (k : Key) (v : Option Const) : (τ.put k v).mem = τ.mem := rfl
@[simp] theorem put_endian (τ : SState) (k : Key) (v : Option Const) : (τ.put k v).endian = τ.endian := rfl
@[simp] theorem set_mem (σ : State) (x : String) (v : Const) : (σ.set x v).mem = σ.mem := rfl
@[simp] theorem set_endian (σ : State) (x : String) (v : Const) : (σ.set x v).endian = σ.endian := rfl

/-! ### erasure and expressions -/

@[simp] theorem bits_eraseE (e : Expr) : (eraseE e).bits = e.bits := by
  induction e with
  | scalar s => rfl
  | const c => rfl
  | bin op l r ihl _ => simp [eraseE, Expr.bits, ihl]
  | ext op b e _ => rfl
  | ite c t e _ iht _ => simp [eraseE, Expr.bits, iht]

theorem mkBin_erase (op : BinOp) (l r : Expr) :
    Expr.mkBin op (eraseE l) (eraseE r) = (Expr.mkBin op l r).map eraseE := by
  unfold Expr.mkBin
  simp only [bits_eraseE]
  split <;> rfl

theorem mkExt_erase (op : ExtOp) (b : Nat) (e : Expr) :
    Expr.mkExt op b (eraseE e) = (Expr.mkExt op b e).map eraseE := by
  unfold Expr.mkExt
  simp only [bits_eraseE]
  cases op <;> simp only <;> split <;> rfl

theorem mkIte_erase (c t e : Expr) :
    Expr.mkIte (eraseE c) (eraseE t) (eraseE e) = (Expr.mkIte c t e).map eraseE := by
  unfold Expr.mkIte
  simp only [bits_eraseE]
  split <;> rfl

theorem eval_erase (e : Expr) : (eraseE e).eval = e.eval := by
  induction e with
  | scalar s => rfl
  | const c => rfl
  | bin op l r ihl ihr => simp only [eraseE, Expr.eval, ihl, ihr]
  | ext op b e ih => simp only [eraseE, Expr.eval, ih]
  | ite c t e ihc iht ihe => simp only [eraseE, Expr.eval, ihc, iht, ihe]

/-- the original state and the SSA state agree on the scalars of a list: what the name holds is what the
    (name, version) holds — both bound to the same constant, or both unbound -/
def AgreeOn (σ : State) (τ : SState) (ss : List Scalar) : Prop :=
  ∀ s, s ∈ ss → σ.get s.name = τ.get (key s)

theorem AgreeOn.left {σ : State} {τ : SState} {a b : List Scalar} (h : AgreeOn σ τ (a ++ b)) : AgreeOn σ τ a :=
  fun s hs => h s (List.mem_append_left _ hs)

theorem AgreeOn.right {σ : State} {τ : SState} {a b : List Scalar} (h : AgreeOn σ τ (a ++ b)) : AgreeOn σ τ b :=
  fun s hs => h s (List.mem_append_right _ hs)

theorem symbolize_erase (σ : State) (τ : SState) (e : Expr) (h : AgreeOn σ τ e.scalars) :
    σ.symbolize (eraseE e) = (τ.symbolize e).map eraseE := by
  induction e with
  | scalar s =>
    have hs : σ.get s.name = τ.get (key s) := h s (by simp [Expr.scalars])
    simp only [eraseE, State.symbolize, SState.symbolize, eraseS]
    rw [hs]
    cases τ.get (key s) <;> rfl
  | const c => rfl
  | bin op l r ihl ihr =>
    simp only [Expr.scalars] at h
    simp only [eraseE, State.symbolize, SState.symbolize, ihl h.left, ihr h.right]
    cases τ.symbolize l with
    | ok l' =>
      cases τ.symbolize r with
      | ok r' => exact mkBin_erase op l' r'
      | err e => rfl
      | panic => rfl
    | err e => rfl
    | panic => rfl
  | ext op b e ih =>
    simp only [Expr.scalars] at h
    simp only [eraseE, State.symbolize, SState.symbolize, ih h]
    cases τ.symbolize e with
    | ok e' => exact mkExt_erase op b e'
    | err e => rfl
    | panic => rfl
  | ite c t e ihc iht ihe =>
    simp only [Expr.scalars] at h
    simp only [eraseE, State.symbolize, SState.symbolize, ihc h.left.left, iht h.left.right, ihe h.right]
    cases τ.symbolize c with
    | ok c' =>
      cases τ.symbolize t with
      | ok t' =>
        cases τ.symbolize e with
        | ok e' => exact mkIte_erase c' t' e'
        | err e => rfl
        | panic => rfl
      | err e => rfl
      | panic => rfl
    | err e => rfl
    | panic => rfl

/-- `eval_renamed` (DESIGN §6 C10) -/
theorem eval_renamed (σ : State) (τ : SState) (e : Expr) (h : AgreeOn σ τ e.scalars) :
    σ.evalIn (eraseE e) = τ.evalIn e := by
  unfold State.evalIn SState.evalIn
  rw [symbolize_erase σ τ e h]
  cases τ.symbolize e with
  | ok e' => exact eval_erase e'
  | err e => rfl
  | panic => rfl

end C10
end Falcon
