/-
  FalconProofs.C10.Exec — one operation, executed on the original state and on the SSA state, under a version
  map that is respected (`Agree`): same outcome (value / error kind / panic), same memory, and the version map
  after the operation is respected again.
-/
import FalconProofs.C10.Erase

namespace Falcon
namespace C10
open Falcon.Ssa

/-- THE SIMULATION RELATION: same memory and byte order, and for every name whose current version is Known,
    the original state holds under the name exactly what the SSA state holds under (name, version) -/
structure Agree (m : VMap) (σ : State) (τ : SState) : Prop where
  mem : σ.mem = τ.mem
  endian : σ.endian = τ.endian
  vals : ∀ n v, m.lookup n = some v → σ.get n = τ.get (n, v)

theorem Agree.on {m : VMap} {σ : State} {τ : SState} (h : Agree m σ τ) {ss : List Scalar}
    (hr : readsOk m ss = true) : AgreeOn σ τ ss := by
  intro s hs
  have := (List.all_eq_true.mp hr) s hs
  have hl : m.lookup s.name = some s.ssa := by simpa using this
  exact h.vals s.name s.ssa hl

theorem readsOk_append {m : VMap} {a b : List Scalar} (h : readsOk m (a ++ b) = true) :
    readsOk m a = true ∧ readsOk m b = true := by
  unfold readsOk at *
  rw [List.all_append] at h
  simpa using h

theorem lookup_set (m : VMap) (x n : String) (v : Option Nat) :
    (VMap.set m x v).lookup n = if n = x then some v else m.lookup n := by
  unfold VMap.set
  by_cases h : n = x
  · subst h; simp [List.lookup]
  · have : (n == x) = false := by simpa using h
    simp [List.lookup, this, h]

/-- a write of `c` to `d` on both sides keeps the relation, for the map with `d`'s version installed -/
theorem Agree.write {m : VMap} {σ : State} {τ : SState} (h : Agree m σ τ) (d : Scalar) (c : Const) :
    Agree (VMap.set m d.name d.ssa) (σ.set d.name c) (τ.put (key d) (some c)) := by
  refine ⟨h.mem, h.endian, ?_⟩
  intro n v hl
  rw [lookup_set] at hl
  rw [get_set, sget_put]
  by_cases hn : n = d.name
  · subst hn
    simp only [↓reduceIte, Option.some.injEq] at hl
    subst hl
    simp [key]
  · simp only [hn, ↓reduceIte] at hl ⊢
    have : ((n, v) : Key) ≠ key d := by
      intro hk
      apply hn
      simpa [key] using congrArg Prod.fst hk
    simp only [this, ↓reduceIte]
    exact h.vals n v hl

/-- outcomes of the two executions are the same, successor states related -/
inductive ExecRel (m' : VMap) : Res (State × Succ) → Res (SState × Succ) → Prop where
  | ok {σ' : State} {τ' : SState} (s : Succ) : Agree m' σ' τ' → ExecRel m' (.ok (σ', s)) (.ok (τ', s))
  | err (e : Err) : ExecRel m' (.err e) (.err e)
  | panic : ExecRel m' .panic .panic

theorem stepV_some {m m' : VMap} {op : Op} (h : stepV m op = some m') :
    readsOk m (opReads op) = true ∧ m' = setAll m (opWrites op) := by
  unfold stepV at h
  split at h
  · rename_i hr
    exact ⟨hr, by simpa using h.symm⟩
  · cases h

/-- one operation in lock step -/
theorem exec_rel {m m' : VMap} {σ : State} {τ : SState} (h : Agree m σ τ) (op : Op)
    (hs : stepV m op = some m') : ExecRel m' (execute σ (eraseOp op)) (executeS τ op) := by
  obtain ⟨hr, hm'⟩ := stepV_some hs
  subst hm'
  cases op with
  | assign d src =>
    simp only [opReads] at hr
    simp only [eraseOp, execute, executeS, eval_renamed σ τ src (h.on hr)]
    cases τ.evalIn src with
    | ok v => exact ExecRel.ok _ (h.write d v)
    | err e => exact ExecRel.err e
    | panic => exact ExecRel.panic
  | store idx src =>
    simp only [opReads] at hr
    obtain ⟨hri, hrs⟩ := readsOk_append hr
    simp only [eraseOp, execute, executeS, eval_renamed σ τ src (h.on hrs), eval_renamed σ τ idx (h.on hri)]
    cases τ.evalIn src with
    | ok v =>
      cases τ.evalIn idx with
      | ok i =>
        simp only [Res.bind_ok]
        cases addrOf i with
        | ok a =>
          simp only [Res.bind_ok]
          split
          · exact ExecRel.err _
          · split
            · exact ExecRel.panic
            · refine ExecRel.ok _ ⟨?_, h.endian, h.vals⟩
              simp only [h.mem, h.endian]
        | err e => exact ExecRel.err e
        | panic => exact ExecRel.panic
      | err e => exact ExecRel.err e
      | panic => exact ExecRel.panic
    | err e => exact ExecRel.err e
    | panic => exact ExecRel.panic
  | load d idx =>
    simp only [opReads] at hr
    simp only [eraseOp, execute, executeS, eval_renamed σ τ idx (h.on hr), eraseS]
    cases τ.evalIn idx with
    | ok i =>
      simp only [Res.bind_ok]
      cases addrOf i with
      | ok a =>
        simp only [Res.bind_ok]
        split
        · exact ExecRel.err _
        · split
          · exact ExecRel.panic
          · rw [h.mem, h.endian]
            cases τ.mem.readBytes a (d.bits / 8) with
            | some bs => exact ExecRel.ok _ (h.write d _)
            | none => exact ExecRel.err _
      | err e => exact ExecRel.err e
      | panic => exact ExecRel.panic
    | err e => exact ExecRel.err e
    | panic => exact ExecRel.panic
  | branch t =>
    simp only [opReads] at hr
    simp only [eraseOp, execute, executeS, eval_renamed σ τ t (h.on hr)]
    cases τ.evalIn t with
    | ok i =>
      simp only [Res.bind_ok]
      cases addrOf i with
      | ok a => exact ExecRel.ok _ h
      | err e => exact ExecRel.err e
      | panic => exact ExecRel.panic
    | err e => exact ExecRel.err e
    | panic => exact ExecRel.panic
  | intrinsic i => exact ExecRel.err _
  | nop => exact ExecRel.ok _ h

/-- guards: enabled in the original state iff enabled in the SSA state -/
theorem guard_rel {m : VMap} {σ : State} {τ : SState} (h : Agree m σ τ) (g : Option Expr)
    (hr : readsOk m (match g with | none => [] | some c => c.scalars) = true) :
    guardHolds σ (g.map eraseE) ↔ guardOkS τ g = true := by
  cases g with
  | none => simp [guardHolds, guardOkS]
  | some c =>
    simp only [Option.map, guardHolds, guardOkS, eval_renamed σ τ c (h.on hr)]
    cases τ.evalIn c with
    | ok v => simp
    | err e => simp
    | panic => simp

end C10
end Falcon
