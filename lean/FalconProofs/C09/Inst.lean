/-
  FalconProofs.C09.Inst — the two solvers over the location model of C18: on a well-formed function the
  `preds` of both instantiations are the converse of their `succs` (hypothesis `ConvR` of the generic theorems),
  by C18's `forward_spec` / `backward_spec`.
-/
import FalconProofs.C09.Inv
import FalconProofs.C18.Reach
import FalconProofs.C18.Misc

namespace Falcon

/-- backward solver: everything reached from a location of `f` by `backward` steps is a location of `f` -/
theorem stepB_reach_mem {f : Function} (hf : WFf f) {e l : FLoc} (he : e ∈ f.locations)
    (h : Reach (FLoc.stepB f) e l) : l ∈ f.locations := by
  induction h with
  | refl => exact he
  | tail _ hs ih => exact ((mem_stepB_iff hf ih _).mp hs).1

theorem bwd_succL {S : Type} (f : Function) (A : Analysis S) (l : FLoc) :
    (bwdParams f A).succL l = l.stepB f := by
  simp only [FPParams.succL, bwdParams, FLoc.stepB]
  cases l.backward f <;> rfl

theorem bwd_predL {S : Type} (f : Function) (A : Analysis S) (l : FLoc) :
    (bwdParams f A).predL l = l.stepF f := by
  simp only [FPParams.predL, bwdParams, FLoc.stepF]
  cases l.forward f <;> rfl

theorem bwd_conv {S : Type} {f : Function} (hf : WFf f) (A : Analysis S) {e : FLoc} (he : e ∈ f.locations) :
    ConvR (bwdParams f A) e := by
  intro k hk p hp
  have hfun : (bwdParams f A).succL = FLoc.stepB f := funext (bwd_succL f A)
  have hk' : Reach (FLoc.stepB f) e k := by rw [← hfun]; exact hk
  have hkm := stepB_reach_mem hf he hk'
  rw [bwd_predL] at hp
  obtain ⟨hpm, hs⟩ := (mem_stepF_iff hf hkm p).mp hp
  rw [bwd_succL]
  exact (mem_stepB_iff hf hpm k).mpr ⟨hkm, hs⟩

theorem fwd_succL {S : Type} {f : Function} (hf : WFf f) (A : Analysis S) {l : FLoc} (hl : l ∈ f.locations) :
    (fwdParams f A).succL l.toOwned = (l.stepF f).map FLoc.toOwned := by
  obtain ⟨la, hla, _⟩ := forward_spec hf hl
  simp [FPParams.succL, fwdParams, apply_toOwned hf hl, FLoc.stepF, hla, Res.map]

theorem fwd_predL {S : Type} {f : Function} (hf : WFf f) (A : Analysis S) {l : FLoc} (hl : l ∈ f.locations) :
    (fwdParams f A).predL l.toOwned = (l.stepB f).map FLoc.toOwned := by
  obtain ⟨lb, hlb, _⟩ := backward_spec hf hl
  simp [FPParams.predL, fwdParams, apply_toOwned hf hl, FLoc.stepB, hlb, Res.map]

/-- forward solver: every owned location reached from the owned form of a location of `f` is the owned form
    of a location of `f` reached by `forward` steps -/
theorem fwd_reach_owned {S : Type} {f : Function} (hf : WFf f) (A : Analysis S) {e : FLoc}
    (he : e ∈ f.locations) {o : OFLoc} (h : Reach (fwdParams f A).succL e.toOwned o) :
    ∃ l, l ∈ f.locations ∧ o = l.toOwned ∧ Reach (FLoc.stepF f) e l := by
  induction h with
  | refl => exact ⟨e, he, rfl, Reach.refl _⟩
  | tail _ hs ih =>
    obtain ⟨l, hl, rfl, hr⟩ := ih
    rw [fwd_succL hf A hl] at hs
    obtain ⟨l', hl', rfl⟩ := List.mem_map.mp hs
    exact ⟨l', ((mem_stepF_iff hf hl _).mp hl').1, rfl, Reach.tail hr hl'⟩

theorem fwd_conv {S : Type} {f : Function} (hf : WFf f) (A : Analysis S) {e : FLoc} (he : e ∈ f.locations) :
    ConvR (fwdParams f A) e.toOwned := by
  intro k hk p hp
  obtain ⟨l, hl, rfl, _⟩ := fwd_reach_owned hf A he hk
  rw [fwd_predL hf A hl] at hp
  obtain ⟨a, ha, rfl⟩ := List.mem_map.mp hp
  obtain ⟨ham, hs⟩ := (mem_stepB_iff hf hl a).mp ha
  rw [fwd_succL hf A ham]
  exact List.mem_map.mpr ⟨l, (mem_stepF_iff hf ham l).mpr ⟨hl, hs⟩, rfl⟩

end Falcon
