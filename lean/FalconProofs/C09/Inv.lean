/-
  FalconProofs.C09.Inv — the loop invariants of the work-list solver (DESIGN §6 C09):
    (a) every key of the map and every queued location is reachable from the root;
    (b) every successor of a key is a key or queued; the root is a key or queued;
    (c) every key that is not queued satisfies its data-flow equation with the *current* map
        (up to a relation `R`: equality without `force`, `≤` with `force`);
    (d) the map is pointwise below every solution (monotone analysis, join = least upper bound).
-/
import FalconProofs.C09.Basic
import FalconProofs.C18.Closure

namespace Falcon
section
variable {L S : Type} [DecidableEq L]

/-- invariants (a) and (b) -/
structure InvK (P : FPParams L S) (e : L) (st : List (L × S)) (q : List L) : Prop where
  reach : ∀ l, (alGet st l ≠ none ∨ l ∈ q) → Reach P.succL e l
  closed : ∀ l, alGet st l ≠ none → ∀ l' ∈ P.succL l, alGet st l' ≠ none ∨ l' ∈ q
  root : alGet st e ≠ none ∨ e ∈ q

theorem InvK.init (P : FPParams L S) (e : L) : InvK P e [] [e] := by
  refine ⟨?_, ?_, Or.inr (by simp)⟩
  · rintro l (h | h)
    · simp [alGet] at h
    · simp only [List.mem_singleton] at h; subst h; exact Reach.refl _
  · intro l h; simp [alGet] at h

omit [DecidableEq L] in
theorem succL_of_ok {P : FPParams L S} {l : L} {ss : List L} (h : P.succs l = .ok ss) : P.succL l = ss := by
  simp [FPParams.succL, h]

omit [DecidableEq L] in
theorem predL_of_ok {P : FPParams L S} {l : L} {ps : List L} (h : P.preds l = .ok ps) : P.predL l = ps := by
  simp [FPParams.predL, h]

theorem InvK.step {P : FPParams L S} {e : L} {force : Bool} {st : List (L × S)} {l : L} {q : List L}
    {st' : List (L × S)} {q' : List L} (hI : InvK P e st (l :: q))
    (h : fpStep P force st l q = .next st' q') : InvK P e st' q' := by
  obtain ⟨ps, inS, s, hp, hj, ht, hcase⟩ := fpStep_next h
  rcases hcase with ⟨old, hold, _, hst', hq'⟩ | ⟨ss, s', hss, hst', hq', _⟩
  · subst st' q'
    have hkey : alGet st l ≠ none := by rw [hold]; simp
    refine ⟨?_, ?_, ?_⟩
    · rintro k (hk | hk)
      · exact hI.reach k (Or.inl hk)
      · exact hI.reach k (Or.inr (List.mem_cons_of_mem _ hk))
    · intro k hk k' hk'
      rcases hI.closed k hk k' hk' with h1 | h1
      · exact Or.inl h1
      · rcases List.mem_cons.mp h1 with rfl | h1
        · exact Or.inl hkey
        · exact Or.inr h1
    · rcases hI.root with h1 | h1
      · exact Or.inl h1
      · rcases List.mem_cons.mp h1 with rfl | h1
        · exact Or.inl hkey
        · exact Or.inr h1
  · subst st' q'
    have hsl := succL_of_ok hss
    have hrl : Reach P.succL e l := hI.reach l (Or.inr (by simp))
    have key' : ∀ k, alGet st k ≠ none → alGet (alSet st l s') k ≠ none := by
      intro k hk; rw [alGet_alSet]; split <;> simp [hk]
    have keyl : alGet (alSet st l s') l ≠ none := by rw [alGet_alSet]; simp
    refine ⟨?_, ?_, ?_⟩
    · rintro k (hk | hk)
      · rw [alGet_alSet] at hk
        by_cases hkl : k = l
        · subst hkl; exact hrl
        · simp only [hkl, ↓reduceIte] at hk; exact hI.reach k (Or.inl hk)
      · rcases (mem_pushAll _ _ _).mp hk with h1 | h1
        · exact hI.reach k (Or.inr (List.mem_cons_of_mem _ h1))
        · exact Reach.tail hrl (by rw [hsl]; exact h1)
    · intro k hk k' hk'
      by_cases hkl : k = l
      · subst hkl
        rw [hsl] at hk'
        exact Or.inr ((mem_pushAll _ _ _).mpr (Or.inr hk'))
      · rw [alGet_alSet] at hk
        simp only [hkl, ↓reduceIte] at hk
        rcases hI.closed k hk k' hk' with h1 | h1
        · exact Or.inl (key' k' h1)
        · rcases List.mem_cons.mp h1 with rfl | h1
          · exact Or.inl keyl
          · exact Or.inr ((mem_pushAll _ _ _).mpr (Or.inl h1))
    · rcases hI.root with h1 | h1
      · exact Or.inl (key' e h1)
      · rcases List.mem_cons.mp h1 with rfl | h1
        · exact Or.inl keyl
        · exact Or.inr ((mem_pushAll _ _ _).mpr (Or.inl h1))

/-- at the end the keys are exactly the reachable locations -/
theorem InvK.keys {P : FPParams L S} {e : L} {st : List (L × S)} (hI : InvK P e st []) (l : L) :
    alGet st l ≠ none ↔ Reach P.succL e l := by
  constructor
  · intro h; exact hI.reach l (Or.inl h)
  · intro h
    induction h with
    | refl => rcases hI.root with h1 | h1; exact h1; simp at h1
    | tail _ hs ih => rcases hI.closed _ ih _ hs with h1 | h1; exact h1; simp at h1

/-- the equation at `l`, up to `R` between the recomputed and the stored state -/
def EqnR (P : FPParams L S) (R : S → S → Prop) (st : List (L × S)) (l : L) : Prop :=
  ∃ ps inS s v, P.preds l = .ok ps ∧ joinIn P st ps none = .ok inS ∧ P.trans l inS = .ok s ∧
    alGet st l = some v ∧ R s v

/-- `preds` is contained in the converse of `succs` on the reachable locations -/
def ConvR (P : FPParams L S) (e : L) : Prop :=
  ∀ k, Reach P.succL e k → ∀ p ∈ P.predL k, k ∈ P.succL p

/-- invariants (a), (b), (c) -/
structure InvE (P : FPParams L S) (e : L) (R : S → S → Prop) (st : List (L × S)) (q : List L) : Prop where
  k : InvK P e st q
  eqn : ∀ l, alGet st l ≠ none → l ∉ q → EqnR P R st l

theorem InvE.init (P : FPParams L S) (e : L) (R : S → S → Prop) : InvE P e R [] [e] :=
  ⟨InvK.init P e, by intro l h; simp [alGet] at h⟩

theorem InvE.step {P : FPParams L S} {e : L} {R : S → S → Prop} {force : Bool} (hconv : ConvR P e)
    (hrefl : ∀ s, R s s) (heq : ∀ s old, P.cmp s old = some .eq → R s old)
    (hforce : force = true → ∀ a b c, P.join a b = .ok c → R a c)
    {st : List (L × S)} {l : L} {q : List L} {st' : List (L × S)} {q' : List L}
    (hI : InvE P e R st (l :: q)) (h : fpStep P force st l q = .next st' q') : InvE P e R st' q' := by
  refine ⟨hI.k.step h, ?_⟩
  obtain ⟨ps, inS, s, hp, hj, ht, hcase⟩ := fpStep_next h
  rcases hcase with ⟨old, hold, hc, hst', hq'⟩ | ⟨ss, s', hss, hst', hq', hs'⟩
  · subst st' q'
    intro k hk hkq
    by_cases hkl : k = l
    · subst hkl
      exact ⟨ps, inS, s, old, hp, hj, ht, hold, heq s old hc⟩
    · exact hI.eqn k hk (by simp [hkl, hkq])
  · subst st' q'
    have hsl := succL_of_ok hss
    have hR : R s s' := by
      rcases hs' with ⟨_, rfl⟩ | ⟨old, _, _, ⟨hf, hjo⟩ | ⟨_, _, rfl⟩⟩
      · exact hrefl _
      · exact hforce hf _ _ _ hjo
      · exact hrefl _
    intro k hk hkq
    have hkq' : k ∉ q ∧ k ∉ ss := by
      constructor
      · intro h1; exact hkq ((mem_pushAll _ _ _).mpr (Or.inl h1))
      · intro h1; exact hkq ((mem_pushAll _ _ _).mpr (Or.inr h1))
    by_cases hkl : k = l
    · subst hkl
      have hrk : Reach P.succL e k := hI.k.reach k (Or.inr (by simp))
      have hpl := predL_of_ok hp
      have hcong : ∀ p ∈ ps, alGet (alSet st k s') p = alGet st p := by
        intro p hpm
        rw [alGet_alSet]
        by_cases hpk : p = k
        · subst hpk
          have := hconv p hrk p (by rw [hpl]; exact hpm)
          rw [hsl] at this
          exact absurd this hkq'.2
        · simp [hpk]
      refine ⟨ps, inS, s, s', hp, ?_, ht, by rw [alGet_alSet]; simp, hR⟩
      rw [joinIn_congr P st _ ps none hcong]; exact hj
    · have hk0 : alGet st k ≠ none := by
        rw [alGet_alSet] at hk; simpa [hkl] using hk
      have hrk : Reach P.succL e k := hI.k.reach k (Or.inl hk0)
      obtain ⟨psk, inSk, sk, vk, hpk, hjk, htk, hgk, hRk⟩ :=
        hI.eqn k hk0 (by simp [hkl, hkq'.1])
      have hplk := predL_of_ok hpk
      have hcong : ∀ p ∈ psk, alGet (alSet st l s') p = alGet st p := by
        intro p hpm
        rw [alGet_alSet]
        by_cases hpl' : p = l
        · subst hpl'
          have := hconv k hrk p (by rw [hplk]; exact hpm)
          rw [hsl] at this
          exact absurd this hkq'.2
        · simp [hpl']
      refine ⟨psk, inSk, sk, vk, hpk, ?_, htk, by rw [alGet_alSet]; simp [hkl, hgk], hRk⟩
      rw [joinIn_congr P st _ psk none hcong]; exact hjk

/-! ### (d): below every solution -/

/-- order on optional states: `none` is below everything -/
def leO (le : S → S → Prop) : Option S → Option S → Prop
  | none, _ => True
  | some _, none => False
  | some a, some b => le a b

structure JoinLub (P : FPParams L S) (le : S → S → Prop) : Prop where
  refl : ∀ a, le a a
  trans : ∀ a b c, le a b → le b c → le a c
  ub_left : ∀ a b c, P.join a b = .ok c → le a c
  ub_right : ∀ a b c, P.join a b = .ok c → le b c
  least : ∀ a b c u, P.join a b = .ok c → le a u → le b u → le c u

/-- `trans l` is monotone, `None` being below every state -/
def Mono (P : FPParams L S) (le : S → S → Prop) : Prop :=
  ∀ l x x' y y', P.trans l x = .ok y → P.trans l x' = .ok y' → leO le x x' → le y y'

/-- the fold is monotone in the map and in the accumulator -/
theorem joinIn_mono {P : FPParams L S} {le : S → S → Prop} (hj : JoinLub P le)
    {st sol : List (L × S)}
    (hle : ∀ l v, alGet st l = some v → ∃ v', alGet sol l = some v' ∧ le v v') :
    ∀ (ps : List L) (acc acc' r r' : Option S), leO le acc acc' →
      joinIn P st ps acc = .ok r → joinIn P sol ps acc' = .ok r' → leO le r r' := by
  intro ps
  induction ps with
  | nil =>
    intro acc acc' r r' hacc h1 h2
    simp only [joinIn, Res.ok.injEq] at h1 h2
    subst h1; subst h2; exact hacc
  | cons p ps ih =>
    intro acc acc' r r' hacc h1 h2
    simp only [joinIn] at h1 h2
    cases hst : alGet st p with
    | none =>
      rw [hst] at h1
      simp only at h1
      cases hsol : alGet sol p with
      | none => rw [hsol] at h2; exact ih acc acc' r r' hacc h1 h2
      | some w =>
        rw [hsol] at h2
        simp only at h2
        cases acc' with
        | none =>
          cases acc with
          | none => exact ih none (some w) r r' trivial h1 h2
          | some a => exact absurd hacc (by simp [leO])
        | some a' =>
          simp only at h2
          cases hjn : P.join a' w with
          | ok c =>
            rw [hjn] at h2
            refine ih acc (some c) r r' ?_ h1 h2
            cases acc with
            | none => trivial
            | some a => exact hj.trans _ _ _ hacc (hj.ub_left _ _ _ hjn)
          | err e => rw [hjn] at h2; cases h2
          | panic => rw [hjn] at h2; cases h2
    | some v =>
      rw [hst] at h1
      simp only at h1
      obtain ⟨w, hsol, hvw⟩ := hle p v hst
      rw [hsol] at h2
      simp only at h2
      cases acc with
      | none =>
        simp only at h1
        cases acc' with
        | none => exact ih (some v) (some w) r r' hvw h1 h2
        | some a' =>
          simp only at h2
          cases hjn : P.join a' w with
          | ok c =>
            rw [hjn] at h2
            exact ih (some v) (some c) r r' (hj.trans _ _ _ hvw (hj.ub_right _ _ _ hjn)) h1 h2
          | err e => rw [hjn] at h2; cases h2
          | panic => rw [hjn] at h2; cases h2
      | some a =>
        simp only at h1
        cases acc' with
        | none => exact absurd hacc (by simp [leO])
        | some a' =>
          simp only at h2
          cases hjn : P.join a v with
          | ok c =>
            rw [hjn] at h1
            cases hjn' : P.join a' w with
            | ok c' =>
              rw [hjn'] at h2
              refine ih (some c) (some c') r r' ?_ h1 h2
              exact hj.least _ _ _ _ hjn (hj.trans _ _ _ hacc (hj.ub_left _ _ _ hjn'))
                (hj.trans _ _ _ hvw (hj.ub_right _ _ _ hjn'))
            | err e => rw [hjn'] at h2; cases h2
            | panic => rw [hjn'] at h2; cases h2
          | err e => rw [hjn] at h1; cases h1
          | panic => rw [hjn] at h1; cases h1

/-- `sol` is a solution of the equations on the reachable locations -/
def IsSolution (P : FPParams L S) (e : L) (sol : List (L × S)) : Prop :=
  ∀ l, Reach P.succL e l → EqnR P (· = ·) sol l

/-- invariants (a), (b), (d) -/
structure InvL (P : FPParams L S) (e : L) (le : S → S → Prop) (sol : List (L × S))
    (st : List (L × S)) (q : List L) : Prop where
  k : InvK P e st q
  below : ∀ l v, alGet st l = some v → ∃ v', alGet sol l = some v' ∧ le v v'

theorem InvL.init (P : FPParams L S) (e : L) (le : S → S → Prop) (sol : List (L × S)) :
    InvL P e le sol [] [e] :=
  ⟨InvK.init P e, by intro l v h; simp [alGet] at h⟩

theorem InvL.step {P : FPParams L S} {e : L} {le : S → S → Prop} {sol : List (L × S)}
    (hj : JoinLub P le) (hm : Mono P le) (hsol : IsSolution P e sol)
    {st : List (L × S)} {l : L} {q : List L} {st' : List (L × S)} {q' : List L}
    (hI : InvL P e le sol st (l :: q)) (h : fpStep P false st l q = .next st' q') :
    InvL P e le sol st' q' := by
  refine ⟨hI.k.step h, ?_⟩
  obtain ⟨ps, inS, s, hp, hjn, ht, hcase⟩ := fpStep_next h
  rcases hcase with ⟨old, hold, hc, hst', hq'⟩ | ⟨ss, s', hss, hst', hq', hs'⟩
  · subst st' q'
    exact hI.below
  · subst st' q'
    have hs : s' = s := by
      rcases hs' with ⟨_, rfl⟩ | ⟨old, _, _, ⟨hf, _⟩ | ⟨_, _, rfl⟩⟩
      · rfl
      · cases hf
      · rfl
    subst hs
    have hrl : Reach P.succL e l := hI.k.reach l (Or.inr (by simp))
    obtain ⟨ps', inS', v', w, hp', hjn', ht', hg', hvw⟩ := hsol l hrl
    rw [hp] at hp'
    simp only [Res.ok.injEq] at hp'
    subst hp'
    have hin : leO le inS inS' := joinIn_mono hj hI.below ps none none inS inS' trivial hjn hjn'
    have hle : le s' v' := hm l inS inS' s' v' ht ht' hin
    intro k v hk
    rw [alGet_alSet] at hk
    by_cases hkl : k = l
    · subst hkl
      simp only [↓reduceIte, Option.some.injEq] at hk
      subst hk
      exact ⟨w, hg', by rw [← hvw]; exact hle⟩
    · simp only [hkl, ↓reduceIte] at hk
      exact hI.below k v hk

end
end Falcon
