/-
  FalconProofs.C09.Basic — association-list and queue lemmas, the invariant rule for `fpLoop`, and the shape of a
  successful iteration (`fpStep_next`).
-/
import FalconModel.FixedPoint

namespace Falcon
section
variable {L S : Type} [DecidableEq L]

theorem alGet_filter_ne (st : List (L × S)) (l k : L) :
    alGet (st.filter (fun kv => decide (kv.1 ≠ l))) k = if k = l then none else alGet st k := by
  induction st with
  | nil => simp [alGet]
  | cons kv r ih =>
    obtain ⟨a, v⟩ := kv
    by_cases hal : a = l
    · subst hal
      simp only [List.filter_cons, ne_eq, not_true_eq_false, decide_false, Bool.false_eq_true, ↓reduceIte,
        alGet]
      rw [ih]
      by_cases hk : k = a
      · simp [hk]
      · have : ¬ a = k := fun h => hk h.symm
        simp [hk, this]
    · simp only [List.filter_cons, ne_eq, hal, not_false_eq_true, decide_true, ↓reduceIte, alGet]
      rw [ih]
      by_cases hak : a = k
      · subst hak; simp [hal]
      · simp [hak]

theorem alGet_alSet (st : List (L × S)) (l : L) (s : S) (k : L) :
    alGet (alSet st l s) k = if k = l then some s else alGet st k := by
  unfold alSet
  simp only [alGet]
  by_cases h : l = k
  · subst h; simp
  · have : ¬ k = l := fun e => h e.symm
    simp only [h, ↓reduceIte, this]
    rw [alGet_filter_ne]
    simp [this]

theorem mem_pushAll (q ss : List L) (x : L) : x ∈ pushAll q ss ↔ x ∈ q ∨ x ∈ ss := by
  induction ss generalizing q with
  | nil => simp [pushAll]
  | cons s r ih =>
    simp only [pushAll]
    rw [ih]
    by_cases h : s ∈ q
    · simp only [h, ↓reduceIte, List.mem_cons]
      constructor
      · rintro (h1 | h1); exact Or.inl h1; exact Or.inr (Or.inr h1)
      · rintro (h1 | rfl | h1); exact Or.inl h1; exact Or.inl h; exact Or.inr h1
    · simp only [h, ↓reduceIte, List.mem_append, List.mem_cons, List.not_mem_nil, or_false]
      constructor
      · rintro ((h1 | h1) | h1); exact Or.inl h1; exact Or.inr (Or.inl h1); exact Or.inr (Or.inr h1)
      · rintro (h1 | h1 | h1); exact Or.inl (Or.inl h1); exact Or.inl (Or.inr h1); exact Or.inr h1

theorem length_pushAll (q ss : List L) : (pushAll q ss).length ≤ q.length + ss.length := by
  induction ss generalizing q with
  | nil => simp [pushAll]
  | cons s r ih =>
    simp only [pushAll]
    split
    · have := ih q; simp only [List.length_cons]; omega
    · have := ih (q ++ [s]); simp only [List.length_append, List.length_cons, List.length_nil] at this ⊢; omega

/-- the fold only looks at the states of the listed predecessors -/
theorem joinIn_congr (P : FPParams L S) (st st' : List (L × S)) (ps : List L) (acc : Option S)
    (h : ∀ p ∈ ps, alGet st' p = alGet st p) : joinIn P st' ps acc = joinIn P st ps acc := by
  induction ps generalizing acc with
  | nil => rfl
  | cons p r ih =>
    have hp := h p (by simp)
    have hr : ∀ p ∈ r, alGet st' p = alGet st p := fun x hx => h x (by simp [hx])
    simp only [joinIn, hp]
    cases alGet st p with
    | none => exact ih acc hr
    | some v =>
      cases acc with
      | none => exact ih _ hr
      | some a =>
        simp only
        cases P.join a v with
        | ok c => exact ih _ hr
        | err e => rfl
        | panic => rfl

/-- invariant rule: whatever every successful iteration preserves holds of the final map -/
theorem fpLoop_inv (P : FPParams L S) (force : Bool) (I : List (L × S) → List L → Prop)
    (hstep : ∀ st l q st' q', I st (l :: q) → fpStep P force st l q = .next st' q' → I st' q') :
    ∀ (n : Nat) (st : List (L × S)) (q : List L) (out : List (L × S)),
      I st q → fpLoop P force n st q = .ok out → I out [] := by
  intro n
  induction n with
  | zero =>
    intro st q out hI h
    cases q with
    | nil => simp only [fpLoop, FPOut.ok.injEq] at h; subst h; exact hI
    | cons l q => simp [fpLoop] at h
  | succ n ih =>
    intro st q out hI h
    cases q with
    | nil => simp only [fpLoop, FPOut.ok.injEq] at h; subst h; exact hI
    | cons l q =>
      simp only [fpLoop] at h
      cases hs : fpStep P force st l q with
      | done o =>
        rw [hs] at h
        simp only at h
        -- a `done` outcome of an iteration is never `ok`
        exfalso
        revert hs
        unfold fpStep fpStore
        intro hs
        repeat' (split at hs)
        all_goals (first | (simp only [StepRes.done.injEq] at hs; subst hs; cases h) | cases hs)
      | next st' q' =>
        rw [hs] at h
        exact ih st' q' out (hstep st l q st' q' hI hs) h

/-- what a successful iteration did: either the recomputed state compared `Equal` to the stored one and
    nothing changed, or a state `s'` was stored and the successors were queued; `s'` is the recomputed state
    (no `force`) or its join with the stored one (`force`). -/
theorem fpStep_next {P : FPParams L S} {force : Bool} {st : List (L × S)} {l : L} {q : List L}
    {st' : List (L × S)} {q' : List L} (h : fpStep P force st l q = .next st' q') :
    ∃ ps inS s, P.preds l = .ok ps ∧ joinIn P st ps none = .ok inS ∧ P.trans l inS = .ok s ∧
      ((∃ old, alGet st l = some old ∧ P.cmp s old = some .eq ∧ st' = st ∧ q' = q) ∨
       (∃ ss s', P.succs l = .ok ss ∧ st' = alSet st l s' ∧ q' = pushAll q ss ∧
          ((alGet st l = none ∧ s' = s) ∨
           (∃ old, alGet st l = some old ∧ P.cmp s old ≠ some .eq ∧
              ((force = true ∧ P.join s old = .ok s') ∨
               (force = false ∧ P.cmp s old = some .gt ∧ s' = s)))))) := by
  unfold fpStep at h
  cases hp : P.preds l with
  | err e => rw [hp] at h; cases h
  | panic => rw [hp] at h; cases h
  | ok ps =>
    rw [hp] at h
    simp only at h
    cases hj : joinIn P st ps none with
    | err e => rw [hj] at h; cases h
    | panic => rw [hj] at h; cases h
    | ok inS =>
      rw [hj] at h
      simp only at h
      cases ht : P.trans l inS with
      | err e => rw [ht] at h; cases h
      | panic => rw [ht] at h; cases h
      | ok s =>
        rw [ht] at h
        simp only at h
        refine ⟨ps, inS, s, by first | rfl | exact hp, by first | rfl | exact hj, by first | rfl | exact ht, ?_⟩
        have store : ∀ s', fpStore P st l q s' = .next st' q' →
            ∃ ss, P.succs l = .ok ss ∧ st' = alSet st l s' ∧ q' = pushAll q ss := by
          intro s' hs
          unfold fpStore at hs
          cases hss : P.succs l with
          | err e => rw [hss] at hs; cases hs
          | panic => rw [hss] at hs; cases hs
          | ok ss =>
            rw [hss] at hs
            simp only [StepRes.next.injEq] at hs
            exact ⟨ss, rfl, hs.1.symm, hs.2.symm⟩
        cases hg : alGet st l with
        | none =>
          rw [hg] at h
          simp only at h
          obtain ⟨ss, h1, h2, h3⟩ := store s h
          exact Or.inr ⟨ss, s, h1, h2, h3, Or.inl ⟨by first | rfl | exact hg, rfl⟩⟩
        | some old =>
          rw [hg] at h
          simp only at h
          cases hc : P.cmp s old with
          | none =>
            rw [hc] at h
            simp only at h
            cases force with
            | false => simp at h
            | true =>
              simp only [↓reduceIte] at h
              cases hjo : P.join s old with
              | err e => rw [hjo] at h; cases h
              | panic => rw [hjo] at h; cases h
              | ok s' =>
                rw [hjo] at h
                obtain ⟨ss, h1, h2, h3⟩ := store s' h
                exact Or.inr ⟨ss, s', h1, h2, h3, Or.inr ⟨old, by first | rfl | exact hg, by simp [hc], Or.inl ⟨rfl, hjo⟩⟩⟩
          | some o =>
            rw [hc] at h
            cases o with
            | eq =>
              simp only [StepRes.next.injEq] at h
              exact Or.inl ⟨old, by first | rfl | exact hg, by first | rfl | exact hc, h.1.symm, h.2.symm⟩
            | lt =>
              simp only at h
              cases force with
              | false => simp at h
              | true =>
                simp only [↓reduceIte] at h
                cases hjo : P.join s old with
                | err e => rw [hjo] at h; cases h
                | panic => rw [hjo] at h; cases h
                | ok s' =>
                  rw [hjo] at h
                  obtain ⟨ss, h1, h2, h3⟩ := store s' h
                  exact Or.inr ⟨ss, s', h1, h2, h3, Or.inr ⟨old, by first | rfl | exact hg, by simp [hc], Or.inl ⟨rfl, hjo⟩⟩⟩
            | gt =>
              simp only at h
              cases force with
              | false =>
                simp only [Bool.false_eq_true, ↓reduceIte] at h
                obtain ⟨ss, h1, h2, h3⟩ := store s h
                exact Or.inr ⟨ss, s, h1, h2, h3, Or.inr ⟨old, by first | rfl | exact hg, by simp [hc], Or.inr ⟨rfl, by first | rfl | exact hc, rfl⟩⟩⟩
              | true =>
                simp only [↓reduceIte] at h
                cases hjo : P.join s old with
                | err e => rw [hjo] at h; cases h
                | panic => rw [hjo] at h; cases h
                | ok s' =>
                  rw [hjo] at h
                  obtain ⟨ss, h1, h2, h3⟩ := store s' h
                  exact Or.inr ⟨ss, s', h1, h2, h3, Or.inr ⟨old, by first | rfl | exact hg, by simp [hc], Or.inl ⟨rfl, hjo⟩⟩⟩

end
end Falcon
