/-
  FalconProofs.C09.Term — termination of the work-list loop without `force`: a state is only ever replaced by a
  strictly greater one, so with a rank bounded by `h` the potential
      M(st, q) = (Σ_{l ∈ U} (h + 1 − rk (st l))) · (D + 1) + |q|
  strictly decreases with every iteration (`U` lists the reachable locations, `D` bounds their out-degree).
-/
import FalconProofs.C09.Inv

namespace Falcon
section
variable {L S : Type} [DecidableEq L]

/-- rank of an optional state: absent = 0, present = rank + 1 -/
def rkO (rank : S → Nat) (st : List (L × S)) (l : L) : Nat :=
  match alGet st l with
  | none => 0
  | some s => rank s + 1

def phi (rank : S → Nat) (h : Nat) (U : List L) (st : List (L × S)) : Nat :=
  (U.map (fun l => h + 1 - rkO rank st l)).sum

def measureM (rank : S → Nat) (h D : Nat) (U : List L) (st : List (L × S)) (q : List L) : Nat :=
  phi rank h U st * (D + 1) + q.length

omit [DecidableEq L] in
theorem sum_map_le (U : List L) (f g : L → Nat) (hle : ∀ k ∈ U, g k ≤ f k) :
    (U.map g).sum ≤ (U.map f).sum := by
  induction U with
  | nil => simp
  | cons a r ih =>
    simp only [List.map_cons, List.sum_cons]
    have h1 := hle a (by simp)
    have h2 := ih (fun k hk => hle k (by simp [hk]))
    omega

omit [DecidableEq L] in
theorem sum_map_lt (U : List L) (f g : L → Nat) (hle : ∀ k ∈ U, g k ≤ f k) (l : L) (hl : l ∈ U)
    (hlt : g l < f l) : (U.map g).sum < (U.map f).sum := by
  induction U with
  | nil => simp at hl
  | cons a r ih =>
    simp only [List.map_cons, List.sum_cons]
    have h1 := hle a (by simp)
    have h2 := sum_map_le r f g (fun k hk => hle k (by simp [hk]))
    rcases List.mem_cons.mp hl with rfl | hl'
    · omega
    · have := ih (fun k hk => hle k (by simp [hk])) hl'
      omega

theorem phi_nil (rank : S → Nat) (h : Nat) (U : List L) :
    phi rank h U ([] : List (L × S)) = U.length * (h + 1) := by
  unfold phi
  induction U with
  | nil => simp
  | cons a r ih =>
    simp only [List.map_cons, List.sum_cons, List.length_cons, ih]
    simp only [rkO, alGet, Nat.sub_zero, Nat.add_mul, Nat.one_mul]
    omega

/-- an iteration that ends the run never ends it with `maxSteps` -/
theorem fpStep_done_ne {P : FPParams L S} {force : Bool} {st : List (L × S)} {l : L} {q : List L}
    {o : FPOut L S} (h : fpStep P force st l q = .done o) : o ≠ .maxSteps := by
  revert h
  unfold fpStep fpStore
  intro h
  repeat' (split at h)
  all_goals (first | (simp only [StepRes.done.injEq] at h; subst h; simp) | cases h)

/-- storing a state of strictly greater rank at a listed location lowers the potential -/
theorem phi_store (rank : S → Nat) (h : Nat) (hrank : ∀ s, rank s ≤ h) (U : List L) (st : List (L × S))
    (l : L) (hl : l ∈ U) (s : S) (hup : rkO rank st l < rank s + 1) :
    phi rank h U (alSet st l s) + 1 ≤ phi rank h U st := by
  unfold phi
  have hterm : ∀ k, rkO rank (alSet st l s) k = if k = l then rank s + 1 else rkO rank st k := by
    intro k
    unfold rkO
    rw [alGet_alSet]
    by_cases hk : k = l <;> simp [hk]
  have := sum_map_lt U (fun k => h + 1 - rkO rank st k) (fun k => h + 1 - rkO rank (alSet st l s) k)
    (by
      intro k _
      simp only [hterm]
      split
      · rename_i hk; subst hk; omega
      · exact Nat.le_refl _)
    l hl
    (by
      simp only [hterm, ↓reduceIte]
      have := hrank s
      omega)
  omega

/-- every successful iteration lowers the measure -/
theorem measure_step {P : FPParams L S} {e : L} (rank : S → Nat) (h D : Nat) (U : List L)
    (hrank : ∀ s, rank s ≤ h) (hgt : ∀ a b, P.cmp a b = some .gt → rank b < rank a)
    (hU : ∀ l, Reach P.succL e l → l ∈ U) (hD : ∀ l, Reach P.succL e l → (P.succL l).length ≤ D)
    {st : List (L × S)} {l : L} {q : List L} {st' : List (L × S)} {q' : List L}
    (hI : InvK P e st (l :: q)) (hs : fpStep P false st l q = .next st' q') :
    measureM rank h D U st' q' + 1 ≤ measureM rank h D U st (l :: q) := by
  obtain ⟨ps, inS, s, hp, hj, ht, hcase⟩ := fpStep_next hs
  have hrl : Reach P.succL e l := hI.reach l (Or.inr (by simp))
  rcases hcase with ⟨old, hold, _, hst', hq'⟩ | ⟨ss, s', hss, hst', hq', hs'⟩
  · subst st' q'
    simp only [measureM, List.length_cons]
    omega
  · subst st' q'
    have hup : rkO rank st l < rank s' + 1 := by
      rcases hs' with ⟨hnone, rfl⟩ | ⟨old, hold, _, ⟨hf, _⟩ | ⟨_, hc, rfl⟩⟩
      · simp [rkO, hnone]
      · cases hf
      · have := hgt _ _ hc
        simp only [rkO, hold]
        omega
    have hphi := phi_store rank h hrank U st l (hU l hrl) s' hup
    have hlen := length_pushAll q ss
    have hd : ss.length ≤ D := by
      have := hD l hrl
      rw [succL_of_ok hss] at this
      exact this
    simp only [measureM, List.length_cons]
    have hmul : (phi rank h U (alSet st l s') + 1) * (D + 1) ≤ phi rank h U st * (D + 1) :=
      Nat.mul_le_mul_right _ hphi
    rw [Nat.add_mul] at hmul
    omega

/-- with fuel at least the measure the loop does not run out of fuel -/
theorem fpLoop_terminates {P : FPParams L S} {e : L} (rank : S → Nat) (h D : Nat) (U : List L)
    (hrank : ∀ s, rank s ≤ h) (hgt : ∀ a b, P.cmp a b = some .gt → rank b < rank a)
    (hU : ∀ l, Reach P.succL e l → l ∈ U) (hD : ∀ l, Reach P.succL e l → (P.succL l).length ≤ D) :
    ∀ (n : Nat) (st : List (L × S)) (q : List L), InvK P e st q → measureM rank h D U st q ≤ n →
      fpLoop P false n st q ≠ .maxSteps := by
  intro n
  induction n with
  | zero =>
    intro st q _ hm
    cases q with
    | nil => simp [fpLoop]
    | cons l q => simp [measureM] at hm
  | succ n ih =>
    intro st q hI hm
    cases q with
    | nil => simp [fpLoop]
    | cons l q =>
      simp only [fpLoop]
      cases hs : fpStep P false st l q with
      | done o => exact fpStep_done_ne hs
      | next st' q' =>
        simp only
        have := measure_step rank h D U hrank hgt hU hD hI hs
        exact ih st' q' (hI.step hs) (by omega)

end
end Falcon
