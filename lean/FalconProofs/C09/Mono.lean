/-
  FalconProofs.C09.Mono — for a monotone analysis (join = least upper bound, lawful `cmp`, total operations on
  the reachable locations) the loop without `force` never answers `FixedPointOrdering`, an error or a panic:
  every stored state was computed from an input that is below the current input (invariant (e)), so every
  re-computation is `≥` the stored state.
-/
import FalconProofs.C09.Inv

namespace Falcon
section
variable {L S : Type} [DecidableEq L]

omit [DecidableEq L] in
theorem leO_refl {le : S → S → Prop} (hr : ∀ a, le a a) (x : Option S) : leO le x x := by
  cases x with
  | none => trivial
  | some a => exact hr a

omit [DecidableEq L] in
theorem leO_trans {le : S → S → Prop} (ht : ∀ a b c, le a b → le b c → le a c) {x y z : Option S}
    (h1 : leO le x y) (h2 : leO le y z) : leO le x z := by
  cases x with
  | none => trivial
  | some a =>
    cases y with
    | none => exact absurd h1 (by simp [leO])
    | some b =>
      cases z with
      | none => exact absurd h2 (by simp [leO])
      | some c => exact ht a b c h1 h2

/-- the operations do not fail on the reachable locations -/
structure Total (P : FPParams L S) (e : L) : Prop where
  succs : ∀ l, Reach P.succL e l → ∃ ss, P.succs l = .ok ss
  preds : ∀ l, Reach P.succL e l → ∃ ps, P.preds l = .ok ps
  trans : ∀ l, Reach P.succL e l → ∀ x, ∃ y, P.trans l x = .ok y
  join : ∀ a b, ∃ c, P.join a b = .ok c

theorem joinIn_total {P : FPParams L S} (hjoin : ∀ a b, ∃ c, P.join a b = .ok c) (st : List (L × S)) :
    ∀ (ps : List L) (acc : Option S), ∃ r, joinIn P st ps acc = .ok r := by
  intro ps
  induction ps with
  | nil => intro acc; exact ⟨acc, rfl⟩
  | cons p r ih =>
    intro acc
    simp only [joinIn]
    cases alGet st p with
    | none => exact ih acc
    | some v =>
      cases acc with
      | none => exact ih _
      | some a =>
        obtain ⟨c, hc⟩ := hjoin a v
        simp only [hc]
        exact ih _

/-- `partial_cmp` is the order `le` of the lattice, and `Greater` raises a rank bounded by `h` (finite height) -/
structure LawfulCmp (P : FPParams L S) (le : S → S → Prop) (rank : S → Nat) (h : Nat) : Prop where
  eq_eq : ∀ a b, P.cmp a b = some .eq → a = b
  ge : ∀ a b, le b a → P.cmp a b = some .eq ∨ P.cmp a b = some .gt
  gt_le : ∀ a b, P.cmp a b = some .gt → le b a
  gt_rank : ∀ a b, P.cmp a b = some .gt → rank b < rank a
  rank_le : ∀ s, rank s ≤ h

/-- invariant (e): every stored state is `trans l x` for an input `x` below the current input of `l` -/
def InvH (P : FPParams L S) (le : S → S → Prop) (st : List (L × S)) : Prop :=
  ∀ l v, alGet st l = some v → ∃ x, P.trans l x = .ok v ∧
    ∀ ps r, P.preds l = .ok ps → joinIn P st ps none = .ok r → leO le x r

theorem InvH.init (P : FPParams L S) (le : S → S → Prop) : InvH P le [] := by
  intro l v h; simp [alGet] at h

theorem InvH.step {P : FPParams L S} {le : S → S → Prop} (hj : JoinLub P le)
    (hgtle : ∀ a b, P.cmp a b = some .gt → le b a) (hjoin : ∀ a b, ∃ c, P.join a b = .ok c)
    {st : List (L × S)} {l : L} {q : List L} {st' : List (L × S)} {q' : List L}
    (hI : InvH P le st) (hs : fpStep P false st l q = .next st' q') : InvH P le st' := by
  obtain ⟨ps, inS, s, hp, hjn, ht, hcase⟩ := fpStep_next hs
  rcases hcase with ⟨old, hold, _, hst', hq'⟩ | ⟨ss, s', hss, hst', hq', hs'⟩
  · subst st' q'; exact hI
  · subst st' q'
    have hs'' : s' = s ∧ ∀ old, alGet st l = some old → le old s := by
      rcases hs' with ⟨hnone, rfl⟩ | ⟨old, hold, _, ⟨hf, _⟩ | ⟨_, hc, rfl⟩⟩
      · exact ⟨rfl, by intro old ho; rw [hnone] at ho; cases ho⟩
      · cases hf
      · refine ⟨rfl, ?_⟩
        intro o ho
        rw [hold] at ho
        simp only [Option.some.injEq] at ho
        subst ho
        exact hgtle _ _ hc
    obtain ⟨rfl, hold_le⟩ := hs''
    -- the map only grew
    have hpw : ∀ k v, alGet st k = some v → ∃ v', alGet (alSet st l s') k = some v' ∧ le v v' := by
      intro k v hk
      rw [alGet_alSet]
      by_cases hkl : k = l
      · subst hkl
        exact ⟨s', by simp, hold_le v hk⟩
      · exact ⟨v, by simp [hkl, hk], hj.refl v⟩
    intro k v hk
    rw [alGet_alSet] at hk
    by_cases hkl : k = l
    · subst hkl
      simp only [↓reduceIte, Option.some.injEq] at hk
      subst hk
      refine ⟨inS, ht, ?_⟩
      intro ps' r hp' hr
      rw [hp] at hp'
      simp only [Res.ok.injEq] at hp'
      subst hp'
      exact joinIn_mono hj hpw ps none none inS r trivial hjn hr
    · simp only [hkl, ↓reduceIte] at hk
      obtain ⟨x, hx, hall⟩ := hI k v hk
      refine ⟨x, hx, ?_⟩
      intro psk r' hpk hr'
      obtain ⟨r, hr⟩ := joinIn_total hjoin st psk none
      exact leO_trans hj.trans (hall psk r hpk hr) (joinIn_mono hj hpw psk none none r r' trivial hr hr')

/-- the monotone loop answers a map or runs out of fuel, nothing else -/
theorem fpLoop_mono_ok {P : FPParams L S} {e : L} {le : S → S → Prop} (hj : JoinLub P le) (hm : Mono P le)
    (hcmp : ∀ a b, le b a → P.cmp a b = some .eq ∨ P.cmp a b = some .gt)
    (hgtle : ∀ a b, P.cmp a b = some .gt → le b a) (htot : Total P e) :
    ∀ (n : Nat) (st : List (L × S)) (q : List L), InvK P e st q → InvH P le st →
      fpLoop P false n st q = .maxSteps ∨ ∃ out, fpLoop P false n st q = .ok out := by
  intro n
  induction n with
  | zero =>
    intro st q _ _
    cases q with
    | nil => exact Or.inr ⟨st, rfl⟩
    | cons l q => exact Or.inl rfl
  | succ n ih =>
    intro st q hK hH
    cases q with
    | nil => exact Or.inr ⟨st, rfl⟩
    | cons l q =>
      have hrl : Reach P.succL e l := hK.reach l (Or.inr (by simp))
      obtain ⟨ps, hp⟩ := htot.preds l hrl
      obtain ⟨inS, hjn⟩ := joinIn_total htot.join st ps none
      obtain ⟨s, ht⟩ := htot.trans l hrl inS
      obtain ⟨ss, hss⟩ := htot.succs l hrl
      have hnext : ∃ st' q', fpStep P false st l q = .next st' q' := by
        cases hg : alGet st l with
        | none => exact ⟨alSet st l s, pushAll q ss, by simp [fpStep, fpStore, hp, hjn, ht, hg, hss]⟩
        | some old =>
          obtain ⟨x, hx, hall⟩ := hH l old hg
          have hle : le old s := hm l x inS old s hx ht (hall ps inS hp hjn)
          rcases hcmp s old hle with hc | hc
          · exact ⟨st, q, by simp [fpStep, hp, hjn, ht, hg, hc]⟩
          · exact ⟨alSet st l s, pushAll q ss, by simp [fpStep, fpStore, hp, hjn, ht, hg, hc, hss]⟩
      obtain ⟨st', q', hs⟩ := hnext
      simp only [fpLoop, hs]
      exact ih st' q' (hK.step hs) (hH.step hj hgtle htot.join hs)

end
end Falcon
