/-
  FalconProofs.C20.Lemmas — the one helper lemma of property C20 (everything else is kernel evaluation).
-/
import FalconModel.Abi

namespace Falcon.C20
open Falcon.Abi

/-- where the ABI has a single argument sequence, "integer sequence then SIMD sequence" is the full clause -/
theorem argsIntThenFp_of_inAbiOrder {d : ArchDesc} {a : AbiSpec} (h : a.fpArgs = [])
    (h' : ArgsInAbiOrder d a) : ArgsIntThenFp d a := by
  unfold ArgsIntThenFp; rw [h, List.append_nil]; exact h'

end Falcon.C20
