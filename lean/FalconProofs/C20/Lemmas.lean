/-
  FalconProofs.C20.Lemmas — the two helper lemmas of property C20 (everything else is kernel evaluation).
-/
import FalconModel.Abi

namespace Falcon.C20
open Falcon.Abi

/-- where the ABI has a single argument sequence, "integer sequence then SIMD sequence" is the full clause -/
theorem argsIntThenFp_of_inAbiOrder {d : ArchDesc} {a : AbiSpec} (h : a.fpArgs = [])
    (h' : ArgsInAbiOrder d a) : ArgsIntThenFp d a := by
  unfold ArgsIntThenFp; rw [h, List.append_nil]; exact h'

/-- the same for the answers of `argument_type` -/
theorem argTypesIntThenFp_of_abi {d : ArchDesc} {a : AbiSpec} (h : a.fpArgs = [])
    (h' : ArgTypesAbi d a) : ArgTypesIntThenFp d a := by
  unfold ArgTypesIntThenFp; rw [h, List.append_nil]; exact h'

end Falcon.C20
