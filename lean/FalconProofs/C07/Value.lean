/-
  FalconProofs.C07.Value — `State::symbolize_and_eval` computes the specification's `value` on every typed
  expression (all trees, all widths), and the value has the expression's width.
-/
import FalconModel.Sem
import FalconProofs.C04.Eval

namespace Falcon
namespace C07
open Sem Const

theorem good_of_constOK {c : Const} (h : ConstOK c) : c.Good := ⟨h.1, h.2.1, h.2.2⟩

/-- widths of typed expressions are between 1 and `usize::MAX` -/
theorem typed_bits {σ : State} : ∀ (e : Expr), TypedE σ e → 1 ≤ e.bits ∧ e.bits < 2 ^ 64
  | .scalar _, h => ⟨h.1, h.2.1⟩
  | .const _, h => ⟨h.2.1, h.2.2⟩
  | .bin op l _, h => by
      have := typed_bits l h.1
      simp only [Expr.bits]
      split
      · exact ⟨Nat.le_refl 1, by decide⟩
      · exact this
  | .ext _ _ _, h => ⟨h.2.1, h.2.2.1⟩
  | .ite _ t _, h => typed_bits t h.2.1

theorem Spec.binBV_bits {n : Nat} (op : BinOp) (x y : BitVec n) (c : Const)
    (h : Spec.binBV op x y = some c) : c.bits = if op.isCmp then 1 else n := by
  cases op <;> simp only [Spec.binBV] at h
  all_goals first
    | (injection h with h; subst h; simp [BinOp.isCmp])
    | (split at h
       · cases h
       · injection h with h; subst h; simp [BinOp.isCmp])

theorem Spec.bin_bits (op : BinOp) (a b c : Const) (h : Spec.bin op a b = .ok c) :
    c.bits = if op.isCmp then 1 else a.bits := by
  unfold Spec.bin at h
  split at h
  · split at h
    · rename_i c' hc
      injection h with h; subst h
      exact Spec.binBV_bits op _ _ _ hc
    · cases h
  · cases h

theorem Spec.ext_bits (op : ExtOp) (a c : Const) (m : Nat) (h : Spec.ext op a m = .ok c) : c.bits = m := by
  cases op <;> simp only [Spec.ext] at h <;> split at h <;> first
    | (cases h; rfl)
    | cases h

/-- the invariant carried through the induction -/
structure SymOK (σ : State) (e e' : Expr) : Prop where
  bits : e'.bits = e.bits
  eval : e'.eval = value σ e
  good : ∀ c, value σ e = .ok c → c.Good ∧ c.bits = e.bits

theorem symbolize_typed (σ : State) : ∀ (e : Expr), TypedE σ e → ∃ e', σ.symbolize e = .ok e' ∧ SymOK σ e e'
  | .scalar s, h => by
      obtain ⟨h1, h2, h3⟩ := h
      unfold HoldsOK at h3
      cases hg : σ.get s.name with
      | none =>
        refine ⟨.scalar s, by simp [State.symbolize, hg], rfl, by simp [Expr.eval, value, hg], ?_⟩
        intro c hc; simp [value, hg] at hc
      | some c =>
        rw [hg] at h3
        refine ⟨.const c, by simp [State.symbolize, hg], h3.1, by simp [Expr.eval, value, hg], ?_⟩
        intro c' hc
        simp only [value, hg, Res.ok.injEq] at hc
        subst hc
        exact ⟨⟨h3.2, by rw [h3.1]; exact h1, by rw [h3.1]; exact h2⟩, h3.1⟩
  | .const c, h =>
      ⟨.const c, rfl, rfl, rfl, fun c' hc => by
        simp only [value, Res.ok.injEq] at hc; subst hc; exact ⟨good_of_constOK h, rfl⟩⟩
  | .bin op l r, h => by
      obtain ⟨hl, hr, hb⟩ := h
      obtain ⟨l', sl, kl⟩ := symbolize_typed σ l hl
      obtain ⟨r', sr, kr⟩ := symbolize_typed σ r hr
      have hmk : Expr.mkBin op l' r' = .ok (.bin op l' r') := by
        simp [Expr.mkBin, kl.bits, kr.bits, hb]
      refine ⟨.bin op l' r', by simp [State.symbolize, sl, sr, hmk], ?_, ?_, ?_⟩
      · simp [Expr.bits, kl.bits]
      · simp only [Expr.eval, value, kl.eval, kr.eval]
        cases hvl : value σ l with
        | err k => rfl
        | panic => rfl
        | ok a =>
          cases hvr : value σ r with
          | err k => rfl
          | panic => rfl
          | ok b =>
            simp only [Res.bind_ok]
            exact apply_eq_spec op a b (kl.good a hvl).1 (kr.good b hvr).1
      · intro c hc
        simp only [value] at hc
        cases hvl : value σ l with
        | err k => rw [hvl] at hc; cases hc
        | panic => rw [hvl] at hc; cases hc
        | ok a =>
          cases hvr : value σ r with
          | err k => rw [hvl, hvr] at hc; cases hc
          | panic => rw [hvl, hvr] at hc; cases hc
          | ok b =>
            rw [hvl, hvr] at hc
            simp only [Res.bind_ok] at hc
            refine ⟨Spec.bin_good op a b c (kl.good a hvl).1 hc, ?_⟩
            rw [Spec.bin_bits op a b c hc, (kl.good a hvl).2]
            simp [Expr.bits]
  | .ext op m e, h => by
      obtain ⟨he, hm1, hm2, hx⟩ := h
      obtain ⟨e', se, ke⟩ := symbolize_typed σ e he
      have hpos := (typed_bits e he).1
      have hmk : Expr.mkExt op m e' = .ok (.ext op m e') := by
        cases op <;> simp only [ExtOK] at hx <;> simp [Expr.mkExt, ke.bits] <;> omega
      refine ⟨.ext op m e', by simp [State.symbolize, se, hmk], rfl, ?_, ?_⟩
      · simp only [Expr.eval, value, ke.eval]
        cases hv : value σ e with
        | err k => rfl
        | panic => rfl
        | ok a =>
          simp only [Res.bind_ok]
          exact ext_eq_spec op a m (ke.good a hv).1
      · intro c hc
        simp only [value] at hc
        cases hv : value σ e with
        | err k => rw [hv] at hc; cases hc
        | panic => rw [hv] at hc; cases hc
        | ok a =>
          rw [hv] at hc
          simp only [Res.bind_ok] at hc
          exact ⟨Spec.ext_good op a c m hm1 hm2 hc, by rw [Spec.ext_bits op a c m hc]; rfl⟩
  | .ite c t e, h => by
      obtain ⟨hc, ht, he, hc1, hte⟩ := h
      obtain ⟨c', sc, kc⟩ := symbolize_typed σ c hc
      obtain ⟨t', st, kt⟩ := symbolize_typed σ t ht
      obtain ⟨e', se, ke⟩ := symbolize_typed σ e he
      have hmk : Expr.mkIte c' t' e' = .ok (.ite c' t' e') := by
        simp [Expr.mkIte, kc.bits, kt.bits, ke.bits, hc1, hte]
      refine ⟨.ite c' t' e', by simp [State.symbolize, sc, st, se, hmk], ?_, ?_, ?_⟩
      · simp [Expr.bits, kt.bits]
      · simp only [Expr.eval, value, kc.eval]
        cases hv : value σ c with
        | err k => rfl
        | panic => rfl
        | ok cv =>
          simp only [Res.bind_ok, Const.isOne, beq_iff_eq]
          by_cases h1 : cv.val = 1
          · simp only [h1, ↓reduceIte]; exact kt.eval
          · simp only [h1, ↓reduceIte]; exact ke.eval
      · intro x hx
        simp only [value] at hx
        cases hv : value σ c with
        | err k => rw [hv] at hx; cases hx
        | panic => rw [hv] at hx; cases hx
        | ok cv =>
          rw [hv] at hx
          simp only [Res.bind_ok] at hx
          by_cases h1 : cv.val = 1
          · simp only [h1, ↓reduceIte] at hx
            have := kt.good x hx
            exact ⟨this.1, by simp [Expr.bits, this.2]⟩
          · simp only [h1, ↓reduceIte] at hx
            have := ke.good x hx
            exact ⟨this.1, by simp [Expr.bits, this.2, hte]⟩

/-- **`symbolize_and_eval` = the meaning of the expression in the state**, for every typed expression -/
theorem evalIn_eq_value {σ : State} {e : Expr} (h : TypedE σ e) : σ.evalIn e = value σ e := by
  obtain ⟨e', se, k⟩ := symbolize_typed σ e h
  simp [State.evalIn, se, k.eval]

theorem value_good {σ : State} {e : Expr} (h : TypedE σ e) {c : Const} (hv : value σ e = .ok c) :
    c.Good ∧ c.bits = e.bits := by
  obtain ⟨e', _, k⟩ := symbolize_typed σ e h
  exact k.good c hv

/-- a typed expression never makes the evaluator panic, and never gives a sort error -/
theorem value_no_panic {σ : State} : ∀ (e : Expr), TypedE σ e → value σ e ≠ .panic ∧ value σ e ≠ .err .sort
  | .scalar s, _ => by
      simp only [value]; cases σ.get s.name <;> simp
  | .const _, _ => by simp [value]
  | .bin op l r, h => by
      obtain ⟨hl, hr, hb⟩ := h
      have il := value_no_panic l hl
      have ir := value_no_panic r hr
      simp only [value]
      cases hvl : value σ l with
      | panic => exact absurd hvl il.1
      | err k => refine ⟨by simp, ?_⟩; intro hk; injection hk with hk; subst hk; exact il.2 hvl
      | ok a =>
        cases hvr : value σ r with
        | panic => exact absurd hvr ir.1
        | err k => refine ⟨by simp, ?_⟩; intro hk; injection hk with hk; subst hk; exact ir.2 hvr
        | ok b =>
          simp only [Res.bind_ok]
          have hab : a.bits = b.bits := by rw [(value_good hl hvl).2, (value_good hr hvr).2, hb]
          unfold Spec.bin
          rw [dif_pos hab]
          split <;> simp
  | .ext op m e, h => by
      obtain ⟨he, hm1, hm2, hx⟩ := h
      have ie := value_no_panic e he
      simp only [value]
      cases hv : value σ e with
      | panic => exact absurd hv ie.1
      | err k => refine ⟨by simp, ?_⟩; intro hk; injection hk with hk; subst hk; exact ie.2 hv
      | ok a =>
        simp only [Res.bind_ok]
        have ha : a.bits = e.bits := (value_good he hv).2
        cases op <;> simp only [ExtOK] at hx <;> simp only [Spec.ext] <;> split <;> simp <;> omega
  | .ite c t e, h => by
      obtain ⟨hc, ht, he, _, _⟩ := h
      have ic := value_no_panic c hc
      simp only [value]
      cases hv : value σ c with
      | panic => exact absurd hv ic.1
      | err k => refine ⟨by simp, ?_⟩; intro hk; injection hk with hk; subst hk; exact ic.2 hv
      | ok cv =>
        simp only [Res.bind_ok]
        split
        · exact value_no_panic t ht
        · exact value_no_panic e he

end C07
end Falcon
