/-
  FalconProofs.C07.Step — `Driver::step` refines `Sem.Step` on well-formed programs, in both directions;
  invariants preserved by a step.
-/
import FalconProofs.C07.Typing

namespace Falcon
namespace C07
open Sem Drv

/-- the premise of the property, for a program -/
structure Premise (Γ : Ctx) (P : Program) : Prop where
  typed : ProgTyped Γ P
  wf : WFProg P
  guards : GuardsOK Γ P

section
variable {Γ : Ctx} {P : Program}

theorem Premise.op (hp : Premise Γ P) {σ : State} (hs : StateTyped Γ σ) {fi : Nat} {f : Function} {b : Block}
    {bi : Nat} {i : Instr} (hf : P.function fi = some f) (hb : f.block bi = some b) (hi : i ∈ b.instrs) :
    TypedOp σ i.op ∧ TypedOpΓ Γ i.op :=
  have h := (hp.typed f (function_mem hf).1).1 b (block_mem hb).1 i hi
  ⟨typedOp_of_ctx hs h, h⟩

theorem Premise.guardsAt (hp : Premise Γ P) {σ : State} (hs : StateTyped Γ σ) {fi : Nat} {f : Function} {b : Block}
    {bi : Nat} (hf : P.function fi = some f) (hb : f.block bi = some b) :
    GuardsOKAt σ (f.cfg.edgesOut b.index) ∧ ∀ e ∈ f.cfg.edgesOut b.index, TypedGuard σ e.cond :=
  ⟨hp.guards f (function_mem hf).1 b (block_mem hb).1 σ hs,
   fun e he => typedGuard_of_ctx hs ((hp.typed f (function_mem hf).1).2 e (edgesOut_mem he).1)⟩

/-- the shape of `instruction_forward`'s answer at position `k` -/
theorem instrForward_at (hp : Premise Γ P) {fi : Nat} {f : Function} {b : Block} {bi k : Nat} {i : Instr}
    (hf : P.function fi = some f) (hb : f.block bi = some b) (hk : b.instrs[k]? = some i) :
    instrForward f b i =
      .ok (match b.instrs[k + 1]? with | some j => .next j | none => .edges (f.cfg.edgesOut b.index)) :=
  forwardIn_spec _ (hp.wf f (function_mem hf).1 b (block_mem hb).1) hk

/-- **soundness**: every step the executor makes is a step of the semantics -/
theorem step_sound (hp : Premise Γ P) {l : Loc} {σ : State} (hs : StateTyped Γ σ) (hl : LocOK P l)
    {d' : Loc × State} (h : step P (l, σ) = .ok d') : Step P (l, σ) d' := by
  unfold step at h
  split at h
  · cases h
  · cases h
  · -- instruction
    rename_i f b i ha
    obtain ⟨fi, bi, idx, h1, h2, h3, h4, h5⟩ := apply_instr ha
    obtain ⟨k, hk⟩ := pos_of_instruction h5
    have hbi := (block_mem h4).2
    have hidx := (instruction_mem h5).2
    have hat : AtInstr P l f b k i := ⟨⟨fi, h1, h2⟩, by rw [hbi]; exact h4, hk, by rw [h3, hbi, hidx]⟩
    have hty := (hp.op hs h2 h4 (instruction_mem h5).1)
    split at h
    · cases h
    · cases h
    · -- fall through
      rename_i σ' hex
      have hos : OpSem σ i.op σ' .fallThrough :=
        (opSem_iff _ _ _ _).1 ((execute_eq_opSem _ _ hty.1 _).1 hex)
      have hs' : StateTyped Γ σ' := stateTyped_opSem hs hty.2 hos
      rw [instrForward_at hp h2 h4 hk] at h
      cases hn : b.instrs[k + 1]? with
      | some j =>
        rw [hn] at h
        simp only [Res.ok.injEq] at h
        subst h
        exact .next hat hos hn
      | none =>
        rw [hn] at h
        simp only at h
        split at h
        · rename_i e hce
          simp only [Res.ok.injEq] at h
          subst h
          have hg := hp.guardsAt hs' h2 h4
          have := chooseEdge_sound hg.1 hg.2 hce
          have hlen : k + 1 = b.instrs.length := by
            have h1 := List.getElem?_eq_none_iff.1 hn
            have h2 : k < b.instrs.length := by
              rcases Nat.lt_or_ge k b.instrs.length with h | h
              · exact h
              · rw [List.getElem?_eq_none_iff.2 h] at hk; cases hk
            omega
          exact .last hat hos hlen this.1 this.2
        · cases h
        · cases h
    · -- branch
      rename_i σ' a hex
      have hos : OpSem σ i.op σ' (.branch a) :=
        (opSem_iff _ _ _ _).1 ((execute_eq_opSem _ _ hty.1 _).1 hex)
      split at h
      · rename_i l' hfa
        simp only [Res.ok.injEq] at h
        subst h
        exact .branch hat hos hfa
      · cases h
  · -- edge
    rename_i f e ha
    obtain ⟨fi, hd, tl, h1, h2, h3, h4⟩ := apply_edge ha
    split at h
    · rename_i l' hef
      simp only [Res.ok.injEq] at h
      subst h
      unfold edgeForward at hef
      split at hef
      · cases hef
      · rename_i b hb
        simp only [Res.ok.injEq] at hef
        subst hef
        exact .edge h1 h2 h3 h4 hb
    · cases h
    · cases h
  · -- empty block
    rename_i f b ha
    obtain ⟨fi, bi, h1, h2, h3, h4⟩ := apply_empty ha
    have hempty : b.instrs = [] := by
      unfold LocOK at hl
      rw [h3] at hl
      exact hl fi f b h1 h2 h4
    split at h
    · rename_i e hce
      simp only [Res.ok.injEq] at h
      subst h
      have hg := hp.guardsAt hs h2 h4
      have := chooseEdge_sound hg.1 hg.2 hce
      exact .empty h1 h2 h3 h4 hempty this.1 this.2
    · cases h
    · cases h

/-- **completeness**: every step of the semantics is the step the executor makes -/
theorem step_complete (hp : Premise Γ P) {l : Loc} {σ : State} (hs : StateTyped Γ σ)
    {d' : Loc × State} (h : Step P (l, σ) d') : step P (l, σ) = .ok d' := by
  cases h with
  | @next _ _ σ' f b k i j hat hos hn =>
    obtain ⟨⟨fi, h1, h2⟩, h4, hk, h3⟩ := hat
    have hwf := hp.wf f (function_mem h2).1 b (block_mem h4).1
    have ha := apply_of_instr h1 h2 h3 h4 (instruction_of_pos hwf hk)
    have hty := hp.op hs h2 h4 (List.mem_of_getElem? hk)
    have hex : execute σ i.op = .ok (σ', .fallThrough) :=
      (execute_eq_opSem _ _ hty.1 _).2 ((opSem_iff _ _ _ _).2 hos)
    simp only [step, ha, hex, instrForward_at hp h2 h4 hk, hn]
  | @last _ _ σ' f b k i e hat hos hlen he hg =>
    obtain ⟨⟨fi, h1, h2⟩, h4, hk, h3⟩ := hat
    have hwf := hp.wf f (function_mem h2).1 b (block_mem h4).1
    have ha := apply_of_instr h1 h2 h3 h4 (instruction_of_pos hwf hk)
    have hty := hp.op hs h2 h4 (List.mem_of_getElem? hk)
    have hex : execute σ i.op = .ok (σ', .fallThrough) :=
      (execute_eq_opSem _ _ hty.1 _).2 ((opSem_iff _ _ _ _).2 hos)
    have hs' : StateTyped Γ σ' := stateTyped_opSem hs hty.2 hos
    have hn : b.instrs[k + 1]? = none := List.getElem?_eq_none_iff.2 (by omega)
    have hgs := hp.guardsAt hs' h2 h4
    have hce := chooseEdge_complete hgs.1 hgs.2 he hg
    simp only [step, ha, hex, instrForward_at hp h2 h4 hk, hn, hce]
  | @branch _ l' _ σ' f b k i a hat hos hfa =>
    obtain ⟨⟨fi, h1, h2⟩, h4, hk, h3⟩ := hat
    have hwf := hp.wf f (function_mem h2).1 b (block_mem h4).1
    have ha := apply_of_instr h1 h2 h3 h4 (instruction_of_pos hwf hk)
    have hty := hp.op hs h2 h4 (List.mem_of_getElem? hk)
    have hex : execute σ i.op = .ok (σ', .branch a) :=
      (execute_eq_opSem _ _ hty.1 _).2 ((opSem_iff _ _ _ _).2 hos)
    simp only [step, ha, hex, hfa]
  | @edge _ _ fi f hd tl e b h1 h2 h3 h4 hb =>
    have ha := apply_of_edge h1 h2 h3 h4
    simp only [step, ha, edgeForward, hb]
  | @empty _ _ fi f bi b e h1 h2 h3 h4 hempty he hg =>
    have ha := apply_of_empty h1 h2 h3 h4
    have hgs := hp.guardsAt hs h2 h4
    have hce := chooseEdge_complete hgs.1 hgs.2 he hg
    simp only [step, ha, hce]

/-! ### invariants -/

theorem locOK_blockEntry {f : Function} {e : Edge} {b : Block} {fi : Nat} (hf : P.function fi = some f)
    (hb : f.block e.tail = some b) : LocOK P ⟨f.index, blockEntry b⟩ := by
  unfold LocOK blockEntry
  cases hi : b.instrs with
  | nil =>
    simp only
    intro fi' f' b' h1 h2 h3
    have := (function_mem hf).2
    rw [this] at h1
    cases h1
    rw [hf] at h2
    cases h2
    rw [(block_mem hb).2, hb] at h3
    cases h3
    exact hi
  | cons x xs => trivial

/-- a step keeps the state typed and the location well-formed -/
theorem step_invariant (hp : Premise Γ P) {l : Loc} {σ : State} (hs : StateTyped Γ σ)
    {d' : Loc × State} (h : Step P (l, σ) d') : StateTyped Γ d'.2 ∧ LocOK P d'.1 := by
  cases h with
  | next hat hos hn =>
    obtain ⟨⟨fi, h1, h2⟩, h4, hk, h3⟩ := hat
    exact ⟨stateTyped_opSem hs (hp.op hs h2 h4 (List.mem_of_getElem? hk)).2 hos, trivial⟩
  | last hat hos hlen he hg =>
    obtain ⟨⟨fi, h1, h2⟩, h4, hk, h3⟩ := hat
    exact ⟨stateTyped_opSem hs (hp.op hs h2 h4 (List.mem_of_getElem? hk)).2 hos, trivial⟩
  | @branch _ l' _ σ' f b k i a hat hos hfa =>
    obtain ⟨⟨fi, h1, h2⟩, h4, hk, h3⟩ := hat
    refine ⟨stateTyped_opSem hs (hp.op hs h2 h4 (List.mem_of_getElem? hk)).2 hos, ?_⟩
    -- `from_address` only answers instruction locations
    have hpos : ∀ {a : Nat} {f : Function} {l : Loc}, findInFunction a f = some l → ∃ bi ii, l.pos = .instr bi ii := by
      intro a f l h
      unfold findInFunction at h
      obtain ⟨b, _, hb⟩ := List.exists_of_findSome?_eq_some h
      cases hfb : findInBlock a b with
      | none => rw [hfb] at hb; cases hb
      | some i => rw [hfb] at hb; cases hb; exact ⟨_, _, rfl⟩
    have : ∃ bi ii, l'.pos = .instr bi ii := by
      unfold fromAddress at hfa
      split at hfa
      · rename_i l'' hl
        cases hfa
        cases hc : closest a P.functions none with
        | none => rw [hc] at hl; cases hl
        | some g => rw [hc] at hl; exact hpos hl
      · obtain ⟨g, _, hg⟩ := List.exists_of_findSome?_eq_some hfa
        exact hpos hg
    obtain ⟨bi, ii, hp'⟩ := this
    unfold LocOK
    rw [hp']
    trivial
  | @edge _ _ fi f hd tl e b h1 h2 h3 h4 hb => exact ⟨hs, locOK_blockEntry h2 hb⟩
  | empty h1 h2 h3 h4 hempty he hg => exact ⟨hs, trivial⟩

end

end C07
end Falcon
