/-
  FalconProofs.C07.Extra — which errors can occur at all on typed programs; state changes only through
  `execute`; `err:noedge` at the level of `Driver::step`.
-/
import FalconProofs.C07.Step

namespace Falcon
namespace C07
open Sem Drv

theorem Spec.bin_err_kinds (op : BinOp) (a b : Const) (k : Err) (h : Spec.bin op a b = .err k) :
    k = .sort ∨ k = .div0 := by
  unfold Spec.bin at h
  split at h
  · split at h
    · cases h
    · injection h with h; exact .inr h.symm
  · injection h with h; exact .inl h.symm

theorem Spec.ext_err_kinds (op : ExtOp) (a : Const) (m : Nat) (k : Err) (h : Spec.ext op a m = .err k) :
    k = .sort := by
  cases op <;> simp only [Spec.ext] at h <;> split at h <;> first
    | (injection h with h; exact h.symm)
    | cases h

/-- a typed expression without value lacks it for one of two reasons: an undefined scalar or a zero divisor -/
theorem value_err_kinds {σ : State} : ∀ (e : Expr), TypedE σ e → ∀ k, value σ e = .err k → k = .scalar ∨ k = .div0
  | .scalar s, _, k, h => by
      simp only [value] at h
      cases hg : σ.get s.name with
      | none => rw [hg] at h; injection h with h; exact .inl h.symm
      | some c => rw [hg] at h; cases h
  | .const _, _, k, h => by simp [value] at h
  | .bin op l r, ht, k, h => by
      have hns := (value_no_panic _ ht).2
      have il := value_err_kinds l ht.1
      have ir := value_err_kinds r ht.2.1
      simp only [value] at h hns
      cases hvl : value σ l with
      | panic => rw [hvl] at h; cases h
      | err k' => rw [hvl] at h; injection h with h; subst h; exact il _ hvl
      | ok a =>
        cases hvr : value σ r with
        | panic => rw [hvl, hvr] at h; cases h
        | err k' => rw [hvl, hvr] at h; injection h with h; subst h; exact ir _ hvr
        | ok b =>
          rw [hvl, hvr] at h hns
          simp only [Res.bind_ok] at h hns
          rcases Spec.bin_err_kinds op a b k h with rfl | rfl
          · exact absurd h hns
          · exact .inr rfl
  | .ext op m e, ht, k, h => by
      have hns := (value_no_panic _ ht).2
      have ie := value_err_kinds e ht.1
      simp only [value] at h hns
      cases hv : value σ e with
      | panic => rw [hv] at h; cases h
      | err k' => rw [hv] at h; injection h with h; subst h; exact ie _ hv
      | ok a =>
        rw [hv] at h hns
        simp only [Res.bind_ok] at h hns
        have := Spec.ext_err_kinds op a m k h
        subst this
        exact absurd h hns
  | .ite c t e, ht, k, h => by
      have ic := value_err_kinds c ht.1
      have it := value_err_kinds t ht.2.1
      have ie := value_err_kinds e ht.2.2.1
      simp only [value] at h
      cases hv : value σ c with
      | panic => rw [hv] at h; cases h
      | err k' => rw [hv] at h; injection h with h; subst h; exact ic _ hv
      | ok cv =>
        rw [hv] at h
        simp only [Res.bind_ok] at h
        split at h
        · exact it _ h
        · exact ie _ h

/-- on a typed operation `execute` reports only the four error kinds the property names -/
theorem execute_err_kinds (σ : State) (op : Op) (ht : TypedOp σ op) (k : Err) (h : execute σ op = .err k) :
    k = .scalar ∨ k = .div0 ∨ k = .unmapped ∨ k = .intrinsic := by
  rw [execute_typed σ op ht] at h
  have lift : ∀ {e : Expr}, TypedE σ e → value σ e = .err k → k = .scalar ∨ k = .div0 ∨ k = .unmapped ∨ k = .intrinsic :=
    fun hte hv => (value_err_kinds _ hte k hv).elim .inl (fun h => .inr (.inl h))
  cases op with
  | assign dst src =>
    simp only at h
    cases hv : value σ src with
    | ok v => rw [hv] at h; cases h
    | panic => rw [hv] at h; cases h
    | err k' => rw [hv] at h; injection h with h; subst h; exact lift ht.1 hv
  | store index src =>
    simp only at h
    cases hv : value σ src with
    | panic => rw [hv] at h; cases h
    | err k' => rw [hv] at h; injection h with h; subst h; exact lift ht.2.1 hv
    | ok v =>
      cases hi : value σ index with
      | panic => rw [hv, hi] at h; cases h
      | err k' => rw [hv, hi] at h; injection h with h; subst h; exact lift ht.1 hi
      | ok i =>
        rw [hv, hi] at h
        simp only at h
        split at h <;> cases h
  | load dst index =>
    simp only at h
    cases hi : value σ index with
    | panic => rw [hi] at h; cases h
    | err k' => rw [hi] at h; injection h with h; subst h; exact lift ht.1 hi
    | ok i =>
      rw [hi] at h
      simp only at h
      split at h
      · cases h
      · split at h
        · cases h
        · injection h with h; exact .inr (.inr (.inl h.symm))
  | branch t =>
    simp only at h
    cases hv : value σ t with
    | ok v => rw [hv] at h; cases h
    | panic => rw [hv] at h; cases h
    | err k' => rw [hv] at h; injection h with h; subst h; exact lift ht.1 hv
  | intrinsic i => simp only at h; injection h with h; exact .inr (.inr (.inr h.symm))
  | nop => cases h

/-- a step changes the state only by executing the operation at the location: moves along edges, out of
    empty blocks and to branch targets keep the state of the (executed) operation -/
theorem step_state (P : Program) (l l' : Loc) (σ σ' : State) (h : step P (l, σ) = .ok (l', σ')) :
    σ' = σ ∨ ∃ f b i s, apply P l = .ok (.instr f b i) ∧ execute σ i.op = .ok (σ', s) := by
  unfold step at h
  split at h
  · cases h
  · cases h
  · rename_i f b i ha
    right
    split at h
    · cases h
    · cases h
    · rename_i σ'' hex
      split at h
      · cases h
      · cases h
      · simp only [Res.ok.injEq, Prod.mk.injEq] at h
        exact ⟨f, b, i, _, ha, by rw [← h.2]; exact hex⟩
      · split at h
        · simp only [Res.ok.injEq, Prod.mk.injEq] at h
          exact ⟨f, b, i, _, ha, by rw [← h.2]; exact hex⟩
        · cases h
        · cases h
    · rename_i σ'' a hex
      split at h
      · simp only [Res.ok.injEq, Prod.mk.injEq] at h
        exact ⟨f, b, i, _, ha, by rw [← h.2]; exact hex⟩
      · cases h
  · left
    split at h
    · simp only [Res.ok.injEq, Prod.mk.injEq] at h; exact h.2.symm
    · cases h
    · cases h
  · left
    split at h
    · simp only [Res.ok.injEq, Prod.mk.injEq] at h; exact h.2.symm
    · cases h
    · cases h

theorem chooseEdge_noedge (σ : State) (es : List Edge) (h2 : es.length ≠ 1) (hf : ∀ e ∈ es, evFalse σ e) :
    chooseEdge σ es = .err .noedge := by
  match es, h2 with
  | [], _ => rfl
  | [x], h => exact absurd rfl h
  | x :: y :: zs, _ => exact firstEnabled_none hf

/-- an empty block none of whose (zero, or two and more) out-edge guards is one: `err:noedge` -/
theorem step_noedge_empty (P : Program) (l : Loc) (σ : State) (f : Function) (b : Block)
    (ha : apply P l = .ok (.empty f b)) (h2 : (f.cfg.edgesOut b.index).length ≠ 1)
    (hf : ∀ e ∈ f.cfg.edgesOut b.index, evFalse σ e) : step P (l, σ) = .err .noedge := by
  simp only [step, ha, chooseEdge_noedge σ _ h2 hf]

/-- the last instruction of a block, none of whose out-edge guards is one in the new state: `err:noedge`,
    and the new state is NOT returned -/
theorem step_noedge_last (P : Program) (l : Loc) (σ σ' : State) (f : Function) (b : Block) (i : Instr)
    (ha : apply P l = .ok (.instr f b i)) (hex : execute σ i.op = .ok (σ', .fallThrough))
    (hfw : instrForward f b i = .ok (.edges (f.cfg.edgesOut b.index)))
    (h2 : (f.cfg.edgesOut b.index).length ≠ 1)
    (hf : ∀ e ∈ f.cfg.edgesOut b.index, evFalse σ' e) : step P (l, σ) = .err .noedge := by
  simp only [step, ha, hex, hfw, chooseEdge_noedge σ' _ h2 hf]

end C07
end Falcon
