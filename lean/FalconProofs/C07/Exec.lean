/-
  FalconProofs.C07.Exec — `State::execute` against `OpSem`: soundness, completeness, frame, error kinds.
-/
import FalconProofs.C07.Value

namespace Falcon
namespace C07
open Sem Drv

/-! ### scalars: `set` / `get` -/

theorem lookup_filter_ne (x y : String) (h : y ≠ x) :
    ∀ l : List (String × Const), List.lookup y (l.filter (fun p => p.1 != x)) = List.lookup y l
  | [] => rfl
  | (k, v) :: l => by
      by_cases hk : k = x
      · subst hk
        have hyk : (y == k) = false := by simpa using h
        simp [List.filter, List.lookup, hyk, lookup_filter_ne k y h l]
      · have : (k != x) = true := by simpa using hk
        simp only [List.filter, this, List.lookup]
        rw [lookup_filter_ne x y h l]

theorem get_set (σ : State) (x y : String) (v : Const) :
    (σ.set x v).get y = if y = x then some v else σ.get y := by
  unfold State.set State.get
  by_cases h : y = x
  · subst h; simp [List.lookup]
  · have : (y == x) = false := by simpa using h
    simp only [List.lookup, this, h, ↓reduceIte]
    exact lookup_filter_ne x y h σ.scalars

theorem get_set_self (σ : State) (x : String) (v : Const) : (σ.set x v).get x = some v := by
  rw [get_set]; simp

theorem get_set_ne (σ : State) {x y : String} (v : Const) (h : y ≠ x) : (σ.set x v).get y = σ.get y := by
  rw [get_set]; simp [h]

@[simp] theorem set_mem (σ : State) (x : String) (v : Const) : (σ.set x v).mem = σ.mem := rfl
@[simp] theorem set_endian (σ : State) (x : String) (v : Const) : (σ.set x v).endian = σ.endian := rfl

/-! ### memory: `write` / `readBytes` -/

theorem write_outside (m : ByteMem) (a : Nat) (bs : List UInt8) (x : Nat) (h : x < a ∨ a + bs.length ≤ x) :
    m.write a bs x = m x := by
  unfold ByteMem.write
  rw [if_neg]; omega

theorem write_inside (m : ByteMem) (a : Nat) (bs : List UInt8) (j : Nat) (h : j < bs.length) :
    m.write a bs (a + j) = bs[j]? := by
  unfold ByteMem.write
  rw [if_pos ⟨by omega, by omega⟩]
  congr 1; omega

theorem readBytes_none_iff (m : ByteMem) : ∀ (k a : Nat), m.readBytes a k = none ↔ ∃ j, j < k ∧ m (a + j) = none
  | 0, a => by simp [ByteMem.readBytes]
  | k + 1, a => by
      simp only [ByteMem.readBytes]
      cases hm : m a with
      | none =>
        simp only [Option.bind_eq_bind, Option.bind_none, true_iff]
        exact ⟨0, by omega, by simpa using hm⟩
      | some b =>
        simp only [Option.bind_eq_bind, Option.bind_some]
        cases hr : m.readBytes (a + 1) k with
        | none =>
          simp only [Option.bind_none, true_iff]
          obtain ⟨j, hj, hmj⟩ := (readBytes_none_iff m k (a + 1)).1 hr
          exact ⟨j + 1, by omega, by rw [← hmj]; congr 1; omega⟩
        | some bs =>
          simp only [Option.bind_some, Option.pure_def, reduceCtorEq, false_iff, not_exists, not_and]
          intro j hj
          cases j with
          | zero => simp [hm]
          | succ j =>
            have hne : m.readBytes (a + 1) k ≠ none := by rw [hr]; simp
            have := mt (readBytes_none_iff m k (a + 1)).2 hne
            intro hmj
            exact this ⟨j, by omega, by rw [← hmj]; congr 1; omega⟩

theorem bytesOfLE_length (v : Nat) : ∀ k, (bytesOfLE v k).length = k := by
  intro k
  induction k generalizing v with
  | zero => rfl
  | succ k ih => simp [bytesOfLE, ih]

theorem bytesOf_length (e : Endian) (c : Const) : (bytesOf e c).length = c.bits / 8 := by
  cases e <;> simp [bytesOf, bytesOfLE_length]

/-! ### `OpSem` and its executable form -/

theorem opSem_iff (σ : State) (op : Op) (σ' : State) (s : Succ) :
    opSem σ op = some (σ', s) ↔ OpSem σ op σ' s := by
  constructor
  · intro h
    cases op with
    | assign dst src =>
      simp only [opSem] at h
      split at h
      · rename_i v hv; cases h; exact .assign hv
      · cases h
    | store index src =>
      simp only [opSem] at h
      split at h
      · rename_i v i hv hi
        split at h
        · rename_i ha; cases h; exact .store hv hi ha
        · cases h
      · cases h
    | load dst index =>
      simp only [opSem] at h
      split at h
      · rename_i i hi
        split at h
        · rename_i ha
          split at h
          · rename_i bs hb; cases h; exact .load hi ha hb
          · cases h
        · cases h
      · cases h
    | branch t =>
      simp only [opSem] at h
      split at h
      · rename_i a ha
        split at h
        · rename_i hlt; cases h; exact .branch ha hlt
        · cases h
      · cases h
    | intrinsic i => simp [opSem] at h
    | nop => simp only [opSem] at h; cases h; exact .nop
  · intro h
    cases h with
    | assign hv => simp [opSem, hv]
    | store hv hi ha => simp [opSem, hv, hi, ha]
    | load hi ha hb => simp [opSem, hi, ha, hb]
    | branch ha hlt => simp [opSem, ha, hlt]
    | nop => rfl

/-- `OpSem` is a partial function -/
theorem OpSem_deterministic {σ : State} {op : Op} {σ₁ σ₂ : State} {s₁ s₂ : Succ}
    (h₁ : OpSem σ op σ₁ s₁) (h₂ : OpSem σ op σ₂ s₂) : σ₁ = σ₂ ∧ s₁ = s₂ := by
  have e₁ := (opSem_iff σ op σ₁ s₁).2 h₁
  have e₂ := (opSem_iff σ op σ₂ s₂).2 h₂
  rw [e₁] at e₂
  injection e₂ with e₂
  exact ⟨congrArg Prod.fst e₂, congrArg Prod.snd e₂⟩

/-! ### `execute` on typed operations -/

theorem addr_lt {σ : State} {e : Expr} {i : Const} (ht : TypedE σ e) (h64 : e.bits ≤ 64)
    (hv : value σ e = .ok i) : i.val < 2 ^ 64 := by
  have g := value_good ht hv
  have h1 : i.val < 2 ^ i.bits := g.1.wf
  have h2 : 2 ^ i.bits ≤ 2 ^ 64 := Nat.pow_le_pow_right (by decide) (by rw [g.2]; exact h64)
  omega

theorem addrOf_ok {i : Const} (h : i.val < 2 ^ 64) : addrOf i = .ok i.val := by simp [addrOf, h]

/-- what `execute` answers on a typed operation, in terms of the specification's `value` -/
theorem execute_typed (σ : State) (op : Op) (ht : TypedOp σ op) :
    execute σ op =
      match op with
      | .assign dst src =>
        (match value σ src with
         | .ok v => .ok (σ.set dst.name v, .fallThrough)
         | .err k => .err k
         | .panic => .panic)
      | .store index src =>
        (match value σ src with
         | .ok v =>
           (match value σ index with
            | .ok i =>
              if i.val + v.bits / 8 > 2 ^ 64 then .panic
              else .ok ({ σ with mem := σ.mem.write i.val (bytesOf σ.endian v) }, .fallThrough)
            | .err k => .err k
            | .panic => .panic)
         | .err k => .err k
         | .panic => .panic)
      | .load dst index =>
        (match value σ index with
         | .ok i =>
           if i.val + dst.bits / 8 > 2 ^ 64 then .panic
           else
             (match σ.mem.readBytes i.val (dst.bits / 8) with
              | some bs => .ok (σ.set dst.name (constOfBytes σ.endian bs), .fallThrough)
              | none => .err .unmapped)
         | .err k => .err k
         | .panic => .panic)
      | .branch t =>
        (match value σ t with
         | .ok a => .ok (σ, .branch a.val)
         | .err k => .err k
         | .panic => .panic)
      | .intrinsic _ => .err .intrinsic
      | .nop => .ok (σ, .fallThrough) := by
  cases op with
  | assign dst src =>
    simp only [execute, evalIn_eq_value ht.1]
    cases value σ src <;> rfl
  | store index src =>
    obtain ⟨hi, hs, h64, h8⟩ := ht
    simp only [execute, evalIn_eq_value hi, evalIn_eq_value hs]
    cases hv : value σ src with
    | err k => rfl
    | panic => rfl
    | ok v =>
      cases hvi : value σ index with
      | err k => rfl
      | panic => rfl
      | ok i =>
        have gv := value_good hs hv
        have hb8 : v.bits % 8 = 0 := by rw [gv.2]; exact h8
        have hb0 : v.bits ≠ 0 := by have := gv.1.pos; omega
        simp only [Res.bind_ok, addrOf_ok (addr_lt hi h64 hvi)]
        rw [if_neg (by simp [hb8, hb0])]
  | load dst index =>
    obtain ⟨hi, h64, h8, h1, _⟩ := ht
    simp only [execute, evalIn_eq_value hi]
    cases hvi : value σ index with
    | err k => rfl
    | panic => rfl
    | ok i =>
      simp only [Res.bind_ok, addrOf_ok (addr_lt hi h64 hvi)]
      rw [if_neg (by simp [h8]; omega)]
      rfl
  | branch t =>
    obtain ⟨hi, h64⟩ := ht
    simp only [execute, evalIn_eq_value hi]
    cases hvi : value σ t with
    | err k => rfl
    | panic => rfl
    | ok a => simp only [Res.bind_ok, addrOf_ok (addr_lt hi h64 hvi)]
  | intrinsic i => rfl
  | nop => rfl

theorem execute_eq_opSem (σ : State) (op : Op) (ht : TypedOp σ op) (x : State × Succ) :
    execute σ op = .ok x ↔ opSem σ op = some x := by
  rw [execute_typed σ op ht]
  cases op with
  | assign dst src =>
    simp only [opSem]
    cases value σ src <;> simp
  | store index src =>
    obtain ⟨hi, hs, h64, h8⟩ := ht
    simp only [opSem]
    cases hv : value σ src with
    | err k => simp
    | panic => simp
    | ok v =>
      cases hvi : value σ index with
      | err k => simp
      | panic => simp
      | ok i =>
        have gv := value_good hs hv
        have hb8 : v.bits % 8 = 0 := by rw [gv.2]; exact h8
        have hb0 : v.bits ≠ 0 := by have := gv.1.pos; omega
        simp only [Access, hb8, hb0, ne_eq, not_false_eq_true, true_and]
        by_cases hr : i.val + v.bits / 8 ≤ 2 ^ 64
        · rw [if_neg (by omega), if_pos hr]; simp
        · rw [if_pos (by omega), if_neg hr]; simp
  | load dst index =>
    obtain ⟨hi, h64, h8, h1, _⟩ := ht
    simp only [opSem]
    cases hvi : value σ index with
    | err k => simp
    | panic => simp
    | ok i =>
      have hb0 : dst.bits ≠ 0 := by omega
      simp only [Access, h8, hb0, ne_eq, not_false_eq_true, true_and]
      by_cases hr : i.val + dst.bits / 8 ≤ 2 ^ 64
      · rw [if_neg (by omega), if_pos hr]
        cases σ.mem.readBytes i.val (dst.bits / 8) <;> simp
      · rw [if_pos (by omega), if_neg hr]; simp
  | branch t =>
    obtain ⟨hi, h64⟩ := ht
    simp only [opSem]
    cases hvi : value σ t with
    | err k => simp
    | panic => simp
    | ok a => simp [addr_lt hi h64 hvi]
  | intrinsic i => simp [opSem]
  | nop => simp [opSem]

end C07
end Falcon
