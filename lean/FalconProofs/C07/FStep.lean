/-
  FalconProofs.C07.FStep — the location-level executor (`Drv.step`) and the function-level step relation
  `FStep` of FalconModel/Exec.lean (the one the verified checkers C10/C12/C13/C14/C17 are stated over) agree on
  fall-through steps: every executor step that is not an indirect branch is matched by 0, 1 or 2 `FStep`s
  between the configurations the locations stand for.
-/
import FalconProofs.C07.Run

namespace Falcon
namespace C07
open Sem Drv

/-- the function-level configuration (block, position, state) a driver configuration stands for -/
inductive Abs (P : Program) (f : Function) : Loc × State → Config → Prop where
  | instr {l : Loc} {σ : State} {b : Block} {k : Nat} {i : Instr} :
      AtInstr P l f b k i → Abs P f (l, σ) ⟨b.index, k, σ⟩
  | edge {l : Loc} {σ : State} {fi h t : Nat} {e : Edge} :
      l.fn = some fi → P.function fi = some f → l.pos = .edge h t → f.cfg.edge h t = some e →
      Abs P f (l, σ) ⟨e.tail, 0, σ⟩
  | empty {l : Loc} {σ : State} {fi bi : Nat} {b : Block} :
      l.fn = some fi → P.function fi = some f → l.pos = .empty bi → f.block bi = some b → b.instrs = [] →
      Abs P f (l, σ) ⟨b.index, 0, σ⟩

variable {Γ : Ctx} {P : Program}

theorem guardHolds_of_true {σ : State} {g : Option Expr} (ht : TypedGuard σ g) (h : guardTrue σ g) :
    guardHolds σ g := by
  cases g with
  | none => trivial
  | some g =>
    obtain ⟨c, hc, h1⟩ := h
    exact ⟨c, by rw [evalIn_eq_value ht.1]; exact hc, h1⟩

theorem edge_lookup {c : Cfg} {e : Edge} (he : e ∈ c.edges) :
    ∃ e', c.edge e.head e.tail = some e' ∧ e'.tail = e.tail := by
  unfold Cfg.edge
  cases hf : c.edges.find? (fun x => x.head == e.head && x.tail == e.tail) with
  | none =>
    have := List.find?_eq_none.1 hf e he
    simp at this
  | some e' =>
    have := List.find?_some hf
    simp only [Bool.and_eq_true, beq_iff_eq] at this
    exact ⟨e', rfl, this.2⟩

theorem abs_edgeLoc {f : Function} {fi : Nat} {e : Edge} {σ : State} {bi : Nat} (hf : P.function fi = some f)
    (he : e ∈ f.cfg.edgesOut bi) : Abs P f (edgeLoc f e, σ) ⟨e.tail, 0, σ⟩ := by
  obtain ⟨e', he', ht⟩ := edge_lookup (edgesOut_mem he).1
  have := Abs.edge (P := P) (f := f) (l := edgeLoc f e) (σ := σ) (function_mem hf).2 hf rfl he'
  rw [ht] at this
  exact this

/-- **Step ⇒ FStep**: a semantic step that is not an indirect branch stays in its function and is 0, 1 or 2
    function-level steps -/
theorem Step_frun (hp : Premise Γ P) {l : Loc} {σ : State} (hs : StateTyped Γ σ) {d' : Loc × State}
    (h : Step P (l, σ) d') :
    (∃ f b k i t, AtInstr P l f b k i ∧ i.op = .branch t) ∨
    (∃ f c c', Abs P f (l, σ) c ∧ Abs P f d' c' ∧ FRun f c c') := by
  cases h with
  | @next _ _ σ' f b k i j hat hos hn =>
    right
    obtain ⟨fi, h1, h2⟩ := hat.fn
    have hty := hp.op hs h2 hat.blk (List.mem_of_getElem? hat.ins)
    have hex : execute σ i.op = .ok (σ', .fallThrough) :=
      (execute_eq_opSem _ _ hty.1 _).2 ((opSem_iff _ _ _ _).2 hos)
    have hat' : AtInstr P ⟨f.index, .instr b.index j.index⟩ f b (k + 1) j :=
      ⟨⟨fi, (function_mem h2).2, h2⟩, hat.blk, hn, rfl⟩
    refine ⟨f, ⟨b.index, k, σ⟩, ⟨b.index, k + 1, σ'⟩, .instr hat, .instr hat', ?_⟩
    exact .step (.refl _) (FStep.instr (c := ⟨b.index, k, σ⟩) hat.blk hat.ins hex)
  | @last _ _ σ' f b k i e hat hos hlen he hg =>
    right
    obtain ⟨fi, h1, h2⟩ := hat.fn
    have hty := hp.op hs h2 hat.blk (List.mem_of_getElem? hat.ins)
    have hex : execute σ i.op = .ok (σ', .fallThrough) :=
      (execute_eq_opSem _ _ hty.1 _).2 ((opSem_iff _ _ _ _).2 hos)
    have hs' : StateTyped Γ σ' := stateTyped_opSem hs hty.2 hos
    have hgs := hp.guardsAt hs' h2 hat.blk
    have hgh : guardHolds σ' e.cond := guardHolds_of_true (hgs.2 e he) hg
    refine ⟨f, ⟨b.index, k, σ⟩, ⟨e.tail, 0, σ'⟩, .instr hat, abs_edgeLoc h2 he, ?_⟩
    refine .step (.step (.refl _) (FStep.instr (c := ⟨b.index, k, σ⟩) hat.blk hat.ins hex)) ?_
    exact FStep.edge (c := ⟨b.index, k + 1, σ'⟩) hat.blk hlen he hgh
  | @branch _ l' _ σ' f b k i a hat hos hfa =>
    left
    cases hop : i.op with
    | branch t => exact ⟨f, b, k, i, t, hat, hop⟩
    | _ => rw [hop] at hos; cases hos
  | @edge _ _ fi f hd tl e b h1 h2 h3 h4 hb =>
    right
    have hbi := (block_mem hb).2
    refine ⟨f, ⟨e.tail, 0, σ⟩, ⟨e.tail, 0, σ⟩, .edge h1 h2 h3 h4, ?_, .refl _⟩
    cases hi : b.instrs with
    | nil =>
      have := Abs.empty (P := P) (f := f) (l := ⟨f.index, blockEntry b⟩) (σ := σ) (fi := fi) (bi := b.index) (b := b)
        (function_mem h2).2 h2 (by simp [blockEntry, hi]) (by rw [hbi]; exact hb) hi
      rw [hbi] at this
      exact this
    | cons x xs =>
      have hat : AtInstr P ⟨f.index, blockEntry b⟩ f b 0 x :=
        ⟨⟨fi, (function_mem h2).2, h2⟩, by rw [hbi]; exact hb, by simp [hi], by simp [blockEntry, hi]⟩
      have := Abs.instr (P := P) (f := f) (σ := σ) hat
      rw [hbi] at this
      exact this
  | @empty _ _ fi f bi b e h1 h2 h3 h4 hempty he hg =>
    right
    have hgs := hp.guardsAt hs h2 h4
    have hgh : guardHolds σ e.cond := guardHolds_of_true (hgs.2 e he) hg
    have hbi := (block_mem h4).2
    refine ⟨f, ⟨b.index, 0, σ⟩, ⟨e.tail, 0, σ⟩, .empty h1 h2 h3 h4 hempty, abs_edgeLoc h2 he, ?_⟩
    exact .step (.refl _) (FStep.edge (c := ⟨b.index, 0, σ⟩) (by rw [hbi]; exact h4) (by simp [hempty]) he hgh)

/-- **FStep ⇒ Step**: conversely, a function-level instruction step from the configuration a location
    stands for is, when the instruction is not the last of its block, exactly the executor's step; at the
    end of a block the instruction step followed by the edge step is the executor's step. -/
theorem FStep_instr_step (hp : Premise Γ P) {l : Loc} {σ σ' : State} (hs : StateTyped Γ σ)
    {f : Function} {b : Block} {k : Nat} {i j : Instr} (hat : AtInstr P l f b k i) {c c' : Config}
    (hf : FStep f c c') (hc : c = ⟨b.index, k, σ⟩) (hc' : c' = ⟨b.index, k + 1, σ'⟩)
    (hn : b.instrs[k + 1]? = some j) :
    step P (l, σ) = .ok (⟨f.index, .instr b.index j.index⟩, σ') := by
  obtain ⟨fi, h1, h2⟩ := hat.fn
  have hty := hp.op hs h2 hat.blk (List.mem_of_getElem? hat.ins)
  cases hf with
  | @instr b' i' _ σ'' hb hi hex =>
    subst hc
    simp only [Config.mk.injEq, true_and] at hc'
    subst hc'
    simp only at hb hi hex
    rw [hat.blk] at hb; cases hb
    rw [hat.ins] at hi; cases hi
    have hos := (opSem_iff _ _ _ _).1 ((execute_eq_opSem _ _ hty.1 _).1 hex)
    exact step_complete hp hs (.next hat hos hn)
  | @edge b' e _ hb hpos he hg =>
    -- an edge step never lands on position k+1 ≥ 1
    simp only [Config.mk.injEq] at hc'
    omega

theorem guardTrue_of_holds {σ : State} {g : Option Expr} (ht : TypedGuard σ g) (h : guardHolds σ g) :
    guardTrue σ g := by
  cases g with
  | none => trivial
  | some g =>
    obtain ⟨c, hc, h1⟩ := h
    exact ⟨c, by rw [← evalIn_eq_value ht.1]; exact hc, h1⟩

/-- the two function-level steps at the end of a block (last instruction, then an enabled edge) are one
    step of the executor, to that edge's location -/
theorem FStep_last_step (hp : Premise Γ P) {l : Loc} {σ σ' : State} (hs : StateTyped Γ σ)
    {f : Function} {b : Block} {k : Nat} {i : Instr} (hat : AtInstr P l f b k i) (hlen : k + 1 = b.instrs.length)
    {c c' c'' : Config} (hf : FStep f c c') (hf' : FStep f c' c'')
    (hc : c = ⟨b.index, k, σ⟩) (hc' : c' = ⟨b.index, k + 1, σ'⟩) :
    ∃ e, e ∈ f.cfg.edgesOut b.index ∧ c'' = ⟨e.tail, 0, σ'⟩ ∧ step P (l, σ) = .ok (edgeLoc f e, σ') := by
  obtain ⟨fi, h1, h2⟩ := hat.fn
  have hty := hp.op hs h2 hat.blk (List.mem_of_getElem? hat.ins)
  cases hf with
  | @edge b' e _ hb hpos he hg =>
    simp only [Config.mk.injEq] at hc'
    omega
  | @instr b' i' _ σ'' hb hi hex =>
    subst hc
    simp only [Config.mk.injEq, true_and] at hc'
    subst hc'
    simp only at hb hi hex
    rw [hat.blk] at hb; cases hb
    rw [hat.ins] at hi; cases hi
    have hos := (opSem_iff _ _ _ _).1 ((execute_eq_opSem _ _ hty.1 _).1 hex)
    have hs' : StateTyped Γ σ'' := stateTyped_opSem hs hty.2 hos
    cases hf' with
    | @instr b'' i'' _ σ3 hb2 hi2 hex2 =>
      simp only at hb2 hi2
      rw [hat.blk] at hb2; cases hb2
      have : b.instrs[k + 1]? = none := List.getElem?_eq_none_iff.2 (by omega)
      rw [this] at hi2; cases hi2
    | @edge b'' e _ hb2 hpos2 he2 hg2 =>
      simp only at hb2 hpos2 he2 hg2
      have hgs := hp.guardsAt hs' h2 hat.blk
      have hgt := guardTrue_of_holds (hgs.2 e he2) hg2
      exact ⟨e, he2, rfl, step_complete hp hs (.last hat hos hlen he2 hgt)⟩

/-- the function-level edge step out of an empty block is the executor's step from the `EmptyBlock` location -/
theorem FStep_empty_step (hp : Premise Γ P) {l : Loc} {σ : State} (hs : StateTyped Γ σ) {fi bi : Nat}
    {f : Function} {b : Block} (h1 : l.fn = some fi) (h2 : P.function fi = some f) (h3 : l.pos = .empty bi)
    (h4 : f.block bi = some b) (hempty : b.instrs = []) {c c' : Config} (hf : FStep f c c')
    (hc : c = ⟨b.index, 0, σ⟩) :
    ∃ e, e ∈ f.cfg.edgesOut b.index ∧ c' = ⟨e.tail, 0, σ⟩ ∧ step P (l, σ) = .ok (edgeLoc f e, σ) := by
  have hbi := (block_mem h4).2
  subst hc
  cases hf with
  | @instr b' i' _ σ'' hb hi hex =>
    simp only at hb hi
    rw [hbi, h4] at hb; cases hb
    rw [hempty] at hi; cases hi
  | @edge b' e _ hb hpos he hg =>
    simp only at hb hpos he hg
    have hgs := hp.guardsAt hs h2 h4
    have hgt := guardTrue_of_holds (hgs.2 e he) hg
    exact ⟨e, he, rfl, step_complete hp hs (.empty h1 h2 h3 h4 hempty he hgt)⟩

end C07
end Falcon
