/-
  FalconProofs.C07.Domain — the driver's decidable domain test `Sem.inDomain` (where the specification column
  speaks) holds in every configuration of a program satisfying the premise whose location applies: the
  check is silent only OUTSIDE the premise of the theorems.
-/
import FalconProofs.C07.Step

namespace Falcon
namespace C07
open Sem Drv

variable {Γ : Ctx} {P : Program}

theorem inDomain_of_premise (hp : Premise Γ P) {l : Loc} {σ : State} (hs : StateTyped Γ σ) (hl : LocOK P l)
    {r : Ref} (ha : apply P l = .ok r) : inDomain P (l, σ) = true := by
  cases r with
  | instr f b i =>
    obtain ⟨fi, bi, idx, h1, h2, h3, h4, h5⟩ := apply_instr ha
    have hwf : WFBlock b := hp.wf f (function_mem h2).1 b (block_mem h4).1
    have hty := hp.op hs h2 h4 (instruction_mem h5).1
    simp only [inDomain, h1, h2, h3, h4, h5, hwf, hty.1, decide_true, Bool.true_and]
    split
    · rename_i σ' hop
      have hos := (opSem_iff _ _ _ _).1 hop
      have hs' : StateTyped Γ σ' := stateTyped_opSem hs hty.2 hos
      have hg := hp.guardsAt hs' h2 h4
      simp only [Bool.and_eq_true, List.all_eq_true, decide_eq_true_eq]
      exact ⟨hg.2, hg.1⟩
    · rfl
  | edge f e =>
    obtain ⟨fi, hd, tl, h1, h2, h3, h4⟩ := apply_edge ha
    simp only [inDomain, h1, h2, h3]
  | empty f b =>
    obtain ⟨fi, bi, h1, h2, h3, h4⟩ := apply_empty ha
    have hempty : b.instrs = [] := by
      unfold LocOK at hl
      rw [h3] at hl
      exact hl fi f b h1 h2 h4
    have hg := hp.guardsAt hs h2 h4
    simp only [inDomain, h1, h2, h3, h4, hempty, List.isEmpty_nil, Bool.true_and, Bool.and_eq_true,
      List.all_eq_true, decide_eq_true_eq]
    exact ⟨hg.2, hg.1⟩

end C07
end Falcon
