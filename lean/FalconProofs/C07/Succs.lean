/-
  FalconProofs.C07.Succs — the executable successor enumeration `Sem.succs` (what the driver prints in the
  specification column) is exactly the relation `Sem.Step`.
-/
import FalconProofs.C07.Nav

namespace Falcon
namespace C07
open Sem Drv

theorem mem_positions {b : Block} {idx k : Nat} {i : Instr} :
    (k, i) ∈ positions b idx ↔ b.instrs[k]? = some i ∧ i.index = idx := by
  unfold positions
  simp only [List.mem_map, List.mem_filter, Prod.mk.injEq, beq_iff_eq, Prod.exists]
  constructor
  · rintro ⟨i', k', ⟨hm, hidx⟩, rfl, rfl⟩
    exact ⟨List.mem_zipIdx_iff_getElem?.1 hm, hidx⟩
  · rintro ⟨hk, hidx⟩
    exact ⟨i, k, ⟨List.mem_zipIdx_iff_getElem?.2 hk, hidx⟩, rfl, rfl⟩

theorem mem_enabled {σ : State} {es : List Edge} {e : Edge} : e ∈ enabled σ es ↔ e ∈ es ∧ guardTrue σ e.cond := by
  simp [enabled, List.mem_filter]

theorem mem_succsAt {P : Program} {f : Function} {b : Block} {σ : State} {k : Nat} {i : Instr} {x : Loc × State} :
    x ∈ succsAt P f b σ k i ↔
      (∃ σ' j, OpSem σ i.op σ' .fallThrough ∧ b.instrs[k + 1]? = some j ∧
          x = (⟨f.index, .instr b.index j.index⟩, σ')) ∨
      (∃ σ' e, OpSem σ i.op σ' .fallThrough ∧ b.instrs[k + 1]? = none ∧ e ∈ f.cfg.edgesOut b.index ∧
          guardTrue σ' e.cond ∧ x = (edgeLoc f e, σ')) ∨
      (∃ σ' a l', OpSem σ i.op σ' (.branch a) ∧ fromAddress P a = some l' ∧ x = (l', σ')) := by
  unfold succsAt
  constructor
  · intro h
    split at h
    · cases h
    · rename_i σ' hop
      have hos := (opSem_iff _ _ _ _).1 hop
      split at h
      · rename_i j hj
        simp only [List.mem_singleton] at h
        exact .inl ⟨σ', j, hos, hj, h⟩
      · rename_i hj
        simp only [List.mem_map] at h
        obtain ⟨e, he, rfl⟩ := h
        have := mem_enabled.1 he
        exact .inr (.inl ⟨σ', e, hos, hj, this.1, this.2, rfl⟩)
    · rename_i σ' a hop
      have hos := (opSem_iff _ _ _ _).1 hop
      split at h
      · rename_i l' hl
        simp only [List.mem_singleton] at h
        exact .inr (.inr ⟨σ', a, l', hos, hl, h⟩)
      · cases h
  · rintro (⟨σ', j, hos, hj, rfl⟩ | ⟨σ', e, hos, hj, he, hg, rfl⟩ | ⟨σ', a, l', hos, hl, rfl⟩)
    · simp [(opSem_iff _ _ _ _).2 hos, hj]
    · simp only [(opSem_iff _ _ _ _).2 hos, hj, List.mem_map]
      exact ⟨e, mem_enabled.2 ⟨he, hg⟩, rfl⟩
    · simp [(opSem_iff _ _ _ _).2 hos, hl]

/-- **`succs` enumerates exactly the `Step`-successors** -/
theorem mem_succs_iff (P : Program) (d x : Loc × State) : x ∈ succs P d ↔ Step P d x := by
  obtain ⟨l, σ⟩ := d
  constructor
  · intro h
    unfold succs at h
    simp only at h
    split at h
    · cases h
    · rename_i fi hfi
      split at h
      · cases h
      · rename_i f hf
        split at h
        · -- instruction
          rename_i bi idx hpos
          split at h
          · cases h
          · rename_i b hb
            simp only [List.mem_flatMap, Prod.exists] at h
            obtain ⟨k, i, hki, hx⟩ := h
            have hk := mem_positions.1 hki
            have hbi := (block_mem hb).2
            have hat : AtInstr P l f b k i :=
              ⟨⟨fi, hfi, hf⟩, by rw [hbi]; exact hb, hk.1, by rw [hpos, hbi, hk.2]⟩
            rcases mem_succsAt.1 hx with ⟨σ', j, hos, hj, rfl⟩ | ⟨σ', e, hos, hj, he, hg, rfl⟩ |
              ⟨σ', a, l', hos, hl, rfl⟩
            · exact .next hat hos hj
            · have hlen : k + 1 = b.instrs.length := by
                have h1 := List.getElem?_eq_none_iff.1 hj
                have h2 : k < b.instrs.length := by
                  rcases Nat.lt_or_ge k b.instrs.length with h | h
                  · exact h
                  · have := hk.1; rw [List.getElem?_eq_none_iff.2 h] at this; cases this
                omega
              exact .last hat hos hlen he hg
            · exact .branch hat hos hl
        · -- edge
          rename_i hd tl hpos
          split at h
          · cases h
          · rename_i e he
            split at h
            · cases h
            · rename_i b hb
              simp only [List.mem_singleton] at h
              subst h
              exact .edge hfi hf hpos he hb
        · -- empty
          rename_i bi hpos
          split at h
          · cases h
          · rename_i b hb
            split at h
            · rename_i hemp
              simp only [List.mem_map] at h
              obtain ⟨e, he, rfl⟩ := h
              have := mem_enabled.1 he
              exact .empty hfi hf hpos hb (by simpa using hemp) this.1 this.2
            · cases h
  · intro h
    cases h with
    | @next _ _ σ' f b k i j hat hos hn =>
      obtain ⟨⟨fi, h1, h2⟩, h4, hk, h3⟩ := hat
      simp only [succs, h1, h2, h3, h4, List.mem_flatMap, Prod.exists]
      exact ⟨k, i, mem_positions.2 ⟨hk, rfl⟩, mem_succsAt.2 (.inl ⟨σ', j, hos, hn, rfl⟩)⟩
    | @last _ _ σ' f b k i e hat hos hlen he hg =>
      obtain ⟨⟨fi, h1, h2⟩, h4, hk, h3⟩ := hat
      simp only [succs, h1, h2, h3, h4, List.mem_flatMap, Prod.exists]
      have hn : b.instrs[k + 1]? = none := List.getElem?_eq_none_iff.2 (by omega)
      exact ⟨k, i, mem_positions.2 ⟨hk, rfl⟩, mem_succsAt.2 (.inr (.inl ⟨σ', e, hos, hn, he, hg, rfl⟩))⟩
    | @branch _ l' _ σ' f b k i a hat hos hfa =>
      obtain ⟨⟨fi, h1, h2⟩, h4, hk, h3⟩ := hat
      simp only [succs, h1, h2, h3, h4, List.mem_flatMap, Prod.exists]
      exact ⟨k, i, mem_positions.2 ⟨hk, rfl⟩, mem_succsAt.2 (.inr (.inr ⟨σ', a, l', hos, hfa, rfl⟩))⟩
    | @edge _ _ fi f hd tl e b h1 h2 h3 h4 hb =>
      simp [succs, h1, h2, h3, h4, hb]
    | @empty _ _ fi f bi b e h1 h2 h3 h4 hempty he hg =>
      simp only [succs, h1, h2, h3, h4, hempty, List.isEmpty_nil, ↓reduceIte, List.mem_map]
      exact ⟨e, mem_enabled.2 ⟨he, hg⟩, rfl⟩

end C07
end Falcon
