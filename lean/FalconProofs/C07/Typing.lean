/-
  FalconProofs.C07.Typing — program typing against `Γ` gives the per-state typing the evaluator lemmas need,
  and execution preserves the typing of states.
-/
import FalconProofs.C07.Nav

namespace Falcon
namespace C07
open Sem Drv

theorem typedE_of_ctx {Γ : Ctx} {σ : State} (hs : StateTyped Γ σ) : ∀ (e : Expr), TypedEΓ Γ e → TypedE σ e
  | .scalar s, h => by
      refine ⟨h.1, h.2.1, ?_⟩
      unfold HoldsOK
      cases hg : σ.get s.name with
      | none => trivial
      | some c =>
        have := hs s.name c hg
        exact ⟨by rw [this.1, h.2.2], this.2⟩
  | .const _, h => h
  | .bin _ l r, h => ⟨typedE_of_ctx hs l h.1, typedE_of_ctx hs r h.2.1, h.2.2⟩
  | .ext _ _ e, h => ⟨typedE_of_ctx hs e h.1, h.2.1, h.2.2.1, h.2.2.2⟩
  | .ite c t e, h => ⟨typedE_of_ctx hs c h.1, typedE_of_ctx hs t h.2.1, typedE_of_ctx hs e h.2.2.1, h.2.2.2.1, h.2.2.2.2⟩

theorem typedOp_of_ctx {Γ : Ctx} {σ : State} (hs : StateTyped Γ σ) {op : Op} (h : TypedOpΓ Γ op) : TypedOp σ op := by
  cases op with
  | assign dst src => exact ⟨typedE_of_ctx hs _ h.1, h.2.1⟩
  | store index src => exact ⟨typedE_of_ctx hs _ h.1, typedE_of_ctx hs _ h.2.1, h.2.2.1, h.2.2.2⟩
  | load dst index => exact ⟨typedE_of_ctx hs _ h.1, h.2.1, h.2.2.1, h.2.2.2.1, h.2.2.2.2.1⟩
  | branch t => exact ⟨typedE_of_ctx hs _ h.1, h.2⟩
  | intrinsic i => trivial
  | nop => trivial

theorem typedGuard_of_ctx {Γ : Ctx} {σ : State} (hs : StateTyped Γ σ) {g : Option Expr} (h : TypedGuardΓ Γ g) :
    TypedGuard σ g := by
  cases g with
  | none => trivial
  | some g => exact ⟨typedE_of_ctx hs _ h.1, h.2⟩

theorem natOfLE_lt : ∀ bs : List UInt8, natOfLE bs < 2 ^ (8 * bs.length)
  | [] => by simp [natOfLE]
  | b :: bs => by
      have ih := natOfLE_lt bs
      have hb : b.toNat < 256 := b.toNat_lt
      simp only [natOfLE, List.length_cons]
      have : 2 ^ (8 * (bs.length + 1)) = 256 * 2 ^ (8 * bs.length) := by
        rw [Nat.mul_add, Nat.pow_add]; simp [Nat.mul_comm]
      rw [this]
      omega

theorem readBytes_length (m : ByteMem) : ∀ (k a : Nat) (bs : List UInt8), m.readBytes a k = some bs → bs.length = k
  | 0, a, bs, h => by simp [ByteMem.readBytes] at h; subst h; rfl
  | k + 1, a, bs, h => by
      simp only [ByteMem.readBytes] at h
      cases hm : m a with
      | none => rw [hm] at h; simp at h
      | some b =>
        cases hr : m.readBytes (a + 1) k with
        | none => rw [hm, hr] at h; simp at h
        | some rest =>
          rw [hm, hr] at h
          simp at h
          subst h
          simp [readBytes_length m k (a + 1) rest hr]

theorem constOfBytes_ok (e : Endian) (bs : List UInt8) :
    (constOfBytes e bs).bits = 8 * bs.length ∧ (constOfBytes e bs).val < 2 ^ (constOfBytes e bs).bits := by
  cases e
  · exact ⟨rfl, natOfLE_lt bs⟩
  · refine ⟨rfl, ?_⟩
    have := natOfLE_lt bs.reverse
    simpa [constOfBytes] using this

theorem stateTyped_set {Γ : Ctx} {σ : State} (hs : StateTyped Γ σ) {x : String} {v : Const}
    (hb : v.bits = Γ x) (hv : v.val < 2 ^ v.bits) : StateTyped Γ (σ.set x v) := by
  intro n c hg
  rw [get_set] at hg
  split at hg
  · rename_i hn; subst hn; cases hg; exact ⟨hb, hv⟩
  · exact hs n c hg

/-- **type preservation**: executing a typed operation in a typed state gives a typed state -/
theorem stateTyped_opSem {Γ : Ctx} {σ σ' : State} {op : Op} {s : Succ} (hs : StateTyped Γ σ)
    (ht : TypedOpΓ Γ op) (h : OpSem σ op σ' s) : StateTyped Γ σ' := by
  cases h with
  | assign hv =>
    have g := value_good (typedE_of_ctx hs _ ht.1) hv
    exact stateTyped_set hs (by rw [g.2, ht.2.1, ht.2.2]) g.1.wf
  | store _ _ _ => exact hs
  | @load dst index i bs hv ha hb =>
    have hl := readBytes_length _ _ _ _ hb
    have hc := constOfBytes_ok σ.endian bs
    refine stateTyped_set hs ?_ hc.2
    rw [hc.1, hl]
    have h8 := ht.2.2.1
    have hΓ := ht.2.2.2.2.2
    omega
  | branch _ _ => exact hs
  | nop => exact hs

end C07
end Falcon
