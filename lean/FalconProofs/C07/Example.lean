/-
  FalconProofs.C07.Example — non-vacuity of the premise: a concrete program with a two-way partition
  (`f` / `f == 0`), a lone unconditional edge and an assignment satisfies `Premise`, for ALL typed states.
-/
import FalconProofs.C07.Step

namespace Falcon
namespace C07
open Sem Drv

def exF1 : Scalar := { name := "f", bits := 1 }
def exG1 : Scalar := { name := "g", bits := 1 }
def exB0 : Block := { index := 0, instrs := [{ index := 0, op := Op.assign exG1 (Expr.scalar exF1) }] }
def exB1 : Block := { index := 1, instrs := [{ index := 0, op := Op.nop }] }
def exB2 : Block := { index := 2, instrs := [] }
def exE01 : Edge := { head := 0, tail := 1, cond := some (Expr.scalar exF1) }
def exE02 : Edge := { head := 0, tail := 2, cond := some (Expr.bin .cmpeq (Expr.scalar exF1) (Expr.const ⟨1, 0⟩)) }
def exE12 : Edge := { head := 1, tail := 2, cond := none }
def exFn : Function :=
  { addr := 0x1000, index := some 0,
    cfg := { blocks := [exB0, exB1, exB2], edges := [exE01, exE02, exE12], entry := some 0 } }
def exProg : Program := { functions := [exFn] }
def exΓ : Ctx := fun _ => 1

theorem exProg_typed : ProgTyped exΓ exProg := by
  intro f hf
  simp only [exProg, List.mem_singleton] at hf
  subst hf
  constructor
  · intro b hb i hi
    simp only [exFn, List.mem_cons, List.not_mem_nil, or_false] at hb
    rcases hb with rfl | rfl | rfl
    · simp only [exB0, List.mem_singleton] at hi
      subst hi
      simp [TypedOpΓ, TypedEΓ, exF1, exG1, exΓ, Expr.bits]
    · simp only [exB1, List.mem_singleton] at hi
      subst hi
      trivial
    · simp [exB2] at hi
  · intro e he
    simp only [exFn, List.mem_cons, List.not_mem_nil, or_false] at he
    rcases he with rfl | rfl | rfl
    · simp [exE01, TypedGuardΓ, TypedEΓ, exF1, exΓ, Expr.bits]
    · simp [exE02, TypedGuardΓ, TypedEΓ, exF1, exΓ, Expr.bits, ConstOK, BinOp.isCmp]
    · trivial

theorem exProg_wf : WFProg exProg := by
  intro f hf b hb
  simp only [exProg, List.mem_singleton] at hf
  subst hf
  simp only [exFn, List.mem_cons, List.not_mem_nil, or_false] at hb
  rcases hb with rfl | rfl | rfl <;> decide

/-- in a typed state `f` holds `0:1` or `1:1` (or nothing) -/
theorem exF_cases {σ : State} (hs : StateTyped exΓ σ) {c : Const} (h : σ.get "f" = some c) :
    c = ⟨1, 0⟩ ∨ c = ⟨1, 1⟩ := by
  obtain ⟨hb, hv⟩ := hs "f" c h
  cases c with
  | mk bits val =>
    simp only [exΓ] at hb
    subst hb
    simp only at hv
    have : val = 0 ∨ val = 1 := by omega
    rcases this with rfl | rfl <;> simp

theorem exProg_guards : GuardsOK exΓ exProg := by
  intro f hf b hb σ hs
  simp only [exProg, List.mem_singleton] at hf
  subst hf
  simp only [exFn, List.mem_cons, List.not_mem_nil, or_false] at hb
  rcases hb with rfl | rfl | rfl
  · -- block 0: the partition f / f == 0
    have hes : exFn.cfg.edgesOut exB0.index = [exE01, exE02] := by decide
    rw [hes]
    refine ⟨(fun e he => by cases he), fun _ => ⟨?_, ?_⟩⟩
    · intro e he
      simp only [List.mem_cons, List.not_mem_nil, or_false] at he
      rcases he with rfl | rfl <;> rfl
    · intro e he hg e' he' hne
      simp only [List.mem_cons, List.not_mem_nil, or_false] at he he'
      rcases he with rfl | rfl <;> rcases he' with rfl | rfl
      · exact absurd rfl hne
      · -- f is one ⇒ f == 0 has the value zero
        obtain ⟨c, hc, h1⟩ := hg
        simp only [exF1, value] at hc
        cases hget : σ.get "f" with
        | none => rw [hget] at hc; cases hc
        | some c0 =>
          rw [hget] at hc
          simp only [Res.ok.injEq] at hc
          subst hc
          rcases exF_cases hs hget with rfl | rfl
          · simp at h1
          · refine ⟨⟨1, 0⟩, ?_, by simp⟩
            simp only [exF1, value, hget]
            decide
      · -- f == 0 is one ⇒ f has the value zero
        obtain ⟨c, hc, h1⟩ := hg
        simp only [exF1, value] at hc
        cases hget : σ.get "f" with
        | none => rw [hget] at hc; cases hc
        | some c0 =>
          rw [hget] at hc
          rcases exF_cases hs hget with rfl | rfl
          · refine ⟨⟨1, 0⟩, ?_, by simp⟩
            simp only [exF1, value, hget]
          · exfalso
            have : Spec.bin .cmpeq ⟨1, 1⟩ ⟨1, 0⟩ = .ok ⟨1, 0⟩ := by decide
            simp only [Res.bind_ok, this, Res.ok.injEq] at hc
            subst hc
            simp at h1
      · exact absurd rfl hne
  · -- block 1: a lone unconditional edge
    have hes : exFn.cfg.edgesOut exB1.index = [exE12] := by decide
    rw [hes]
    refine ⟨fun e he => ?_, (fun h => by simp at h)⟩
    simp only [List.cons.injEq, and_true] at he
    subst he
    trivial
  · -- block 2: no out-edge
    have hes : exFn.cfg.edgesOut exB2.index = [] := by decide
    rw [hes]
    exact ⟨(fun e he => by cases he), (fun h => by simp at h)⟩

theorem exProg_premise : Premise exΓ exProg := ⟨exProg_typed, exProg_wf, exProg_guards⟩

/-- a typed start state: `f = 1` -/
def exStart : State := { scalars := [("f", ⟨1, 1⟩)] }

theorem exStart_typed : StateTyped exΓ exStart := by
  intro n c h
  simp only [exStart, State.get, List.lookup] at h
  split at h
  · cases h; exact ⟨rfl, by decide⟩
  · cases h

end C07
end Falcon
