/-
  FalconProofs.C07.Run — any number of steps: `run n` is the `Steps`-relation of the semantics, the executor
  stops only where the semantics is stuck.
-/
import FalconProofs.C07.Step

namespace Falcon
namespace C07
open Sem Drv

variable {Γ : Ctx} {P : Program}

theorem run_iff_steps (hp : Premise Γ P) : ∀ (n : Nat) (d d' : Loc × State), StateTyped Γ d.2 → LocOK P d.1 →
    (run P n d = .ok d' ↔ Steps P n d d')
  | 0, d, d', _, _ => by
      simp only [run, Res.ok.injEq]
      constructor
      · intro h; subst h; exact .zero d
      · intro h; cases h; rfl
  | n + 1, (l, σ), d', hs, hl => by
      simp only [run]
      constructor
      · intro h
        cases hst : step P (l, σ) with
        | err k => rw [hst] at h; cases h
        | panic => rw [hst] at h; cases h
        | ok d1 =>
          rw [hst] at h
          have h1 := step_sound hp hs hl hst
          have inv := step_invariant hp hs h1
          exact .succ h1 ((run_iff_steps hp n d1 d' inv.1 inv.2).1 h)
      · intro h
        cases h with
        | succ h1 hrest =>
          rename_i b
          have hst := step_complete hp hs h1
          have inv := step_invariant hp hs h1
          rw [hst]
          exact (run_iff_steps hp n b d' inv.1 inv.2).2 hrest

/-- the executor reports an error (or panics) only in a configuration the semantics cannot leave -/
theorem run_stops_stuck (hp : Premise Γ P) : ∀ (n : Nat) (d : Loc × State), StateTyped Γ d.2 → LocOK P d.1 →
    (∀ d', run P n d ≠ .ok d') → ∃ m d', m < n ∧ Steps P m d d' ∧ ∀ d'', ¬ Step P d' d''
  | 0, d, _, _, h => absurd rfl (h d)
  | n + 1, (l, σ), hs, hl, h => by
      cases hst : step P (l, σ) with
      | ok d1 =>
        have h1 := step_sound hp hs hl hst
        have inv := step_invariant hp hs h1
        have hrun : ∀ d', run P n d1 ≠ .ok d' := by
          intro d' hd'
          apply h d'
          simp only [run, hst]
          exact hd'
        obtain ⟨m, d', hm, hsteps, hstuck⟩ := run_stops_stuck hp n d1 inv.1 inv.2 hrun
        exact ⟨m + 1, d', by omega, .succ h1 hsteps, hstuck⟩
      | err k =>
        refine ⟨0, (l, σ), by omega, .zero _, ?_⟩
        intro d'' hd''
        have := step_complete hp hs hd''
        rw [hst] at this; cases this
      | panic =>
        refine ⟨0, (l, σ), by omega, .zero _, ?_⟩
        intro d'' hd''
        have := step_complete hp hs hd''
        rw [hst] at this; cases this

end C07
end Falcon
