/-
  FalconProofs.C07.Nav — lookups (`Program::function`, `Function::block`, `Block::instruction`, `edge`,
  `edges_out`), `apply`, the loop of `instruction_forward`, and the guard loop of `Driver::step`.
-/
import FalconProofs.C07.Exec

namespace Falcon
namespace C07
open Sem Drv

theorem function_mem {P : Program} {fi : Nat} {f : Function} (h : P.function fi = some f) :
    f ∈ P.functions ∧ f.index = some fi := by
  unfold Program.function at h
  exact ⟨List.mem_of_find?_eq_some h, by have := List.find?_some h; simpa using this⟩

theorem block_mem {f : Function} {bi : Nat} {b : Block} (h : f.block bi = some b) :
    b ∈ f.cfg.blocks ∧ b.index = bi := by
  unfold Function.block Cfg.block at h
  exact ⟨List.mem_of_find?_eq_some h, by have := List.find?_some h; simpa using this⟩

theorem instruction_mem {b : Block} {idx : Nat} {i : Instr} (h : b.instruction idx = some i) :
    i ∈ b.instrs ∧ i.index = idx := by
  unfold Block.instruction at h
  exact ⟨List.mem_of_find?_eq_some h, by have := List.find?_some h; simpa using this⟩

theorem edge_mem {c : Cfg} {h t : Nat} {e : Edge} (he : c.edge h t = some e) :
    e ∈ c.edges ∧ e.head = h ∧ e.tail = t := by
  unfold Cfg.edge at he
  refine ⟨List.mem_of_find?_eq_some he, ?_⟩
  have := List.find?_some he
  simpa using this

theorem edgesOut_mem {c : Cfg} {bi : Nat} {e : Edge} (h : e ∈ c.edgesOut bi) : e ∈ c.edges ∧ e.head = bi := by
  unfold Cfg.edgesOut at h
  have := List.mem_filter.1 h
  exact ⟨this.1, by simpa using this.2⟩

/-- with distinct indices, the instruction at a position is the one `Block::instruction` finds -/
theorem find_of_nodup : ∀ {l : List Instr}, (l.map (·.index)).Nodup → ∀ {k : Nat} {i : Instr},
    l[k]? = some i → l.find? (·.index == i.index) = some i
  | [], _, k, i, h => by simp at h
  | x :: rest, hn, 0, i, h => by
      simp only [List.getElem?_cons_zero, Option.some.injEq] at h
      subst h; simp
  | x :: rest, hn, k + 1, i, h => by
      simp only [List.getElem?_cons_succ] at h
      simp only [List.map_cons, List.nodup_cons] at hn
      have hi : i ∈ rest := List.mem_of_getElem? h
      have hne : x.index ≠ i.index := by
        intro he
        exact hn.1 (by rw [he]; exact List.mem_map_of_mem hi)
      have : (x.index == i.index) = false := by simpa using hne
      rw [List.find?_cons, this]
      exact find_of_nodup hn.2 h

theorem instruction_of_pos {b : Block} (hwf : WFBlock b) {k : Nat} {i : Instr} (h : b.instrs[k]? = some i) :
    b.instruction i.index = some i := find_of_nodup hwf h

theorem pos_of_instruction {b : Block} {idx : Nat} {i : Instr} (h : b.instruction idx = some i) :
    ∃ k : Nat, b.instrs[k]? = some i := List.mem_iff_getElem?.1 (instruction_mem h).1

/-- the loop of `instruction_forward` on a block with distinct indices -/
theorem forwardIn_spec (out : List Edge) : ∀ {l : List Instr}, (l.map (·.index)).Nodup → ∀ {k : Nat} {i : Instr},
    l[k]? = some i →
    forwardIn out i.index l = .ok (match l[k + 1]? with | some j => .next j | none => .edges out)
  | [], _, k, i, h => by simp at h
  | x :: rest, hn, 0, i, h => by
      simp only [List.getElem?_cons_zero, Option.some.injEq] at h
      subst h
      simp only [forwardIn, ↓reduceIte, List.getElem?_cons_succ]
      cases rest <;> simp
  | x :: rest, hn, k + 1, i, h => by
      simp only [List.getElem?_cons_succ] at h
      simp only [List.map_cons, List.nodup_cons] at hn
      have hi : i ∈ rest := List.mem_of_getElem? h
      have hne : x.index ≠ i.index := by
        intro he
        exact hn.1 (by rw [he]; exact List.mem_map_of_mem hi)
      simp only [forwardIn, hne, ↓reduceIte, List.getElem?_cons_succ]
      exact forwardIn_spec out hn.2 h

/-! ### `apply` -/

theorem apply_instr {P : Program} {l : Loc} {f : Function} {b : Block} {i : Instr}
    (h : apply P l = .ok (.instr f b i)) :
    ∃ fi bi idx, l.fn = some fi ∧ P.function fi = some f ∧ l.pos = .instr bi idx ∧ f.block bi = some b ∧
      b.instruction idx = some i := by
  unfold apply at h
  split at h
  · cases h
  · rename_i fi hfi
    split at h
    · cases h
    · rename_i f' hf
      unfold applyPos at h
      split at h
      · rename_i bi ii hpos
        split at h
        · cases h
        · rename_i b' hb
          split at h
          · cases h
          · rename_i i' hi
            simp only [Res.ok.injEq, Ref.instr.injEq] at h
            obtain ⟨h1, h2, h3⟩ := h
            subst h1; subst h2; subst h3
            exact ⟨fi, bi, ii, hfi, hf, hpos, hb, hi⟩
      · split at h <;> cases h
      · split at h <;> cases h

theorem apply_edge {P : Program} {l : Loc} {f : Function} {e : Edge} (h : apply P l = .ok (.edge f e)) :
    ∃ fi hd tl, l.fn = some fi ∧ P.function fi = some f ∧ l.pos = .edge hd tl ∧ f.cfg.edge hd tl = some e := by
  unfold apply at h
  split at h
  · cases h
  · rename_i fi hfi
    split at h
    · cases h
    · rename_i f' hf
      unfold applyPos at h
      split at h
      · split at h
        · cases h
        · split at h <;> cases h
      · rename_i hd tl hpos
        split at h
        · cases h
        · rename_i e' he
          simp only [Res.ok.injEq, Ref.edge.injEq] at h
          obtain ⟨h1, h2⟩ := h
          subst h1; subst h2
          exact ⟨fi, hd, tl, hfi, hf, hpos, he⟩
      · split at h <;> cases h

theorem apply_empty {P : Program} {l : Loc} {f : Function} {b : Block} (h : apply P l = .ok (.empty f b)) :
    ∃ fi bi, l.fn = some fi ∧ P.function fi = some f ∧ l.pos = .empty bi ∧ f.block bi = some b := by
  unfold apply at h
  split at h
  · cases h
  · rename_i fi hfi
    split at h
    · cases h
    · rename_i f' hf
      unfold applyPos at h
      split at h
      · split at h
        · cases h
        · split at h <;> cases h
      · split at h <;> cases h
      · rename_i bi hpos
        split at h
        · cases h
        · rename_i b' hb
          simp only [Res.ok.injEq, Ref.empty.injEq] at h
          obtain ⟨h1, h2⟩ := h
          subst h1; subst h2
          exact ⟨fi, bi, hfi, hf, hpos, hb⟩

theorem apply_of_instr {P : Program} {l : Loc} {fi bi idx : Nat} {f : Function} {b : Block} {i : Instr}
    (h1 : l.fn = some fi) (h2 : P.function fi = some f) (h3 : l.pos = .instr bi idx) (h4 : f.block bi = some b)
    (h5 : b.instruction idx = some i) : apply P l = .ok (.instr f b i) := by
  simp [apply, applyPos, h1, h2, h3, h4, h5]

theorem apply_of_edge {P : Program} {l : Loc} {fi hd tl : Nat} {f : Function} {e : Edge}
    (h1 : l.fn = some fi) (h2 : P.function fi = some f) (h3 : l.pos = .edge hd tl)
    (h4 : f.cfg.edge hd tl = some e) : apply P l = .ok (.edge f e) := by
  simp [apply, applyPos, h1, h2, h3, h4]

theorem apply_of_empty {P : Program} {l : Loc} {fi bi : Nat} {f : Function} {b : Block}
    (h1 : l.fn = some fi) (h2 : P.function fi = some f) (h3 : l.pos = .empty bi) (h4 : f.block bi = some b) :
    apply P l = .ok (.empty f b) := by
  simp [apply, applyPos, h1, h2, h3, h4]

/-! ### the guard loop -/

/-- the model-level reading of "the guard evaluates to one" / "to something else" -/
def evTrue (σ : State) (e : Edge) : Prop := ∃ g c, e.cond = some g ∧ σ.evalIn g = .ok c ∧ c.val = 1
def evFalse (σ : State) (e : Edge) : Prop := ∃ g c, e.cond = some g ∧ σ.evalIn g = .ok c ∧ c.val ≠ 1

theorem firstEnabled_ok {σ : State} : ∀ {es : List Edge} {e : Edge}, firstEnabled σ es = .ok e → e ∈ es ∧ evTrue σ e
  | [], e, h => by simp [firstEnabled] at h
  | x :: xs, e, h => by
      unfold firstEnabled at h
      split at h
      · cases h
      · rename_i g hg
        split at h
        · rename_i c hc
          split at h
          · rename_i h1
            cases h
            exact ⟨List.mem_cons_self, g, c, hg, hc, by simpa [Const.isOne] using h1⟩
          · have := firstEnabled_ok h
            exact ⟨List.mem_cons_of_mem _ this.1, this.2⟩
        · cases h
        · cases h

theorem firstEnabled_of_excl {σ : State} : ∀ {es : List Edge} {e : Edge}, e ∈ es → evTrue σ e →
    (∀ e' ∈ es, e' ≠ e → evFalse σ e') → firstEnabled σ es = .ok e
  | [], e, he, _, _ => by cases he
  | x :: xs, e, he, ht, hx => by
      by_cases hxe : x = e
      · subst hxe
        obtain ⟨g, c, hg, hc, h1⟩ := ht
        simp [firstEnabled, hg, hc, Const.isOne, h1]
      · obtain ⟨g', c', hg', hc', h1'⟩ := hx x List.mem_cons_self hxe
        have hmem : e ∈ xs := by
          cases he with
          | head => exact absurd rfl hxe
          | tail _ h => exact h
        have : (c'.val == 1) = false := by simpa using h1'
        simp only [firstEnabled, hg', hc', Const.isOne, this, Bool.false_eq_true, ↓reduceIte]
        exact firstEnabled_of_excl hmem ht (fun e' he' hne => hx e' (List.mem_cons_of_mem _ he') hne)

/-- no guard is one, all evaluate: `ExecutorNoValidLocation` -/
theorem firstEnabled_none {σ : State} : ∀ {es : List Edge}, (∀ e ∈ es, evFalse σ e) → firstEnabled σ es = .err .noedge
  | [], _ => rfl
  | x :: xs, h => by
      obtain ⟨g', c', hg', hc', h1'⟩ := h x List.mem_cons_self
      have : (c'.val == 1) = false := by simpa using h1'
      simp only [firstEnabled, hg', hc', Const.isOne, this, Bool.false_eq_true, ↓reduceIte]
      exact firstEnabled_none (fun e he => h e (List.mem_cons_of_mem _ he))

theorem evTrue_iff {σ : State} {e : Edge} (ht : TypedGuard σ e.cond) (hc : e.cond.isSome) :
    evTrue σ e ↔ guardTrue σ e.cond := by
  unfold evTrue
  cases hg : e.cond with
  | none => rw [hg] at hc; cases hc
  | some g =>
    rw [hg] at ht
    simp only [Option.some.injEq, guardTrue, ← evalIn_eq_value ht.1]
    constructor
    · rintro ⟨g', c, rfl, h⟩; exact ⟨c, h⟩
    · rintro ⟨c, h⟩; exact ⟨g, c, rfl, h⟩

theorem evFalse_iff {σ : State} {e : Edge} (ht : TypedGuard σ e.cond) :
    evFalse σ e ↔ guardFalse σ e.cond := by
  unfold evFalse
  cases hg : e.cond with
  | none => simp [guardFalse]
  | some g =>
    rw [hg] at ht
    simp only [Option.some.injEq, guardFalse, ← evalIn_eq_value ht.1]
    constructor
    · rintro ⟨g', c, rfl, h⟩; exact ⟨c, h⟩
    · rintro ⟨c, h⟩; exact ⟨g, c, rfl, h⟩

/-- `chooseEdge` picks an enabled edge, provided the guards are fine in this state -/
theorem chooseEdge_sound {σ : State} {es : List Edge} {e : Edge} (hg : GuardsOKAt σ es)
    (ht : ∀ e ∈ es, TypedGuard σ e.cond) (h : chooseEdge σ es = .ok e) : e ∈ es ∧ guardTrue σ e.cond := by
  match es, h with
  | [x], h =>
    simp only [chooseEdge, Res.ok.injEq] at h
    subst h
    exact ⟨List.mem_cons_self, hg.1 x rfl⟩
  | [], h => simp [chooseEdge, firstEnabled] at h
  | x :: y :: zs, h =>
    simp only [chooseEdge] at h
    have := firstEnabled_ok h
    have hsome := (hg.2 (by simp)).1 e this.1
    exact ⟨this.1, (evTrue_iff (ht e this.1) hsome).1 this.2⟩

theorem chooseEdge_complete {σ : State} {es : List Edge} {e : Edge} (hg : GuardsOKAt σ es)
    (ht : ∀ e ∈ es, TypedGuard σ e.cond) (he : e ∈ es) (hv : guardTrue σ e.cond) : chooseEdge σ es = .ok e := by
  match es, he with
  | [x], he =>
    simp only [List.mem_singleton] at he
    subst he; rfl
  | x :: y :: zs, he =>
    simp only [chooseEdge]
    obtain ⟨hs, hx⟩ := hg.2 (by simp)
    refine firstEnabled_of_excl he ((evTrue_iff (ht e he) (hs e he)).2 hv) ?_
    intro e' he' hne
    exact (evFalse_iff (ht e' he')).2 (hx e he hv e' he' hne)

end C07
end Falcon
