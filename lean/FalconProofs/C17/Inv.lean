/-
  FalconProofs.C17.Inv — the invariant behind `spoCheck_sound`: at every configuration of a run from the entry some
  abstract offset describes the state and flows, through the checker's step, into every location executed next.
-/
import FalconProofs.C17.Step

namespace Falcon.C17
open Falcon Falcon.SpoCert Falcon.Const

-- ------------------------------------------------------------------ the invariant

/-- at configuration `c` some abstract offset describes the state and flows into every location executed next -/
def Inv (strict : Bool) (sp : String) {w : Nat} (s0 : BitVec w) (f : Function) (R : Report w) (c : Config) : Prop :=
  ∀ bk, f.block c.block = some bk →
    ∃ a, Holds sp s0 c.state a ∧ ∀ p ∈ primary f bk c.pos, flows strict sp a R p = true

theorem block_mem {f : Function} {i : Nat} {bk : Block} (h : f.block i = some bk) :
    bk ∈ f.cfg.blocks ∧ bk.index = i := by
  unfold Function.block Cfg.block at h
  refine ⟨List.mem_of_find?_eq_some h, ?_⟩
  have := List.find?_some h
  simpa using this

theorem blockOk_of {strict : Bool} {sp : String} {w : Nat} {f : Function} {R : Report w}
    (hc : spoCheck strict sp f R = true) {i : Nat} {bk : Block} (h : f.block i = some bk) :
    blockOk strict sp f R bk = true := by
  simp only [spoCheck, Bool.and_eq_true] at hc
  exact List.all_eq_true.mp hc.2 bk (block_mem h).1

/-- what `flows` gives: the target location has an entry, and the entry holds after the target's operation -/
theorem flows_none {strict : Bool} {sp : String} {w : Nat} {s0 : BitVec w} {R : Report w} {l : Loc}
    {σ : State} {a : AOff w} (hf : flows strict sp a R (l, none) = true) (h : Holds sp s0 σ a) :
    ∃ a', R l = some a' ∧ Holds sp s0 σ a' := by
  unfold flows at hf
  simp only at hf
  split at hf
  · cases hf
  · rename_i a' hR
    exact ⟨a', hR, le_sound hf h⟩

theorem flows_op {strict : Bool} {sp : String} {w : Nat} {s0 : BitVec w} {R : Report w} {l : Loc}
    {σ σ' : State} {a : AOff w} {op : Op} (hf : flows strict sp a R (l, some op) = true) (h : Holds sp s0 σ a)
    (hex : execute σ op = .ok (σ', .fallThrough)) : ∃ a', R l = some a' ∧ Holds sp s0 σ' a' := by
  unfold flows at hf
  simp only at hf
  split at hf
  · cases hf
  · rename_i a' hR
    exact ⟨a', hR, le_sound hf (xfer_sound_op h op hex)⟩

theorem inv_init {strict : Bool} {sp : String} {w : Nat} {s0 : BitVec w} {f : Function} {R : Report w}
    (hc : spoCheck strict sp f R = true) {σ0 : State} {c0 : Config} (h0 : f.initial σ0 = some c0)
    (hs : σ0.get sp = some (ofBV s0)) : Inv strict sp s0 f R c0 := by
  unfold Function.initial at h0
  cases hent : f.cfg.entry with
  | none => simp [hent] at h0
  | some e =>
    simp only [hent, Option.map_some, Option.some.injEq] at h0
    subst h0
    intro bk hb
    simp only at hb
    refine ⟨.value 0, ?_, ?_⟩
    · show σ0.get sp = some (ofBV (s0 + 0))
      have hz : s0 + 0 = s0 := by simp
      rw [hz]; exact hs
    · simp only [spoCheck, Bool.and_eq_true] at hc
      have h1 := hc.1
      unfold entryOk at h1
      simp only [hent, hb] at h1
      exact fun p hp => List.all_eq_true.mp h1 p hp

/-- the entry of an out-edge holds at the end of its block -/
theorem inv_edge {strict : Bool} {sp : String} {w : Nat} {s0 : BitVec w} {f : Function} {R : Report w}
    (hc : spoCheck strict sp f R = true) {c : Config} (hinv : Inv strict sp s0 f R c) {bk : Block}
    (hb : f.block c.block = some bk) (hpos : c.pos = bk.instrs.length) {e : Edge}
    (he : e ∈ f.cfg.edgesOut c.block) :
    ∃ a, R (.edge c.block e.tail) = some a ∧ Holds sp s0 c.state a := by
  have hidx := (block_mem hb).2
  have hok := blockOk_of hc hb
  simp only [blockOk, Bool.and_eq_true] at hok
  have hnone : bk.instrs[c.pos]? = none := by rw [hpos]; simp
  obtain ⟨a, hH, hfl⟩ := hinv bk hb
  unfold primary at hfl
  rw [hnone] at hfl
  simp only at hfl
  by_cases hemp : bk.instrs.isEmpty = true
  · rw [if_pos hemp] at hfl
    obtain ⟨a', hR, hH'⟩ := flows_none (hfl (.empty bk.index, none) (by simp)) hH
    have h2 := hok.1.2
    unfold emptyOk at h2
    simp only [hemp, if_true, hR] at h2
    have h3 := List.all_eq_true.mp h2 e (by rw [hidx]; exact he)
    rw [hidx] at h3
    exact flows_none h3 hH'
  · rw [if_neg hemp] at hfl
    have := hfl (.edge bk.index e.tail, none) (by
      apply List.mem_map.mpr
      exact ⟨e, by rw [hidx]; exact he, rfl⟩)
    rw [hidx] at this
    exact flows_none this hH

theorem inv_step {strict : Bool} {sp : String} {w : Nat} {s0 : BitVec w} {f : Function} {R : Report w}
    (hc : spoCheck strict sp f R = true) {b c : Config} (hinv : Inv strict sp s0 f R b) (hs : FStep f b c) :
    Inv strict sp s0 f R c := by
  cases hs with
  | @instr bk i _ σ' hb hi hex =>
    have hidx := (block_mem hb).2
    obtain ⟨a, hH, hfl⟩ := hinv bk hb
    have hp : (Loc.instr bk.index i.index, some i.op) ∈ primary f bk b.pos := by simp [primary, hi]
    obtain ⟨a', hR, hH'⟩ := flows_op (hfl _ hp) hH hex
    have hok := blockOk_of hc hb
    simp only [blockOk, Bool.and_eq_true] at hok
    have hlt : b.pos < bk.instrs.length := by
      rcases Nat.lt_or_ge b.pos bk.instrs.length with h | h
      · exact h
      · rw [List.getElem?_eq_none h] at hi; cases hi
    have h1 := List.all_eq_true.mp hok.1.1 b.pos (List.mem_range.mpr hlt)
    unfold instrOk at h1
    simp only [hi, hR] at h1
    intro bk' hb'
    simp only at hb'
    rw [hb] at hb'
    cases hb'
    exact ⟨a', hH', fun p hp => List.all_eq_true.mp h1 p hp⟩
  | @edge bk e _ hb hpos he hg =>
    obtain ⟨a, hR, hH⟩ := inv_edge hc hinv hb hpos he
    have hidx := (block_mem hb).2
    have hok := blockOk_of hc hb
    simp only [blockOk, Bool.and_eq_true] at hok
    have h1 := List.all_eq_true.mp hok.2 e (by rw [hidx]; exact he)
    unfold edgeOk at h1
    rw [hidx] at h1
    simp only [hR] at h1
    intro tb htb
    simp only at htb
    simp only [htb] at h1
    exact ⟨a, hH, fun p hp => List.all_eq_true.mp h1 p hp⟩

theorem inv_run {strict : Bool} {sp : String} {w : Nat} {s0 : BitVec w} {f : Function} {R : Report w}
    (hc : spoCheck strict sp f R = true) {σ0 : State} {c0 c : Config} (h0 : f.initial σ0 = some c0)
    (hs : σ0.get sp = some (ofBV s0)) (hrun : FRun f c0 c) : Inv strict sp s0 f R c := by
  induction hrun with
  | refl => exact inv_init hc h0 hs
  | step _ hstep ih => exact inv_step hc ih hstep


/-- after any location executes, its entry in an accepted map holds -/
theorem executed_holds {strict : Bool} {sp : String} {w : Nat} {f : Function} {R : Report w}
    (hc : spoCheck strict sp f R = true) {σ0 : State} {c0 : Config} (h0 : f.initial σ0 = some c0)
    {s0 : BitVec w} (hs : σ0.get sp = some (ofBV s0)) {l : Loc} {σ : State} (hl : Executed f c0 l σ) :
    ∃ a, R l = some a ∧ Holds sp s0 σ a := by
  cases hl with
  | @instr b bk i σ' hrun hb hi hex =>
    have hinv := inv_run hc h0 hs hrun
    have hidx := (block_mem hb).2
    obtain ⟨a, hH, hfl⟩ := hinv bk hb
    have hp : (Loc.instr bk.index i.index, some i.op) ∈ primary f bk b.pos := by simp [primary, hi]
    have := flows_op (hfl _ hp) hH hex
    rw [hidx] at this; exact this
  | @edge b bk e hrun hb hpos he hg => exact inv_edge hc (inv_run hc h0 hs hrun) hb hpos he
  | @empty b bk hrun hb hemp =>
    have hinv := inv_run hc h0 hs hrun
    have hidx := (block_mem hb).2
    obtain ⟨a, hH, hfl⟩ := hinv bk hb
    have hp : (Loc.empty bk.index, (none : Option Op)) ∈ primary f bk b.pos := by simp [primary, hemp]
    have := flows_none (hfl _ hp) hH
    rw [hidx] at this; exact this

end Falcon.C17
