/-
  FalconProofs.C17.Step — soundness of the order `le` and of the checker's abstract step `xfer`, one lemma per
  operation.
-/
import FalconProofs.C17.Linear

namespace Falcon.C17
open Falcon Falcon.SpoCert Falcon.Const

-- ------------------------------------------------------------------ executor states

theorem lookup_filter_ne (l : List (String × Const)) (n x : String) (h : x ≠ n) :
    List.lookup x (l.filter (fun p => p.1 != n)) = List.lookup x l := by
  induction l with
  | nil => rfl
  | cons p rest ih =>
    obtain ⟨k, w⟩ := p
    by_cases hk : k = n
    · subst hk
      have : (x == k) = false := by simp [h]
      simp [List.filter, List.lookup, this, ih]
    · have hk' : (k != n) = true := by simp [hk]
      simp only [List.filter, hk', List.lookup]
      rw [ih]

theorem sget_set_same (σ : State) (n : String) (v : Const) : (σ.set n v).get n = some v := by
  simp [State.get, State.set]

theorem sget_set_ne (σ : State) {n x : String} (v : Const) (h : x ≠ n) : (σ.set n v).get x = σ.get x := by
  have hx : (x == n) = false := by simp [h]
  simp only [State.get, State.set, List.lookup, hx]
  exact lookup_filter_ne _ _ _ h

-- ------------------------------------------------------------------ the order

theorem le_sound {sp : String} {w : Nat} {s0 : BitVec w} {σ : State} {a b : AOff w}
    (hle : a.le b = true) (h : Holds sp s0 σ a) : Holds sp s0 σ b := by
  cases a with
  | bottom => exact absurd h (by simp [Holds])
  | top =>
    cases b with
    | top => trivial
    | value k => simp [AOff.le] at hle
    | bottom => simp [AOff.le] at hle
  | value k =>
    cases b with
    | top => trivial
    | value k' =>
      have : k = k' := by simpa [AOff.le] using hle
      subst this; exact h
    | bottom => simp [AOff.le] at hle

theorem holds_havoc {sp : String} {w : Nat} {s0 : BitVec w} {σ σ' : State} {a : AOff w}
    (h : Holds sp s0 σ a) : Holds sp s0 σ' a.havoc := by
  cases a with
  | bottom => exact absurd h (by simp [Holds])
  | top => trivial
  | value k => trivial

/-- a state that agrees on `sp` satisfies the same claims -/
theorem holds_congr {sp : String} {w : Nat} {s0 : BitVec w} {σ σ' : State} {a : AOff w}
    (hg : σ'.get sp = σ.get sp) (h : Holds sp s0 σ a) : Holds sp s0 σ' a := by
  cases a with
  | bottom => exact h
  | top => trivial
  | value k => simp only [Holds] at h ⊢; rw [hg]; exact h

-- ------------------------------------------------------------------ the abstract step, per operation

theorem xfer_sound_assign {strict : Bool} {sp : String} {w : Nat} {s0 : BitVec w} {σ σ' : State} {a : AOff w}
    (h : Holds sp s0 σ a) {dst : Scalar} {src : Expr}
    (hex : execute σ (.assign dst src) = .ok (σ', .fallThrough)) :
    Holds sp s0 σ' (xfer strict sp w (some (.assign dst src)) a) := by
  cases hev : σ.evalIn src with
  | ok v =>
    have : σ' = σ.set dst.name v := by
      simp [execute, hev] at hex
      exact hex.symm
    subst this
    simp only [xfer]
    by_cases hd : dst.name = sp
    · rw [if_pos hd]
      cases a with
      | bottom => exact absurd h (by simp [Holds])
      | top => trivial
      | value k =>
        simp only
        cases hl : linear sp w src with
        | none => trivial
        | some p =>
          obtain ⟨coef, c⟩ := p
          simp only
          by_cases hc : coef = 1
          · rw [if_pos hc]
            subst hc
            have hv := linear_sound_aux sp w σ (s0 + k) h src _ v hl hev
            simp only [Holds]
            rw [hd, sget_set_same, hv]
            congr 2
            ring
          · rw [if_neg hc]; trivial
    · rw [if_neg hd]
      exact holds_congr (sget_set_ne σ v (fun e => hd e.symm)) h
  | err e => simp [execute, hev] at hex
  | panic => simp [execute, hev] at hex

theorem xfer_sound_load {strict : Bool} {sp : String} {w : Nat} {s0 : BitVec w} {σ σ' : State} {a : AOff w}
    (h : Holds sp s0 σ a) {dst : Scalar} {idx : Expr}
    (hex : execute σ (.load dst idx) = .ok (σ', .fallThrough)) :
    Holds sp s0 σ' (xfer strict sp w (some (.load dst idx)) a) := by
  have : ∃ v, σ' = σ.set dst.name v := by
    cases hi : σ.evalIn idx with
    | ok i =>
      cases ha : addrOf i with
      | ok a =>
        simp only [execute, hi, ha, Res.bind_ok] at hex
        split at hex
        · cases hex
        · split at hex
          · cases hex
          · split at hex
            · rename_i bs _
              simp only [Res.ok.injEq, Prod.mk.injEq] at hex
              exact ⟨_, hex.1.symm⟩
            · cases hex
      | err e => simp [execute, hi, ha] at hex
      | panic => simp [execute, hi, ha] at hex
    | err e => simp [execute, hi] at hex
    | panic => simp [execute, hi] at hex
  obtain ⟨v, hv⟩ := this
  subst hv
  simp only [xfer]
  by_cases hd : dst.name = sp
  · rw [if_pos hd]; exact holds_havoc h
  · rw [if_neg hd]
    exact holds_congr (sget_set_ne σ v (fun e => hd e.symm)) h

theorem xfer_sound_store {strict : Bool} {sp : String} {w : Nat} {s0 : BitVec w} {σ σ' : State} {a : AOff w}
    (h : Holds sp s0 σ a) {idx src : Expr}
    (hex : execute σ (.store idx src) = .ok (σ', .fallThrough)) :
    Holds sp s0 σ' (xfer strict sp w (some (.store idx src)) a) := by
  have : ∃ m, σ' = { σ with mem := m } := by
    cases hv : σ.evalIn src with
    | ok v =>
      cases hi : σ.evalIn idx with
      | ok i =>
        cases ha : addrOf i with
        | ok a =>
          simp only [execute, hv, hi, ha, Res.bind_ok] at hex
          split at hex
          · cases hex
          · split at hex
            · cases hex
            · simp only [Res.ok.injEq, Prod.mk.injEq] at hex
              exact ⟨_, hex.1.symm⟩
        | err e => simp [execute, hv, hi, ha] at hex
        | panic => simp [execute, hv, hi, ha] at hex
      | err e => simp [execute, hv, hi] at hex
      | panic => simp [execute, hv, hi] at hex
    | err e => simp [execute, hv] at hex
    | panic => simp [execute, hv] at hex
  obtain ⟨m, hm⟩ := this
  subst hm
  exact holds_congr rfl h

/-- a branch leaves the fall-through relation: no step of `FStep` executes it -/
theorem branch_no_fallthrough (σ σ' : State) (t : Expr) : execute σ (.branch t) ≠ .ok (σ', .fallThrough) := by
  intro hex
  cases ht : σ.evalIn t with
  | ok v =>
    cases ha : addrOf v with
    | ok a => simp [execute, ht, ha] at hex
    | err e => simp [execute, ht, ha] at hex
    | panic => simp [execute, ht, ha] at hex
  | err e => simp [execute, ht] at hex
  | panic => simp [execute, ht] at hex

/-- the executor has no semantics for intrinsics: no step of `FStep` executes one -/
theorem intrinsic_no_fallthrough (σ σ' : State) (i : Intrinsic) :
    execute σ (.intrinsic i) ≠ .ok (σ', .fallThrough) := by
  simp [execute]

/-- the checker's abstract step over-approximates every operation that executes and falls through -/
theorem xfer_sound_op {strict : Bool} {sp : String} {w : Nat} {s0 : BitVec w} {σ σ' : State} {a : AOff w}
    (h : Holds sp s0 σ a) (op : Op) (hex : execute σ op = .ok (σ', .fallThrough)) :
    Holds sp s0 σ' (xfer strict sp w (some op) a) := by
  cases op with
  | assign dst src => exact xfer_sound_assign h hex
  | load dst idx => exact xfer_sound_load h hex
  | store idx src => exact xfer_sound_store h hex
  | nop =>
    simp [execute] at hex
    subst hex
    exact h
  | branch t => exact absurd hex (branch_no_fallthrough _ _ _)
  | intrinsic i => exact absurd hex (intrinsic_no_fallthrough _ _ _)

end Falcon.C17
