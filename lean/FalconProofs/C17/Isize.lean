/-
  FalconProofs.C17.Isize — falcon's `value_u64() as isize`, read modulo `2^w`, is the offset constant itself.
-/
import FalconModel.SpoCert

namespace Falcon.C17
open Falcon Falcon.SpoCert

/-- `u64 as isize` differs from the `u64` by a multiple of `2^64` -/
theorem asIsize_emod (v : Nat) : asIsize v % (2 : Int) ^ 64 = (v : Int) % (2 : Int) ^ 64 := by
  unfold asIsize
  rw [BitVec.toInt_ofNat']
  have : ((2 ^ 64 : Nat) : Int) = (2 : Int) ^ 64 := by norm_cast
  rw [← this, Int.bmod_emod]

theorem two_pow_dvd {w : Nat} (hw : w ≤ 64) : ((2 : Int) ^ w) ∣ (2 : Int) ^ 64 := by
  have : 64 = w + (64 - w) := by omega
  rw [this, Int.pow_add]
  exact Int.dvd_mul_right _ _

/-- modulo `2^w`, `w ≤ 64`, the `isize` is the `u64` -/
theorem asIsize_emod_w {w : Nat} (hw : w ≤ 64) (v : Nat) :
    asIsize v % (2 : Int) ^ w = (v : Int) % (2 : Int) ^ w := by
  rw [← Int.emod_emod_of_dvd (asIsize v) (two_pow_dvd hw), asIsize_emod, Int.emod_emod_of_dvd _ (two_pow_dvd hw)]

theorem ofInt_congr {w : Nat} {i j : Int} (h : i % (2 : Int) ^ w = j % (2 : Int) ^ w) :
    BitVec.ofInt w i = BitVec.ofInt w j := by
  apply BitVec.eq_of_toNat_eq
  simp only [BitVec.toNat_ofInt]
  have : ((2 ^ w : Nat) : Int) = (2 : Int) ^ w := by norm_cast
  rw [this, h]

/-- reading the reported `isize` back at width `w` gives the offset constant -/
theorem ofReported_asIsize {w : Nat} (hw : w ≤ 64) (x : BitVec w) : ofReported w (asIsize x.toNat) = x := by
  unfold ofReported
  rw [ofInt_congr (asIsize_emod_w hw x.toNat)]
  apply BitVec.eq_of_toNat_eq
  simp only [BitVec.toNat_ofInt]
  have : ((x.toNat : Int) % ((2 ^ w : Nat) : Int)) = ((x.toNat % 2 ^ w : Nat) : Int) := by norm_cast
  rw [this, Int.toNat_natCast, Nat.mod_eq_of_lt x.isLt]

/-- the signed reading of the offset is congruent to the reported `isize` -/
theorem toInt_congr {w : Nat} (hw : w ≤ 64) (x : BitVec w) :
    x.toInt % (2 : Int) ^ w = asIsize x.toNat % (2 : Int) ^ w := by
  rw [asIsize_emod_w hw, BitVec.toInt_eq_toNat_bmod]
  have : ((2 ^ w : Nat) : Int) = (2 : Int) ^ w := by norm_cast
  rw [← this, Int.bmod_emod]

/-- the value of `s + ofInt i`, as an integer modulo `2^w` -/
theorem toNat_add_ofInt {w : Nat} (s : BitVec w) (i : Int) :
    (((s + BitVec.ofInt w i).toNat : Nat) : Int) % (2 : Int) ^ w = ((s.toNat : Int) + i) % (2 : Int) ^ w := by
  have h2 : ((2 ^ w : Nat) : Int) = (2 : Int) ^ w := by norm_cast
  have hpos : (0 : Int) < (2 : Int) ^ w := Int.pow_pos (by omega)
  rw [BitVec.toNat_add, BitVec.toNat_ofInt]
  push_cast
  rw [Int.toNat_of_nonneg (Int.emod_nonneg _ (by omega))]
  generalize (2 : Int) ^ w = M
  rw [Int.emod_emod_of_dvd _ (Int.dvd_refl _), Int.add_emod, Int.emod_emod_of_dvd _ (Int.dvd_refl _),
    ← Int.add_emod]

end Falcon.C17
