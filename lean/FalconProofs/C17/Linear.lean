/-
  FalconProofs.C17.Linear — the executor's `symbolize_and_eval` is compositional, agrees with `eval` on closed
  expressions, and the checker's linear form of an expression is what the expression evaluates to.
-/
import FalconModel.SpoCert
import FalconProofs.C04.Arith
import Mathlib.Data.BitVec
import Mathlib.Tactic.Ring

namespace Falcon.C17
open Falcon Falcon.SpoCert Falcon.Const

-- ------------------------------------------------------------------ smart constructors

theorem mkBin_ok {op : BinOp} {l r x : Expr} (h : Expr.mkBin op l r = .ok x) : x = .bin op l r := by
  unfold Expr.mkBin at h
  split at h
  · cases h
  · cases h; rfl

theorem mkExt_ok {op : ExtOp} {b : Nat} {e x : Expr} (h : Expr.mkExt op b e = .ok x) : x = .ext op b e := by
  unfold Expr.mkExt at h
  cases op <;> simp only at h <;> (split at h; · cases h) <;> (cases h; rfl)

theorem mkIte_ok {c t e x : Expr} (h : Expr.mkIte c t e = .ok x) : x = .ite c t e := by
  unfold Expr.mkIte at h
  split at h
  · cases h
  · cases h; rfl

-- ------------------------------------------------------------------ `symbolize_and_eval` node by node

/-- an addition, subtraction, … evaluates iff both operands do and the operator applies -/
theorem evalIn_bin {σ : State} {op : BinOp} {l r : Expr} {v : Const}
    (h : σ.evalIn (.bin op l r) = .ok v) :
    ∃ a b, σ.evalIn l = .ok a ∧ σ.evalIn r = .ok b ∧ op.apply a b = .ok v := by
  unfold State.evalIn at h
  simp only [State.symbolize] at h
  cases hl : σ.symbolize l with
  | ok l' =>
    cases hr : σ.symbolize r with
    | ok r' =>
      rw [hl, hr] at h
      simp only [Res.bind_ok] at h
      cases hm : Expr.mkBin op l' r' with
      | ok x =>
        rw [hm] at h
        have hx := mkBin_ok hm
        subst hx
        simp only [Res.bind_ok, Expr.eval] at h
        cases ha : l'.eval with
        | ok a =>
          cases hb : r'.eval with
          | ok b =>
            rw [ha, hb] at h
            simp only [Res.bind_ok] at h
            refine ⟨a, b, ?_, ?_, h⟩
            · simp [State.evalIn, hl, ha]
            · simp [State.evalIn, hr, hb]
          | err e => rw [ha, hb] at h; simp at h
          | panic => rw [ha, hb] at h; simp at h
        | err e => rw [ha] at h; simp at h
        | panic => rw [ha] at h; simp at h
      | err e => rw [hm] at h; simp at h
      | panic => rw [hm] at h; simp at h
    | err e => rw [hl, hr] at h; simp at h
    | panic => rw [hl, hr] at h; simp at h
  | err e => rw [hl] at h; simp at h
  | panic => rw [hl] at h; simp at h

/-- `symbolize` leaves a closed expression as it is (when its rebuild passes the sort checks) -/
theorem symbolize_closed (σ : State) : ∀ (e e' : Expr), e.allConstants = true → σ.symbolize e = .ok e' → e' = e := by
  intro e
  induction e with
  | scalar s => intro e' hc; simp [Expr.allConstants] at hc
  | const c => intro e' _ h; simp [State.symbolize] at h; exact h.symm
  | bin op l r ihl ihr =>
    intro e' hc h
    simp only [Expr.allConstants, Bool.and_eq_true] at hc
    simp only [State.symbolize] at h
    cases hl : σ.symbolize l with
    | ok l' =>
      cases hr : σ.symbolize r with
      | ok r' =>
        rw [hl, hr] at h
        simp only [Res.bind_ok] at h
        have h1 := ihl l' hc.1 hl
        have h2 := ihr r' hc.2 hr
        subst h1; subst h2
        exact mkBin_ok h
      | err e => rw [hl, hr] at h; simp at h
      | panic => rw [hl, hr] at h; simp at h
    | err e => rw [hl] at h; simp at h
    | panic => rw [hl] at h; simp at h
  | ext op b e ih =>
    intro e' hc h
    simp only [Expr.allConstants] at hc
    simp only [State.symbolize] at h
    cases he : σ.symbolize e with
    | ok x =>
      rw [he] at h
      simp only [Res.bind_ok] at h
      have h1 := ih x hc he
      subst h1
      exact mkExt_ok h
    | err e => rw [he] at h; simp at h
    | panic => rw [he] at h; simp at h
  | ite c t e ihc iht ihe =>
    intro e' hc h
    simp only [Expr.allConstants, Bool.and_eq_true] at hc
    simp only [State.symbolize] at h
    cases h1 : σ.symbolize c with
    | ok c' =>
      cases h2 : σ.symbolize t with
      | ok t' =>
        cases h3 : σ.symbolize e with
        | ok x =>
          rw [h1, h2, h3] at h
          simp only [Res.bind_ok] at h
          have e1 := ihc c' hc.1.1 h1
          have e2 := iht t' hc.1.2 h2
          have e3 := ihe x hc.2 h3
          subst e1; subst e2; subst e3
          exact mkIte_ok h
        | err e => rw [h1, h2, h3] at h; simp at h
        | panic => rw [h1, h2, h3] at h; simp at h
      | err e => rw [h1, h2] at h; simp at h
      | panic => rw [h1, h2] at h; simp at h
    | err e => rw [h1] at h; simp at h
    | panic => rw [h1] at h; simp at h

/-- a closed expression evaluates, in any state, to what `eval` gives -/
theorem evalIn_closed {σ : State} {e : Expr} {v : Const} (hc : e.allConstants = true)
    (h : σ.evalIn e = .ok v) : e.eval = .ok v := by
  unfold State.evalIn at h
  cases hs : σ.symbolize e with
  | ok e' =>
    rw [hs] at h
    simp only [Res.bind_ok] at h
    have := symbolize_closed σ e e' hc hs
    subst this
    exact h
  | err x => rw [hs] at h; simp at h
  | panic => rw [hs] at h; simp at h

theorem closedVal_sound {w : Nat} {σ : State} {e : Expr} {p : BitVec w × BitVec w} {v : Const}
    (hl : closedVal w e = some p) (h : σ.evalIn e = .ok v) : p.1 = 0 ∧ v = ofBV p.2 := by
  unfold closedVal at hl
  split at hl
  · rename_i hc
    have he := evalIn_closed hc h
    rw [he] at hl
    simp only at hl
    split at hl
    · rename_i hb
      cases hl
      refine ⟨rfl, ?_⟩
      obtain ⟨hb1, hb2⟩ := hb
      cases v with
      | mk bits val =>
        simp only at hb1 hb2
        subst hb1
        simp [ofBV, BitVec.toNat_ofNat, Nat.mod_eq_of_lt hb2]
    · cases hl
  · cases hl

-- ------------------------------------------------------------------ the ring identities the linear form needs

theorem lin_add {w : Nat} (s a b c d : BitVec w) : (s * a + b) + (s * c + d) = s * (a + c) + (b + d) := by ring

theorem lin_sub {w : Nat} (s a b c d : BitVec w) : (s * a + b) - (s * c + d) = s * (a - c) + (b - d) := by ring

theorem lin_mul_left {w : Nat} (s b c d : BitVec w) : (s * 0 + b) * (s * c + d) = s * (b * c) + b * d := by ring

theorem lin_mul_right {w : Nat} (s a b d : BitVec w) : (s * a + b) * (s * 0 + d) = s * (a * d) + b * d := by ring

-- ------------------------------------------------------------------ the linear form

/-- **the linear form is sound**: if `linear sp w e = some (coef, c)`, then in every state where `sp` holds the
    `w`-bit value `s`, whenever the executor evaluates `e` at all, the result is the `w`-bit value
    `s * coef + c` (arithmetic of `BitVec w`, i.e. modulo `2^w`) -/
theorem linear_sound_aux (sp : String) (w : Nat) (σ : State) (s : BitVec w) (hs : σ.get sp = some (ofBV s)) :
    ∀ (e : Expr) (p : BitVec w × BitVec w) (v : Const), linear sp w e = some p → σ.evalIn e = .ok v →
      v = ofBV (s * p.1 + p.2) := by
  intro e
  induction e with
  | scalar x =>
    intro p v hl h
    simp only [linear] at hl
    split at hl
    · rename_i hn
      cases hl
      simp only [State.evalIn, State.symbolize, hn, hs, Res.bind_ok, Expr.eval] at h
      cases h
      simp
    · cases hl
  | const c =>
    intro p v hl h
    simp only [linear] at hl
    obtain ⟨h1, h2⟩ := closedVal_sound hl h
    rw [h1, h2]; simp
  | bin op l r ihl ihr =>
    intro p v hl h
    cases op with
    | add =>
      simp only [linear] at hl
      cases h1 : linear sp w l with
      | none => rw [h1] at hl; simp at hl
      | some p1 =>
        cases h2 : linear sp w r with
        | none => rw [h1, h2] at hl; simp at hl
        | some p2 =>
          rw [h1, h2] at hl
          obtain ⟨a, b⟩ := p1
          obtain ⟨c, d⟩ := p2
          simp only [Option.some.injEq] at hl
          subst hl
          obtain ⟨x, y, hx, hy, hop⟩ := evalIn_bin h
          have ex := ihl _ _ h1 hx
          have ey := ihr _ _ h2 hy
          subst ex; subst ey
          simp only [BinOp.apply] at hop
          rw [add_ofBV] at hop
          cases hop
          simp only
          rw [lin_add]
    | sub =>
      simp only [linear] at hl
      cases h1 : linear sp w l with
      | none => rw [h1] at hl; simp at hl
      | some p1 =>
        cases h2 : linear sp w r with
        | none => rw [h1, h2] at hl; simp at hl
        | some p2 =>
          rw [h1, h2] at hl
          obtain ⟨a, b⟩ := p1
          obtain ⟨c, d⟩ := p2
          simp only [Option.some.injEq] at hl
          subst hl
          obtain ⟨x, y, hx, hy, hop⟩ := evalIn_bin h
          have ex := ihl _ _ h1 hx
          have ey := ihr _ _ h2 hy
          subst ex; subst ey
          simp only [BinOp.apply] at hop
          rw [sub_ofBV] at hop
          cases hop
          simp only
          rw [lin_sub]
    | mul =>
      simp only [linear] at hl
      cases h1 : linear sp w l with
      | none => rw [h1] at hl; simp at hl
      | some p1 =>
        cases h2 : linear sp w r with
        | none => rw [h1, h2] at hl; simp at hl
        | some p2 =>
          rw [h1, h2] at hl
          obtain ⟨a, b⟩ := p1
          obtain ⟨c, d⟩ := p2
          simp only at hl
          obtain ⟨x, y, hx, hy, hop⟩ := evalIn_bin h
          have ex := ihl _ _ h1 hx
          have ey := ihr _ _ h2 hy
          subst ex; subst ey
          simp only [BinOp.apply] at hop
          rw [mul_ofBV] at hop
          cases hop
          split at hl
          · rename_i ha
            cases hl
            subst ha
            simp only
            rw [lin_mul_left]
          · split at hl
            · rename_i hc
              cases hl
              subst hc
              simp only
              rw [lin_mul_right]
            · cases hl
    | divu | modu | divs | mods | and | or | xor | shl | shr | ashr | cmpeq | cmpneq | cmplts | cmpltu =>
      simp only [linear] at hl
      obtain ⟨h1, h2⟩ := closedVal_sound hl h
      rw [h1, h2]; simp
  | ext op b e ih =>
    intro p v hl h
    simp only [linear] at hl
    obtain ⟨h1, h2⟩ := closedVal_sound hl h
    rw [h1, h2]; simp
  | ite c t e _ _ _ =>
    intro p v hl h
    simp only [linear] at hl
    obtain ⟨h1, h2⟩ := closedVal_sound hl h
    rw [h1, h2]; simp

end Falcon.C17
