/-
  FalconProofs.C08.Frame — what `load` depends on (cells, endianness, backing), equality, and permissions.
-/
import FalconProofs.C08.Store

namespace Falcon
namespace Paged

/-! ### `load` only reads cells, endianness and backing -/

theorem loadBacking_congr {m₁ m₂ : Mem} (hb : m₁.backing = m₂.backing) (a : Nat) :
    loadBacking m₁ a = loadBacking m₂ a := by
  simp only [loadBacking, backingGet8, hb]

theorem loadFirst_congr {m₁ m₂ : Mem} (hc : ∀ x, loadCell m₁ x = loadCell m₂ x) (he : m₁.endian = m₂.endian)
    (hb : m₁.backing = m₂.backing) (a n : Nat) : loadFirst m₁ a n = loadFirst m₂ a n := by
  unfold loadFirst
  rw [hc a, he]
  cases loadCell m₂ a with
  | none => simp only [loadBacking_congr hb]
  | some c =>
    cases c with
    | value v => rfl
    | backref b => simp only [hc b]

theorem load8_congr {m₁ m₂ : Mem} (hc : ∀ x, loadCell m₁ x = loadCell m₂ x) (he : m₁.endian = m₂.endian)
    (hb : m₁.backing = m₂.backing) (a : Nat) : load8 m₁ a = load8 m₂ a := by
  simp only [load8, loadFirst_congr hc he hb]

theorem byteLoop_congr {m₁ m₂ : Mem} (hc : ∀ x, loadCell m₁ x = loadCell m₂ x) (he : m₁.endian = m₂.endian)
    (hb : m₁.backing = m₂.backing) (a bits bytes : Nat) : ∀ (k off : Nat) (r : Option Const),
    byteLoop m₁ a bits bytes k off r = byteLoop m₂ a bits bytes k off r := by
  intro k
  induction k with
  | zero => intro off r; rfl
  | succ k ih =>
    intro off r
    simp only [byteLoop, load8_congr hc he hb, loadBacking_congr hb, he, ih]

theorem load_congr {m₁ m₂ : Mem} (hc : ∀ x, loadCell m₁ x = loadCell m₂ x) (he : m₁.endian = m₂.endian)
    (hb : m₁.backing = m₂.backing) (a n : Nat) : load m₁ a n = load m₂ a n := by
  simp only [load, loadFirst_congr hc he hb, byteLoop_congr hc he hb]

/-! ### equality -/

theorem alistEq_get {β : Type} [DecidableEq β] {x y : AList β} (h : alistEq x y = true) (k : Nat) :
    AList.get x k = AList.get y k := by
  simp only [alistEq, List.all_eq_true, List.mem_append, decide_eq_true_eq] at h
  by_cases hk : k ∈ AList.keys x ∨ k ∈ AList.keys y
  · exact h k hk
  · rw [AList.get_none_of_not_mem x k (fun h' => hk (Or.inl h')),
      AList.get_none_of_not_mem y k (fun h' => hk (Or.inr h'))]

theorem alistEq_refl {β : Type} [DecidableEq β] (x : AList β) : alistEq x x = true := by
  simp [alistEq]

theorem eq_refl' (m : Mem) : eq m m = true := by
  unfold eq
  simp only [alistEq_refl, decide_true, Bool.and_self, if_true]
  cases m.backing <;> simp

theorem eq_fields {m₁ m₂ : Mem} (h : eq m₁ m₂ = true) :
    (∀ x, loadCell m₁ x = loadCell m₂ x) ∧ m₁.endian = m₂.endian ∧ m₁.backing = m₂.backing ∧
    (∀ k, AList.get m₁.pages k = AList.get m₂.pages k) := by
  unfold eq at h
  split at h
  · rename_i hcond
    simp only [Bool.and_eq_true, decide_eq_true_eq] at hcond
    obtain ⟨⟨hp, hcells⟩, hend⟩ := hcond
    refine ⟨fun x => alistEq_get hcells x, hend, ?_, fun k => alistEq_get hp k⟩
    cases h1 : m₁.backing <;> cases h2 : m₂.backing <;> simp_all
  · cases h

theorem eq_load' {m₁ m₂ : Mem} (h : eq m₁ m₂ = true) (a n : Nat) : load m₁ a n = load m₂ a n := by
  obtain ⟨hc, he, hb, _⟩ := eq_fields h
  exact load_congr hc he hb a n

theorem eq_permissions {m₁ m₂ : Mem} (h : eq m₁ m₂ = true) (a : Nat) :
    permissions m₁ a = permissions m₂ a := by
  obtain ⟨_, _, hb, hp⟩ := eq_fields h
  simp only [permissions, hp, hb]


/-! ### permissions -/

theorem pageOf_eq (x : Nat) : pageOf x = 1024 * (x / 1024) := by
  simp only [pageOf, PAGE_SIZE]; omega

theorem permissions_storeCell (m : Mem) (a : Nat) (c : Cell) (x : Nat) :
    permissions (storeCell m a c) x = permissions m x := by
  unfold permissions storeCell
  simp only []
  cases h : AList.get m.pages (pageOf a) with
  | some _ => rfl
  | none =>
    simp only [AList.get_set]
    by_cases hx : pageOf x = pageOf a
    · simp [hx, h]
    · simp [hx]

theorem permissions_storeBackrefs (m : Mem) (a i k x : Nat) :
    permissions (storeBackrefs m a i k) x = permissions m x := by
  induction k generalizing m i with
  | zero => rfl
  | succ k ih => simp only [storeBackrefs, ih, permissions_storeCell]

theorem permissions_storeNoBackref (m : Mem) (a : Nat) (v : Const) (x : Nat) :
    permissions (storeNoBackref m a v) x = permissions m x := by
  simp only [storeNoBackref, permissions_storeBackrefs, permissions_storeCell]

theorem permissions_rehome (m : Mem) (w : Option (Nat × Const)) (x : Nat) :
    permissions (rehome m w) x = permissions m x := by
  cases w with
  | none => rfl
  | some p => obtain ⟨a, v⟩ := p; simp only [rehome, permissions_storeNoBackref]

/-- a store never changes reported permissions -/
theorem store_permissions {m m' : Mem} {a : Nat} {v : Const} (h : store m a v = .ok m') (x : Nat) :
    permissions m' x = permissions m x := by
  unfold store at h
  split at h
  · cases h
  · split at h
    · cases h
    · simp only [] at h
      cases h1 : storeTailOpt m (a + v.bits / 8) with
      | ok tl =>
        rw [h1, Res.bind_ok] at h
        cases h2 : storeHead (rehome m tl) a with
        | ok hd =>
          rw [h2, Res.bind_ok] at h
          simp only [Res.pure_eq, Res.ok.injEq] at h
          subst h
          simp only [permissions_storeNoBackref, permissions_rehome]
        | err e => rw [h2] at h; cases h
        | panic => rw [h2] at h; cases h
      | err e => rw [h1] at h; cases h
      | panic => rw [h1] at h; cases h

theorem setPermLoop_get (p limit : Nat) : ∀ (fuel pa : Nat) (pages : AList (Option Nat)) (q : Nat),
    (q < pa ∨ limit ≤ q → AList.get (setPermLoop pages p limit pa fuel) q = AList.get pages q) ∧
    (∀ t, q = pa + 1024 * t → t < fuel → q < limit → q < U64 →
      AList.get (setPermLoop pages p limit pa fuel) q = some (some p)) := by
  intro fuel
  induction fuel with
  | zero => intro pa pages q; exact ⟨fun _ => rfl, fun t _ ht => absurd ht (Nat.not_lt_zero _)⟩
  | succ fuel ih =>
    intro pa pages q
    unfold setPermLoop
    by_cases hpa : pa < limit
    · rw [if_pos hpa]
      have hps : PAGE_SIZE = 1024 := rfl
      by_cases hnext : pa + PAGE_SIZE < U64
      · rw [if_pos hnext]
        obtain ⟨ih1, ih2⟩ := ih (pa + PAGE_SIZE) (AList.set pages pa (some p)) q
        constructor
        · intro hq
          rw [ih1 (by omega), AList.get_set, if_neg (by omega)]
        · intro t hqt ht hql hqu
          by_cases ht0 : t = 0
          · subst ht0
            rw [ih1 (by omega), AList.get_set, if_pos (by omega)]
          · exact ih2 (t - 1) (by omega) (by omega) hql hqu
      · rw [if_neg hnext]
        constructor
        · intro hq
          rw [AList.get_set, if_neg (by omega)]
        · intro t hqt ht hql hqu
          rw [AList.get_set, if_pos (by omega)]
    · rw [if_neg hpa]
      exact ⟨fun _ => rfl, fun t hqt _ hql _ => by omega⟩

/-- permissions set on a range are reported for every address in it -/
theorem perm_set' (m : Mem) (a len p x : Nat) (h1 : a ≤ x) (h2 : x < a + len) (h3 : a + len ≤ U64) :
    permissions (setPermissions m a len p) x = some p := by
  have hU := U64_eq
  unfold permissions setPermissions
  simp only []
  have key := (setPermLoop_get p (if a + len < U64 then a + len else U64 - 1) (len / PAGE_SIZE + 2) (pageOf a)
    m.pages (pageOf x)).2 (x / 1024 - a / 1024) (by rw [pageOf_eq, pageOf_eq]; omega)
    (by simp only [PAGE_SIZE]; omega) (by rw [pageOf_eq]; split <;> omega) (by rw [pageOf_eq]; omega)
  rw [key]

/-- an address on a page the range does not touch keeps its permissions -/
theorem perm_other' (m : Mem) (a len p x : Nat) (h : pageOf x < pageOf a ∨ a + len ≤ pageOf x) :
    permissions (setPermissions m a len p) x = permissions m x := by
  unfold permissions setPermissions
  simp only []
  have key := (setPermLoop_get p (if a + len < U64 then a + len else U64 - 1) (len / PAGE_SIZE + 2) (pageOf a)
    m.pages (pageOf x)).1 (by split <;> omega)
  rw [key]

theorem permissions_new (e : Endian) (x : Nat) : permissions (new e) x = none := rfl
theorem permissions_newWithBacking (e : Endian) (b : Backing) (x : Nat) :
    permissions (newWithBacking e b) x = b.permissions x := rfl

end Paged
end Falcon
