/-
  FalconProofs.C08.Load — `Memory::load` against the byte array: the whole-value fast path (every
  truncate/shift case of both endiannesses) and the byte-wise reassembly loop.
-/
import FalconProofs.C08.Inv
namespace Falcon
namespace Paged

theorem mod_mod_pow (y p q : Nat) (h : q ≤ p) : y % 2 ^ p % 2 ^ q = y % 2 ^ q :=
  Nat.mod_mod_of_dvd _ (Nat.pow_dvd_pow 2 h)

/-- shift right then truncate: the bits `s … s+t-1` -/
theorem extract_eq {v : Const} (g : Good v) (s t : Nat) (hs : s < v.bits) (hst : t < v.bits) :
    (vshr v s >>= fun x => vtrun x t) = .ok ⟨t, v.val / 2 ^ s % 2 ^ t⟩ := by
  have hb : v.bits < 2 ^ 64 := by have := g.small; omega
  rw [vshr_ok hs hb, Res.bind_ok, vtrun_eq]
  have h1 : ¬ (v.bits ≤ t ∨ v.bits = 0) := by omega
  simp only [h1, if_false, Const.new, Const.trim]
  rw [mod_mod_pow _ _ _ (by omega)]

theorem vtrun_mod {t : Nat} (y n : Nat) (h : n < t) :
    vtrun ⟨t, y % 2 ^ t⟩ n = .ok ⟨n, y % 2 ^ n⟩ := by
  rw [vtrun_eq]
  have h1 : ¬ (t ≤ n ∨ t = 0) := by omega
  simp only [h1, if_false, Const.new, Const.trim]
  rw [mod_mod_pow _ _ _ (by omega)]

theorem sub_full (e : Endian) {v : Const} (g : Good v) : sub e v 0 (v.bits / 8) = v := by
  have hb := g.bits_eq
  cases e <;> cases v <;> simp_all [sub, Nat.mod_eq_of_lt g.wf]


theorem loadFirst_spec {m : Mem} (I : Inv m) (a j : Nat) (hj : 0 < j) (hn : 8 * j < 2 ^ 63) :
    loadFirst m a (8 * j) = .ok (match owner m a with
      | some (v, d) => some (sub m.endian v d (min j (v.bits / 8 - d)))
      | none => loadBacking m a) := by
  unfold loadFirst
  cases hc : loadCell m a with
  | none => simp [owner, hc]
  | some c =>
    cases c with
    | value v =>
      obtain ⟨g, _, _⟩ := I.val a v hc
      have hb := g.bits_eq
      have ho : owner m a = some (v, 0) := by simp [owner, hc]
      simp only [ho]
      by_cases h1 : v.bits ≤ 8 * j
      · have : min j (v.bits / 8 - 0) = v.bits / 8 := by omega
        simp only [h1, if_true, this, sub_full _ g]
      · simp only [h1, if_false]
        have hm : min j (v.bits / 8 - 0) = j := by omega
        rw [hm]
        cases he : m.endian with
        | little =>
          simp only [vtrun_eq]
          have h2 : ¬ (v.bits ≤ 8 * j ∨ v.bits = 0) := by omega
          simp [h2, sub, Const.new, Const.trim]
        | big =>
          simp only []
          rw [csub_ok (by omega), Res.bind_ok]
          have hb64 : v.bits < 2 ^ 64 := by have := g.small; omega
          rw [vshr_ok (by omega) hb64, Res.bind_ok, vtrun_mod _ _ (by omega), Res.bind_ok]
          simp only [Res.pure_eq, sub]
          congr 6; omega
    | backref b =>
      obtain ⟨v, hv, hlt, hcov⟩ := I.ref a b hc
      obtain ⟨g, _, _⟩ := I.val b v hv
      have hb := g.bits_eq
      have hb64 : v.bits < 2 ^ 64 := by have := g.small; omega
      have ho : owner m a = some (v, a - b) := by simp [owner, hc, hv]
      simp only [ho, hv]
      rw [csub_ok (by omega), Res.bind_ok, cmul_ok (by rw [U64_eq]; omega), Res.bind_ok]
      cases he : m.endian with
      | little =>
        simp only []
        rw [csub_ok (by omega), Res.bind_ok, vshr_ok (by omega) hb64, Res.bind_ok, vtrun_mod _ _ (by omega), Res.bind_ok]
        by_cases h2 : v.bits - (a - b) * 8 > 8 * j
        · have hm : min j (v.bits / 8 - (a - b)) = j := by omega
          simp only [h2, if_true, hm]
          rw [vtrun_mod _ _ (by omega), Res.bind_ok]
          simp only [Res.pure_eq, sub]
          congr 6; omega
        · have hm : min j (v.bits / 8 - (a - b)) = v.bits / 8 - (a - b) := by omega
          simp only [h2, if_false, hm, Res.pure_eq, sub]
          have e1 : 8 * (v.bits / 8 - (a - b)) = v.bits - (a - b) * 8 := by omega
          have e2 : 8 * (a - b) = (a - b) * 8 := by omega
          rw [e1, e2]
      | big =>
        simp only []
        rw [cadd_ok (by rw [U64_eq]; have := g.small; omega), Res.bind_ok]
        by_cases h2 : 8 * j + (a - b) * 8 ≥ v.bits
        · have hm : min j (v.bits / 8 - (a - b)) = v.bits / 8 - (a - b) := by omega
          simp only [h2, if_true, Res.pure_eq, Res.bind_ok]
          rw [csub_ok (by omega), Res.bind_ok, csub_ok (by omega), Res.bind_ok,
            vshr_ok (by omega) hb64, Res.bind_ok, vtrun_mod _ _ (by omega), Res.bind_ok]
          have h3 : ¬ (v.bits - (a - b) * 8 - 0 > 8 * j) := by omega
          simp only [h3, if_false, hm, Res.pure_eq, sub]
          have e1 : 8 * (v.bits / 8 - (a - b)) = v.bits - (a - b) * 8 - 0 := by omega
          have e2 : 8 * (v.bits / 8 - (a - b) - (v.bits / 8 - (a - b))) = 0 := by omega
          rw [e1, e2]
        · have hm : min j (v.bits / 8 - (a - b)) = j := by omega
          simp only [h2, if_false, Res.pure_eq, Res.bind_ok]
          rw [csub_ok (by omega), Res.bind_ok, csub_ok (by omega), Res.bind_ok, csub_ok (by omega), Res.bind_ok,
            csub_ok (by omega), Res.bind_ok,
            vshr_ok (by omega) hb64, Res.bind_ok, vtrun_mod _ _ (by omega), Res.bind_ok]
          have e0 : v.bits - (a - b) * 8 - (v.bits - 8 * j - (a - b) * 8) = 8 * j := by omega
          have h3 : ¬ (v.bits - (a - b) * 8 - (v.bits - 8 * j - (a - b) * 8) > 8 * j) := by omega
          simp only [h3, if_false, hm, Res.pure_eq, sub]
          have e2 : 8 * (v.bits / 8 - (a - b) - j) = v.bits - 8 * j - (a - b) * 8 := by omega
          rw [e0, e2]


/-! ### the byte loop -/

theorem valLE_append (l r : List UInt8) : valLE (l ++ r) = valLE l + 2 ^ (8 * l.length) * valLE r := by
  induction l with
  | nil => simp [valLE]
  | cons b t ih =>
    simp only [List.cons_append, valLE, ih, List.length_cons]
    have : 2 ^ (8 * (t.length + 1)) = 256 * 2 ^ (8 * t.length) := by
      rw [show 8 * (t.length + 1) = 8 + 8 * t.length by omega, Nat.pow_add]
    rw [this, Nat.mul_add, Nat.mul_assoc]; omega

theorem valLE_lt (l : List UInt8) : valLE l < 2 ^ (8 * l.length) := by
  induction l with
  | nil => simp [valLE]
  | cons b t ih =>
    simp only [valLE, List.length_cons]
    have : 2 ^ (8 * (t.length + 1)) = 256 * 2 ^ (8 * t.length) := by
      rw [show 8 * (t.length + 1) = 8 + 8 * t.length by omega, Nat.pow_add]
    have hb := UInt8.toNat_lt_size b
    have : b.toNat < 256 := hb
    omega

/-- the accumulator of the byte loop after the bytes `l` (of `j`) -/
def acc (e : Endian) (j : Nat) (l : List UInt8) : Nat :=
  match e with
  | .little => valLE l
  | .big => valLE l.reverse * 2 ^ (8 * (j - l.length))

theorem or_disjoint (a x i : Nat) (h : x < 2 ^ i) : a * 2 ^ i ||| x = a * 2 ^ i + x := by
  rw [← Nat.shiftLeft_eq, Nat.shiftLeft_add_eq_or_of_lt h]

theorem acc_step (e : Endian) (j : Nat) (l : List UInt8) (x : UInt8) (h : l.length < j) :
    acc e j l ||| (x.toNat * 2 ^ (shiftOf e j l.length)) = acc e j (l ++ [x]) := by
  have hx : x.toNat < 256 := UInt8.toNat_lt_size x
  cases e with
  | little =>
    simp only [acc, shiftOf, valLE_append, valLE]
    rw [Nat.or_comm, or_disjoint _ _ _ (by rw [Nat.mul_comm]; exact valLE_lt l)]
    rw [Nat.mul_comm l.length 8, Nat.mul_comm]; simp only [Nat.mul_zero, Nat.add_zero]; omega
  | big =>
    simp only [acc, shiftOf, List.reverse_append, List.reverse_cons, List.reverse_nil, List.nil_append,
      List.cons_append, valLE, List.length_append, List.length_cons, List.length_nil]
    have e1 : 8 * (j - l.length) = 8 + (j - l.length - 1) * 8 := by omega
    have e2 : 8 * (j - (l.length + 0 + 1)) = (j - l.length - 1) * 8 := by omega
    rw [e1, e2, Nat.pow_add, ← Nat.mul_assoc]
    have hlt : x.toNat * 2 ^ ((j - l.length - 1) * 8) < 2 ^ 8 * 2 ^ ((j - l.length - 1) * 8) :=
      Nat.mul_lt_mul_of_pos_right hx (Nat.two_pow_pos _)
    have e3 : valLE l.reverse * 2 ^ 8 * 2 ^ ((j - l.length - 1) * 8) =
        valLE l.reverse * 2 ^ (8 + (j - l.length - 1) * 8) := by rw [Nat.mul_assoc, ← Nat.pow_add]
    rw [e3, or_disjoint _ _ _ (by rw [Nat.pow_add]; exact hlt), Nat.pow_add, Nat.add_mul]
    generalize 2 ^ ((j - l.length - 1) * 8) = P
    generalize valLE l.reverse = A
    rw [Nat.add_comm, show (2:Nat) ^ 8 = 256 from rfl, ← Nat.mul_assoc, Nat.mul_comm A 256]


theorem acc_lt (e : Endian) (j : Nat) (l : List UInt8) (h : l.length ≤ j) : acc e j l < 2 ^ (8 * j) := by
  cases e with
  | little =>
    exact Nat.lt_of_lt_of_le (valLE_lt l) (Nat.pow_le_pow_right (by omega) (by omega))
  | big =>
    simp only [acc]
    have h1 := valLE_lt l.reverse
    rw [List.length_reverse] at h1
    have : 2 ^ (8 * j) = 2 ^ (8 * l.length) * 2 ^ (8 * (j - l.length)) := by
      rw [← Nat.pow_add]; congr 1; omega
    rw [this]
    exact Nat.mul_lt_mul_of_pos_right h1 (Nat.two_pow_pos _)

theorem acc_full (e : Endian) (l : List UInt8) : fromBytes e l = ⟨8 * l.length, acc e l.length l⟩ := by
  cases e <;> simp [fromBytes, acc]

/-- an 8-bit constant of a byte: `il::const_(v as u64, 8)` -/
def byteConst (x : UInt8) : Const := Const.new x.toNat 8

theorem sub_one (e : Endian) (v : Const) (d : Nat) (h : d < v.bits / 8) :
    sub e v d 1 = byteConst (byteAt e v d) := by
  cases e with
  | little => simp [sub, byteConst, byteAt, Const.new, Const.trim, p256]
  | big =>
    simp only [sub, byteConst, byteAt, Const.new, Const.trim, p256, UInt8.toNat_ofNat']
    have : v.bits / 8 - d - 1 = v.bits / 8 - 1 - d := by omega
    rw [this]; simp

theorem loadBacking_eq (m : Mem) (a : Nat) : loadBacking m a = (backingGet8 m a).map byteConst := rfl

theorem abs_of_owner_none {m : Mem} {a : Nat} (h : owner m a = none) : abs m a = backingGet8 m a := by
  simp [abs, h]

theorem abs_of_owner_some {m : Mem} {a : Nat} {v : Const} {d : Nat} (h : owner m a = some (v, d)) :
    abs m a = some (byteAt m.endian v d) := by
  simp [abs, h]

theorem load8_spec {m : Mem} (I : Inv m) (a : Nat) :
    load8 m a = .ok ((abs m a).map byteConst) := by
  unfold load8
  have := loadFirst_spec I a 1 (by omega) (by omega)
  simp only [Nat.mul_one] at this
  rw [this, Res.bind_ok]
  cases ho : owner m a with
  | none =>
    simp only [abs_of_owner_none ho, loadBacking_eq]
    cases backingGet8 m a with
    | none => rfl
    | some x => simp [byteConst, Const.new]
  | some p =>
    obtain ⟨v, d⟩ := p
    obtain ⟨g, hd, _⟩ := I.owner_spec ho
    have hm : min 1 (v.bits / 8 - d) = 1 := by omega
    have hbc : (byteConst (byteAt m.endian v d)).bits = 8 := rfl
    simp only [abs_of_owner_some ho, hm, Option.map_some, Res.pure_eq, sub_one _ _ _ hd, hbc, if_true]


theorem vzext_byte (x : UInt8) (j : Nat) (hj : 1 < j) : vzext (byteConst x) (8 * j) = .ok ⟨8 * j, x.toNat⟩ := by
  have hx : x.toNat < 256 := UInt8.toNat_lt_size x
  rw [vzext_eq]
  have h1 : ¬ ((byteConst x).bits ≥ 8 * j ∨ (byteConst x).bits = 0) := by
    show ¬ (8 ≥ 8 * j ∨ 8 = 0); omega
  rw [if_neg h1]
  simp only [byteConst, Const.new, Const.trim]
  have h2 : x.toNat % 2 ^ 8 = x.toNat := Nat.mod_eq_of_lt hx
  have h3 : x.toNat < 2 ^ (8 * j) := Nat.lt_of_lt_of_le hx (by
    show 2 ^ 8 ≤ 2 ^ (8 * j); exact Nat.pow_le_pow_right (by omega) (by omega))
  rw [h2, Nat.mod_eq_of_lt h3]

theorem shiftOf_lt (e : Endian) (j off : Nat) (h : off < j) : shiftOf e j off + 8 ≤ 8 * j := by
  cases e <;> simp only [shiftOf] <;> omega

theorem shifted_lt (e : Endian) (j off : Nat) (x : UInt8) (h : off < j) :
    x.toNat * 2 ^ shiftOf e j off < 2 ^ (8 * j) := by
  have hx : x.toNat < 2 ^ 8 := UInt8.toNat_lt_size x
  have h1 := shiftOf_lt e j off h
  calc x.toNat * 2 ^ shiftOf e j off < 2 ^ 8 * 2 ^ shiftOf e j off :=
        Nat.mul_lt_mul_of_pos_right hx (Nat.two_pow_pos _)
    _ = 2 ^ (8 + shiftOf e j off) := by rw [Nat.pow_add]
    _ ≤ 2 ^ (8 * j) := Nat.pow_le_pow_right (by omega) (by omega)

theorem acc_nil (e : Endian) (j : Nat) : acc e j [] = 0 := by cases e <;> simp [acc, valLE]

theorem byteLoop_spec {m : Mem} (I : Inv m) (a j : Nat) (hj : 1 < j) (hjs : 8 * j < 2 ^ 63)
    (hfit : a + j ≤ U64) :
    ∀ (k off : Nat) (l : List UInt8) (result : Option Const), off + k = j → l.length = off →
      result = (if off = 0 then none else some ⟨8 * j, acc m.endian j l⟩) →
      byteLoop m a (8 * j) j k off result =
        .ok ((readBytes (abs m) (a + off) k).map (fun rest => fromBytes m.endian (l ++ rest))) := by
  intro k
  induction k with
  | zero =>
    intro off l result hoff hl hres
    have : ¬ off = 0 := by omega
    simp only [byteLoop, readBytes, Option.map_some, List.append_nil, hres, this, if_false, acc_full]
    have : l.length = j := by omega
    rw [this]
  | succ k ih =>
    intro off l result hoff hl hres
    unfold byteLoop
    rw [cadd_ok (by omega), Res.bind_ok, load8_spec I, Res.bind_ok]
    cases hab : abs m (a + off) with
    | none =>
      have hlb : loadBacking m (a + off) = none := by
        cases ho : owner m (a + off) with
        | some p => obtain ⟨v, d⟩ := p; rw [abs_of_owner_some ho] at hab; cases hab
        | none => rw [abs_of_owner_none ho] at hab; simp [loadBacking_eq, hab]
      simp only [Option.map_none, hlb, readBytes, hab]
    | some x =>
      simp only [Option.map_some]
      rw [vzext_byte x j hj, Res.bind_ok, vshl_ok (by have := shiftOf_lt m.endian j off (by omega); simp only []; omega)
        (by simp only []; omega), Res.bind_ok]
      simp only []
      rw [Nat.mod_eq_of_lt (shifted_lt m.endian j off x (by omega))]
      have hstep := acc_step m.endian j l x (by omega)
      rw [hl] at hstep
      subst hres
      have hrec := ih (off + 1) (l ++ [x]) (some ⟨8 * j, acc m.endian j (l ++ [x])⟩) (by omega) (by simp; omega)
        (by simp)
      have hgoal : byteLoop m a (8 * j) j k (off + 1) (some ⟨8 * j, acc m.endian j (l ++ [x])⟩) =
          Res.ok (Option.map (fun rest => fromBytes m.endian (l ++ rest)) (readBytes (abs m) (a + off) (k + 1))) := by
        rw [hrec]
        simp only [readBytes, hab]
        rw [show a + off + 1 = a + (off + 1) by omega]
        cases readBytes (abs m) (a + (off + 1)) k with
        | none => rfl
        | some t => simp
      by_cases h0 : off = 0
      · have hl0 : l = [] := List.eq_nil_of_length_eq_zero (by omega)
        subst hl0
        simp only [h0, if_true, Res.pure_eq, Res.bind_ok]
        rw [acc_nil, Nat.zero_or, h0] at hstep
        rw [hstep]
        rw [h0] at hgoal
        exact hgoal
      · simp only [h0, if_false, vor_eq, Const.or, Const.new, Const.trim]
        simp only [ne_eq, not_true_eq_false, if_false, hstep, Res.bind_ok]
        rw [Nat.mod_eq_of_lt (acc_lt _ _ _ (by simp; omega))]
        exact hgoal


/-- the bytes of an owned range are those of the owning value -/
theorem readBytes_owner {m : Mem} (I : Inv m) {a : Nat} {v : Const} {d : Nat}
    (ho : owner m a = some (v, d)) :
    ∀ (n i : Nat), d + i + n ≤ v.bits / 8 →
      readBytes (abs m) (a + i) n = some ((List.range n).map (fun t => byteAt m.endian v (d + i + t))) := by
  obtain ⟨_, _, hda, _, _, _, _, hall⟩ := I.owner_spec ho
  intro n
  induction n with
  | zero => intro i _; rfl
  | succ n ih =>
    intro i hi
    have h1 := hall (d + i) (by omega)
    rw [show a - d + (d + i) = a + i by omega] at h1
    simp only [readBytes, abs_of_owner_some h1]
    rw [show a + i + 1 = a + (i + 1) by omega, ih (i + 1) (by omega)]
    rw [List.range_succ_eq_map]
    simp only [List.map_cons, List.map_map, Nat.add_zero]
    congr 2
    apply List.map_congr_left
    intro t _
    simp only [Function.comp, Nat.succ_eq_add_one]
    congr 1; omega

theorem load_spec {m : Mem} (I : Inv m) (a n : Nat) (h8 : n % 8 = 0) (hpos : 0 < n) (hs : n < 2 ^ 63)
    (hfit : a + n / 8 ≤ U64) :
    load m a n = .ok (read (abs m) a (n / 8) m.endian) := by
  obtain ⟨j, rfl⟩ : ∃ j, n = 8 * j := ⟨n / 8, by omega⟩
  have hj : 0 < j := by omega
  have hdiv : 8 * j / 8 = j := by omega
  rw [hdiv] at hfit ⊢
  unfold load
  have hm8 : ¬ (8 * j % 8 ≠ 0) := by omega
  have hn0 : ¬ (8 * j = 0) := by omega
  rw [if_neg hm8, if_neg hn0, loadFirst_spec I a j hj hs, Res.bind_ok, hdiv]
  have hloop := fun (h1 : 1 < j) => byteLoop_spec I a j h1 hs hfit j 0 [] none (by omega) rfl (by simp)
  simp only [List.nil_append, Nat.add_zero] at hloop
  cases ho : owner m a with
  | none =>
    simp only [loadBacking_eq]
    cases hb : backingGet8 m a with
    | none =>
      obtain ⟨j', rfl⟩ : ∃ j', j = j' + 1 := ⟨j - 1, by omega⟩
      simp [read, readBytes, abs_of_owner_none ho, hb]
    | some x =>
      simp only [Option.map_some]
      by_cases h1 : j = 1
      · subst h1
        have hx : x.toNat < 256 := UInt8.toNat_lt_size x
        have : (byteConst x).bits = 8 * 1 := rfl
        simp only [this, if_true, Res.pure_eq, read, readBytes, abs_of_owner_none ho, hb, Option.map_some]
        cases he : m.endian <;> simp [fromBytes, valLE, byteConst, Const.new, Const.trim] <;> omega
      · have : ¬ ((byteConst x).bits = 8 * j) := by show ¬ (8 = 8 * j); omega
        rw [if_neg this, hloop (by omega)]; rfl
  | some p =>
    obtain ⟨v, d⟩ := p
    obtain ⟨g, hd, hda, _, _, _, _, hall⟩ := I.owner_spec ho
    simp only [sub_bits]
    by_cases hle : j ≤ v.bits / 8 - d
    · have hm : min j (v.bits / 8 - d) = j := by omega
      simp only [hm, if_true, Res.pure_eq, read]
      have hr := readBytes_owner I ho j 0 (by omega)
      simp only [Nat.add_zero] at hr
      rw [hr]
      have : (List.range j).map (fun t => byteAt m.endian v (d + t)) = bytesOf m.endian (sub m.endian v d j) := by
        simp only [bytesOf, sub_bits, hdiv]
        apply List.map_congr_left
        intro t ht
        rw [byteAt_sub _ _ _ _ _ (by simpa using ht) (by omega)]
      rw [this, Option.map_some, fromBytes_bytesOf _ _ (by simp) (sub_wf _ _ _ _)]
    · have hm : min j (v.bits / 8 - d) = v.bits / 8 - d := by omega
      have : ¬ (8 * (v.bits / 8 - d) = 8 * j) := by omega
      rw [hm, if_neg this, hloop (by omega)]; rfl

end Paged
end Falcon
