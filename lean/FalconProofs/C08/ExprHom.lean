/-
  FalconProofs.C08.ExprHom — the Expression instance of the paged memory computes, symbolically, what
  the Constant instance computes: a logical relation between `MemE` and `Mem` that `storeE`/`store`
  preserve and under which `loadE`/`load` return related results.
-/
import FalconProofs.C08.History

namespace Falcon
namespace Paged

/-- what the proof needs of an evaluation function: it is compositional on the three node kinds the
    `Value` operations build.  `Expr.eval` (closed evaluation) and evaluation under any valuation of the
    scalars (`evalWith`) are instances. -/
structure Evaluator (ev : Expr → Res Const) : Prop where
  const : ∀ c, ev (.const c) = .ok c
  bin : ∀ op l r, ev (.bin op l r) = (ev l >>= fun a => ev r >>= fun b => op.apply a b)
  ext : ∀ op n e, ev (.ext op n e) = (ev e >>= fun a => op.apply a n)

/-- an expression and the constant it evaluates to; the evaluation keeps the width (true of every
    well-sorted expression, C05 `evalIn_wellSorted`) -/
def VR (ev : Expr → Res Const) (e : Expr) (c : Const) : Prop := ev e = .ok c ∧ c.bits = e.bits

inductive RelRes {α β : Type} (r : α → β → Prop) : Res α → Res β → Prop
  | ok {a b} : r a b → RelRes r (.ok a) (.ok b)
  | err {e} : RelRes r (.err e) (.err e)
  | panic : RelRes r .panic .panic

inductive OptRel {α β : Type} (r : α → β → Prop) : Option α → Option β → Prop
  | none : OptRel r none none
  | some {a b} : r a b → OptRel r (some a) (some b)

theorem RelRes.bind {α β γ δ : Type} {r : α → β → Prop} {s : γ → δ → Prop} {x : Res α} {y : Res β}
    {f : α → Res γ} {g : β → Res δ} (h : RelRes r x y) (hf : ∀ a b, r a b → RelRes s (f a) (g b)) :
    RelRes s (x >>= f) (y >>= g) := by
  cases h with
  | ok hab => exact hf _ _ hab
  | err => exact RelRes.err
  | panic => exact RelRes.panic

/-- the same computation on both sides -/
theorem RelRes.bind_same {α γ δ : Type} {s : γ → δ → Prop} (x : Res α)
    {f : α → Res γ} {g : α → Res δ} (hf : ∀ a, RelRes s (f a) (g a)) :
    RelRes s (x >>= f) (x >>= g) := by
  cases x with
  | ok a => exact hf a
  | err e => exact RelRes.err
  | panic => exact RelRes.panic

section ops
variable {ev : Expr → Res Const} (E : Evaluator ev)
include E

theorem etrun_rel {e : Expr} {c : Const} (h : VR ev e c) (n : Nat) : RelRes (VR ev) (etrun e n) (vtrun c n) := by
  obtain ⟨he, hb⟩ := h
  rw [vtrun_eq, hb]
  unfold etrun Expr.mkExt
  by_cases hc : e.bits ≤ n ∨ e.bits = 0
  · simp only [hc, if_true]; exact RelRes.err
  · simp only [hc, if_false]
    refine RelRes.ok ⟨?_, rfl⟩
    have : ¬ n ≥ c.bits := by omega
    simp [E.ext, he, ExtOp.apply, Const.trun, this]

theorem ezext_rel {e : Expr} {c : Const} (h : VR ev e c) (n : Nat) : RelRes (VR ev) (ezext e n) (vzext c n) := by
  obtain ⟨he, hb⟩ := h
  rw [vzext_eq, hb]
  unfold ezext Expr.mkExt
  by_cases hc : e.bits ≥ n ∨ e.bits = 0
  · simp only [hc, if_true]; exact RelRes.err
  · simp only [hc, if_false]
    refine RelRes.ok ⟨?_, rfl⟩
    have : ¬ n ≤ c.bits := by omega
    simp [E.ext, he, ExtOp.apply, Const.zext, this]

theorem eshr_rel {e : Expr} {c : Const} (h : VR ev e c) (n : Nat) : RelRes (VR ev) (eshr e n) (vshr c n) := by
  obtain ⟨he, hb⟩ := h
  rw [vshr_eq]
  have h1 : eshr e n = .ok (.bin .shr e (Expr.ec n e.bits)) := by
    simp [eshr, Expr.mkBin, Expr.bits, Expr.ec, Const.new]
  rw [h1]
  obtain ⟨r, h2⟩ : ∃ r, Const.shr c (Const.new (n % 2 ^ 64) c.bits) = .ok (Const.new r c.bits) := by
    unfold Const.shr
    rw [if_neg (by simp [Const.new])]
    exact ⟨_, rfl⟩
  rw [h2]
  refine RelRes.ok ⟨?_, by simp [Const.new, Expr.bits, BinOp.isCmp, hb]⟩
  rw [E.bin, he, Res.bind_ok, Expr.ec, E.const, Res.bind_ok, ← hb]
  exact h2

theorem eshl_rel {e : Expr} {c : Const} (h : VR ev e c) (n : Nat) : RelRes (VR ev) (eshl e n) (vshl c n) := by
  obtain ⟨he, hb⟩ := h
  rw [vshl_eq]
  have h1 : eshl e n = .ok (.bin .shl e (Expr.ec n e.bits)) := by
    simp [eshl, Expr.mkBin, Expr.bits, Expr.ec, Const.new]
  rw [h1]
  obtain ⟨r, h2⟩ : ∃ r, Const.shl c (Const.new (n % 2 ^ 64) c.bits) = .ok (Const.new r c.bits) := by
    unfold Const.shl
    rw [if_neg (by simp [Const.new])]
    exact ⟨_, rfl⟩
  rw [h2]
  refine RelRes.ok ⟨?_, by simp [Const.new, Expr.bits, BinOp.isCmp, hb]⟩
  rw [E.bin, he, Res.bind_ok, Expr.ec, E.const, Res.bind_ok, ← hb]
  exact h2

theorem eor_rel {a b : Expr} {c d : Const} (h1 : VR ev a c) (h2 : VR ev b d) :
    RelRes (VR ev) (eor a b) (vor c d) := by
  obtain ⟨ha, hab⟩ := h1
  obtain ⟨hb, hbb⟩ := h2
  rw [vor_eq]
  unfold eor Expr.mkBin Const.or
  rw [hab, hbb]
  by_cases hc : a.bits = b.bits
  · simp only [hc, ne_eq, not_true_eq_false, if_false]
    refine RelRes.ok ⟨?_, by show b.bits = a.bits; exact hc.symm⟩
    rw [E.bin, ha, Res.bind_ok, hb, Res.bind_ok]
    simp [BinOp.apply, Const.or, hab, hbb, hc]
  · simp only [ne_eq, hc, not_false_eq_true, if_true]; exact RelRes.err

end ops

/-- what the memory proofs need of a relation between expressions and constants: it fixes the width, it
    holds of constants, and the five `Value` operations of `il::Expression` and of `il::Constant` take
    related arguments to related results (or fail alike) -/
structure ValueRel (VRel : Expr → Const → Prop) : Prop where
  bits : ∀ {e c}, VRel e c → c.bits = e.bits
  const : ∀ c, VRel (.const c) c
  trun : ∀ {e c}, VRel e c → ∀ n, RelRes VRel (etrun e n) (vtrun c n)
  zext : ∀ {e c}, VRel e c → ∀ n, RelRes VRel (ezext e n) (vzext c n)
  shr : ∀ {e c}, VRel e c → ∀ n, RelRes VRel (eshr e n) (vshr c n)
  shl : ∀ {e c}, VRel e c → ∀ n, RelRes VRel (eshl e n) (vshl c n)
  or : ∀ {a b c d}, VRel a c → VRel b d → RelRes VRel (eor a b) (vor c d)

/-- evaluation by a compositional evaluator is such a relation -/
theorem valueRel_of_evaluator {ev : Expr → Res Const} (E : Evaluator ev) : ValueRel (VR ev) :=
  ⟨fun h => h.2, fun c => ⟨E.const c, rfl⟩, fun h n => etrun_rel E h n, fun h n => ezext_rel E h n,
   fun h n => eshr_rel E h n, fun h n => eshl_rel E h n, fun h1 h2 => eor_rel E h1 h2⟩


/-! ### the relation between the two memories -/

inductive CellRel (VRel : Expr → Const → Prop) : Option CellE → Option Cell → Prop
  | none : CellRel VRel none none
  | backref (b : Nat) : CellRel VRel (some (.backref b)) (some (.backref b))
  | value {e c} : VRel e c → CellRel VRel (some (.value e)) (some (.value c))

/-- the Constant memory `mC` is the Expression memory `mE` with every stored expression evaluated -/
structure MRel (VRel : Expr → Const → Prop) (mE : MemE) (mC : Mem) : Prop where
  cells : ∀ x, CellRel VRel (loadCellE mE x) (loadCell mC x)
  endian : mE.endian = mC.endian
  backing : mE.backing = mC.backing
  pages : mE.pages = mC.pages

section
variable {VRel : Expr → Const → Prop} (V : ValueRel VRel)
include V

theorem loadBacking_rel {mE : MemE} {mC : Mem} (R : MRel VRel mE mC) (a : Nat) :
    OptRel VRel (loadBackingE mE a) (loadBacking mC a) := by
  have hg : backingGet8E mE a = backingGet8 mC a := by
    simp only [backingGet8E, backingGet8, R.backing]
  simp only [loadBackingE, loadBacking, hg]
  cases backingGet8 mC a with
  | none => exact OptRel.none
  | some x => exact OptRel.some (V.const _)

theorem finish_rel {v' : Expr} {c' : Const} (h : VRel v' c') (n : Nat) :
    RelRes (OptRel VRel)
      (if v'.bits > n then do let r ← etrun v' n; pure (some r) else pure (some v'))
      (if c'.bits > n then do let r ← vtrun c' n; pure (some r) else pure (some c')) := by
  rw [V.bits h]
  split
  · exact RelRes.bind (V.trun h n) (fun _ _ h => RelRes.ok (OptRel.some h))
  · exact RelRes.ok (OptRel.some h)

theorem loadFirst_rel {mE : MemE} {mC : Mem} (R : MRel VRel mE mC) (a n : Nat) :
    RelRes (OptRel VRel) (loadFirstE mE a n) (loadFirst mC a n) := by
  unfold loadFirstE loadFirst
  have hc := R.cells a
  generalize loadCellE mE a = x at hc ⊢
  generalize loadCell mC a = y at hc ⊢
  cases hc with
  | none => exact RelRes.ok (loadBacking_rel V R a)
  | value hv =>
    rename_i e c
    simp only [V.bits hv, R.endian]
    split
    · exact RelRes.ok (OptRel.some hv)
    · cases mC.endian with
      | little =>
        exact RelRes.bind (V.trun hv n) (fun _ _ h => RelRes.ok (OptRel.some h))
      | big =>
        refine RelRes.bind_same _ (fun sh => ?_)
        refine RelRes.bind (V.shr hv sh) (fun _ _ hs => ?_)
        exact RelRes.bind (V.trun hs n) (fun _ _ h => RelRes.ok (OptRel.some h))
  | backref b =>
    simp only []
    have hb := R.cells b
    generalize loadCellE mE b = x at hb ⊢
    generalize loadCell mC b = y at hb ⊢
    cases hb with
    | none => exact RelRes.err
    | backref _ => exact RelRes.err
    | value hv =>
      rename_i e c
      simp only [V.bits hv, R.endian]
      refine RelRes.bind_same _ (fun d => ?_)
      refine RelRes.bind_same _ (fun off => ?_)
      cases mC.endian with
      | little =>
        refine RelRes.bind_same _ (fun tb => ?_)
        refine RelRes.bind (V.shr hv off) (fun _ _ hs => ?_)
        refine RelRes.bind (V.trun hs tb) (fun _ _ ht => ?_)
        exact finish_rel V ht n
      | big =>
        refine RelRes.bind_same _ (fun sum => ?_)
        split
        · refine RelRes.bind_same _ (fun shift => ?_)
          refine RelRes.bind_same _ (fun x => ?_)
          refine RelRes.bind_same _ (fun tb => ?_)
          refine RelRes.bind (V.shr hv shift) (fun _ _ hs => ?_)
          refine RelRes.bind (V.trun hs tb) (fun _ _ ht => ?_)
          exact finish_rel V ht n
        · refine RelRes.bind_same _ (fun x => ?_)
          refine RelRes.bind_same _ (fun shift => ?_)
          refine RelRes.bind_same _ (fun x' => ?_)
          refine RelRes.bind_same _ (fun tb => ?_)
          refine RelRes.bind (V.shr hv shift) (fun _ _ hs => ?_)
          refine RelRes.bind (V.trun hs tb) (fun _ _ ht => ?_)
          exact finish_rel V ht n

theorem load8_rel {mE : MemE} {mC : Mem} (R : MRel VRel mE mC) (a : Nat) :
    RelRes (OptRel VRel) (load8E mE a) (load8 mC a) := by
  unfold load8E load8
  refine RelRes.bind (loadFirst_rel V R a 8) (fun x y h => ?_)
  cases h with
  | none => exact RelRes.ok OptRel.none
  | some hv =>
    simp only [V.bits hv]
    split
    · exact RelRes.ok (OptRel.some hv)
    · exact RelRes.panic

theorem byteLoop_rel {mE : MemE} {mC : Mem} (R : MRel VRel mE mC) (a bits bytes : Nat) :
    ∀ (k off : Nat) (r : Option Expr) (rc : Option Const), OptRel VRel r rc →
      RelRes (OptRel VRel) (byteLoopE mE a bits bytes k off r) (byteLoop mC a bits bytes k off rc) := by
  intro k
  induction k with
  | zero => intro off r rc h; exact RelRes.ok h
  | succ k ih =>
    intro off r rc h
    unfold byteLoopE byteLoop
    refine RelRes.bind_same _ (fun addr => ?_)
    refine RelRes.bind (load8_rel V R addr) (fun l lc hl => ?_)
    cases hl with
    | none =>
      simp only []
      have hb := loadBacking_rel V R addr
      generalize loadBackingE mE addr = l2 at hb ⊢
      generalize loadBacking mC addr = lc2 at hb ⊢
      cases hb with
      | none => exact RelRes.ok OptRel.none
      | some hv =>
        simp only [R.endian]
        refine RelRes.bind (V.zext hv bits) (fun _ _ hz => ?_)
        refine RelRes.bind (V.shl hz _) (fun _ _ hs => ?_)
        cases h with
        | none => exact RelRes.bind (RelRes.ok hs) (fun _ _ hres => ih (off + 1) _ _ (OptRel.some hres))
        | some hr => exact RelRes.bind (V.or hr hs) (fun _ _ hres => ih (off + 1) _ _ (OptRel.some hres))
    | some hv =>
      simp only [R.endian]
      refine RelRes.bind (V.zext hv bits) (fun _ _ hz => ?_)
      refine RelRes.bind (V.shl hz _) (fun _ _ hs => ?_)
      cases h with
      | none => exact RelRes.bind (RelRes.ok hs) (fun _ _ hres => ih (off + 1) _ _ (OptRel.some hres))
      | some hr => exact RelRes.bind (V.or hr hs) (fun _ _ hres => ih (off + 1) _ _ (OptRel.some hres))

theorem load_rel {mE : MemE} {mC : Mem} (R : MRel VRel mE mC) (a n : Nat) :
    RelRes (OptRel VRel) (loadE mE a n) (load mC a n) := by
  unfold loadE load
  split
  · exact RelRes.err
  · split
    · exact RelRes.err
    · refine RelRes.bind (loadFirst_rel V R a n) (fun x y h => ?_)
      cases h with
      | none => exact RelRes.ok OptRel.none
      | some hv =>
        simp only [V.bits hv]
        split
        · exact RelRes.ok (OptRel.some hv)
        · exact byteLoop_rel V R a n _ _ 0 none none OptRel.none

/-! ### stores keep the relation -/
omit V

theorem storeCell_rel {mE : MemE} {mC : Mem} (R : MRel VRel mE mC) (a : Nat) {cE : CellE} {cC : Cell}
    (hc : CellRel VRel (some cE) (some cC)) : MRel VRel (storeCellE mE a cE) (storeCell mC a cC) := by
  refine ⟨?_, R.endian, R.backing, ?_⟩
  · intro x
    simp only [loadCellE, storeCellE, loadCell, storeCell, AList.get_set]
    by_cases hx : x = a
    · simp only [hx, if_true]; exact hc
    · simp only [hx, if_false]; exact R.cells x
  · simp only [storeCellE, storeCell, R.pages]

theorem storeBackrefs_rel {mE : MemE} {mC : Mem} (a : Nat) : ∀ (k i : Nat), MRel VRel mE mC →
    MRel VRel (storeBackrefsE mE a i k) (storeBackrefs mC a i k) := by
  intro k
  induction k generalizing mE mC with
  | zero => intro i R; exact R
  | succ k ih =>
    intro i R
    exact ih (i + 1) (storeCell_rel R (a + i) (CellRel.backref a))

include V

theorem storeNoBackref_rel {mE : MemE} {mC : Mem} (R : MRel VRel mE mC) (a : Nat) {e : Expr} {c : Const}
    (hv : VRel e c) : MRel VRel (storeNoBackrefE mE a e) (storeNoBackref mC a c) := by
  unfold storeNoBackrefE storeNoBackref
  rw [V.bits hv]
  exact storeBackrefs_rel a _ 1 (storeCell_rel R a (CellRel.value hv))

/-- an address and an expression / the address and its value -/
def PairRel (VRel : Expr → Const → Prop) (p : Nat × Expr) (q : Nat × Const) : Prop := p.1 = q.1 ∧ VRel p.2 q.2

theorem rehome_rel {mE : MemE} {mC : Mem} (R : MRel VRel mE mC) {w : Option (Nat × Expr)}
    {wc : Option (Nat × Const)} (h : OptRel (PairRel VRel) w wc) : MRel VRel (rehomeE mE w) (rehome mC wc) := by
  cases h with
  | none => exact R
  | some hp =>
    rename_i p q
    obtain ⟨a, e⟩ := p
    obtain ⟨a', c⟩ := q
    obtain ⟨h1, h2⟩ := hp
    simp only at h1 h2
    subst h1
    exact storeNoBackref_rel V R a h2



theorem storeTail_rel {mE : MemE} {mC : Mem} (R : MRel VRel mE mC) (aaw : Nat) :
    RelRes (OptRel (PairRel VRel)) (storeTailE mE aaw) (storeTail mC aaw) := by
  unfold storeTailE storeTail
  have hc := R.cells aaw
  generalize loadCellE mE aaw = x at hc ⊢
  generalize loadCell mC aaw = y at hc ⊢
  cases hc with
  | none => exact RelRes.ok OptRel.none
  | value hv => exact RelRes.ok OptRel.none
  | backref b =>
    simp only []
    have hb := R.cells b
    generalize loadCellE mE b = x at hb ⊢
    generalize loadCell mC b = y at hb ⊢
    cases hb with
    | none => exact RelRes.err
    | backref _ => exact RelRes.err
    | value hv =>
      simp only [V.bits hv]
      refine RelRes.bind_same _ (fun d => ?_)
      refine RelRes.bind_same _ (fun used => ?_)
      refine RelRes.bind_same _ (fun left => ?_)
      refine RelRes.bind (load_rel V R aaw left) (fun t tc ht => ?_)
      cases ht with
      | none => exact RelRes.ok OptRel.none
      | some h => exact RelRes.ok (OptRel.some ⟨rfl, h⟩)

theorem storeHead_rel {mE : MemE} {mC : Mem} (R : MRel VRel mE mC) (a : Nat) :
    RelRes (OptRel (PairRel VRel)) (storeHeadE mE a) (storeHead mC a) := by
  unfold storeHeadE storeHead
  have hc := R.cells a
  generalize loadCellE mE a = x at hc ⊢
  generalize loadCell mC a = y at hc ⊢
  cases hc with
  | none => exact RelRes.ok OptRel.none
  | value hv => exact RelRes.ok OptRel.none
  | backref b =>
    simp only []
    refine RelRes.bind_same _ (fun d => ?_)
    refine RelRes.bind_same _ (fun left => ?_)
    refine RelRes.bind (load_rel V R b left) (fun t tc ht => ?_)
    cases ht with
    | none => exact RelRes.panic
    | some h => exact RelRes.ok (OptRel.some ⟨rfl, h⟩)

/-- `storeE` and `store` succeed or fail together, and keep the memories related -/
theorem store_rel {mE : MemE} {mC : Mem} (R : MRel VRel mE mC) (a : Nat) {e : Expr} {c : Const}
    (hv : VRel e c) : RelRes (MRel VRel) (storeE mE a e) (store mC a c) := by
  unfold storeE store
  rw [V.bits hv]
  split
  · exact RelRes.err
  · split
    · exact RelRes.err
    · have ht : RelRes (OptRel (PairRel VRel)) (storeTailOptE mE (a + e.bits / 8))
          (storeTailOpt mC (a + e.bits / 8)) := by
        unfold storeTailOptE storeTailOpt
        split
        · exact RelRes.ok OptRel.none
        · exact storeTail_rel V R _
      refine RelRes.bind ht (fun tl tlc htl => ?_)
      have R1 := rehome_rel V R htl
      refine RelRes.bind (storeHead_rel V R1 a) (fun hd hdc hhd => ?_)
      have R2 := rehome_rel V R1 hhd
      exact RelRes.ok (storeNoBackref_rel V R2 a hv)
end


/-! ### initial memories, permissions, evaluation of a load result -/

theorem mrel_new (VRel : Expr → Const → Prop) (e : Endian) : MRel VRel (newE e) (new e) :=
  ⟨fun _ => CellRel.none, rfl, rfl, rfl⟩

theorem mrel_newWithBacking (VRel : Expr → Const → Prop) (e : Endian) (b : Backing) :
    MRel VRel (newWithBackingE e b) (newWithBacking e b) :=
  ⟨fun _ => CellRel.none, rfl, rfl, rfl⟩

theorem setPermissions_rel {VRel : Expr → Const → Prop} {mE : MemE} {mC : Mem} (R : MRel VRel mE mC) (a len p : Nat) :
    MRel VRel (setPermissionsE mE a len p) (setPermissions mC a len p) :=
  ⟨R.cells, R.endian, R.backing, by simp only [setPermissionsE, setPermissions, R.pages]⟩

theorem permissions_rel {VRel : Expr → Const → Prop} {mE : MemE} {mC : Mem} (R : MRel VRel mE mC) (a : Nat) :
    permissionsE mE a = permissions mC a := by
  simp only [permissionsE, permissions, R.pages, R.backing]

/-- evaluate what a load returned -/
def evalOpt (ev : Expr → Res Const) : Option Expr → Res (Option Const)
  | none => .ok none
  | some e => (ev e).map some

def evalLoad (ev : Expr → Res Const) (r : Res (Option Expr)) : Res (Option Const) := r >>= evalOpt ev

theorem evalLoad_of_rel {ev : Expr → Res Const} {VRel : Expr → Const → Prop}
    (sound : ∀ e c, VRel e c → ev e = .ok c) {x : Res (Option Expr)} {y : Res (Option Const)}
    (h : RelRes (OptRel VRel) x y) : evalLoad ev x = y := by
  cases h with
  | ok hab =>
    cases hab with
    | none => rfl
    | some hv => simp [evalLoad, evalOpt, sound _ _ hv, Res.map]
  | err => rfl
  | panic => rfl

/-! ### evaluators -/

/-- closed evaluation (`executor::eval`): scalars are errors -/
theorem evaluator_eval : Evaluator Expr.eval :=
  ⟨fun _ => rfl, fun _ _ _ => rfl, fun _ _ _ => rfl⟩

/-- compositional evaluation under a valuation of the scalars -/
def evalWith (ρ : Scalar → Res Const) : Expr → Res Const
  | .scalar s => ρ s
  | .const c => .ok c
  | .bin op l r => do
      let a ← evalWith ρ l
      let b ← evalWith ρ r
      op.apply a b
  | .ext op b e => do
      let a ← evalWith ρ e
      op.apply a b
  | .ite c t e => do
      let cv ← evalWith ρ c
      if cv.isOne then evalWith ρ t else evalWith ρ e

theorem evaluator_evalWith (ρ : Scalar → Res Const) : Evaluator (evalWith ρ) :=
  ⟨fun _ => rfl, fun _ _ _ => rfl, fun _ _ _ => rfl⟩

/-! ### histories -/

inductive EOp where
  | store (a : Nat) (e : Expr)
  | load (a n : Nat)
  | setPerm (a len p : Nat)

/-- the Expression memory's run, loads evaluated by `ev` -/
def runE (ev : Expr → Res Const) (m : MemE) : List EOp → List Ans
  | [] => []
  | .store a e :: t =>
    match storeE m a e with
    | .ok m' => .stored :: runE ev m' t
    | .err _ => .rejected :: runE ev m t
    | .panic => .fault :: runE ev m t
  | .load a n :: t => ansOfLoad (evalLoad ev (loadE m a n)) :: runE ev m t
  | .setPerm a len p :: t => .permSet :: runE ev (setPermissionsE m a len p) t

/-- the same history with every stored expression replaced by its value -/
inductive OpsRel (VRel : Expr → Const → Prop) : List EOp → List Op → Prop
  | nil : OpsRel VRel [] []
  | store {a e c t tc} : VRel e c → OpsRel VRel t tc → OpsRel VRel (.store a e :: t) (.store a c :: tc)
  | load {a n t tc} : OpsRel VRel t tc → OpsRel VRel (.load a n :: t) (.load a n :: tc)
  | setPerm {a len p t tc} : OpsRel VRel t tc → OpsRel VRel (.setPerm a len p :: t) (.setPerm a len p :: tc)

theorem runE_eq_runModel {ev : Expr → Res Const} {VRel : Expr → Const → Prop} (V : ValueRel VRel)
    (sound : ∀ e c, VRel e c → ev e = .ok c) {eops : List EOp} {ops : List Op}
    (h : OpsRel VRel eops ops) : ∀ {mE : MemE} {mC : Mem}, MRel VRel mE mC → runE ev mE eops = runModel mC ops := by
  induction h with
  | nil => intro _ _ _; rfl
  | @store a e c t tc hv _ ih =>
    intro mE mC R
    have hs := store_rel V R a hv
    simp only [runE, runModel]
    generalize storeE mE a e = x at hs ⊢
    generalize store mC a c = y at hs ⊢
    cases hs with
    | ok hR => simp only [ih hR]
    | err => simp only [ih R]
    | panic => simp only [ih R]
  | load _ ih =>
    intro mE mC R
    simp only [runE, runModel, evalLoad_of_rel sound (load_rel V R _ _), ih R]
  | setPerm _ ih =>
    intro mE mC R
    simp only [runE, runModel, ih (setPermissions_rel R _ _ _)]

end Paged
end Falcon
