/-
  FalconProofs.C08.Values — the `Value` operations of `il::Constant` in closed form, and the byte
  algebra the paged-memory proofs run on (`byteAt`, `bytesOf`, `fromBytes`).
-/
import FalconModel.Paged

namespace Falcon
namespace Paged

theorem U64_eq : U64 = 18446744073709551616 := by decide

/-! ### checked arithmetic -/

theorem cadd_ok {x y : Nat} (h : x + y < U64) : cadd x y = .ok (x + y) := by simp [cadd, h]
theorem csub_ok {x y : Nat} (h : y ≤ x) : csub x y = .ok (x - y) := by simp [csub, h]
theorem cmul_ok {x y : Nat} (h : x * y < U64) : cmul x y = .ok (x * y) := by simp [cmul, h]

/-! ### the five `Value` operations -/

theorem vtrun_eq (c : Const) (n : Nat) :
    vtrun c n = if c.bits ≤ n ∨ c.bits = 0 then .err .sort else .ok (Const.new c.val n) := by
  unfold vtrun Expr.mkExt
  by_cases h : c.bits ≤ n ∨ c.bits = 0
  · simp [Expr.bits, h]
  · have h1 : ¬ n ≥ c.bits := by omega
    have h2 : ¬ c.bits ≤ n := by omega
    have h3 : c.bits ≠ 0 := by omega
    simp [Expr.bits, h2, h3, Expr.eval, ExtOp.apply, Const.trun, h1]

theorem vzext_eq (c : Const) (n : Nat) :
    vzext c n = if c.bits ≥ n ∨ c.bits = 0 then .err .sort else .ok (Const.new c.val n) := by
  unfold vzext Expr.mkExt
  by_cases h : c.bits ≥ n ∨ c.bits = 0
  · simp [Expr.bits, h]
  · have h1 : ¬ n ≤ c.bits := by omega
    have h2 : ¬ c.bits ≥ n := by omega
    have h3 : c.bits ≠ 0 := by omega
    simp [Expr.bits, h2, h3, Expr.eval, ExtOp.apply, Const.zext, h1]

theorem vshr_eq (c : Const) (n : Nat) :
    vshr c n = Const.shr c (Const.new (n % 2 ^ 64) c.bits) := by
  simp [vshr, Expr.mkBin, Expr.bits, Expr.ec, Const.new, Expr.eval, BinOp.apply]

theorem vshl_eq (c : Const) (n : Nat) :
    vshl c n = Const.shl c (Const.new (n % 2 ^ 64) c.bits) := by
  simp [vshl, Expr.mkBin, Expr.bits, Expr.ec, Const.new, Expr.eval, BinOp.apply]

theorem vor_eq (a b : Const) : vor a b = Const.or a b := by
  unfold vor Expr.mkBin Const.or
  by_cases h : a.bits = b.bits <;> simp [Expr.bits, h, Expr.eval, BinOp.apply, Const.or]


/-- what `store` accepts and the `usize` type guarantees -/
structure Good (v : Const) : Prop where
  dvd : v.bits % 8 = 0
  pos : 0 < v.bits
  wf : v.val < 2 ^ v.bits
  small : v.bits < 2 ^ 63

theorem new_shift_val {s b : Nat} (h1 : s < b) (h2 : b < 2 ^ 64) :
    (Const.new (s % 2 ^ 64) b).val = s := by
  have : s < 2 ^ b := Nat.lt_trans h1 Nat.lt_two_pow_self
  simp only [Const.new, Const.trim]
  have h3 : s % 2 ^ 64 = s := Nat.mod_eq_of_lt (by omega)
  rw [h3, Nat.mod_eq_of_lt this]

theorem vshr_ok {v : Const} {s : Nat} (h1 : s < v.bits) (h2 : v.bits < 2 ^ 64) :
    vshr v s = .ok ⟨v.bits, (v.val / 2 ^ s) % 2 ^ v.bits⟩ := by
  rw [vshr_eq]
  have hv := new_shift_val h1 h2
  have hs : s < 2 ^ 64 := by omega
  simp only [Const.shr]
  rw [hv]
  simp [Const.new, Const.toUsize, hs, Const.trim, Nat.shiftRight_eq_div_pow]

theorem vshl_ok {v : Const} {s : Nat} (h1 : s < v.bits) (h2 : v.bits < 2 ^ 64) :
    vshl v s = .ok ⟨v.bits, (v.val * 2 ^ s) % 2 ^ v.bits⟩ := by
  rw [vshl_eq]
  have hv := new_shift_val h1 h2
  have hs : s < 2 ^ 64 := by omega
  have h3 : ¬ s ≥ v.bits := by omega
  simp only [Const.shl]
  rw [hv]
  simp [Const.new, Const.toUsize, hs, Const.trim, Nat.shiftLeft_eq, h3]



theorem p256 (i : Nat) : 256 ^ i = 2 ^ (8 * i) := by
  rw [Nat.pow_mul]

theorem mod_div_mod (y j t : Nat) (h : t < j) :
    y % 2 ^ (8 * j) / 2 ^ (8 * t) % 256 = y / 2 ^ (8 * t) % 256 := by
  have e1 : 2 ^ (8 * j) = 2 ^ (8 * t) * 2 ^ (8 * (j - t)) := by
    rw [← Nat.pow_add]; congr 1; omega
  have e2 : 2 ^ (8 * (j - t)) = 256 * 2 ^ (8 * (j - t) - 8) := by
    have : 8 * (j - t) = 8 + (8 * (j - t) - 8) := by omega
    conv => lhs; rw [this, Nat.pow_add]
  rw [e1, Nat.mod_mul_right_div_self, e2]
  exact Nat.mod_mul_right_mod _ _ _

theorem div_pow_div (x a b : Nat) : x / 2 ^ a / 2 ^ b = x / 2 ^ (a + b) := by
  rw [Nat.div_div_eq_div_mul, ← Nat.pow_add]

/-- the constant made of bytes `d … d+j-1` (memory order) of `v` -/
def sub (e : Endian) (v : Const) (d j : Nat) : Const :=
  match e with
  | .little => ⟨8 * j, v.val / 2 ^ (8 * d) % 2 ^ (8 * j)⟩
  | .big => ⟨8 * j, v.val / 2 ^ (8 * (v.bits / 8 - d - j)) % 2 ^ (8 * j)⟩

@[simp] theorem sub_bits (e : Endian) (v : Const) (d j : Nat) : (sub e v d j).bits = 8 * j := by
  cases e <;> rfl

theorem sub_wf (e : Endian) (v : Const) (d j : Nat) : (sub e v d j).val < 2 ^ (sub e v d j).bits := by
  cases e <;> exact Nat.mod_lt _ (Nat.two_pow_pos _)

theorem byteAt_sub (e : Endian) (v : Const) (d j i : Nat) (hi : i < j) (hd : d + j ≤ v.bits / 8) :
    byteAt e (sub e v d j) i = byteAt e v (d + i) := by
  cases e with
  | little =>
    simp only [byteAt, sub, p256]
    rw [mod_div_mod _ _ _ hi, div_pow_div]
    congr 4; omega
  | big =>
    simp only [byteAt, sub, p256]
    have : 8 * j / 8 - 1 - i < j := by omega
    rw [mod_div_mod _ _ _ this, div_pow_div]
    congr 4; omega


/-! ### bytes of a value -/
theorem valLE_bytes (x j : Nat) :
    valLE ((List.range j).map (fun i => UInt8.ofNat (x / 256 ^ i % 256))) = x % 256 ^ j := by
  induction j generalizing x with
  | zero => simp [valLE, Nat.mod_one]
  | succ j ih =>
    rw [List.range_succ_eq_map]
    simp only [List.map_cons, List.map_map, valLE]
    have : ((fun i => UInt8.ofNat (x / 256 ^ i % 256)) ∘ Nat.succ) = (fun i => UInt8.ofNat (x / 256 / 256 ^ i % 256)) := by
      funext i; simp [Nat.pow_succ, Nat.div_div_eq_div_mul, Nat.mul_comm]
    rw [this, ih]
    simp [Nat.pow_succ, Nat.mod_mul, Nat.mul_comm]

@[simp] theorem bytesOf_length (e : Endian) (v : Const) : (bytesOf e v).length = v.bits / 8 := by
  simp [bytesOf]

theorem bytesOf_getElem? (e : Endian) (v : Const) (i : Nat) (h : i < v.bits / 8) :
    (bytesOf e v)[i]? = some (byteAt e v i) := by
  simp [bytesOf, h]

theorem bytesOf_big (v : Const) : bytesOf .big v = (bytesOf .little v).reverse := by
  apply List.ext_getElem
  · simp
  · intro i h1 h2
    simp only [bytesOf_length] at h1
    simp only [List.getElem_reverse, bytesOf, List.getElem_map, List.getElem_range, byteAt, List.length_map, List.length_range]

theorem fromBytes_bytesOf (e : Endian) (c : Const) (h8 : c.bits % 8 = 0) (wf : c.val < 2 ^ c.bits) :
    fromBytes e (bytesOf e c) = c := by
  have hb : 8 * (c.bits / 8) = c.bits := by omega
  have hv : valLE (bytesOf .little c) = c.val := by
    show valLE ((List.range (c.bits / 8)).map (fun i => UInt8.ofNat (c.val / 256 ^ i % 256))) = c.val
    rw [valLE_bytes, p256, hb]; exact Nat.mod_eq_of_lt wf
  cases e with
  | little =>
    simp only [fromBytes, bytesOf_length, hb, hv]
  | big =>
    simp only [fromBytes, bytesOf_length, hb, bytesOf_big, List.reverse_reverse, List.length_reverse, hv]

end Paged
end Falcon
