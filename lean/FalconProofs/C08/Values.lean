/-
  FalconProofs.C08.Values — the `Value` operations of `il::Constant` in closed form, and the byte
  algebra the paged-memory proofs run on (`byteAt`, `bytesOf`, `fromBytes`).
-/
import FalconModel.Paged

namespace Falcon
namespace Paged

theorem U64_eq : U64 = 18446744073709551616 := by decide

/-! ### checked arithmetic -/

theorem cadd_ok {x y : Nat} (h : x + y < U64) : cadd x y = .ok (x + y) := by simp [cadd, h]
theorem csub_ok {x y : Nat} (h : y ≤ x) : csub x y = .ok (x - y) := by simp [csub, h]
theorem cmul_ok {x y : Nat} (h : x * y < U64) : cmul x y = .ok (x * y) := by simp [cmul, h]

/-! ### the five `Value` operations -/

theorem vtrun_eq (c : Const) (n : Nat) :
    vtrun c n = if c.bits ≤ n ∨ c.bits = 0 then .err .sort else .ok (Const.new c.val n) := by
  unfold vtrun Expr.mkExt
  by_cases h : c.bits ≤ n ∨ c.bits = 0
  · simp [Expr.bits, h]
  · have h1 : ¬ n ≥ c.bits := by omega
    have h2 : ¬ c.bits ≤ n := by omega
    have h3 : c.bits ≠ 0 := by omega
    simp [Expr.bits, h2, h3, Expr.eval, ExtOp.apply, Const.trun, h1]

theorem vzext_eq (c : Const) (n : Nat) :
    vzext c n = if c.bits ≥ n ∨ c.bits = 0 then .err .sort else .ok (Const.new c.val n) := by
  unfold vzext Expr.mkExt
  by_cases h : c.bits ≥ n ∨ c.bits = 0
  · simp [Expr.bits, h]
  · have h1 : ¬ n ≤ c.bits := by omega
    have h2 : ¬ c.bits ≥ n := by omega
    have h3 : c.bits ≠ 0 := by omega
    simp [Expr.bits, h2, h3, Expr.eval, ExtOp.apply, Const.zext, h1]

theorem vshr_eq (c : Const) (n : Nat) :
    vshr c n = Const.shr c (Const.new (n % 2 ^ 64) c.bits) := by
  simp [vshr, Expr.mkBin, Expr.bits, Expr.ec, Const.new, Expr.eval, BinOp.apply]

theorem vshl_eq (c : Const) (n : Nat) :
    vshl c n = Const.shl c (Const.new (n % 2 ^ 64) c.bits) := by
  simp [vshl, Expr.mkBin, Expr.bits, Expr.ec, Const.new, Expr.eval, BinOp.apply]

theorem vor_eq (a b : Const) : vor a b = Const.or a b := by
  unfold vor Expr.mkBin Const.or
  by_cases h : a.bits = b.bits <;> simp [Expr.bits, h, Expr.eval, BinOp.apply, Const.or]

end Paged
end Falcon
