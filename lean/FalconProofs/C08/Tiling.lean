/-
  FalconProofs.C08.Tiling — replacing the cells of a range `[P, Q)` whose two ends are value boundaries
  by a tiling of fresh values preserves the invariant; the bytes outside the range do not change and
  the bytes inside are those of the fresh values.  `store` is one instance (three fresh values).
-/
import FalconProofs.C08.Load

namespace Falcon
namespace Paged

theorem cell_none_of_ge {m : Mem} (I : Inv m) {x : Nat} (h : U64 ≤ x) : loadCell m x = none := by
  cases hc : loadCell m x with
  | none => rfl
  | some c =>
    cases c with
    | value v =>
      obtain ⟨g, hb, _⟩ := I.val x v hc
      have := g.bytes_pos; omega
    | backref b =>
      obtain ⟨v, hv, _, hcov⟩ := I.ref x b hc
      obtain ⟨_, hb, _⟩ := I.val b v hv
      omega

/-- `s` starts the fresh value `u` in `m'` -/
structure Piece (m' : Mem) (s : Nat) (u : Const) : Prop where
  good : Good u
  head : loadCell m' s = some (.value u)
  refs : ∀ i, 0 < i → i < u.bits / 8 → loadCell m' (s + i) = some (.backref s)

/-- `m'` is `m` with the range `[P, Q)` re-tiled -/
structure Retiled (m m' : Mem) (P Q : Nat) : Prop where
  endian : m'.endian = m.endian
  backing : m'.backing = m.backing
  hQ : Q ≤ U64
  startB : ∀ y, loadCell m P ≠ some (.backref y)
  endB : ∀ y, loadCell m Q ≠ some (.backref y)
  out : ∀ x, ¬ (P ≤ x ∧ x < Q) → loadCell m' x = loadCell m x
  inn : ∀ x, P ≤ x → x < Q → ∃ s u, Piece m' s u ∧ P ≤ s ∧ s + u.bits / 8 ≤ Q ∧ s ≤ x ∧ x < s + u.bits / 8

theorem Piece.cell_at {m' : Mem} {s : Nat} {u : Const} (p : Piece m' s u) {x : Nat} (h1 : s ≤ x)
    (h2 : x < s + u.bits / 8) :
    loadCell m' x = if x = s then some (.value u) else some (.backref s) := by
  by_cases h : x = s
  · subst h; simp [p.head]
  · have := p.refs (x - s) (by omega) (by omega)
    rw [show s + (x - s) = x by omega] at this
    simp [h, this]

theorem Piece.owner_at {m' : Mem} {s : Nat} {u : Const} (p : Piece m' s u) {x : Nat} (h1 : s ≤ x)
    (h2 : x < s + u.bits / 8) : owner m' x = some (u, x - s) := by
  have hc := p.cell_at h1 h2
  by_cases h : x = s
  · subst h; simp [owner, p.head]
  · simp only [h, if_false] at hc
    simp [owner, hc, p.head]

/-- a back-reference outside the range points outside the range -/
theorem Retiled.ref_outside {m m' : Mem} {P Q : Nat} (I : Inv m) (R : Retiled m m' P Q) {x y : Nat}
    (hx : ¬ (P ≤ x ∧ x < Q)) (hc : loadCell m x = some (.backref y)) : ¬ (P ≤ y ∧ y < Q) := by
  obtain ⟨u, hu, hlt, hcov⟩ := I.ref x y hc
  obtain ⟨_, _, hrefs⟩ := I.val y u hu
  intro hy
  by_cases hxq : x = Q
  · subst hxq; exact R.endB y hc
  · have hxQ : Q < x := by omega
    have := hrefs (Q - y) (by omega) (by omega)
    rw [show y + (Q - y) = Q by omega] at this
    exact R.endB y this

theorem Retiled.inv {m m' : Mem} {P Q : Nat} (I : Inv m) (R : Retiled m m' P Q) : Inv m' := by
  constructor
  · intro x u hc
    by_cases hx : P ≤ x ∧ x < Q
    · obtain ⟨s, w, p, hPs, hsQ, hsx, hxs⟩ := R.inn x hx.1 hx.2
      have hcell := p.cell_at hsx hxs
      by_cases hxs' : x = s
      · subst hxs'
        rw [p.head] at hc
        simp only [Option.some.injEq, Cell.value.injEq] at hc
        subst hc
        exact ⟨p.good, by have := R.hQ; omega, p.refs⟩
      · simp only [hxs', if_false] at hcell
        rw [hcell] at hc; cases hc
    · rw [R.out x hx] at hc
      obtain ⟨g, hb, hrefs⟩ := I.val x u hc
      refine ⟨g, hb, ?_⟩
      intro i hi0 hi
      have hout : ¬ (P ≤ x + i ∧ x + i < Q) := by
        intro hin
        have hxP : x < P := by omega
        have := hrefs (P - x) (by omega) (by omega)
        rw [show x + (P - x) = P by omega] at this
        exact R.startB x this
      rw [R.out _ hout]
      exact hrefs i hi0 hi
  · intro x y hc
    by_cases hx : P ≤ x ∧ x < Q
    · obtain ⟨s, w, p, hPs, hsQ, hsx, hxs⟩ := R.inn x hx.1 hx.2
      have hcell := p.cell_at hsx hxs
      by_cases hxs' : x = s
      · simp only [hxs', if_true] at hcell
        rw [hxs', p.head] at hc; cases hc
      · simp only [hxs', if_false] at hcell
        rw [hcell] at hc
        simp only [Option.some.injEq, Cell.backref.injEq] at hc
        subst hc
        exact ⟨w, p.head, by omega, hxs⟩
    · rw [R.out x hx] at hc
      have hy := R.ref_outside I hx hc
      obtain ⟨u, hu, hlt, hcov⟩ := I.ref x y hc
      exact ⟨u, by rw [R.out y hy]; exact hu, hlt, hcov⟩

theorem Retiled.owner_out {m m' : Mem} {P Q : Nat} (I : Inv m) (R : Retiled m m' P Q) {x : Nat}
    (hx : ¬ (P ≤ x ∧ x < Q)) : owner m' x = owner m x := by
  unfold owner
  rw [R.out x hx]
  cases hc : loadCell m x with
  | none => rfl
  | some c =>
    cases c with
    | value v => rfl
    | backref y =>
      have hy := R.ref_outside I hx hc
      simp only [R.out y hy]

theorem Retiled.abs_out {m m' : Mem} {P Q : Nat} (I : Inv m) (R : Retiled m m' P Q) {x : Nat}
    (hx : ¬ (P ≤ x ∧ x < Q)) : abs m' x = abs m x := by
  simp only [abs, R.owner_out I hx, R.endian, backingGet8, R.backing]

end Paged
end Falcon
