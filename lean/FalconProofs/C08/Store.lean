/-
  FalconProofs.C08.Store — `Memory::store`: its three phases as three fresh values tiling a range whose
  ends are value boundaries (FalconProofs.C08.Tiling).
-/
import FalconProofs.C08.Tiling

namespace Falcon
namespace Paged

/-! ### the two loads `store` performs always take the fast path -/

theorem load_owner_fast {m : Mem} (I : Inv m) {a : Nat} {v : Const} {d : Nat}
    (ho : owner m a = some (v, d)) (j : Nat) (hj : 0 < j) (hle : j ≤ v.bits / 8 - d) (hs : 8 * j < 2 ^ 63) :
    load m a (8 * j) = .ok (some (sub m.endian v d j)) := by
  unfold load
  have hm8 : ¬ (8 * j % 8 ≠ 0) := by omega
  have hn0 : ¬ (8 * j = 0) := by omega
  rw [if_neg hm8, if_neg hn0, loadFirst_spec I a j hj hs, Res.bind_ok]
  have hm : min j (v.bits / 8 - d) = j := by omega
  simp only [ho, hm, sub_bits, if_true, Res.pure_eq]

/-- loading a proper prefix of a value cell needs nothing but the cell -/
theorem load_value_fast {m : Mem} {a : Nat} {v : Const} (hc : loadCell m a = some (.value v)) (g : Good v)
    (j : Nat) (hj : 0 < j) (hlt : j < v.bits / 8) :
    load m a (8 * j) = .ok (some (sub m.endian v 0 j)) := by
  have hb := g.bits_eq
  have hb64 : v.bits < 2 ^ 64 := by have := g.small; omega
  unfold load loadFirst
  have hm8 : ¬ (8 * j % 8 ≠ 0) := by omega
  have hn0 : ¬ (8 * j = 0) := by omega
  have h1 : ¬ v.bits ≤ 8 * j := by omega
  rw [if_neg hm8, if_neg hn0]
  simp only [hc, h1, if_false]
  cases he : m.endian with
  | little =>
    simp only [vtrun_eq]
    have h2 : ¬ (v.bits ≤ 8 * j ∨ v.bits = 0) := by omega
    simp [h2, sub, Const.new, Const.trim]
  | big =>
    simp only []
    rw [csub_ok (by omega), Res.bind_ok, vshr_ok (by omega) hb64, Res.bind_ok, vtrun_mod _ _ (by omega),
      Res.bind_ok]
    simp only [Res.pure_eq, Res.bind_ok, sub, if_true]
    congr 6; omega

/-! ### one phase = one stage -/

/-- `m'` is `m` with `[P, Q)` overwritten by one value whose bytes are `bytes` (nothing if `P = Q`) -/
structure Stage (m m' : Mem) (P Q : Nat) (bytes : Bytes) : Prop where
  endian : m'.endian = m.endian
  backing : m'.backing = m.backing
  out : ∀ x, ¬ (P ≤ x ∧ x < Q) → loadCell m' x = loadCell m x
  piece : P < Q → ∃ u, Good u ∧ u.bits / 8 = Q - P ∧ loadCell m' P = some (.value u) ∧
    (∀ i, 0 < i → i < Q - P → loadCell m' (P + i) = some (.backref P)) ∧
    ∀ i, i < Q - P → some (byteAt m.endian u i) = bytes (P + i)

theorem stage_none (m : Mem) (P : Nat) (bytes : Bytes) : Stage m (rehome m none) P P bytes :=
  ⟨rfl, rfl, fun _ _ => rfl, fun h => absurd h (Nat.lt_irrefl _)⟩

theorem stage_some (m : Mem) (P Q : Nat) (u : Const) (bytes : Bytes) (g : Good u) (hk : u.bits / 8 = Q - P)
    (hb : ∀ i, i < Q - P → some (byteAt m.endian u i) = bytes (P + i)) :
    Stage m (rehome m (some (P, u))) P Q bytes := by
  have hpos := g.bytes_pos
  refine ⟨by simp [rehome], by simp [rehome], ?_, ?_⟩
  · intro x hx
    simp only [rehome, loadCell_storeNoBackref _ _ _ _ hpos]
    have h1 : ¬ x = P := by omega
    have h2 : ¬ (P < x ∧ x < P + u.bits / 8) := by omega
    rw [if_neg h1, if_neg h2]
  · intro _
    refine ⟨u, g, hk, ?_, ?_, hb⟩
    · simp [rehome, loadCell_storeNoBackref _ _ _ _ hpos]
    · intro i hi0 hi
      simp only [rehome, loadCell_storeNoBackref _ _ _ _ hpos]
      have h1 : ¬ P + i = P := by omega
      have h2 : P < P + i ∧ P + i < P + u.bits / 8 := by omega
      rw [if_neg h1, if_pos h2]

theorem owner_of_ref {m : Mem} {a b : Nat} {w : Const} (hc : loadCell m a = some (.backref b))
    (hw : loadCell m b = some (.value w)) : owner m a = some (w, a - b) := by
  simp [owner, hc, hw]

theorem owner_of_val {m : Mem} {a : Nat} {w : Const} (hc : loadCell m a = some (.value w)) :
    owner m a = some (w, 0) := by
  simp [owner, hc]

/-- phase 1 -/
theorem tail_phase {m : Mem} (I : Inv m) (E : Nat) (hE : E ≤ U64) :
    ∃ tl F, storeTailOpt m E = Res.ok tl ∧ E ≤ F ∧ F ≤ U64 ∧
      (∀ y, loadCell m F ≠ some (.backref y)) ∧ Stage m (rehome m tl) E F (abs m) := by
  unfold storeTailOpt
  by_cases hEU : E ≥ U64
  · refine ⟨none, E, by simp [hEU], Nat.le_refl _, hE, ?_, stage_none m E _⟩
    intro y; rw [cell_none_of_ge I hEU]; simp
  · rw [if_neg hEU]
    unfold storeTail
    cases hc : loadCell m E with
    | none => exact ⟨none, E, rfl, Nat.le_refl _, hE, by intro y; rw [hc]; simp, stage_none m E _⟩
    | some c =>
      cases c with
      | value v => exact ⟨none, E, rfl, Nat.le_refl _, hE, by intro y; rw [hc]; simp, stage_none m E _⟩
      | backref b =>
        obtain ⟨w, hw, hlt, hcov⟩ := I.ref E b hc
        obtain ⟨g, hwb, hrefs⟩ := I.val b w hw
        have hbits := g.bits_eq
        have hsm := g.small
        have ho := owner_of_ref hc hw
        obtain ⟨_, _, _, _, _, _, _, hall⟩ := I.owner_spec ho
        simp only [hw]
        rw [csub_ok (by omega), Res.bind_ok, cmul_ok (by rw [U64_eq]; omega), Res.bind_ok,
          csub_ok (by omega), Res.bind_ok]
        have hleft : w.bits - (E - b) * 8 = 8 * (w.bits / 8 - (E - b)) := by omega
        rw [hleft, load_owner_fast I ho _ (by omega) (Nat.le_refl _) (by omega), Res.bind_ok]
        refine ⟨some (E, sub m.endian w (E - b) (w.bits / 8 - (E - b))), b + w.bits / 8, rfl, by omega, hwb, ?_, ?_⟩
        · intro y hy
          obtain ⟨u, hu, hylt, hycov⟩ := I.ref _ y hy
          obtain ⟨_, _, hyrefs⟩ := I.val y u hu
          by_cases h1 : y < b
          · have hk1 : 0 < b - y := by omega
            have hk2 : b - y < u.bits / 8 := by omega
            have := hyrefs (b - y) hk1 hk2
            rw [show y + (b - y) = b by omega, hw] at this; cases this
          · by_cases h2 : y = b
            · subst h2
              rw [hw] at hu
              simp only [Option.some.injEq, Cell.value.injEq] at hu
              subst hu; omega
            · have := hrefs (y - b) (by omega) (by omega)
              rw [show b + (y - b) = y by omega, hu] at this; cases this
        · apply stage_some
          · exact ⟨by simp, by simp; omega, by simpa using sub_wf _ _ _ _, by simp; omega⟩
          · simp; omega
          · intro i hi
            rw [byteAt_sub _ _ _ _ _ (by omega) (by omega)]
            have := hall (E - b + i) (by omega)
            rw [show E - (E - b) + (E - b + i) = E + i by omega] at this
            rw [abs_of_owner_some this]

/-- phase 2, on the memory after phase 1 (which agrees with `m` below `E`) -/
theorem head_phase {m m1 : Mem} (I : Inv m) (A E : Nat) (hAE : A < E)
    (hsame : ∀ x, x < E → loadCell m1 x = loadCell m x) (hend : m1.endian = m.endian) :
    ∃ hd B, storeHead m1 A = Res.ok hd ∧ B ≤ A ∧
      (∀ y, loadCell m B ≠ some (.backref y)) ∧ Stage m1 (rehome m1 hd) B A (abs m) := by
  unfold storeHead
  rw [hsame A hAE]
  cases hc : loadCell m A with
  | none => exact ⟨none, A, rfl, Nat.le_refl _, by intro y; simp [hc], stage_none m1 A _⟩
  | some c =>
    cases c with
    | value v => exact ⟨none, A, rfl, Nat.le_refl _, by intro y; simp [hc], stage_none m1 A _⟩
    | backref b =>
      obtain ⟨w, hw, hlt, hcov⟩ := I.ref A b hc
      obtain ⟨g, hwb, hrefs⟩ := I.val b w hw
      have hbits := g.bits_eq
      have hsm := g.small
      have ho := owner_of_val hw
      obtain ⟨_, _, _, _, _, _, _, hall⟩ := I.owner_spec ho
      simp only []
      rw [csub_ok (by omega), Res.bind_ok, cmul_ok (by rw [U64_eq]; omega), Res.bind_ok,
        Nat.mul_comm, load_value_fast (by rw [hsame b (by omega)]; exact hw) g _ (by omega) (by omega),
        Res.bind_ok]
      refine ⟨some (b, sub m1.endian w 0 (A - b)), b, rfl, by omega, by intro y; simp [hw], ?_⟩
      apply stage_some
      · exact ⟨by simp, by simp; omega, by simpa using sub_wf _ _ _ _, by simp; omega⟩
      · simp
      · intro i hi
        rw [byteAt_sub _ _ _ _ _ (by omega) (by omega)]
        have := hall i (by omega)
        rw [show b - 0 + i = b + i by omega] at this
        rw [abs_of_owner_some this, hend, Nat.zero_add]


/-! ### the three stages together -/

theorem Stage.lift {ma mb m3 : Mem} {P Q : Nat} {bytes : Bytes} (S : Stage ma mb P Q bytes) (hPQ : P < Q)
    (hkeep : ∀ x, P ≤ x → x < Q → loadCell m3 x = loadCell mb x) (hend : m3.endian = ma.endian) :
    ∃ u, Piece m3 P u ∧ u.bits / 8 = Q - P ∧ ∀ x, P ≤ x → x < Q → abs m3 x = bytes x := by
  obtain ⟨u, g, hk, hhead, hrefs, hb⟩ := S.piece hPQ
  have p : Piece m3 P u := ⟨g, by rw [hkeep P (Nat.le_refl _) hPQ]; exact hhead, by
    intro i hi0 hi
    rw [hkeep (P + i) (by omega) (by omega)]
    exact hrefs i hi0 (by omega)⟩
  refine ⟨u, p, hk, ?_⟩
  intro x hx1 hx2
  rw [abs_of_owner_some (p.owner_at hx1 (by omega)), hend, hb (x - P) (by omega)]
  congr 1; omega

theorem store_spec {m : Mem} (I : Inv m) (A : Nat) (v : Const) (g : Good v) (hfit : A + v.bits / 8 ≤ U64) :
    ∃ m', store m A v = .ok m' ∧ Inv m' ∧ abs m' = write (abs m) A (bytesOf m.endian v) ∧
      m'.endian = m.endian ∧ m'.backing = m.backing := by
  have hpos := g.bytes_pos
  unfold store
  have h1 : ¬ (v.bits % 8 ≠ 0 ∨ v.bits = 0) := by have := g.dvd; have := g.pos; omega
  have h2 : ¬ (A + (v.bits / 8 - 1) ≥ U64) := by omega
  rw [if_neg h1, if_neg h2]
  obtain ⟨tl, F, htl, hEF, hFU, hendB, S1⟩ := tail_phase I (A + v.bits / 8) hfit
  simp only []
  rw [htl, Res.bind_ok]
  obtain ⟨hd, B, hhd, hBA, hstartB, S2⟩ := head_phase (m1 := rehome m tl) I A (A + v.bits / 8) (by omega)
    (fun x hx => S1.out x (by omega)) S1.endian
  rw [hhd, Res.bind_ok]
  simp only [Res.pure_eq]
  have hend2 : (rehome (rehome m tl) hd).endian = m.endian := S2.endian.trans S1.endian
  have S3 : Stage (rehome (rehome m tl) hd) (storeNoBackref (rehome (rehome m tl) hd) A v) A (A + v.bits / 8)
      (write (abs m) A (bytesOf m.endian v)) := by
    apply stage_some _ A (A + v.bits / 8) v _ g (by omega)
    intro i hi
    have hin : A ≤ A + i ∧ A + i < A + (bytesOf m.endian v).length := by simp; omega
    show _ = (if A ≤ A + i ∧ A + i < A + (bytesOf m.endian v).length then (bytesOf m.endian v)[A + i - A]?
      else abs m (A + i))
    rw [if_pos hin, Nat.add_sub_cancel_left, bytesOf_getElem? _ _ _ (by omega), hend2]
  refine ⟨_, rfl, ?_⟩
  have hend3 : (storeNoBackref (rehome (rehome m tl) hd) A v).endian = m.endian := S3.endian.trans hend2
  -- the three lifted pieces
  have L1 := fun (h : A + v.bits / 8 < F) => S1.lift (m3 := storeNoBackref (rehome (rehome m tl) hd) A v) h
    (fun x hx1 hx2 => by rw [S3.out x (by omega), S2.out x (by omega)]) hend3
  have L2 := fun (h : B < A) => S2.lift (m3 := storeNoBackref (rehome (rehome m tl) hd) A v) h
    (fun x hx1 hx2 => by rw [S3.out x (by omega)]) (hend3.trans S1.endian.symm)
  have L3 := S3.lift (m3 := storeNoBackref (rehome (rehome m tl) hd) A v) (by omega)
    (fun x hx1 hx2 => rfl) (hend3.trans hend2.symm)
  have R : Retiled m (storeNoBackref (rehome (rehome m tl) hd) A v) B F := by
    refine ⟨hend3, (S3.backing.trans S2.backing).trans S1.backing, hFU, hstartB, hendB, ?_, ?_⟩
    · intro x hx
      rw [S3.out x (by omega), S2.out x (by omega), S1.out x (by omega)]
    · intro x hx1 hx2
      by_cases c1 : x < A
      · obtain ⟨u, p, hk, _⟩ := L2 (by omega)
        exact ⟨B, u, p, Nat.le_refl _, by omega, hx1, by omega⟩
      · by_cases c2 : x < A + v.bits / 8
        · obtain ⟨u, p, hk, _⟩ := L3
          exact ⟨A, u, p, hBA, by omega, by omega, by omega⟩
        · obtain ⟨u, p, hk, _⟩ := L1 (by omega)
          exact ⟨A + v.bits / 8, u, p, by omega, by omega, by omega, by omega⟩
  refine ⟨R.inv I, ?_, hend3, R.backing⟩
  funext x
  by_cases c0 : B ≤ x ∧ x < F
  · by_cases c1 : x < A
    · obtain ⟨u, p, hk, hb⟩ := L2 (by omega)
      rw [hb x c0.1 c1]
      have : ¬ (A ≤ x ∧ x < A + (bytesOf m.endian v).length) := by omega
      simp only [write, this, if_false]
    · by_cases c2 : x < A + v.bits / 8
      · obtain ⟨u, p, hk, hb⟩ := L3
        exact hb x (by omega) c2
      · obtain ⟨u, p, hk, hb⟩ := L1 (by omega)
        rw [hb x (by omega) c0.2]
        have : ¬ (A ≤ x ∧ x < A + (bytesOf m.endian v).length) := by simp; omega
        simp only [write, this, if_false]
  · rw [R.abs_out I c0]
    have : ¬ (A ≤ x ∧ x < A + (bytesOf m.endian v).length) := by simp; omega
    simp only [write, this, if_false]

end Paged
end Falcon
