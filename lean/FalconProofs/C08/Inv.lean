/-
  FalconProofs.C08.Inv — the representation invariant of the cell map, the abstraction to a byte
  array, and the "owner" view: which stored value covers an address, and at which of its bytes.
-/
import FalconProofs.C08.Cells

namespace Falcon
namespace Paged

/-- the representation invariant: every value cell is followed by exactly its back-references, every
    back-reference points into a value covering it, and values end inside the address space -/
structure Inv (m : Mem) : Prop where
  val : ∀ a v, loadCell m a = some (.value v) →
    Good v ∧ a + v.bits / 8 ≤ U64 ∧ ∀ i, 0 < i → i < v.bits / 8 → loadCell m (a + i) = some (.backref a)
  ref : ∀ a b, loadCell m a = some (.backref b) →
    ∃ v, loadCell m b = some (.value v) ∧ b < a ∧ a < b + v.bits / 8

/-- the value covering address `a` and the index of `a`'s byte in it -/
def owner (m : Mem) (a : Nat) : Option (Const × Nat) :=
  match loadCell m a with
  | some (.value v) => some (v, 0)
  | some (.backref b) =>
    match loadCell m b with
    | some (.value v) => some (v, a - b)
    | _ => none
  | none => none

/-- the byte array a memory denotes -/
def abs (m : Mem) : Bytes := fun a =>
  match owner m a with
  | some (v, d) => some (byteAt m.endian v d)
  | none => backingGet8 m a

theorem Good.bytes_pos {v : Const} (g : Good v) : 0 < v.bits / 8 := by
  have := g.dvd; have := g.pos; omega

theorem Good.bits_eq {v : Const} (g : Good v) : 8 * (v.bits / 8) = v.bits := by
  have := g.dvd; omega

/-- what the invariant says in the owner view -/
theorem Inv.owner_spec {m : Mem} (I : Inv m) {a : Nat} {v : Const} {d : Nat}
    (h : owner m a = some (v, d)) :
    Good v ∧ d < v.bits / 8 ∧ d ≤ a ∧ a - d + v.bits / 8 ≤ U64 ∧
    loadCell m (a - d) = some (.value v) ∧
    (d = 0 → loadCell m a = some (.value v)) ∧
    (0 < d → loadCell m a = some (.backref (a - d))) ∧
    ∀ i, i < v.bits / 8 → owner m (a - d + i) = some (v, i) := by
  unfold owner at h
  -- both cases reduce to: value `v` at `s = a - d`
  have key : ∀ s, loadCell m s = some (.value v) →
      ∀ i, i < v.bits / 8 → owner m (s + i) = some (v, i) := by
    intro s hs i hi
    obtain ⟨_, _, hb⟩ := I.val s v hs
    by_cases h0 : i = 0
    · subst h0; simp [owner, hs]
    · have := hb i (by omega) hi
      simp only [owner, this, hs]
      congr 2; omega
  split at h
  · rename_i w hc
    simp only [Option.some.injEq, Prod.mk.injEq] at h
    obtain ⟨rfl, rfl⟩ := h
    obtain ⟨g, hb, _⟩ := I.val a w hc
    have := g.bytes_pos
    refine ⟨g, this, Nat.zero_le _, by simpa using hb, by simpa using hc, fun _ => hc, fun h => absurd h (Nat.lt_irrefl 0), ?_⟩
    intro i hi; simpa using key a hc i hi
  · rename_i b hc
    obtain ⟨w, hw, hlt, hcov⟩ := I.ref a b hc
    simp only [hw, Option.some.injEq, Prod.mk.injEq] at h
    obtain ⟨rfl, rfl⟩ := h
    obtain ⟨g, hb, _⟩ := I.val b w hw
    have e : a - (a - b) = b := by omega
    refine ⟨g, by omega, by omega, by rw [e]; exact hb, by rw [e]; exact hw, fun h => by omega, fun _ => by rw [e]; exact hc, ?_⟩
    intro i hi; rw [e]; exact key b hw i hi
  · simp at h

end Paged
end Falcon
