/-
  FalconProofs.C08.History — arbitrary finite operation sequences: the model run next to the byte-array
  run.
-/
import FalconProofs.C08.Frame

namespace Falcon
namespace Paged

inductive Op where
  | store (a : Nat) (v : Const)
  | load (a n : Nat)
  | setPerm (a len p : Nat)

inductive Ans where
  | stored                       -- `Ok(())`
  | rejected                     -- `Err(_)`
  | loaded (r : Option Const)    -- `Ok(r)`
  | permSet
  | fault                        -- an error from `load`, or a panic
  deriving DecidableEq

/-- the operations the property speaks about: values are reduced (`val < 2^bits`, which every falcon
    constructor guarantees), widths fit a `usize` comfortably, ranges end inside the address space.
    Stores of a width that is not a positive multiple of 8 are allowed (they must be rejected). -/
def Op.inDomain : Op → Prop
  | .store a v => v.val < 2 ^ v.bits ∧ v.bits < 2 ^ 63 ∧ a + v.bits / 8 ≤ U64
  | .load a n => n % 8 = 0 ∧ 0 < n ∧ n < 2 ^ 63 ∧ a + n / 8 ≤ U64
  | .setPerm _ _ _ => True

/-- the model run: what falcon answers (per the mirror model) -/
def runModel (m : Mem) : List Op → List Ans
  | [] => []
  | .store a v :: t =>
    match store m a v with
    | .ok m' => .stored :: runModel m' t
    | .err _ => .rejected :: runModel m t
    | .panic => .fault :: runModel m t
  | .load a n :: t =>
    (match load m a n with
     | .ok r => .loaded r
     | _ => .fault) :: runModel m t
  | .setPerm a len p :: t => .permSet :: runModel (setPermissions m a len p) t

/-- the specification run: a byte array -/
def runSpec (e : Endian) (b : Bytes) : List Op → List Ans
  | [] => []
  | .store a v :: t =>
    if v.bits % 8 = 0 ∧ 0 < v.bits then .stored :: runSpec e (write b a (bytesOf e v)) t
    else .rejected :: runSpec e b t
  | .load a n :: t => .loaded (read b a (n / 8) e) :: runSpec e b t
  | .setPerm _ _ _ :: t => .permSet :: runSpec e b t

theorem store_non8' (m : Mem) (a : Nat) (v : Const) (h : ¬ (v.bits % 8 = 0 ∧ 0 < v.bits)) :
    store m a v = .err .other := by
  unfold store
  have : v.bits % 8 ≠ 0 ∨ v.bits = 0 := by omega
  rw [if_pos this]

theorem setPermissions_inv {m : Mem} (I : Inv m) (a len p : Nat) : Inv (setPermissions m a len p) :=
  ⟨I.val, I.ref⟩

theorem setPermissions_abs (m : Mem) (a len p : Nat) : abs (setPermissions m a len p) = abs m := rfl
theorem setPermissions_endian (m : Mem) (a len p : Nat) : (setPermissions m a len p).endian = m.endian := rfl

theorem history_gen : ∀ (ops : List Op) (m : Mem), Inv m → (∀ op ∈ ops, op.inDomain) →
    runModel m ops = runSpec m.endian (abs m) ops := by
  intro ops
  induction ops with
  | nil => intro m _ _; rfl
  | cons op t ih =>
    intro m I hdom
    have hop := hdom op (List.mem_cons_self ..)
    have ht : ∀ o ∈ t, o.inDomain := fun o ho => hdom o (List.mem_cons_of_mem _ ho)
    cases op with
    | store a v =>
      obtain ⟨hwf, hsm, hfit⟩ := hop
      by_cases h8 : v.bits % 8 = 0 ∧ 0 < v.bits
      · obtain ⟨m', hst, I', habs, hend, _⟩ := store_spec I a v ⟨h8.1, h8.2, hwf, hsm⟩ hfit
        simp only [runModel, runSpec, hst, h8, and_self, if_true]
        rw [ih m' I' ht, hend, habs]
      · simp only [runModel, runSpec, store_non8' m a v h8, h8, if_false]
        rw [ih m I ht]
    | load a n =>
      obtain ⟨h8, hpos, hsm, hfit⟩ := hop
      simp only [runModel, runSpec, load_spec I a n h8 hpos hsm hfit]
      rw [ih m I ht]
    | setPerm a len p =>
      simp only [runModel, runSpec]
      rw [ih _ (setPermissions_inv I a len p) ht, setPermissions_abs, setPermissions_endian]

theorem inv_new (e : Endian) : Inv (new e) :=
  ⟨fun a v h => by simp [loadCell, new, AList.get] at h, fun a b h => by simp [loadCell, new, AList.get] at h⟩

theorem inv_newWithBacking (e : Endian) (b : Backing) : Inv (newWithBacking e b) :=
  ⟨fun a v h => by simp [loadCell, newWithBacking, AList.get] at h,
   fun a b h => by simp [loadCell, newWithBacking, AList.get] at h⟩

theorem abs_new (e : Endian) : abs (new e) = fun _ => none := rfl
theorem abs_newWithBacking (e : Endian) (b : Backing) : abs (newWithBacking e b) = b.get8 := rfl

end Paged
end Falcon
