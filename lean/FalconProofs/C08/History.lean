/-
  FalconProofs.C08.History — arbitrary finite operation sequences: the model run next to the byte-array
  run.
-/
import FalconProofs.C08.Frame

namespace Falcon
namespace Paged

inductive Op where
  | store (a : Nat) (v : Const)
  | load (a n : Nat)
  | setPerm (a len p : Nat)

inductive Ans where
  | stored                       -- `Ok(())`
  | rejected                     -- `Err(_)`
  | loaded (r : Option Const)    -- `Ok(r)`
  | permSet
  | fault                        -- an error from `load`, or a panic
  deriving DecidableEq

/-- the operations the property speaks about: values are reduced (`val < 2^bits`, which every falcon
    constructor guarantees), widths fit a `usize` comfortably, ranges end inside the address space.
    Stores of a width that is not a positive multiple of 8 are allowed (they must be rejected). -/
def Op.inDomain : Op → Prop
  | .store a v => v.val < 2 ^ v.bits ∧ v.bits < 2 ^ 63 ∧ a + v.bits / 8 ≤ U64
  | .load a n => n % 8 = 0 ∧ 0 < n ∧ n < 2 ^ 63 ∧ a + n / 8 ≤ U64
  | .setPerm _ _ _ => True

/-- the answer of a load -/
def ansOfLoad : Res (Option Const) → Ans
  | .ok r => .loaded r
  | _ => .fault

/-- the model run: what falcon answers (per the mirror model) -/
def runModel (m : Mem) : List Op → List Ans
  | [] => []
  | .store a v :: t =>
    match store m a v with
    | .ok m' => .stored :: runModel m' t
    | .err _ => .rejected :: runModel m t
    | .panic => .fault :: runModel m t
  | .load a n :: t => ansOfLoad (load m a n) :: runModel m t
  | .setPerm a len p :: t => .permSet :: runModel (setPermissions m a len p) t

/-- the specification run: a byte array -/
def runSpec (e : Endian) (b : Bytes) : List Op → List Ans
  | [] => []
  | .store a v :: t =>
    if v.bits % 8 = 0 ∧ 0 < v.bits then .stored :: runSpec e (write b a (bytesOf e v)) t
    else .rejected :: runSpec e b t
  | .load a n :: t => .loaded (read b a (n / 8) e) :: runSpec e b t
  | .setPerm _ _ _ :: t => .permSet :: runSpec e b t

theorem store_non8' (m : Mem) (a : Nat) (v : Const) (h : ¬ (v.bits % 8 = 0 ∧ 0 < v.bits)) :
    store m a v = .err .other := by
  unfold store
  have : v.bits % 8 ≠ 0 ∨ v.bits = 0 := by omega
  rw [if_pos this]

theorem setPermissions_inv {m : Mem} (I : Inv m) (a len p : Nat) : Inv (setPermissions m a len p) :=
  ⟨I.val, I.ref⟩

theorem setPermissions_abs (m : Mem) (a len p : Nat) : abs (setPermissions m a len p) = abs m := rfl
theorem setPermissions_endian (m : Mem) (a len p : Nat) : (setPermissions m a len p).endian = m.endian := rfl

theorem history_gen : ∀ (ops : List Op) (m : Mem), Inv m → (∀ op ∈ ops, op.inDomain) →
    runModel m ops = runSpec m.endian (abs m) ops := by
  intro ops
  induction ops with
  | nil => intro m _ _; rfl
  | cons op t ih =>
    intro m I hdom
    have hop := hdom op (List.mem_cons_self ..)
    have ht : ∀ o ∈ t, o.inDomain := fun o ho => hdom o (List.mem_cons_of_mem _ ho)
    cases op with
    | store a v =>
      obtain ⟨hwf, hsm, hfit⟩ := hop
      by_cases h8 : v.bits % 8 = 0 ∧ 0 < v.bits
      · obtain ⟨m', hst, I', habs, hend, _⟩ := store_spec I a v ⟨h8.1, h8.2, hwf, hsm⟩ hfit
        simp only [runModel, runSpec, hst, h8, and_self, if_true]
        rw [ih m' I' ht, hend, habs]
      · simp only [runModel, runSpec, store_non8' m a v h8, h8, if_false]
        rw [ih m I ht]
    | load a n =>
      obtain ⟨h8, hpos, hsm, hfit⟩ := hop
      simp only [runModel, runSpec, load_spec I a n h8 hpos hsm hfit, ansOfLoad]
      rw [ih m I ht]
    | setPerm a len p =>
      simp only [runModel, runSpec]
      rw [ih _ (setPermissions_inv I a len p) ht, setPermissions_abs, setPermissions_endian]

theorem inv_new (e : Endian) : Inv (new e) :=
  ⟨fun a v h => by simp [loadCell, new, AList.get] at h, fun a b h => by simp [loadCell, new, AList.get] at h⟩

theorem inv_newWithBacking (e : Endian) (b : Backing) : Inv (newWithBacking e b) :=
  ⟨fun a v h => by simp [loadCell, newWithBacking, AList.get] at h,
   fun a b h => by simp [loadCell, newWithBacking, AList.get] at h⟩

theorem abs_new (e : Endian) : abs (new e) = fun _ => none := rfl
theorem abs_newWithBacking (e : Endian) (b : Backing) : abs (newWithBacking e b) = b.get8 := rfl


/-! ### several handles and clones (in the model a clone is the same persistent value) -/

/-- one operation on one memory: new state and answer -/
def stepModel (m : Mem) : Op → Mem × Ans
  | .store a v =>
    match store m a v with
    | .ok m' => (m', .stored)
    | .err _ => (m, .rejected)
    | .panic => (m, .fault)
  | .load a n =>
    (m, match load m a n with
        | .ok r => .loaded r
        | _ => .fault)
  | .setPerm a len p => (setPermissions m a len p, .permSet)

def stepSpec (e : Endian) (b : Bytes) : Op → Bytes × Ans
  | .store a v =>
    if v.bits % 8 = 0 ∧ 0 < v.bits then (write b a (bytesOf e v), .stored) else (b, .rejected)
  | .load a n => (b, .loaded (read b a (n / 8) e))
  | .setPerm _ _ _ => (b, .permSet)

theorem step_agree {m : Mem} (I : Inv m) (op : Op) (hd : op.inDomain) :
    Inv (stepModel m op).1 ∧ (stepModel m op).1.endian = m.endian ∧
    abs (stepModel m op).1 = (stepSpec m.endian (abs m) op).1 ∧
    (stepModel m op).2 = (stepSpec m.endian (abs m) op).2 := by
  cases op with
  | store a v =>
    obtain ⟨hwf, hsm, hfit⟩ := hd
    by_cases h8 : v.bits % 8 = 0 ∧ 0 < v.bits
    · obtain ⟨m', hst, I', habs, hend, _⟩ := store_spec I a v ⟨h8.1, h8.2, hwf, hsm⟩ hfit
      simp only [stepModel, stepSpec, hst, h8, and_self, if_true]
      refine ⟨?_, ?_, ?_, ?_⟩ <;> first | exact I' | exact hend | exact habs | trivial
    · simp only [stepModel, stepSpec, store_non8' m a v h8, h8, if_false]
      refine ⟨?_, ?_, ?_, ?_⟩ <;> first | exact I | trivial
  | load a n =>
    obtain ⟨h8, hpos, hsm, hfit⟩ := hd
    simp only [stepModel, stepSpec, load_spec I a n h8 hpos hsm hfit]
    refine ⟨?_, ?_, ?_, ?_⟩ <;> first | exact I | trivial
  | setPerm a len p =>
    exact ⟨setPermissions_inv I a len p, rfl, rfl, rfl⟩

inductive HOp where
  | on (h : Nat) (op : Op)
  | clone (h h' : Nat)      -- h' := h.clone()

def HOp.inDomain : HOp → Prop
  | .on _ op => op.inDomain
  | .clone _ _ => True

def upd {α : Type} (σ : Nat → Option α) (h : Nat) (x : Option α) : Nat → Option α :=
  fun k => if k = h then x else σ k

def runH (σ : Nat → Option Mem) : List HOp → List Ans
  | [] => []
  | .on h op :: t =>
    match σ h with
    | some m => (stepModel m op).2 :: runH (upd σ h (some (stepModel m op).1)) t
    | none => .fault :: runH σ t
  | .clone h h' :: t => runH (upd σ h' (σ h)) t

def runHSpec (σ : Nat → Option (Endian × Bytes)) : List HOp → List Ans
  | [] => []
  | .on h op :: t =>
    match σ h with
    | some (e, b) => (stepSpec e b op).2 :: runHSpec (upd σ h (some (e, (stepSpec e b op).1))) t
    | none => .fault :: runHSpec σ t
  | .clone h h' :: t => runHSpec (upd σ h' (σ h)) t

def absH (σ : Nat → Option Mem) : Nat → Option (Endian × Bytes) :=
  fun h => (σ h).map (fun m => (m.endian, abs m))

theorem absH_upd (σ : Nat → Option Mem) (h : Nat) (x : Option Mem) :
    absH (upd σ h x) = upd (absH σ) h (x.map (fun m => (m.endian, abs m))) := by
  funext k
  simp only [absH, upd]
  split <;> rfl

theorem history_handles_gen : ∀ (ops : List HOp) (σ : Nat → Option Mem),
    (∀ h m, σ h = some m → Inv m) → (∀ op ∈ ops, op.inDomain) →
    runH σ ops = runHSpec (absH σ) ops := by
  intro ops
  induction ops with
  | nil => intro σ _ _; rfl
  | cons op t ih =>
    intro σ hI hdom
    have hop := hdom op (List.mem_cons_self ..)
    have ht : ∀ o ∈ t, o.inDomain := fun o ho => hdom o (List.mem_cons_of_mem _ ho)
    cases op with
    | on h o =>
      cases hm : σ h with
      | none =>
        have : absH σ h = none := by simp [absH, hm]
        simp only [runH, runHSpec, hm, this]
        rw [ih σ hI ht]
      | some m =>
        have hs : absH σ h = some (m.endian, abs m) := by simp [absH, hm]
        obtain ⟨I', he, ha, hans⟩ := step_agree (hI h m hm) o hop
        simp only [runH, runHSpec, hm, hs, hans]
        rw [ih _ (by
          intro k mk hk
          simp only [upd] at hk
          split at hk
          · simp only [Option.some.injEq] at hk; subst hk; exact I'
          · exact hI k mk hk) ht, absH_upd, Option.map_some, he, ha]
    | clone h h' =>
      simp only [runH, runHSpec]
      rw [ih _ (by
        intro k mk hk
        simp only [upd] at hk
        split at hk
        · exact hI h mk hk
        · exact hI k mk hk) ht, absH_upd]
      rfl

end Paged
end Falcon
