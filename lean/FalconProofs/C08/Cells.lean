/-
  FalconProofs.C08.Cells — the cell map: `load_cell` after `store_cell` / `store_no_backref`, and what
  these leave untouched.
-/
import FalconProofs.C08.Values

namespace Falcon
namespace Paged

namespace AList

theorem get_set {β : Type} (l : AList β) (k x : Nat) (v : β) :
    get (set l k v) x = if x = k then some v else get l x := by
  induction l with
  | nil =>
    simp only [set, get]
    by_cases h : k = x
    · simp [h]
    · have : ¬ x = k := fun e => h e.symm
      simp [h, this]
  | cons p t ih =>
    obtain ⟨k', v'⟩ := p
    simp only [set]
    by_cases h : k' = k
    · subst h
      simp only [if_true, get]
      by_cases h2 : k' = x
      · simp [h2]
      · have : ¬ x = k' := fun e => h2 e.symm
        simp [h2, this]
    · simp only [h, if_false, get, ih]
      by_cases h2 : k' = x
      · have : ¬ x = k := by omega
        simp [h2, this]
      · simp [h2]

theorem get_none_of_not_mem {β : Type} (l : AList β) (x : Nat) (h : x ∉ keys l) : get l x = none := by
  induction l with
  | nil => rfl
  | cons p t ih =>
    obtain ⟨k', v'⟩ := p
    simp only [keys, List.map_cons, List.mem_cons, not_or] at h
    have h1 : ¬ k' = x := fun e => h.1 e.symm
    simp only [get, h1, if_false]
    exact ih h.2

end AList

@[simp] theorem storeCell_endian (m : Mem) (a : Nat) (c : Cell) : (storeCell m a c).endian = m.endian := rfl
@[simp] theorem storeCell_backing (m : Mem) (a : Nat) (c : Cell) : (storeCell m a c).backing = m.backing := rfl

theorem loadCell_storeCell (m : Mem) (a : Nat) (c : Cell) (x : Nat) :
    loadCell (storeCell m a c) x = if x = a then some c else loadCell m x := by
  simp only [loadCell, storeCell, AList.get_set]

@[simp] theorem storeBackrefs_endian (m : Mem) (a i k : Nat) : (storeBackrefs m a i k).endian = m.endian := by
  induction k generalizing m i with
  | zero => rfl
  | succ k ih => simp [storeBackrefs, ih]

@[simp] theorem storeBackrefs_backing (m : Mem) (a i k : Nat) : (storeBackrefs m a i k).backing = m.backing := by
  induction k generalizing m i with
  | zero => rfl
  | succ k ih => simp [storeBackrefs, ih]

theorem loadCell_storeBackrefs (m : Mem) (a i k x : Nat) :
    loadCell (storeBackrefs m a i k) x =
      if a + i ≤ x ∧ x < a + i + k then some (.backref a) else loadCell m x := by
  induction k generalizing m i with
  | zero =>
    have : ¬ (a + i ≤ x ∧ x < a + i + 0) := by omega
    rw [if_neg this]; rfl
  | succ k ih =>
    simp only [storeBackrefs, ih, loadCell_storeCell]
    by_cases h1 : a + (i + 1) ≤ x ∧ x < a + (i + 1) + k
    · have : a + i ≤ x ∧ x < a + i + (k + 1) := by omega
      simp [h1, this]
    · by_cases h2 : x = a + i
      · have : a + i ≤ x ∧ x < a + i + (k + 1) := by omega
        simp [h1, h2]
      · have : ¬ (a + i ≤ x ∧ x < a + i + (k + 1)) := by omega
        simp [h1, h2, this]

@[simp] theorem storeNoBackref_endian (m : Mem) (a : Nat) (v : Const) : (storeNoBackref m a v).endian = m.endian := by
  simp [storeNoBackref]
@[simp] theorem storeNoBackref_backing (m : Mem) (a : Nat) (v : Const) : (storeNoBackref m a v).backing = m.backing := by
  simp [storeNoBackref]

theorem loadCell_storeNoBackref (m : Mem) (a : Nat) (v : Const) (x : Nat) (h : 0 < v.bits / 8) :
    loadCell (storeNoBackref m a v) x =
      if x = a then some (.value v)
      else if a < x ∧ x < a + v.bits / 8 then some (.backref a) else loadCell m x := by
  simp only [storeNoBackref, loadCell_storeBackrefs, loadCell_storeCell]
  by_cases h1 : x = a
  · have : ¬ (a + 1 ≤ x ∧ x < a + 1 + (v.bits / 8 - 1)) := by omega
    rw [if_neg this, if_pos h1, if_pos h1]
  · by_cases h2 : a < x ∧ x < a + v.bits / 8
    · have : a + 1 ≤ x ∧ x < a + 1 + (v.bits / 8 - 1) := by omega
      rw [if_pos this, if_neg h1, if_pos h2]
    · have : ¬ (a + 1 ≤ x ∧ x < a + 1 + (v.bits / 8 - 1)) := by omega
      rw [if_neg this, if_neg h1, if_neg h1, if_neg h2]

end Paged
end Falcon
